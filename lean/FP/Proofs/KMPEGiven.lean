import FP.Proofs.KLAEGiven
import FP.Proofs.KMPE
import FP.Proofs.MpeFactors
/-!
# FP.Proofs.KMPEGiven — k-Min-Path-Error with `solution_weights_superset` (DAG): soundness without and
with path-length factors, completeness and optimum transfer without factors

`kmpeGivenLP inp ws originalK` is the LP of `_encode_minpatherror_decomposition_with_given_weights`
followed by `_encode_objective`. There are no weight or `pi` columns: rows 9aa / 9ab multiply the edge
columns by the given numbers; `gamma(e,i) = x(e,i) · slack_i` (the length-scaled slack when
`path_length_factors` is given), and the row `max_paths_original_k_paths` caps the number of used layers.
-/
namespace FP
open FP.Spec FP.Spec.MPE

theorem kmpeGivenLP_obj (inp : MpeInput) (ws : List Rat) (ok : Nat) (a : Asg) :
    evalTerms a (kmpeGivenLP inp ws ok).obj = totalSlack inp.ei.k (fun i => a (slackVar i)) := by
  show evalTerms a (mpeObj inp.ei.k) = _
  unfold mpeObj totalSlack
  rw [evalTerms_ones]

/-- the parts of a satisfying assignment (with or without path-length factors) -/
theorem kmpeg_sat_parts (inp : MpeInput) (ws : List Rat) (ok : Nat) (a : Asg)
    (hsat : Sat a (kmpeGivenLP inp ws ok)) :
    Sat a (encodePaths inp.ei.st inp.ei.fi.cfg) ∧
    (∀ i, i < inp.ei.k → Col.holds a
      { v := slackVar i, lb := 0, ub := some (inp.ei.wmax (some ws)), isInt := inp.ei.fi.weightInt }) ∧
    (∀ e ∈ inp.ei.st.g.edges, ∀ i, i < inp.ei.k → Col.holds a
      { v := gammaVar e i, lb := 0, ub := some (inp.ei.wmax (some ws)), isInt := false }) ∧
    Sat a (factorBlock inp inp.ei.k (inp.ei.wmax (some ws))) ∧
    (∀ e ∈ inp.ei.basicEdges, ∀ i, i < inp.ei.k →
      ∀ r ∈ binProd (edgeVar e i) (inp.slackFor i) (gammaVar e i) 0 (inp.ei.wmax (some ws)), r.holds a) ∧
    (∀ e ∈ inp.ei.basicEdges, ∀ r ∈ errRows (inp.ei.fi.f e) (inp.ei.scale e)
        (klaegSumW inp.ei ws e) (ones (List.range inp.ei.k) (gammaVar e)), r.holds a) ∧
    (rowLe ((List.range inp.ei.k).flatMap fun i =>
        ones (inp.ei.st.g.succ inp.ei.st.source) (fun v => edgeVar (inp.ei.st.source, v) i)) ok).holds a := by
  have h1 := sat_append_left a _ _ hsat
  have h2 := sat_append_left a _ _ h1
  have henc := sat_append_left a _ _ h2
  have hfb := sat_append_right a _ _ h1
  obtain ⟨hcols, _⟩ := sat_append_right a _ _ h2
  obtain ⟨_, hrows⟩ := sat_append_right a _ _ hsat
  simp only at hcols hrows
  refine ⟨henc, ?_, ?_, hfb, ?_, ?_, ?_⟩
  · intro i hi
    exact hcols _ (List.mem_append_left _ (List.mem_map.2 ⟨i, List.mem_range.2 hi, rfl⟩))
  · intro e he i hi
    exact hcols _ (List.mem_append_right _ (List.mem_flatMap.2 ⟨i, List.mem_range.2 hi,
      List.mem_map.2 ⟨e, he, rfl⟩⟩))
  · intro e he i hi r hr
    exact hrows r (List.mem_append_left _ (List.mem_append_left _ (List.mem_flatMap.2 ⟨e, he,
      List.mem_flatMap.2 ⟨i, List.mem_range.2 hi, hr⟩⟩)))
  · intro e he r hr
    exact hrows r (List.mem_append_left _ (List.mem_append_right _ (List.mem_flatMap.2 ⟨e, he, hr⟩)))
  · exact hrows _ (List.mem_append_right _ (List.mem_singleton.2 rfl))

/-- rows 9aa / 9ab, once `gamma(e,i) = x(e,i) · a(sv i)`: the slack inequality of the edge with the
slacks `a (sv i)` -/
theorem kmpeg_slack_ineq (inp : MpeInput) (ws : List Rat) (a : Asg) (P : Nat → List Node) (sv : Nat → Var)
    (e : Edge) (he : e ∈ inp.ei.st.g.edges)
    (hedge : ∀ i, i < inp.ei.k → ∀ e ∈ inp.ei.st.g.edges, a (edgeVar e i) = trav inp.ei.st (P i) e)
    (hgam : ∀ i, i < inp.ei.k → a (gammaVar e i) = a (edgeVar e i) * a (sv i))
    (hrows : ∀ r ∈ errRows (inp.ei.fi.f e) (inp.ei.scale e)
        (klaegSumW inp.ei ws e) (ones (List.range inp.ei.k) (gammaVar e)), r.holds a) :
    (inp.ei.fi.f e - explained inp.ei.st inp.ei.k P (givenW ws) e).abs * inp.ei.scale e
      ≤ explained inp.ei.st inp.ei.k P (fun i => a (sv i)) e := by
  have hsumW := klaeg_sumW_eval inp.ei ws a P e he hedge
  have hsumS : ((List.range inp.ei.k).map fun i => a (gammaVar e i)).sum
      = explained inp.ei.st inp.ei.k P (fun i => a (sv i)) e := by
    apply sum_map_congr
    intro i hi
    have hi' := List.mem_range.1 hi
    rw [hgam i hi', hedge i hi' e he]; grind
  unfold errRows at hrows
  have h1 := (hrows _ List.mem_cons_self).2 _ rfl
  have h2 := (hrows _ (List.mem_cons_of_mem _ List.mem_cons_self)).1 _ rfl
  simp only [rowLe, rowGe, evalTerms_append, evalTerms_negTerms, evalTerms_scaled, evalTerms_ones,
    hsumW, hsumS] at h1 h2
  generalize explained inp.ei.st inp.ei.k P (givenW ws) e = S at *
  generalize explained inp.ei.st inp.ei.k P (fun i => a (sv i)) e = G at *
  unfold Rat.abs; split <;> grind

/-- **soundness of the given-weights k-Min-Path-Error LP** (no path-length factors) -/
theorem kmpe_given_sound (inp : MpeInput) (ws : List Rat) (ok : Nat) (a : Asg)
    (h : BaseWF inp.ei.fi.base) (hac : Acyclic inp.ei.fi.base) (hfac : inp.factors = [])
    (hsat : Sat a (kmpeGivenLP inp ws ok)) :
    ∃ ps : List (List Node),
      decodePaths inp.ei.st (fun e i => a (edgeVar e i)) inp.ei.k = some ps ∧ ps.length = inp.ei.k ∧
      GivenBounded inp.ei ws ok (fun i => ps.getD i []) (fun i => a (slackVar i)) ∧
      (∀ i, i < inp.ei.k → ps.getD i [] ≠ [] →
        ValidRoute inp.ei.fi.base inp.ei.fi.starts inp.ei.fi.ends (ps.getD i []) ∧ (ps.getD i []).Nodup) ∧
      (∀ i, i < inp.ei.k → ∀ e ∈ inp.ei.st.g.edges, a (edgeVar e i) = trav inp.ei.st (ps.getD i []) e) ∧
      (∀ e ∈ inp.ei.basicEdges, ∀ i, i < inp.ei.k →
        a (gammaVar e i) = a (edgeVar e i) * a (slackVar i)) ∧
      evalTerms a (kmpeGivenLP inp ws ok).obj = totalSlack inp.ei.k (fun i => a (slackVar i)) := by
  have hwf : STWF inp.ei.st := augment_wf inp.ei.fi.base inp.ei.fi.starts inp.ei.fi.ends h hac
  obtain ⟨henc, hsc, _, _, hbins, herr, hcap⟩ := kmpeg_sat_parts inp ws ok a hsat
  obtain ⟨ps, hps, hlen, hroutes, hvalid, htrav⟩ := klaeg_decode inp.ei.fi a h hac henc
  have hgam : ∀ e ∈ inp.ei.basicEdges, ∀ i, i < inp.ei.k →
      a (gammaVar e i) = a (edgeVar e i) * a (slackVar i) := by
    intro e he i hi
    have hb := (layerFacts_of_sat inp.ei.st inp.ei.fi.cfg a henc i hi).bin e (mem_basicEdges inp.ei e he)
    have := hbins e he i hi
    rw [slackFor_nil inp hfac] at this
    exact binProd_sound0 a _ _ _ _ hb this
  refine ⟨ps, hps, hlen, ?_, hvalid, htrav, hgam, kmpeGivenLP_obj inp ws ok a⟩
  refine { routes := hroutes, cap := ?_, nonneg := fun i hi => (hsc i hi).1,
           integral := fun hint i hi => (hsc i hi).2.2 hint, slackOK := ?_,
           sle := fun i hi => (hsc i hi).2.1 _ rfl }
  · have hc := hcap.2 _ rfl
    simp only [rowLe] at hc
    rw [klaeg_srcTerms_eval inp.ei.st inp.ei.fi.cfg.allowEmpty inp.ei.k a (fun i => ps.getD i []) hwf
      hroutes htrav] at hc
    exact Rat.natCast_le_natCast.1 hc
  · intro e he
    exact kmpeg_slack_ineq inp ws a (fun i => ps.getD i []) slackVar e (mem_basicEdges inp.ei e he) htrav
      (fun i hi => hgam e he i hi) (herr e he)

/-- **soundness with path-length factors.** For every satisfying assignment of the given-weights LP with
`path_length_factors ≠ []`: every layer's path-length column lies in some range `j` and
`scaled_slack_i = slack_i · factors[j]`; `gamma(e,i) = x(e,i) · scaled_slack_i ≤ w_max`; every
non-ignored edge satisfies `|f(e) − Σ_{i used} ws[i][e ∈ p_i]| · scale(e) ≤ Σ_i scaled_slack_i [e ∈ p_i]`
— rows 9aa / 9ab see the *length-scaled* slack; at most `originalK` layers are used; the objective is the
sum of the unscaled slacks. -/
theorem kmpe_given_factors_sound (inp : MpeInput) (ws : List Rat) (ok : Nat) (a : Asg)
    (h : BaseWF inp.ei.fi.base) (hac : Acyclic inp.ei.fi.base)
    (hne : inp.factors ≠ []) (hlen : inp.ranges.length = inp.factors.length)
    (hLU : ∀ r ∈ inp.ranges, r.1 ≤ r.2)
    (hfb : 0 ≤ listMin inp.factors ∧
      listMax inp.factors ≤ inp.ei.wmax (some ws) * listMax inp.factors)
    (hsat : Sat a (kmpeGivenLP inp ws ok)) :
    ∃ ps : List (List Node),
      decodePaths inp.ei.st (fun e i => a (edgeVar e i)) inp.ei.k = some ps ∧ ps.length = inp.ei.k ∧
      (∀ i, i < inp.ei.k → Route inp.ei.st inp.ei.fi.cfg.allowEmpty (ps.getD i [])) ∧
      (∀ i, i < inp.ei.k → ps.getD i [] ≠ [] →
        ValidRoute inp.ei.fi.base inp.ei.fi.starts inp.ei.fi.ends (ps.getD i []) ∧ (ps.getD i []).Nodup) ∧
      usedCount inp.ei.k (fun i => ps.getD i []) ≤ ok ∧
      (∀ i, i < inp.ei.k → ∀ e ∈ inp.ei.st.g.edges, a (edgeVar e i) = trav inp.ei.st (ps.getD i []) e) ∧
      (∀ i, i < inp.ei.k → 0 ≤ a (slackVar i) ∧ a (slackVar i) ≤ inp.ei.wmax (some ws) ∧
        (inp.ei.fi.weightInt = true → IsInt (a (slackVar i)))) ∧
      (∀ i, i < inp.ei.k → ∃ j, ∃ hj : j < inp.ranges.length,
        (inp.ranges[j]).1 ≤ a (lenVar i) ∧ a (lenVar i) ≤ (inp.ranges[j]).2 ∧
        a (scaledSlackVar i) = a (slackVar i) * inp.factors[j]'(hlen ▸ hj)) ∧
      (∀ e ∈ inp.ei.basicEdges, ∀ i, i < inp.ei.k →
        a (gammaVar e i) = a (edgeVar e i) * a (scaledSlackVar i) ∧
        a (gammaVar e i) ≤ inp.ei.wmax (some ws)) ∧
      (∀ e ∈ inp.ei.basicEdges,
        (inp.ei.fi.f e - explained inp.ei.st inp.ei.k (fun i => ps.getD i []) (givenW ws) e).abs
            * inp.ei.scale e
          ≤ explained inp.ei.st inp.ei.k (fun i => ps.getD i []) (fun i => a (scaledSlackVar i)) e) ∧
      evalTerms a (kmpeGivenLP inp ws ok).obj = totalSlack inp.ei.k (fun i => a (slackVar i)) := by
  have hwf : STWF inp.ei.st := augment_wf inp.ei.fi.base inp.ei.fi.starts inp.ei.fi.ends h hac
  obtain ⟨henc, hsc, hgc, hFB, hbins, herr, hcap⟩ := kmpeg_sat_parts inp ws ok a hsat
  obtain ⟨ps, hps, hlenps, hroutes, hvalid, htrav⟩ := klaeg_decode inp.ei.fi a h hac henc
  have hgam : ∀ e ∈ inp.ei.basicEdges, ∀ i, i < inp.ei.k →
      a (gammaVar e i) = a (edgeVar e i) * a (scaledSlackVar i) := by
    intro e he i hi
    have hb := (layerFacts_of_sat inp.ei.st inp.ei.fi.cfg a henc i hi).bin e (mem_basicEdges inp.ei e he)
    have := hbins e he i hi
    rw [slackFor_cons inp hne] at this
    exact binProd_sound0 a _ _ _ _ hb this
  refine ⟨ps, hps, hlenps, hroutes, hvalid, ?_, htrav, ?_, ?_, ?_, ?_, kmpeGivenLP_obj inp ws ok a⟩
  · have hc := hcap.2 _ rfl
    simp only [rowLe] at hc
    rw [klaeg_srcTerms_eval inp.ei.st inp.ei.fi.cfg.allowEmpty inp.ei.k a (fun i => ps.getD i []) hwf
      hroutes htrav] at hc
    exact Rat.natCast_le_natCast.1 hc
  · intro i hi
    exact ⟨(hsc i hi).1, (hsc i hi).2.1 _ rfl, (hsc i hi).2.2⟩
  · intro i hi
    obtain ⟨hsf, hpw, hip⟩ := factorBlock_parts inp inp.ei.k (inp.ei.wmax (some ws)) hne a hFB i hi
    obtain ⟨j, hj, hl1, hl2, hy⟩ := piecewise_sound a _ _ inp.ranges inp.factors _ hlen hLU hpw
    refine ⟨j, hj, hl1, hl2, ?_⟩
    rw [intProdQ_sound_p07 a _ _ _ 0 _ _ ⟨Rat.le_trans hfb.1 hsf.1, Rat.le_trans hsf.2 hfb.2⟩ hip, hy]
  · intro e he i hi
    exact ⟨hgam e he i hi, (hgc e (mem_basicEdges inp.ei e he) i hi).2.1 _ rfl⟩
  · intro e he
    exact kmpeg_slack_ineq inp ws a (fun i => ps.getD i []) scaledSlackVar e (mem_basicEdges inp.ei e he)
      htrav (fun i hi => hgam e he i hi) (herr e he)

/-! ## completeness (no path-length factors) -/

/-- **completeness**: every bounded choice of at most `originalK` of the given weights with routes and
slacks is represented, with objective `Σ slack_i` -/
theorem kmpe_given_complete (inp : MpeInput) (ws : List Rat) (ok : Nat) (P : Nat → List Node)
    (sl : Nat → Rat) (h : BaseWF inp.ei.fi.base) (hac : Acyclic inp.ei.fi.base) (hfac : inp.factors = [])
    (hcons : inp.ei.fi.cfg.constraints = []) (hlen : inp.ei.fi.cfg.lengths = none)
    (hscale : ∀ e ∈ inp.ei.basicEdges, 0 ≤ inp.ei.scale e)
    (hb : GivenBounded inp.ei ws ok P sl) :
    ∃ a : Asg, Sat a (kmpeGivenLP inp ws ok) ∧
      (∀ i, i < inp.ei.k → ∀ e ∈ inp.ei.st.g.edges, a (edgeVar e i) = trav inp.ei.st (P i) e) ∧
      (∀ i, i < inp.ei.k → a (slackVar i) = sl i) ∧
      evalTerms a (kmpeGivenLP inp ws ok).obj = totalSlack inp.ei.k sl := by
  have hwf : STWF inp.ei.st := augment_wf inp.ei.fi.base inp.ei.fi.starts inp.ei.fi.ends h hac
  let σ : ErrSol := { P := P, w := givenW ws, sl := sl }
  have hedge : ∀ i, i < inp.ei.k → ∀ e ∈ inp.ei.st.g.edges,
      solAsg inp.ei.st σ (edgeVar e i) = trav inp.ei.st (P i) e :=
    fun i _ e _ => solAsg_edge inp.ei.st σ e i
  have hobj : evalTerms (solAsg inp.ei.st σ) (kmpeGivenLP inp ws ok).obj = totalSlack inp.ei.k sl := by
    rw [kmpeGivenLP_obj]; unfold totalSlack
    apply sum_map_congr; intro i _; exact solAsg_slack inp.ei.st σ i
  refine ⟨solAsg inp.ei.st σ, ?_, hedge, fun i _ => solAsg_slack inp.ei.st σ i, hobj⟩
  have h01 : ∀ i, i < inp.ei.k → ∀ e ∈ inp.ei.st.g.edges,
      trav inp.ei.st (P i) e = 0 ∨ trav inp.ei.st (P i) e = 1 :=
    fun i hi e he => trav01 hwf (hb.routes i hi) e he
  unfold kmpeGivenLP
  simp only [factorBlock_nil inp _ _ hfac]
  refine sat_append_p07 _ _ _ (sat_append_p07 _ _ _ (sat_append_p07 _ _ _
    (solAsg_sat_paths inp.ei.st inp.ei.fi.cfg σ hwf hb.routes hcons hlen) ?_) (sat_empty_p07 _)) ?_
  · -- columns
    refine ⟨fun col hcol => ?_, fun r hr => absurd hr List.not_mem_nil⟩
    simp only at hcol
    rcases List.mem_append.1 hcol with hcol | hcol
    · -- slacks
      obtain ⟨i, hi, rfl⟩ := List.mem_map.1 hcol
      have hi' := List.mem_range.1 hi
      have hv : solAsg inp.ei.st σ (slackVar i) = sl i := solAsg_slack inp.ei.st σ i
      refine ⟨?_, ?_, fun hint => ?_⟩
      · show (0:Rat) ≤ solAsg inp.ei.st σ (slackVar i)
        rw [hv]; exact hb.nonneg i hi'
      · intro u hu
        rw [← Option.some.inj hu]
        show solAsg inp.ei.st σ (slackVar i) ≤ _
        rw [hv]; exact hb.sle i hi'
      · show IsInt (solAsg inp.ei.st σ (slackVar i))
        rw [hv]; exact hb.integral hint i hi'
    · -- gamma
      obtain ⟨i, hi, hcol⟩ := List.mem_flatMap.1 hcol
      obtain ⟨e, he, rfl⟩ := List.mem_map.1 hcol
      have hi' := List.mem_range.1 hi
      have hv : solAsg inp.ei.st σ (gammaVar e i) = trav inp.ei.st (P i) e * sl i :=
        solAsg_gamma inp.ei.st σ e i
      have hs0 := hb.nonneg i hi'
      have hs1 := hb.sle i hi'
      refine ⟨?_, ?_, fun hint => by simp at hint⟩
      · show (0:Rat) ≤ solAsg inp.ei.st σ (gammaVar e i)
        rw [hv]; rcases h01 i hi' e he with h0 | h0 <;> rw [h0] <;> grind
      · intro u hu
        rw [← Option.some.inj hu]
        show solAsg inp.ei.st σ (gammaVar e i) ≤ _
        rw [hv]; rcases h01 i hi' e he with h0 | h0 <;> rw [h0] <;> grind
  · -- rows
    refine ⟨fun col hcol => absurd hcol List.not_mem_nil, fun r hr => ?_⟩
    simp only at hr
    rcases List.mem_append.1 hr with hr | hr
    · rcases List.mem_append.1 hr with hr | hr
      · obtain ⟨e, he, hr⟩ := List.mem_flatMap.1 hr
        obtain ⟨i, hi, hr⟩ := List.mem_flatMap.1 hr
        have hi' := List.mem_range.1 hi
        rw [slackFor_nil inp hfac] at hr
        refine (binProd_exact (solAsg inp.ei.st σ) (edgeVar e i) (slackVar i) (gammaVar e i) 0
          (inp.ei.wmax (some ws)) ?_ ?_).2 ?_ r hr
        · rw [solAsg_edge]; exact h01 i hi' e (mem_basicEdges inp.ei e he)
        · rw [solAsg_slack]; exact ⟨hb.nonneg i hi', hb.sle i hi'⟩
        · rw [solAsg_gamma, solAsg_edge, solAsg_slack]
      · obtain ⟨e, he, hr⟩ := List.mem_flatMap.1 hr
        have hsumW : evalTerms (solAsg inp.ei.st σ)
              ((List.range inp.ei.k).map fun i => (ws.getD i 0, edgeVar e i))
            = explained inp.ei.st inp.ei.k P (givenW ws) e :=
          klaeg_sumW_eval inp.ei ws (solAsg inp.ei.st σ) P e (mem_basicEdges inp.ei e he) hedge
        have hsumS : ((List.range inp.ei.k).map fun i => solAsg inp.ei.st σ (gammaVar e i)).sum
            = explained inp.ei.st inp.ei.k P sl e := by
          apply sum_map_congr; intro i _; rw [solAsg_gamma]; grind
        have hok := hb.slackOK e he
        unfold SlackOK at hok
        have ha1 := Rat.mul_le_mul_of_nonneg_right
          (le_abs (inp.ei.fi.f e - explained inp.ei.st inp.ei.k P (givenW ws) e)) (hscale e he)
        have ha2 := Rat.mul_le_mul_of_nonneg_right
          (neg_le_abs (inp.ei.fi.f e - explained inp.ei.st inp.ei.k P (givenW ws) e)) (hscale e he)
        simp only [errRows, List.mem_cons, List.not_mem_nil, or_false] at hr
        generalize explained inp.ei.st inp.ei.k P (givenW ws) e = S at *
        generalize explained inp.ei.st inp.ei.k P sl e = G at *
        generalize (inp.ei.fi.f e - S).abs = A at *
        rcases hr with rfl | rfl
        · refine ⟨fun l hl => by simp [rowLe] at hl, fun u hu => ?_⟩
          rw [← Option.some.inj hu]
          simp only [rowLe, evalTerms_append, evalTerms_negTerms, evalTerms_scaled, evalTerms_ones,
            hsumW, hsumS]
          grind
        · refine ⟨fun l hl => ?_, fun u hu => by simp [rowGe] at hu⟩
          rw [← Option.some.inj hl]
          simp only [rowGe, evalTerms_append, evalTerms_scaled, evalTerms_ones, hsumW, hsumS]
          grind
    · -- the cap row
      rw [List.mem_singleton.1 hr]
      refine ⟨fun l hl => by simp [rowLe] at hl, fun u hu => ?_⟩
      rw [← Option.some.inj hu]
      simp only [rowLe]
      rw [klaeg_srcTerms_eval inp.ei.st inp.ei.fi.cfg.allowEmpty inp.ei.k (solAsg inp.ei.st σ) P hwf
        hb.routes hedge]
      exact Rat.natCast_le_natCast.2 hb.cap

/-! ## optimum transfer (no path-length factors) -/

/-- **optimum transfer**: an optimal assignment decodes to a bounded choice whose total slack is minimal
among all bounded choices of at most `originalK` of the given weights, and the solver's objective is
that total slack -/
theorem kmpe_given_opt_transfer (inp : MpeInput) (ws : List Rat) (ok : Nat) (a : Asg)
    (h : BaseWF inp.ei.fi.base) (hac : Acyclic inp.ei.fi.base) (hfac : inp.factors = [])
    (hcons : inp.ei.fi.cfg.constraints = []) (hlen : inp.ei.fi.cfg.lengths = none)
    (hscale : ∀ e ∈ inp.ei.basicEdges, 0 ≤ inp.ei.scale e)
    (hsat : Sat a (kmpeGivenLP inp ws ok))
    (hopt : ∀ a', Sat a' (kmpeGivenLP inp ws ok) →
      evalTerms a (kmpeGivenLP inp ws ok).obj ≤ evalTerms a' (kmpeGivenLP inp ws ok).obj) :
    ∃ ps : List (List Node),
      decodePaths inp.ei.st (fun e i => a (edgeVar e i)) inp.ei.k = some ps ∧
      GivenBounded inp.ei ws ok (fun i => ps.getD i []) (fun i => a (slackVar i)) ∧
      (∀ P' sl', GivenBounded inp.ei ws ok P' sl' →
        totalSlack inp.ei.k (fun i => a (slackVar i)) ≤ totalSlack inp.ei.k sl') ∧
      evalTerms a (kmpeGivenLP inp ws ok).obj = totalSlack inp.ei.k (fun i => a (slackVar i)) := by
  obtain ⟨ps, hps, _, hbd, _, _, _, hobj⟩ := kmpe_given_sound inp ws ok a h hac hfac hsat
  refine ⟨ps, hps, hbd, fun P' sl' hb' => ?_, hobj⟩
  obtain ⟨a', hsat', _, _, hobj'⟩ := kmpe_given_complete inp ws ok P' sl' h hac hfac hcons hlen hscale hb'
  have := hopt a' hsat'
  rw [hobj, hobj'] at this
  exact this

end FP
