import FP.Spec.Decomp
import FP.Model.MFD
import FP.Proofs.DecompPath
/-!
# FP.Proofs.Decomp — the kFlowDecomp MILP is feasible exactly when a k-path decomposition exists

* `kfd_complete_proof`  (T1): a decomposition yields a satisfying assignment
* `kfd_sound_proof`          : a satisfying assignment yields a decomposition (on top of `kfd_exact`,
                                now with the subpath constraints and the weight type)
* `decomp_bound_wlog_proof`  : the box `w ≤ w_max` loses nothing
* `decomp_monotone_proof` (T3)
-/
namespace FP
open FP.Spec

/-- the configurations of `_encode_paths` covered by the completeness theorem: what `MinFlowDecomp`
hands to `kFlowDecomp` with the default coverage — no empty paths, coverage 1 counted in edges, no
position variables, constraints made of edges of the graph -/
structure PlainCfg (inp : FlowInput) : Prop where
  noEmpty : inp.cfg.allowEmpty = false
  coverage : inp.cfg.coverage = 1
  noCovLen : inp.cfg.coverageLength = none
  noPos : inp.cfg.encodePosition = false
  consEdges : ∀ con ∈ inp.cfg.constraints, ∀ e ∈ con, e ∈ inp.st.g.edges

/-! ## the assignment of a decomposition -/

/-- is constraint `con` contained in the vertex sequence `l`? -/
def coversB_p03 (l : List Node) (con : List Edge) : Bool := con.all fun e => decide (e ∈ walkEdges l)

theorem coversB_iff (l : List Node) (con : List Edge) :
    coversB_p03 l con = true ↔ ∀ e ∈ con, e ∈ walkEdges l := by
  simp [coversB_p03]

/-- edge variables = indicator of the path, `w` = weights, `pi` = product, `r(i,j)` = "constraint j
is contained in path i" -/
def decompAsg (s : STGraph) (cons : List (List Edge)) (P : Nat → List Node) (w : Nat → Rat) : Asg
  | .uvi pfx a b i =>
      if pfx = "edge" then ((traversals (s.source :: P i ++ [s.sink]) (a, b) : Nat) : Rat)
      else if pfx = "pi" then w i * ((traversals (s.source :: P i ++ [s.sink]) (a, b) : Nat) : Rat)
      else 0
  | .ix pfx i => if pfx = "w" then w i else 0
  | .ij pfx i j =>
      if pfx = "r" then (if coversB_p03 (s.source :: P i ++ [s.sink]) (cons.getD j []) then 1 else 0) else 0
  | _ => 0

section Asg
variable (s : STGraph) (cons : List (List Edge)) (P : Nat → List Node) (w : Nat → Rat)

theorem asg_edge (e : Edge) (i : Nat) :
    decompAsg s cons P w (edgeVar e i) = ((traversals (s.source :: P i ++ [s.sink]) e : Nat) : Rat) := by
  simp [decompAsg, edgeVar]

theorem asg_pi (e : Edge) (i : Nat) :
    decompAsg s cons P w (piVar e i)
      = w i * ((traversals (s.source :: P i ++ [s.sink]) e : Nat) : Rat) := by
  simp [decompAsg, piVar]

theorem asg_w (i : Nat) : decompAsg s cons P w (wVar i) = w i := by
  simp [decompAsg, wVar]

theorem asg_r (i j : Nat) :
    decompAsg s cons P w (rVar i j)
      = if coversB_p03 (s.source :: P i ++ [s.sink]) (cons.getD j []) then 1 else 0 := by
  simp [decompAsg, rVar]

end Asg

theorem sum_map_const_one {α} (l : List α) : (l.map (fun _ => (1 : Rat))).sum = (l.length : Rat) := by
  induction l with
  | nil => simp
  | cons x xs ih => simp only [List.map_cons, List.sum_cons, ih, List.length_cons]; simp [Rat.natCast_add]; grind

theorem mem_zip_range_p03 {α} (l : List α) (j : Nat) (x : α) (h : (j, x) ∈ (List.range l.length).zip l) :
    j < l.length ∧ l.getD j x = x ∧ l[j]? = some x := by
  obtain ⟨n, hn, hx⟩ := List.mem_iff_getElem.1 h
  rw [List.getElem_zip] at hx
  have hn' : n < l.length := by simpa using hn
  have h1 : n = j := by simpa using congrArg Prod.fst hx
  have h2 : l[n] = x := by simpa using congrArg Prod.snd hx
  subst h1
  refine ⟨hn', ?_, ?_⟩
  · rw [List.getD_eq_getElem?_getD, List.getElem?_eq_getElem hn']; simpa using h2
  · rw [List.getElem?_eq_getElem hn', h2]

theorem zip_range_mem {α} (l : List α) (j : Nat) (hj : j < l.length) :
    (j, l[j]) ∈ (List.range l.length).zip l := by
  apply List.mem_iff_getElem.2
  refine ⟨j, by simpa using hj, ?_⟩
  rw [List.getElem_zip]; simp

/-- **T1.** a decomposition with weights in the box gives a satisfying assignment of the k-model -/
theorem kfd_complete_proof (inp : FlowInput) (k : Nat) (h : BaseWF inp.base) (hac : Acyclic inp.base)
    (hcfg : PlainCfg inp) (P : Nat → List Node) (w : Nat → Rat)
    (hd : IsDecomp inp k P w) (hb : ∀ i, i < k → w i ≤ inp.wmax) :
    Sat (decompAsg inp.st inp.cfg.constraints P w) (kfdLP (inp.withK k)) := by
  have hwf : STWF inp.st := augment_wf inp.base inp.starts inp.ends h hac
  let a := decompAsg inp.st inp.cfg.constraints P w
  have hst : (inp.withK k).st = inp.st := rfl
  have hkk : (inp.withK k).cfg.k = k := rfl
  have hcons : (inp.withK k).cfg.constraints = inp.cfg.constraints := rfl
  have hlayer : ∀ i, i < k → LayerFacts inp.st false (fun e => a (edgeVar e i)) := by
    intro i hi
    have := layerFacts_of_walk hwf (hd.walk i hi)
    have hfun : (fun e => a (edgeVar e i))
        = fun e => ((traversals (inp.st.source :: P i ++ [inp.st.sink]) e : Nat) : Rat) := by
      funext e; exact asg_edge _ _ _ _ e i
    rw [hfun]; exact this
  have hbin : ∀ i, i < k → ∀ e, a (edgeVar e i) = 0 ∨ a (edgeVar e i) = 1 := by
    intro i hi e
    show decompAsg _ _ _ _ _ = 0 ∨ decompAsg _ _ _ _ _ = 1
    rw [asg_edge]; exact trav_bin hwf (hd.walk i hi) e
  unfold kfdLP
  apply sat_append_p03
  · -- `_encode_paths`
    unfold encodePaths
    apply sat_append_p03
    · apply sat_append_p03
      · exact sat_core_of_layerFacts_p03 inp.st (inp.withK k).cfg a hcfg.noEmpty hlayer
      · -- subpath constraints
        unfold subpathBlock
        split
        · exact sat_empty_p03 _
        · rw [hcons, hkk]
          refine ⟨fun col hc => ?_, fun r hr => ?_⟩
          · obtain ⟨i, _, hc⟩ := List.mem_flatMap.1 hc
            obtain ⟨j, _, rfl⟩ := List.mem_map.1 hc
            refine ⟨?_, fun u hu => ?_, fun _ => ?_⟩
            · show (0 : Rat) ≤ decompAsg _ _ _ _ _
              rw [asg_r]; split <;> decide
            · have : (1 : Rat) = u := Option.some.inj hu
              show decompAsg _ _ _ _ _ ≤ u
              rw [asg_r, ← this]; split <;> decide
            · show ∃ z : Int, decompAsg _ _ _ _ _ = z
              rw [asg_r]; split
              · exact ⟨1, by simp⟩
              · exact ⟨0, by simp⟩
          · rcases List.mem_append.1 hr with hr | hr
            · -- 7a
              obtain ⟨i, hi, hr⟩ := List.mem_flatMap.1 hr
              have hi' := List.mem_range.1 hi
              obtain ⟨⟨j, con⟩, hjc, rfl⟩ := List.mem_map.1 hr
              obtain ⟨_, hget, _⟩ := mem_zip_range_p03 _ j con hjc
              have hcl : (inp.withK k).cfg.coverageLength = none := hcfg.noCovLen
              have hcov : (inp.withK k).cfg.coverage = 1 := hcfg.coverage
              simp only [hcl, hcov]
              apply rowGe_holds_p03
              rw [evalTerms_append, evalTerms_ones, evalTerms_single]
              show (0 : Rat) ≤ (con.map fun e => decompAsg _ _ _ _ (edgeVar e i)).sum
                + -((con.length : Rat) * 1) * decompAsg _ _ _ _ (rVar i j)
              rw [asg_r]
              have hgetD : inp.cfg.constraints.getD j [] = con := by
                have := (mem_zip_range_p03 _ j con hjc).2.2
                rw [List.getD_eq_getElem?_getD, this]; rfl
              rw [hgetD]
              by_cases hcv : coversB_p03 (inp.st.source :: P i ++ [inp.st.sink]) con = true
              · have hall := (coversB_iff _ _).1 hcv
                have : (con.map fun e => decompAsg inp.st inp.cfg.constraints P w (edgeVar e i)).sum
                    = (con.length : Rat) := by
                  rw [← sum_map_const_one con]
                  apply sum_map_congr
                  intro e he
                  rw [asg_edge, trav_eq_one_of_mem hwf (hd.walk i hi') (hall e he)]; simp
                rw [this]; simp only [hcv, if_true]; grind
              · simp only [hcv, Bool.false_eq_true, if_false]
                have : (0 : Rat) ≤ (con.map fun e => decompAsg inp.st inp.cfg.constraints P w (edgeVar e i)).sum := by
                  apply sum_map_nonneg
                  intro e _
                  rcases hbin i hi' e with hb0 | hb0 <;> (show (0:Rat) ≤ a (edgeVar e i)) <;> rw [hb0] <;> decide
                grind
            · -- 7b
              obtain ⟨j, hj, rfl⟩ := List.mem_map.1 hr
              have hj' := List.mem_range.1 hj
              obtain ⟨i, hi, hcov⟩ := hd.constraints _ (List.getElem_mem hj')
              apply rowGe_holds_p03
              rw [evalTerms_ones]
              have hnn : ∀ i' ∈ List.range k, (0 : Rat) ≤ decompAsg inp.st inp.cfg.constraints P w (rVar i' j) := by
                intro i' _; rw [asg_r]; split <;> decide
              have hle := le_sum_of_mem (List.range k)
                (fun i' => decompAsg inp.st inp.cfg.constraints P w (rVar i' j)) hnn i (List.mem_range.2 hi)
              have h1 : decompAsg inp.st inp.cfg.constraints P w (rVar i j) = 1 := by
                rw [asg_r]
                have hg : inp.cfg.constraints.getD j [] = inp.cfg.constraints[j] := by
                  rw [List.getD_eq_getElem?_getD, List.getElem?_eq_getElem hj']; rfl
                rw [hg, (coversB_iff _ _).2 hcov]; rfl
              rw [h1] at hle
              exact hle
    · -- position block is switched off
      unfold positionBlock
      have : (inp.withK k).cfg.encodePosition = false := hcfg.noPos
      simp only [this]
      exact sat_empty_p03 _
  · -- the flow block
    have hw : ∀ i, i < k → 0 ≤ a (wVar i) ∧ a (wVar i) ≤ inp.wmax := by
      intro i hi
      show 0 ≤ decompAsg _ _ _ _ _ ∧ decompAsg _ _ _ _ _ ≤ _
      rw [asg_w]; exact ⟨hd.wnonneg i hi, hb i hi⟩
    refine ⟨fun col hc => ?_, fun r hr => ?_⟩
    · rcases List.mem_append.1 hc with hc | hc
      · obtain ⟨i, hi, hc⟩ := List.mem_flatMap.1 hc
        have hi' : i < k := List.mem_range.1 hi
        obtain ⟨e, _, rfl⟩ := List.mem_map.1 hc
        have hwi := hw i hi'
        have hpi : a (piVar e i) = a (wVar i) * a (edgeVar e i) := by
          show decompAsg _ _ _ _ _ = decompAsg _ _ _ _ _ * decompAsg _ _ _ _ _
          rw [asg_pi, asg_w, asg_edge]
        refine ⟨?_, fun u hu => ?_, fun hint => ?_⟩
        · show (0 : Rat) ≤ a (piVar e i)
          rw [hpi]
          rcases hbin i hi' e with hb0 | hb0 <;> rw [hb0] <;> grind
        · have : (inp.withK k).wmax = u := Option.some.inj hu
          show a (piVar e i) ≤ u
          rw [← this, hpi]
          have : (inp.withK k).wmax = inp.wmax := rfl
          rw [this]
          rcases hbin i hi' e with hb0 | hb0 <;> rw [hb0] <;> grind
        · show ∃ z : Int, a (piVar e i) = z
          obtain ⟨z, hz⟩ := hd.wint hint i hi'
          rw [hpi]
          rcases hbin i hi' e with hb0 | hb0 <;> rw [hb0]
          · exact ⟨0, by simp [Rat.mul_zero]⟩
          · refine ⟨z, ?_⟩
            show decompAsg _ _ _ _ _ * 1 = _
            rw [asg_w, hz, Rat.mul_one]
      · obtain ⟨i, hi, rfl⟩ := List.mem_map.1 hc
        have hi' : i < k := List.mem_range.1 hi
        refine ⟨(hw i hi').1, fun u hu => ?_, fun hint => ?_⟩
        · have : (inp.withK k).wmax = u := Option.some.inj hu
          rw [← this]; exact (hw i hi').2
        · obtain ⟨z, hz⟩ := hd.wint hint i hi'
          exact ⟨z, by show decompAsg _ _ _ _ _ = _; rw [asg_w, hz]⟩
    · rcases List.mem_append.1 hr with hr | hr
      · obtain ⟨e, _, hr⟩ := List.mem_flatMap.1 hr
        obtain ⟨i, hi, hr⟩ := List.mem_flatMap.1 hr
        have hi' : i < k := List.mem_range.1 hi
        have hpi : a (piVar e i) = a (edgeVar e i) * a (wVar i) := by
          show decompAsg _ _ _ _ _ = decompAsg _ _ _ _ _ * decompAsg _ _ _ _ _
          rw [asg_pi, asg_w, asg_edge]; exact Rat.mul_comm _ _
        exact (binProd_exact a (edgeVar e i) (wVar i) (piVar e i) 0 (inp.withK k).wmax (hbin i hi' e)
          (hw i hi')).2 hpi r hr
      · obtain ⟨e, he, rfl⟩ := List.mem_map.1 hr
        apply rowEq_holds_p03
        rw [evalTerms_ones]
        have := hd.explains e he
        show ((List.range k).map fun i => decompAsg _ _ _ _ (piVar e i)).sum = inp.f e
        rw [← this]
        apply sum_map_congr
        intro i _
        rw [asg_pi]

/-! ## soundness: from a satisfying assignment to a decomposition -/

theorem all_one_of_sum_ge_length {α} (l : List α) (f : α → Rat) (h1 : ∀ e ∈ l, f e ≤ 1)
    (hs : (l.length : Rat) ≤ (l.map f).sum) : ∀ e ∈ l, f e = 1 := by
  have hz := all_zero_of_sum_zero l (fun e => 1 - f e) (fun e he => by have := h1 e he; grind) (by
    rw [sum_map_sub, sum_map_const_one]
    have hle : (l.map f).sum ≤ (l.length : Rat) := by
      rw [← sum_map_const_one l]
      have := sum_map_nonneg l (fun e => 1 - f e) (fun e he => by have := h1 e he; grind)
      rw [sum_map_sub] at this
      grind
    grind)
  intro e he
  have := hz e he
  grind

/-- what the 7a/7b rows say at coverage 1: every constraint has a layer all of whose edge variables
along the constraint are 1 -/
theorem subpath_sound (s : STGraph) (c : PathCfg) (a : Asg) (hsat : Sat a (encodePaths s c))
    (hcov : c.coverage = 1) (hcl : c.coverageLength = none)
    (hedges : ∀ con ∈ c.constraints, ∀ e ∈ con, e ∈ s.g.edges)
    (con : List Edge) (hcon : con ∈ c.constraints) :
    ∃ i, i < c.k ∧ ∀ e ∈ con, a (edgeVar e i) = 1 := by
  have hsp := sat_append_right a _ _ (sat_append_left a _ _ hsat)
  obtain ⟨j, hj, hjc⟩ := List.mem_iff_getElem.1 hcon
  have hne : c.constraints.isEmpty = false := by
    cases hc : c.constraints with
    | nil => rw [hc] at hcon; cases hcon
    | cons x xs => rfl
  unfold subpathBlock at hsp
  simp only [hne, Bool.false_eq_true, if_false] at hsp
  obtain ⟨hcols, hrows⟩ := hsp
  simp only at hcols hrows
  have hrbin : ∀ i, i < c.k → a (rVar i j) = 0 ∨ a (rVar i j) = 1 := by
    intro i hi
    obtain ⟨h0, h1, hz⟩ := hcols { v := rVar i j, lb := 0, ub := some 1, isInt := true }
      (List.mem_flatMap.2 ⟨i, List.mem_range.2 hi, List.mem_map.2 ⟨j, List.mem_range.2 hj, rfl⟩⟩)
    exact int01 _ h0 (h1 1 rfl) (hz rfl)
  -- 7b
  have h7b := hrows (rowGe (ones (List.range c.k) (fun i => rVar i j)) 1)
    (List.mem_append_right _ (List.mem_map.2 ⟨j, List.mem_range.2 hj, rfl⟩))
  have hsum := h7b.1 1 rfl
  simp only [rowGe, evalTerms_ones] at hsum
  obtain ⟨i, hi, hri⟩ := exists_ne_zero_of_sum_ne_zero (List.range c.k) (fun i => a (rVar i j)) (by
    intro h0; rw [h0] at hsum; exact absurd hsum (by decide))
  have hi' := List.mem_range.1 hi
  have hr1 : a (rVar i j) = 1 := (hrbin i hi').resolve_left hri
  refine ⟨i, hi', ?_⟩
  -- 7a
  have hmem : (j, con) ∈ (List.range c.constraints.length).zip c.constraints := by
    rw [← hjc]; exact zip_range_mem _ j hj
  have h7a := hrows _ (List.mem_append_left _ (List.mem_flatMap.2 ⟨i, hi, List.mem_map.2 ⟨(j, con), hmem, rfl⟩⟩))
  simp only [hcl, hcov] at h7a
  have hge := h7a.1 0 rfl
  simp only [rowGe, evalTerms_append, evalTerms_ones, evalTerms_single, hr1] at hge
  have hf := layerFacts_of_sat s c a hsat i hi'
  apply all_one_of_sum_ge_length con (fun e => a (edgeVar e i))
  · intro e he
    rcases hf.bin e (hedges con hcon e he) with h0 | h0
    · show a (edgeVar e i) ≤ 1
      rw [h0]; decide
    · show a (edgeVar e i) ≤ 1
      rw [h0]; decide
  · grind

theorem kfd_sound_proof (inp : FlowInput) (k : Nat) (h : BaseWF inp.base) (hac : Acyclic inp.base)
    (hcfg : PlainCfg inp) (a : Asg) (hsat : Sat a (kfdLP (inp.withK k))) :
    ∃ P w, IsDecomp inp k P w ∧ ∀ i, i < k → w i ≤ inp.wmax := by
  have hwf : STWF inp.st := augment_wf inp.base inp.starts inp.ends h hac
  have henc : Sat a (encodePaths inp.st (inp.withK k).cfg) := sat_append_left a _ _ hsat
  obtain ⟨hcols, _⟩ := sat_append_right a _ _ hsat
  simp only at hcols
  obtain ⟨ps, hps, _, hw, hex⟩ := kfd_exact (inp.withK k) a h hac hsat
  have hget := mapM_range_get _ k ps [] hps
  have htrav := decode_all inp.st (inp.withK k).cfg a hwf henc
  obtain ⟨ps', hps', _, htrav⟩ := htrav
  have hpp : ps' = ps := by
    have : some ps' = some ps := by rw [← hps', ← hps]; rfl
    exact Option.some.inj this
  subst hpp
  have hwalk : ∀ i, i < k → IsWalkIn inp.st.g (inp.st.source :: ps'.getD i [] ++ [inp.st.sink]) := by
    intro i hi
    obtain ⟨p, hp, hempty, hne⟩ := pathcore_sound inp.st (inp.withK k).cfg a hwf henc i hi
    have hpe : p = ps'.getD i [] := by
      have : decodeLayer inp.st (fun e i => a (edgeVar e i)) i = some (ps'.getD i []) := hget.2 i hi
      rw [hp] at this
      exact Option.some.inj this
    rw [← hpe]
    by_cases hp0 : p = []
    · have := (hempty hp0).1
      have hno : (inp.withK k).cfg.allowEmpty = false := hcfg.noEmpty
      rw [hno] at this; cases this
    · exact (hne hp0).1
  refine ⟨fun i => ps'.getD i [], fun i => a (wVar i), ⟨hwalk, fun i hi => (hw i hi).1, ?_, hex, ?_⟩,
    fun i hi => (hw i hi).2⟩
  · intro hint i hi
    have := hcols { v := wVar i, lb := 0, ub := some (inp.withK k).wmax, isInt := (inp.withK k).weightInt }
      (List.mem_append_right _ (List.mem_map.2 ⟨i, List.mem_range.2 hi, rfl⟩))
    exact this.2.2 hint
  · intro con hcon
    obtain ⟨i, hi, hall⟩ := subpath_sound inp.st (inp.withK k).cfg a henc hcfg.coverage hcfg.noCovLen
      hcfg.consEdges con hcon
    refine ⟨i, hi, fun e he => ?_⟩
    have h1 := hall e he
    rw [htrav i hi e (hcfg.consEdges con hcon e he)] at h1
    apply List.count_pos_iff.1
    have : traversals (inp.st.source :: ps'.getD i [] ++ [inp.st.sink]) e = 1 := by
      have := Rat.natCast_inj.1 (by simpa using h1 :
        ((traversals (inp.st.source :: ps'.getD i [] ++ [inp.st.sink]) e : Nat) : Rat) = ((1 : Nat) : Rat))
      exact this
    unfold traversals at this
    omega

/-! ## T2: feasibility of the k-model = existence of a k-path decomposition -/

theorem kfd_feasible_iff_proof (inp : FlowInput) (k : Nat) (h : BaseWF inp.base) (hac : Acyclic inp.base)
    (hcfg : PlainCfg inp) : (∃ a, Sat a (kfdLP (inp.withK k))) ↔ HasDecomp inp k := by
  constructor
  · rintro ⟨a, ha⟩
    exact kfd_sound_proof inp k h hac hcfg a ha
  · rintro ⟨P, w, hd, hb⟩
    exact ⟨_, kfd_complete_proof inp k h hac hcfg P w hd hb⟩

/-! ## adequacy of the box `w ≤ w_max` -/

theorem trav_term_nonneg (w : Rat) (n : Nat) (hw : 0 ≤ w) : 0 ≤ w * (n : Rat) :=
  Rat.mul_nonneg hw Rat.natCast_nonneg

theorem f_nonneg_of_decomp (inp : FlowInput) (k : Nat) (P : Nat → List Node) (w : Nat → Rat)
    (hd : IsDecomp inp k P w) (e : Edge) (he : e ∈ inp.activeEdges) : 0 ≤ inp.f e := by
  rw [← hd.explains e he]
  apply sum_map_nonneg
  intro i hi
  exact trav_term_nonneg _ _ (hd.wnonneg i (List.mem_range.1 hi))

theorem f_le_wmax (inp : FlowInput) (e : Edge) (he : e ∈ inp.activeEdges) : inp.f e ≤ inp.wmax :=
  le_listMax _ _ (List.mem_map.2 ⟨e, he, rfl⟩)

theorem wmax_nonneg_of_decomp (inp : FlowInput) (k : Nat) (P : Nat → List Node) (w : Nat → Rat)
    (hd : IsDecomp inp k P w) : 0 ≤ inp.wmax := by
  cases hA : inp.activeEdges with
  | nil =>
    have : inp.wmax = 0 := by unfold FlowInput.wmax; rw [hA]; rfl
    rw [this]; exact Rat.le_refl
  | cons e es =>
    have he : e ∈ inp.activeEdges := by rw [hA]; simp
    exact Rat.le_trans (f_nonneg_of_decomp inp k P w hd e he) (f_le_wmax inp e he)

/-- **adequacy, by hypothesis.** In any decomposition the weight of a path that uses at least one
active edge is at most the largest flow value. -/
theorem decomp_weights_le_wmax_proof (inp : FlowInput) (k : Nat) (P : Nat → List Node) (w : Nat → Rat)
    (hd : IsDecomp inp k P w) (i : Nat) (hi : i < k) (e : Edge) (he : e ∈ inp.activeEdges)
    (hon : e ∈ walkEdges (inp.st.source :: P i ++ [inp.st.sink])) : w i ≤ inp.wmax := by
  have h1 : 1 ≤ traversals (inp.st.source :: P i ++ [inp.st.sink]) e := List.count_pos_iff.2 hon
  have h1' : (1 : Rat) ≤ ((traversals (inp.st.source :: P i ++ [inp.st.sink]) e : Nat) : Rat) := by
    have := Rat.natCast_le_natCast.2 h1
    simpa using this
  have hwi := hd.wnonneg i hi
  have hstep : w i ≤ w i * ((traversals (inp.st.source :: P i ++ [inp.st.sink]) e : Nat) : Rat) := by
    have := Rat.mul_le_mul_of_nonneg_left h1' hwi
    rwa [Rat.mul_one] at this
  have hsum := le_sum_of_mem (List.range k)
    (fun i => w i * ((traversals (inp.st.source :: P i ++ [inp.st.sink]) e : Nat) : Rat))
    (fun j hj => trav_term_nonneg _ _ (hd.wnonneg j (List.mem_range.1 hj))) i (List.mem_range.2 hi)
  rw [hd.explains e he] at hsum
  exact Rat.le_trans hstep (Rat.le_trans hsum (f_le_wmax inp e he))

/-- does the path use an active edge? -/
def usesActive (inp : FlowInput) (l : List Node) : Bool :=
  inp.activeEdges.any fun e => decide (e ∈ walkEdges l)

/-- **adequacy, unconditional.** Paths that use no active edge at all (the route through an isolated
node, or a path made of ignored edges only) contribute to no flow equation; giving them weight 0
turns any decomposition into one whose weights respect the box. -/
theorem decomp_bound_wlog_proof (inp : FlowInput) (k : Nat) (hfree : HasDecompFree inp k) :
    HasDecomp inp k := by
  obtain ⟨P, w, hd⟩ := hfree
  let w' : Nat → Rat := fun i =>
    if usesActive inp (inp.st.source :: P i ++ [inp.st.sink]) then w i else 0
  have hw0 := wmax_nonneg_of_decomp inp k P w hd
  refine ⟨P, w', ⟨hd.walk, ?_, ?_, ?_, hd.constraints⟩, ?_⟩
  · intro i hi
    show 0 ≤ (if _ then w i else 0)
    split
    · exact hd.wnonneg i hi
    · exact Rat.le_refl
  · intro hint i hi
    show ∃ z : Int, (if usesActive inp (inp.st.source :: P i ++ [inp.st.sink]) = true then w i else (0 : Rat)) = (z : Rat)
    split
    · exact hd.wint hint i hi
    · exact ⟨0, by simp⟩
  · intro e he
    rw [← hd.explains e he]
    apply sum_map_congr
    intro i _
    show (if _ then w i else 0) * _ = _
    split
    · rfl
    · rename_i hno
      have hnot : e ∉ walkEdges (inp.st.source :: P i ++ [inp.st.sink]) := by
        intro hon
        apply hno
        unfold usesActive
        exact List.any_eq_true.2 ⟨e, he, by simpa using hon⟩
      have : traversals (inp.st.source :: P i ++ [inp.st.sink]) e = 0 := List.count_eq_zero.2 hnot
      rw [this]; simp [Rat.mul_zero]
  · intro i hi
    show (if _ then w i else 0) ≤ _
    split
    · rename_i hyes
      unfold usesActive at hyes
      obtain ⟨e, he, hon⟩ := List.any_eq_true.1 hyes
      exact decomp_weights_le_wmax_proof inp k P w hd i hi e he (by simpa using hon)
    · exact hw0

/-! ## T3: one more path is always possible -/

theorem decomp_monotone_proof (inp : FlowInput) (k : Nat) (hk : 1 ≤ k) (h : HasDecomp inp k) :
    HasDecomp inp (k + 1) := by
  obtain ⟨P, w, hd, hb⟩ := h
  have hw0 := wmax_nonneg_of_decomp inp k P w hd
  refine ⟨fun i => if i < k then P i else P 0, fun i => if i < k then w i else 0, ⟨?_, ?_, ?_, ?_, ?_⟩, ?_⟩
  · intro i _
    by_cases hik : i < k
    · simp only [hik, if_true]; exact hd.walk i hik
    · simp only [hik, if_false]; exact hd.walk 0 (by omega)
  · intro i _
    by_cases hik : i < k
    · simp only [hik, if_true]; exact hd.wnonneg i hik
    · simp only [hik, if_false]; exact Rat.le_refl
  · intro hint i _
    by_cases hik : i < k
    · simp only [hik, if_true]; exact hd.wint hint i hik
    · simp only [hik, if_false]; exact ⟨0, by simp⟩
  · intro e he
    rw [List.range_succ, List.map_append, List.sum_append, ← hd.explains e he]
    have hlast : ((List.map (fun i => (if i < k then w i else 0) *
        ((traversals (inp.st.source :: (if i < k then P i else P 0) ++ [inp.st.sink]) e : Nat) : Rat)) [k]).sum) = 0 := by
      simp [Rat.zero_mul, Rat.add_zero]
    rw [hlast, Rat.add_zero]
    apply sum_map_congr
    intro i hi
    have hik : i < k := List.mem_range.1 hi
    simp only [hik, if_true]
  · intro con hcon
    obtain ⟨i, hi, hc⟩ := hd.constraints con hcon
    refine ⟨i, by omega, ?_⟩
    simp only [hi, if_true]; exact hc
  · intro i _
    by_cases hik : i < k
    · simp only [hik, if_true]; exact hb i hik
    · simp only [hik, if_false]; exact hw0

theorem decomp_monotone_le (inp : FlowInput) (k m : Nat) (hk : 1 ≤ k) (hkm : k ≤ m)
    (h : HasDecomp inp k) : HasDecomp inp m := by
  induction m with
  | zero => omega
  | succ m ih =>
    by_cases hm : k ≤ m
    · exact decomp_monotone_proof inp m (by omega) (ih hm)
    · have : k = m + 1 := by omega
      rw [← this]; exact h

end FP
