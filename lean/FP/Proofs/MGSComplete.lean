import FP.Proofs.MGS
/-!
# FP.Proofs.MGSComplete — every generating multiset (in the order the symmetry rows ask for) extends to a
satisfying assignment of `mgsLP`

The assignment is explicit (`mgsAsg`). For `max_multiplicity > 1` the helper's auxiliary columns are named
after `pi_i={i}_j={j}`; the assignment finds the pair `(i, j)` back from the column name, which is
well defined when these names are pairwise distinct (`NamesOK`, checked by `decide` on concrete sizes).
-/
namespace FP.GS
open FP.Spec

def piName (i j : Nat) : String := "pi_i=" ++ toString i ++ "_j=" ++ toString j

def pairs (k n : Nat) : List (Nat × Nat) := (List.range k).flatMap fun i => (List.range n).map fun j => (i, j)

theorem mem_pairs (k n i j : Nat) : (i, j) ∈ pairs k n ↔ i < k ∧ j < n := by
  simp only [pairs, List.mem_flatMap, List.mem_map, List.mem_range, Prod.mk.injEq]
  constructor
  · rintro ⟨i', hi, j', hj, rfl, rfl⟩; exact ⟨hi, hj⟩
  · rintro ⟨hi, hj⟩; exact ⟨i, hi, j, hj, rfl, rfl⟩

/-- the names of the product helpers of distinct pairs differ -/
def NamesOK (k n : Nat) : Prop :=
  ∀ q ∈ pairs k n, ∀ q' ∈ pairs k n, piName q.1 q.2 = piName q'.1 q'.2 → q = q'

instance (k n : Nat) : Decidable (NamesOK k n) := by unfold NamesOK; infer_instance

def mgsAsg (k n : Nat) (g : Nat → Rat) (c : Nat → Nat → Nat) (asn : Nat → Nat → Nat) : Asg := fun v =>
  match v with
  | .ix p b =>
    if p = "gen_set" then g b else
    match (pairs k n).find? (fun q => p == "binary_" ++ piName q.1 q.2) with
    | some q => bitOf (c q.1 q.2) b
    | none =>
      match (pairs k n).find? (fun q => p == "comp_" ++ piName q.1 q.2) with
      | some q => bitOf (c q.1 q.2) b * g q.1
      | none => 0
  | .ij p i j => if p = "x" then (c i j : Rat) else if p = "pi" then (c i j : Rat) * g i else 0
  | .ijk p i j cc =>
    if p = "y" then (if asn cc i = j then 1 else 0)
    else if p = "product_y" then (if asn cc i = j then g i else 0) else 0
  | _ => 0

section values
variable (k n : Nat) (g : Nat → Rat) (c : Nat → Nat → Nat) (asn : Nat → Nat → Nat)

theorem asg_gen (i : Nat) : mgsAsg k n g c asn (genVar i) = g i := by simp [mgsAsg, genVar]
theorem asg_x (i j : Nat) : mgsAsg k n g c asn (xVar i j) = (c i j : Rat) := by simp [mgsAsg, xVar]
theorem asg_pi (i j : Nat) : mgsAsg k n g c asn (mgsPiVar i j) = (c i j : Rat) * g i := by
  simp [mgsAsg, mgsPiVar]
theorem asg_y (i j cc : Nat) : mgsAsg k n g c asn (yVar i j cc) = if asn cc i = j then 1 else 0 := by
  simp [mgsAsg, yVar]
theorem asg_py (i j cc : Nat) :
    mgsAsg k n g c asn (prodYVar i j cc) = if asn cc i = j then g i else 0 := by
  simp [mgsAsg, prodYVar]

theorem binary_ne_gen (s : String) : "binary_" ++ s ≠ "gen_set" := by
  intro h
  have := congrArg String.toList h
  simp [String.toList_append] at this

theorem comp_ne_gen (s : String) : "comp_" ++ s ≠ "gen_set" := by
  intro h
  have := congrArg String.toList h
  simp [String.toList_append] at this

theorem comp_ne_binary (s t : String) : "comp_" ++ s ≠ "binary_" ++ t := by
  intro h
  have := congrArg String.toList h
  simp [String.toList_append] at this

theorem binary_cancel (s t : String) (h : "binary_" ++ s = "binary_" ++ t) : s = t := by
  have := congrArg String.toList h
  simp [String.toList_append] at this
  exact String.toList_inj.1 this

theorem comp_cancel (s t : String) (h : "comp_" ++ s = "comp_" ++ t) : s = t := by
  have := congrArg String.toList h
  simp [String.toList_append] at this
  exact String.toList_inj.1 this

theorem find_binary (hn : NamesOK k n) (i j : Nat) (hi : i < k) (hj : j < n) :
    (pairs k n).find? (fun q => "binary_" ++ piName i j == "binary_" ++ piName q.1 q.2) = some (i, j) := by
  cases hf : (pairs k n).find? (fun q => "binary_" ++ piName i j == "binary_" ++ piName q.1 q.2) with
  | none =>
    have := List.find?_eq_none.1 hf (i, j) ((mem_pairs k n i j).2 ⟨hi, hj⟩)
    simp at this
  | some q =>
    have h1 := List.find?_some hf
    have h2 := List.mem_of_find?_eq_some hf
    have h3 : piName i j = piName q.1 q.2 := binary_cancel _ _ (by simpa using h1)
    rw [hn (i, j) ((mem_pairs k n i j).2 ⟨hi, hj⟩) q h2 h3]

theorem find_comp (hn : NamesOK k n) (i j : Nat) (hi : i < k) (hj : j < n) :
    (pairs k n).find? (fun q => "comp_" ++ piName i j == "comp_" ++ piName q.1 q.2) = some (i, j) := by
  cases hf : (pairs k n).find? (fun q => "comp_" ++ piName i j == "comp_" ++ piName q.1 q.2) with
  | none =>
    have := List.find?_eq_none.1 hf (i, j) ((mem_pairs k n i j).2 ⟨hi, hj⟩)
    simp at this
  | some q =>
    have h1 := List.find?_some hf
    have h2 := List.mem_of_find?_eq_some hf
    have h3 : piName i j = piName q.1 q.2 := comp_cancel _ _ (by simpa using h1)
    rw [hn (i, j) ((mem_pairs k n i j).2 ⟨hi, hj⟩) q h2 h3]

theorem find_comp_binary (s : String) :
    (pairs k n).find? (fun q => "comp_" ++ s == "binary_" ++ piName q.1 q.2) = none := by
  apply List.find?_eq_none.2
  intro q _
  simpa using comp_ne_binary s (piName q.1 q.2)

theorem asg_bit (hn : NamesOK k n) (i j b : Nat) (hi : i < k) (hj : j < n) :
    mgsAsg k n g c asn (bitVar (piName i j) b) = bitOf (c i j) b := by
  simp only [mgsAsg, bitVar, if_neg (binary_ne_gen _), find_binary k n hn i j hi hj]

theorem asg_comp (hn : NamesOK k n) (i j b : Nat) (hi : i < k) (hj : j < n) :
    mgsAsg k n g c asn (compVar (piName i j) b) = bitOf (c i j) b * g i := by
  simp only [mgsAsg, compVar, if_neg (comp_ne_gen _), find_comp_binary, find_comp k n hn i j hi hj]

end values

/-! ### list bookkeeping -/

theorem map_range_getD {α} (l : List α) (d : α) : (List.range l.length).map (fun i => l.getD i d) = l := by
  apply List.ext_getElem (by simp)
  intro i h1 h2
  simp only [List.length_map, List.length_range] at h1
  simp [List.getD_eq_getElem?_getD, h1]

theorem sum_all_zero {α} (l : List α) (f : α → Rat) (h : ∀ x ∈ l, f x = 0) : (l.map f).sum = 0 := by
  induction l with
  | nil => rfl
  | cons x xs ih =>
    simp only [List.map_cons, List.sum_cons, h x (List.mem_cons_self ..),
      ih (fun y hy => h y (List.mem_cons_of_mem _ hy))]
    grind

theorem sum_ite_eq_range (t m : Nat) (h : m < t) :
    ((List.range t).map fun j => if m = j then (1:Rat) else 0).sum = 1 := by
  induction t with
  | zero => omega
  | succ t ih =>
    rw [List.range_succ, List.map_append, List.sum_append]
    by_cases hm : m = t
    · subst hm
      rw [sum_all_zero _ _ (fun j hj => by
        have := List.mem_range.1 hj
        rw [if_neg (by omega)])]
      simp; grind
    · rw [ih (by omega)]
      simp [hm]; grind

theorem mem_le_sum (l : List Rat) (h : ∀ x ∈ l, 0 ≤ x) : ∀ x ∈ l, x ≤ l.sum := by
  induction l with
  | nil => intro x hx; simp at hx
  | cons y ys ih =>
    intro x hx
    have hy := h y (List.mem_cons_self ..)
    have hs : 0 ≤ ys.sum := by
      clear ih hx
      induction ys with
      | nil => simp
      | cons z zs ih2 =>
        have h1 := h z (by simp)
        have h2 := ih2 (fun w hw => h w (by
          rcases List.mem_cons.1 hw with rfl | hm
          · simp
          · simp [hm]))
        simp only [List.sum_cons]; grind
    simp only [List.sum_cons]
    rcases List.mem_cons.1 hx with rfl | hm
    · grind
    · have := ih (fun w hw => h w (List.mem_cons_of_mem _ hw)) x hm
      grind

theorem getD_mem_or {α} (l : List α) (i : Nat) (d : α) (h : i < l.length) : l.getD i d ∈ l := by
  rw [List.getD_eq_getElem?_getD, List.getElem?_eq_getElem h]
  exact List.getElem_mem h

theorem dot_nonneg_term (c : List Nat) (g : List Rat) (hg : ∀ x ∈ g, 0 ≤ x) (i : Nat) :
    (c.getD i 0 : Rat) * g.getD i 0 ≤ dot c g := by
  induction c generalizing g i with
  | nil => simp [List.getD]
  | cons c0 cs ih =>
    cases g with
    | nil => simp [List.getD]
    | cons x xs =>
      have hx := hg x (List.mem_cons_self ..)
      have hxs := fun y hy => hg y (List.mem_cons_of_mem _ hy)
      have h0 : (0:Rat) ≤ dot cs xs := by
        have := ih xs hxs (cs.length)
        simp [List.getD] at this
        grind
      have hc0 : (0:Rat) ≤ (c0 : Rat) := Rat.natCast_nonneg
      have hmul : (0:Rat) ≤ (c0 : Rat) * x := Rat.mul_nonneg hc0 hx
      cases i with
      | zero => simp only [List.getD_cons_zero, dot_cons]; grind
      | succ i =>
        simp only [List.getD_cons_succ, dot_cons]
        have := ih xs hxs i
        grind


theorem dot_eq_sum_getD (c : List Nat) (g : List Rat) (h : c.length = g.length) :
    dot c g = ((List.range g.length).map fun i => (c.getD i 0 : Rat) * g.getD i 0).sum := by
  have e1 : (List.range g.length).map (fun i => c.getD i 0) = c := by rw [← h]; exact map_range_getD c 0
  have e2 : (List.range g.length).map (fun i => g.getD i 0) = g := map_range_getD g 0
  rw [← dot_map_range, e1, e2]

theorem partSum_eq_sum_getD (al : List Nat) (g : List Rat) (h : al.length = g.length) (j : Nat) :
    partSum al g j = ((List.range g.length).map fun i => if al.getD i 0 = j then g.getD i 0 else 0).sum := by
  have e1 : (List.range g.length).map (fun i => al.getD i 0) = al := by rw [← h]; exact map_range_getD al 0
  have e2 : (List.range g.length).map (fun i => g.getD i 0) = g := map_range_getD g 0
  rw [← partSum_map_range, e1, e2]

theorem mgsPartition_none (inp : MGSInput) (k : Nat) (hp : inp.partition = none) : mgsPartition inp k = {} := by
  unfold mgsPartition; rw [hp]

theorem mgsPartition_nil (inp : MGSInput) (k : Nat) (hp : inp.partition = some []) : mgsPartition inp k = {} := by
  unfold mgsPartition; rw [hp]

theorem mgs_complete_proof (inp : MGSInput) (gs : List Rat)
    (hg : IsGenSet gs inp.total inp.numbers (mgsEffMult inp))
    (hint : inp.weightInt = true → AllInt gs)
    (hsym : ∀ i, i + 2 < gs.length → gs.getD i 0 ≤ gs.getD (i+1) 0)
    (hle : inp.maxMult = 1 ∨ ∀ x ∈ inp.numbers, x ≤ inp.total)
    (hnames : inp.maxMult = 1 ∨ NamesOK gs.length inp.numbers.length)
    (hpart : ∀ cons, inp.partition = some cons → ∀ con ∈ cons, RespectsPartition gs con) :
    ∃ a : Asg, Sat a (mgsLP inp gs.length) ∧ mgsGen a gs.length = gs := by
  obtain ⟨hsum, hnn, hgen⟩ := hg
  -- coefficients
  have hcf : ∀ j, ∃ cl : List Nat, ∀ hj : j < inp.numbers.length,
      cl.length = gs.length ∧ (∀ ci ∈ cl, ci ≤ mgsEffMult inp) ∧ dot cl gs = inp.numbers[j] := by
    intro j
    by_cases hj : j < inp.numbers.length
    · obtain ⟨cl, h1, h2, h3⟩ := hgen _ (List.getElem_mem hj)
      exact ⟨cl, fun _ => ⟨h1, h2, h3⟩⟩
    · exact ⟨[], fun h => absurd h hj⟩
  obtain ⟨cf, hcf⟩ := Classical.axiomOfChoice hcf
  -- part assignments
  have haf : ∃ af : Nat → List Nat, ∀ cons, inp.partition = some cons → ∀ cc (hc : cc < cons.length),
      (af cc).length = gs.length ∧ (∀ p ∈ af cc, p < (cons[cc]).length) ∧
      ∀ j, j < (cons[cc]).length → partSum (af cc) gs j = (cons[cc]).getD j 0 := by
    cases hp : inp.partition with
    | none => exact ⟨fun _ => [], fun cons h => by cases h⟩
    | some cons0 =>
      have : ∀ cc, ∃ al : List Nat, ∀ hc : cc < cons0.length,
          al.length = gs.length ∧ (∀ p ∈ al, p < (cons0[cc]).length) ∧
          ∀ j, j < (cons0[cc]).length → partSum al gs j = (cons0[cc]).getD j 0 := by
        intro cc
        by_cases hc : cc < cons0.length
        · obtain ⟨al, h1, h2, h3⟩ := hpart cons0 hp _ (List.getElem_mem hc)
          exact ⟨al, fun _ => ⟨h1, h2, h3⟩⟩
        · exact ⟨[], fun h => absurd h hc⟩
      obtain ⟨af, haf⟩ := Classical.axiomOfChoice this
      exact ⟨af, fun cons h => by cases h; exact haf⟩
  obtain ⟨af, haf⟩ := haf
  let g : Nat → Rat := fun i => gs.getD i 0
  let c : Nat → Nat → Nat := fun i j => (cf j).getD i 0
  let asn : Nat → Nat → Nat := fun cc i => (af cc).getD i 0
  let a : Asg := mgsAsg gs.length inp.numbers.length g c asn
  have hgen_eq : mgsGen a gs.length = gs := by
    unfold mgsGen
    rw [← map_range_getD gs 0]
    simp only [List.length_map, List.length_range]
    apply List.map_congr_left
    intro i _
    exact asg_gen _ _ g c asn i
  refine ⟨a, ?_, hgen_eq⟩
  -- bounds of the generating elements
  have hg0 : ∀ i, i < gs.length → 0 ≤ g i ∧ g i ≤ inp.total := by
    intro i hi
    have hm := getD_mem_or gs i 0 hi
    exact ⟨hnn _ hm, by rw [← hsum]; exact mem_le_sum gs hnn _ hm⟩
  have hgint : inp.weightInt = true → ∀ i, i < gs.length → ∃ z : Int, g i = z :=
    fun hw i hi => hint hw _ (getD_mem_or gs i 0 hi)
  -- bounds of the coefficients
  have hc_le : ∀ i j, j < inp.numbers.length → c i j ≤ mgsEffMult inp := by
    intro i j hj
    by_cases hi : i < (cf j).length
    · exact (hcf j hj).2.1 _ (getD_mem_or (cf j) i 0 hi)
    · have : c i j = 0 := by
        show (cf j).getD i 0 = 0
        rw [List.getD_eq_getElem?_getD, List.getElem?_eq_none (by omega)]; rfl
      omega
  have hdot : ∀ j (hj : j < inp.numbers.length),
      ((List.range gs.length).map fun i => (c i j : Rat) * g i).sum = inp.numbers[j] := by
    intro j hj
    rw [← (hcf j hj).2.2, dot_eq_sum_getD _ _ (hcf j hj).1]
  have hterm : ∀ i j (hj : j < inp.numbers.length), (c i j : Rat) * g i ≤ inp.numbers[j] := by
    intro i j hj
    rw [← (hcf j hj).2.2]
    exact dot_nonneg_term (cf j) gs hnn i
  have hcnn : ∀ i j, (0:Rat) ≤ (c i j : Rat) := fun i j => Rat.natCast_nonneg
  rw [mgs_sat_iff]
  refine ⟨?_, ?_, ?_, ?_⟩
  · -- base
    rw [mgsBase_sat_iff]
    refine ⟨?_, ?_, ?_⟩
    · intro i hi
      simp only [Col.holds, genCol]
      rw [show a (genVar i) = g i from asg_gen _ _ g c asn i]
      exact ⟨(hg0 i hi).1, fun u hu => by cases hu; exact (hg0 i hi).2, fun hw => hgint hw i hi⟩
    · intro i j hi hj
      have hx : a (xVar i j) = (c i j : Rat) := asg_x _ _ g c asn i j
      have hpi : a (mgsPiVar i j) = (c i j : Rat) * g i := asg_pi _ _ g c asn i j
      have hcm := hc_le i j hj
      constructor
      · simp only [Col.holds, xCol, hx]
        refine ⟨hcnn i j, ?_, fun _ => ⟨(c i j : Int), (Rat.intCast_natCast _).symm⟩⟩
        intro u hu
        cases hu
        by_cases hm : inp.maxMult = 1
        · rw [if_pos hm]
          have : c i j ≤ 1 := by simpa [mgsEffMult, hm] using hcm
          have := Rat.natCast_le_natCast.2 this
          simpa using this
        · rw [if_neg hm]
          have : c i j ≤ inp.maxMult := by
            have h' : c i j ≤ min inp.maxMult (2 ^ qBits inp.total - 1) := by
              simpa [mgsEffMult, hm] using hcm
            omega
          exact Rat.natCast_le_natCast.2 this
      · simp only [Col.holds, piCol, hpi]
        refine ⟨Rat.mul_nonneg (hcnn i j) (hg0 i hi).1, ?_, ?_⟩
        · intro u hu
          cases hu
          rcases hle with hm | hle
          · have h1 : c i j ≤ 1 := by simpa [mgsEffMult, hm] using hcm
            have h01 : c i j = 0 ∨ c i j = 1 := by omega
            have := (hg0 i hi).2
            have := (hg0 i hi).1
            rcases h01 with h | h <;> rw [h] <;> simp <;> grind
          · exact Rat.le_trans (hterm i j hj) (hle _ (List.getElem_mem hj))
        · intro hw
          obtain ⟨z, hz⟩ := hgint hw i hi
          refine ⟨(c i j : Int) * z, ?_⟩
          rw [hz, Rat.intCast_mul, Rat.intCast_natCast]
    · have : (mgsGen a gs.length).sum = gs.sum := by rw [hgen_eq]
      rw [← hsum]
      exact this
  · -- the numbers
    rintro ⟨j, x⟩ hjx
    obtain ⟨hj, rfl⟩ := (mem_zip_range inp.numbers j x).1 hjx
    rw [mgsNumber_sat_iff]
    refine ⟨?_, ?_⟩
    · intro i hi
      have hx : a (xVar i j) = (c i j : Rat) := asg_x _ _ g c asn i j
      have hpi : a (mgsPiVar i j) = (c i j : Rat) * g i := asg_pi _ _ g c asn i j
      have hgv : a (genVar i) = g i := asg_gen _ _ g c asn i
      have hcm := hc_le i j hj
      unfold mgsProdLP
      by_cases hm : inp.maxMult = 1
      · rw [if_pos hm, sat_rows_only]
        have h1 : c i j ≤ 1 := by simpa [mgsEffMult, hm] using hcm
        have h01 : c i j = 0 ∨ c i j = 1 := by omega
        refine (binProd_exact a _ _ _ 0 inp.total ?_ (by rw [hgv]; exact hg0 i hi)).2 (by rw [hpi, hx, hgv])
        rw [hx]
        rcases h01 with h | h <;> rw [h] <;> simp
      · rw [if_neg hm, intProdQ_eq_G]
        have hn : NamesOK gs.length inp.numbers.length := by
          rcases hnames with h | h
          · exact absurd h hm
          · exact h
        have h' : c i j ≤ min inp.maxMult (2 ^ qBits inp.total - 1) := by
          simpa [mgsEffMult, hm] using hcm
        have hpow : 0 < 2 ^ qBits inp.total := Nat.two_pow_pos _
        have hT : 0 ≤ inp.total := Rat.le_trans (hg0 i hi).1 (hg0 i hi).2
        exact intProdG_sat a _ _ _ 0 inp.total _ (piName i j) (c i j) hx (by omega) Rat.le_refl hT
          (by rw [hgv]; exact hg0 i hi) (by rw [hpi, hx, hgv])
          (fun b _ => asg_bit _ _ g c asn hn i j b hi hj)
          (fun b _ => by rw [hgv]; exact asg_comp _ _ g c asn hn i j b hi hj)
    · show ((List.range gs.length).map fun i => a (mgsPiVar i j)).sum = inp.numbers[j]
      rw [← hdot j hj]
      apply sum_map_congr
      intro i _
      exact asg_pi _ _ g c asn i j
  · -- symmetry rows
    intro r hr
    simp only [mgsSymmetry, List.mem_map, List.mem_range] at hr
    obtain ⟨i, hi, rfl⟩ := hr
    refine ⟨fun l hl => (by cases hl), ?_⟩
    intro h hh
    cases hh
    simp only [rowLe, evalTerms, List.map_cons, List.map_nil, List.sum_cons, List.sum_nil]
    rw [show a (genVar i) = g i from asg_gen _ _ g c asn i,
        show a (genVar (i+1)) = g (i+1) from asg_gen _ _ g c asn (i+1)]
    have := hsym i (by omega)
    show (1:Rat) * gs.getD i 0 + (-1 * gs.getD (i+1) 0 + 0) ≤ 0
    grind
  · -- partition constraints
    cases hp : inp.partition with
    | none => rw [mgsPartition_none inp _ hp]; exact sat_empty a
    | some cons =>
      cases cons with
      | nil => rw [mgsPartition_nil inp _ hp]; exact sat_empty a
      | cons x xs =>
        rw [mgsPartition_some inp _ x xs hp, mgsPart_sat_iff]
        have hasn_lt : ∀ cc (hc : cc < (x :: xs).length) i, i < gs.length →
            asn cc i < ((x :: xs)[cc]).length := by
          intro cc hc i hi
          obtain ⟨h1, h2, _⟩ := haf _ hp cc hc
          exact h2 _ (getD_mem_or (af cc) i 0 (by omega))
        refine ⟨?_, ?_, ?_⟩
        · intro i j cc hi hj hc
          have hy : a (yVar i j cc) = if asn cc i = j then 1 else 0 := asg_y _ _ g c asn i j cc
          have hpy : a (prodYVar i j cc) = if asn cc i = j then g i else 0 := asg_py _ _ g c asn i j cc
          have hgv : a (genVar i) = g i := asg_gen _ _ g c asn i
          have hy01 : a (yVar i j cc) = 0 ∨ a (yVar i j cc) = 1 := by
            rw [hy]; by_cases h : asn cc i = j <;> simp [h]
          refine ⟨?_, ?_, ?_⟩
          · simp only [Col.holds, yCol]
            refine ⟨?_, ?_, fun _ => ?_⟩
            · rcases hy01 with h | h <;> rw [h] <;> grind
            · intro u hu; cases hu
              rcases hy01 with h | h <;> rw [h] <;> grind
            · rcases hy01 with h | h
              · exact ⟨0, by rw [h]; rfl⟩
              · exact ⟨1, by rw [h]; rfl⟩
          · simp only [Col.holds, pyCol, hpy]
            by_cases h : asn cc i = j
            · simp only [if_pos h]
              exact ⟨(hg0 i hi).1, fun u hu => by cases hu; exact (hg0 i hi).2, fun hw => hgint hw i hi⟩
            · simp only [if_neg h]
              have hT : 0 ≤ inp.total := Rat.le_trans (hg0 i hi).1 (hg0 i hi).2
              exact ⟨Rat.le_refl, fun u hu => by cases hu; exact hT, fun _ => ⟨0, rfl⟩⟩
          · refine (binProd_exact a _ _ _ 0 inp.total hy01 (by rw [hgv]; exact hg0 i hi)).2 ?_
            rw [hpy, hy, hgv]
            by_cases h : asn cc i = j <;> simp [h] <;> grind
        · intro i cc hi hc
          have hlt := hasn_lt cc hc i hi
          have hle' := le_maxParts (x :: xs) _ (List.getElem_mem hc)
          rw [← sum_ite_eq_range (maxParts (x :: xs)) (asn cc i) (by omega)]
          apply sum_map_congr
          intro j _
          exact asg_y _ _ g c asn i j cc
        · intro cc hc j hj
          obtain ⟨h1, _, h3⟩ := haf _ hp cc hc
          rw [← h3 j hj, partSum_eq_sum_getD _ _ h1]
          apply sum_map_congr
          intro i _
          exact asg_py _ _ g c asn i j cc


/-! ### every multiset can be put in the order the symmetry rows ask for -/

def PartOK (g : List Rat) (m : Nat) (T : Nat → Rat) : Prop :=
  ∃ assign : List Nat, assign.length = g.length ∧ (∀ p ∈ assign, p < m) ∧
    ∀ j, j < m → partSum assign g j = T j

theorem partSum_cons (p : Nat) (ps : List Nat) (x : Rat) (xs : List Rat) (j : Nat) :
    partSum (p :: ps) (x :: xs) j = (if p = j then x else 0) + partSum ps xs j := by
  simp [partSum]

theorem partOK_perm {g g' : List Rat} (hp : g.Perm g') (m : Nat) :
    ∀ T, PartOK g m T → PartOK g' m T := by
  induction hp with
  | nil => intro T h; exact h
  | cons a _ ih =>
    rintro T ⟨asg, h1, h2, h3⟩
    cases asg with
    | nil => simp at h1
    | cons p0 ps =>
      obtain ⟨ps', h1', h2', h3'⟩ := ih (fun j => T j - (if p0 = j then a else 0))
        ⟨ps, by simpa using h1, fun p hp => h2 p (List.mem_cons_of_mem _ hp), fun j hj => by
          have := h3 j hj
          rw [partSum_cons] at this
          grind⟩
      refine ⟨p0 :: ps', by simp [h1'], ?_, ?_⟩
      · intro p hp
        rcases List.mem_cons.1 hp with rfl | hm
        · exact h2 _ (List.mem_cons_self ..)
        · exact h2' p hm
      · intro j hj
        rw [partSum_cons, h3' j hj]
        grind
  | swap a b l =>
    rintro T ⟨asg, h1, h2, h3⟩
    match asg, h1, h2, h3 with
    | p0 :: p1 :: ps, h1, h2, h3 =>
      refine ⟨p1 :: p0 :: ps, by simpa using h1, ?_, ?_⟩
      · intro p hp
        apply h2
        simp only [List.mem_cons] at hp ⊢
        rcases hp with h | h | h
        · exact Or.inr (Or.inl h)
        · exact Or.inl h
        · exact Or.inr (Or.inr h)
      · intro j hj
        have := h3 j hj
        rw [partSum_cons, partSum_cons] at this ⊢
        grind
    | [], h1, _, _ => simp at h1
    | [_], h1, _, _ => simp at h1
  | trans _ _ ih1 ih2 => intro T h; exact ih2 T (ih1 T h)

theorem respectsPartition_perm {g g' : List Rat} (hp : g.Perm g') (con : List Rat)
    (h : RespectsPartition g con) : RespectsPartition g' con :=
  partOK_perm hp con.length (fun j => con.getD j 0) h

theorem allInt_perm {g g' : List Rat} (hp : g.Perm g') (h : AllInt g) : AllInt g' :=
  fun x hx => h x (hp.mem_iff.2 hx)

theorem sortRat_perm (l : List Rat) : (sortRat l).Perm l := List.mergeSort_perm l _

theorem sortRat_sorted (l : List Rat) (i : Nat) (hi : i + 1 < (sortRat l).length) :
    (sortRat l).getD i 0 ≤ (sortRat l).getD (i+1) 0 := by
  have hpw : (sortRat l).Pairwise (fun a b => decide (a ≤ b) = true) :=
    List.pairwise_mergeSort
      (fun a b c h1 h2 => by
        simp only [decide_eq_true_eq] at h1 h2 ⊢
        exact Rat.le_trans h1 h2)
      (fun a b => by
        simp only [Bool.or_eq_true, decide_eq_true_eq]
        exact Rat.le_total) l
  have := List.pairwise_iff_getElem.1 hpw i (i+1) (by omega) hi (by omega)
  simp only [decide_eq_true_eq] at this
  rw [List.getD_eq_getElem?_getD, List.getD_eq_getElem?_getD, List.getElem?_eq_getElem (by omega),
    List.getElem?_eq_getElem hi]
  exact this

/-- **completeness for multisets**: whatever the order in which a generating multiset is given, its
sorted arrangement extends to a satisfying assignment -/
theorem mgs_complete_multiset_proof (inp : MGSInput) (gs : List Rat)
    (hg : IsGenSet gs inp.total inp.numbers (mgsEffMult inp))
    (hint : inp.weightInt = true → AllInt gs)
    (hle : inp.maxMult = 1 ∨ ∀ x ∈ inp.numbers, x ≤ inp.total)
    (hnames : inp.maxMult = 1 ∨ NamesOK gs.length inp.numbers.length)
    (hpart : ∀ cons, inp.partition = some cons → ∀ con ∈ cons, RespectsPartition gs con) :
    ∃ a : Asg, Sat a (mgsLP inp gs.length) ∧ (mgsGen a gs.length).Perm gs := by
  have hp := sortRat_perm gs
  have hlen : (sortRat gs).length = gs.length := hp.length_eq
  obtain ⟨a, h1, h2⟩ := mgs_complete_proof inp (sortRat gs)
    (isGenSet_perm hp.symm _ _ _ hg) (fun hw => allInt_perm hp.symm (hint hw))
    (fun i hi => sortRat_sorted gs i (by omega)) hle (by rw [hlen]; exact hnames)
    (fun cons hc con hcon => respectsPartition_perm hp.symm con (hpart cons hc con hcon))
  rw [hlen] at h1 h2
  exact ⟨a, h1, by rw [h2]; exact hp⟩

/-! ### the helper names `pi_i={i}_j={j}` are pairwise distinct -/

theorem split_at_sep {α} (x : α) : ∀ (l1 l2 r1 r2 : List α), x ∉ l1 → x ∉ l2 →
    l1 ++ x :: r1 = l2 ++ x :: r2 → l1 = l2 ∧ r1 = r2 := by
  intro l1
  induction l1 with
  | nil =>
    intro l2 r1 r2 _ h2 h
    cases l2 with
    | nil => simp at h; exact ⟨rfl, h⟩
    | cons y ys =>
      simp only [List.nil_append, List.cons_append, List.cons.injEq] at h
      exact absurd (by rw [h.1]; exact List.mem_cons_self ..) h2
  | cons y ys ih =>
    intro l2 r1 r2 h1 h2 h
    cases l2 with
    | nil =>
      simp only [List.nil_append, List.cons_append, List.cons.injEq] at h
      exact absurd (by rw [← h.1]; exact List.mem_cons_self ..) h1
    | cons z zs =>
      simp only [List.cons_append, List.cons.injEq] at h
      obtain ⟨e1, e2⟩ := ih zs r1 r2 (fun hm => h1 (List.mem_cons_of_mem _ hm))
        (fun hm => h2 (List.mem_cons_of_mem _ hm)) h.2
      exact ⟨by rw [h.1, e1], e2⟩

theorem toDigits_inj (i j : Nat) (h : Nat.toDigits 10 i = Nat.toDigits 10 j) : i = j := by
  have h1 := @Nat.ofDigitChars_ten_toDigits i
  have h2 := @Nat.ofDigitChars_ten_toDigits j
  rw [h] at h1
  omega

theorem piName_inj (i j i' j' : Nat) (h : piName i j = piName i' j') : i = i' ∧ j = j' := by
  have := congrArg String.toList h
  simp only [piName, String.toList_append, Nat.toString_eq_repr, Nat.toList_repr, List.append_assoc] at this
  have h1 := List.append_cancel_left this
  have hs : "_j=".toList = '_' :: ['j', '='] := rfl
  rw [hs] at h1
  simp only [List.cons_append, List.nil_append] at h1
  obtain ⟨e1, e2⟩ := split_at_sep '_' _ _ _ _ Nat.underscore_not_in_toDigits Nat.underscore_not_in_toDigits h1
  simp only [List.cons.injEq, true_and] at e2
  exact ⟨toDigits_inj _ _ e1, toDigits_inj _ _ e2⟩

theorem namesOK_all (k n : Nat) : NamesOK k n := by
  rintro ⟨i, j⟩ _ ⟨i', j'⟩ _ h
  obtain ⟨rfl, rfl⟩ := piName_inj i j i' j' h
  rfl

end FP.GS
