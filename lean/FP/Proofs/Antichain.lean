import FP.Model.Antichain
import FP.Spec.Substrate
import FP.Proofs.ReachLemmas
import FP.Proofs.FlowLemmas
/-!
# FP.Proofs.Antichain — the edges collected by the two DFS phases form an antichain
-/
namespace FP
open FP.Spec

/-- phase-1 invariant: every predecessor of a marked node is marked or waits on the stack -/
def P1Inv (a : ACInput) (stack : List Node) (vis : Node → Nat) : Prop :=
  ∀ u, vis u ≠ 0 → ∀ v, (v, u) ∈ a.g.edges → vis v ≠ 0 ∨ v ∈ stack

theorem acPhase1_closed (a : ACInput) (n : Nat) :
    ∀ (stack : List Node) (vis vis' : Node → Nat), acPhase1 a n stack vis = .ok (some vis') →
      P1Inv a stack vis → (vis a.source ≠ 0 ∨ a.source ∈ stack) →
      (∀ u, vis' u ≠ 0 → ∀ v, (v, u) ∈ a.g.edges → vis' v ≠ 0) ∧ vis' a.source ≠ 0 ∧ vis' a.sink = vis a.sink := by
  induction n with
  | zero =>
    intro stack vis vis' h hinv hsrc
    cases stack with
    | nil =>
      simp only [acPhase1, Except.ok.injEq, Option.some.injEq] at h
      subst h
      refine ⟨?_, ?_, rfl⟩
      · intro u hu v hv
        rcases hinv u hu v hv with h | h
        · exact h
        · simp at h
      · rcases hsrc with h | h
        · exact h
        · simp at h
    | cons u rest => simp [acPhase1] at h
  | succ n ih =>
    intro stack vis vis' h hinv hsrc
    cases stack with
    | nil =>
      simp only [acPhase1, Except.ok.injEq, Option.some.injEq] at h
      subst h
      refine ⟨?_, ?_, rfl⟩
      · intro u hu v hv
        rcases hinv u hu v hv with h | h
        · exact h
        · simp at h
      · rcases hsrc with h | h
        · exact h
        · simp at h
    | cons u rest =>
      unfold acPhase1 at h
      by_cases hvu : vis u ≠ 0
      · rw [if_pos hvu] at h
        apply ih rest vis vis' h
        · intro x hx v hv
          rcases hinv x hx v hv with h' | h'
          · exact Or.inl h'
          · rcases List.mem_cons.1 h' with rfl | h'
            · exact Or.inl hvu
            · exact Or.inr h'
        · rcases hsrc with h' | h'
          · exact Or.inl h'
          · rcases List.mem_cons.1 h' with h' | h'
            · rw [h']; exact Or.inl hvu
            · exact Or.inr h'
      · have hvu0 : vis u = 0 := by simpa using hvu
        rw [if_neg hvu] at h
        by_cases hsink : u = a.sink
        · rw [if_pos hsink] at h; simp at h
        · rw [if_neg hsink] at h
          have key := ih _ _ vis' h
          have hstep : (upd vis u 1) a.sink = vis a.sink := by
            have : a.sink ≠ u := fun h' => hsink h'.symm
            simp [upd, this]
          rw [← hstep]
          apply key
          · intro x hx v hv
            by_cases hvz : upd vis u 1 v ≠ 0
            · exact Or.inl hvz
            · right
              have hvz' : upd vis u 1 v = 0 := by simpa using hvz
              by_cases hxu : x = u
              · subst hxu
                apply List.mem_append.2; left
                apply List.mem_reverse.2
                apply List.mem_append.2; right
                exact List.mem_filter.2 ⟨mem_pred.2 hv, by simp [hvz']⟩
              · have hx' : vis x ≠ 0 := by simpa [upd, hxu] using hx
                rcases hinv x hx' v hv with h' | h'
                · exfalso
                  by_cases hvu' : v = u
                  · simp [upd, hvu'] at hvz'
                  · simp [upd, hvu'] at hvz'; exact h' hvz'
                · rcases List.mem_cons.1 h' with h' | h'
                  · simp [upd, h'] at hvz'
                  · exact List.mem_append.2 (Or.inr h')
          · rcases hsrc with h' | h'
            · left
              by_cases hs : a.source = u
              · simp [upd, hs]
              · simp [upd, hs]; exact h'
            · rcases List.mem_cons.1 h' with h' | h'
              · left; simp [upd, h']
              · exact Or.inr (List.mem_append.2 (Or.inr h'))

/-- what phase 2 may append, relative to the marking `vis1` left by phase 1 -/
def ACGood (a : ACInput) (vis1 : Node → Nat) (e : Edge) : Prop :=
  e ∈ a.g.edges ∧ vis1 e.1 ≠ 0 ∧ vis1 e.2 = 0 ∧ a.flow e = a.demand e ∧ 1 ≤ a.demand e

theorem acPhase2_good (a : ACInput) (vis1 : Node → Nat) (n : Nat) :
    ∀ (stack : List Node) (vis : Node → Nat) (acc A : List Edge), acPhase2 a n stack vis acc = some A →
      (∀ x, vis x = 0 ↔ vis1 x = 0) → (∀ e ∈ acc, ACGood a vis1 e) → ∀ e ∈ A, ACGood a vis1 e := by
  induction n with
  | zero =>
    intro stack vis acc A h _ hacc
    cases stack with
    | nil => simp only [acPhase2, Option.some.injEq] at h; subst h; exact hacc
    | cons u rest => simp [acPhase2] at h
  | succ n ih =>
    intro stack vis acc A h hrel hacc
    cases stack with
    | nil => simp only [acPhase2, Option.some.injEq] at h; subst h; exact hacc
    | cons u rest =>
      unfold acPhase2 at h
      by_cases hvu : vis u ≠ 1
      · rw [if_pos hvu] at h
        exact ih rest vis acc A h hrel hacc
      · have hvu1 : vis u = 1 := by simpa using hvu
        rw [if_neg hvu] at h
        apply ih _ _ _ A h
        · intro x
          by_cases hx : x = u
          · subst hx
            have : vis1 x ≠ 0 := fun h0 => by have := (hrel x).2 h0; omega
            simp [upd, this]
          · simp [upd, hx]; exact hrel x
        · intro e he
          rcases List.mem_append.1 he with he | he
          · exact hacc e he
          · obtain ⟨v, hv, rfl⟩ := List.mem_map.1 he
            obtain ⟨hv1, hv2⟩ := List.mem_filter.1 hv
            simp only [Bool.and_eq_true, decide_eq_true_eq, beq_iff_eq] at hv2
            obtain ⟨⟨⟨_, hfd⟩, hd⟩, hz⟩ := hv2
            have hvne : v ≠ u := by
              intro h'; rw [h'] at hz; simp [upd] at hz
            have hz' : vis v = 0 := by simpa [upd, hvne] using hz
            refine ⟨mem_succ.1 hv1, ?_, (hrel v).1 hz', hfd, hd⟩
            intro h0
            have := (hrel u).2 h0
            omega

theorem pairwise_of_forall {α} (R : α → α → Prop) (l : List α) (h : ∀ a ∈ l, ∀ b ∈ l, R a b) : l.Pairwise R := by
  induction l with
  | nil => exact List.Pairwise.nil
  | cons x l ih =>
    refine List.pairwise_cons.2 ⟨fun b hb => h x (by simp) b (by simp [hb]), ih ?_⟩
    intro a ha b hb
    exact h a (by simp [ha]) b (by simp [hb])

/-- a set closed under predecessors is closed under everything that reaches it -/
theorem closed_reach {es : List Edge} {S : Node → Prop} (hcl : ∀ u, S u → ∀ v, (v, u) ∈ es → S v) {x y : Node}
    (hr : Reach es x y) (hy : S y) : S x := by
  induction hr with
  | refl => exact hy
  | step _ he ih => exact ih (hcl _ hy _ he)

/-- **soundness of the extraction**: whenever both DFS phases run to completion, the returned edges
are edges of the graph with `flow = demand ≥ 1`, they all leave the predecessor-closed set marked by
phase 1, and no head of one reaches the tail of another (or of itself). -/
theorem acExtract_sound (a : ACInput) (A : List Edge) (h : acExtract a = .ok (some A)) :
    ∃ vis1 : Node → Nat, acVisited a = .ok (some vis1) ∧
      (∀ u, vis1 u ≠ 0 → ∀ v, (v, u) ∈ a.g.edges → vis1 v ≠ 0) ∧ vis1 a.source ≠ 0 ∧ vis1 a.sink = 0 ∧
      (∀ e ∈ A, ACGood a vis1 e) ∧ IsEdgeAntichain a.g A := by
  unfold acExtract at h
  cases hv : acVisited a with
  | error e => rw [hv] at h; simp at h
  | ok o =>
    cases o with
    | none => rw [hv] at h; simp at h
    | some vis1 =>
      rw [hv] at h
      simp only [Except.ok.injEq] at h
      have hv' := hv
      unfold acVisited at hv'
      obtain ⟨hcl, hsrc, hsnk⟩ := acPhase1_closed a _ _ _ vis1 hv' (by intro u hu; simp at hu) (Or.inr (by simp))
      have hgood := acPhase2_good a vis1 _ _ _ _ A h (fun x => Iff.rfl) (by simp)
      refine ⟨vis1, rfl, hcl, hsrc, by simpa using hsnk, hgood, fun e he => (hgood e he).1, ?_⟩
      apply pairwise_of_forall
      intro e he e' he'
      have g1 := hgood e he
      have g2 := hgood e' he'
      rintro (hr | hr)
      · exact closed_reach (S := fun x => vis1 x ≠ 0) hcl hr g2.2.1 g1.2.2.1
      · exact closed_reach (S := fun x => vis1 x ≠ 0) hcl hr g1.2.1 g2.2.2.1

end FP
