import FP.Proofs.WrapperBase
/-!
# Proofs for `numBits` and `intProd` (integer × continuous product)
-/
namespace FP

/-! ### numBits -/

theorem numBitsAux_spec (ub : Nat) : ∀ fuel n, ub + 1 ≤ n + fuel →
    (∀ m, m < n → ¬ (ub + 1 ≤ 2 ^ m)) →
    ub + 1 ≤ 2 ^ numBitsAux fuel ub n ∧ ∀ m, ub + 1 ≤ 2 ^ m → numBitsAux fuel ub n ≤ m := by
  intro fuel
  induction fuel with
  | zero =>
    intro n hn hinv
    have h1 : n < 2 ^ n := Nat.lt_two_pow_self
    simp only [numBitsAux]
    refine ⟨by omega, ?_⟩
    intro m hm
    apply Nat.le_of_not_lt
    intro hlt
    exact hinv m hlt hm
  | succ fuel ih =>
    intro n hn hinv
    simp only [numBitsAux]
    split
    · rename_i h
      refine ⟨h, ?_⟩
      intro m hm
      apply Nat.le_of_not_lt
      intro hlt
      exact hinv m hlt hm
    · rename_i h
      apply ih (n+1) (by omega)
      intro m hm
      by_cases hmn : m = n
      · subst hmn; exact h
      · exact hinv m (by omega)

theorem numBits_spec_proof (ub : Nat) :
    ub + 1 ≤ 2 ^ numBits ub ∧ ∀ n, ub + 1 ≤ 2 ^ n → numBits ub ≤ n := by
  apply numBitsAux_spec ub (ub+1) 0 (by omega)
  intro m hm; omega

/-! ### intProd, soundness -/

theorem intProd_sound_proof (a : Asg) (n c p : Var) (lb : Rat) (ubN : Nat) (name : String)
    (hc : lb ≤ a c ∧ a c ≤ (ubN : Rat)) (h : Sat a (intProd n c p lb ubN name)) :
    a p = a n * a c := by
  obtain ⟨hcols, hrows⟩ := h
  simp only [intProd] at hcols hrows
  -- bits are 0/1
  have hbit : ∀ i ∈ List.range (numBits ubN), a (bitVar name i) = 0 ∨ a (bitVar name i) = 1 := by
    intro i hi
    have := hcols { v := bitVar name i, lb := 0, ub := some 1, isInt := true }
      (List.mem_append_left _ (List.mem_map.2 ⟨i, hi, rfl⟩))
    obtain ⟨h0, h1, hz⟩ := this
    exact int01 _ h0 (h1 1 rfl) (hz rfl)
  have hcomp : ∀ i ∈ List.range (numBits ubN),
      a (compVar name i) = a (bitVar name i) * a c := by
    intro i hi
    apply (binProd_exact_aux a (bitVar name i) c (compVar name i) lb ubN (hbit i hi) hc).1
    intro r hr
    apply hrows
    apply List.mem_append_left
    apply List.mem_append_right
    exact List.mem_flatMap.2 ⟨i, hi, hr⟩
  have hint := hrows _ (List.mem_append_left _ (List.mem_append_left _ (List.mem_singleton.2 rfl)))
  have hprod := hrows _ (List.mem_append_right _ (List.mem_singleton.2 rfl))
  simp only [Row.holds, rowEq, evalTerms_append, evalTerms_map, evalTerms_single] at hint hprod
  have hint1 := hint.1 0 rfl
  have hint2 := hint.2 0 rfl
  have hprod1 := hprod.1 0 rfl
  have hprod2 := hprod.2 0 rfl
  have hs : ((List.range (numBits ubN)).map (fun i => (2:Rat)^i * a (compVar name i))).sum
      = ((List.range (numBits ubN)).map (fun i => (2:Rat)^i * a (bitVar name i))).sum * a c := by
    rw [← sum_map_mul_right]
    apply sum_map_congr
    intro i hi
    rw [hcomp i hi]; grind
  rw [hs] at hprod1 hprod2
  generalize ((List.range (numBits ubN)).map (fun i => (2:Rat)^i * a (bitVar name i))).sum = S at *
  have hS : S = a n := by grind
  subst hS
  grind

/-! ### intProd, completeness -/

theorem binexp (k : Nat) : ∀ n,
    ((List.range n).map (fun i => (2:Rat)^i * ((k / 2^i % 2 : Nat) : Rat))).sum
      = ((k % 2^n : Nat) : Rat) := by
  intro n
  induction n with
  | zero => simp [Nat.mod_one]
  | succ n ih =>
    rw [List.range_succ, List.map_append, List.sum_append, ih, Nat.mod_pow_succ]
    simp [Rat.natCast_add, Rat.natCast_mul, Rat.natCast_pow, Rat.add_zero]

/-- the extended assignment -/
def ipAsg (a : Asg) (c : Var) (name : String) (k : Nat) : Asg := fun v =>
  match v with
  | .ix pfx i =>
    if pfx = "binary_" ++ name then ((k / 2^i % 2 : Nat) : Rat)
    else if pfx = "comp_" ++ name then ((k / 2^i % 2 : Nat) : Rat) * a c
    else a v
  | v => a v

theorem ipAsg_bit (a : Asg) (c : Var) (name : String) (k i : Nat) :
    ipAsg a c name k (bitVar name i) = ((k / 2^i % 2 : Nat) : Rat) := by
  simp [ipAsg, bitVar]

theorem ipAsg_comp (a : Asg) (c : Var) (name : String) (k i : Nat)
    (hbc : ∀ i j, bitVar name i ≠ compVar name j) :
    ipAsg a c name k (compVar name i) = ((k / 2^i % 2 : Nat) : Rat) * a c := by
  have hne : ¬ ("comp_" ++ name = "binary_" ++ name) := by
    intro h
    apply hbc 0 0
    simp [bitVar, compVar, h]
  simp [ipAsg, compVar, hne]

theorem ipAsg_other (a : Asg) (c : Var) (name : String) (k : Nat) (v : Var)
    (hv : ∀ i, v ≠ bitVar name i ∧ v ≠ compVar name i) : ipAsg a c name k v = a v := by
  cases v with
  | ix pfx i =>
    have h1 : pfx ≠ "binary_" ++ name := by
      intro h; exact (hv i).1 (by simp [bitVar, h])
    have h2 : pfx ≠ "comp_" ++ name := by
      intro h; exact (hv i).2 (by simp [compVar, h])
    simp [ipAsg, h1, h2]
  | _ => rfl

theorem natbit01 (k i : Nat) : ((k / 2^i % 2 : Nat) : Rat) = 0 ∨ ((k / 2^i % 2 : Nat) : Rat) = 1 := by
  rcases Nat.mod_two_eq_zero_or_one (k / 2^i) with h | h <;> rw [h] <;> simp

theorem intProd_complete_proof (a : Asg) (n c p : Var) (lb : Rat) (ubN : Nat) (name : String) (k : Nat)
    (hk : a n = k) (hkub : k ≤ ubN) (hlb : lb ≤ 0)
    (hc : lb ≤ a c ∧ a c ≤ (ubN : Rat)) (hp : a p = a n * a c)
    (hfresh : ∀ i, bitVar name i ≠ n ∧ bitVar name i ≠ c ∧ bitVar name i ≠ p ∧
                   compVar name i ≠ n ∧ compVar name i ≠ c ∧ compVar name i ≠ p)
    (hbc : ∀ i j, bitVar name i ≠ compVar name j) :
    ∃ a' : Asg, (∀ v, (∀ i, v ≠ bitVar name i ∧ v ≠ compVar name i) → a' v = a v) ∧
      Sat a' (intProd n c p lb ubN name) := by
  refine ⟨ipAsg a c name k, ipAsg_other a c name k, ?_⟩
  have hn : ipAsg a c name k n = a n :=
    ipAsg_other _ _ _ _ _ (fun i => ⟨(hfresh i).1.symm, (hfresh i).2.2.2.1.symm⟩)
  have hcc : ipAsg a c name k c = a c :=
    ipAsg_other _ _ _ _ _ (fun i => ⟨(hfresh i).2.1.symm, (hfresh i).2.2.2.2.1.symm⟩)
  have hpp : ipAsg a c name k p = a p :=
    ipAsg_other _ _ _ _ _ (fun i => ⟨(hfresh i).2.2.1.symm, (hfresh i).2.2.2.2.2.symm⟩)
  have hub0 : (0:Rat) ≤ (ubN : Rat) := Rat.natCast_nonneg
  have hkmod : k % 2 ^ numBits ubN = k := by
    apply Nat.mod_eq_of_lt
    have := (numBits_spec_proof ubN).1
    omega
  have hsum : ((List.range (numBits ubN)).map
      (fun i => (2:Rat)^i * ipAsg a c name k (bitVar name i))).sum = (k : Rat) := by
    rw [sum_map_congr _ _ (fun i => (2:Rat)^i * ((k / 2^i % 2 : Nat) : Rat))
      (fun i _ => by rw [ipAsg_bit]), binexp, hkmod]
  have hsumc : ((List.range (numBits ubN)).map
      (fun i => (2:Rat)^i * ipAsg a c name k (compVar name i))).sum = (k : Rat) * a c := by
    rw [← hsum, ← sum_map_mul_right]
    apply sum_map_congr
    intro i _
    rw [ipAsg_comp _ _ _ _ _ hbc, ipAsg_bit]; grind
  constructor
  · intro col hcol
    simp only [intProd] at hcol
    rcases List.mem_append.1 hcol with h | h
    · obtain ⟨i, _, rfl⟩ := List.mem_map.1 h
      simp only [Col.holds, ipAsg_bit]
      refine ⟨Rat.natCast_nonneg, ?_, fun _ => ⟨((k / 2^i % 2 : Nat) : Int), rfl⟩⟩
      intro u hu
      cases hu
      rcases natbit01 k i with h | h <;> rw [h] <;> grind
    · obtain ⟨i, _, rfl⟩ := List.mem_map.1 h
      simp only [Col.holds, ipAsg_comp _ _ _ _ _ hbc]
      refine ⟨?_, ?_, fun h => by cases h⟩
      · rcases natbit01 k i with h | h <;> rw [h] <;> grind
      · intro u hu
        cases hu
        rcases natbit01 k i with h | h <;> rw [h] <;> grind
  · intro r hr
    simp only [intProd] at hr
    rcases List.mem_append.1 hr with h | h
    · rcases List.mem_append.1 h with h | h
      · rw [List.mem_singleton.1 h]
        simp only [Row.holds, rowEq, evalTerms_append, evalTerms_map, evalTerms_single, hsum, hn, hk]
        constructor <;> intro x hx <;> cases hx <;> grind
      · obtain ⟨i, _, hi⟩ := List.mem_flatMap.1 h
        refine (binProd_exact_aux (ipAsg a c name k) (bitVar name i) c (compVar name i) lb ubN ?_ ?_).2
          ?_ r hi
        · rw [ipAsg_bit]; exact natbit01 k i
        · rw [hcc]; exact hc
        · rw [ipAsg_comp _ _ _ _ _ hbc, ipAsg_bit, hcc]
    · rw [List.mem_singleton.1 h]
      simp only [Row.holds, rowEq, evalTerms_append, evalTerms_map, evalTerms_single, hsumc, hpp, hp, hk]
      constructor <;> intro x hx <;> cases hx <;> grind

end FP
