import FP.Model.Wrapper
import FP.Proofs.WrapperState
import FP.Spec.Box
/-!
# Proofs for the objective part of the wrapper state machine: a `set_objective` replaces costs, constant
and sense; nothing else touches them (helpers `wobj_*`)
-/
namespace FP

/-- the cost vector of a state -/
def wobj_costs (s : WState) : List Rat := s.cols.map (·.cost)

theorem wobj_setBounds_costs (cs : List WCol) (i : Nat) (l u : Rat) :
    (setBounds cs i l u).map (·.cost) = cs.map (·.cost) := by
  apply List.ext_getElem?
  intro j
  simp only [setBounds, List.getElem?_map]
  by_cases h : i = j
  · subst h; rw [List.getElem?_modify_eq]; cases cs[i]? <;> rfl
  · rw [List.getElem?_modify_ne _ _ h]

theorem wobj_foldl_setBounds_costs {α} (ups : List α) (ix : α → Nat) (lo hi : α → Rat) :
    ∀ cs : List WCol,
      (ups.foldl (fun cs u => setBounds cs (ix u) (lo u) (hi u)) cs).map (·.cost) = cs.map (·.cost) := by
  induction ups with
  | nil => intro cs; rfl
  | cons u rest ih => intro cs; rw [List.foldl_cons, ih, wobj_setBounds_costs]

theorem wobj_flush_costs (f : GetColsField) (s : WState) : wobj_costs (flush f s) = wobj_costs s := by
  simp only [wobj_costs, flush]
  exact (wobj_foldl_setBounds_costs (α := (Nat × Rat) × Rat) _
      (fun u => u.1.1) (fun u => u.1.2) (fun u => u.2) _).trans
    (wobj_foldl_setBounds_costs (α := Nat × Rat) _ (fun u => u.1) (fun u => u.2) (fun u => u.2) _)

theorem wobj_flush_offset (f : GetColsField) (s : WState) :
    (flush f s).offset = s.offset ∧ (flush f s).maximize = s.maximize ∧
    (flush f s).last = s.last ∧ (flush f s).nSolves = s.nSolves := ⟨rfl, rfl, rfl, rfl⟩

theorem wobj_length_costs (s : WState) : (wobj_costs s).length = s.cols.length := by simp [wobj_costs]

theorem wobj_flush_length (f : GetColsField) (s : WState) : (flush f s).cols.length = s.cols.length := by
  rw [← wobj_length_costs, wobj_flush_costs, wobj_length_costs]

theorem wobj_setObjective_costs (cols : List WCol) (ts : List (Nat × Rat)) :
    (setObjective cols ts).map (·.cost) = (List.range cols.length).map (termCost ts) := by
  apply List.ext_getElem?
  intro i
  rw [List.getElem?_map, setObjective_getElem?]
  by_cases hi : i < cols.length
  · simp [hi, termCost]
  · simp [hi]

theorem wobj_setObjective_length (cols : List WCol) (ts : List (Nat × Rat)) :
    (setObjective cols ts).length = cols.length := by
  have := congrArg List.length (wobj_setObjective_costs cols ts)
  simpa using this

/-- objective data of a state: constant, sense, and the cost of every column given by `h` -/
def wobj_ObjIs (off : Rat) (mx : Bool) (h : Nat → Rat) (s : WState) : Prop :=
  s.offset = off ∧ s.maximize = mx ∧ wobj_costs s = (List.range s.cols.length).map h

theorem wobj_step_keeps (f : GetColsField) (off : Rat) (mx : Bool) (h : Nat → Rat) (n0 : Nat)
    (hz : ∀ i, n0 ≤ i → h i = 0) (s : WState) (o : WOp) (hno : o.isSetObjective = false)
    (hn : n0 ≤ s.cols.length) (hs : wobj_ObjIs off mx h s) :
    n0 ≤ (wstep f s o).cols.length ∧ wobj_ObjIs off mx h (wstep f s o) := by
  obtain ⟨h1, h2, h3⟩ := hs
  cases o with
  | addVars bs =>
    refine ⟨by simp [wstep]; omega, h1, h2, ?_⟩
    simp only [wobj_costs, wstep, List.map_append, List.length_append, List.length_map, List.map_map] at h3 ⊢
    rw [h3, List.range_add, List.map_append]
    congr 1
    apply List.ext_getElem?
    intro i
    simp only [List.getElem?_map, Function.comp_def]
    by_cases hi : i < bs.length
    · simp [hi, hz (s.cols.length + i) (by omega)]
    · simp [hi]
  | queueFix i v => exact ⟨hn, h1, h2, h3⟩
  | queueLb i v => exact ⟨hn, h1, h2, h3⟩
  | setObjective ts c m => simp [WOp.isSetObjective] at hno
  | optimize =>
    have hl := wobj_flush_length f s
    refine ⟨by simp only [wstep]; omega, h1, h2, ?_⟩
    show wobj_costs (flush f s) = (List.range (flush f s).cols.length).map h
    rw [wobj_flush_costs, hl, h3]

theorem wobj_run_keeps (f : GetColsField) (off : Rat) (mx : Bool) (h : Nat → Rat) (n0 : Nat)
    (hz : ∀ i, n0 ≤ i → h i = 0) (post : List WOp) (hpost : ∀ o ∈ post, o.isSetObjective = false) :
    ∀ s : WState, n0 ≤ s.cols.length → wobj_ObjIs off mx h s →
      n0 ≤ (post.foldl (wstep f) s).cols.length ∧ wobj_ObjIs off mx h (post.foldl (wstep f) s) := by
  induction post with
  | nil => intro s hn hs; exact ⟨hn, hs⟩
  | cons o rest ih =>
    intro s hn hs
    have := wobj_step_keeps f off mx h n0 hz s o (hpost o (List.mem_cons_self ..)) hn hs
    exact ih (fun o' ho' => hpost o' (List.mem_cons_of_mem _ ho')) _ this.1 this.2

theorem wobj_objIs_cost (off : Rat) (mx : Bool) (h : Nat → Rat) (s : WState) (hs : wobj_ObjIs off mx h s)
    (i : Nat) (hi : i < s.cols.length) : s.cols[i].cost = h i := by
  have := congrArg (fun l => l[i]?) hs.2.2
  simp only [wobj_costs, List.getElem?_map, List.getElem?_range, hi, List.getElem?_eq_getElem,
    Option.map_some] at this
  simpa using this

/-- **objective replacement, full strength**: after any history, offset, sense and all costs are those of the
last `set_objective` (columns created after it have cost `0`) -/
theorem wobj_set_objective_replaces (f : GetColsField) (pre post : List WOp) (ts : List (Nat × Rat))
    (c : Option Rat) (mx : Bool) (hpost : ∀ o ∈ post, o.isSetObjective = false) :
    let s := wrun f (pre ++ WOp.setObjective ts c mx :: post)
    s.offset = offsetOf c ∧ s.maximize = mx ∧
    ∀ i (hi : i < s.cols.length), s.cols[i].cost =
      if i < (wrun f pre).cols.length then termCost ts i else 0 := by
  intro s
  let n0 := (wrun f pre).cols.length
  let h : Nat → Rat := fun i => if i < n0 then termCost ts i else 0
  have hs : s = post.foldl (wstep f) (wstep f (wrun f pre) (.setObjective ts c mx)) := by
    simp [s, wrun, List.foldl_append]
  have h0 : wobj_ObjIs (offsetOf c) mx h (wstep f (wrun f pre) (.setObjective ts c mx)) := by
    refine ⟨rfl, rfl, ?_⟩
    simp only [wobj_costs, wstep]
    rw [wobj_setObjective_costs, wobj_setObjective_length]
    apply List.map_congr_left
    intro i hi
    have : i < n0 := List.mem_range.1 hi
    simp [h, this]
  have hn0 : n0 ≤ (wstep f (wrun f pre) (.setObjective ts c mx)).cols.length := by
    simp only [wstep]; rw [wobj_setObjective_length]; exact Nat.le_refl _
  have := wobj_run_keeps f (offsetOf c) mx h n0 (fun i hi => by simp [h]; omega) post hpost _ hn0 h0
  rw [← hs] at this
  exact ⟨this.2.1, this.2.2.1, fun i hi => wobj_objIs_cost _ _ h s this.2 i hi⟩

/-- a history without any `set_objective`: all costs `0`, offset `0`, minimisation -/
theorem wobj_no_objective (f : GetColsField) (ops : List WOp) (hops : ∀ o ∈ ops, o.isSetObjective = false) :
    let s := wrun f ops
    s.offset = 0 ∧ s.maximize = false ∧ ∀ i (hi : i < s.cols.length), s.cols[i].cost = 0 := by
  intro s
  have h0 : wobj_ObjIs 0 false (fun _ => 0) ({} : WState) := ⟨rfl, rfl, rfl⟩
  have := wobj_run_keeps f 0 false (fun _ => 0) 0 (fun _ _ => rfl) ops hops {} (Nat.zero_le _) h0
  exact ⟨this.2.1, this.2.2.1, fun i hi => wobj_objIs_cost _ _ _ s this.2 i hi⟩

/-- two `set_objective` calls in a row: the state is that of the second alone -/
theorem wobj_set_objective_twice (f : GetColsField) (s : WState) (t1 t2 : List (Nat × Rat))
    (c1 c2 : Option Rat) (m1 m2 : Bool) :
    wstep f (wstep f s (.setObjective t1 c1 m1)) (.setObjective t2 c2 m2)
      = wstep f s (.setObjective t2 c2 m2) := by
  simp only [wstep, setObjective_replaces_proof]

end FP
