import FP.Proofs.PathCoreExample
import FP.Proofs.C10Constraints
import FP.Proofs.C10Ignore
import FP.Proofs.C10Augment
import FP.Proofs.C10Subset
/-!
# FP.Proofs.C10Example — the hypotheses of the C10 theorems are satisfiable

On the user DAG `a → b → c`, `a → c` of `PathCoreExample`:
* the constraint `[(a,b),(b,c)]` with coverage 1: `constraint_complete` turns the satisfying
  assignment of the unconstrained LP (path `a,b,c`) into one of the constrained LP;
* a kFlowDecomp input in which ignoring `(a,b)` keeps `w_max = 3`;
* the route `b,c` is admissible exactly when `b` is an additional start;
* an assignment of the two `min1` rows with multiplicity 2.
-/
namespace FP.C10Example
open FP FP.Spec FP.PathCoreExample

def cfgC : PathCfg := { k := 1, constraints := [[("a", "b"), ("b", "c")]], coverage := 1 }

theorem cfgC_noConstraints : cfgC.noConstraints = cfg := rfl

/-- the edge set of the single route -/
def P : Nat → List Edge := fun _ => walkEdges ["source", "a", "b", "c", "sink"]

theorem sat_with_constraint : Sat (withR asg (fun _ => 0)) (encodePaths st cfgC) := by
  refine (constraint_complete st cfgC asg P (fun _ => 0) ?_ ?_ ?_ ?_).1
  · rw [cfgC_noConstraints]; exact sat_example
  · intro i hi j hj e he
    have hi0 : i = 0 := by have : cfgC.k = 1 := rfl; omega
    have hj0 : j = 0 := by have : cfgC.constraints.length = 1 := rfl; omega
    subst hi0 hj0
    have he' : e = ("a", "b") ∨ e = ("b", "c") := by simpa [cfgC] using he
    rcases he' with rfl | rfl <;> decide
  · intro j hj e he
    show (0 : Rat) ≤ 1
    decide
  · intro j hj
    have hj0 : j = 0 := by have : cfgC.constraints.length = 1 := rfl; omega
    subst hj0
    refine ⟨by decide, ?_⟩
    have hc : (cfgC.constraints[0]'hj) = [("a", "b"), ("b", "c")] := rfl
    have hcount : List.countP (fun e => decide (e ∈ P 0)) [("a", "b"), ("b", "c")] = 2 := by decide
    show ((cfgC.constraints[0]).length : Rat) * cfgC.coverage ≤ _
    rw [hc, hcount]
    show ((2 : Nat) : Rat) * 1 ≤ ((2 : Nat) : Rat)
    simp

/-! ### ignoring -/

def inp : FlowInput :=
  { base := base, flow := [(("a", "b"), 2), (("b", "c"), 2), (("a", "c"), 3)], cfg := { k := 2 } }

theorem inp_edges_nodup : inp.st.g.edges.Nodup := by decide
theorem inp_active : ("a", "b") ∈ inp.activeEdges := by decide
theorem inp_wmax : (inp.ignoreMore ("a", "b")).wmax = inp.wmax := by decide

theorem ignore_example :
    (kfdLP inp).rows.Perm ((kfdLP (inp.ignoreMore ("a", "b"))).rows ++ kfdEdgeRows inp ("a", "b")) :=
  (kfd_ignore_is_row_deletion inp ("a", "b") inp_edges_nodup inp_active inp_wmax).2.2

/-! ### additional starts -/

theorem route_example :
    ValidRoute base ["b"] [] ["b", "c"] ∧ ¬ ValidRoute base [] [] ["b", "c"] ∧
    IsWalkIn (augment base ["b"] []).g (srcName :: ["b", "c"] ++ [snkName]) := by
  have hv : ValidRoute base ["b"] [] ["b", "c"] := by
    refine ⟨by decide, by decide, by unfold IsWalkIn; decide, ?_, ?_⟩
    · intro v hv
      have : v = "b" := by simpa using hv.symm
      subst this; right; simp
    · intro v hv
      have : v = "c" := by simpa using hv.symm
      subst this; left; decide
  refine ⟨hv, ?_, (augment_starts_ends base ["b"] [] base_wf _).2 hv⟩
  intro h
  rcases h.first "b" rfl with h1 | h1
  · exact absurd h1 (by decide)
  · simp at h1

/-! ### min1 rows -/

def e0 : Edge := ("a", "b")
def asgU : Asg := fun v => if v = usedVar e0 0 then 1 else if v = edgeVar e0 0 then 2 else 0

theorem min1_example : asgU (usedVar e0 0) = 1 ↔ 1 ≤ asgU (edgeVar e0 0) :=
  (used_indicator_exact asgU e0 0 3 (Or.inr (by decide)) (by decide)
    (used_indicator_complete asgU e0 0 3 ⟨2, by decide⟩ (by decide) (by decide) (by decide))).1

end FP.C10Example
