import FP.Proofs.C06IncompatCond
import FP.Proofs.C06IncompatCores
/-!
# FP.Proofs.C06Incompat — T6 in full: the sequences chosen for different slots never share a walk

`c06i_incompatible_family`: for every family of sequences with pairwise different cores (`CoreFamily`), an SCC
numbering (`SccLabelling`) and members that are pairwise unreachable in the expanded condensation
(`CondAntichain`), the result of `get_longest_incompatible_sequences` is pairwise incompatible.
`c06i_incompatible_sound`: the same for the maximal safe sequences computed by the model.

Why two sequences taken from the same inter-SCC member cannot share a walk: the member keeps at most as many
sequences as there are graph edges between the two components. If the two sequences contain different edges of
the member, no walk takes both (the components are different). If they contain the same edge `e`, then either `e`
is the only graph edge of the member (and the member keeps one sequence), or `e` has a twin and therefore
dominates nothing (`c06i_reroute`): a sequence that contains `e` and lies on a source-to-sink walk has the core `e`,
and two sequences have different cores.
-/
namespace FP.Safety
open FP FP.Spec

theorem c06i_outName_inj (c : Cond) {u v : Node} (h : outName c u = outName c v) : c.scc u = c.scc v := by
  unfold outName at h
  by_cases hu : c.nontrivial (c.scc u) = true <;> by_cases hv : c.nontrivial (c.scc v) = true
  · rw [if_pos hu, if_pos hv] at h; exact c06i_expandedName_inj h
  · rw [if_pos hu, if_neg hv] at h; exact absurd h (c06i_expandedName_ne _ _)
  · rw [if_neg hu, if_pos hv] at h; exact absurd h.symm (c06i_expandedName_ne _ _)
  · rw [if_neg hu, if_neg hv] at h; exact c06i_toString_inj h

theorem c06i_countP_le_one {α : Type} (p : α → Bool) (x : α) : ∀ (l : List α), l.Nodup →
    (∀ y ∈ l, p y = true → y = x) → l.countP p ≤ 1 := by
  intro l
  induction l with
  | nil => intro _ _; simp
  | cons a l ih =>
    intro hnd h
    have hnd' := List.nodup_cons.1 hnd
    by_cases hpa : p a = true
    · have hax : a = x := h a (by simp) hpa
      have hzero : l.countP p = 0 := by
        apply List.countP_eq_zero.2
        intro y hy hpy
        have : y = x := h y (List.mem_cons_of_mem _ hy) hpy
        exact hnd'.1 (by rw [hax, ← this]; exact hy)
      rw [List.countP_cons_of_pos hpa, hzero]; omega
    · rw [List.countP_cons_of_neg hpa]
      exact ih hnd'.2 (fun y hy => h y (List.mem_cons_of_mem _ hy))

theorem c06i_seqFn_inter_le (c : Cond) (seqs : List (List Edge)) (ce : String × String)
    (h : Cond.isSccEdge ce = false) :
    (c.seqFn seqs ce).length ≤ c.g.edges.countP fun e => c.expandedEdge e = ce := by
  unfold Cond.seqFn
  simp only [h, Bool.false_eq_true, if_false]
  exact List.length_take_le _ _

/-- an inter-SCC edge `e` with a parallel twin belongs only to the sequence of its own core: if `q` contains `e`,
lies on a source-to-sink walk and is forced by `cc ∈ q`, then `cc = e` -/
theorem c06i_twin_core (c : Cond) (hg : GraphWF c.g) (hscc : SccLabelling c) (s t : Node) (e e' cc : Edge)
    (q : List Edge) (w : List Node) (hw : IsSTWalkG c.g s t w) (he : e ∈ q) (hq : Occurs q w) (hcc : cc ∈ q)
    (hf : ForcedBy c.g s t [cc] q) (he' : e' ∈ c.g.edges) (hne : e' ≠ e)
    (hsame : c.expandedEdge e' = c.expandedEdge e) (hns : Cond.isSccEdge (c.expandedEdge e) = false) :
    cc = e := by
  apply Classical.byContradiction
  intro hcne
  have hew : e ∈ walkEdges w := hq.subset he
  have hccw : cc ∈ walkEdges w := hq.subset hcc
  have heg : e ∈ c.g.edges := hw.walk e hew
  have h1 : c.scc e.1 ≠ c.scc e.2 := by
    intro h; rw [c06i_isSccEdge_intra c e h] at hns; cases hns
  have h2 : c.scc e'.1 ≠ c.scc e'.2 := by
    intro h; rw [← hsame, c06i_isSccEdge_intra c e' h] at hns; cases hns
  rw [c06i_expandedEdge_inter c e h1, c06i_expandedEdge_inter c e' h2] at hsame
  have htails : c.scc e'.1 = c.scc e.1 := c06i_outName_inj c (congrArg Prod.fst hsame)
  have hheads : c.scc e'.2 = c.scc e.2 := c06i_toString_inj (congrArg Prod.snd hsame)
  have hT := (hscc _ (hg e' he').1 _ (hg e heg).1).1 htails
  have hH := (hscc _ (hg e' he').2 _ (hg e heg).2).1 hheads
  have hback : ¬ Reach c.g.edges e.2 e.1 := by
    intro hr
    have hfw : Reach c.g.edges e.1 e.2 := Reach.step (Reach.refl _) (show (e.1, e.2) ∈ c.g.edges from heg)
    exact h1 ((hscc _ (hg e heg).1 _ (hg e heg).2).2 ⟨hfw, hr⟩)
  obtain ⟨w', hw', hcc', hno⟩ := c06i_reroute c.g s t e e' cc w hw hew hccw hcne hback he' hne hT.2 hT.1 hH.1 hH.2
  have ho : Occurs [cc] w' := by
    unfold Occurs
    exact List.singleton_sublist.2 hcc'
  exact hno ((hf w' hw' ho).subset he)

/-- **T6 for every family with pairwise different cores.** -/
theorem c06i_incompatible_family (c : Cond) (s t : Node) (seqs : List (List Edge))
    (anti : List (String × String)) (chosen : List (List Edge))
    (hg : GraphWF c.g) (hnd : c.g.edges.Nodup) (hscc : SccLabelling c) (hfam : CoreFamily c.g s t seqs)
    (hanti : CondAntichain c anti) (h : longestIncompatible c seqs anti = .ok chosen) :
    chosen.Pairwise fun p q => ¬ CoOccur c.g s t p q := by
  have hAH : AntichainHyp c s t anti := c06i_antichainHyp c s t anti hg hscc hanti
  obtain ⟨core, hdist, hcore⟩ := hfam
  unfold longestIncompatible at h
  split at h
  · cases h
  · simp only at h
    split at h
    · cases h
    · rename_i hnd'
      injection h with h; subst h
      have hnd'' : (anti.flatMap (c.seqFn seqs)).Nodup := by simpa using hnd'
      rw [List.pairwise_map]
      refine List.Pairwise.imp_of_mem ?_ hnd''
      intro i j hi hj hij hco
      obtain ⟨a, ha, hia⟩ := List.mem_flatMap.1 hi
      obtain ⟨b, hb, hjb⟩ := List.mem_flatMap.1 hj
      obtain ⟨e1, he1, hc1⟩ := seqFn_mem c seqs a i hia
      obtain ⟨e2, he2, hc2⟩ := seqFn_mem c seqs b j hjb
      obtain ⟨w, hw, ho1, ho2⟩ := hco
      have hm1 : e1 ∈ walkEdges w := ho1.subset he1
      have hm2 : e2 ∈ walkEdges w := ho2.subset he2
      have hg1 : e1 ∈ c.g.edges := hw.walk e1 hm1
      have hg2 : e2 ∈ c.g.edges := hw.walk e2 hm2
      have hone : ∀ l : List Nat, l.length ≤ 1 → i ∈ l → j ∈ l → i = j := by
        intro l hl hi' hj'
        match l, hl with
        | [], _ => simp at hi'
        | [x], _ => simp at hi' hj'; rw [hi', hj']
      have hlen : ∀ (k : Nat) (e : Edge), e ∈ seqs.getD k [] → k < seqs.length := by
        intro k e hk
        apply Classical.byContradiction
        intro hge
        have : seqs.getD k [] = [] := by
          rw [List.getD_eq_getElem?_getD, List.getElem?_eq_none (by omega)]; rfl
        rw [this] at hk; cases hk
      by_cases hab : a = b
      · subst hab
        by_cases hsccE : Cond.isSccEdge a = true
        · exact hij (hone _ (seqFn_scc_le_one c seqs a hsccE) hia hjb)
        · have hscc' : Cond.isSccEdge a = false := by simpa using hsccE
          by_cases he : e1 = e2
          · subst he
            by_cases htwin : ∃ e' ∈ c.g.edges, e' ≠ e1 ∧ c.expandedEdge e' = a
            · -- `e1` has a twin: both sequences have the core `e1`
              obtain ⟨e', he', hne', hsame⟩ := htwin
              have hli := hlen i e1 he1
              have hlj := hlen j e1 he2
              have hci := hcore i hli
              have hcj := hcore j hlj
              have h1 := c06i_twin_core c hg hscc s t e1 e' (core i) _ w hw he1 ho1 hci.1 hci.2 he' hne'
                (hsame.trans hc1.symm) (by rw [hc1]; exact hscc')
              have h2 := c06i_twin_core c hg hscc s t e1 e' (core j) _ w hw he2 ho2 hcj.1 hcj.2 he' hne'
                (hsame.trans hc1.symm) (by rw [hc1]; exact hscc')
              exact hdist i j hli hlj hij (h1.trans h2.symm)
            · -- `e1` is the only graph edge of the member, which therefore keeps one sequence
              have hcnt : (c.g.edges.countP fun e => c.expandedEdge e = a) ≤ 1 := by
                apply c06i_countP_le_one _ e1 _ hnd
                intro y hy hpy
                apply Classical.byContradiction
                intro hne
                exact htwin ⟨y, hy, hne, by simpa using hpy⟩
              exact hij (hone _ (Nat.le_trans (c06i_seqFn_inter_le c seqs a hscc') hcnt) hia hjb)
          · exact hAH a ha a ha e1 hg1 e2 hg2 hc1 hc2 he (Or.inl hscc') ⟨w, hw, hm1, hm2⟩
      · have he : e1 ≠ e2 := by intro he; subst he; exact hab (hc1.symm.trans hc2)
        exact hAH a ha b hb e1 hg1 e2 hg2 hc1 hc2 he (Or.inr hab) ⟨w, hw, hm1, hm2⟩

/-- **T6 for the maximal safe sequences computed by the model.** -/
theorem c06i_incompatible_sound (c : Cond) (s t : Node) (X : List Edge) (seqs : List (List Edge))
    (anti : List (String × String)) (chosen : List (List Edge))
    (hg : GraphWF c.g) (hnd : c.g.edges.Nodup) (hscc : SccLabelling c)
    (hseqs : maxSafeSeqs c.g s t X = .ok seqs) (hanti : CondAntichain c anti)
    (h : longestIncompatible c seqs anti = .ok chosen) :
    chosen.Pairwise fun p q => ¬ CoOccur c.g s t p q :=
  c06i_incompatible_family c s t seqs anti chosen hg hnd hscc
    (c06i_maxSafeSeqs_coreFamily c.g hg s t X seqs hseqs) hanti h

end FP.Safety
