import FP.Proofs.SafetyGraph
/-!
# FP.Proofs.SafetySeq — the output of `safe_sequences` is forced by the item it was computed for
-/
namespace FP.Safety
open FP FP.Spec

/-- an embedding of `a :: r` into the edges of a walk splits the walk at the image of `a` -/
theorem split_first {V : Type} (a : V × V) (r : List (V × V)) : ∀ w : List V, (a :: r).Sublist (walkEdges w) →
    ∃ w1 w2, w = w1 ++ a.1 :: a.2 :: w2 ∧ r.Sublist (walkEdges (a.2 :: w2)) := by
  intro w
  induction w with
  | nil => intro h; simp [we_nil] at h
  | cons x w ih =>
    cases w with
    | nil => intro h; simp [we_single] at h
    | cons y w =>
      intro h
      rw [we_cons_cons] at h
      rcases List.sublist_cons_iff.1 h with h | ⟨r', hr, h⟩
      · obtain ⟨w1, w2, hw, hs⟩ := ih h
        exact ⟨x :: w1, w2, by rw [hw]; rfl, hs⟩
      · injection hr with h1 h2; subst h1; subst h2
        exact ⟨[], w, rfl, h⟩

/-- an embedding of `r0 ++ [b]` into the edges of a walk splits the walk at the image of `b` -/
theorem split_last {V : Type} (b : V × V) : ∀ (w : List V) (r0 : List (V × V)),
    (r0 ++ [b]).Sublist (walkEdges w) →
    ∃ w1 w2, w = w1 ++ b.1 :: b.2 :: w2 ∧ r0.Sublist (walkEdges (w1 ++ [b.1])) := by
  intro w
  induction w with
  | nil => intro r0 h; cases r0 <;> simp [we_nil] at h
  | cons x w ih =>
    cases w with
    | nil => intro r0 h; cases r0 <;> simp [we_single] at h
    | cons y w =>
      intro r0 h
      rw [we_cons_cons] at h
      rcases List.sublist_cons_iff.1 h with h | ⟨r', hr, h⟩
      · obtain ⟨w1, w2, hw, hs⟩ := ih r0 h
        refine ⟨x :: w1, w2, by rw [hw]; rfl, ?_⟩
        have : walkEdges (w1 ++ [b.1]) <:+ walkEdges (x :: w1 ++ [b.1]) := by
          cases w1 with
          | nil => simp [we_single, we_cons_cons]
          | cons z w1 => exact List.suffix_cons _ _
        exact hs.trans this.sublist
      · cases r0 with
        | nil =>
          simp at hr; obtain ⟨hb, _⟩ := hr; subst hb
          exact ⟨[], w, rfl, List.nil_sublist _⟩
        | cons c r0 =>
          simp only [List.cons_append, List.cons.injEq] at hr
          obtain ⟨hc, hr⟩ := hr; subst hc; subst hr
          obtain ⟨w1, w2, hw, hs⟩ := ih r0 h
          refine ⟨x :: w1, w2, by rw [hw]; rfl, ?_⟩
          have hhd : (w1 ++ [b.1]).head? = some y := by
            cases w1 with
            | nil => simp at hw ⊢; exact hw.1.symm
            | cons z w1 => simp at hw ⊢; exact hw.1.symm
          obtain ⟨l, hl⟩ : ∃ l, w1 ++ [b.1] = y :: l := by
            cases hq : w1 ++ [b.1] with
            | nil => simp at hq
            | cons z l => rw [hq] at hhd; simp at hhd; subst hhd; exact ⟨l, rfl⟩
          rw [List.cons_append, hl, we_cons_cons, ← hl]
          exact List.Sublist.cons_cons _ hs

theorem swap_swap_map (l : List Edge) : (l.map fun e => (e.2, e.1)).map (fun e => (e.2, e.1)) = l := by
  rw [List.map_map]; conv => rhs; rw [← List.map_id l]
  apply List.map_congr_left; intro e _; rfl

/-- the heart of `safe_sequences`: left bridges (reversed), the item, right bridges — forced by the item -/
theorem safeSequenceOf_forced (g : Graph) (hg : GraphWF g) (s t : Node) (item seq : List Edge)
    (h : safeSequenceOf g s t item = .ok seq) : ForcedBy g s t item seq := by
  unfold safeSequenceOf at h
  split at h
  · rename_i a b ha hb
    cases hL : findAllBridges (predAdj g) a.1 s with
    | ok rl =>
      obtain ⟨left, gl⟩ := rl
      cases hR : findAllBridges (succAdj g) b.2 t with
      | ok rr =>
        obtain ⟨right, gr⟩ := rr
        simp only [hL, hR, bind, pure] at h
        injection h with h; subst h
        intro w hw hocc
        unfold Occurs at hocc ⊢
        -- split at the image of the last element of the item
        obtain ⟨r0, hr0⟩ := List.getLast?_eq_some_iff.1 hb
        rw [hr0] at hocc
        obtain ⟨w1, w2, hw12, hs1⟩ := split_last b w r0 hocc
        have hwR : IsSTWalkG g b.2 t (b.2 :: w2) := by
          refine ⟨?_, rfl, ?_⟩
          · intro e he; apply hw.walk; rw [hw12]
            have : w1 ++ b.1 :: b.2 :: w2 = (w1 ++ [b.1]) ++ (b.2 :: w2) := by simp
            rw [this]; exact we_sub_append_left _ _ e he
          · have := hw.last
            rw [hw12] at this
            have h5 : w1 ++ b.1 :: b.2 :: w2 = (w1 ++ [b.1]) ++ (b.2 :: w2) := by simp
            rw [h5, List.getLast?_append] at this
            cases hq : (b.2 :: w2).getLast? with
            | none => simp at hq
            | some z => rw [hq] at this; simpa using this
        have hright := findAllBridges_ordered _ _ _ _ _ hR _ (isWalkAdj_succ g hg _ _ _ hwR)
        have hmid : (item ++ right).Sublist (walkEdges w) := by
          rw [hw12, hr0, we_append_cons, we_cons_cons, List.append_assoc]
          exact hs1.append (List.Sublist.cons_cons _ hright)
        -- split at the image of the first element
        obtain ⟨r, hr⟩ : ∃ r, item = a :: r := by
          cases item with
          | nil => simp at ha
          | cons a' r => simp at ha; subst ha; exact ⟨r, rfl⟩
        rw [hr, List.cons_append] at hmid
        obtain ⟨v1, v2, hv12, hs2⟩ := split_first a (r ++ right) w hmid
        have hwL : IsSTWalkG g s a.1 (v1 ++ [a.1]) := by
          refine ⟨?_, ?_, by simp⟩
          · intro e he; apply hw.walk; rw [hv12]
            have : v1 ++ a.1 :: a.2 :: v2 = (v1 ++ [a.1]) ++ (a.2 :: v2) := by simp
            rw [this]; exact we_sub_append_right _ _ e he
          · have := hw.first; rw [hv12] at this; cases v1 <;> simpa using this
        have hleft := findAllBridges_ordered _ _ _ _ _ hL _ (isWalkAdj_pred g hg _ _ _ hwL)
        rw [we_reverse] at hleft
        have hleft' : (left.map fun yz => (yz.2, yz.1)).reverse.Sublist (walkEdges (v1 ++ [a.1])) := by
          have h1 := (hleft.map fun e => (e.2, e.1)).reverse
          rw [List.map_reverse, List.reverse_reverse, swap_swap_map] at h1
          exact h1
        rw [hv12, we_append_cons, we_cons_cons, hr, List.append_assoc, List.cons_append]
        exact hleft'.append (List.Sublist.cons_cons _ hs2)
      | raises w => simp only [hL, hR, bind] at h; cases h
      | fuel => simp only [hL, hR, bind] at h; cases h
    | raises w => simp only [hL, bind] at h; cases h
    | fuel => simp only [hL, bind] at h; cases h
  · cases h

end FP.Safety
