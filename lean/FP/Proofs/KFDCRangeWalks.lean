import FP.Proofs.KFDCRangeMerge
/-!
# FP.Proofs.KFDCRangeWalks — a family of weighted source-to-sink walks can be replaced by at most `|E|` walks

`kfdcr_few_walks`: on the shape `augment` produces without additional starts/ends, every family of
source-to-sink walks with positive integer weights (each walk through an edge of the user's graph) has
the same weighted traversal counts, on every edge of the augmented graph, as a family of at most
`#edges of the user's graph` such walks with positive integer weights.

Proof: close every walk by the edge `sink → source`; the weighted traversal counts form a circulation
(`kfdcr_close_circ`); peel simple closed walks off it, each killing a base edge (`kfdcr_peel`); the
closed walks through the source are source-to-sink walks, the others closed walks of the augmented
graph (`kfdcr_classify`); absorb the latter (`kfdcr_merge`).
-/
namespace FP
open FP.Spec FP.Euler

/-- closing a walk by `sink → source` adds one traversal of that edge -/
theorem kfdcr_walkEdges_close (s : STGraph) (p : List Node) :
    walkEdges (s.source :: p ++ [s.sink] ++ [s.source])
      = walkEdges (s.source :: p ++ [s.sink]) ++ [(s.sink, s.source)] :=
  kfdcr_walkEdges_snoc (s.source :: p) s.sink s.source

section Walks
variable {s : STGraph} (hwf : STWFc s)
include hwf

theorem kfdcr_virtual_not_mem : (s.sink, s.source) ∉ s.g.edges := fun h => hwf.snkNoOut _ h rfl

theorem kfdcr_trav_close (p : List Node) (e : Edge) (he : e ∈ s.g.edges) :
    traversals (s.source :: p ++ [s.sink] ++ [s.source]) e = traversals (s.source :: p ++ [s.sink]) e := by
  unfold traversals
  rw [kfdcr_walkEdges_close, List.count_append]
  have : e ≠ (s.sink, s.source) := fun h => kfdcr_virtual_not_mem hwf (h ▸ he)
  have h0 : List.count e [(s.sink, s.source)] = 0 := List.count_eq_zero.2 (by simpa using this)
  omega

/-! ## the pieces of `kfdcr_peel`, sorted -/

theorem kfdcr_classify_one (d : List Node × Nat) (hd : kfdcr_Piece s d) :
    (∃ dA, kfdcr_AWalk s dA ∧ ∀ e ∈ s.g.edges, dA.2 * traversals dA.1 e = d.2 * traversals d.1 e) ∨
    kfdcr_BCyc s d := by
  obtain ⟨hμ, x, b, hxb, hnd, hE, eb, heb, hbase⟩ := hd
  by_cases hsrc : s.source ∈ x :: b
  · left
    obtain ⟨b', hperm, hnd'⟩ := kfdcr_rotate x b s.source hsrc
    have hnd'' := hnd' hnd
    rw [← hxb] at hperm
    have hE' : ∀ e ∈ walkEdges (s.source :: b' ++ [s.source]), e ∈ kfdcr_Ehat s :=
      fun e he => hE e (hperm.mem_iff.1 he)
    have hne : b' ≠ [] := by
      intro h
      subst h
      have h1 := hE' (s.source, s.source) (by simp [walkEdges])
      rcases kfdcr_mem_Ehat.1 h1 with h | h
      · exact hwf.srcNoIn _ h rfl
      · exact hwf.ne (congrArg Prod.fst h)
    obtain ⟨p, t, hpt⟩ : ∃ p t, b' = p ++ [t] := ⟨b'.dropLast, b'.getLast hne, (List.dropLast_concat_getLast hne).symm⟩
    subst hpt
    have hform : s.source :: (p ++ [t]) ++ [s.source] = s.source :: p ++ [t] ++ [s.source] := by simp
    have hedges : walkEdges (s.source :: (p ++ [t]) ++ [s.source])
        = walkEdges (s.source :: p ++ [t]) ++ [(t, s.source)] := by
      rw [hform]; exact kfdcr_walkEdges_snoc (s.source :: p) t s.source
    have ht : t = s.sink := by
      have h1 := hE' (t, s.source) (by rw [hedges]; simp)
      rcases kfdcr_mem_Ehat.1 h1 with h | h
      · exact absurd rfl (hwf.srcNoIn _ h)
      · exact congrArg Prod.fst h
    subst ht
    have hLE : ∀ e ∈ walkEdges (s.source :: p ++ [s.sink]), e ∈ s.g.edges := by
      intro e he
      have h1 := hE' e (by rw [hedges]; exact List.mem_append_left _ he)
      rcases kfdcr_mem_Ehat.1 h1 with h | h
      · exact h
      · exfalso
        have hf := fst_mem_of_mem_walkEdges _ _ he
        rw [h] at hf
        have e1 : (s.source :: p ++ [s.sink]).dropLast = s.source :: p := by
          have : s.source :: p ++ [s.sink] = (s.source :: p) ++ [s.sink] := rfl
          rw [this, List.dropLast_concat]
        rw [e1] at hf
        have hnd3 : (s.source :: p ++ [s.sink]).Nodup := by
          have : s.source :: (p ++ [s.sink]) = s.source :: p ++ [s.sink] := rfl
          rw [← this]; exact hnd''
        have : s.source :: p ++ [s.sink] = (s.source :: p) ++ [s.sink] := rfl
        rw [this, List.nodup_append] at hnd3
        exact hnd3.2.2 _ hf _ (by simp) rfl
    refine ⟨(s.source :: p ++ [s.sink], d.2), ⟨hμ, ⟨p, rfl⟩, hLE, eb, ?_, hbase⟩, ?_⟩
    · have h1 : eb ∈ walkEdges (s.source :: (p ++ [s.sink]) ++ [s.source]) := hperm.mem_iff.2 heb
      rw [hedges] at h1
      rcases List.mem_append.1 h1 with h | h
      · exact h
      · have : eb = (s.sink, s.source) := by simpa using h
        rw [this] at hbase
        simp [kfdcr_isBase] at hbase
    · intro e he
      show d.2 * traversals (s.source :: p ++ [s.sink]) e = d.2 * traversals d.1 e
      have h1 : traversals d.1 e = traversals (s.source :: (p ++ [s.sink]) ++ [s.source]) e := by
        unfold traversals; exact (hperm.count_eq e).symm
      rw [h1, hform, kfdcr_trav_close hwf p e he]
  · right
    refine ⟨hμ, x, b, hxb, ?_⟩
    intro e he
    rcases kfdcr_mem_Ehat.1 (hE e he) with h | h
    · exact h
    · exfalso
      have h2 := mem_of_mem_walkEdges _ _ he
      rw [h, hxb] at h2
      apply hsrc
      simp only [List.cons_append, List.mem_cons, List.mem_append, List.mem_nil_iff, or_false] at h2
      rcases h2 with h | h | h
      · simp [h]
      · simp [h]
      · simp [h]

theorem kfdcr_classify : ∀ D : List (List Node × Nat), (∀ d ∈ D, kfdcr_Piece s d) →
    ∃ A B, A.length + B.length = D.length ∧ (∀ d ∈ A, kfdcr_AWalk s d) ∧ (∀ d ∈ B, kfdcr_BCyc s d) ∧
      ∀ e ∈ s.g.edges, kfdcr_tot A e + kfdcr_tot B e = kfdcr_tot D e := by
  intro D
  induction D with
  | nil =>
    intro _
    refine ⟨[], [], rfl, ?_, ?_, fun e _ => rfl⟩
    · intro d hd; cases hd
    · intro d hd; cases hd
  | cons d D ih =>
    intro hD
    obtain ⟨A, B, hlen, hA, hB, htot⟩ := ih (fun d' hd' => hD d' (by simp [hd']))
    rcases kfdcr_classify_one hwf d (hD d (by simp)) with ⟨dA, hdA, heq⟩ | hdB
    · refine ⟨dA :: A, B, by simp only [List.length_cons]; omega, ?_, hB, ?_⟩
      · intro d' hd'
        rcases List.mem_cons.1 hd' with rfl | h
        · exact hdA
        · exact hA d' h
      · intro e he
        rw [kfdcr_tot_cons, kfdcr_tot_cons, heq e he, ← htot e he]; omega
    · refine ⟨A, d :: B, by simp only [List.length_cons]; omega, hA, ?_, ?_⟩
      · intro d' hd'
        rcases List.mem_cons.1 hd' with rfl | h
        · exact hdB
        · exact hB d' h
      · intro e he
        rw [kfdcr_tot_cons, kfdcr_tot_cons, ← htot e he]; omega

/-! ## the closed-up family is a circulation -/

/-- a walk that leaves the source for a vertex whose only way on is the sink runs through no base edge -/
theorem kfdcr_isolated_no_base (hth : Thin s) (p : List Node)
    (hW : IsWalkIn s.g (s.source :: p ++ [s.sink])) (v : Node)
    (h1 : (s.source, v) ∈ walkEdges (s.source :: p ++ [s.sink])) (h2 : (v, s.sink) ∈ s.g.edges) :
    ∀ e ∈ walkEdges (s.source :: p ++ [s.sink]), kfdcr_isBase s e = false := by
  cases p with
  | nil =>
    intro e he
    have : e = (s.source, s.sink) := by simpa [walkEdges] using he
    rw [this]; simp [kfdcr_isBase]
  | cons a p' =>
    have hsplit : walkEdges (s.source :: (a :: p') ++ [s.sink])
        = (s.source, a) :: walkEdges (a :: p' ++ [s.sink]) := by
      simp [walkEdges]
    have hav : a = v := by
      rw [hsplit] at h1
      rcases List.mem_cons.1 h1 with h | h
      · exact (congrArg Prod.snd h).symm
      · exfalso
        have hs : s.source ∈ (s.source :: (a :: p') ++ [s.sink]).tail :=
          List.dropLast_subset _ (fst_mem_of_mem_walkEdges _ _ h)
        obtain ⟨u, hu⟩ := exists_walkEdge_into _ _ hs
        exact hwf.srcNoIn _ (hW _ hu) rfl
    subst hav
    cases p' with
    | nil =>
      intro e he
      have : e = (s.source, a) ∨ e = (a, s.sink) := by simpa [walkEdges] using he
      rcases this with h | h <;> rw [h] <;> simp [kfdcr_isBase]
    | cons w p'' =>
      exfalso
      have hw : (a, w) ∈ walkEdges (s.source :: (a :: w :: p'') ++ [s.sink]) := by simp [walkEdges]
      have hws : w = s.sink := hth.s2 a h2 w (hW _ hw)
      subst hws
      cases p'' with
      | nil =>
        have : (s.sink, s.sink) ∈ walkEdges (s.source :: (a :: s.sink :: []) ++ [s.sink]) := by simp [walkEdges]
        exact hwf.snkNoOut _ (hW _ this) rfl
      | cons z p3 =>
        have : (s.sink, z) ∈ walkEdges (s.source :: (a :: s.sink :: z :: p3) ++ [s.sink]) := by simp [walkEdges]
        exact hwf.snkNoOut _ (hW _ this) rfl

/-- the family with every walk closed by `sink → source` -/
def kfdcr_closeFam (s : STGraph) (F : List (List Node × Nat)) : List (List Node × Nat) :=
  F.map fun d => (d.1 ++ [s.source], d.2)

theorem kfdcr_tot_close (F : List (List Node × Nat)) (hF : ∀ d ∈ F, kfdcr_AWalk s d) (e : Edge)
    (he : e ∈ s.g.edges) : kfdcr_tot (kfdcr_closeFam s F) e = kfdcr_tot F e := by
  induction F with
  | nil => rfl
  | cons d F ih =>
    have hd := hF d (by simp)
    obtain ⟨_, ⟨p, hp⟩, _, _⟩ := hd
    show kfdcr_tot ((d.1 ++ [s.source], d.2) :: kfdcr_closeFam s F) e = _
    rw [kfdcr_tot_cons, kfdcr_tot_cons, ih (fun d' hd' => hF d' (by simp [hd']))]
    show d.2 * traversals (d.1 ++ [s.source]) e + _ = _
    rw [hp, kfdcr_trav_close hwf p e he]

theorem kfdcr_close_circ (hth : Thin s) (F : List (List Node × Nat)) (hF : ∀ d ∈ F, kfdcr_AWalk s d) :
    kfdcr_Circ s (kfdcr_tot (kfdcr_closeFam s F)) where
  supp := by
    intro e he
    obtain ⟨d', hd', _, hmem⟩ := kfdcr_tot_pos he
    obtain ⟨d, hd, rfl⟩ := List.mem_map.1 hd'
    obtain ⟨_, ⟨p, hp⟩, hW, _⟩ := hF d hd
    simp only at hmem
    rw [hp, kfdcr_walkEdges_close] at hmem
    rcases List.mem_append.1 hmem with h | h
    · exact kfdcr_mem_Ehat.2 (Or.inl (hW e (hp ▸ h)))
    · exact kfdcr_mem_Ehat.2 (Or.inr (by simpa using h))
  bal := by
    intro v
    apply kfdcr_tot_bal (kfdcr_Gc s) (kfdcr_Ehat_nodup hwf)
    intro d' hd'
    obtain ⟨d, hd, rfl⟩ := List.mem_map.1 hd'
    obtain ⟨_, ⟨p, hp⟩, hW, _⟩ := hF d hd
    refine ⟨s.source, p ++ [s.sink], by simp [hp], ?_⟩
    intro e he
    simp only at he
    rw [hp, kfdcr_walkEdges_close] at he
    show e ∈ kfdcr_Ehat s
    rcases List.mem_append.1 he with h | h
    · exact kfdcr_mem_Ehat.2 (Or.inl (hW e (hp ▸ h)))
    · exact kfdcr_mem_Ehat.2 (Or.inr (by simpa using h))
  s3 := by
    intro v h1 h2
    apply Classical.byContradiction
    intro hne
    have hpos : 0 < kfdcr_tot (kfdcr_closeFam s F) (s.source, v) := by omega
    rw [kfdcr_tot_close hwf F hF _ h1] at hpos
    obtain ⟨d, hd, _, hmem⟩ := kfdcr_tot_pos hpos
    obtain ⟨_, ⟨p, hp⟩, hW, eb, heb, hbase⟩ := hF d hd
    rw [hp] at hmem hW heb
    have := kfdcr_isolated_no_base hwf hth p hW v hmem h2 eb heb
    rw [this] at hbase
    cases hbase

/-- **at most `#edges of the user's graph` walks suffice** -/
theorem kfdcr_few_walks (hth : Thin s) (F : List (List Node × Nat)) (hF : ∀ d ∈ F, kfdcr_AWalk s d) :
    ∃ A : List (List Node × Nat), A.length ≤ (s.g.edges.filter (isInner s)).length ∧
      (∀ d ∈ A, kfdcr_AWalk s d) ∧ ∀ e ∈ s.g.edges, kfdcr_tot A e = kfdcr_tot F e := by
  let g := kfdcr_tot (kfdcr_closeFam s F)
  have hc : kfdcr_Circ s g := kfdcr_close_circ hwf hth F hF
  obtain ⟨D, hlen, hD, htotD⟩ := kfdcr_peel s hwf hth (kfdcr_posBase s g) g (Nat.le_refl _) hc
  obtain ⟨A0, B0, hlen0, hA0, hB0, htot0⟩ := kfdcr_classify hwf D hD
  have hinv : kfdcr_MInv s g D.length A0 B0 :=
    { aWalk := hA0, bCyc := hB0, total := fun e he => by rw [htot0 e he, htotD e], count := by omega }
  have hconn : ∀ e ∈ s.g.edges, 0 < g e → ∃ L : List Node, L.head? = some s.source ∧ e ∈ walkEdges L ∧
      ∀ e' ∈ walkEdges L, e' ∈ s.g.edges ∧ 0 < g e' := by
    intro e he hpos
    have hpos' : 0 < kfdcr_tot F e := by rw [← kfdcr_tot_close hwf F hF e he]; exact hpos
    obtain ⟨d, hd, hw, hmem⟩ := kfdcr_tot_pos hpos'
    obtain ⟨_, ⟨p, hp⟩, hW, _⟩ := hF d hd
    refine ⟨d.1, by rw [hp]; rfl, hmem, ?_⟩
    intro e' he'
    refine ⟨hW e' he', ?_⟩
    show 0 < kfdcr_tot (kfdcr_closeFam s F) e'
    rw [kfdcr_tot_close hwf F hF e' (hW e' he')]
    have h1 := kfdcr_le_tot hd e'
    have h2 : 0 < traversals d.1 e' := List.count_pos_iff.2 he'
    have : 0 < d.2 * traversals d.1 e' := Nat.mul_pos hw h2
    omega
  obtain ⟨A', hA'⟩ := kfdcr_merge hwf g D.length hconn B0.length A0 B0 (Nat.le_refl _) hinv
  refine ⟨A', ?_, hA'.aWalk, ?_⟩
  · have h1 := hA'.count
    have h2 := kfdcr_posBase_le s g
    simp only [List.length_nil, Nat.add_zero] at h1
    omega
  · intro e he
    have := hA'.total e he
    have h0 : kfdcr_tot [] e = 0 := rfl
    rw [h0, Nat.add_zero] at this
    rw [this]
    exact kfdcr_tot_close hwf F hF e he

end Walks

end FP
