import FP.Proofs.WalkLemmas
/-!
# FP.Proofs.Augment — the s-t augmentation of a well-formed user DAG, field by field
-/
namespace FP
open FP.Spec

/-! ## `nxOrder` -/

theorem mem_nxOrder {ns : List Node} {es : List Edge} {e : Edge} :
    e ∈ Graph.nxOrder ns es ↔ e ∈ es ∧ e.1 ∈ ns := by
  unfold Graph.nxOrder
  rw [List.mem_flatMap]
  constructor
  · rintro ⟨u, hu, he⟩
    have hm := List.mem_filter.1 he
    have : e.1 = u := by simpa using hm.2
    exact ⟨hm.1, this ▸ hu⟩
  · rintro ⟨he, hn⟩
    exact ⟨e.1, hn, List.mem_filter.2 ⟨he, by simp⟩⟩

theorem nodup_nxOrder {ns : List Node} {es : List Edge} (hns : ns.Nodup) (hes : es.Nodup) :
    (Graph.nxOrder ns es).Nodup := by
  unfold Graph.nxOrder
  apply List.pairwise_flatMap.2
  refine ⟨fun u _ => List.Pairwise.filter _ hes, ?_⟩
  apply List.Pairwise.imp _ hns
  intro u1 u2 hne x hx y hy hxy
  have h1 : x.1 = u1 := by simpa using (List.mem_filter.1 hx).2
  have h2 : y.1 = u2 := by simpa using (List.mem_filter.1 hy).2
  exact hne (by rw [← h1, ← h2, hxy])

/-! ## named parts of `augment` -/

def isStart (b : Graph) (st : List Node) (u : Node) : Bool := (b.pred u).isEmpty || st.contains u
def isEnd (b : Graph) (en : List Node) (u : Node) : Bool := (b.succ u).isEmpty || en.contains u
def srcEdges (b : Graph) (st : List Node) : List Edge :=
  (b.nodes.filter (isStart b st)).map fun u => (srcName, u)
def snkEdges (b : Graph) (en : List Node) : List Edge :=
  (b.nodes.filter (isEnd b en)).map fun u => (u, snkName)
def firstKind (b : Graph) (st en : List Node) : List Node :=
  match b.nodes.find? (fun u => isStart b st u || isEnd b en u) with
  | none => []
  | some u => if isStart b st u then [srcName, snkName] else [snkName, srcName]
def extra (b : Graph) (st en : List Node) : List Node :=
  (firstKind b st en).filter fun x =>
    (x = srcName ∧ ¬ (srcEdges b st).isEmpty) ∨ (x = snkName ∧ ¬ (snkEdges b en).isEmpty)

theorem augment_eq (b : Graph) (st en : List Node) :
    augment b st en =
      { g := { nodes := b.nodes ++ extra b st en,
               edges := Graph.nxOrder (b.nodes ++ extra b st en)
                 (b.edges ++ snkEdges b en ++ srcEdges b st) },
        source := srcName, sink := snkName } := rfl

theorem src_ne_snk : srcName ≠ snkName := by decide

theorem isStart_iff {b : Graph} {st : List Node} {u : Node} :
    isStart b st u = true ↔ (b.pred u = [] ∨ u ∈ st) := by
  simp [isStart, List.isEmpty_iff]

theorem isEnd_iff {b : Graph} {en : List Node} {u : Node} :
    isEnd b en u = true ↔ (b.succ u = [] ∨ u ∈ en) := by
  simp [isEnd, List.isEmpty_iff]

theorem mem_srcEdges {b : Graph} {st : List Node} {e : Edge} :
    e ∈ srcEdges b st ↔ e.1 = srcName ∧ e.2 ∈ b.nodes ∧ (b.pred e.2 = [] ∨ e.2 ∈ st) := by
  unfold srcEdges
  rw [List.mem_map]
  constructor
  · rintro ⟨u, hu, rfl⟩
    have := List.mem_filter.1 hu
    exact ⟨rfl, this.1, isStart_iff.1 this.2⟩
  · rintro ⟨h1, h2, h3⟩
    exact ⟨e.2, List.mem_filter.2 ⟨h2, isStart_iff.2 h3⟩, by rw [← h1]⟩

theorem mem_snkEdges {b : Graph} {en : List Node} {e : Edge} :
    e ∈ snkEdges b en ↔ e.2 = snkName ∧ e.1 ∈ b.nodes ∧ (b.succ e.1 = [] ∨ e.1 ∈ en) := by
  unfold snkEdges
  rw [List.mem_map]
  constructor
  · rintro ⟨u, hu, rfl⟩
    have := List.mem_filter.1 hu
    exact ⟨rfl, this.1, isEnd_iff.1 this.2⟩
  · rintro ⟨h1, h2, h3⟩
    exact ⟨e.1, List.mem_filter.2 ⟨h2, isEnd_iff.2 h3⟩, by rw [← h1]⟩

theorem firstKind_full {b : Graph} {st en : List Node} {u : Node} (hu : u ∈ b.nodes)
    (h : isStart b st u = true ∨ isEnd b en u = true) :
    srcName ∈ firstKind b st en ∧ snkName ∈ firstKind b st en := by
  unfold firstKind
  cases hf : b.nodes.find? (fun u => isStart b st u || isEnd b en u) with
  | none =>
    rw [List.find?_eq_none] at hf
    have := hf u hu
    rcases h with h | h <;> simp [h] at this
  | some w =>
    simp only
    split <;> simp

theorem firstKind_sub (b : Graph) (st en : List Node) :
    ∀ x ∈ firstKind b st en, x = srcName ∨ x = snkName := by
  unfold firstKind
  intro x hx
  split at hx
  · simp at hx
  · split at hx <;> simp at hx <;> grind

theorem firstKind_nodup (b : Graph) (st en : List Node) : (firstKind b st en).Nodup := by
  unfold firstKind
  split
  · simp
  · split <;> simp [src_ne_snk, src_ne_snk.symm]

theorem mem_extra {b : Graph} {st en : List Node} {x : Node} :
    x ∈ extra b st en ↔ (x = srcName ∧ srcEdges b st ≠ []) ∨ (x = snkName ∧ snkEdges b en ≠ []) := by
  unfold extra
  rw [List.mem_filter]
  simp only [List.isEmpty_iff, decide_eq_true_eq]
  constructor
  · exact fun h => h.2
  · intro h
    refine ⟨?_, h⟩
    rcases h with ⟨rfl, hne⟩ | ⟨rfl, hne⟩
    · obtain ⟨e, he⟩ := List.exists_mem_of_ne_nil _ hne
      have := mem_srcEdges.1 he
      exact (firstKind_full this.2.1 (Or.inl (isStart_iff.2 this.2.2))).1
    · obtain ⟨e, he⟩ := List.exists_mem_of_ne_nil _ hne
      have := mem_snkEdges.1 he
      exact (firstKind_full this.2.1 (Or.inr (isEnd_iff.2 this.2.2))).2

theorem extra_nodup (b : Graph) (st en : List Node) : (extra b st en).Nodup :=
  List.Pairwise.filter _ (firstKind_nodup b st en)

/-! ## the fields of `STWF (augment …)`, from the `BaseWF` facts -/

section Fields
variable {b : Graph} {st en : List Node}
  (hcl : ∀ e ∈ b.edges, e.1 ∈ b.nodes ∧ e.2 ∈ b.nodes)
  (hsrc : srcName ∉ b.nodes) (hsnk : snkName ∉ b.nodes)

theorem aug_mem_nodes {v : Node} :
    v ∈ (augment b st en).g.nodes ↔
      v ∈ b.nodes ∨ (v = srcName ∧ srcEdges b st ≠ []) ∨ (v = snkName ∧ snkEdges b en ≠ []) := by
  rw [augment_eq]; simp only [List.mem_append, mem_extra]

include hcl in
theorem aug_mem_edges {e : Edge} :
    e ∈ (augment b st en).g.edges ↔ e ∈ b.edges ∨ e ∈ snkEdges b en ∨ e ∈ srcEdges b st := by
  rw [augment_eq]; simp only [mem_nxOrder, List.mem_append, mem_extra]
  constructor
  · rintro ⟨(h | h) | h, _⟩ <;> simp [h]
  · intro h
    refine ⟨by grind, ?_⟩
    rcases h with h | h | h
    · exact Or.inl (hcl e h).1
    · exact Or.inl (mem_snkEdges.1 h).2.1
    · exact Or.inr (Or.inl ⟨(mem_srcEdges.1 h).1, List.ne_nil_of_mem h⟩)

include hcl in
/-- the characterisation of the edges of the augmented graph used by `dag_routes_valid` -/
theorem aug_mem_edges' {e : Edge} :
    e ∈ (augment b st en).g.edges ↔ e ∈ b.edges ∨
      (e.1 = srcName ∧ e.2 ∈ b.nodes ∧ (b.pred e.2 = [] ∨ e.2 ∈ st)) ∨
      (e.2 = snkName ∧ e.1 ∈ b.nodes ∧ (b.succ e.1 = [] ∨ e.1 ∈ en)) := by
  rw [aug_mem_edges hcl, mem_srcEdges, mem_snkEdges]
  grind

theorem nat_le_sum_of_mem (l : List Node) (f : Node → Nat) (u : Node) (hu : u ∈ l) :
    f u ≤ (l.map f).sum := by
  induction l with
  | nil => simp at hu
  | cons x xs ih =>
    simp only [List.map_cons, List.sum_cons]
    rcases List.mem_cons.1 hu with rfl | h
    · omega
    · have := ih h; omega

include hcl hsrc hsnk in
theorem aug_acyclic (hac : Acyclic b) : Acyclic (augment b st en).g := by
  obtain ⟨rank, hr⟩ := hac
  refine ⟨fun v => if v = srcName then 0 else if v = snkName then (b.nodes.map rank).sum + 2
    else rank v + 1, ?_⟩
  intro e he
  have hne : ∀ v ∈ b.nodes, v ≠ srcName ∧ v ≠ snkName :=
    fun v hv => ⟨fun h => hsrc (h ▸ hv), fun h => hsnk (h ▸ hv)⟩
  rcases (aug_mem_edges hcl).1 he with h | h | h
  · have h1 := hne _ (hcl e h).1
    have h2 := hne _ (hcl e h).2
    have := hr e h
    simp only [h1.1, h1.2, h2.1, h2.2, if_false]; omega
  · obtain ⟨h2, h1, _⟩ := mem_snkEdges.1 h
    have hn := hne _ h1
    have := nat_le_sum_of_mem b.nodes rank e.1 h1
    simp only [hn.1, hn.2, h2, src_ne_snk.symm, if_false, if_true]; omega
  · obtain ⟨h1, h2, _⟩ := mem_srcEdges.1 h
    have hn := hne _ h2
    simp only [hn.1, hn.2, h1, if_false, if_true]; omega

include hsrc hsnk in
theorem aug_nodes_nodup (hnn : b.nodes.Nodup) : (augment b st en).g.nodes.Nodup := by
  rw [augment_eq]
  apply List.nodup_append.2
  refine ⟨hnn, extra_nodup b st en, ?_⟩
  intro x hx y hy hxy
  subst hxy
  rcases mem_extra.1 hy with ⟨rfl, _⟩ | ⟨rfl, _⟩
  · exact hsrc hx
  · exact hsnk hx

include hcl hsrc hsnk in
theorem aug_edges_nodup (hnn : b.nodes.Nodup) (hen : b.edges.Nodup) :
    (augment b st en).g.edges.Nodup := by
  have hN := aug_nodes_nodup hsrc hsnk (st := st) (en := en) hnn
  rw [augment_eq] at hN ⊢
  apply nodup_nxOrder hN
  have hs1 : (snkEdges b en).Nodup := by
    unfold snkEdges
    apply List.Pairwise.map _ _ (List.Pairwise.filter _ hnn)
    intro u v huv h
    exact huv (congrArg Prod.fst h)
  have hs2 : (srcEdges b st).Nodup := by
    unfold srcEdges
    apply List.Pairwise.map _ _ (List.Pairwise.filter _ hnn)
    intro u v huv h
    exact huv (congrArg Prod.snd h)
  apply List.nodup_append.2
  refine ⟨List.nodup_append.2 ⟨hen, hs1, ?_⟩, hs2, ?_⟩
  · intro x hx y hy hxy
    subst hxy
    exact hsnk ((mem_snkEdges.1 hy).1 ▸ (hcl x hx).2)
  · intro x hx y hy hxy
    subst hxy
    have h1 := (mem_srcEdges.1 hy).1
    rcases List.mem_append.1 hx with h | h
    · exact hsrc (h1 ▸ (hcl x h).1)
    · exact hsrc (h1 ▸ (mem_snkEdges.1 h).2.1)

include hcl in
theorem aug_closed :
    ∀ e ∈ (augment b st en).g.edges, e.1 ∈ (augment b st en).g.nodes ∧ e.2 ∈ (augment b st en).g.nodes := by
  intro e he
  rw [aug_mem_nodes, aug_mem_nodes]
  rcases (aug_mem_edges hcl).1 he with h | h | h
  · exact ⟨Or.inl (hcl e h).1, Or.inl (hcl e h).2⟩
  · have := mem_snkEdges.1 h
    exact ⟨Or.inl this.2.1, Or.inr (Or.inr ⟨this.1, List.ne_nil_of_mem h⟩)⟩
  · have := mem_srcEdges.1 h
    exact ⟨Or.inr (Or.inl ⟨this.1, List.ne_nil_of_mem h⟩), Or.inl this.2.1⟩

include hcl hsrc in
theorem aug_srcNoIn : ∀ e ∈ (augment b st en).g.edges, e.2 ≠ srcName := by
  intro e he heq
  rcases (aug_mem_edges hcl).1 he with h | h | h
  · exact hsrc (heq ▸ (hcl e h).2)
  · exact src_ne_snk (heq.symm.trans (mem_snkEdges.1 h).1)
  · exact hsrc (heq ▸ (mem_srcEdges.1 h).2.1)

include hcl hsnk in
theorem aug_snkNoOut : ∀ e ∈ (augment b st en).g.edges, e.1 ≠ snkName := by
  intro e he heq
  rcases (aug_mem_edges hcl).1 he with h | h | h
  · exact hsnk (heq ▸ (hcl e h).1)
  · exact hsnk (heq ▸ (mem_snkEdges.1 h).2.1)
  · exact src_ne_snk ((mem_srcEdges.1 h).1.symm.trans heq)

include hcl hsrc hsnk in
theorem aug_noDirect : (srcName, snkName) ∉ (augment b st en).g.edges := by
  intro he
  rcases (aug_mem_edges hcl).1 he with h | h | h
  · exact hsrc (hcl _ h).1
  · exact hsrc (mem_snkEdges.1 h).2.1
  · exact hsnk (mem_srcEdges.1 h).2.1

include hcl in
theorem aug_inner : ∀ v ∈ (augment b st en).g.nodes, v ≠ srcName → v ≠ snkName →
    (augment b st en).g.pred v ≠ [] ∧ (augment b st en).g.succ v ≠ [] := by
  intro v hv h1 h2
  have hvb : v ∈ b.nodes := by
    rcases aug_mem_nodes.1 hv with h | ⟨h, _⟩ | ⟨h, _⟩
    · exact h
    · exact absurd h h1
    · exact absurd h h2
  constructor
  · by_cases hp : b.pred v = []
    · have : (srcName, v) ∈ (augment b st en).g.edges :=
        (aug_mem_edges hcl).2 (Or.inr (Or.inr (mem_srcEdges.2 ⟨rfl, hvb, Or.inl hp⟩)))
      exact List.ne_nil_of_mem (mem_pred.2 this)
    · obtain ⟨u, hu⟩ := List.exists_mem_of_ne_nil _ hp
      have : (u, v) ∈ (augment b st en).g.edges := (aug_mem_edges hcl).2 (Or.inl (mem_pred.1 hu))
      exact List.ne_nil_of_mem (mem_pred.2 this)
  · by_cases hp : b.succ v = []
    · have : (v, snkName) ∈ (augment b st en).g.edges :=
        (aug_mem_edges hcl).2 (Or.inr (Or.inl (mem_snkEdges.2 ⟨rfl, hvb, Or.inl hp⟩)))
      exact List.ne_nil_of_mem (mem_succ.2 this)
    · obtain ⟨u, hu⟩ := List.exists_mem_of_ne_nil _ hp
      have : (v, u) ∈ (augment b st en).g.edges := (aug_mem_edges hcl).2 (Or.inl (mem_succ.1 hu))
      exact List.ne_nil_of_mem (mem_succ.2 this)

end Fields

end FP
