import FP.Proofs.C09WalkCover
import FP.Proofs.C09Compress
import FP.Proofs.KLAECAsg
import FP.Proofs.WalkWitness
import FP.Proofs.KFDCWalks
import FP.Proofs.Cover
import FP.Proofs.Decomp
/-!
# FP.Proofs.C09WalkComplete — completeness of the `kPathCoverCycles` LP, and the minimum search

* `WalkCoverWithin inp walk`: `inp.k` source-to-sink walks of the augmented graph (inner vertex sequences)
  within the repetition caps of the model (`kcovercCap`: `|E|·|V|` of the augmented graph — a natural
  number, which the flooring of fix fcfd0b0 leaves alone — on the edges inside an SCC, `1` outside), covering every edge that is not ignored and every subset constraint (to the
  coverage fraction of the model, `coversB`).
* `c09k_complete_proof`: every such family extends to a satisfying assignment of `kcovercLP` whose edge
  variables are the traversal counts (connectivity witnesses: first-entry edges `walkSel` and first-visit
  ranks `walkDist`, `walk_layer_witness`; subset block: `subsetBlock_sat`).
* `c09k_route_within` / `c09k_within_of_cover`: **the caps cut off nothing.** every source-to-sink walk has a
  companion through the same edges that uses no edge more than `2|E| + 1 ≤ |E|·|V|` times
  (`c09c_compress`) and no edge outside the SCCs more than once (`nonScc_once_proof`): whatever `k` walks
  cover, `k` walks within the caps cover as well.
* `c09k_feasible_iff`, `c09k_search_minimal`, `c09k_search_finds`: feasible ⇔ a cover with `k` walks exists;
  the search loop of `MinPathCoverCycles.solve` with a faithful solver returns the minimum cover size.
-/
namespace FP
open FP.Spec FP.Search

/-! ## the cap -/

theorem c09k_cap_scc (inp : WalkInput) (e : Edge) (he : e ∈ inp.st.g.edges)
    (h : isSccEdge inp.st.g e = true) :
    kcovercCap inp e = ((inp.st.g.edges.length * inp.st.g.nodes.length : Nat) : Rat) := by
  unfold kcovercCap kcovercBounds
  rw [lookupD_capBounds _ _ e he, if_pos h, floor_natCast_cast]

/-- a graph with a source-to-sink walk has at least three nodes and an edge: `2|E| + 1 ≤ |E|·|V|` -/
theorem c09k_size (s : STGraph) (hwf : STWFc s) (p : List Node)
    (hW : IsWalkIn s.g (s.source :: p ++ [s.sink])) :
    2 * s.g.edges.length + 1 ≤ s.g.edges.length * s.g.nodes.length := by
  cases p with
  | nil =>
    exact absurd (hW (s.source, s.sink) (by simp [walkEdges])) hwf.noDirect
  | cons x p' =>
    have hsx : (s.source, x) ∈ s.g.edges := hW _ (by
      show (s.source, x) ∈ walkEdges (s.source :: x :: (p' ++ [s.sink]))
      rw [walkEdges_cons_cons]; simp)
    obtain ⟨u, hu⟩ := exists_walkEdge_into (s.source :: (x :: p') ++ [s.sink]) s.sink (by simp)
    have hus := hW _ hu
    have h1 : x ≠ s.source := hwf.srcNoIn _ hsx
    have h2 : x ≠ s.sink := fun h => hwf.noDirect (h ▸ hsx)
    have h3 : 3 ≤ s.g.nodes.length := by
      have := nodup_subset_length [s.source, x, s.sink] s.g.nodes
        (by
          simp only [List.nodup_cons, List.mem_cons, List.not_mem_nil, or_false, not_or,
            List.nodup_nil, and_true, not_false_eq_true]
          exact ⟨⟨fun h => h1 h.symm, hwf.ne⟩, h2⟩)
        (by
          intro y hy
          simp only [List.mem_cons, List.not_mem_nil, or_false] at hy
          rcases hy with rfl | rfl | rfl
          · exact (hwf.closed _ hsx).1
          · exact (hwf.closed _ hsx).2
          · exact (hwf.closed _ hus).2)
      simpa using this
    have h4 : 0 < s.g.edges.length := List.length_pos_of_mem hsx
    have h5 : s.g.edges.length * 3 ≤ s.g.edges.length * s.g.nodes.length := Nat.mul_le_mul_left _ h3
    omega

/-! ## families within the caps and their assignment -/

/-- a family of `inp.k` source-to-sink walks that the `kPathCoverCycles` model can represent -/
structure WalkCoverWithin (inp : WalkInput) (walk : Nat → List Node) : Prop where
  /-- walks of the augmented graph from the synthetic source to the synthetic sink -/
  isWalk : ∀ i, i < inp.k → IsWalkIn inp.st.g (inp.st.source :: walk i ++ [inp.st.sink])
  /-- every walk respects the repetition caps (`|E|·|V|` inside an SCC, 1 outside) -/
  withinCap : ∀ i, i < inp.k → ∀ e ∈ inp.st.g.edges,
    (traversals (inp.st.source :: walk i ++ [inp.st.sink]) e : Rat) ≤ kcovercCap inp e
  /-- every edge that is not ignored lies on one of the walks -/
  covers : ∀ e ∈ inp.activeEdges false, ∃ i, i < inp.k ∧
    e ∈ walkEdges (inp.st.source :: walk i ++ [inp.st.sink])
  /-- every subset constraint is covered by some walk (to the coverage fraction of the model) -/
  covered : ∀ j (hj : j < inp.cfg.constraints.length), ∃ i, i < inp.k ∧
    coversB (multsOf inp.st.source inp.st.sink walk i) inp.cfg.constraints[j] inp.cfg.coverage = true

/-- the assignment of a family of walks: edge columns = traversal counts, selected edges = first-entry
edges, distances = first-visit ranks, `used_edge` = indicator of a positive count, `r(i, j)` = "walk `i`
covers constraint `j`" -/
def kcovercWalkAsg (inp : WalkInput) (walk : Nat → List Node) : Asg :=
  klaecBaseAsg inp (multsOf inp.st.source inp.st.sink walk) (fun _ => 0) (fun _ => 0) (fun _ => 0)
    (fun i => walkSel (inp.st.source :: walk i ++ [inp.st.sink]))
    (fun i => walkDist inp.st.g.nodes (inp.st.source :: walk i ++ [inp.st.sink]))

theorem kcovercWalkAsg_edge (inp : WalkInput) (walk : Nat → List Node) (e : Edge) (i : Nat) :
    kcovercWalkAsg inp walk (edgeVar e i)
      = (traversals (inp.st.source :: walk i ++ [inp.st.sink]) e : Rat) :=
  klaecBaseAsg_edge inp _ _ _ _ _ _ e i

/-- the cover rows hold as soon as every active edge has a layer with a positive multiplicity -/
theorem c09k_cover_sat (inp : WalkInput) (a : Asg) (m : Nat → Edge → Nat)
    (hx : ∀ i e, a (edgeVar e i) = (m i e : Rat))
    (hcov : ∀ e ∈ inp.activeEdges false, ∃ i, i < inp.k ∧ m i e ≠ 0) :
    Sat a (kcovercCover inp) := by
  refine ⟨fun col hc => by simp [kcovercCover] at hc, fun r hr => ?_⟩
  obtain ⟨e, he, rfl⟩ := List.mem_map.1 hr
  obtain ⟨i, hi, hm⟩ := hcov e he
  refine ⟨fun l hl => ?_, fun u hu => by cases hu⟩
  cases hl
  simp only [rowGe, evalTerms_ones]
  have h1 : (1 : Rat) ≤ a (edgeVar e i) := by
    rw [hx i e]
    have : ((1 : Nat) : Rat) ≤ (m i e : Rat) := Rat.natCast_le_natCast.2 (by omega)
    simpa using this
  exact Rat.le_trans h1 (le_sum_of_mem (List.range inp.k) (fun i => a (edgeVar e i))
    (fun j _ => by rw [hx j e]; exact Rat.natCast_nonneg) i (List.mem_range.2 hi))

/-- **completeness on the level of multiplicities** -/
theorem c09k_complete_mult (inp : WalkInput) (a : Asg) (m : Nat → Edge → Nat)
    (sel : Nat → Edge → Bool) (dist : Nat → Node → Nat)
    (hwf : STWFc inp.st) (hsrc : inp.st.source ∈ inp.st.g.nodes)
    (hlayer : ∀ i, i < inp.k → LayerWitness inp.st inp.cfg.allowEmpty (kcovercCap inp) (m i) (sel i) (dist i))
    (hcons : ∀ j (hj : j < inp.cfg.constraints.length), ∃ i, i < inp.k ∧
      coversB (m i) inp.cfg.constraints[j] inp.cfg.coverage = true)
    (hcov : ∀ e ∈ inp.activeEdges false, ∃ i, i < inp.k ∧ m i e ≠ 0)
    (hx : ∀ i e, a (edgeVar e i) = (m i e : Rat))
    (hs : ∀ i e, a (selVar e i) = if sel i e then 1 else 0)
    (hd : ∀ i v, a (distVar v i) = (dist i v : Rat))
    (hu : ∀ i e, a (usedVar e i) = if m i e = 0 then 0 else 1)
    (hr : ∀ i j, a (rVar i j)
      = if coversB (m i) (inp.cfg.constraints.getD j []) inp.cfg.coverage then 1 else 0) :
    Sat a (kcovercLP inp) := by
  rw [kcovercLP_eq]
  refine sat_append_intro _ _ _ (sat_append_intro _ _ _ ?_ ?_) (c09k_cover_sat inp a m hx hcov)
  · exact encodeWalks_sat inp.st inp.cfg (kcovercCap inp) _ hwf.edgesNodup hwf.closed hsrc m sel dist
      hlayer (fun i _ e _ => hx i e) (fun i _ e _ => hs i e) (fun i _ v _ => hd i v)
  · apply subsetBlock_sat inp.st inp.cfg (kcovercCap inp) _ m (fun i hi => (hlayer i hi).cap)
      (fun i _ e _ => hx i e) (fun i _ e => hu i e)
    · intro i _ j hj
      rw [hr]
      have : inp.cfg.constraints.getD j [] = inp.cfg.constraints[j] := by
        rw [List.getD_eq_getElem?_getD, List.getElem?_eq_getElem hj]; rfl
      rw [this]
    · exact hcons

theorem c09k_count_ne_zero {α} [BEq α] [LawfulBEq α] (l : List α) (x : α) (h : x ∈ l) : l.count x ≠ 0 := by
  have := List.count_pos_iff.2 h
  omega

/-- **completeness for walks.** -/
theorem c09k_complete_proof (inp : WalkInput) (walk : Nat → List Node) (hb : BaseWF inp.base)
    (hk : 0 < inp.k) (h : WalkCoverWithin inp walk) :
    Sat (kcovercWalkAsg inp walk) (kcovercLP inp) ∧
      (∀ i e, kcovercWalkAsg inp walk (edgeVar e i)
        = (traversals (inp.st.source :: walk i ++ [inp.st.sink]) e : Rat)) ∧
      (∀ i e, multOf (kcovercWalkAsg inp walk) i e
        = traversals (inp.st.source :: walk i ++ [inp.st.sink]) e) := by
  have hwf : STWFc inp.st := augment_wfc inp.base inp.starts inp.ends hb
  have hsrc := source_mem_of_walk inp.st hwf (walk 0) (h.isWalk 0 hk)
  refine ⟨?_, fun i e => kcovercWalkAsg_edge inp walk e i, ?_⟩
  · apply c09k_complete_mult inp _ (multsOf inp.st.source inp.st.sink walk)
      (fun i => walkSel (inp.st.source :: walk i ++ [inp.st.sink]))
      (fun i => walkDist inp.st.g.nodes (inp.st.source :: walk i ++ [inp.st.sink])) hwf hsrc
      (fun i hi => walk_layer_witness inp.st hwf _ _ (walk i) (h.isWalk i hi) (h.withinCap i hi))
      h.covered
    · intro e he
      obtain ⟨i, hi, hmem⟩ := h.covers e he
      exact ⟨i, hi, c09k_count_ne_zero _ e hmem⟩
    · exact fun i e => klaecBaseAsg_edge inp _ _ _ _ _ _ e i
    · exact fun i e => klaecBaseAsg_sel inp _ _ _ _ _ _ e i
    · exact fun i v => klaecBaseAsg_dist inp _ _ _ _ _ _ v i
    · exact fun i e => klaecBaseAsg_used inp _ _ _ _ _ _ e i
    · exact fun i j => klaecBaseAsg_r inp _ _ _ _ _ _ i j
  · intro i e
    unfold multOf
    rw [kcovercWalkAsg_edge, pyRoundCount_natCast]

/-! ## the caps cut off nothing -/

/-- a source-to-sink walk is `source :: p ++ [sink]` -/
theorem c09k_stwalk_shape (s : STGraph) (hne : s.source ≠ s.sink) (r : List Node) (h : IsSTWalk s r) :
    ∃ p, r = s.source :: p ++ [s.sink] := by
  obtain ⟨A, rfl⟩ := List.getLast?_eq_some_iff.1 h.last
  have hh := h.first
  cases A with
  | nil =>
    have : s.sink = s.source := by simpa using hh
    exact absurd this.symm hne
  | cons a A' =>
    have : a = s.source := by simpa using hh
    exact ⟨A', by rw [this]⟩

/-- **every source-to-sink walk has a companion within the caps through the same edges** -/
theorem c09k_route_within (inp : WalkInput) (hb : BaseWF inp.base) (r : List Node)
    (hr : IsSTWalk inp.st r) :
    ∃ p, IsWalkIn inp.st.g (inp.st.source :: p ++ [inp.st.sink]) ∧
      (∀ e ∈ walkEdges r, e ∈ walkEdges (inp.st.source :: p ++ [inp.st.sink])) ∧
      ∀ e ∈ inp.st.g.edges,
        (traversals (inp.st.source :: p ++ [inp.st.sink]) e : Rat) ≤ kcovercCap inp e := by
  have hwf : STWFc inp.st := augment_wfc inp.base inp.starts inp.ends hb
  obtain ⟨l', hl', hsub, hcnt⟩ := c09c_compress inp.st.g.edges r inp.st.source inp.st.sink
    ⟨hr.first, hr.last, hr.walk⟩
  obtain ⟨p, rfl⟩ := c09k_stwalk_shape inp.st hwf.ne l' ⟨hl'.head, hl'.last, hl'.edges⟩
  have hW : IsWalkIn inp.st.g (inp.st.source :: p ++ [inp.st.sink]) := hl'.edges
  refine ⟨p, hW, hsub, ?_⟩
  intro e he
  cases hs : isSccEdge inp.st.g e with
  | true =>
    rw [c09k_cap_scc inp e he hs]
    apply Rat.natCast_le_natCast.2
    have := c09k_size inp.st hwf p hW
    have := hcnt e
    unfold traversals
    omega
  | false =>
    rw [kcovercCap_nonScc inp e he hs]
    have := nonScc_once_proof inp.st.g hwf.closed _ hW e he hs
    have h1 : ((traversals (inp.st.source :: p ++ [inp.st.sink]) e : Nat) : Rat) ≤ ((1 : Nat) : Rat) :=
      Rat.natCast_le_natCast.2 this
    simpa using h1

/-- a walk through every edge of a constraint covers it to every fraction `≤ 1` -/
theorem c09k_coversB_of_all (mi : Edge → Nat) (con : List Edge) (cov : Rat) (hcov : cov ≤ 1)
    (h : ∀ e ∈ con, mi e ≠ 0) : coversB mi con cov = true := by
  unfold coversB
  apply decide_eq_true
  rw [c05_ind_sum_all _ _ (fun e he => by simp [h e (List.mem_eraseDups.1 he)])]
  have h0 : (0 : Rat) ≤ (con.eraseDups.length : Rat) := Rat.natCast_nonneg
  have := Rat.mul_le_mul_of_nonneg_left hcov h0
  rwa [Rat.mul_one] at this

/-- **whatever `k` walks cover, `k` walks within the caps cover as well** -/
theorem c09k_within_of_cover (inp : WalkInput) (hb : BaseWF inp.base) (hcov : inp.cfg.coverage ≤ 1)
    (h : HasCover inp.st (inp.activeEdges false) inp.cfg.constraints inp.k) :
    ∃ walk, WalkCoverWithin inp walk := by
  obtain ⟨routes, hlen, hwalk, hcovers, hsat⟩ := h
  have hch : ∀ r : List Node, ∃ p : List Node, IsSTWalk inp.st r →
      (IsWalkIn inp.st.g (inp.st.source :: p ++ [inp.st.sink]) ∧
      (∀ e ∈ walkEdges r, e ∈ walkEdges (inp.st.source :: p ++ [inp.st.sink])) ∧
      ∀ e ∈ inp.st.g.edges,
        (traversals (inp.st.source :: p ++ [inp.st.sink]) e : Rat) ≤ kcovercCap inp e) := by
    intro r
    by_cases hr : IsSTWalk inp.st r
    · obtain ⟨p, hp⟩ := c09k_route_within inp hb r hr
      exact ⟨p, fun _ => hp⟩
    · exact ⟨[], fun h => absurd h hr⟩
  obtain ⟨f, hf⟩ := Classical.axiomOfChoice hch
  have hget : ∀ i, i < inp.k → ∃ hi : i < routes.length, routes.getD i [] = routes[i] := by
    intro i hi
    have hi' : i < routes.length := by rw [hlen]; exact hi
    exact ⟨hi', by rw [List.getD_eq_getElem?_getD, List.getElem?_eq_getElem hi']; rfl⟩
  have hidx : ∀ r ∈ routes, ∃ i, i < inp.k ∧ routes.getD i [] = r := by
    intro r hr
    obtain ⟨i, hi, rfl⟩ := List.getElem_of_mem hr
    have hi' : i < inp.k := by rw [← hlen]; exact hi
    exact ⟨i, hi', (hget i hi').2⟩
  have hgood : ∀ i, i < inp.k → IsSTWalk inp.st (routes.getD i []) := by
    intro i hi
    obtain ⟨hi', he⟩ := hget i hi
    rw [he]; exact hwalk _ (List.getElem_mem hi')
  refine ⟨fun i => f (routes.getD i []), ?_, ?_, ?_, ?_⟩
  · exact fun i hi => (hf _ (hgood i hi)).1
  · exact fun i hi => (hf _ (hgood i hi)).2.2
  · intro e he
    obtain ⟨r, hr, her⟩ := hcovers e he
    obtain ⟨i, hi, rfl⟩ := hidx r hr
    exact ⟨i, hi, (hf _ (hgood i hi)).2.1 e her⟩
  · intro j hj
    obtain ⟨r, hr, hall⟩ := hsat _ (List.getElem_mem hj)
    obtain ⟨i, hi, rfl⟩ := hidx r hr
    refine ⟨i, hi, c09k_coversB_of_all _ _ _ hcov ?_⟩
    intro e he
    exact c09k_count_ne_zero _ e ((hf _ (hgood i hi)).2.1 e (hall e he))

/-- conversely a family within the caps is a cover (coverage fraction at least 1, constraints made of
edges) — the walks themselves, no LP involved -/
theorem c09k_cover_of_within (inp : WalkInput) (walk : Nat → List Node)
    (hcov : 1 ≤ inp.cfg.coverage) (h : WalkCoverWithin inp walk) :
    HasCover inp.st (inp.activeEdges false) inp.cfg.constraints inp.k := by
  let full : Nat → List Node := fun i => inp.st.source :: walk i ++ [inp.st.sink]
  refine ⟨(List.range inp.k).map full, by simp, ?_, ?_, ?_⟩
  · intro r hr
    obtain ⟨i, hi, rfl⟩ := List.mem_map.1 hr
    exact ⟨rfl, List.getLast?_concat (l := inp.st.source :: walk i), h.isWalk i (List.mem_range.1 hi)⟩
  · intro e he
    obtain ⟨i, hi, hmem⟩ := h.covers e he
    exact ⟨full i, List.mem_map.2 ⟨i, List.mem_range.2 hi, rfl⟩, hmem⟩
  · intro c hc
    obtain ⟨j, hj, rfl⟩ := List.getElem_of_mem hc
    obtain ⟨i, hi, hcb⟩ := h.covered j hj
    refine ⟨full i, List.mem_map.2 ⟨i, List.mem_range.2 hi, rfl⟩, ?_⟩
    unfold coversB at hcb
    have hle := of_decide_eq_true hcb
    have h0 : (0 : Rat) ≤ ((inp.cfg.constraints[j]).eraseDups.length : Rat) := Rat.natCast_nonneg
    have h1 := Rat.mul_le_mul_of_nonneg_left hcov h0
    rw [Rat.mul_one] at h1
    have hall := all_one_of_sum_ge_length _ _ (fun e _ => by split <;> decide) (Rat.le_trans h1 hle)
    intro e he
    have h2 := hall e (List.mem_eraseDups.2 he)
    apply Classical.byContradiction
    intro hne
    have hz : multsOf inp.st.source inp.st.sink walk i e = 0 := List.count_eq_zero.2 hne
    rw [if_pos hz] at h2
    exact absurd h2 (by decide)

/-! ## feasibility and the search -/

/-- without walks there is nothing to encode -/
theorem c09k_sat_zero (inp : WalkInput) (a : Asg) (hk : inp.cfg.k = 0)
    (hact : inp.activeEdges false = []) (hcons : inp.cfg.constraints = []) : Sat a (kcovercLP inp) := by
  rw [kcovercLP_eq]
  refine sat_append_intro _ _ _ (sat_append_intro _ _ _ ?_ ?_) ?_
  · constructor
    · intro col hcol
      simp [encodeWalks, hk] at hcol
    · intro r hr
      simp [encodeWalks, hk] at hr
  · unfold subsetBlock
    rw [hcons]
    exact ⟨fun _ h => by simp at h, fun _ h => by simp at h⟩
  · refine ⟨fun col hc => by simp [kcovercCover] at hc, fun r hr => ?_⟩
    simp [kcovercCover, hact] at hr

/-- **feasible ⇔ a cover with `k` walks exists** (empty walks not allowed, coverage fraction 1) -/
theorem c09k_feasible_iff (inp : WalkInput) (hb : BaseWF inp.base) (hae : inp.cfg.allowEmpty = false)
    (hcov : inp.cfg.coverage = 1)
    (hce : ∀ c ∈ inp.cfg.constraints, ∀ e ∈ c, e ∈ inp.st.g.edges) :
    (∃ a, Sat a (kcovercLP inp)) ↔
      HasCover inp.st (inp.activeEdges false) inp.cfg.constraints inp.k := by
  constructor
  · rintro ⟨a, hsat⟩
    exact c09w_hascover_proof inp a hb hae hsat (by rw [hcov]; exact Rat.le_refl) hce
  · intro h
    by_cases hk : 0 < inp.k
    · obtain ⟨walk, hw⟩ := c09k_within_of_cover inp hb (by rw [hcov]; exact Rat.le_refl) h
      exact ⟨_, (c09k_complete_proof inp walk hb hk hw).1⟩
    · have hk0 : inp.cfg.k = 0 := by
        have : inp.k = 0 := by omega
        exact this
      obtain ⟨routes, hlen, _, hcovers, hsat⟩ := h
      have hr : routes = [] := List.eq_nil_of_length_eq_zero (by rw [hlen]; exact hk0)
      subst hr
      have hact : inp.activeEdges false = [] := by
        apply List.eq_nil_iff_forall_not_mem.2
        intro e he
        obtain ⟨r, hr, _⟩ := hcovers e he
        simp at hr
      have hcons : inp.cfg.constraints = [] := by
        apply List.eq_nil_iff_forall_not_mem.2
        intro c hc
        obtain ⟨r, hr, _⟩ := hsat c hc
        simp at hr
      exact ⟨fun _ => 0, c09k_sat_zero inp _ hk0 hact hcons⟩

/-- **`MinPathCoverCycles.solve`, end to end.** -/
theorem c09k_search_minimal (inp : WalkInput) (hb : BaseWF inp.base) (hae : inp.cfg.allowEmpty = false)
    (hcov : inp.cfg.coverage = 1)
    (hce : ∀ c ∈ inp.cfg.constraints, ∀ e ∈ c, e ∈ inp.st.g.edges)
    (σ : Nat → Status)
    (hopt : ∀ k, σ k = .optimal → ∃ a, Sat a (kcovercLP (inp.withK k)))
    (hinf : ∀ k, σ k = .infeasible → ¬ ∃ a, Sat a (kcovercLP (inp.withK k)))
    (A : List Edge) (hA : Antichain inp.st A) (hAact : ∀ e ∈ A, e ∈ inp.activeEdges false)
    (hi m : Nat) (hs : (stopSearch σ A.length hi).solved = some m) :
    IsMinCover inp.st (inp.activeEdges false) inp.cfg.constraints m := by
  have hiff : ∀ k, (∃ a, Sat a (kcovercLP (inp.withK k))) ↔
      HasCover inp.st (inp.activeEdges false) inp.cfg.constraints k :=
    fun k => c09k_feasible_iff (inp.withK k) hb hae hcov hce
  exact search_minimal_sound _ σ A.length hi m
    (fun k hk => (hiff k).1 (hopt k hk))
    (fun k hk hc => hinf k hk ((hiff k).2 hc))
    (fun j hj hc => by
      have := antichain_weak_duality inp.st (inp.activeEdges false) inp.cfg.constraints A hA hAact j hc
      omega)
    hs

/-- … and the loop finds the minimum when it lies inside the searched range -/
theorem c09k_search_finds (inp : WalkInput) (hb : BaseWF inp.base) (hae : inp.cfg.allowEmpty = false)
    (hcov : inp.cfg.coverage = 1)
    (hce : ∀ c ∈ inp.cfg.constraints, ∀ e ∈ c, e ∈ inp.st.g.edges)
    (σ : Nat → Status)
    (hopt : ∀ k, (∃ a, Sat a (kcovercLP (inp.withK k))) → σ k = .optimal)
    (hinf : ∀ k, (¬ ∃ a, Sat a (kcovercLP (inp.withK k))) → σ k = .infeasible)
    (A : List Edge) (hA : Antichain inp.st A) (hAact : ∀ e ∈ A, e ∈ inp.activeEdges false)
    (hi m : Nat) (hm : IsMinCover inp.st (inp.activeEdges false) inp.cfg.constraints m) (hhi : m < hi) :
    (stopSearch σ A.length hi).solved = some m := by
  have hiff : ∀ k, (∃ a, Sat a (kcovercLP (inp.withK k))) ↔
      HasCover inp.st (inp.activeEdges false) inp.cfg.constraints k :=
    fun k => c09k_feasible_iff (inp.withK k) hb hae hcov hce
  exact search_minimal_complete _ σ A.length hi m
    (fun k hk => hopt k ((hiff k).2 hk))
    (fun k hk => hinf k (fun h => hk ((hiff k).1 h)))
    (fun j hj hc => by
      have := antichain_weak_duality inp.st (inp.activeEdges false) inp.cfg.constraints A hA hAact j hc
      omega)
    hm.1 hm.2 hhi

/-! ## the concrete instance of `C09WalkExample`: the walk `source, s, a, a, a, t, sink` is within the caps -/

namespace C09WalkExample
open FP.WalkCoreExample

/-- inner vertex sequence of the one walk: the loop at `a` twice (cap `|E|·|V| = 25`) -/
def walkC : Nat → List Node := fun _ => ["s", "a", "a", "a", "t"]

theorem withinC : WalkCoverWithin inpC walkC := by
  refine ⟨?_, ?_, ?_, ?_⟩
  · intro i _; show IsWalkIn inpC.st.g (inpC.st.source :: ["s", "a", "a", "a", "t"] ++ [inpC.st.sink])
    unfold IsWalkIn; decide +kernel
  · intro i _; show ∀ e ∈ inpC.st.g.edges,
      (traversals (inpC.st.source :: ["s", "a", "a", "a", "t"] ++ [inpC.st.sink]) e : Rat) ≤ kcovercCap inpC e
    decide +kernel
  · rw [inpC_active]
    intro e he
    refine ⟨0, by decide, ?_⟩
    show e ∈ walkEdges (inpC.st.source :: ["s", "a", "a", "a", "t"] ++ [inpC.st.sink])
    simp only [List.mem_cons, List.not_mem_nil, or_false] at he
    rcases he with rfl | rfl | rfl <;> decide +kernel
  · intro j hj
    have : j = 0 := by simp [inpC] at hj; omega
    subst this
    have h0 : inpC.cfg.constraints[0]'hj = [("a", "a")] := rfl
    refine ⟨0, by decide, ?_⟩
    rw [h0]
    decide +kernel

/-- the assignment built from the walk has `edge((a,a), 0) = 2` -/
theorem walkAsgC_loop : kcovercWalkAsg inpC walkC (edgeVar ("a", "a") 0) = 2 := by
  rw [kcovercWalkAsg_edge]; decide +kernel

end C09WalkExample

end FP
