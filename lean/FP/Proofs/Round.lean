import FP.Model.Round
/-!
# FP.Proofs.Round — `pyRound` is the nearest integer, fixes integers, and sends ties to even
-/
namespace FP

theorem pyRound_near (x : Rat) (n : Int) (h1 : (n : Rat) - 1/2 < x) (h2 : x < (n : Rat) + 1/2) :
    pyRound x = n := by
  have hf1 := Rat.floor_le x
  have hf2 := Rat.lt_floor_add_one x
  have hc : ((x.floor + 1 : Int) : Rat) = (x.floor : Rat) + 1 := by simp [Rat.intCast_add]
  rw [hc] at hf2
  -- floor x ∈ {n - 1, n}
  have hle : x.floor ≤ n := by
    have : x.floor < n + 1 := by
      rw [Rat.floor_lt_iff]
      have : ((n + 1 : Int) : Rat) = (n : Rat) + 1 := by simp [Rat.intCast_add]
      rw [this]; grind
    omega
  have hge : n - 1 ≤ x.floor := by
    rw [Rat.le_floor_iff]
    have : ((n - 1 : Int) : Rat) = (n : Rat) - 1 := by simp [Rat.intCast_sub]
    rw [this]; grind
  have hcases : x.floor = n ∨ x.floor = n - 1 := by omega
  unfold pyRound
  rcases hcases with h | h
  · have hx : (x.floor : Rat) = (n : Rat) := by rw [h]
    simp only []
    rw [hx]
    have : x - (n : Rat) < 1/2 := by grind
    simp [this, h]
  · have hx : (x.floor : Rat) = (n : Rat) - 1 := by rw [h]; simp [Rat.intCast_sub]
    simp only []
    rw [hx]
    have h3 : ¬ (x - ((n : Rat) - 1) < 1/2) := by grind
    have h4 : 1/2 < x - ((n : Rat) - 1) := by grind
    simp [h3, h4, h]

theorem pyRound_int (n : Int) : pyRound (n : Rat) = n :=
  pyRound_near _ n (by grind) (by grind)

theorem pyRound_near_toNat (x : Rat) (n : Nat) (h1 : (n : Rat) - 1/2 < x) (h2 : x < (n : Rat) + 1/2) :
    (pyRound x).toNat = n := by
  have := pyRound_near x (n : Int) (by rw [Rat.intCast_natCast]; exact h1)
    (by rw [Rat.intCast_natCast]; exact h2)
  rw [this]; simp

theorem pyRoundCount_natCast (n : Nat) : pyRoundCount (n : Rat) = n := by
  unfold pyRoundCount
  rw [← Rat.intCast_natCast, pyRound_int]; simp

theorem pyRoundCount_near (x : Rat) (n : Nat) (h1 : (n : Rat) - 1/2 < x) (h2 : x < (n : Rat) + 1/2) :
    pyRoundCount x = n := pyRound_near_toNat x n h1 h2

/-- a non-negative integral value is the cast of its rounded count -/
theorem nat_of_int_nonneg_round (q : Rat) (h0 : 0 ≤ q) (hz : ∃ z : Int, q = z) :
    q = ((pyRoundCount q : Nat) : Rat) := by
  obtain ⟨z, rfl⟩ := hz
  have hz0 : (0 : Int) ≤ z := Rat.intCast_nonneg.1 h0
  unfold pyRoundCount
  rw [pyRound_int, ← Rat.intCast_natCast, Int.toNat_of_nonneg hz0]

/-! tie cases: to the even neighbour (kernel evaluation, no extra axioms) -/
example : pyRound (1/2) = 0 := by decide +kernel
example : pyRound (3/2) = 2 := by decide +kernel
example : pyRound (5/2) = 2 := by decide +kernel
example : pyRound (-1/2) = 0 := by decide +kernel
example : pyRound (-3/2) = -2 := by decide +kernel
example : pyRound (-5/2) = -2 := by decide +kernel
example : (pyRound (-3/2)).toNat = 0 := by decide +kernel

end FP
