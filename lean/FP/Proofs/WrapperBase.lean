import FP.Model.Wrapper
namespace FP

theorem evalTerms_append (a : Asg) (s t : Terms) :
    evalTerms a (s ++ t) = evalTerms a s + evalTerms a t := by
  simp [evalTerms, List.sum_append]

theorem evalTerms_single (a : Asg) (c : Rat) (v : Var) : evalTerms a [(c, v)] = c * a v := by
  simp [evalTerms, Rat.add_zero]

theorem evalTerms_map {α} (a : Asg) (l : List α) (f : α → Rat) (g : α → Var) :
    evalTerms a (l.map (fun i => (f i, g i))) = (l.map (fun i => f i * a (g i))).sum := by
  simp [evalTerms, List.map_map, Function.comp_def]

theorem sum_map_mul_right {α} (l : List α) (f : α → Rat) (k : Rat) :
    (l.map (fun i => f i * k)).sum = (l.map f).sum * k := by
  induction l with
  | nil => simp
  | cons x xs ih => simp only [List.map_cons, List.sum_cons, ih]; grind

theorem sum_map_congr {α} (l : List α) (f g : α → Rat) (h : ∀ i ∈ l, f i = g i) :
    (l.map f).sum = (l.map g).sum := by
  rw [List.map_congr_left h]

theorem int01 (q : Rat) (h0 : 0 ≤ q) (h1 : q ≤ 1) (hz : ∃ z : Int, q = z) : q = 0 ∨ q = 1 := by
  obtain ⟨z, rfl⟩ := hz
  have h0' : (0:Int) ≤ z := Rat.intCast_nonneg.1 h0
  have h1' : z ≤ (1:Int) := Rat.intCast_le_intCast.1 (by simpa using h1)
  have : z = 0 ∨ z = 1 := by omega
  rcases this with h | h <;> subst h <;> simp

/-! ### McCormick block -/

theorem binProd_exact_aux (a : Asg) (b c p : Var) (lb ub : Rat)
    (hb : a b = 0 ∨ a b = 1) (hc : lb ≤ a c ∧ a c ≤ ub) :
    (∀ r ∈ binProd b c p lb ub, r.holds a) ↔ a p = a b * a c := by
  simp only [binProd, List.mem_cons, List.not_mem_nil, or_false, forall_eq_or_imp, forall_eq,
    Row.holds, rowLe, rowGe, evalTerms, List.map, List.sum_cons, List.sum_nil]
  simp
  rcases hb with hb | hb <;> rw [hb] <;> constructor <;> intro h <;> grind

end FP
