import FP.Model.SafetyFix
import FP.Spec.Safety
import FP.Proofs.SafetyWalk
/-!
# FP.Proofs.SafetyIncompat — the sequences chosen through an antichain cannot share a walk (partial T6)

Given that the members handed over by `compute_max_edge_antichain` form an antichain (`AntichainHyp`) and that
no two input sequences share a graph edge lying on an inter-SCC member (`NoSharedParallel`), the sequences
assembled by `get_longest_incompatible_sequences` are pairwise not co-occurring.
-/
namespace FP.Safety
open FP FP.Spec

/-- no source-to-sink walk traverses two different graph edges that belong to two different members of the
antichain, or to the same inter-SCC member (parallel edges) -/
def AntichainHyp (c : Cond) (s t : Node) (anti : List (String × String)) : Prop :=
  ∀ a ∈ anti, ∀ b ∈ anti, ∀ e1 ∈ c.g.edges, ∀ e2 ∈ c.g.edges, c.expandedEdge e1 = a → c.expandedEdge e2 = b →
    e1 ≠ e2 → (Cond.isSccEdge a = false ∨ a ≠ b) →
    ¬ ∃ w, IsSTWalkG c.g s t w ∧ e1 ∈ walkEdges w ∧ e2 ∈ walkEdges w

/-- two different input sequences never share a graph edge that lies on an inter-SCC member of the antichain -/
def NoSharedParallel (c : Cond) (seqs : List (List Edge)) (anti : List (String × String)) : Prop :=
  ∀ i j, i ≠ j → ∀ e, e ∈ seqs.getD i [] → e ∈ seqs.getD j [] →
    c.expandedEdge e ∈ anti → Cond.isSccEdge (c.expandedEdge e) = true

theorem seqFn_mem (c : Cond) (seqs : List (List Edge)) (ce : String × String) (idx : Nat)
    (h : idx ∈ c.seqFn seqs ce) : ∃ e ∈ seqs.getD idx [], c.expandedEdge e = ce := by
  unfold Cond.seqFn at h
  simp only at h
  have hocc : idx ∈ ((List.range seqs.length).zip seqs).flatMap (fun (p : Nat × List Edge) =>
      (p.2.filter fun e => c.expandedEdge e = ce).map fun _ => p.1) := by
    split at h
    · exact List.mem_mergeSort.1 (List.mem_of_mem_take h)
    · exact List.mem_mergeSort.1 (List.mem_of_mem_take h)
  obtain ⟨⟨i, sq⟩, hz, hin⟩ := List.mem_flatMap.1 hocc
  obtain ⟨e, he, heq⟩ := List.mem_map.1 hin
  simp only at heq; subst heq
  obtain ⟨hes, hce⟩ := List.mem_filter.1 he
  obtain ⟨n, hn, hget⟩ := List.mem_iff_getElem.1 hz
  rw [List.getElem_zip] at hget
  injection hget with h1 h2
  simp only [List.getElem_range] at h1; subst h1
  have hlen : n < seqs.length := by simpa using hn
  have : seqs.getD n [] = sq := by
    rw [List.getD_eq_getElem?_getD, List.getElem?_eq_getElem hlen]; simpa using h2
  exact ⟨e, by rw [this]; exact hes, by simpa using hce⟩

theorem seqFn_scc_le_one (c : Cond) (seqs : List (List Edge)) (ce : String × String)
    (h : Cond.isSccEdge ce = true) : (c.seqFn seqs ce).length ≤ 1 := by
  unfold Cond.seqFn
  simp only [h, if_true]
  exact List.length_take_le _ _

/-- **T6, partial.** -/
theorem longestIncompatible_pairwise (c : Cond) (s t : Node) (seqs : List (List Edge))
    (anti : List (String × String)) (chosen : List (List Edge))
    (hanti : AntichainHyp c s t anti) (hshare : NoSharedParallel c seqs anti)
    (h : longestIncompatible c seqs anti = .ok chosen) :
    chosen.Pairwise fun p q => ¬ CoOccur c.g s t p q := by
  unfold longestIncompatible at h
  split at h
  · cases h
  · rename_i hedges
    simp only at h
    split at h
    · cases h
    · rename_i hnd
      injection h with h; subst h
      have hnd' : (anti.flatMap (c.seqFn seqs)).Nodup := by simpa using hnd
      rw [List.pairwise_map]
      refine List.Pairwise.imp_of_mem ?_ hnd'
      intro i j hi hj hij hco
      obtain ⟨a, ha, hia⟩ := List.mem_flatMap.1 hi
      obtain ⟨b, hb, hjb⟩ := List.mem_flatMap.1 hj
      obtain ⟨e1, he1, hc1⟩ := seqFn_mem c seqs a i hia
      obtain ⟨e2, he2, hc2⟩ := seqFn_mem c seqs b j hjb
      obtain ⟨w, hw, ho1, ho2⟩ := hco
      have hm1 : e1 ∈ walkEdges w := ho1.subset he1
      have hm2 : e2 ∈ walkEdges w := ho2.subset he2
      have hg1 : e1 ∈ c.g.edges := hw.walk e1 hm1
      have hg2 : e2 ∈ c.g.edges := hw.walk e2 hm2
      by_cases hab : a = b
      · subst hab
        by_cases hscc : Cond.isSccEdge a = true
        · -- an SCC member carries at most one sequence
          have hle := seqFn_scc_le_one c seqs a hscc
          have : ∀ l : List Nat, l.length ≤ 1 → i ∈ l → j ∈ l → i = j := by
            intro l hl hi' hj'
            match l, hl with
            | [], _ => simp at hi'
            | [x], _ => simp at hi' hj'; rw [hi', hj']
          exact hij (this _ hle hia hjb)
        · have hscc' : Cond.isSccEdge a = false := by simpa using hscc
          by_cases he : e1 = e2
          · subst he
            have := hshare i j hij e1 he1 he2 (by rw [hc1]; exact ha)
            rw [hc1] at this; rw [this] at hscc'; cases hscc'
          · exact hanti a ha a ha e1 hg1 e2 hg2 hc1 hc2 he (Or.inl hscc') ⟨w, hw, hm1, hm2⟩
      · have he : e1 ≠ e2 := by intro he; subst he; exact hab (hc1.symm.trans hc2)
        exact hanti a ha b hb e1 hg1 e2 hg2 hc1 hc2 he (Or.inr hab) ⟨w, hw, hm1, hm2⟩

end FP.Safety
