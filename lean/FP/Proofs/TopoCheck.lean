import FP.Proofs.Sweep
/-!
# FP.Proofs.TopoCheck — the executable contract check of the driver implies the contract `IsTopo`
-/
namespace FP

theorem checkTopo_sound {κ} [DecidableEq κ] (nodes : List κ) (es : List (κ × κ)) (order : List κ)
    (h : checkTopo nodes es order = true) : IsTopo es order := by
  unfold checkTopo at h
  simp only [Bool.and_eq_true, decide_eq_true_eq, List.all_eq_true] at h
  obtain ⟨⟨⟨⟨h1, _⟩, _⟩, h4⟩, h5⟩ := h
  refine ⟨h1, ?_, ?_, ?_⟩
  · intro e he
    have := h4 e he
    simp only [List.contains_iff_mem] at this
    exact ⟨this.1.2, this.2⟩
  · intro a ha
    have := h4 (a, a) ha
    simp at this
  · exact h5.imp (fun hab hm => hab (by simpa using hm))

end FP
