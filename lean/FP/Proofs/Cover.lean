import FP.Model.Enc.KCover
import FP.Spec.Cover
import FP.Proofs.KFD
import FP.Props.C13
/-!
# FP.Proofs.Cover — `kPathCover`: soundness and completeness of the LP w.r.t. path covers,
monotonicity, minimum search, antichain lower bound
-/
namespace FP
open FP.Spec

/-! ## list helpers -/

theorem mem_walkEdges_dropLast (q : List Node) (b : Node) (e : Edge)
    (he : e ∈ walkEdges (q ++ [b])) (h2 : e.2 ≠ b) : e ∈ walkEdges q := by
  induction q with
  | nil => simp [walkEdges] at he
  | cons x q ih =>
    cases q with
    | nil =>
      simp [walkEdges] at he
      subst he; exact absurd rfl h2
    | cons y q =>
      rw [List.cons_append, List.cons_append, walkEdges_cons_cons] at he
      rw [walkEdges_cons_cons]
      rcases List.mem_cons.1 he with rfl | h
      · simp
      · exact List.mem_cons_of_mem _ (ih h)

/-- an edge of `a :: p ++ [b]` that is neither the first nor the last pair is an edge of `p` -/
theorem mem_walkEdges_inner (a b : Node) (p : List Node) (e : Edge)
    (he : e ∈ walkEdges (a :: p ++ [b])) (h1 : e.1 ≠ a) (h2 : e.2 ≠ b) : e ∈ walkEdges p := by
  cases p with
  | nil =>
    simp [walkEdges] at he
    subst he; exact absurd rfl h1
  | cons x p =>
    rw [List.cons_append, List.cons_append, walkEdges_cons_cons] at he
    rcases List.mem_cons.1 he with rfl | h
    · exact absurd rfl h1
    · exact mem_walkEdges_dropLast (x :: p) b e h h2

theorem active_mem (inp : FlowInput) (e : Edge) (he : e ∈ inp.activeEdges) :
    e ∈ inp.st.g.edges ∧ e.1 ≠ inp.st.source ∧ e.2 ≠ inp.st.sink ∧ e ∉ inp.ignore := by
  have hm := List.mem_filter.1 he
  refine ⟨hm.1, ?_, ?_, ?_⟩
  · intro h1
    have : e ∈ inp.st.sourceSinkEdges :=
      List.mem_append_left _ (List.mem_filter.2 ⟨hm.1, by simp [h1]⟩)
    have h2 := hm.2
    simp [FlowInput.ignored, this] at h2
  · intro h1
    have : e ∈ inp.st.sourceSinkEdges :=
      List.mem_append_right _ (List.mem_filter.2 ⟨hm.1, by simp [h1]⟩)
    have h2 := hm.2
    simp [FlowInput.ignored, this] at h2
  · intro h1
    have h2 := hm.2
    simp [FlowInput.ignored, h1] at h2

theorem cover_rows (inp : FlowInput) (a : Asg) (hsat : Sat a (kcoverLP inp)) (e : Edge)
    (he : e ∈ inp.activeEdges) :
    1 ≤ ((List.range inp.cfg.k).map fun i => a (edgeVar e i)).sum := by
  obtain ⟨_, hrows⟩ := sat_append_right a _ _ hsat
  simp only at hrows
  have hr := hrows (rowGe (ones (List.range inp.cfg.k) (edgeVar e)) 1)
    (List.mem_map.2 ⟨e, List.mem_filter.2 ⟨he, by simp [coverSkipped]⟩, rfl⟩)
  have := hr.1 1 rfl
  simpa [rowGe, evalTerms_ones] using this

/-- **T1.** every satisfying assignment of the `kPathCover` LP decodes to `k` routes of the user's
graph which together contain every edge that is neither ignored nor synthetic -/
theorem kcover_sound (inp : FlowInput) (a : Asg) (h : BaseWF inp.base) (hac : Acyclic inp.base)
    (hsat : Sat a (kcoverLP inp)) :
    ∃ ps : List (List Node), decodePaths inp.st (fun e i => a (edgeVar e i)) inp.cfg.k = some ps ∧
      ps.length = inp.cfg.k ∧
      (∀ p ∈ ps, p ≠ [] → ValidRoute inp.base inp.starts inp.ends p ∧ p.Nodup) ∧
      (∀ p ∈ ps, p = [] → inp.cfg.allowEmpty = true) ∧
      ∀ e ∈ inp.activeEdges, ∃ p ∈ ps, e ∈ walkEdges p := by
  have hwf : STWF inp.st := augment_wf inp.base inp.starts inp.ends h hac
  have henc : Sat a (encodePaths inp.st inp.cfg) := sat_append_left a _ _ hsat
  obtain ⟨ps, hps, hlen, htrav⟩ := decode_all inp.st inp.cfg a hwf henc
  have hget := mapM_range_get _ inp.cfg.k ps [] hps
  have hroute : ∀ p ∈ ps, (p = [] → inp.cfg.allowEmpty = true) ∧
      (p ≠ [] → ValidRoute inp.base inp.starts inp.ends p ∧ p.Nodup) := by
    intro p hp
    obtain ⟨i, hi, rfl⟩ := List.mem_iff_getElem.1 hp
    have hik : i < inp.cfg.k := by omega
    obtain ⟨q, hq, h1, h2⟩ := dag_routes_valid inp.base inp.starts inp.ends inp.cfg a h hac henc i hik
    have := hget.2 i hik
    have hq' : decodeLayer inp.st (fun e i => a (edgeVar e i)) i = some q := hq
    rw [hq'] at this
    have hqe : q = ps[i] := by
      have h3 := Option.some.inj this
      rw [h3, List.getD_eq_getElem?_getD, List.getElem?_eq_getElem hi]; rfl
    subst hqe
    exact ⟨h1, h2⟩
  refine ⟨ps, hps, hlen, fun p hp => (hroute p hp).2, fun p hp => (hroute p hp).1, ?_⟩
  intro e he
  obtain ⟨hee, h1, h2, _⟩ := active_mem inp e he
  have hsum := cover_rows inp a hsat e he
  have hne : ((List.range inp.cfg.k).map fun i => a (edgeVar e i)).sum ≠ 0 := by
    intro h0; rw [h0] at hsum; exact absurd hsum (by decide)
  obtain ⟨i, hi, hx⟩ := exists_ne_zero_of_sum_ne_zero _ _ hne
  have hik := List.mem_range.1 hi
  rw [htrav i hik e hee] at hx
  have hcnt : traversals (inp.st.source :: ps.getD i [] ++ [inp.st.sink]) e ≠ 0 := by
    intro h0; rw [h0] at hx; exact hx (by simp)
  have hmem : e ∈ walkEdges (inp.st.source :: ps.getD i [] ++ [inp.st.sink]) := by
    unfold traversals at hcnt
    exact List.count_pos_iff.1 (Nat.pos_of_ne_zero hcnt)
  have hil : i < ps.length := by omega
  refine ⟨ps.getD i [], ?_, mem_walkEdges_inner _ _ _ e hmem h1 h2⟩
  rw [List.getD_eq_getElem?_getD, List.getElem?_eq_getElem hil]
  exact List.getElem_mem hil


/-! ## completeness: from routes to a satisfying assignment -/

/-- the assignment read off `k` routes: `edge(u,v,i)` = multiplicity of `(u,v)` on route `i`,
`r(i,j)` = "route `i` contains every edge of constraint `j`" -/
def coverAsg (routes : List (List Node)) (cons : List (List Edge)) : Asg := fun v =>
  match v with
  | .uvi p u w i => if p = "edge" then cntR (walkEdges (routes.getD i [])) (u, w) else 0
  | .ij p i j =>
    if p = "r" ∧ (cons.getD j []).all (fun e => (walkEdges (routes.getD i [])).contains e) = true
    then 1 else 0
  | _ => 0

theorem coverAsg_edge (routes : List (List Node)) (cons : List (List Edge)) (e : Edge) (i : Nat) :
    coverAsg routes cons (edgeVar e i) = cntR (walkEdges (routes.getD i [])) e := by
  simp [coverAsg, edgeVar]

theorem coverAsg_r (routes : List (List Node)) (cons : List (List Edge)) (i j : Nat) :
    coverAsg routes cons (rVar i j) =
      if (∀ e ∈ cons.getD j [], e ∈ walkEdges (routes.getD i [])) then 1 else 0 := by
  have : (((cons.getD j []).all fun e => (walkEdges (routes.getD i [])).contains e) = true) ↔
      (∀ e ∈ cons.getD j [], e ∈ walkEdges (routes.getD i [])) := by
    simp [List.all_eq_true]
  simp only [coverAsg, rVar, true_and, this]

/-- shape of a source-to-sink walk -/
theorem stwalk_shape {s : STGraph} (hne : s.source ≠ s.sink) {l : List Node} (h : IsSTWalk s l) :
    ∃ p, l = s.source :: p ++ [s.sink] := by
  cases l with
  | nil => have := h.first; simp at this
  | cons x t =>
    have hx : x = s.source := by simpa using h.first
    subst hx
    have hl := h.last
    cases t with
    | nil => simp at hl; exact absurd hl hne
    | cons y t' =>
      rw [List.getLast?_cons_cons] at hl
      exact ⟨(y :: t').dropLast, by rw [List.cons_append, ← split_last _ _ hl]⟩

theorem stwalk_nodup_p09 {s : STGraph} (hwf : STWF s) {l : List Node} (h : IsSTWalk s l) : l.Nodup := by
  obtain ⟨rank, hr⟩ := hwf.acyclic
  exact nodup_of_walk rank l (fun e he => hr e (h.walk e he))

/-- the indicator of a source-to-sink path satisfies the per-layer facts of `_encode_paths` -/
theorem layerFacts_of_route {s : STGraph} (hwf : STWF s) (ae : Bool) {l : List Node}
    (h : IsSTWalk s l) : LayerFacts s ae (cntR (walkEdges l)) := by
  have hnd := stwalk_nodup_p09 hwf h
  have hPnd := walkEdges_nodup l hnd
  obtain ⟨p, hp⟩ := stwalk_shape hwf.ne h
  have hsp : s.source ∉ p := by
    rw [hp, List.cons_append] at hnd
    intro hm
    exact (List.nodup_cons.1 hnd).1 (List.mem_append_left _ hm)
  have hsrc : outflow s.g (cntR (walkEdges l)) s.source = 1 := by
    rw [outflow_cntR s.g hwf.edgesNodup _ h.walk, tails_walkEdges, hp, occR_head p _ _ hsp]
  refine ⟨?_, ?_, ?_⟩
  · intro e _
    by_cases hm : e ∈ walkEdges l
    · exact Or.inr (cntR_mem _ hPnd e hm)
    · exact Or.inl (cntR_not_mem _ e hm)
  · cases ae
    · simpa using hsrc
    · simp only [if_true]; rw [hsrc]; exact Rat.le_refl
  · intro v _ h1 h2
    rw [inflow_cntR s.g hwf.edgesNodup _ h.walk, outflow_cntR s.g hwf.edgesNodup _ h.walk,
      heads_walkEdges, tails_walkEdges, hp, occR_inner p _ _ _ h1 h2]

theorem col01_of_bin (a : Asg) (v : Var) (h : a v = 0 ∨ a v = 1) :
    Col.holds a { v := v, lb := 0, ub := some 1, isInt := true } := by
  refine ⟨?_, ?_, fun _ => ?_⟩
  · rcases h with h | h <;> simp only [h] <;> decide
  · intro u hu
    have : u = 1 := (Option.some.inj hu).symm
    subst this
    rcases h with h | h <;> simp only [h] <;> decide
  · rcases h with h | h
    · exact ⟨0, by simp [h]⟩
    · exact ⟨1, by simp [h]⟩

/-- converse of `layerFacts_of_sat`: layer facts for every layer give the core of `_encode_paths` -/
theorem sat_core_of_layerFacts_p09 (s : STGraph) (c : PathCfg) (a : Asg)
    (h : ∀ i, i < c.k → LayerFacts s c.allowEmpty (fun e => a (edgeVar e i))) :
    Sat a { cols := (List.range c.k).flatMap fun i => s.g.edges.map fun e =>
              { v := edgeVar e i, lb := 0, ub := some 1, isInt := true },
            rows := rows10a s c ++ rows10c s c } := by
  constructor
  · intro col hc
    simp only [List.mem_flatMap, List.mem_map, List.mem_range] at hc
    obtain ⟨i, hi, e, he, rfl⟩ := hc
    exact col01_of_bin a _ ((h i hi).bin e he)
  · intro r hr
    simp only at hr
    rcases List.mem_append.1 hr with hr | hr
    · obtain ⟨i, hi, rfl⟩ := List.mem_map.1 hr
      have hf := (h i (List.mem_range.1 hi)).src
      have hs := sum_succ s.g (fun e => a (edgeVar e i)) s.source
      cases hae : c.allowEmpty
      · rw [hae] at hf
        simp only [Bool.false_eq_true, if_false] at hf ⊢
        constructor
        · intro l hl
          have : l = 1 := (Option.some.inj hl).symm
          subst this
          simp only [rowEq, evalTerms_ones]; rw [hs, hf]; exact Rat.le_refl
        · intro l hl
          have : l = 1 := (Option.some.inj hl).symm
          subst this
          simp only [rowEq, evalTerms_ones]; rw [hs, hf]; exact Rat.le_refl
      · rw [hae] at hf
        simp only [if_true] at hf ⊢
        constructor
        · intro l hl; simp [rowLe] at hl
        · intro l hl
          have : l = 1 := (Option.some.inj hl).symm
          subst this
          simp only [rowLe, evalTerms_ones]; rw [hs]; exact hf
    · obtain ⟨i, hi, hr⟩ := List.mem_flatMap.1 hr
      obtain ⟨v, hv, rfl⟩ := List.mem_map.1 hr
      have hv' := List.mem_filter.1 hv
      have hv2 : v ≠ s.source ∧ v ≠ s.sink := by simpa using hv'.2
      have hf := (h i (List.mem_range.1 hi)).cons v hv'.1 hv2.1 hv2.2
      have hs := sum_succ s.g (fun e => a (edgeVar e i)) v
      have hp := sum_pred s.g (fun e => a (edgeVar e i)) v
      have hval : evalTerms a (ones (s.g.pred v) (fun u => edgeVar (u, v) i)
             ++ negTerms (ones (s.g.succ v) (fun w => edgeVar (v, w) i))) = 0 := by
        rw [evalTerms_append, evalTerms_negTerms, evalTerms_ones, evalTerms_ones, hs, hp, hf]
        grind
      constructor
      · intro l hl
        have : l = 0 := (Option.some.inj hl).symm
        subst this
        simp only [rowEq]; rw [hval]; exact Rat.le_refl
      · intro l hl
        have : l = 0 := (Option.some.inj hl).symm
        subst this
        simp only [rowEq]; rw [hval]; exact Rat.le_refl


theorem mem_zip_range_p09 {α} (n : Nat) (l : List α) (j : Nat) (x : α)
    (h : (j, x) ∈ (List.range n).zip l) : l[j]? = some x := by
  obtain ⟨m, hm, heq⟩ := List.mem_iff_getElem.1 h
  rw [List.getElem_zip] at heq
  have h1 : m = j := by simpa using congrArg Prod.fst heq
  have h2 := congrArg Prod.snd heq
  simp only at h2
  subst h1
  rw [← h2]
  exact List.getElem?_eq_getElem _

theorem sum_map_eq_length {α} (l : List α) (f : α → Rat) (h : ∀ x ∈ l, f x = 1) :
    (l.map f).sum = (l.length : Rat) := by
  induction l with
  | nil => simp
  | cons x xs ih =>
    have h1 := h x (by simp)
    have h2 := ih (fun y hy => h y (by simp [hy]))
    simp only [List.map_cons, List.sum_cons, h1, h2, List.length_cons]
    rw [Rat.add_comm]; simp

theorem sat_empty_p09 (a : Asg) : Sat a {} := ⟨fun c hc => by simp at hc, fun r hr => by simp at hr⟩

theorem sat_append_p09 (a : Asg) (A B : LP) (hA : Sat a A) (hB : Sat a B) : Sat a (A.append B) :=
  ⟨fun c hc => by
      simp only [LP.append, List.mem_append] at hc
      rcases hc with h | h
      · exact hA.1 c h
      · exact hB.1 c h,
   fun r hr => by
      simp only [LP.append, List.mem_append] at hr
      rcases hr with h | h
      · exact hA.2 r h
      · exact hB.2 r h⟩

theorem cntR_nonneg (P : List Edge) (e : Edge) : 0 ≤ cntR P e := by
  apply sum_map_nonneg
  intro p _
  split <;> decide

/-- the rows 7a / 7b hold for routes satisfying the constraints (coverage fraction 1) -/
theorem sat_subpath_of_routes (c : PathCfg) (routes : List (List Node)) (hk : routes.length = c.k)
    (hcl : c.coverageLength = none) (hcov : c.coverage = 1)
    (hnd : ∀ r ∈ routes, (walkEdges r).Nodup) (hsat : Satisfies routes c.constraints) :
    Sat (coverAsg routes c.constraints) (subpathBlock c) := by
  unfold subpathBlock
  split
  · exact sat_empty_p09 _
  · have hrbin : ∀ i j, coverAsg routes c.constraints (rVar i j) = 0 ∨
        coverAsg routes c.constraints (rVar i j) = 1 := by
      intro i j; rw [coverAsg_r]; split <;> simp
    constructor
    · intro col hc
      simp only [List.mem_flatMap, List.mem_map] at hc
      obtain ⟨i, _, j, _, rfl⟩ := hc
      exact col01_of_bin _ _ (hrbin i j)
    · intro r hr
      simp only at hr
      rcases List.mem_append.1 hr with hr | hr
      · obtain ⟨i, hi, hr⟩ := List.mem_flatMap.1 hr
        obtain ⟨⟨j, con⟩, hjc, rfl⟩ := List.mem_map.1 hr
        have hcon : c.constraints.getD j [] = con := by
          rw [List.getD_eq_getElem?_getD, mem_zip_range_p09 _ _ _ _ hjc]; rfl
        simp only [hcl, hcov]
        constructor
        · intro l hl
          have : l = 0 := (Option.some.inj hl).symm
          subst this
          simp only [rowGe, evalTerms_append, evalTerms_ones, evalTerms_single]
          rw [coverAsg_r, hcon]
          by_cases hall : ∀ e ∈ con, e ∈ walkEdges (routes.getD i [])
          · rw [if_pos hall]
            have hi' : i < routes.length := by rw [hk]; exact List.mem_range.1 hi
            have hri : routes.getD i [] ∈ routes := by
              rw [List.getD_eq_getElem?_getD, List.getElem?_eq_getElem hi']
              exact List.getElem_mem hi'
            rw [sum_map_eq_length con _ (fun e he => by
              rw [coverAsg_edge]; exact cntR_mem _ (hnd _ hri) e (hall e he))]
            grind
          · rw [if_neg hall]
            have := sum_map_nonneg con (fun e => coverAsg routes c.constraints (edgeVar e i))
              (fun e _ => by rw [coverAsg_edge]; exact cntR_nonneg _ _)
            grind
        · intro l hl; simp [rowGe] at hl
      · obtain ⟨j, hj, rfl⟩ := List.mem_map.1 hr
        have hj' : j < c.constraints.length := List.mem_range.1 hj
        have hmem : c.constraints[j] ∈ c.constraints := List.getElem_mem hj'
        obtain ⟨r, hr, hall⟩ := hsat _ hmem
        obtain ⟨i0, hi0, rfl⟩ := List.mem_iff_getElem.1 hr
        have hgd : c.constraints.getD j [] = c.constraints[j] := by
          rw [List.getD_eq_getElem?_getD, List.getElem?_eq_getElem hj']; rfl
        have hrd : routes.getD i0 [] = routes[i0] := by
          rw [List.getD_eq_getElem?_getD, List.getElem?_eq_getElem hi0]; rfl
        have h1 : coverAsg routes c.constraints (rVar i0 j) = 1 := by
          rw [coverAsg_r, hgd, hrd, if_pos hall]
        constructor
        · intro l hl
          have : l = 1 := (Option.some.inj hl).symm
          subst this
          simp only [rowGe, evalTerms_ones]
          have hle := le_sum_of_mem (List.range c.k)
            (fun i => coverAsg routes c.constraints (rVar i j))
            (fun i _ => by rcases hrbin i j with h | h <;> simp only [h] <;> decide)
            i0 (List.mem_range.2 (by omega))
          simp only [h1] at hle
          exact hle
        · intro l hl; simp [rowGe] at hl

/-- **T2.** `k` source-to-sink paths of the augmented DAG which cover every active edge and contain
every subpath constraint give a satisfying assignment of the `kPathCover` LP (subpath constraints at
coverage fraction 1, no `length_attr` coverage, no position variables) -/
theorem kcover_complete (inp : FlowInput) (hwf : STWF inp.st) (routes : List (List Node))
    (hk : routes.length = inp.cfg.k) (hcl : inp.cfg.coverageLength = none)
    (hcov : inp.cfg.coverage = 1) (hpos : inp.cfg.encodePosition = false)
    (hr : ∀ r ∈ routes, IsSTWalk inp.st r) (hc : Covers routes inp.activeEdges)
    (hs : Satisfies routes inp.cfg.constraints) :
    Sat (coverAsg routes inp.cfg.constraints) (kcoverLP inp) := by
  have hnd : ∀ r ∈ routes, (walkEdges r).Nodup :=
    fun r hm => walkEdges_nodup r (stwalk_nodup_p09 hwf (hr r hm))
  have hget : ∀ i, i < inp.cfg.k → routes.getD i [] ∈ routes := by
    intro i hi
    have hi' : i < routes.length := by omega
    rw [List.getD_eq_getElem?_getD, List.getElem?_eq_getElem hi']
    exact List.getElem_mem hi'
  unfold kcoverLP
  apply sat_append_p09
  · unfold encodePaths
    apply sat_append_p09
    · apply sat_append_p09
      · apply sat_core_of_layerFacts_p09
        intro i hi
        have := layerFacts_of_route hwf inp.cfg.allowEmpty (hr _ (hget i hi))
        have hfun : (fun e => coverAsg routes inp.cfg.constraints (edgeVar e i))
            = cntR (walkEdges (routes.getD i [])) := by
          funext e; exact coverAsg_edge _ _ e i
        rw [hfun]; exact this
      · exact sat_subpath_of_routes inp.cfg routes hk hcl hcov hnd hs
    · unfold positionBlock
      simp only [hpos, Bool.not_false, if_true]
      exact sat_empty_p09 _
  · constructor
    · intro c hc'; simp at hc'
    · intro r hr'
      simp only at hr'
      obtain ⟨e, he, rfl⟩ := List.mem_map.1 hr'
      have hea := (List.mem_filter.1 he).1
      obtain ⟨r0, hr0, hmem⟩ := hc e hea
      obtain ⟨i0, hi0, rfl⟩ := List.mem_iff_getElem.1 hr0
      have hrd : routes.getD i0 [] = routes[i0] := by
        rw [List.getD_eq_getElem?_getD, List.getElem?_eq_getElem hi0]; rfl
      constructor
      · intro l hl
        have : l = 1 := (Option.some.inj hl).symm
        subst this
        simp only [rowGe, evalTerms_ones]
        have hle := le_sum_of_mem (List.range inp.cfg.k)
          (fun i => coverAsg routes inp.cfg.constraints (edgeVar e i))
          (fun i _ => by rw [coverAsg_edge]; exact cntR_nonneg _ _)
          i0 (List.mem_range.2 (by omega))
        simp only [coverAsg_edge, hrd, cntR_mem _ (hnd _ hr0) e hmem] at hle
        exact hle
      · intro l hl; simp [rowGe] at hl


/-! ## soundness w.r.t. the cover predicate (routes with their synthetic endpoints, constraints) -/

theorem mem_zip_range_of_lt {α} (l : List α) (j : Nat) (hj : j < l.length) :
    (j, l[j]) ∈ (List.range l.length).zip l := by
  apply List.mem_iff_getElem.2
  refine ⟨j, by simp [hj], ?_⟩
  rw [List.getElem_zip]; simp

theorem sum_le_length {α} (l : List α) (f : α → Rat) (h : ∀ x ∈ l, f x ≤ 1) :
    (l.map f).sum ≤ (l.length : Rat) := by
  induction l with
  | nil => simp
  | cons x xs ih =>
    have h1 := h x (by simp)
    have h2 := ih (fun y hy => h y (by simp [hy]))
    simp only [List.map_cons, List.sum_cons, List.length_cons]
    have : ((xs.length + 1 : Nat) : Rat) = (xs.length : Rat) + 1 := by simp
    rw [this]; grind

theorem all_one_of_sum_ge {α} (l : List α) (f : α → Rat) (h : ∀ x ∈ l, f x ≤ 1)
    (hs : (l.length : Rat) ≤ (l.map f).sum) : ∀ x ∈ l, f x = 1 := by
  induction l with
  | nil => intro x hx; simp at hx
  | cons y ys ih =>
    have h1 := h y (by simp)
    have h2 := sum_le_length ys f (fun z hz => h z (by simp [hz]))
    simp only [List.map_cons, List.sum_cons, List.length_cons] at hs
    have hc : ((ys.length + 1 : Nat) : Rat) = (ys.length : Rat) + 1 := by simp
    rw [hc] at hs
    intro x hx
    rcases List.mem_cons.1 hx with rfl | hm
    · grind
    · exact ih (fun z hz => h z (by simp [hz])) (by grind) x hm

theorem stwalk_of_decoded {s : STGraph} {p : List Node}
    (hw : IsWalkIn s.g (s.source :: p ++ [s.sink])) : IsSTWalk s (s.source :: p ++ [s.sink]) :=
  ⟨by simp, by rw [show s.source :: p ++ [s.sink] = (s.source :: p) ++ [s.sink] from rfl, List.getLast?_concat], hw⟩

/-- a satisfying assignment of the `kPathCover` LP (no empty paths) yields a cover by `k`
source-to-sink paths of the augmented DAG that contains every subpath constraint -/
theorem kcover_hasCover_of_sat (inp : FlowInput) (a : Asg) (hwf : STWF inp.st)
    (hae : inp.cfg.allowEmpty = false) (hcl : inp.cfg.coverageLength = none)
    (hcov : inp.cfg.coverage = 1)
    (hce : ∀ c ∈ inp.cfg.constraints, ∀ e ∈ c, e ∈ inp.st.g.edges)
    (hsat : Sat a (kcoverLP inp)) :
    HasCover inp.st inp.activeEdges inp.cfg.constraints inp.cfg.k := by
  have henc : Sat a (encodePaths inp.st inp.cfg) := sat_append_left a _ _ hsat
  -- per layer: a non-empty path whose indicator the edge variables are
  have hlayer : ∀ i, i < inp.cfg.k → ∃ p, IsWalkIn inp.st.g (inp.st.source :: p ++ [inp.st.sink]) ∧
      ∀ e ∈ inp.st.g.edges, a (edgeVar e i) =
        if e ∈ walkEdges (inp.st.source :: p ++ [inp.st.sink]) then 1 else 0 := by
    intro i hi
    obtain ⟨p, _, hempty, hne⟩ := pathcore_sound inp.st inp.cfg a hwf henc i hi
    have hp : p ≠ [] := by
      intro h0
      have := (hempty h0).1
      rw [hae] at this; cases this
    exact ⟨p, (hne hp).1, (hne hp).2.2⟩
  -- choose the paths layer by layer
  have hchoose : ∀ n, n ≤ inp.cfg.k → ∃ rs : List (List Node), rs.length = n ∧
      ∀ i (hi : i < rs.length), IsSTWalk inp.st rs[i] ∧
        ∀ e ∈ inp.st.g.edges, a (edgeVar e i) = if e ∈ walkEdges rs[i] then 1 else 0 := by
    intro n
    induction n with
    | zero => exact fun _ => ⟨[], rfl, fun i hi => by simp at hi⟩
    | succ n ih =>
      intro hn
      obtain ⟨rs, hlen, hrs⟩ := ih (by omega)
      obtain ⟨p, hw, hind⟩ := hlayer n (by omega)
      refine ⟨rs ++ [inp.st.source :: p ++ [inp.st.sink]], by simp [hlen], ?_⟩
      intro i hi
      by_cases hlt : i < rs.length
      · rw [List.getElem_append_left hlt]; exact hrs i hlt
      · have hin : i = n := by simp at hi; omega
        subst hin
        have : (rs ++ [inp.st.source :: p ++ [inp.st.sink]])[i] = inp.st.source :: p ++ [inp.st.sink] := by
          rw [List.getElem_append_right (by omega)]; simp [hlen]
        rw [this]
        exact ⟨stwalk_of_decoded hw, hind⟩
  obtain ⟨rs, hlen, hrs⟩ := hchoose inp.cfg.k (Nat.le_refl _)
  have hbin : ∀ i, i < inp.cfg.k → ∀ e ∈ inp.st.g.edges, a (edgeVar e i) ≤ 1 := by
    intro i hi e he
    rw [(hrs i (by omega)).2 e he]; split <;> decide
  refine ⟨rs, hlen, ?_, ?_, ?_⟩
  · intro r hr
    obtain ⟨i, hi, rfl⟩ := List.mem_iff_getElem.1 hr
    exact (hrs i hi).1
  · intro e he
    obtain ⟨hee, _, _, _⟩ := active_mem inp e he
    have hsum := cover_rows inp a hsat e he
    have hne : ((List.range inp.cfg.k).map fun i => a (edgeVar e i)).sum ≠ 0 := by
      intro h0; rw [h0] at hsum; exact absurd hsum (by decide)
    obtain ⟨i, hi, hx⟩ := exists_ne_zero_of_sum_ne_zero _ _ hne
    have hik : i < rs.length := by rw [hlen]; exact List.mem_range.1 hi
    refine ⟨rs[i], List.getElem_mem hik, ?_⟩
    rw [(hrs i hik).2 e hee] at hx
    by_cases hm : e ∈ walkEdges rs[i]
    · exact hm
    · simp [hm] at hx
  · intro con hcon
    have hsub : Sat a (subpathBlock inp.cfg) :=
      sat_append_right a _ _ (sat_append_left a _ _ henc)
    obtain ⟨j, hj, rfl⟩ := List.mem_iff_getElem.1 hcon
    have hnonempty : inp.cfg.constraints.isEmpty = false := by
      cases hc : inp.cfg.constraints with
      | nil => rw [hc] at hj; simp at hj
      | cons _ _ => rfl
    unfold subpathBlock at hsub
    simp only [hnonempty, Bool.false_eq_true, if_false, hcl, hcov] at hsub
    obtain ⟨hcols, hrows⟩ := hsub
    simp only at hcols hrows
    -- 7b: some layer has r(i,j) = 1
    have h7b := hrows (rowGe (ones (List.range inp.cfg.k) (fun i => rVar i j)) 1)
      (List.mem_append_right _ (List.mem_map.2 ⟨j, List.mem_range.2 hj, rfl⟩))
    have h7b' := h7b.1 1 rfl
    simp only [rowGe, evalTerms_ones] at h7b'
    have hne : ((List.range inp.cfg.k).map fun i => a (rVar i j)).sum ≠ 0 := by
      intro h0; rw [h0] at h7b'; exact absurd h7b' (by decide)
    obtain ⟨i, hi, hx⟩ := exists_ne_zero_of_sum_ne_zero _ _ hne
    have hik := List.mem_range.1 hi
    have hcol := hcols { v := rVar i j, lb := 0, ub := some 1, isInt := true }
      (List.mem_flatMap.2 ⟨i, hi, List.mem_map.2 ⟨j, List.mem_range.2 hj, rfl⟩⟩)
    have hr1 : a (rVar i j) = 1 := by
      rcases int01 _ hcol.1 (hcol.2.1 1 rfl) (hcol.2.2 rfl) with h | h
      · exact absurd h hx
      · exact h
    -- 7a for (i, j)
    have h7a := hrows _ (List.mem_append_left _ (List.mem_flatMap.2 ⟨i, hi,
      List.mem_map.2 ⟨(j, inp.cfg.constraints[j]), mem_zip_range_of_lt _ j hj, rfl⟩⟩))
    have h7a' := h7a.1 0 rfl
    simp only [rowGe, evalTerms_append, evalTerms_ones, evalTerms_single, hr1] at h7a'
    have hil : i < rs.length := by omega
    refine ⟨rs[i], List.getElem_mem hil, ?_⟩
    intro e he
    have hee := hce _ hcon e he
    have hall := all_one_of_sum_ge inp.cfg.constraints[j] (fun e => a (edgeVar e i))
      (fun e' he' => hbin i hik e' (hce _ hcon e' he')) (by grind) e he
    rw [(hrs i hil).2 e hee] at hall
    by_cases hm : e ∈ walkEdges rs[i]
    · exact hm
    · simp [hm] at hall

/-- the `kPathCover` LP is feasible iff `k` paths cover the active edges and contain the constraints -/
theorem kcover_feasible_iff (inp : FlowInput) (hwf : STWF inp.st)
    (hae : inp.cfg.allowEmpty = false) (hcl : inp.cfg.coverageLength = none)
    (hcov : inp.cfg.coverage = 1) (hpos : inp.cfg.encodePosition = false)
    (hce : ∀ c ∈ inp.cfg.constraints, ∀ e ∈ c, e ∈ inp.st.g.edges) :
    (∃ a, Sat a (kcoverLP inp)) ↔ HasCover inp.st inp.activeEdges inp.cfg.constraints inp.cfg.k := by
  constructor
  · rintro ⟨a, hsat⟩
    exact kcover_hasCover_of_sat inp a hwf hae hcl hcov hce hsat
  · rintro ⟨routes, hk, hr, hc, hs⟩
    exact ⟨_, kcover_complete inp hwf routes hk hcl hcov hpos hr hc hs⟩


/-! ## monotonicity, minimum search, antichain lower bound -/

/-- **T3.** a cover by `k ≥ 1` routes extends to `k + 1` routes (duplicate one) -/
theorem cover_monotone (s : STGraph) (active : List Edge) (cons : List (List Edge)) (k : Nat)
    (hk : 1 ≤ k) (h : HasCover s active cons k) : HasCover s active cons (k + 1) := by
  obtain ⟨routes, hlen, hr, hc, hs⟩ := h
  cases routes with
  | nil => simp at hlen; omega
  | cons r rs =>
    refine ⟨r :: r :: rs, by simp at hlen ⊢; omega, ?_, ?_, ?_⟩
    · intro x hx
      apply hr
      rcases List.mem_cons.1 hx with rfl | hx
      · simp
      · exact hx
    · intro e he
      obtain ⟨x, hx, hm⟩ := hc e he
      exact ⟨x, List.mem_cons_of_mem _ hx, hm⟩
    · intro c hcm
      obtain ⟨x, hx, hm⟩ := hs c hcm
      exact ⟨x, List.mem_cons_of_mem _ hx, hm⟩

theorem cover_monotone_le (s : STGraph) (active : List Edge) (cons : List (List Edge)) (k j : Nat)
    (hk : 1 ≤ k) (hkj : k ≤ j) (h : HasCover s active cons k) : HasCover s active cons j := by
  induction j with
  | zero => omega
  | succ j ih =>
    by_cases hj : k = j + 1
    · rw [← hj]; exact h
    · exact cover_monotone s active cons j (by omega) (ih (by omega))

/-- **T4 (soundness).** with a status script that is faithful (`optimal` only for feasible `k`,
`infeasible` only for infeasible `k`) and a valid lower bound `lo`, an answer of the stop-search is
the minimum `k` with property `P` -/
theorem search_minimal_sound (P : Nat → Prop) (σ : Nat → Search.Status) (lo hi m : Nat)
    (hopt : ∀ k, σ k = .optimal → P k) (hinf : ∀ k, σ k = .infeasible → ¬ P k)
    (hlb : ∀ j, j < lo → ¬ P j) (h : (Search.stopSearch σ lo hi).solved = some m) :
    P m ∧ ∀ j, j < m → ¬ P j := by
  obtain ⟨h1, _, _, h4⟩ := FP.Props.C13.search_sound σ lo hi m h
  refine ⟨hopt m h1, fun j hj => ?_⟩
  by_cases hjl : j < lo
  · exact hlb j hjl
  · exact hinf j (h4 j (by omega) hj)

/-- **T4 (completeness).** conversely the minimum is found when it lies below the end of the range -/
theorem search_minimal_complete (P : Nat → Prop) (σ : Nat → Search.Status) (lo hi m : Nat)
    (hopt : ∀ k, P k → σ k = .optimal) (hinf : ∀ k, ¬ P k → σ k = .infeasible)
    (hlb : ∀ j, j < lo → ¬ P j) (hm : P m) (hmin : ∀ j, j < m → ¬ P j) (hhi : m < hi) :
    (Search.stopSearch σ lo hi).solved = some m := by
  have hlo : lo ≤ m := by
    apply Classical.byContradiction
    intro hc
    exact hlb m (by omega) hm
  exact FP.Props.C13.search_complete σ lo hi m hlo hhi (hopt m hm)
    (fun j _ hj => hinf j (hmin j hj))

theorem length_filter_split {α} (A : List α) (p : α → Bool) :
    A.length = (A.filter p).length + (A.filter (fun a => !p a)).length := by
  induction A with
  | nil => simp
  | cons x xs ih =>
    cases hp : p x <;> simp [hp] <;> omega

theorem filter_length_le_one {α} (A : List α) (p : α → Bool) (hnd : A.Nodup)
    (h : ∀ x ∈ A, ∀ y ∈ A, p x = true → p y = true → x = y) : (A.filter p).length ≤ 1 := by
  have hnd' : (A.filter p).Nodup := hnd.sublist List.filter_sublist
  cases hf : A.filter p with
  | nil => simp
  | cons x t =>
    cases t with
    | nil => simp
    | cons y t' =>
      rw [hf] at hnd'
      have hx : x ∈ A.filter p := by rw [hf]; simp
      have hy : y ∈ A.filter p := by rw [hf]; simp
      have hx' := List.mem_filter.1 hx
      have hy' := List.mem_filter.1 hy
      have hxy := h x hx'.1 y hy'.1 hx'.2 hy'.2
      have := (List.nodup_cons.1 hnd').1
      rw [hxy] at this
      exact absurd (by simp) this

/-- pigeonhole: distinct edges, each on some route, no two on the same route -/
theorem pigeon_routes (routes : List (List Node)) : ∀ (A : List Edge), A.Nodup →
    (∀ e ∈ A, ∃ r ∈ routes, e ∈ walkEdges r) →
    (∀ r ∈ routes, ∀ e1 ∈ A, ∀ e2 ∈ A, e1 ∈ walkEdges r → e2 ∈ walkEdges r → e1 = e2) →
    A.length ≤ routes.length := by
  induction routes with
  | nil =>
    intro A _ hc _
    cases A with
    | nil => simp
    | cons e _ =>
      obtain ⟨r, hr, _⟩ := hc e (by simp)
      simp at hr
  | cons r rs ih =>
    intro A hnd hc hinc
    obtain ⟨p, hp⟩ : ∃ p : Edge → Bool, ∀ e, p e = true ↔ e ∈ walkEdges r :=
      ⟨fun e => decide (e ∈ walkEdges r), by simp⟩
    have h1 : (A.filter p).length ≤ 1 :=
      filter_length_le_one A _ hnd (fun x hx y hy hpx hpy =>
        hinc r (by simp) x hx y hy ((hp x).1 hpx) ((hp y).1 hpy))
    have h2 := ih (A.filter (fun e => !p e))
      (hnd.sublist List.filter_sublist)
      (fun e he => by
        have hm := List.mem_filter.1 he
        have hnr : e ∉ walkEdges r := by
          intro hin
          have := (hp e).2 hin
          have h2 := hm.2
          simp [this] at h2
        obtain ⟨x, hx, hex⟩ := hc e hm.1
        rcases List.mem_cons.1 hx with rfl | hx
        · exact absurd hex hnr
        · exact ⟨x, hx, hex⟩)
      (fun x hx e1 he1 e2 he2 =>
        hinc x (List.mem_cons_of_mem _ hx) e1 (List.mem_filter.1 he1).1 e2 (List.mem_filter.1 he2).1)
    have hsplit := length_filter_split A p
    simp only [List.length_cons]
    omega

/-- **T5.** an antichain of active edges bounds every cover from below -/
theorem antichain_weak_duality (s : STGraph) (active : List Edge) (cons : List (List Edge))
    (A : List Edge) (hA : Antichain s A) (hact : ∀ e ∈ A, e ∈ active) (k : Nat)
    (h : HasCover s active cons k) : A.length ≤ k := by
  obtain ⟨routes, hlen, hr, hc, _⟩ := h
  rw [← hlen]
  exact pigeon_routes routes A hA.nodup (fun e he => hc e (hact e he))
    (fun r hrm e1 he1 e2 he2 => hA.incomparable r (hr r hrm) e1 he1 e2 he2)


/-! ## antichains from reachability (what a plain BFS certifies) -/

theorem reach_head {es : List Edge} {x y z : Node} (hxy : (x, y) ∈ es) (h : Reach es y z) :
    Reach es x z := by
  induction h with
  | refl => exact Reach.step (Reach.refl x) hxy
  | step _ hstep ih => exact Reach.step ih hstep

/-- along a walk, the first vertex reaches the tail of every edge of the walk -/
theorem reach_of_mem_walkEdges {es : List Edge} (l : List Node) (hw : ∀ e ∈ walkEdges l, e ∈ es) :
    ∀ b, l.head? = some b → ∀ e ∈ walkEdges l, Reach es b e.1 := by
  induction l with
  | nil => intro b hb; simp at hb
  | cons a l ih =>
    intro b hb e he
    have hab : a = b := by simpa using hb
    subst hab
    cases l with
    | nil => simp [walkEdges] at he
    | cons c l =>
      rw [walkEdges_cons_cons] at he hw
      rcases List.mem_cons.1 he with rfl | he
      · exact Reach.refl _
      · have := ih (fun e' he' => hw e' (List.mem_cons_of_mem _ he')) c (by simp) e he
        exact reach_head (hw (a, c) (by simp)) this

/-- two different edges of one walk: the head of one reaches the tail of the other -/
theorem reach_of_common_walk {es : List Edge} (l : List Node) (hw : ∀ e ∈ walkEdges l, e ∈ es)
    (e1 e2 : Edge) (h1 : e1 ∈ walkEdges l) (h2 : e2 ∈ walkEdges l) (hne : e1 ≠ e2) :
    Reach es e1.2 e2.1 ∨ Reach es e2.2 e1.1 := by
  induction l with
  | nil => simp [walkEdges] at h1
  | cons a l ih =>
    cases l with
    | nil => simp [walkEdges] at h1
    | cons c l =>
      rw [walkEdges_cons_cons] at h1 h2 hw
      have hw' : ∀ e ∈ walkEdges (c :: l), e ∈ es := fun e he => hw e (List.mem_cons_of_mem _ he)
      rcases List.mem_cons.1 h1 with rfl | h1
      · rcases List.mem_cons.1 h2 with rfl | h2
        · exact absurd rfl hne
        · exact Or.inl (reach_of_mem_walkEdges (c :: l) hw' c (by simp) e2 h2)
      · rcases List.mem_cons.1 h2 with rfl | h2
        · exact Or.inr (reach_of_mem_walkEdges (c :: l) hw' c (by simp) e1 h1)
        · exact ih hw' h1 h2

/-- distinct edges none of whose heads reaches the tail of another form an antichain (any digraph,
cycles allowed): this is the check a breadth-first search performs on a reported antichain -/
theorem antichain_of_unreachable (s : STGraph) (A : List Edge) (hnd : A.Nodup)
    (h : ∀ e1 ∈ A, ∀ e2 ∈ A, e1 ≠ e2 → ¬ Reach s.g.edges e1.2 e2.1) : Antichain s A := by
  refine ⟨hnd, fun r hr e1 he1 e2 he2 hm1 hm2 => ?_⟩
  apply Classical.byContradiction
  intro hne
  rcases reach_of_common_walk r hr.walk e1 e2 hm1 hm2 hne with hx | hx
  · exact h e1 he1 e2 he2 hne hx
  · exact h e2 he2 e1 he1 (fun h' => hne h'.symm) hx

/-- on a DAG two different edges leaving the same node never lie on a common path -/
theorem same_tail_incomparable {s : STGraph} (hwf : STWF s) {r : List Node} (hr : IsSTWalk s r)
    (e1 e2 : Edge) (h1 : e1 ∈ walkEdges r) (h2 : e2 ∈ walkEdges r) (ht : e1.1 = e2.1) : e1 = e2 := by
  have hnd := stwalk_nodup_p09 hwf hr
  have hfst : ((walkEdges r).map (·.1)).Nodup := by
    rw [walkEdges_map_fst]; exact hnd.sublist (List.dropLast_sublist r)
  have := List.pairwise_map.1 hfst
  apply Classical.byContradiction
  intro hne
  obtain ⟨i, hi, rfl⟩ := List.mem_iff_getElem.1 h1
  obtain ⟨j, hj, rfl⟩ := List.mem_iff_getElem.1 h2
  have hij : i ≠ j := fun h' => hne (by subst h'; rfl)
  rcases Nat.lt_or_gt_of_ne hij with hlt | hlt
  · exact (List.pairwise_iff_getElem.1 this i j hi hj hlt) ht
  · exact (List.pairwise_iff_getElem.1 this j i hj hi hlt) ht.symm


/-! ## `MinPathCover.solve` end to end -/

/-- the same input with another number of paths -/
def withK (inp : FlowInput) (k : Nat) : FlowInput := { inp with cfg := { inp.cfg with k := k } }

theorem mincover_search (inp : FlowInput) (h : BaseWF inp.base) (hac : Acyclic inp.base)
    (hae : inp.cfg.allowEmpty = false) (hcl : inp.cfg.coverageLength = none)
    (hcov : inp.cfg.coverage = 1) (hpos : inp.cfg.encodePosition = false)
    (hce : ∀ c ∈ inp.cfg.constraints, ∀ e ∈ c, e ∈ inp.st.g.edges)
    (σ : Nat → Search.Status)
    (hopt : ∀ k, σ k = .optimal → ∃ a, Sat a (kcoverLP (withK inp k)))
    (hinf : ∀ k, σ k = .infeasible → ¬ ∃ a, Sat a (kcoverLP (withK inp k)))
    (A : List Edge) (hA : Antichain inp.st A) (hAact : ∀ e ∈ A, e ∈ inp.activeEdges)
    (hi m : Nat) (hs : (Search.stopSearch σ A.length hi).solved = some m) :
    IsMinCover inp.st inp.activeEdges inp.cfg.constraints m := by
  have hiff : ∀ k, (∃ a, Sat a (kcoverLP (withK inp k))) ↔
      HasCover inp.st inp.activeEdges inp.cfg.constraints k :=
    fun k => kcover_feasible_iff (withK inp k) (augment_wf _ _ _ h hac) hae hcl hcov hpos hce
  exact search_minimal_sound _ σ A.length hi m
    (fun k hk => (hiff k).1 (hopt k hk))
    (fun k hk hc => hinf k hk ((hiff k).2 hc))
    (fun j hj hc => by
      have := antichain_weak_duality inp.st inp.activeEdges inp.cfg.constraints A hA hAact j hc
      omega)
    hs


/-! ## parallel edges between two strongly connected components -/

/-- along edges the rank of the component never decreases (labelling monotone along a rank, as the
component numbering of a condensation is) -/
theorem reach_rank_mono (es : List Edge) (comp : Node → Nat) (rank : Nat → Nat)
    (hmono : ∀ e ∈ es, comp e.1 = comp e.2 ∨ rank (comp e.1) < rank (comp e.2)) {u v : Node}
    (h : Reach es u v) : rank (comp u) ≤ rank (comp v) := by
  induction h with
  | refl => exact Nat.le_refl _
  | step _ hstep ih =>
    rcases hmono _ hstep with h1 | h1
    · simp only at h1; rw [← h1]; exact ih
    · simp only at h1; omega

/-- the head of an edge entering a later component does not reach the tail of an edge leaving an
earlier one: in particular parallel edges between the same two components are pairwise unreachable,
so each of them needs a walk of its own (the multiplicities `stDiGraph.get_width` uses as demands) -/
theorem inter_scc_unreachable (es : List Edge) (comp : Node → Nat) (rank : Nat → Nat)
    (hmono : ∀ e ∈ es, comp e.1 = comp e.2 ∨ rank (comp e.1) < rank (comp e.2)) (e1 e2 : Edge)
    (h : rank (comp e2.1) < rank (comp e1.2)) : ¬ Reach es e1.2 e2.1 := by
  intro hr
  have := reach_rank_mono es comp rank hmono hr
  omega

end FP
