import FP.Proofs.C05Opt
import FP.Proofs.KFDC
import FP.Proofs.KFDCComplete
/-!
# FP.Proofs.C05Flow — the flow block of `kFlowDecompCycles` under renamings, frames and simplified products

* `qBitsOf`, `intProdQ_eq` — the product block is `prodFrag` with a number of bits that depends on the bound only;
* `prodFrag_mapVars`, `prodFrag_congr` — the block under a renaming of its columns / under a change of the
  assignment outside its columns;
* `kfdcFlowS`, `sat_kfdcFlowS_iff` — `_encode_flow_decomposition` with the three branches of its loop, split into
  its components (`pi` columns, weight columns, one part per non-ignored edge and layer, rows 10d);
* `prodPart_simplify` — for a key of `edges_set_to_zero` / `edges_set_to_one` whose edge variable is `0` / `1` the
  product block implies the simplified row.
-/
namespace FP
open FP.Spec

/-! ## the product block -/

/-- the number of bits `add_integer_continuous_product_constraint` uses for the bound `ub` -/
def qBitsOf (ub : Rat) : Nat :=
  if ub.den = 1 ∧ 0 ≤ ub.num then numBits ub.num.toNat else numBits ub.ceil.toNat

theorem intProdQ_eq (n c p : Var) (lb ub : Rat) (name : String) :
    intProdQ n c p lb ub name = prodFrag n c p lb ub name (qBitsOf ub) := by
  unfold intProdQ qBitsOf
  split
  · rename_i h
    rw [intProd_eq_prodFrag, ← rat_eq_natCast_of_den_one ub h.1 h.2]
  · rfl

theorem prodFrag_mapVars (P : Var → Var) (n c p : Var) (lb ub : Rat) (name name' : String) (nb : Nat)
    (hbit : ∀ j, P (bitVar name j) = bitVar name' j) (hcomp : ∀ j, P (compVar name j) = compVar name' j) :
    (prodFrag n c p lb ub name nb).cols.map (Col.mapVars P) = (prodFrag (P n) (P c) (P p) lb ub name' nb).cols ∧
    (prodFrag n c p lb ub name nb).rows.map (Row.mapVars P) = (prodFrag (P n) (P c) (P p) lb ub name' nb).rows := by
  constructor
  · simp [prodFrag, Col.mapVars, hbit, hcomp, Function.comp_def]
  · simp [prodFrag, binProd, Row.mapVars, mapTerms, hbit, hcomp, rowEq, rowLe, rowGe, List.map_flatMap,
      Function.comp_def]

/-- the block under a renaming of the columns -/
theorem prodFrag_perm (a : Asg) (P : Var → Var) (n c p : Var) (lb ub : Rat) (name name' : String) (nb : Nat)
    (hbit : ∀ j, P (bitVar name j) = bitVar name' j) (hcomp : ∀ j, P (compVar name j) = compVar name' j)
    (h : Sat a (prodFrag (P n) (P c) (P p) lb ub name' nb)) : Sat (a ∘ P) (prodFrag n c p lb ub name nb) := by
  obtain ⟨h1, h2⟩ := prodFrag_mapVars P n c p lb ub name name' nb hbit hcomp
  constructor
  · intro col hcol
    rw [c05_col_holds_comp]
    apply h.1
    rw [← h1]; exact List.mem_map_of_mem hcol
  · intro r hr
    rw [c05_row_holds_comp]
    apply h.2
    rw [← h2]; exact List.mem_map_of_mem hr

/-- the block reads its own columns and `n`, `c`, `p` only -/
theorem prodFrag_congr (a a' : Asg) (n c p : Var) (lb ub : Rat) (name : String) (nb : Nat)
    (hn : a' n = a n) (hc : a' c = a c) (hp : a' p = a p)
    (hbit : ∀ j, a' (bitVar name j) = a (bitVar name j)) (hcomp : ∀ j, a' (compVar name j) = a (compVar name j))
    (h : Sat a (prodFrag n c p lb ub name nb)) : Sat a' (prodFrag n c p lb ub name nb) := by
  constructor
  · intro col hcol
    have hh := h.1 col hcol
    simp only [prodFrag, List.mem_append, List.mem_map] at hcol
    rcases hcol with ⟨j, _, rfl⟩ | ⟨j, _, rfl⟩ <;> simp only [Col.holds, hbit, hcomp] at hh ⊢ <;> exact hh
  · intro r hr
    have hh := h.2 r hr
    simp only [prodFrag, binProd, List.mem_append, List.mem_flatMap, List.mem_cons,
      List.not_mem_nil, or_false] at hr
    rcases hr with (rfl | ⟨j, _, rfl | rfl | rfl | rfl⟩) | rfl
    · simp only [Row.holds, rowEq, evalTerms_append, evalTerms_map, evalTerms_single, hbit, hn] at hh ⊢
      exact hh
    · simp only [Row.holds, rowLe, evalTerms, List.map_cons, List.map_nil, List.sum_cons, List.sum_nil,
        hbit, hcomp] at hh ⊢
      exact hh
    · simp only [Row.holds, rowGe, evalTerms, List.map_cons, List.map_nil, List.sum_cons, List.sum_nil,
        hbit, hcomp] at hh ⊢
      exact hh
    · simp only [Row.holds, rowLe, evalTerms, List.map_cons, List.map_nil, List.sum_cons, List.sum_nil,
        hbit, hcomp, hc] at hh ⊢
      exact hh
    · simp only [Row.holds, rowGe, evalTerms, List.map_cons, List.map_nil, List.sum_cons, List.sum_nil,
        hbit, hcomp, hc] at hh ⊢
      exact hh
    · simp only [Row.holds, rowEq, evalTerms_append, evalTerms_map, evalTerms_single, hcomp, hp] at hh ⊢
      exact hh

/-! ## `_encode_flow_decomposition` with its three branches -/

/-- the part of the loop body for the edge `e` and the layer `i` -/
def prodPart (inp : WalkInput) (zero one : List (Edge × Nat)) (e : Edge) (i : Nat) : LP :=
  if zero.contains (e, i) then { rows := [rowEq [(1, piVar e i)] 0] }
  else if one.contains (e, i) then { rows := [rowEq [(1, piVar e i), (-1, weightsVar i)] 0] }
  else intProdQ (edgeVar e i) (weightsVar i) (piVar e i) 0 (inp.wmax false) (kfdcProdName e i)

def kfdcFlowS (inp : WalkInput) (zero one : List (Edge × Nat)) : LP :=
  let prods := walkProductsS zero one (inp.activeEdges false) inp.k weightsVar piVar (inp.wmax false) kfdcProdName
  { cols := ((List.range inp.k).flatMap fun i => inp.st.g.edges.map fun e =>
        { v := piVar e i, lb := 0, ub := some (inp.wmax false), isInt := inp.weightInt })
      ++ ((List.range inp.k).map fun i =>
        { v := weightsVar i, lb := 0, ub := some (inp.wmax false), isInt := inp.weightInt })
      ++ prods.cols,
    rows := prods.rows
      ++ (inp.activeEdges false).map fun e => rowEq (ones (List.range inp.k) (piVar e)) (inp.f e) }

theorem kfdcLPS_none (inp : WalkInput) (fr : SafetyFrag) :
    kfdcLPS inp none fr = (walkCoreS inp.st inp.cfg (kfdcCap inp) fr).append (kfdcFlowS inp fr.zero fr.one) := rfl

theorem kfdcLPS_some (inp : WalkInput) (ws : List Rat) (fr : SafetyFrag) :
    kfdcLPS inp (some ws) fr = ((walkCoreS inp.st inp.cfg (kfdcCap inp) fr).append
      (kfdcFlowS inp fr.zero fr.one)).append (kfdcGiven inp ws) := rfl

theorem kfdcFlow_eq (inp : WalkInput) : kfdcFlow inp = kfdcFlowS inp [] [] := by
  simp [kfdcFlow, kfdcFlowS, walkProducts, walkProductsS]

/-- the flow block, component by component -/
structure FlowParts (inp : WalkInput) (zero one : List (Edge × Nat)) (a : Asg) : Prop where
  piCol : ∀ i, i < inp.k → ∀ e ∈ inp.st.g.edges,
    ({ v := piVar e i, lb := 0, ub := some (inp.wmax false), isInt := inp.weightInt } : Col).holds a
  wCol : ∀ i, i < inp.k →
    ({ v := weightsVar i, lb := 0, ub := some (inp.wmax false), isInt := inp.weightInt } : Col).holds a
  part : ∀ e ∈ inp.activeEdges false, ∀ i, i < inp.k → Sat a (prodPart inp zero one e i)
  row10d : ∀ e ∈ inp.activeEdges false, (rowEq (ones (List.range inp.k) (piVar e)) (inp.f e)).holds a

theorem sat_kfdcFlowS_iff (inp : WalkInput) (zero one : List (Edge × Nat)) (a : Asg) :
    Sat a (kfdcFlowS inp zero one) ↔ FlowParts inp zero one a := by
  have hparts : ∀ lp : LP, lp ∈ ((inp.activeEdges false).flatMap fun e => (List.range inp.k).map fun i =>
      prodPart inp zero one e i) ↔ ∃ e ∈ inp.activeEdges false, ∃ i, i < inp.k ∧ lp = prodPart inp zero one e i := by
    intro lp
    simp only [List.mem_flatMap, List.mem_map, List.mem_range]
    constructor
    · rintro ⟨e, he, i, hi, rfl⟩; exact ⟨e, he, i, hi, rfl⟩
    · rintro ⟨e, he, i, hi, rfl⟩; exact ⟨e, he, i, hi, rfl⟩
  have hprods : walkProductsS zero one (inp.activeEdges false) inp.k weightsVar piVar (inp.wmax false) kfdcProdName
      = { cols := ((inp.activeEdges false).flatMap fun e => (List.range inp.k).map fun i =>
              prodPart inp zero one e i).flatMap (·.cols),
          rows := ((inp.activeEdges false).flatMap fun e => (List.range inp.k).map fun i =>
              prodPart inp zero one e i).flatMap (·.rows) } := rfl
  unfold kfdcFlowS
  rw [hprods]
  constructor
  · intro h
    refine ⟨?_, ?_, ?_, ?_⟩
    · intro i hi e he
      apply h.1
      exact List.mem_append_left _ (List.mem_append_left _
        (List.mem_flatMap.2 ⟨i, List.mem_range.2 hi, List.mem_map.2 ⟨e, he, rfl⟩⟩))
    · intro i hi
      apply h.1
      exact List.mem_append_left _ (List.mem_append_right _ (List.mem_map.2 ⟨i, List.mem_range.2 hi, rfl⟩))
    · intro e he i hi
      have hm := (hparts _).2 ⟨e, he, i, hi, rfl⟩
      exact ⟨fun col hc => h.1 col (List.mem_append_right _ (List.mem_flatMap.2 ⟨_, hm, hc⟩)),
             fun r hr => h.2 r (List.mem_append_left _ (List.mem_flatMap.2 ⟨_, hm, hr⟩))⟩
    · intro e he
      apply h.2
      exact List.mem_append_right _ (List.mem_map.2 ⟨e, he, rfl⟩)
  · intro h
    constructor
    · intro col hcol
      simp only [List.mem_append] at hcol
      rcases hcol with (hc | hc) | hc
      · obtain ⟨i, hi, hc⟩ := List.mem_flatMap.1 hc
        obtain ⟨e, he, rfl⟩ := List.mem_map.1 hc
        exact h.piCol i (List.mem_range.1 hi) e he
      · obtain ⟨i, hi, rfl⟩ := List.mem_map.1 hc
        exact h.wCol i (List.mem_range.1 hi)
      · obtain ⟨lp, hlp, hc⟩ := List.mem_flatMap.1 hc
        obtain ⟨e, he, i, hi, rfl⟩ := (hparts lp).1 hlp
        exact (h.part e he i hi).1 col hc
    · intro r hr
      simp only [List.mem_append] at hr
      rcases hr with hr | hr
      · obtain ⟨lp, hlp, hc⟩ := List.mem_flatMap.1 hr
        obtain ⟨e, he, i, hi, rfl⟩ := (hparts lp).1 hlp
        exact (h.part e he i hi).2 r hc
      · obtain ⟨e, he, rfl⟩ := List.mem_map.1 hr
        exact h.row10d e he

theorem prodPart_nil (inp : WalkInput) (e : Edge) (i : Nat) :
    prodPart inp [] [] e i = prodFrag (edgeVar e i) (weightsVar i) (piVar e i) 0 (inp.wmax false)
      (kfdcProdName e i) (qBitsOf (inp.wmax false)) := by
  simp [prodPart, intProdQ_eq]

/-- **simplified product rows**: with the edge variable at `0` (key of `edges_set_to_zero`) resp. `1` (key of
`edges_set_to_one`) the product block gives `pi = 0` resp. `pi = weight` -/
theorem prodPart_simplify (inp : WalkInput) (zero one : List (Edge × Nat)) (a : Asg) (e : Edge) (i : Nat)
    (hw : 0 ≤ a (weightsVar i) ∧ a (weightsVar i) ≤ inp.wmax false)
    (hz : (e, i) ∈ zero → a (edgeVar e i) = 0) (ho : (e, i) ∈ one → a (edgeVar e i) = 1)
    (h : Sat a (prodPart inp [] [] e i)) : Sat a (prodPart inp zero one e i) := by
  have hpi : a (piVar e i) = a (edgeVar e i) * a (weightsVar i) := by
    rw [prodPart_nil] at h
    exact prodFrag_sound a _ _ _ 0 _ _ _ hw h
  unfold prodPart
  split
  · rename_i hc
    have := hz (by simpa using hc)
    refine ⟨fun _ hcol => by simp at hcol, fun r hr => ?_⟩
    rw [List.mem_singleton.1 hr, c05_rowEq_single_holds, hpi, this]
    grind
  · split
    · rename_i hc
      have := ho (by simpa using hc)
      refine ⟨fun _ hcol => by simp at hcol, fun r hr => ?_⟩
      rw [List.mem_singleton.1 hr]
      simp only [Row.holds, rowEq, evalTerms, List.map_cons, List.map_nil, List.sum_cons, List.sum_nil, hpi, this]
      constructor <;> intro x hx <;> cases hx <;> grind
    · have h' := h
      unfold prodPart at h'
      simpa using h'

end FP
