import FP.Proofs.SafetyGraph
/-!
# FP.Proofs.SafetyDom — from sound dominator tables to safe sequences

If every entry of the two tables is an arc dominator (`SIdomSound`, `TIdomSound`), every sequence assembled by
`maximal_safe_sequences_via_dominators` (`s_doms[::-1] + t_doms[1:]` of a core) is contained, in order, in every
source-to-sink walk through its core, and the core is a member of `X`.
-/
namespace FP.Safety
open FP FP.Spec

/-- `s_idoms[e]`, when an arc, lies on every walk from the source to the tail of `e` -/
def SIdomSound (g : Graph) (s : Node) (si : IdomTable Node) : Prop :=
  ∀ e d, si.lookup e = some (.arc d) → Dominates g s e.1 d

/-- `t_idoms[e]`, when an arc, lies on every walk from the head of `e` to the sink -/
def TIdomSound (g : Graph) (t : Node) (ti : IdomTable Node) : Prop :=
  ∀ e d, ti.lookup e = some (.arc d) → Dominates g e.2 t d

theorem prefix_walk {g : Graph} {s x : Node} {w1 w2 : List Node} {a b : Node}
    (hw : IsSTWalkG g s x (w1 ++ a :: b :: w2)) : IsSTWalkG g s a (w1 ++ [a]) := by
  refine ⟨?_, ?_, by simp⟩
  · intro e he; apply hw.walk
    have : w1 ++ a :: b :: w2 = (w1 ++ [a]) ++ (b :: w2) := by simp
    rw [this]; exact we_sub_append_right _ _ e he
  · have := hw.first; cases w1 <;> simpa using this

theorem suffix_walk {g : Graph} {s x : Node} {w1 w2 : List Node} {a b : Node}
    (hw : IsSTWalkG g s x (w1 ++ a :: b :: w2)) : IsSTWalkG g b x (b :: w2) := by
  refine ⟨?_, rfl, ?_⟩
  · intro e he; apply hw.walk
    have : w1 ++ a :: b :: w2 = (w1 ++ [a]) ++ (b :: w2) := by simp
    rw [this]; exact we_sub_append_left _ _ e he
  · have := hw.last
    have h5 : w1 ++ a :: b :: w2 = (w1 ++ [a]) ++ (b :: w2) := by simp
    rw [h5, List.getLast?_append] at this
    cases hq : (b :: w2).getLast? with
    | none => simp at hq
    | some z => rw [hq] at this; simpa using this

theorem getDominators_s (g : Graph) (s : Node) (si : IdomTable Node) (hs : SIdomSound g s si) :
    ∀ n a acc r, getDominators si n a acc = .ok r →
      ∃ ch, r = acc ++ a :: ch ∧ ∀ w, IsSTWalkG g s a.1 w → ch.reverse.Sublist (walkEdges w) := by
  intro n
  induction n with
  | zero => intro a acc r h; simp [getDominators] at h
  | succ n ih =>
    intro a acc r h
    unfold getDominators at h
    split at h
    · cases h
    · injection h with h; subst h
      exact ⟨[], by simp, fun w _ => by simp⟩
    · rename_i b hb
      obtain ⟨ch', hr, hch⟩ := ih b (acc ++ [a]) r h
      refine ⟨b :: ch', by rw [hr]; simp, ?_⟩
      intro w hw
      have hbw : b ∈ walkEdges w := hs a b hb w hw
      obtain ⟨w1, w2, rfl⟩ := mem_we_split hbw
      have := hch _ (prefix_walk hw)
      rw [we_append_cons, we_cons_cons, List.reverse_cons]
      exact this.append (List.Sublist.cons_cons _ (List.nil_sublist _))

theorem getDominators_t (g : Graph) (t : Node) (ti : IdomTable Node) (ht : TIdomSound g t ti) :
    ∀ n a acc r, getDominators ti n a acc = .ok r →
      ∃ ch, r = acc ++ a :: ch ∧ ∀ w, IsSTWalkG g a.2 t w → ch.Sublist (walkEdges w) := by
  intro n
  induction n with
  | zero => intro a acc r h; simp [getDominators] at h
  | succ n ih =>
    intro a acc r h
    unfold getDominators at h
    split at h
    · cases h
    · injection h with h; subst h
      exact ⟨[], by simp, fun w _ => by simp⟩
    · rename_i b hb
      obtain ⟨ch', hr, hch⟩ := ih b (acc ++ [a]) r h
      refine ⟨b :: ch', by rw [hr]; simp, ?_⟩
      intro w hw
      have hbw : b ∈ walkEdges w := ht a b hb w hw
      obtain ⟨w1, w2, rfl⟩ := mem_we_split hbw
      have := hch _ (suffix_walk hw)
      rw [we_append_cons, we_cons_cons]
      exact (List.nil_sublist _).append (List.Sublist.cons_cons _ this)

theorem sequencesOf_mem (T : Trees Node) (fuel : Nat) : ∀ cs seqs, sequencesOf T fuel cs = .ok seqs →
    ∀ q ∈ seqs, ∃ c ∈ cs, ∃ sd td, getDominators T.sIdom fuel c [] = .ok sd ∧
      getDominators T.tIdom fuel c [] = .ok td ∧ q = sd.reverse ++ td.drop 1 := by
  intro cs
  induction cs with
  | nil => intro seqs h q hq; simp [sequencesOf] at h; cases h; simp at hq
  | cons c cs ih =>
    intro seqs h q hq
    unfold sequencesOf at h
    cases h1 : getDominators T.sIdom fuel c [] with
    | ok sd =>
      cases h2 : getDominators T.tIdom fuel c [] with
      | ok td =>
        cases h3 : sequencesOf T fuel cs with
        | ok rest =>
          simp only [h1, h2, h3, bind, pure] at h
          injection h with h; subst h
          rcases List.mem_cons.1 hq with rfl | hq
          · exact ⟨c, by simp, sd, td, h1, h2, rfl⟩
          · obtain ⟨c', hc', r⟩ := ih rest h3 q hq
            exact ⟨c', List.mem_cons_of_mem _ hc', r⟩
        | raises w => simp only [h1, h2, h3, bind] at h; cases h
        | fuel => simp only [h1, h2, h3, bind] at h; cases h
      | raises w => simp only [h1, h2, bind] at h; cases h
      | fuel => simp only [h1, h2, bind] at h; cases h
    | raises w => simp only [h1, bind] at h; cases h
    | fuel => simp only [h1, bind] at h; cases h

theorem filterCores_sub (T : Trees Node) (X : List Edge) (fuel : Nat) : ∀ ls cs, filterCores T X fuel ls = .ok cs →
    ∀ c ∈ cs, TNode.arc c ∈ ls := by
  intro ls
  induction ls with
  | nil => intro cs h c hc; simp [filterCores] at h; cases h; simp at hc
  | cons l ls ih =>
    intro cs h c hc
    unfold filterCores at h
    cases h1 : isCore T X fuel l with
    | ok b =>
      cases h2 : filterCores T X fuel ls with
      | ok rest =>
        simp only [h1, h2, bind, pure] at h
        cases l with
        | root =>
          simp only at h; injection h with h; subst h
          exact List.mem_cons_of_mem _ (ih rest h2 c hc)
        | arc a =>
          simp only at h; injection h with h; subst h
          by_cases hb : b = true
          · simp only [hb, if_true] at hc
            rcases List.mem_cons.1 hc with rfl | hc
            · simp
            · exact List.mem_cons_of_mem _ (ih rest h2 c hc)
          · simp only [hb] at hc
            exact List.mem_cons_of_mem _ (ih rest h2 c hc)
      | raises w => simp only [h1, h2, bind] at h; cases h
      | fuel => simp only [h1, h2, bind] at h; cases h
    | raises w => simp only [h1, bind] at h; cases h
    | fuel => simp only [h1, bind] at h; cases h

/-- T5, assembly half: sound tables give sequences forced by a member of `X` -/
theorem maxSeqsFromIdoms_forced (g : Graph) (s t : Node) (si ti : IdomTable Node)
    (hs : SIdomSound g s si) (ht : TIdomSound g t ti) (X : List Edge) (seqs : List (List Edge))
    (h : maxSeqsFromIdoms si ti X = .ok seqs) :
    ∀ q ∈ seqs, ∃ c ∈ X, ForcedBy g s t [c] q := by
  intro q hq
  unfold maxSeqsFromIdoms at h
  simp only at h
  split at h
  · rename_i sp tp _ _
    cases h1 : filterCores ⟨si, ti, sp, tp⟩ X.eraseDups (si.length + 2)
        ((X.eraseDups.map TNode.arc ++ [TNode.root]).filter fun x => (childrenX sp x).isEmpty) with
    | ok cores =>
      simp only [h1, bind] at h
      obtain ⟨c, hc, sd, td, hsd, htd, rfl⟩ := sequencesOf_mem _ _ _ _ h q hq
      have hleaf := filterCores_sub _ _ _ _ _ h1 c hc
      have hcX : c ∈ X := by
        have := (List.mem_filter.1 hleaf).1
        rcases List.mem_append.1 this with h' | h'
        · obtain ⟨c', hc', heq⟩ := List.mem_map.1 h'
          injection heq with heq; subst heq
          exact List.mem_eraseDups.1 hc'
        · simp at h'
      refine ⟨c, hcX, ?_⟩
      obtain ⟨chs, hrs, hchs⟩ := getDominators_s g s si hs _ c [] sd hsd
      obtain ⟨cht, hrt, hcht⟩ := getDominators_t g t ti ht _ c [] td htd
      intro w hw ho
      have hcw : c ∈ walkEdges w := by
        have : [c].Sublist (walkEdges w) := ho
        exact this.subset (by simp)
      obtain ⟨w1, w2, rfl⟩ := mem_we_split hcw
      unfold Occurs
      rw [hrs, hrt, we_append_cons, we_cons_cons]
      simp only [List.nil_append, List.reverse_cons, List.drop_succ_cons, List.drop_zero, List.append_assoc,
        List.singleton_append]
      exact (hchs _ (prefix_walk hw)).append (List.Sublist.cons_cons _ (hcht _ (suffix_walk hw)))
    | raises w => simp only [h1, bind] at h; cases h
    | fuel => simp only [h1, bind] at h; cases h
  · cases h

end FP.Safety
