import FP.Proofs.CondWalkCoverLift
import FP.Proofs.Reach
/-!
# FP.Proofs.CondWalkCover — a covering flow on the expanded condensation yields a walk cover

`cwc_distribute`: if every key `x` comes with at most as many items as there are routes through `x`,
the items can be handed out to the routes, one item per key and route, so that every item is handed
to a route through its key. With the flow decomposition on the (acyclic) expanded condensation and
the lifting of `CondWalkCoverLift` this gives `cwc_flow_to_walkcover`.
-/
namespace FP
open FP.Spec CondInput

theorem cwc_distribute {R K I : Type} (has : R → K → Prop) [∀ r x, Decidable (has r x)]
    (dflt : K → I) :
    ∀ (routes : List R) (L : K → List I),
      (∀ x, (L x).length ≤ (routes.filter fun r => decide (has r x)).length) →
      ∃ chs : List (K → I), chs.length = routes.length ∧
        (∀ ch ∈ chs, ∀ x, ch x ∈ L x ∨ ch x = dflt x) ∧
        ∀ x, ∀ it ∈ L x, ∃ p ∈ routes.zip chs, has p.1 x ∧ p.2 x = it := by
  intro routes
  induction routes with
  | nil =>
    intro L hL
    refine ⟨[], rfl, by simp, ?_⟩
    intro x it hit
    have := hL x
    simp only [List.filter_nil, List.length_nil, Nat.le_zero, List.length_eq_zero_iff] at this
    rw [this] at hit
    simp at hit
  | cons r rs ih =>
    intro L hL
    let L' : K → List I := fun x => if has r x then (L x).tail else L x
    have hL' : ∀ x, (L' x).length ≤ (rs.filter fun r => decide (has r x)).length := by
      intro x
      have := hL x
      simp only [L']
      by_cases hx : has r x
      · simp only [List.filter_cons, hx, decide_true, if_true, List.length_cons] at this
        simp only [hx, if_true, List.length_tail]; omega
      · simp only [List.filter_cons, hx, decide_false, Bool.false_eq_true, if_false] at this
        simp only [hx, if_false]; exact this
    obtain ⟨chs, hlen, hval, hcov⟩ := ih L' hL'
    have hsub : ∀ x, ∀ it ∈ L' x, it ∈ L x := by
      intro x it hit
      simp only [L'] at hit
      split at hit
      · exact List.mem_of_mem_tail hit
      · exact hit
    refine ⟨(fun x => (L x).head?.getD (dflt x)) :: chs, by simp [hlen], ?_, ?_⟩
    · intro ch hch x
      rcases List.mem_cons.1 hch with rfl | hch
      · cases hLx : L x with
        | nil => right; simp [hLx]
        | cons a l => left; simp [hLx]
      · rcases hval ch hch x with h | h
        · exact Or.inl (hsub x _ h)
        · exact Or.inr h
    · intro x it hit
      by_cases hx : has r x
      · cases hLx : L x with
        | nil => rw [hLx] at hit; simp at hit
        | cons a l =>
          rw [hLx] at hit
          rcases List.mem_cons.1 hit with rfl | hit
          · exact ⟨(r, fun x => (L x).head?.getD (dflt x)), by simp [List.zip_cons_cons], hx,
              by simp [hLx]⟩
          · have : it ∈ L' x := by simp only [L', hx, if_true, hLx, List.tail_cons]; exact hit
            obtain ⟨p, hp, h1, h2⟩ := hcov x it this
            exact ⟨p, by rw [List.zip_cons_cons]; exact List.mem_cons_of_mem _ hp, h1, h2⟩
      · have : it ∈ L' x := by simp only [L', hx, if_false]; exact hit
        obtain ⟨p, hp, h1, h2⟩ := hcov x it this
        exact ⟨p, by rw [List.zip_cons_cons]; exact List.mem_cons_of_mem _ hp, h1, h2⟩

open Classical in
/-- the number of duplicate-free routes through `e`, as the sum of their indicators -/
theorem cwc_sum_cntR (e : Edge) : ∀ (rs : List (List Node)), (∀ r ∈ rs, (walkEdges r).Nodup) →
    (rs.map (fun r => cntR (walkEdges r) e)).sum
      = (((rs.filter fun r => decide (e ∈ walkEdges r)).length : Nat) : Rat) := by
  intro rs
  induction rs with
  | nil => intro _; simp
  | cons r rs ih =>
    intro h
    have ih' := ih (fun r' hr' => h r' (List.mem_cons_of_mem _ hr'))
    simp only [List.map_cons, List.sum_cons, ih', List.filter_cons]
    by_cases hm : e ∈ walkEdges r
    · rw [cntR_mem _ (h r List.mem_cons_self) e hm]
      simp only [hm, decide_true, if_true, List.length_cons, Rat.natCast_add]
      grind
    · rw [cntR_not_mem _ e hm]
      simp only [hm, decide_false, Bool.false_eq_true, if_false]
      grind

open Classical in
/-- some edge of the digraph between the components `ab.1`, `ab.2` -/
noncomputable def cwcDflt (c : CondInput) (ab : Nat × Nat) : Edge :=
  if h : ∃ e ∈ c.g.edges, c.comp e.1 ≠ c.comp e.2 ∧ (c.comp e.1, c.comp e.2) = ab then choose h
  else ("", "")

theorem cwc_dflt_spec {c : CondInput} {ab : Nat × Nat} (hab : ab ∈ c.condEdges) :
    cwcDflt c ab ∈ c.g.edges ∧ c.comp (cwcDflt c ab).1 = ab.1 ∧ c.comp (cwcDflt c ab).2 = ab.2 := by
  have h := cwc_mem_condEdges.1 hab
  unfold cwcDflt
  rw [dif_pos h]
  obtain ⟨h1, _, h3⟩ := Classical.choose_spec h
  exact ⟨h1, congrArg Prod.fst h3, congrArg Prod.snd h3⟩

theorem cwc_choice_of_live {c : CondInput} (ch : Nat × Nat → Edge)
    (h : ∀ x, ch x ∈ cwcLive c x ∨ ch x = cwcDflt c x) : CwcChoice c ch := by
  intro ab hab
  rcases h ab with h | h
  · have := (cwc_mem_live.1 h).1
    exact ⟨this.1, congrArg Prod.fst this.2.2, congrArg Prod.snd this.2.2⟩
  · rw [h]; exact cwc_dflt_spec hab

/-- **cyclic T6.** -/
theorem cwc_flow_to_walkcover (c : CondInput) (w d : List (Edge × Int)) (f : Edge → Nat) (cost : Nat)
    (hok : CwcOK c)
    (hlive : ∀ v ∈ c.g.nodes, Reach c.g.edges srcName v ∧ Reach c.g.edges v snkName)
    (hw : c.weightFunction = some w) (hd : c.demands = some d)
    (hf : CoveringFlow c.expandedST (fun e => (lookupD d e 0).toNat) f)
    (hcost : outN c.expandedST.g f c.expandedST.source = cost) :
    HasCover ⟨c.g, srcName, snkName⟩ (c.g.edges.filter fun e => !c.ignore.contains e) [] cost := by
  classical
  have hwf := cwc_expandedST_wf hok
  have hign := (cwc_weight_some hw).1
  -- decompose the flow into paths of the expanded condensation
  have hin : ∀ v, inflow c.expandedST.g (fun e => (f e : Rat)) v
      = ((inN c.expandedST.g f v : Nat) : Rat) := by
    intro v; unfold inflow inN; rw [cast_sum_map]
  have hout : ∀ v, outflow c.expandedST.g (fun e => (f e : Rat)) v
      = ((outN c.expandedST.g f v : Nat) : Rat) := by
    intro v; unfold outflow outN; rw [cast_sum_map]
  obtain ⟨routes, hlen, hrs, hdec⟩ := flow_decompose hwf cost (fun e => (f e : Rat))
    (fun e _ => ⟨f e, rfl⟩)
    (fun v hv h1 h2 => by rw [hin, hout, hf.cons v hv h1 h2])
    (by rw [hout, hcost])
  have hcount : ∀ e ∈ c.expandedST.g.edges,
      f e = (routes.filter fun r => decide (e ∈ walkEdges r)).length := by
    intro e he
    have h1 := hdec e he
    rw [cwc_sum_cntR e routes (fun r hr => walkEdges_nodup r (stwalk_nodup_p09 hwf (hrs r hr)))] at h1
    exact_mod_cast h1
  -- the flow on an edge is at least the demand, which is the weight
  have hdem : ∀ e ∈ c.expandedST.g.edges, (lookupD w e 0).toNat ≤ f e := by
    intro e he
    have := hf.dem e he
    rw [cwc_demand_eq hw hd he] at this
    exact this
  -- hand the parallel edges that are not ignored out to the paths
  let has : List Node → Nat × Nat → Prop := fun r ab => (c.tailName ab.1, cname ab.2) ∈ walkEdges r
  have hbound : ∀ ab, (cwcLive c ab).length ≤ (routes.filter fun r => decide (has r ab)).length := by
    intro ab
    cases hL : cwcLive c ab with
    | nil => simp
    | cons e0 l =>
      rw [← hL]
      have he0 := (cwc_mem_live.1 (hL ▸ List.mem_cons_self : e0 ∈ cwcLive c ab)).1
      have hab : ab ∈ c.condEdges := cwc_mem_condEdges.2 ⟨e0, he0.1, he0.2.1, he0.2.2⟩
      have hx : (c.tailName ab.1, cname ab.2) ∈ c.expandedST.g.edges :=
        cwc_expanded_sub_expandedST hok (cwc_mem_expanded_edges.2 (Or.inr ⟨ab, hab, rfl⟩))
      have h1 := cwc_live_le_mult hign ab
      have h2 := hdem _ hx
      rw [cwc_weight_cond hw hab, hcount _ hx] at h2
      show _ ≤ (routes.filter fun r => decide ((c.tailName ab.1, cname ab.2) ∈ walkEdges r)).length
      omega
  obtain ⟨chs, hclen, hcval, hccov⟩ := cwc_distribute has (cwcDflt c) routes (cwcLive c) hbound
  -- lift every path with its choice function
  have hex : ∀ pr : List Node × (Nat × Nat → Edge), ∃ p : List Node, pr ∈ routes.zip chs →
      IsSTWalk ⟨c.g, srcName, snkName⟩ p ∧
      (∀ k, (cname k, cexp k) ∈ walkEdges pr.1 → ∀ e ∈ c.members k, e ∈ walkEdges p) ∧
      (∀ ab ∈ c.condEdges, (c.tailName ab.1, cname ab.2) ∈ walkEdges pr.1 → pr.2 ab ∈ walkEdges p) := by
    intro pr
    by_cases hpr : pr ∈ routes.zip chs
    · have h1 := hrs _ (List.of_mem_zip hpr).1
      have h2 := cwc_choice_of_live pr.2 (hcval _ (List.of_mem_zip hpr).2)
      obtain ⟨p, hp⟩ := cwc_lift_route hok hlive pr.2 h2 h1
      exact ⟨p, fun _ => hp⟩
    · exact ⟨[], fun h => absurd h hpr⟩
  obtain ⟨g, hg⟩ := Classical.axiomOfChoice hex
  refine ⟨(routes.zip chs).map g, by simp [hlen, hclen], ?_, ?_, fun x hx => by simp at hx⟩
  · intro p hp
    obtain ⟨pr, hpr, rfl⟩ := List.mem_map.1 hp
    exact (hg pr hpr).1
  · intro e he
    have hm := List.mem_filter.1 he
    have hni : e ∉ c.ignore := by simpa using hm.2
    have he1 := (hok.closed e hm.1).1
    by_cases hcomp : c.comp e.1 = c.comp e.2
    · -- a member edge of an SCC
      have hmem : e ∈ c.members (c.comp e.1) := cwc_mem_members.2 ⟨hm.1, rfl, hcomp.symm⟩
      have hk : c.comp e.1 ∈ c.condNodes := cwc_mem_condNodes.2 ⟨_, he1, rfl⟩
      have htriv : c.isTrivial (c.comp e.1) = false := by
        unfold isTrivial
        cases hM : c.members (c.comp e.1) with
        | nil => rw [hM] at hmem; simp at hmem
        | cons _ _ => rfl
      have hx : (cname (c.comp e.1), cexp (c.comp e.1)) ∈ c.expandedST.g.edges :=
        cwc_expanded_sub_expandedST hok (cwc_mem_expanded_edges.2 (Or.inl ⟨_, hk, htriv, rfl⟩))
      have hleft : (c.membersLeft (c.comp e.1)).isEmpty = false := by
        have : e ∈ c.membersLeft (c.comp e.1) := by
          unfold membersLeft
          exact List.mem_filter.2 ⟨hmem, hm.2⟩
        cases hM : c.membersLeft (c.comp e.1) with
        | nil => rw [hM] at this; simp at this
        | cons _ _ => rfl
      have h2 := hdem _ hx
      rw [cwc_weight_scc hw hk, hleft, hcount _ hx] at h2
      simp only [Bool.false_and, Bool.false_eq_true, if_false] at h2
      have hpos : 0 < (routes.filter fun r =>
          decide ((cname (c.comp e.1), cexp (c.comp e.1)) ∈ walkEdges r)).length := by
        have : (1 : Int).toNat = 1 := rfl
        omega
      obtain ⟨r, hr⟩ := List.exists_mem_of_length_pos hpos
      have hr' := List.mem_filter.1 hr
      have hrx : (cname (c.comp e.1), cexp (c.comp e.1)) ∈ walkEdges r := by simpa using hr'.2
      -- the pair of `r`
      obtain ⟨i, hi, hri⟩ := List.getElem_of_mem hr'.1
      have hi' : i < chs.length := by omega
      have hpr : (r, chs[i]) ∈ routes.zip chs := by
        rw [List.mem_iff_getElem]
        exact ⟨i, by simp; omega, by simp [hri]⟩
      exact ⟨g (r, chs[i]), List.mem_map.2 ⟨_, hpr, rfl⟩, (hg _ hpr).2.1 _ hrx e hmem⟩
    · -- an edge between two SCCs
      have hab : (c.comp e.1, c.comp e.2) ∈ c.condEdges := cwc_mem_condEdges.2 ⟨e, hm.1, hcomp, rfl⟩
      have hlv : e ∈ cwcLive c (c.comp e.1, c.comp e.2) := cwc_mem_live.2 ⟨⟨hm.1, hcomp, rfl⟩, hni⟩
      obtain ⟨pr, hpr, h1, h2⟩ := hccov _ e hlv
      refine ⟨g pr, List.mem_map.2 ⟨_, hpr, rfl⟩, ?_⟩
      have := (hg pr hpr).2.2 _ hab h1
      rw [h2] at this
      exact this

/-- every node lies on a source-to-sink walk: from the same fact for the edges, when no node is isolated -/
theorem cwc_nodes_live {c : CondInput}
    (hlive : ∀ e ∈ c.g.edges, Reach c.g.edges srcName e.1 ∧ Reach c.g.edges e.2 snkName)
    (hinc : ∀ v ∈ c.g.nodes, ∃ e ∈ c.g.edges, e.1 = v ∨ e.2 = v) :
    ∀ v ∈ c.g.nodes, Reach c.g.edges srcName v ∧ Reach c.g.edges v snkName := by
  intro v hv
  obtain ⟨e, he, h | h⟩ := hinc v hv
  · subst h
    exact ⟨(hlive e he).1, Reach.head (y := e.2) he (hlive e he).2⟩
  · subst h
    exact ⟨Reach.step (y := e.1) (hlive e he).1 he, (hlive e he).2⟩

/-- **cyclic T6**, with the hypotheses on the edges -/
theorem cwc_condensation_flow_to_walkcover (c : CondInput) (w d : List (Edge × Int)) (f : Edge → Nat)
    (cost : Nat)
    (hscc : ∀ u ∈ c.g.nodes, ∀ v ∈ c.g.nodes,
      c.comp u = c.comp v ↔ (Reach c.g.edges u v ∧ Reach c.g.edges v u))
    (hlive : ∀ e ∈ c.g.edges, Reach c.g.edges srcName e.1 ∧ Reach c.g.edges e.2 snkName)
    (hclosed : ∀ e ∈ c.g.edges, e.1 ∈ c.g.nodes ∧ e.2 ∈ c.g.nodes)
    (hinc : ∀ v ∈ c.g.nodes, ∃ e ∈ c.g.edges, e.1 = v ∨ e.2 = v)
    (hw : c.weightFunction = some w) (hd : c.demands = some d)
    (hf : CoveringFlow c.expandedST (fun e => (lookupD d e 0).toNat) f)
    (hcost : outN c.expandedST.g f c.expandedST.source = cost) :
    HasCover ⟨c.g, srcName, snkName⟩ (c.g.edges.filter fun e => !c.ignore.contains e) [] cost :=
  cwc_flow_to_walkcover c w d f cost ⟨hclosed, hscc⟩ (cwc_nodes_live hlive hinc) hw hd hf hcost

/-! ## checking the hypotheses on a concrete digraph with the executable reachability -/

/-- the SCC-labelling hypothesis, from a check with the model's `reachFrom` -/
theorem cwc_scc_of_reachFrom (c : CondInput)
    (hclosed : ∀ e ∈ c.g.edges, e.1 ∈ c.g.nodes ∧ e.2 ∈ c.g.nodes)
    (h : ∀ u ∈ c.g.nodes, ∀ v ∈ c.g.nodes,
      c.comp u = c.comp v ↔ (v ∈ reachFrom c.g u ∧ u ∈ reachFrom c.g v)) :
    ∀ u ∈ c.g.nodes, ∀ v ∈ c.g.nodes,
      c.comp u = c.comp v ↔ (Reach c.g.edges u v ∧ Reach c.g.edges v u) := by
  intro u hu v hv
  rw [h u hu v hv]
  constructor
  · exact fun ⟨h1, h2⟩ => ⟨reachFrom_sound _ _ _ h1, reachFrom_sound _ _ _ h2⟩
  · exact fun ⟨h1, h2⟩ => ⟨reachFrom_complete _ hclosed _ _ hu h1, reachFrom_complete _ hclosed _ _ hv h2⟩

/-- every edge lies on a source-to-sink walk, from a check with the model's `reachFrom` -/
theorem cwc_live_of_reachFrom (g : Graph)
    (h : ∀ e ∈ g.edges, e.1 ∈ reachFrom g srcName ∧ snkName ∈ reachFrom g e.2) :
    ∀ e ∈ g.edges, Reach g.edges srcName e.1 ∧ Reach g.edges e.2 snkName :=
  fun e he => ⟨reachFrom_sound _ _ _ (h e he).1, reachFrom_sound _ _ _ (h e he).2⟩

end FP
