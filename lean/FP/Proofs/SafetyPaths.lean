import FP.Model.SafetyDag
import FP.Spec.Safety
import FP.Proofs.SafetyWalk
/-!
# FP.Proofs.SafetyPaths — the univocal extension computed by `safe_paths` is forced
-/
namespace FP.Safety
open FP FP.Spec

theorem mem_pred {g : Graph} {x u : Node} : x ∈ g.pred u ↔ (x, u) ∈ g.edges := by
  unfold Graph.pred
  constructor
  · intro h
    obtain ⟨e, he, rfl⟩ := List.mem_map.1 h
    have := List.mem_filter.1 he
    have h2 : e.2 = u := by simpa using this.2
    rw [← h2]; exact this.1
  · intro h
    exact List.mem_map.2 ⟨(x, u), List.mem_filter.2 ⟨h, by simp⟩, rfl⟩

theorem mem_succ {g : Graph} {x u : Node} : x ∈ g.succ u ↔ (u, x) ∈ g.edges := by
  unfold Graph.succ
  constructor
  · intro h
    obtain ⟨e, he, rfl⟩ := List.mem_map.1 h
    have := List.mem_filter.1 he
    have h2 : e.1 = u := by simpa using this.2
    rw [← h2]; exact this.1
  · intro h
    exact List.mem_map.2 ⟨(u, x), List.mem_filter.2 ⟨h, by simp⟩, rfl⟩

theorem extendLeft_spec (g : Graph) (s : Node) (hs : g.pred s = []) :
    ∀ n u acc l, extendLeft g n u acc = some l →
      ∃ ext, l = acc ++ ext ∧ ∀ w1 : List Node, IsWalkIn g (w1 ++ [u]) → (w1 ++ [u]).head? = some s →
        ∃ w0 xs, w1 = w0 ++ xs ∧ walkEdges (xs ++ [u]) = ext.reverse := by
  intro n
  induction n with
  | zero => intro u acc l h; simp [extendLeft] at h
  | succ n ih =>
    intro u acc l h
    unfold extendLeft at h
    split at h
    · rename_i x hx
      obtain ⟨ext', hl, hp⟩ := ih x (acc ++ [(x, u)]) l h
      refine ⟨(x, u) :: ext', by rw [hl]; simp, ?_⟩
      intro w1 hw hh
      rcases List.eq_nil_or_concat w1 with rfl | ⟨w1', y, hc⟩
      · simp at hh; subst hh; rw [hs] at hx; simp at hx
      · rw [List.concat_eq_append] at hc; subst hc
        have hyu : (y, u) ∈ g.edges := hw _ (by
          rw [List.append_assoc]; exact mem_we_mid _ _ _ _)
        have : y ∈ g.pred u := mem_pred.2 hyu
        rw [hx] at this
        have hyx : y = x := by simpa using this
        subst hyx
        have hw' : IsWalkIn g (w1' ++ [y]) := fun e he => hw e (we_sub_append_right _ _ e he)
        have hh' : (w1' ++ [y]).head? = some s := by
          cases w1' <;> simpa using hh
        obtain ⟨w0, xs, h1, h2⟩ := hp w1' hw' hh'
        refine ⟨w0, xs ++ [y], by rw [h1]; simp, ?_⟩
        rw [we_concat (xs ++ [y]) y u (by simp), h2]; simp
    · injection h with h
      exact ⟨[], by simp [h], fun w1 _ _ => ⟨w1, [], by simp, by simp [we_single]⟩⟩

theorem extendRight_spec (g : Graph) (t : Node) (ht : g.succ t = []) :
    ∀ n v acc l, extendRight g n v acc = some l →
      ∃ ext, l = acc ++ ext ∧ ∀ w2 : List Node, IsWalkIn g (v :: w2) → (v :: w2).getLast? = some t →
        ∃ ys w3, w2 = ys ++ w3 ∧ walkEdges (v :: ys) = ext := by
  intro n
  induction n with
  | zero => intro v acc l h; simp [extendRight] at h
  | succ n ih =>
    intro v acc l h
    unfold extendRight at h
    split at h
    · rename_i x hx
      obtain ⟨ext', hl, hp⟩ := ih x (acc ++ [(v, x)]) l h
      refine ⟨(v, x) :: ext', by rw [hl]; simp, ?_⟩
      intro w2 hw hh
      cases w2 with
      | nil => simp at hh; subst hh; rw [ht] at hx; simp at hx
      | cons y w2 =>
        have hvy : (v, y) ∈ g.edges := hw _ (by rw [we_cons_cons]; simp)
        have : y ∈ g.succ v := mem_succ.2 hvy
        rw [hx] at this
        have hyx : y = x := by simpa using this
        subst hyx
        have hw' : IsWalkIn g (y :: w2) := fun e he => hw e (by rw [we_cons_cons]; exact List.mem_cons_of_mem _ he)
        have hh' : (y :: w2).getLast? = some t := by simpa [List.getLast?_cons_cons] using hh
        obtain ⟨ys, w3, h1, h2⟩ := hp w2 hw' hh'
        exact ⟨y :: ys, w3, by rw [h1]; simp, by rw [we_cons_cons, h2]⟩
    · injection h with h
      exact ⟨[], by simp [h], fun w2 _ _ => ⟨[], w2, by simp, by simp [we_single]⟩⟩

/-- every source-to-sink walk through `e` contains the whole output of `process_edge(e)` as a contiguous piece -/
theorem safePathOf_forced (g : Graph) (s t : Node) (hs : g.pred s = []) (ht : g.succ t = [])
    (e : Edge) (p : List Edge) (h : safePathOf g e = .ok p) :
    ∀ w, IsSTWalkG g s t w → e ∈ walkEdges w → p <:+: walkEdges w := by
  intro w hw he
  unfold safePathOf at h
  split at h
  · cases h
  · rename_i l hl
    split at h
    · cases h
    · rename_i p' hr
      injection h with h; subst h
      obtain ⟨extL, hlL, hpL⟩ := extendLeft_spec g s hs _ _ _ _ hl
      obtain ⟨extR, hlR, hpR⟩ := extendRight_spec g t ht _ _ _ _ hr
      obtain ⟨w1, w2, rfl⟩ := mem_we_split he
      have hwL : IsWalkIn g (w1 ++ [e.1]) := fun x hx => hw.walk x (by
        have : w1 ++ e.1 :: e.2 :: w2 = (w1 ++ [e.1]) ++ (e.2 :: w2) := by simp
        rw [this]; exact we_sub_append_right _ _ x hx)
      have hhL : (w1 ++ [e.1]).head? = some s := by
        have := hw.first
        cases w1 <;> simpa using this
      obtain ⟨w0, xs, h1, h2⟩ := hpL w1 hwL hhL
      have hwR : IsWalkIn g (e.2 :: w2) := fun x hx => hw.walk x (by
        have : w1 ++ e.1 :: e.2 :: w2 = (w1 ++ [e.1]) ++ (e.2 :: w2) := by simp
        rw [this]; exact we_sub_append_left _ _ x hx)
      have hhR : (e.2 :: w2).getLast? = some t := by
        have := hw.last
        have h5 : w1 ++ e.1 :: e.2 :: w2 = (w1 ++ [e.1]) ++ (e.2 :: w2) := by simp
        rw [h5, List.getLast?_append] at this
        cases hq : (e.2 :: w2).getLast? with
        | none => simp at hq
        | some z => rw [hq] at this; simpa using this
      obtain ⟨ys, w3, h3, h4⟩ := hpR w2 hwR hhR
      have hp : p' = walkEdges (xs ++ e.1 :: e.2 :: ys) := by
        rw [hlR, hlL, we_append_cons, we_cons_cons, h2, h4]; simp
      have hwd : w1 ++ e.1 :: e.2 :: w2 = w0 ++ (xs ++ e.1 :: e.2 :: ys) ++ w3 := by
        rw [h1, h3]; simp
      rw [hp, hwd]
      exact we_infix _ _ _

end FP.Safety
