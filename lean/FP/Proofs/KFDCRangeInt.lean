import FP.Proofs.KFDCRangeWalks
import FP.Proofs.KFDCWalks
/-!
# FP.Proofs.KFDCRangeInt — the search range `k ≤ |E|` of `MinFlowDecompCycles.solve` is adequate for
plain integer instances

Plain instance: `weight_type = int`, no additional starts/ends (edge mode), nothing ignored, every edge
of the user's graph carries the flow attribute, no subset constraints. If the k-model is satisfiable for
some `k`, it is satisfiable for some `j ≤ |E(G)|` (`kfdcr_range_int`):

1. a satisfying assignment decodes to `k` walks with natural weights (`kfdc_exact_proof`); layers of
   weight `0`, empty layers and layers through no edge of the user's graph contribute nothing;
2. `kfdcr_few_walks` replaces the remaining walks by at most `|E|` walks with positive integer weights
   and the same weighted traversal counts;
3. walks with weights `≥ 1` are within all caps and `w_max` (`within_of_int`), hence represented by a
   satisfying assignment (`feasible_of_walks`); if no walk is left, all flow values are `0` and the model
   without layers is satisfiable (`kfdcr_feasible_zero`).
-/
namespace FP
open FP.Spec FP.Euler FP.Search

/-! ## small facts -/

theorem kfdcr_sum_filter_zero {α} (l : List α) (p : α → Bool) (f : α → Nat)
    (h : ∀ x ∈ l, p x = false → f x = 0) : ((l.filter p).map f).sum = (l.map f).sum := by
  induction l with
  | nil => rfl
  | cons x xs ih =>
    have ih' := ih (fun y hy => h y (by simp [hy]))
    by_cases hp : p x = true
    · simp only [List.filter_cons, hp, if_true, List.map_cons, List.sum_cons, ih']
    · have hp' : p x = false := by simpa using hp
      simp only [List.filter_cons, hp', Bool.false_eq_true, if_false, List.map_cons, List.sum_cons, ih',
        h x (by simp) hp']
      omega

/-- the k-model without layers is satisfiable when there is nothing to explain -/
theorem kfdcr_feasible_zero (inp : WalkInput) (hcons : inp.cfg.constraints = [])
    (hzero : ∀ e ∈ inp.activeEdges false, inp.f e = 0) : KfdcFeasible inp 0 := by
  refine ⟨fun _ => 0, ?_, ?_⟩
  · intro c hc
    simp [kfdcLP, walkCore, encodeWalks, subsetBlock, LP.append, WalkInput.withK, WalkInput.k, walkProducts,
      hcons] at hc
  · intro r hr
    simp [kfdcLP, walkCore, encodeWalks, subsetBlock, LP.append, WalkInput.withK, WalkInput.k, walkProducts,
      hcons] at hr
    obtain ⟨u, v, he, rfl⟩ := hr
    have h0 := hzero (u, v) he
    show Row.holds (fun _ => 0) (rowEq (ones [] (piVar (u, v))) (inp.f (u, v)))
    rw [h0]
    simp [Row.holds, rowEq, ones, evalTerms]

/-- a layer of a satisfying assignment is a walk of the augmented graph, or it runs through no edge -/
theorem kfdcr_layer_walk (s : STGraph) (c : WalkCfg) (ub : Edge → Rat) (a : Asg) (hwf : STWFc s)
    (hsat : Sat a (encodeWalks s c ub)) (i : Nat) (hi : i < c.k) :
    IsWalkIn s.g (s.source :: decodeWalkLayer s a i ++ [s.sink]) ∨
    ∀ e ∈ s.g.edges, traversals (s.source :: decodeWalkLayer s a i ++ [s.sink]) e = 0 := by
  obtain ⟨_, hempty, hwalk⟩ := walkcore_sound s c ub a hwf hsat i hi
  by_cases hex : ∃ v ∈ s.g.succ s.source, multOf a i (s.source, v) ≠ 0
  · left
    intro e he
    have h1 := hwalk hex e
    have h2 : 0 < traversals (s.source :: decodeWalkLayer s a i ++ [s.sink]) e := List.count_pos_iff.2 he
    by_cases hm : e ∈ s.g.edges
    · exact hm
    · rw [if_neg hm] at h1; omega
  · right
    have h0 : ∀ v ∈ s.g.succ s.source, multOf a i (s.source, v) = 0 := by
      intro v hv
      apply Classical.byContradiction
      intro hm
      exact hex ⟨v, hv, hm⟩
    obtain ⟨_, hnil, _⟩ := hempty h0
    intro e he
    rw [hnil]
    unfold traversals
    apply List.count_eq_zero.2
    have : e ≠ (s.source, s.sink) := fun h => hwf.noDirect (h ▸ he)
    simpa [walkEdges] using this

/-- a natural number below a flow value of a non-ignored edge is below `w_max` of every k-model with at
least one layer (`weight_type = int`) -/
theorem kfdcr_le_wmax (inp : WalkInput) (hint : inp.weightInt = true) (j : Nat) (hj : 1 ≤ j) (n : Nat)
    (e : Edge) (he : e ∈ inp.activeEdges false) (h : (n : Rat) ≤ inp.f e) :
    (n : Rat) ≤ (inp.withK j).wmax false := by
  have hM : inp.f e ≤ listMax ((inp.activeEdges false).map inp.f) :=
    le_listMax _ _ (List.mem_map.2 ⟨e, he, rfl⟩)
  generalize hMdef : listMax ((inp.activeEdges false).map inp.f) = M at hM
  have hw : (inp.withK j).wmax false = (j : Rat) * (M.floor : Rat) := by
    show ((inp.withK j).k : Rat) * (if (inp.withK j).weightInt then
      ((listMax (((inp.withK j).activeEdges false).map (inp.withK j).f)).floor : Rat)
      else listMax (((inp.withK j).activeEdges false).map (inp.withK j).f)) = _
    have h1 : (inp.withK j).weightInt = true := hint
    have h2 : listMax (((inp.withK j).activeEdges false).map (inp.withK j).f) = M := hMdef
    rw [h1, h2]; rfl
  rw [hw]
  have hnM : ((n : Int) : Rat) ≤ M := by rw [Rat.intCast_natCast]; exact Rat.le_trans h hM
  have hfl : (n : Int) ≤ M.floor := Rat.le_floor_iff.2 hnM
  obtain ⟨j', rfl⟩ : ∃ j', j = j' + 1 := ⟨j - 1, by omega⟩
  have hF0 : (0 : Int) ≤ M.floor := by omega
  have hmul : (0 : Int) ≤ (j' : Int) * M.floor := Int.mul_nonneg (by omega) hF0
  have hint' : (n : Int) ≤ ((j' + 1 : Nat) : Int) * M.floor := by
    have : ((j' + 1 : Nat) : Int) * M.floor = (j' : Int) * M.floor + M.floor := by
      rw [Int.natCast_add, Int.add_mul]; simp
    omega
  have hcast := Rat.intCast_le_intCast.2 hint'
  rw [Rat.intCast_mul, Rat.intCast_natCast, Rat.intCast_natCast] at hcast
  exact hcast

/-! ## the theorem -/

theorem kfdcr_thin (inp : WalkInput) (hb : BaseWF inp.base) (hst : inp.starts = []) (hen : inp.ends = []) :
    Thin inp.st := by
  let fi : FlowInput := { base := inp.base, flow := [], starts := inp.starts, ends := inp.ends, cfg := { k := 0 } }
  exact thin_st (inp := fi) hb hst hen

/-- without ignored edges the non-ignored edges are the base edges of the augmented graph -/
theorem kfdcr_active_iff (inp : WalkInput) (hb : BaseWF inp.base) (hign : inp.ignore = []) (e : Edge) :
    e ∈ inp.activeEdges false ↔ e ∈ inp.st.g.edges ∧ kfdcr_isBase inp.st e = true := by
  have hwf : STWFc inp.st := augment_wfc inp.base inp.starts inp.ends hb
  simp [WalkInput.activeEdges, WalkInput.ignored, STGraph.sourceSinkEdges, STGraph.sourceEdges, STGraph.sinkEdges,
    Graph.outEdges, Graph.inEdges, hign, kfdcr_isBase]
  intro he
  have h3 := hwf.snkNoOut e he
  constructor
  · rintro ⟨h1, h2⟩
    exact ⟨⟨fun h => (h1.resolve_left (fun hn => hn he)) h, fun h => (h2.resolve_left (fun hn => hn he)) h⟩, h3⟩
  · rintro ⟨⟨h1, h2⟩, _⟩
    exact ⟨Or.inr h1, Or.inr h2⟩

theorem kfdcr_inner_le (inp : WalkInput) (hb : BaseWF inp.base) : (inp.st.g.edges.filter (isInner inp.st)).length ≤ inp.base.edges.length := by
  have hwf : STWFc inp.st := augment_wfc inp.base inp.starts inp.ends hb
  let fi : FlowInput := { base := inp.base, flow := [], starts := inp.starts, ends := inp.ends, cfg := { k := 0 } }
  have hnd : (inp.st.g.edges.filter (isInner inp.st)).Nodup := hwf.edgesNodup.filter _
  apply hnd.length_le_of_subset
  intro e he
  obtain ⟨h1, h2⟩ := List.mem_filter.1 he
  exact inner_is_base (inp := fi) hb e h1 h2

section Range
variable (inp : WalkInput) (hb : BaseWF inp.base) (hst : inp.starts = []) (hen : inp.ends = [])
  (hign : inp.ignore = [])
include hb hst hen hign

/-- **a flow that `k` weighted walks explain is explained by at most `|E|` walks with positive integer
weights** (plain instance: no additional starts/ends, nothing ignored). `p i` are the inner vertex
sequences, `c i` natural weights; a layer may also be degenerate (running through no edge at all). -/
theorem kfdcr_decomp_few (k : Nat) (p : Nat → List Node) (c : Nat → Nat)
    (hlayer : ∀ i, i < k → IsWalkIn inp.st.g (inp.st.source :: p i ++ [inp.st.sink]) ∨
      ∀ e ∈ inp.st.g.edges, traversals (inp.st.source :: p i ++ [inp.st.sink]) e = 0)
    (hdec : IsWalkDecomp inp.st.source inp.st.sink (inp.activeEdges false) inp.f k p (fun i => (c i : Rat))) :
    ∃ A : List (List Node × Nat), A.length ≤ inp.base.edges.length ∧ (∀ d ∈ A, kfdcr_AWalk inp.st d) ∧
      ∀ e ∈ inp.activeEdges false, inp.f e = ((kfdcr_tot A e : Nat) : Rat) := by
  have hwf : STWFc inp.st := augment_wfc inp.base inp.starts inp.ends hb
  have hth : Thin inp.st := kfdcr_thin inp hb hst hen
  let L : Nat → List Node := fun i => inp.st.source :: p i ++ [inp.st.sink]
  let Fall : List (List Node × Nat) := (List.range k).map fun i => (L i, c i)
  let keep : List Node × Nat → Bool := fun d =>
    decide (1 ≤ d.2) && (walkEdges d.1).all (fun e => decide (e ∈ inp.st.g.edges))
      && (walkEdges d.1).any (kfdcr_isBase inp.st)
  let F := Fall.filter keep
  have hF : ∀ d ∈ F, kfdcr_AWalk inp.st d := by
    intro d hd
    obtain ⟨hdA, hk⟩ := List.mem_filter.1 hd
    obtain ⟨i, _, rfl⟩ := List.mem_map.1 hdA
    simp only [keep, Bool.and_eq_true, decide_eq_true_eq, List.all_eq_true, List.any_eq_true] at hk
    exact ⟨hk.1.1, ⟨p i, rfl⟩, hk.1.2, hk.2⟩
  -- the flow values are the weighted traversal counts of the family
  have hflow : ∀ e ∈ inp.activeEdges false, inp.f e = ((kfdcr_tot F e : Nat) : Rat) := by
    intro e he
    obtain ⟨heE, hbase⟩ := (kfdcr_active_iff inp hb hign e).1 he
    have h1 : kfdcr_tot F e = kfdcr_tot Fall e := by
      unfold kfdcr_tot
      apply kfdcr_sum_filter_zero
      intro d hd hk
      obtain ⟨i, hi, rfl⟩ := List.mem_map.1 hd
      have hi' : i < k := List.mem_range.1 hi
      show c i * traversals (L i) e = 0
      by_cases hc0 : c i = 0
      · rw [hc0, Nat.zero_mul]
      · have : traversals (L i) e = 0 := by
          rcases hlayer i hi' with hW | hz
          · -- a walk: then it has no base edge
            apply List.count_eq_zero.2
            intro hmem
            have : keep (L i, c i) = true := by
              simp only [keep, Bool.and_eq_true, decide_eq_true_eq, List.all_eq_true, List.any_eq_true]
              exact ⟨⟨by omega, fun e' he' => hW e' he'⟩, e, hmem, hbase⟩
            rw [this] at hk; cases hk
          · exact hz e heE
        rw [this, Nat.mul_zero]
    rw [h1, ← hdec e he]
    unfold walkExplained kfdcr_tot
    rw [natCast_sum, List.map_map]
    apply sum_map_congr
    intro i _
    show (c i : Rat) * ((traversals (L i) e : Nat) : Rat) = ((c i * traversals (L i) e : Nat) : Rat)
    rw [Rat.natCast_mul]
  -- few walks
  obtain ⟨A, hAlen, hA, hAtot⟩ := kfdcr_few_walks hwf hth F hF
  refine ⟨A, Nat.le_trans hAlen (kfdcr_inner_le inp hb), hA, ?_⟩
  intro e he
  rw [hflow e he, hAtot e ((kfdcr_active_iff inp hb hign e).1 he).1]

omit hb hst hen hign in
/-- a family of walks as functions of the layer index -/
theorem kfdcr_family_decomp (A : List (List Node × Nat)) (hA : ∀ d ∈ A, kfdcr_AWalk inp.st d)
    (hflowA : ∀ e ∈ inp.activeEdges false, inp.f e = ((kfdcr_tot A e : Nat) : Rat)) :
    ∃ (walk : Nat → List Node) (n : Nat → Nat),
      (∀ i, i < A.length → 1 ≤ n i ∧ IsWalkIn inp.st.g (inp.st.source :: walk i ++ [inp.st.sink]) ∧
        ∃ d ∈ A, d = (inp.st.source :: walk i ++ [inp.st.sink], n i)) ∧
      IsWalkDecomp inp.st.source inp.st.sink (inp.activeEdges false) inp.f A.length walk (fun i => (n i : Rat)) := by
  let d0 : List Node × Nat := ([], 0)
  have hget : ∀ i, i < A.length → A.getD i d0 ∈ A := by
    intro i hi
    rw [List.getD_eq_getElem?_getD, List.getElem?_eq_getElem hi]
    exact List.getElem_mem hi
  have hwalkEq : ∀ d ∈ A, inp.st.source :: d.1.tail.dropLast ++ [inp.st.sink] = d.1 := by
    intro d hd
    obtain ⟨_, ⟨p, hp⟩, _, _⟩ := hA d hd
    rw [hp]
    have : (inp.st.source :: p ++ [inp.st.sink]).tail = p ++ [inp.st.sink] := rfl
    rw [this, List.dropLast_concat]
  refine ⟨fun i => ((A.getD i d0).1).tail.dropLast, fun i => (A.getD i d0).2, ?_, ?_⟩
  · intro i hi
    have hm := hget i hi
    refine ⟨(hA _ hm).1, ?_, A.getD i d0, hm, ?_⟩
    · show IsWalkIn inp.st.g (inp.st.source :: (A.getD i d0).1.tail.dropLast ++ [inp.st.sink])
      rw [hwalkEq _ hm]; exact (hA _ hm).2.2.1
    · show A.getD i d0 = (inp.st.source :: (A.getD i d0).1.tail.dropLast ++ [inp.st.sink], (A.getD i d0).2)
      rw [hwalkEq _ hm]
  · intro e he
    rw [hflowA e he]
    unfold walkExplained kfdcr_tot
    rw [natCast_sum]
    have := map_range_getD A d0 (fun d => ((d.2 : Nat) : Rat)
      * ((traversals (inp.st.source :: d.1.tail.dropLast ++ [inp.st.sink]) e : Nat) : Rat))
    rw [this]
    apply sum_map_congr
    intro d hd
    rw [hwalkEq d hd, Rat.natCast_mul]

/-- **the classical statement, on the level of walks.** On a plain instance (no additional starts/ends,
nothing ignored), `k` source-to-sink walks with natural weights that decompose the flow on the edges of
the user's graph can be replaced by `j ≤ |E(G)|` source-to-sink walks with positive integer weights that
decompose it. -/
theorem kfdcr_walks_le_edges (k : Nat) (walk : Nat → List Node) (c : Nat → Nat)
    (hwalk : ∀ i, i < k → IsWalkIn inp.st.g (inp.st.source :: walk i ++ [inp.st.sink]))
    (hdec : IsWalkDecomp inp.st.source inp.st.sink (inp.activeEdges false) inp.f k walk (fun i => (c i : Rat))) :
    ∃ (j : Nat) (walk' : Nat → List Node) (n : Nat → Nat), j ≤ inp.base.edges.length ∧
      (∀ i, i < j → 1 ≤ n i ∧ IsWalkIn inp.st.g (inp.st.source :: walk' i ++ [inp.st.sink])) ∧
      IsWalkDecomp inp.st.source inp.st.sink (inp.activeEdges false) inp.f j walk' (fun i => (n i : Rat)) := by
  obtain ⟨A, hAle, hA, hflowA⟩ := kfdcr_decomp_few inp hb hst hen hign k walk c
    (fun i hi => Or.inl (hwalk i hi)) hdec
  obtain ⟨walk', n, h1, h2⟩ := kfdcr_family_decomp inp A hA hflowA
  exact ⟨A.length, walk', n, hAle, fun i hi => ⟨(h1 i hi).1, (h1 i hi).2.1⟩, h2⟩

/-- **the range theorem for plain integer instances** -/
theorem kfdcr_range_int (hint : inp.weightInt = true) (hcons : inp.cfg.constraints = [])
    (hattr : ∀ e ∈ inp.base.edges, ∃ q, inp.fOpt e = some q)
    (hinj : ∀ j, j ≤ inp.base.edges.length → NameInj (inp.withK j)) (k : Nat) (hf : KfdcFeasible inp k) :
    ∃ j, j ≤ inp.base.edges.length ∧ KfdcFeasible inp j := by
  have hwf : STWFc inp.st := augment_wfc inp.base inp.starts inp.ends hb
  obtain ⟨a, ha⟩ := hf
  obtain ⟨hw, _, hdec⟩ := kfdc_exact_proof (inp.withK k) none a hb ha
  have henc : Sat a (encodeWalks inp.st (inp.withK k).cfg (kfdcCap (inp.withK k))) :=
    sat_enc_of_base (sat_kfdc_base (inp.withK k) none a ha)
  let c : Nat → Nat := fun i => (a (weightsVar i)).floor.toNat
  have hc : ∀ i, i < k → a (weightsVar i) = (c i : Rat) :=
    fun i hi => nat_of_int_nonneg _ (hw i hi).1 ((hw i hi).2.2 hint)
  have hdec' : IsWalkDecomp inp.st.source inp.st.sink (inp.activeEdges false) inp.f k
      (decodeWalkLayer inp.st a) (fun i => (c i : Rat)) := by
    intro e he
    have hd : walkExplained inp.st.source inp.st.sink k (decodeWalkLayer inp.st a) (fun i => a (weightsVar i)) e
        = inp.f e := hdec e he
    rw [← hd]
    unfold walkExplained
    apply sum_map_congr
    intro i hi
    show (c i : Rat) * _ = a (weightsVar i) * _
    rw [hc i (List.mem_range.1 hi)]
  obtain ⟨A, hAle, hA, hflowA⟩ := kfdcr_decomp_few inp hb hst hen hign k (decodeWalkLayer inp.st a) c
    (fun i hi => kfdcr_layer_walk inp.st (inp.withK k).cfg _ a hwf henc i hi) hdec'
  refine ⟨A.length, hAle, ?_⟩
  by_cases hj0 : A.length = 0
  · have hA0 : A = [] := List.eq_nil_of_length_eq_zero hj0
    rw [hj0]
    apply kfdcr_feasible_zero inp hcons
    intro e he
    rw [hflowA e he, hA0]; rfl
  · have hj1 : 1 ≤ A.length := by omega
    obtain ⟨walk, n, hfam, hdecA⟩ := kfdcr_family_decomp inp A hA hflowA
    have hwd : WalkDecompWithin (inp.withK A.length) walk (fun i => (n i : Rat)) := by
      apply within_of_int (inp.withK A.length) walk _ hb
        (caps_are_flows (inp.withK A.length) hb hign hattr)
      · intro i hi
        exact (hfam i hi).2.1
      · intro i hi
        have hi' : i < A.length := hi
        obtain ⟨h1, _, d, hdA, hdeq⟩ := hfam i hi'
        obtain ⟨_, _, hW, eb, heb, hbase⟩ := hA d hdA
        refine ⟨?_, ?_, fun _ => ⟨(n i : Int), (Rat.intCast_natCast _).symm⟩⟩
        · have : ((1 : Nat) : Rat) ≤ ((n i : Nat) : Rat) := Rat.natCast_le_natCast.2 h1
          simpa using this
        · have hact : eb ∈ inp.activeEdges false :=
            (kfdcr_active_iff inp hb hign eb).2 ⟨hW eb heb, hbase⟩
          apply kfdcr_le_wmax inp hint A.length hj1 _ eb hact
          rw [hflowA eb hact]
          apply Rat.natCast_le_natCast.2
          have h2 := kfdcr_le_tot hdA eb
          have h3 : 0 < traversals d.1 eb := List.count_pos_iff.2 heb
          have h4 : d.2 * 1 ≤ d.2 * traversals d.1 eb := Nat.mul_le_mul_left _ h3
          have h5 : d.2 = n i := by rw [hdeq]
          omega
      · intro e he
        have : (inp.withK A.length).f e = inp.f e := rfl
        rw [this, hflowA e he]
        exact kfdcr_le_wmax inp hint A.length hj1 _ e he (by rw [hflowA e he]; exact Rat.le_refl)
      · exact hdecA
      · intro cidx hcidx
        have : (inp.withK A.length).cfg.constraints.length = 0 := by
          show inp.cfg.constraints.length = 0
          rw [hcons]; rfl
        omega
    exact feasible_of_walks inp A.length walk _ hb hj1 (hinj A.length hAle) hwd

end Range

end FP
