import FP.Proofs.CondWalkCoverNames
import FP.Proofs.PathCore
import FP.Proofs.ReachLemmas
/-!
# FP.Proofs.CondWalkCoverGraph — the expanded condensation is a well-formed s-t DAG; its demands

For a digraph whose edges join nodes of the graph and a labelling that is the SCC labelling:
`c.expanded` is well-formed and acyclic (`cwc_expandedST_wf`), the demand `stDiGraph.get_width` puts
on a condensation edge is its multiplicity and on an SCC edge with a surviving member edge is 1, and
with a duplicate-free ignore list the multiplicity bounds the number of distinct parallel edges that
are not ignored (`cwc_live_le_mult`).
-/
namespace FP
open FP.Spec CondInput

/-- the assumptions on the digraph and its labelling -/
structure CwcOK (c : CondInput) : Prop where
  /-- edges join nodes of the graph (always true of a networkx graph) -/
  closed : ∀ e ∈ c.g.edges, e.1 ∈ c.g.nodes ∧ e.2 ∈ c.g.nodes
  /-- the labelling is the SCC labelling -/
  scc : ∀ u ∈ c.g.nodes, ∀ v ∈ c.g.nodes,
    c.comp u = c.comp v ↔ (Reach c.g.edges u v ∧ Reach c.g.edges v u)

section Basic
variable {c : CondInput}

theorem cwc_mem_condNodes {k : Nat} : k ∈ c.condNodes ↔ ∃ v ∈ c.g.nodes, c.comp v = k := by
  unfold condNodes
  rw [List.mem_eraseDups, List.mem_map]

theorem cwc_condNodes_nodup : c.condNodes.Nodup := cwc_nodup_eraseDups _

theorem cwc_mem_members {k : Nat} {e : Edge} :
    e ∈ c.members k ↔ e ∈ c.g.edges ∧ c.comp e.1 = k ∧ c.comp e.2 = k := by
  unfold members
  simp [List.mem_filter]

theorem cwc_mem_interEdges {e : Edge} :
    e ∈ c.interEdges ↔ e ∈ c.g.edges ∧ c.comp e.1 ≠ c.comp e.2 := by
  unfold interEdges
  simp [List.mem_filter]

theorem cwc_mem_condEdges {ab : Nat × Nat} :
    ab ∈ c.condEdges ↔ ∃ e ∈ c.g.edges, c.comp e.1 ≠ c.comp e.2 ∧ (c.comp e.1, c.comp e.2) = ab := by
  unfold condEdges
  rw [List.mem_eraseDups, List.mem_map]
  constructor
  · rintro ⟨e, he, rfl⟩
    have := cwc_mem_interEdges.1 he
    exact ⟨e, this.1, this.2, rfl⟩
  · rintro ⟨e, he, hne, rfl⟩
    exact ⟨e, cwc_mem_interEdges.2 ⟨he, hne⟩, rfl⟩

theorem cwc_condEdges_nodup : c.condEdges.Nodup := cwc_nodup_eraseDups _

theorem cwc_tailName_cases (k : Nat) :
    (c.isTrivial k = true ∧ c.tailName k = cname k) ∨ (c.isTrivial k = false ∧ c.tailName k = cexp k) := by
  unfold tailName
  cases h : c.isTrivial k <;> simp

theorem cwc_tailName_inj {a b : Nat} (h : c.tailName a = c.tailName b) : a = b := by
  rcases cwc_tailName_cases (c := c) a with ⟨_, h1⟩ | ⟨_, h1⟩ <;>
    rcases cwc_tailName_cases (c := c) b with ⟨_, h2⟩ | ⟨_, h2⟩ <;> rw [h1, h2] at h
  · exact cwc_cname_inj h
  · exact absurd h (cwc_cname_ne_cexp _ _)
  · exact absurd h.symm (cwc_cname_ne_cexp _ _)
  · exact cwc_cexp_inj h

theorem cwc_tailName_ne_src (k : Nat) : c.tailName k ≠ srcName := by
  rcases cwc_tailName_cases (c := c) k with ⟨_, h1⟩ | ⟨_, h1⟩ <;> rw [h1]
  · exact cwc_cname_ne_src k
  · exact cwc_cexp_ne_src k

theorem cwc_tailName_ne_snk (k : Nat) : c.tailName k ≠ snkName := by
  rcases cwc_tailName_cases (c := c) k with ⟨_, h1⟩ | ⟨_, h1⟩ <;> rw [h1]
  · exact cwc_cname_ne_snk k
  · exact cwc_cexp_ne_snk k

/-- the node of the condensation an expanded node belongs to -/
theorem cwc_tailName_eq {a k : Nat} {x : Node} (hx : x = cname k ∨ x = cexp k)
    (h : x = c.tailName a) : k = a := by
  rcases cwc_tailName_cases (c := c) a with ⟨_, h1⟩ | ⟨_, h1⟩ <;> rw [h1] at h <;>
    rcases hx with rfl | rfl
  · exact cwc_cname_inj h
  · exact absurd h.symm (cwc_cname_ne_cexp _ _)
  · exact absurd h (cwc_cname_ne_cexp _ _)
  · exact cwc_cexp_inj h

theorem cwc_mem_expanded_edges {e : Edge} :
    e ∈ c.expanded.edges ↔
      (∃ k ∈ c.condNodes, c.isTrivial k = false ∧ e = (cname k, cexp k)) ∨
      (∃ ab ∈ c.condEdges, e = (c.tailName ab.1, cname ab.2)) := by
  unfold expanded
  simp only [List.mem_append, List.mem_map, List.mem_filter]
  constructor
  · rintro (⟨k, ⟨hk, ht⟩, rfl⟩ | ⟨ab, hab, rfl⟩)
    · exact Or.inl ⟨k, hk, by simpa using ht, rfl⟩
    · exact Or.inr ⟨ab, hab, rfl⟩
  · rintro (⟨k, hk, ht, rfl⟩ | ⟨ab, hab, rfl⟩)
    · exact Or.inl ⟨k, ⟨hk, by simp [ht]⟩, rfl⟩
    · exact Or.inr ⟨ab, hab, rfl⟩

theorem cwc_mem_expanded_nodes {x : Node} :
    x ∈ c.expanded.nodes ↔
      ∃ k ∈ c.condNodes, x = cname k ∨ (c.isTrivial k = false ∧ x = cexp k) := by
  unfold expanded
  simp only [List.mem_flatMap]
  constructor
  · rintro ⟨k, hk, hx⟩
    refine ⟨k, hk, ?_⟩
    cases ht : c.isTrivial k <;> simp [ht] at hx
    · rcases hx with rfl | rfl
      · exact Or.inl rfl
      · exact Or.inr ⟨rfl, rfl⟩
    · exact Or.inl hx
  · rintro ⟨k, hk, hx⟩
    refine ⟨k, hk, ?_⟩
    rcases hx with rfl | ⟨ht, rfl⟩
    · cases ht : c.isTrivial k <;> simp
    · simp [ht]

end Basic

/-! ## well-formedness of the expanded condensation -/

theorem cwc_expanded_basewf {c : CondInput} (hcl : ∀ e ∈ c.g.edges, e.1 ∈ c.g.nodes ∧ e.2 ∈ c.g.nodes) :
    BaseWF c.expanded where
  edgesNodup := by
    unfold expanded
    simp only
    apply List.nodup_append.2
    refine ⟨?_, ?_, ?_⟩
    · apply List.Pairwise.map _ _ (List.Pairwise.filter _ cwc_condNodes_nodup)
      intro a b hab h
      exact hab (cwc_cname_inj (congrArg Prod.fst h))
    · apply List.Pairwise.map _ _ cwc_condEdges_nodup
      intro a b hab h
      apply hab
      have h1 := cwc_tailName_inj (congrArg Prod.fst h)
      have h2 := cwc_cname_inj (congrArg Prod.snd h)
      exact Prod.ext h1 h2
    · intro x hx y hy hxy
      obtain ⟨k, _, rfl⟩ := List.mem_map.1 hx
      obtain ⟨ab, _, rfl⟩ := List.mem_map.1 hy
      exact cwc_cname_ne_cexp _ _ (congrArg Prod.snd hxy).symm
  nodesNodup := by
    unfold expanded
    simp only
    apply List.pairwise_flatMap.2
    refine ⟨?_, ?_⟩
    · intro k _
      split
      · simp
      · simp [cwc_cname_ne_cexp]
    · apply List.Pairwise.imp _ cwc_condNodes_nodup
      intro k1 k2 hne x hx y hy hxy
      subst hxy
      have h1 : x = cname k1 ∨ x = cexp k1 := by
        split at hx <;> simp at hx <;> grind
      have h2 : x = cname k2 ∨ x = cexp k2 := by
        split at hy <;> simp at hy <;> grind
      rcases h1 with rfl | rfl <;> rcases h2 with h2 | h2
      · exact hne (cwc_cname_inj h2)
      · exact cwc_cname_ne_cexp _ _ h2
      · exact cwc_cname_ne_cexp _ _ h2.symm
      · exact hne (cwc_cexp_inj h2)
  closed := by
    intro e he
    rw [cwc_mem_expanded_nodes, cwc_mem_expanded_nodes]
    rcases cwc_mem_expanded_edges.1 he with ⟨k, hk, ht, rfl⟩ | ⟨ab, hab, rfl⟩
    · exact ⟨⟨k, hk, Or.inl rfl⟩, ⟨k, hk, Or.inr ⟨ht, rfl⟩⟩⟩
    · obtain ⟨e', he', _, rfl⟩ := cwc_mem_condEdges.1 hab
      have h1 : c.comp e'.1 ∈ c.condNodes := cwc_mem_condNodes.2 ⟨_, (hcl e' he').1, rfl⟩
      have h2 : c.comp e'.2 ∈ c.condNodes := cwc_mem_condNodes.2 ⟨_, (hcl e' he').2, rfl⟩
      refine ⟨⟨_, h1, ?_⟩, ⟨_, h2, Or.inl rfl⟩⟩
      rcases cwc_tailName_cases (c := c) (c.comp e'.1) with ⟨_, h⟩ | ⟨ht, h⟩
      · exact Or.inl h
      · exact Or.inr ⟨ht, h⟩
  freshSrc := by
    intro h
    obtain ⟨k, _, h | ⟨_, h⟩⟩ := cwc_mem_expanded_nodes.1 h
    · exact cwc_cname_ne_src k h.symm
    · exact cwc_cexp_ne_src k h.symm
  freshSnk := by
    intro h
    obtain ⟨k, _, h | ⟨_, h⟩⟩ := cwc_mem_expanded_nodes.1 h
    · exact cwc_cname_ne_snk k h.symm
    · exact cwc_cexp_ne_snk k h.symm

/-! ## acyclicity: a rank on the condensation -/

open Classical in
/-- number of nodes that reach the component `k` -/
noncomputable def cwcRank (c : CondInput) (k : Nat) : Nat :=
  c.g.nodes.countP fun v => decide (∃ u ∈ c.g.nodes, c.comp u = k ∧ Reach c.g.edges v u)

theorem cwc_rank_lt {c : CondInput} (hok : CwcOK c) {e : Edge} (he : e ∈ c.g.edges)
    (hne : c.comp e.1 ≠ c.comp e.2) : cwcRank c (c.comp e.1) < cwcRank c (c.comp e.2) := by
  obtain ⟨x, y⟩ := e
  have hx := (hok.closed _ he).1
  have hy := (hok.closed _ he).2
  simp only at hx hy hne ⊢
  unfold cwcRank
  apply cwc_countP_lt _ _ _ _ y hy
  · simp only [decide_eq_true_eq]
    exact ⟨y, hy, rfl, Reach.refl y⟩
  · simp only [decide_eq_false_iff_not]
    rintro ⟨u, hu, hcu, hr⟩
    have hux := ((hok.scc u hu x hx).1 hcu).1
    exact hne ((hok.scc x hx y hy).2 ⟨Reach.single he, Reach.trans hr hux⟩)
  · intro v _ hp
    simp only [decide_eq_true_eq] at hp ⊢
    obtain ⟨u, hu, hcu, hr⟩ := hp
    have hux := ((hok.scc u hu x hx).1 hcu).1
    exact ⟨y, hy, rfl, Reach.step (Reach.trans hr hux) he⟩

open Classical in
/-- rank of an expanded node: `2 r(k)` for `str(k)`, `2 r(k) + 1` for `str(k)_expanded` -/
noncomputable def cwcRankS (r : Nat → Nat) (s : Node) : Nat :=
  if h : ∃ k, s = cname k then 2 * r (choose h)
  else if h : ∃ k, s = cexp k then 2 * r (choose h) + 1 else 0

theorem cwc_rankS_cname (r : Nat → Nat) (k : Nat) : cwcRankS r (cname k) = 2 * r k := by
  unfold cwcRankS
  have h : ∃ j, cname k = cname j := ⟨k, rfl⟩
  rw [dif_pos h]
  have := cwc_cname_inj (Classical.choose_spec h)
  rw [← this]

theorem cwc_rankS_cexp (r : Nat → Nat) (k : Nat) : cwcRankS r (cexp k) = 2 * r k + 1 := by
  unfold cwcRankS
  have h0 : ¬ ∃ j, cexp k = cname j := fun ⟨j, hj⟩ => cwc_cname_ne_cexp j k hj.symm
  have h : ∃ j, cexp k = cexp j := ⟨k, rfl⟩
  rw [dif_neg h0, dif_pos h]
  have := cwc_cexp_inj (Classical.choose_spec h)
  rw [← this]

theorem cwc_expanded_acyclic {c : CondInput} (hok : CwcOK c) : Acyclic c.expanded := by
  refine ⟨cwcRankS (cwcRank c), ?_⟩
  intro e he
  rcases cwc_mem_expanded_edges.1 he with ⟨k, _, _, rfl⟩ | ⟨ab, hab, rfl⟩
  · simp only [cwc_rankS_cname, cwc_rankS_cexp]; omega
  · obtain ⟨e', he', hne, rfl⟩ := cwc_mem_condEdges.1 hab
    have hlt := cwc_rank_lt hok he' hne
    simp only
    rcases cwc_tailName_cases (c := c) (c.comp e'.1) with ⟨_, h⟩ | ⟨_, h⟩ <;> rw [h]
    · simp only [cwc_rankS_cname]; omega
    · simp only [cwc_rankS_cname, cwc_rankS_cexp]; omega

theorem cwc_expandedST_wf {c : CondInput} (hok : CwcOK c) : STWF c.expandedST :=
  augment_wf _ _ _ (cwc_expanded_basewf hok.closed) (cwc_expanded_acyclic hok)

/-- the edges of the augmented expanded condensation -/
theorem cwc_expandedST_edges_cases {c : CondInput} (hok : CwcOK c) {e : Edge}
    (he : e ∈ c.expandedST.g.edges) :
      (∃ k ∈ c.condNodes, c.isTrivial k = false ∧ e = (cname k, cexp k)) ∨
      (∃ ab ∈ c.condEdges, e = (c.tailName ab.1, cname ab.2)) ∨
      (e.1 = srcName ∧ e.2 ∈ c.expanded.nodes) ∨ (e.2 = snkName ∧ e.1 ∈ c.expanded.nodes) := by
  unfold expandedST at he
  rw [aug_mem_edges' (cwc_expanded_basewf hok.closed).closed, cwc_mem_expanded_edges] at he
  rcases he with h | h | h
  · rcases h with h | h
    · exact Or.inl h
    · exact Or.inr (Or.inl h)
  · exact Or.inr (Or.inr (Or.inl ⟨h.1, h.2.1⟩))
  · exact Or.inr (Or.inr (Or.inr ⟨h.1, h.2.1⟩))

theorem cwc_expanded_sub_expandedST {c : CondInput} (hok : CwcOK c) {e : Edge}
    (he : e ∈ c.expanded.edges) : e ∈ c.expandedST.g.edges := by
  unfold expandedST
  rw [aug_mem_edges' (cwc_expanded_basewf hok.closed).closed]
  exact Or.inl he

end FP
