import FP.Proofs.MGSRange
/-!
# FP.Proofs.MGSPartitionRangeCut — cutting an ordered multiset at break points

Spec-level lemmas for the range theorem with partition constraints (no encoding involved):

* `mgsp_cut g x` splits the element of the ordered multiset `g` that contains position `x ∈ [0, Σ g]` into two
  pieces: one element more, same sum, non-negative, integral for integral data, the old prefix sums stay prefix
  sums and `x` becomes one (`mgsp_cuts`: a whole list of break points);
* a prefix sum is a sub-multiset sum (`mgsp_prefix_generates`);
* if every prefix sum of a non-empty, non-negative `con` with `Σ con = Σ g` is a prefix sum of `g`, then `g`
  respects the partition constraint `con` (`mgsp_respects_of_prefix`: consecutive blocks);
* padding with a zero keeps `RespectsPartition` for a non-empty `con` (`mgsp_respects_cons_zero`);
* an assignment to `t ≥ len(con)` parts that gets the `len(con)` sums right sends only zero-valued elements
  to the parts beyond `len(con)`, they can be re-assigned (`mgsp_reassign`).
-/
namespace FP.GS
open FP FP.Spec

/-! ### sums of non-negative lists -/

theorem mgsp_sum_nonneg (l : List Rat) (h : ∀ x ∈ l, 0 ≤ x) : 0 ≤ l.sum := by
  induction l with
  | nil => simp
  | cons a rest ih =>
    have h1 := h a (List.mem_cons_self ..)
    have h2 := ih (fun y hy => h y (List.mem_cons_of_mem _ hy))
    simp only [List.sum_cons]; grind

theorem mgsp_take_sum_le (l : List Rat) (h : ∀ x ∈ l, 0 ≤ x) (n : Nat) :
    0 ≤ (l.take n).sum ∧ (l.take n).sum ≤ l.sum := by
  have h1 : 0 ≤ (l.take n).sum := mgsp_sum_nonneg _ (fun x hx => h x (List.mem_of_mem_take hx))
  have h2 : 0 ≤ (l.drop n).sum := mgsp_sum_nonneg _ (fun x hx => h x (List.mem_of_mem_drop hx))
  have h3 : (l.take n).sum + (l.drop n).sum = l.sum := by
    rw [← List.sum_append, List.take_append_drop]
  refine ⟨h1, ?_⟩
  grind

theorem mgsp_take_sum_mono (l : List Rat) (h : ∀ x ∈ l, 0 ≤ x) (n m : Nat) (hnm : n ≤ m) :
    (l.take n).sum ≤ (l.take m).sum := by
  have := (mgsp_take_sum_le (l.take m) (fun x hx => h x (List.mem_of_mem_take hx)) n).2
  rwa [List.take_take, Nat.min_eq_left hnm] at this

theorem mgsp_sum_zero_all (l : List Rat) (h : ∀ x ∈ l, 0 ≤ x) (hs : l.sum = 0) : ∀ x ∈ l, x = 0 := by
  intro x hx
  have h1 := mem_le_sum l h x hx
  have h2 := h x hx
  grind

/-! ### prefix sums -/

/-- `x` is the sum of a prefix of the ordered multiset `g` -/
def IsPrefixSum (g : List Rat) (x : Rat) : Prop := ∃ n, (g.take n).sum = x

theorem mgsp_prefix_zero (g : List Rat) : IsPrefixSum g 0 := ⟨0, by simp⟩

theorem mgsp_prefix_sum (g : List Rat) : IsPrefixSum g g.sum := ⟨g.length, by simp⟩

theorem mgsp_prefix_cons (a : Rat) (g : List Rat) (y : Rat) (h : IsPrefixSum g y) :
    IsPrefixSum (a :: g) (a + y) := by
  obtain ⟨n, hn⟩ := h
  exact ⟨n + 1, by simp [hn]⟩

/-- a prefix sum is a sub-multiset sum -/
theorem mgsp_prefix_generates (g : List Rat) : ∀ x, IsPrefixSum g x → Generates g 1 x := by
  induction g with
  | nil =>
    rintro x ⟨n, hn⟩
    simp at hn
    rw [← hn]; exact generates_zero _ _
  | cons a rest ih =>
    rintro x ⟨n, hn⟩
    cases n with
    | zero => simp at hn; rw [← hn]; exact generates_zero _ _
    | succ n =>
      simp only [List.take_succ_cons, List.sum_cons] at hn
      obtain ⟨c, h1, h2, h3⟩ := ih _ ⟨n, rfl⟩
      refine ⟨1 :: c, by simp [h1], ?_, ?_⟩
      · intro ci hci
        rcases List.mem_cons.1 hci with rfl | hm
        · exact Nat.le_refl _
        · exact h2 ci hm
      · simp only [dot_cons, h3]; rw [← hn]; grind

/-! ### cutting -/

/-- split the element covering position `x` into the part before and the part after `x` -/
def mgsp_cut : List Rat → Rat → List Rat
  | [], _ => [0]
  | a :: rest, x => if x ≤ a then x :: (a - x) :: rest else a :: mgsp_cut rest (x - a)

theorem mgsp_cut_length (g : List Rat) : ∀ x, (mgsp_cut g x).length = g.length + 1 := by
  induction g with
  | nil => intro x; rfl
  | cons a rest ih =>
    intro x
    unfold mgsp_cut
    split
    · simp
    · simp [ih]

theorem mgsp_cut_sum (g : List Rat) : ∀ x, (mgsp_cut g x).sum = g.sum := by
  induction g with
  | nil => intro x; simp [mgsp_cut]; grind
  | cons a rest ih =>
    intro x
    unfold mgsp_cut
    split
    · simp only [List.sum_cons]; grind
    · simp only [List.sum_cons, ih]

theorem mgsp_cut_nonneg (g : List Rat) : ∀ x, 0 ≤ x → (∀ y ∈ g, 0 ≤ y) → ∀ y ∈ mgsp_cut g x, 0 ≤ y := by
  induction g with
  | nil =>
    intro x _ _ y hy
    simp [mgsp_cut] at hy
    rw [hy]; exact Rat.le_refl
  | cons a rest ih =>
    intro x hx hg y hy
    unfold mgsp_cut at hy
    split at hy
    · rename_i hxa
      simp only [List.mem_cons] at hy
      rcases hy with rfl | rfl | hy
      · exact hx
      · grind
      · exact hg y (List.mem_cons_of_mem _ hy)
    · rename_i hxa
      rcases List.mem_cons.1 hy with rfl | hy
      · exact hg _ (List.mem_cons_self ..)
      · have hxa' : a < x := Rat.not_le.1 hxa
        exact ih (x - a) (by grind) (fun z hz => hg z (List.mem_cons_of_mem _ hz)) y hy

theorem mgsp_cut_allInt (g : List Rat) : ∀ x : Rat, (∃ z : Int, x = z) → AllInt g → AllInt (mgsp_cut g x) := by
  induction g with
  | nil =>
    intro x _ _ y hy
    simp [mgsp_cut] at hy
    exact ⟨0, by rw [hy]; rfl⟩
  | cons a rest ih =>
    intro x hx hg y hy
    obtain ⟨zx, hzx⟩ := hx
    obtain ⟨za, hza⟩ := hg a (List.mem_cons_self ..)
    unfold mgsp_cut at hy
    split at hy
    · simp only [List.mem_cons] at hy
      rcases hy with rfl | rfl | hy
      · exact ⟨zx, hzx⟩
      · exact ⟨za - zx, by rw [hza, hzx, Rat.intCast_sub]⟩
      · exact hg y (List.mem_cons_of_mem _ hy)
    · rcases List.mem_cons.1 hy with rfl | hy
      · exact ⟨za, hza⟩
      · exact ih (x - a) ⟨zx - za, by rw [hza, hzx, Rat.intCast_sub]⟩
          (fun z hz => hg z (List.mem_cons_of_mem _ hz)) y hy

/-- the old prefix sums stay prefix sums -/
theorem mgsp_cut_prefix_old (g : List Rat) : ∀ x y, IsPrefixSum g y → IsPrefixSum (mgsp_cut g x) y := by
  induction g with
  | nil =>
    rintro x y ⟨n, hn⟩
    simp at hn
    exact ⟨0, by simp [hn]⟩
  | cons a rest ih =>
    rintro x y ⟨n, hn⟩
    cases n with
    | zero => simp at hn; exact ⟨0, by simp [hn]⟩
    | succ n =>
      simp only [List.take_succ_cons, List.sum_cons] at hn
      unfold mgsp_cut
      split
      · refine ⟨n + 2, ?_⟩
        simp only [List.take_succ_cons, List.sum_cons]
        grind
      · have := mgsp_prefix_cons a _ _ (ih (x - a) (rest.take n).sum ⟨n, rfl⟩)
        rwa [hn] at this

/-- the cut position becomes a prefix sum -/
theorem mgsp_cut_prefix_new (g : List Rat) : ∀ x, 0 ≤ x → x ≤ g.sum → IsPrefixSum (mgsp_cut g x) x := by
  induction g with
  | nil =>
    intro x h0 h1
    simp at h1
    exact ⟨0, by simp; grind⟩
  | cons a rest ih =>
    intro x h0 h1
    unfold mgsp_cut
    split
    · exact ⟨1, by simp; grind⟩
    · rename_i hxa
      have hxa' : a < x := Rat.not_le.1 hxa
      simp only [List.sum_cons] at h1
      have := mgsp_prefix_cons a _ _ (ih (x - a) (by grind) (by grind))
      have e : a + (x - a) = x := by grind
      rwa [e] at this

/-- cut at every break point of a list -/
def mgsp_cuts : List Rat → List Rat → List Rat
  | g, [] => g
  | g, b :: bs => mgsp_cuts (mgsp_cut g b) bs

theorem mgsp_cuts_spec (bs : List Rat) : ∀ g : List Rat, (∀ y ∈ g, 0 ≤ y) →
    (∀ b ∈ bs, 0 ≤ b ∧ b ≤ g.sum) →
    (mgsp_cuts g bs).length = g.length + bs.length ∧ (mgsp_cuts g bs).sum = g.sum ∧
      (∀ y ∈ mgsp_cuts g bs, 0 ≤ y) ∧ (∀ y, IsPrefixSum g y → IsPrefixSum (mgsp_cuts g bs) y) ∧
      (∀ b ∈ bs, IsPrefixSum (mgsp_cuts g bs) b) ∧ (AllInt g → AllInt bs → AllInt (mgsp_cuts g bs)) := by
  induction bs with
  | nil =>
    intro g hg _
    exact ⟨rfl, rfl, hg, fun _ h => h, fun b hb => by simp at hb, fun h _ => h⟩
  | cons b bs ih =>
    intro g hg hb
    have hb0 := hb b (List.mem_cons_self ..)
    obtain ⟨h1, h2, h3, h4, h5, h6⟩ := ih (mgsp_cut g b) (mgsp_cut_nonneg g b hb0.1 hg)
      (fun c hc => by rw [mgsp_cut_sum]; exact hb c (List.mem_cons_of_mem _ hc))
    refine ⟨?_, ?_, h3, ?_, ?_, ?_⟩
    · simp only [mgsp_cuts, h1, mgsp_cut_length, List.length_cons]; omega
    · simp only [mgsp_cuts, h2, mgsp_cut_sum]
    · intro y hy
      exact h4 y (mgsp_cut_prefix_old g b y hy)
    · intro c hc
      rcases List.mem_cons.1 hc with rfl | hc
      · exact h4 _ (mgsp_cut_prefix_new g _ hb0.1 hb0.2)
      · exact h5 c hc
    · intro hgi hbi
      exact h6 (mgsp_cut_allInt g b (hbi b (List.mem_cons_self ..)) hgi)
        (fun z hz => hbi z (List.mem_cons_of_mem _ hz))

/-! ### `partSum` -/

theorem mgsp_partSum_nil (g : List Rat) (j : Nat) : partSum [] g j = 0 := by simp [partSum]

theorem mgsp_partSum_append (a1 a2 : List Nat) (g1 g2 : List Rat) (h : a1.length = g1.length) (j : Nat) :
    partSum (a1 ++ a2) (g1 ++ g2) j = partSum a1 g1 j + partSum a2 g2 j := by
  unfold partSum
  rw [List.zip_append h, List.map_append, List.sum_append]

theorem mgsp_partSum_replicate_self (g : List Rat) (p : Nat) :
    partSum (List.replicate g.length p) g p = g.sum := by
  induction g with
  | nil => simp [partSum]
  | cons x xs ih => simp only [List.length_cons, List.replicate_succ, partSum_cons, ih, List.sum_cons]; simp

theorem mgsp_partSum_replicate_ne (g : List Rat) (p j : Nat) (h : p ≠ j) :
    partSum (List.replicate g.length p) g j = 0 := by
  induction g with
  | nil => simp [partSum]
  | cons x xs ih =>
    simp only [List.length_cons, List.replicate_succ, partSum_cons, ih, if_neg h]; grind

theorem mgsp_partSum_succ_zero (a : List Nat) : ∀ g : List Rat, partSum (a.map (· + 1)) g 0 = 0 := by
  induction a with
  | nil => intro g; simp [partSum]
  | cons p ps ih =>
    intro g
    cases g with
    | nil => simp [partSum]
    | cons x xs => simp only [List.map_cons, partSum_cons, ih]; simp; grind

theorem mgsp_partSum_succ_succ (a : List Nat) : ∀ (g : List Rat) (j : Nat),
    partSum (a.map (· + 1)) g (j + 1) = partSum a g j := by
  induction a with
  | nil => intro g j; simp [partSum]
  | cons p ps ih =>
    intro g j
    cases g with
    | nil => simp [partSum]
    | cons x xs => simp only [List.map_cons, partSum_cons, ih]; simp

/-! ### consecutive blocks respect a partition constraint -/

theorem mgsp_respects_of_prefix (con : List Rat) : ∀ g : List Rat, con ≠ [] → (∀ y ∈ g, 0 ≤ y) →
    (∀ x ∈ con, 0 ≤ x) → g.sum = con.sum → (∀ m, IsPrefixSum g (con.take m).sum) →
    RespectsPartition g con := by
  induction con with
  | nil => intro g h; exact absurd rfl h
  | cons c rest ih =>
    intro g _ hg hcon hsum hpre
    cases rest with
    | nil =>
      refine ⟨List.replicate g.length 0, by simp, ?_, ?_⟩
      · intro p hp; rw [(List.mem_replicate.1 hp).2]; simp
      · intro j hj
        have : j = 0 := by simpa using hj
        subst this
        rw [mgsp_partSum_replicate_self, hsum]; simp; grind
    | cons c' rest' =>
      obtain ⟨n, hn⟩ := hpre 1
      simp only [List.take_succ_cons, List.take_zero, List.sum_cons, List.sum_nil] at hn
      have hn' : (g.take n).sum = c := by rw [hn]; grind
      have hsplit : (g.take n).sum + (g.drop n).sum = g.sum := by
        rw [← List.sum_append, List.take_append_drop]
      have hg2 : ∀ y ∈ g.drop n, 0 ≤ y := fun y hy => hg y (List.mem_of_mem_drop hy)
      have hsum2 : (g.drop n).sum = (c' :: rest').sum := by
        simp only [List.sum_cons] at hsum ⊢; grind
      have hpre2 : ∀ m, IsPrefixSum (g.drop n) ((c' :: rest').take m).sum := by
        intro m
        obtain ⟨n', hn2⟩ := hpre (m + 1)
        simp only [List.take_succ_cons, List.sum_cons] at hn2
        have hs0 := (mgsp_take_sum_le (c' :: rest') (fun x hx => hcon x (List.mem_cons_of_mem _ hx)) m).1
        by_cases hle : n ≤ n'
        · refine ⟨n' - n, ?_⟩
          have e : g.take n' = g.take n ++ (g.drop n).take (n' - n) := by
            have := List.take_add (l := g) (i := n) (j := n' - n)
            rwa [show n + (n' - n) = n' by omega] at this
          rw [e, List.sum_append] at hn2
          grind
        · have := mgsp_take_sum_mono g hg n' n (by omega)
          exact ⟨0, by simp; grind⟩
      obtain ⟨a2, ha1, ha2, ha3⟩ := ih (g.drop n) (by simp) hg2
        (fun x hx => hcon x (List.mem_cons_of_mem _ hx)) hsum2 hpre2
      have hgeq : g = g.take n ++ g.drop n := (List.take_append_drop n g).symm
      refine ⟨List.replicate (g.take n).length 0 ++ a2.map (· + 1), ?_, ?_, ?_⟩
      · rw [List.length_append, List.length_replicate, List.length_map, ha1, ← List.length_append,
          List.take_append_drop]
      · intro p hp
        rcases List.mem_append.1 hp with h | h
        · rw [(List.mem_replicate.1 h).2]; simp
        · obtain ⟨q, hq, rfl⟩ := List.mem_map.1 h
          have := ha2 q hq
          simp only [List.length_cons] at this ⊢
          omega
      · intro j hj
        rw [hgeq, mgsp_partSum_append _ _ _ _ (by simp)]
        rw [← hgeq]
        cases j with
        | zero =>
          rw [mgsp_partSum_replicate_self, mgsp_partSum_succ_zero, hn']; simp; grind
        | succ j =>
          rw [mgsp_partSum_replicate_ne _ _ _ (by omega), mgsp_partSum_succ_succ,
            ha3 j (by simpa using hj)]
          simp; grind

/-- padding with a zero (sent to part 0) -/
theorem mgsp_respects_cons_zero (g con : List Rat) (hne : con ≠ []) (h : RespectsPartition g con) :
    RespectsPartition (0 :: g) con := by
  obtain ⟨a, h1, h2, h3⟩ := h
  refine ⟨0 :: a, by simp [h1], ?_, ?_⟩
  · intro p hp
    rcases List.mem_cons.1 hp with rfl | hp
    · exact List.length_pos_iff.2 hne
    · exact h2 p hp
  · intro j hj
    rw [partSum_cons, h3 j hj]
    split <;> grind

/-! ### parts beyond `len(con)` hold zeros only -/

theorem mgsp_sum_ite_range (n p : Nat) (x : Rat) :
    ((List.range n).map fun j => if p = j then x else 0).sum = if p < n then x else 0 := by
  induction n with
  | zero => simp
  | succ n ih =>
    rw [List.range_succ, List.map_append, List.sum_append, ih]
    simp only [List.map_cons, List.map_nil, List.sum_cons, List.sum_nil]
    by_cases h1 : p < n
    · rw [if_pos h1, if_neg (by omega), if_pos (by omega)]; grind
    · by_cases h2 : p = n
      · rw [if_neg h1, if_pos h2, if_pos (by omega)]; grind
      · rw [if_neg h1, if_neg h2, if_neg (by omega)]; grind

theorem mgsp_sum_range_add (n : Nat) (f h : Nat → Rat) :
    ((List.range n).map fun j => f j + h j).sum = ((List.range n).map f).sum + ((List.range n).map h).sum := by
  generalize List.range n = l
  induction l with
  | nil => simp; grind
  | cons x xs ih => simp only [List.map_cons, List.sum_cons, ih]; grind

/-- the parts `< n` and the rest add up to everything -/
theorem mgsp_parts_total (l : List (Nat × Rat)) (n : Nat) :
    ((List.range n).map fun j => (l.map fun p => if p.1 = j then p.2 else 0).sum).sum
      + (l.map fun p => if p.1 < n then 0 else p.2).sum = (l.map Prod.snd).sum := by
  induction l with
  | nil => simp [sum_all_zero]; grind
  | cons p ps ih =>
    simp only [List.map_cons, List.sum_cons]
    rw [mgsp_sum_range_add, mgsp_sum_ite_range, ← ih]
    split <;> grind

theorem mgsp_reassign (g con : List Rat) (assign : List Nat) (hne : con ≠ []) (hg : ∀ y ∈ g, 0 ≤ y)
    (hsum : g.sum = con.sum) (hlen : assign.length = g.length)
    (hp : ∀ j, j < con.length → partSum assign g j = con.getD j 0) : RespectsPartition g con := by
  have hpos : 0 < con.length := List.length_pos_iff.2 hne
  -- the elements sent beyond `len(con)` add up to zero
  have htot := mgsp_parts_total (assign.zip g) con.length
  have hsnd : (assign.zip g).map Prod.snd = g := List.map_snd_zip (by omega)
  have hcs : ((List.range con.length).map fun j =>
      ((assign.zip g).map fun p => if p.1 = j then p.2 else 0).sum).sum = con.sum := by
    have : ((List.range con.length).map fun j =>
        ((assign.zip g).map fun p => if p.1 = j then p.2 else 0).sum)
        = (List.range con.length).map fun j => con.getD j 0 := by
      apply List.map_congr_left
      intro j hj
      exact hp j (List.mem_range.1 hj)
    rw [this, map_range_getD]
  rw [hcs, hsnd, hsum] at htot
  have hrest : ((assign.zip g).map fun p => if p.1 < con.length then 0 else p.2).sum = 0 := by grind
  have hzero := mgsp_sum_zero_all _ (by
    intro y hy
    obtain ⟨p, hp', rfl⟩ := List.mem_map.1 hy
    split
    · exact Rat.le_refl
    · exact hg _ (List.of_mem_zip hp').2) hrest
  have hz : ∀ p ∈ assign.zip g, ¬ p.1 < con.length → p.2 = 0 := by
    intro p hp' hnl
    have := hzero _ (List.mem_map.2 ⟨p, hp', rfl⟩)
    rwa [if_neg hnl] at this
  refine ⟨assign.map fun p => if p < con.length then p else 0, by simp [hlen], ?_, ?_⟩
  · intro p hp'
    obtain ⟨q, _, rfl⟩ := List.mem_map.1 hp'
    split
    · assumption
    · exact hpos
  · intro j hj
    rw [← hp j hj]
    unfold partSum
    rw [List.zip_map_left, List.map_map]
    apply sum_map_congr
    intro p hp'
    simp only [Function.comp, Prod.map]
    by_cases hl : p.1 < con.length
    · simp [hl]
    · rw [hz p hp' hl]; simp

end FP.GS
