import FP.Model.PathSafetyRows
import FP.Proofs.PathCore
import FP.Proofs.C10Constraints
import FP.Props.C06
import FP.Spec.Safety
/-!
# FP.Proofs.C05DagLayers — every safe list that `__init__` assembles runs inside one layer of every solution

`a` satisfies `_encode_paths` on a well-formed s-t DAG. `dagLayerWalk s a i` is the decoded path of layer `i` with
the synthetic endpoints; a layer that uses some edge is a source-to-sink walk and its edge variables are the
indicator of that walk (C01 `pathcore_sound`).

* `c05d_safePath_in_layer` — the univocal extension computed by `safe_paths` for an edge that layer `i` uses
  lies in layer `i` (C06 T1 `safe_paths_univocal`);
* `c05d_safeSequence_in_layer` — the sequence computed by `safe_sequences` for an item (an edge or a subpath
  constraint) all of whose edges layer `i` uses lies in layer `i` (C06 T2 `bridge_sound_graph`: the left bridges
  dominate the walks from the source to the tail of the item's first edge, the right bridges those from the head
  of its last edge to the sink; no assumption on the order in which the item lists its edges);
* `c05d_constraint_in_layer` — with coverage 1 (or length coverage 1 and positive lengths) every subpath
  constraint lies completely in the layer that is responsible for it (C10 `constraint_honoured`);
* `c05d_safeLists_in_layers` — hence every list of `pathSafeLists` lies in some layer, provided every trusted
  edge is used by some layer and the externally supplied lists do.
-/
namespace FP
open FP.Spec FP.Safety

/-- the path of layer `i` with the synthetic endpoints (`[]` if the decoder gives up) -/
def dagLayerWalk (s : STGraph) (a : Asg) (i : Nat) : List Node :=
  match decodeLayer s (fun e i => a (edgeVar e i)) i with
  | some p => s.source :: p ++ [s.sink]
  | none => []

/-- layer `i` runs through every edge of `q` (which are edges of the graph) -/
def LayerHas (s : STGraph) (a : Asg) (q : List Edge) (i : Nat) : Prop :=
  ∀ e ∈ q, e ∈ s.g.edges ∧ a (edgeVar e i) = 1

/-- some layer runs through every edge of `q` -/
def SomeLayerHas (s : STGraph) (a : Asg) (k : Nat) (q : List Edge) : Prop := ∃ i, i < k ∧ LayerHas s a q i

section Layer
variable {s : STGraph} {c : PathCfg} {a : Asg} {i : Nat}

theorem c05d_layer_indicator (hwf : STWF s) (hsat : Sat a (encodePaths s c)) (hi : i < c.k) :
    ∀ e ∈ s.g.edges, a (edgeVar e i) = if e ∈ walkEdges (dagLayerWalk s a i) then 1 else 0 := by
  obtain ⟨p, hp, hind⟩ := c10_layer_indicator s c a hwf hsat i hi
  unfold dagLayerWalk
  rw [hp]
  exact hind

theorem c05d_one_ne_zero : (1 : Rat) ≠ 0 := by decide

/-- a layer that uses an edge is a source-to-sink walk through that edge -/
theorem c05d_layer_walk (hwf : STWF s) (hsat : Sat a (encodePaths s c)) (hi : i < c.k) {e : Edge}
    (he : e ∈ s.g.edges) (h1 : a (edgeVar e i) = 1) :
    IsSTWalkG s.g s.source s.sink (dagLayerWalk s a i) ∧ e ∈ walkEdges (dagLayerWalk s a i) := by
  have hind := c05d_layer_indicator hwf hsat hi e he
  have hmem : e ∈ walkEdges (dagLayerWalk s a i) := by
    apply Classical.byContradiction
    intro hn
    rw [if_neg hn, h1] at hind
    exact c05d_one_ne_zero hind
  refine ⟨?_, hmem⟩
  obtain ⟨p, hp, hempty, hne⟩ := pathcore_sound s c a hwf hsat i hi
  have hp0 : p ≠ [] := by
    intro h0
    have := (hempty h0).2 e he
    rw [h1] at this
    exact c05d_one_ne_zero this
  have hw : dagLayerWalk s a i = s.source :: p ++ [s.sink] := by
    unfold dagLayerWalk; rw [hp]
  rw [hw]
  refine ⟨(hne hp0).1, rfl, ?_⟩
  show (s.source :: (p ++ [s.sink])).getLast? = some s.sink
  rw [← List.cons_append]
  exact List.getLast?_concat

/-- a layer whose walk contains the edges of `q` has `x = 1` on them -/
theorem c05d_layerHas_of_mem (hwf : STWF s) (hsat : Sat a (encodePaths s c)) (hi : i < c.k)
    (hw : IsWalkIn s.g (dagLayerWalk s a i)) (q : List Edge)
    (hq : ∀ e ∈ q, e ∈ walkEdges (dagLayerWalk s a i)) : LayerHas s a q i := by
  intro e he
  have hg := hw e (hq e he)
  refine ⟨hg, ?_⟩
  rw [c05d_layer_indicator hwf hsat hi e hg, if_pos (hq e he)]

theorem c05d_pred_source (hwf : STWF s) : s.g.pred s.source = [] := by
  unfold Graph.pred
  rw [List.map_eq_nil_iff, List.filter_eq_nil_iff]
  intro e he
  simpa using hwf.srcNoIn e he

theorem c05d_succ_sink (hwf : STWF s) : s.g.succ s.sink = [] := by
  unfold Graph.succ
  rw [List.map_eq_nil_iff, List.filter_eq_nil_iff]
  intro e he
  simpa using hwf.snkNoOut e he

/-- **safe paths (C06 T1).** -/
theorem c05d_safePath_in_layer (hwf : STWF s) (hsat : Sat a (encodePaths s c)) (hi : i < c.k) {x : Edge}
    (hx : x ∈ s.g.edges) (h1 : a (edgeVar x i) = 1) (p : List Edge) (hp : safePathOf s.g x = .ok p) :
    LayerHas s a p i := by
  obtain ⟨hw, hmem⟩ := c05d_layer_walk hwf hsat hi hx h1
  have hinf := FP.Props.C06.safe_paths_univocal s.g s.source s.sink
    ⟨hwf.closed, c05d_pred_source hwf, c05d_succ_sink hwf⟩ x p hp _ hw hmem
  exact c05d_layerHas_of_mem hwf hsat hi hw.walk p (fun e he => hinf.subset he)

end Layer

/-- every edge of the sequence `safe_sequences` computes for `item` lies on every source-to-sink walk that
contains the edges of `item` — whatever the order in which `item` lists them (C06 T2, `bridge_sound_graph`) -/
theorem c05d_safeSequenceOf_members (g : Graph) (hg : GraphWF g) (s t : Node) (item seq : List Edge)
    (h : safeSequenceOf g s t item = .ok seq) (w : List Node) (hw : IsSTWalkG g s t w)
    (hit : ∀ e ∈ item, e ∈ walkEdges w) : ∀ e ∈ seq, e ∈ walkEdges w := by
  unfold safeSequenceOf at h
  split at h
  · rename_i a b ha hb
    cases hL : findAllBridges (predAdj g) a.1 s with
    | ok rl =>
      obtain ⟨left, gl⟩ := rl
      cases hR : findAllBridges (succAdj g) b.2 t with
      | ok rr =>
        obtain ⟨right, gr⟩ := rr
        simp only [hL, hR, bind, pure] at h
        injection h with h; subst h
        have hbmem : b ∈ item := List.mem_of_getLast? hb
        have hamem : a ∈ item := List.mem_of_head? ha
        intro e he
        rcases List.mem_append.1 he with he | he
        rcases List.mem_append.1 he with he | he
        · -- left bridges
          obtain ⟨v1, v2, hv12⟩ := mem_we_split (hit a hamem)
          have hwL : IsSTWalkG g s a.1 (v1 ++ [a.1]) := by
            refine ⟨?_, ?_, by simp⟩
            · intro e' he'; apply hw.walk; rw [hv12]
              have : v1 ++ a.1 :: a.2 :: v2 = (v1 ++ [a.1]) ++ (a.2 :: v2) := by simp
              rw [this]; exact we_sub_append_right _ _ e' he'
            · have := hw.first; rw [hv12] at this; cases v1 <;> simpa using this
          obtain ⟨yz, hyz, rfl⟩ := List.mem_map.1 (List.mem_reverse.1 he)
          have hdom := (FP.Props.C06.bridge_sound_graph g hg s a.1 left gl).2 hL yz hyz
          have := hdom _ hwL
          rw [hv12]
          have h5 : v1 ++ a.1 :: a.2 :: v2 = (v1 ++ [a.1]) ++ (a.2 :: v2) := by simp
          rw [h5]; exact we_sub_append_right _ _ _ this
        · exact hit e he
        · -- right bridges
          obtain ⟨w1, w2, hw12⟩ := mem_we_split (hit b hbmem)
          have h5 : w1 ++ b.1 :: b.2 :: w2 = (w1 ++ [b.1]) ++ (b.2 :: w2) := by simp
          have hwR : IsSTWalkG g b.2 t (b.2 :: w2) := by
            refine ⟨?_, rfl, ?_⟩
            · intro e' he'; apply hw.walk; rw [hw12, h5]; exact we_sub_append_left _ _ e' he'
            · have := hw.last
              rw [hw12, h5, List.getLast?_append] at this
              cases hq : (b.2 :: w2).getLast? with
              | none => simp at hq
              | some z => rw [hq] at this; simpa using this
          have hdom := (FP.Props.C06.bridge_sound_graph g hg b.2 t right gr).1 hR e he
          have := hdom _ hwR
          rw [hw12, h5]; exact we_sub_append_left _ _ _ this
      | raises w => simp only [hL, hR, bind] at h; cases h
      | fuel => simp only [hL, hR, bind] at h; cases h
    | raises w => simp only [hL, bind] at h; cases h
    | fuel => simp only [hL, bind] at h; cases h
  · cases h

section Layer2
variable {s : STGraph} {c : PathCfg} {a : Asg} {i : Nat}

/-- **safe sequences (C06 T2).** -/
theorem c05d_safeSequence_in_layer (hwf : STWF s) (hsat : Sat a (encodePaths s c)) (hi : i < c.k)
    (item : List Edge) (hit : LayerHas s a item i) (seq : List Edge)
    (hseq : safeSequenceOf s.g s.source s.sink item = .ok seq) : LayerHas s a seq i := by
  cases item with
  | nil => simp [safeSequenceOf] at hseq
  | cons x rest =>
    have hx := hit x (by simp)
    obtain ⟨hw, _⟩ := c05d_layer_walk hwf hsat hi hx.1 hx.2
    have hmem : ∀ e ∈ x :: rest, e ∈ walkEdges (dagLayerWalk s a i) := fun e he =>
      (c05d_layer_walk hwf hsat hi (hit e he).1 (hit e he).2).2
    exact c05d_layerHas_of_mem hwf hsat hi hw.walk seq
      (c05d_safeSequenceOf_members s.g hwf.closed s.source s.sink _ seq hseq _ hw hmem)


theorem c05d_fullCoverage (h : c.fullCoverage = true) :
    c.coverage = 1 ∧ (c.coverageLength = none ∨ c.coverageLength = some 1) := by
  unfold PathCfg.fullCoverage at h
  rw [Bool.and_eq_true] at h
  refine ⟨by simpa using h.1, ?_⟩
  cases hcl : c.coverageLength with
  | none => exact Or.inl rfl
  | some q =>
    have h2 := h.2
    rw [hcl] at h2
    exact Or.inr (by simpa using h2)

/-- a weighted count that reaches the total weight (all weights positive) misses no element -/
theorem c05d_sum_if_full {α} (l : List α) (f : α → Rat) (P : α → Prop) [DecidablePred P]
    (hpos : ∀ e ∈ l, 0 < f e) (h : (l.map f).sum ≤ (l.map fun e => if P e then f e else 0).sum) :
    ∀ e ∈ l, P e := by
  induction l with
  | nil => intro e he; cases he
  | cons x xs ih =>
    have hle : (xs.map fun e => if P e then f e else 0).sum ≤ (xs.map f).sum := by
      clear ih h
      induction xs with
      | nil => simp
      | cons y ys ih2 =>
        simp only [List.map_cons, List.sum_cons]
        have hy := hpos y (by simp)
        have := ih2 (fun e he => hpos e (by
          rcases List.mem_cons.1 he with rfl | he
          · simp
          · simp [he]))
        split <;> grind
    simp only [List.map_cons, List.sum_cons] at h
    have hx := hpos x (by simp)
    by_cases hP : P x
    · rw [if_pos hP] at h
      have h' : (xs.map f).sum ≤ (xs.map fun e => if P e then f e else 0).sum := by grind
      intro e he
      rcases List.mem_cons.1 he with rfl | he
      · exact hP
      · exact ih (fun e he => hpos e (by simp [he])) h' e he
    · rw [if_neg hP] at h
      exfalso; grind

/-- **a subpath constraint of full coverage lies completely in the layer responsible for it** (C10) -/
theorem c05d_constraint_in_layer (hwf : STWF s) (hsat : Sat a (encodePaths s c)) (hfull : c.fullCoverage = true)
    (hpos : c.coverageLength = some 1 → ∀ con ∈ c.constraints, ∀ e ∈ con, 0 < c.len e)
    (con : List Edge) (hcon : con ∈ c.constraints) (hedges : ∀ e ∈ con, e ∈ s.g.edges) :
    SomeLayerHas s a c.k con := by
  obtain ⟨j, hj, rfl⟩ := List.mem_iff_getElem.1 hcon
  obtain ⟨hcov, hcl⟩ := c05d_fullCoverage hfull
  have hfin : ∀ i p, i < c.k → decodeLayer s (fun e i => a (edgeVar e i)) i = some p →
      (∀ e ∈ c.constraints[j], e ∈ walkEdges (s.source :: p ++ [s.sink])) → SomeLayerHas s a c.k c.constraints[j] := by
    intro i p hi hp hall
    refine ⟨i, hi, fun e he => ⟨hedges e he, ?_⟩⟩
    have := c05d_layer_indicator hwf hsat hi e (hedges e he)
    unfold dagLayerWalk at this
    rw [hp] at this
    rw [this, if_pos (hall e he)]
  rcases hcl with hcl | hcl
  · obtain ⟨i, hi, _, p, hp, hcnt⟩ := constraint_honoured s c a hwf hsat hcl j hj hedges
    rw [hcov, Rat.mul_one] at hcnt
    have hle := List.countP_le_length (p := fun e => decide (e ∈ walkEdges (s.source :: p ++ [s.sink])))
      (l := c.constraints[j])
    have heq : List.countP (fun e => decide (e ∈ walkEdges (s.source :: p ++ [s.sink]))) c.constraints[j]
        = c.constraints[j].length := by
      have := Rat.natCast_le_natCast.1 hcnt
      omega
    have hall := List.countP_eq_length.1 heq
    exact hfin i p hi hp (fun e he => by simpa using hall e he)
  · obtain ⟨i, hi, _, p, hp, hsum⟩ := constraint_honoured_length s c a hwf hsat 1 hcl j hj hedges
    rw [Rat.mul_one] at hsum
    have hall := c05d_sum_if_full c.constraints[j] c.len (fun e => e ∈ walkEdges (s.source :: p ++ [s.sink]))
      (hpos hcl _ hcon) hsum
    exact hfin i p hi hp hall

end Layer2

/-! ## the lists of `pathSafeLists` -/

theorem c05d_pathSafeLists_ok (s : STGraph) (c : PathCfg) (X : List Edge) (external : Option (List (List Edge)))
    (o : PathSafetyOpts) (lists : List (List Edge)) (h : pathSafeLists s c X external o = .ok lists) :
    ∃ l0 l1 l2, lists = l0 ++ l1 ++ l2 ∧ safeLists0 s X external o = .ok l0 ∧ safeLists1 s X o = .ok l1 ∧
      safeLists2 s c o = .ok l2 := by
  unfold pathSafeLists at h
  split at h
  · cases h
  split at h
  · cases h
  cases h0 : safeLists0 s X external o with
  | raises w => rw [h0] at h; cases h
  | fuel => rw [h0] at h; cases h
  | ok l0 =>
    cases h1 : safeLists1 s X o with
    | raises w => rw [h0, h1] at h; cases h
    | fuel => rw [h0, h1] at h; cases h
    | ok l1 =>
      cases h2 : safeLists2 s c o with
      | raises w => rw [h0, h1, h2] at h; cases h
      | fuel => rw [h0, h1, h2] at h; cases h
      | ok l2 =>
        rw [h0, h1, h2] at h
        injection h with h
        exact ⟨l0, l1, l2, h.symm, rfl, rfl, rfl⟩

/-- **every safe list lies in some layer of every solution.** `X`: trusted edges, each used by some layer;
`external`: lists supplied from outside (flow-safe paths), assumed to lie in some layer; subpath constraints
made of graph edges, of positive length if the coverage is by length. -/
theorem c05d_safeLists_in_layers (s : STGraph) (c : PathCfg) (a : Asg) (hwf : STWF s)
    (hsat : Sat a (encodePaths s c)) (X : List Edge) (hX : ∀ x ∈ X, x ∈ s.g.edges)
    (hcover : ∀ x ∈ X, ∃ i, i < c.k ∧ a (edgeVar x i) = 1)
    (external : Option (List (List Edge)))
    (hext : ∀ l, external = some l → ∀ q ∈ l, SomeLayerHas s a c.k q)
    (hcons : ∀ con ∈ c.constraints, ∀ e ∈ con, e ∈ s.g.edges)
    (hpos : c.coverageLength = some 1 → ∀ con ∈ c.constraints, ∀ e ∈ con, 0 < c.len e)
    (o : PathSafetyOpts) (lists : List (List Edge)) (h : pathSafeLists s c X external o = .ok lists) :
    ∀ q ∈ lists, SomeLayerHas s a c.k q := by
  obtain ⟨l0, l1, l2, rfl, h0, h1, h2⟩ := c05d_pathSafeLists_ok s c X external o lists h
  intro q hq
  rcases List.mem_append.1 hq with hq | hq
  rcases List.mem_append.1 hq with hq | hq
  · unfold safeLists0 at h0
    cases hex : external with
    | some l =>
      rw [hex] at h0
      injection h0 with h0
      subst h0
      exact hext _ hex q hq
    | none =>
      rw [hex] at h0
      simp only at h0
      split at h0
      · obtain ⟨x, hx, hpx⟩ := mapRes_mem _ _ _ h0 q hq
        obtain ⟨i, hi, h1⟩ := hcover x hx
        exact ⟨i, hi, c05d_safePath_in_layer hwf hsat hi (hX x hx) h1 q hpx⟩
      · injection h0 with h0; subst h0; cases hq
  · unfold safeLists1 at h1
    split at h1
    · obtain ⟨item, hitem, hseq⟩ := mapRes_mem _ _ _ h1 q hq
      obtain ⟨x, hx, rfl⟩ := List.mem_map.1 hitem
      obtain ⟨i, hi, hx1⟩ := hcover x hx
      refine ⟨i, hi, c05d_safeSequence_in_layer hwf hsat hi [x] ?_ q hseq⟩
      intro e he
      rw [List.mem_singleton] at he
      subst he
      exact ⟨hX _ hx, hx1⟩
    · injection h1 with h1; subst h1; cases hq
  · unfold safeLists2 at h2
    split at h2
    · rename_i hc
      have hfull : c.fullCoverage = true := by
        rw [Bool.and_eq_true] at hc; exact hc.2
      obtain ⟨item, hitem, hseq⟩ := mapRes_mem _ _ _ h2 q hq
      obtain ⟨i, hi, hlay⟩ := c05d_constraint_in_layer hwf hsat hfull hpos item hitem (hcons item hitem)
      exact ⟨i, hi, c05d_safeSequence_in_layer hwf hsat hi item hlay q hseq⟩
    · injection h2 with h2; subst h2; cases hq

end FP
