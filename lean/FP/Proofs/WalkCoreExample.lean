import FP.Proofs.WalkCore
/-!
# FP.Proofs.WalkCoreExample — the hypotheses of the walk theorems of C01 are satisfiable

A user graph with a self-loop, `s → a → t` and `a → a`; its augmentation; a satisfying assignment of
`encodeWalks` (one layer) that runs through the loop twice; and the decoder's answer on it.
-/
namespace FP.WalkCoreExample
open FP FP.Spec

def base : Graph := { nodes := ["s", "a", "t"], edges := [("s", "a"), ("a", "a"), ("a", "t")] }

theorem base_wf : BaseWF base where
  edgesNodup := by decide
  nodesNodup := by decide
  closed := by decide
  freshSrc := by decide
  freshSnk := by decide

def st : STGraph := augment base [] []

theorem st_nodes : st.g.nodes = ["s", "a", "t", "source", "sink"] := by decide
theorem st_edges : st.g.edges =
    [("s", "a"), ("a", "a"), ("a", "t"), ("t", "sink"), ("source", "s")] := by decide

theorem st_wf : STWFc st := augment_wfc base [] [] base_wf

def cfg : WalkCfg := { k := 1 }

/-- the self-loop may be used twice, every other edge once -/
def ub : Edge → Rat := fun e => if e = ("a", "a") then 2 else 1

/-- layer 0: `source, s, a, a, a, t, sink`; the selected in-edges form the spanning path
`source, s, a, t, sink` (the loop is not selected), distances count along it -/
def asg : Asg := fun v =>
  if v = edgeVar ("a", "a") 0 then 2
  else if v ∈ [edgeVar ("source", "s") 0, edgeVar ("s", "a") 0, edgeVar ("a", "t") 0,
      edgeVar ("t", "sink") 0, selVar ("source", "s") 0, selVar ("s", "a") 0, selVar ("a", "t") 0,
      selVar ("t", "sink") 0, distVar "source" 0] then 1
  else if v = distVar "s" 0 then 2
  else if v = distVar "a" 0 then 3
  else if v = distVar "t" 0 then 4
  else if v = distVar "sink" 0 then 5
  else 0

/-! ## a boolean checker for `Sat` on closed instances -/

def rowCheck (a : Asg) (r : Row) : Bool :=
  (match r.lo with
    | none => true
    | some l => decide (l ≤ evalTerms a r.terms)) &&
  (match r.hi with
    | none => true
    | some h => decide (evalTerms a r.terms ≤ h))

def colCheck (a : Asg) (c : Col) : Bool :=
  decide (c.lb ≤ a c.v) &&
  (match c.ub with
    | none => true
    | some u => decide (a c.v ≤ u)) &&
  (!c.isInt || decide (a c.v = ((a c.v).floor : Rat)))

theorem row_holds_of_check (a : Asg) (r : Row) (h : rowCheck a r = true) : r.holds a := by
  unfold rowCheck at h
  rw [Bool.and_eq_true] at h
  constructor
  · intro l hl
    have h1 := h.1
    rw [hl] at h1
    simpa using h1
  · intro u hu
    have h2 := h.2
    rw [hu] at h2
    simpa using h2

theorem col_holds_of_check (a : Asg) (c : Col) (h : colCheck a c = true) : c.holds a := by
  unfold colCheck at h
  rw [Bool.and_eq_true, Bool.and_eq_true] at h
  refine ⟨by simpa using h.1.1, ?_, ?_⟩
  · intro u hu
    have h2 := h.1.2
    rw [hu] at h2
    simpa using h2
  · intro hint
    have h3 := h.2
    rw [hint] at h3
    exact ⟨(a c.v).floor, by simpa using h3⟩

theorem sat_of_check (a : Asg) (lp : LP)
    (hc : lp.cols.all (colCheck a) = true) (hr : lp.rows.all (rowCheck a) = true) : Sat a lp :=
  ⟨fun c hm => col_holds_of_check a c (List.all_eq_true.1 hc c hm),
   fun r hm => row_holds_of_check a r (List.all_eq_true.1 hr r hm)⟩

/-- the LP of `encodeWalks` on the augmented example graph is satisfiable -/
theorem sat_example : Sat asg (encodeWalks st cfg ub) :=
  sat_of_check _ _ (by decide +kernel) (by decide +kernel)

/-- 15 columns (5 edge, 5 distance, 5 selected) and 23 rows (1 + 3 + 5 + 8 + 1 + 5) were checked -/
example : (encodeWalks st cfg ub).cols.length = 15 ∧ (encodeWalks st cfg ub).rows.length = 23 := by
  decide

theorem decode_example : decodeWalkLayer st asg 0 = ["s", "a", "a", "a", "t"] := by decide +kernel

/-- the layer leaves the source, so the exactness clause of `walkcore_sound` applies -/
theorem leaves_source : ∃ v ∈ st.g.succ st.source, multOf asg 0 (st.source, v) ≠ 0 :=
  ⟨"s", by decide, by decide +kernel⟩

example := walkcore_sound st cfg ub asg st_wf sat_example 0 (by decide)

/-- the traversal counts of the decoded walk are exactly the multiplicities: the loop is used twice -/
example : traversals ("source" :: decodeWalkLayer st asg 0 ++ ["sink"]) ("a", "a") = 2 := by
  have := (walkcore_sound st cfg ub asg st_wf sat_example 0 (by decide)).2.2 leaves_source ("a", "a")
  exact this.trans (by decide +kernel)

example : ValidRoute base [] [] ["s", "a", "a", "a", "t"] := by
  have := (walk_routes_valid base [] [] cfg ub asg base_wf sat_example 0 (by decide)).2
  rw [show decodeWalkLayer (augment base [] []) asg 0 = ["s", "a", "a", "a", "t"] from decode_example]
    at this
  exact this (by decide)

end FP.WalkCoreExample
