import FP.Model.WalkCore
import FP.Spec.Routes
import FP.Proofs.WalkLemmas
/-!
# FP.Proofs.Reach — the iterated-closure reachability of the model is complete; non-SCC edges

`reachFrom g v` iterates `stepClosure` `|V|` times. Each round either adds a vertex or has reached a
fixpoint, and a fixpoint is closed under the edges, so after `|V|` rounds everything reachable from `v`
is in the list (`reachFrom_complete`). Consequence: an edge that a walk runs through twice has both
endpoints in one SCC as `isSccEdge` computes it (`isSccEdge_of_twice`), i.e. a walk runs through an
edge outside the SCCs at most once (`nonScc_once_proof`).
-/
namespace FP
open FP.Spec

def stepOne (acc : List Node) (e : Edge) : List Node :=
  if acc.contains e.1 && !acc.contains e.2 then acc ++ [e.2] else acc

theorem stepClosure_eq (es : List Edge) (seen : List Node) :
    stepClosure es seen = es.foldl stepOne seen := rfl

theorem stepClosure_cons (e : Edge) (es : List Edge) (seen : List Node) :
    stepClosure (e :: es) seen = stepClosure es (stepOne seen e) := rfl

theorem stepOne_mono (acc : List Node) (e : Edge) (x : Node) (h : x ∈ acc) : x ∈ stepOne acc e := by
  unfold stepOne; split
  · exact List.mem_append_left _ h
  · exact h

theorem stepOne_edge (acc : List Node) (e : Edge) (h : e.1 ∈ acc) : e.2 ∈ stepOne acc e := by
  unfold stepOne
  by_cases h2 : e.2 ∈ acc
  · have : (acc.contains e.1 && !acc.contains e.2) = false := by simp [h2]
    rw [this]; exact h2
  · have : (acc.contains e.1 && !acc.contains e.2) = true := by simp [h, h2]
    rw [this]; simp

theorem stepOne_prefix (acc : List Node) (e : Edge) : ∃ extra, stepOne acc e = acc ++ extra := by
  unfold stepOne; split
  · exact ⟨[e.2], rfl⟩
  · exact ⟨[], by simp⟩

theorem stepOne_nodup (acc : List Node) (e : Edge) (h : acc.Nodup) : (stepOne acc e).Nodup := by
  unfold stepOne; split
  · rename_i hc
    have h2 : e.2 ∉ acc := by
      rw [Bool.and_eq_true] at hc
      simpa using hc.2
    exact List.nodup_append.2 ⟨h, by simp, fun a ha b hb => by
      have : b = e.2 := by simpa using hb
      subst this
      exact fun hab => h2 (hab ▸ ha)⟩
  · exact h

theorem stepOne_sub (acc : List Node) (e : Edge) (U : List Node) (hs : ∀ x ∈ acc, x ∈ U) (he : e.2 ∈ U) :
    ∀ x ∈ stepOne acc e, x ∈ U := by
  unfold stepOne; split
  · intro x hx
    rcases List.mem_append.1 hx with h | h
    · exact hs x h
    · have : x = e.2 := by simpa using h
      rw [this]; exact he
  · exact hs

theorem stepClosure_mono (es : List Edge) : ∀ (seen : List Node) (x : Node), x ∈ seen → x ∈ stepClosure es seen := by
  induction es with
  | nil => intro seen x h; exact h
  | cons e es ih =>
    intro seen x h
    rw [stepClosure_cons]
    exact ih _ x (stepOne_mono seen e x h)

theorem stepClosure_edge (es : List Edge) : ∀ (seen : List Node), ∀ e ∈ es, e.1 ∈ seen → e.2 ∈ stepClosure es seen := by
  induction es with
  | nil => intro seen e he; simp at he
  | cons e' es ih =>
    intro seen e he h1
    rw [stepClosure_cons]
    rcases List.mem_cons.1 he with h | h
    · subst h
      exact stepClosure_mono es _ _ (stepOne_edge seen e h1)
    · exact ih _ e h (stepOne_mono seen e' _ h1)

theorem stepClosure_prefix (es : List Edge) : ∀ seen : List Node, ∃ extra, stepClosure es seen = seen ++ extra := by
  induction es with
  | nil => intro seen; exact ⟨[], by simp [stepClosure]⟩
  | cons e es ih =>
    intro seen
    rw [stepClosure_cons]
    obtain ⟨x1, h1⟩ := stepOne_prefix seen e
    obtain ⟨x2, h2⟩ := ih (stepOne seen e)
    exact ⟨x1 ++ x2, by rw [h2, h1, List.append_assoc]⟩

theorem stepClosure_nodup (es : List Edge) : ∀ seen : List Node, seen.Nodup → (stepClosure es seen).Nodup := by
  induction es with
  | nil => intro seen h; exact h
  | cons e es ih =>
    intro seen h
    rw [stepClosure_cons]
    exact ih _ (stepOne_nodup seen e h)

theorem stepClosure_sub (es : List Edge) (U : List Node) (hU : ∀ e ∈ es, e.2 ∈ U) :
    ∀ seen : List Node, (∀ x ∈ seen, x ∈ U) → ∀ x ∈ stepClosure es seen, x ∈ U := by
  induction es with
  | nil => intro seen h; exact h
  | cons e es ih =>
    intro seen h
    rw [stepClosure_cons]
    exact ih (fun e' he' => hU e' (by simp [he'])) _ (stepOne_sub seen e U h (hU e (by simp)))

theorem stepClosure_fix_of_length (es : List Edge) (seen : List Node)
    (h : (stepClosure es seen).length ≤ seen.length) : stepClosure es seen = seen := by
  obtain ⟨extra, he⟩ := stepClosure_prefix es seen
  rw [he] at h ⊢
  rw [List.length_append] at h
  have : extra = [] := List.eq_nil_of_length_eq_zero (by omega)
  rw [this]; simp

theorem closed_of_fix (es : List Edge) (S : List Node) (h : stepClosure es S = S) :
    ∀ e ∈ es, e.1 ∈ S → e.2 ∈ S := by
  intro e he h1
  have := stepClosure_edge es S e he h1
  rwa [h] at this

theorem closure_mono (es : List Edge) : ∀ (n : Nat) (seen : List Node) (x : Node), x ∈ seen → x ∈ closure es n seen := by
  intro n
  induction n with
  | zero => intro seen x h; exact h
  | succ n ih =>
    intro seen x h
    exact ih _ x (stepClosure_mono es seen x h)

theorem closure_fix (es : List Edge) (S : List Node) (h : stepClosure es S = S) :
    ∀ n, closure es n S = S := by
  intro n
  induction n with
  | zero => rfl
  | succ n ih => show closure es n (stepClosure es S) = S; rw [h]; exact ih

/-- after enough rounds the list is closed under the edges -/
theorem closure_closed (es : List Edge) (U : List Node) (hU : ∀ e ∈ es, e.2 ∈ U) :
    ∀ (n : Nat) (seen : List Node), seen.Nodup → (∀ x ∈ seen, x ∈ U) → U.length ≤ seen.length + n →
      ∀ e ∈ es, e.1 ∈ closure es n seen → e.2 ∈ closure es n seen := by
  intro n
  induction n with
  | zero =>
    intro seen hnd hsub hlen
    have hS := stepClosure_nodup es seen hnd
    have hSU := stepClosure_sub es U hU seen hsub
    have hle : (stepClosure es seen).length ≤ U.length := hS.length_le_of_subset (fun x hx => hSU x hx)
    have hfix := stepClosure_fix_of_length es seen (by omega)
    exact closed_of_fix es seen hfix
  | succ n ih =>
    intro seen hnd hsub hlen
    show ∀ e ∈ es, e.1 ∈ closure es n (stepClosure es seen) → e.2 ∈ closure es n (stepClosure es seen)
    by_cases hl : (stepClosure es seen).length ≤ seen.length
    · have hfix := stepClosure_fix_of_length es seen hl
      rw [hfix, closure_fix es seen hfix n]
      exact closed_of_fix es seen hfix
    · exact ih _ (stepClosure_nodup es seen hnd) (stepClosure_sub es U hU seen hsub) (by omega)

theorem reach_closed {es : List Edge} (S : List Node) (hcl : ∀ e ∈ es, e.1 ∈ S → e.2 ∈ S) {x y : Node}
    (h : Reach es x y) (hx : x ∈ S) : y ∈ S := by
  induction h with
  | refl => exact hx
  | step _ hmem ih => exact hcl _ hmem ih

/-- the model's reachability list contains everything reachable -/
theorem reachFrom_complete (g : Graph) (hcl : ∀ e ∈ g.edges, e.1 ∈ g.nodes ∧ e.2 ∈ g.nodes) (v y : Node)
    (hv : v ∈ g.nodes) (h : Reach g.edges v y) : y ∈ reachFrom g v := by
  unfold reachFrom
  have hclosed := closure_closed g.edges g.nodes (fun e he => (hcl e he).2) g.nodes.length [v]
    (by simp) (by intro x hx; have : x = v := by simpa using hx
                  rw [this]; exact hv) (by simp)
  exact reach_closed _ hclosed h (closure_mono g.edges _ [v] v (by simp))

theorem lookup_reachTable (g : Graph) (v : Node) (hv : v ∈ g.nodes) :
    lookupD (reachTable g) v [] = reachFrom g v := by
  unfold lookupD reachTable
  have : ∀ l : List Node, v ∈ l → (l.map fun v => (v, reachFrom g v)).lookup v = some (reachFrom g v) := by
    intro l
    induction l with
    | nil => intro h; simp at h
    | cons x xs ih =>
      intro h
      simp only [List.map_cons, List.lookup_cons]
      by_cases hx : v = x
      · subst hx; simp
      · have : (v == x) = false := by simpa using hx
        rw [this]
        exact ih (by simpa [hx] using h)
  rw [this _ hv]; rfl

/-- mutual reachability makes an SCC edge in the sense of `stDiGraph.is_scc_edge` -/
theorem isSccEdge_of_reach (g : Graph) (hcl : ∀ e ∈ g.edges, e.1 ∈ g.nodes ∧ e.2 ∈ g.nodes) (e : Edge)
    (he : e ∈ g.edges) (hback : Reach g.edges e.2 e.1) : isSccEdge g e = true := by
  unfold isSccEdge sameScc
  rw [lookup_reachTable g e.1 (hcl e he).1, lookup_reachTable g e.2 (hcl e he).2]
  have h1 : e.2 ∈ reachFrom g e.1 :=
    reachFrom_complete g hcl e.1 e.2 (hcl e he).1 (Reach.step (Reach.refl _) he)
  have h2 : e.1 ∈ reachFrom g e.2 := reachFrom_complete g hcl e.2 e.1 (hcl e he).2 hback
  simp [h1, h2]

/-! ## walks -/

/-- in a walk starting at `x`, the tail of every edge of the walk is reachable from `x` -/
theorem reach_tail_of_walk (g : Graph) : ∀ (L : List Node) (x : Node), IsWalkIn g (x :: L) →
    ∀ e ∈ walkEdges (x :: L), Reach g.edges x e.1 := by
  intro L
  induction L with
  | nil => intro x _ e he; simp [walkEdges] at he
  | cons y ys ih =>
    intro x hW e he
    rw [walkEdges_cons_cons] at he
    rcases List.mem_cons.1 he with h | h
    · rw [h]; exact Reach.refl _
    · have hxy : (x, y) ∈ g.edges := hW _ (by rw [walkEdges_cons_cons]; simp)
      have hW' : IsWalkIn g (y :: ys) := fun e' he' => hW e' (by rw [walkEdges_cons_cons]; simp [he'])
      have := ih y hW' e h
      -- prepend the edge (x, y)
      have hpre : ∀ z, Reach g.edges y z → Reach g.edges x z := by
        intro z hz
        induction hz with
        | refl => exact Reach.step (Reach.refl _) hxy
        | step _ hm ih' => exact Reach.step ih' hm
      exact hpre _ this

/-- an edge that a walk runs through twice closes a cycle -/
theorem reach_back_of_twice (g : Graph) : ∀ (L : List Node), IsWalkIn g L → ∀ e : Edge,
    2 ≤ (walkEdges L).count e → Reach g.edges e.2 e.1 := by
  intro L
  induction L with
  | nil => intro _ e h; simp [walkEdges] at h
  | cons x L ih =>
    intro hW e h
    cases L with
    | nil => simp [walkEdges] at h
    | cons y ys =>
      rw [walkEdges_cons_cons] at h
      have hW' : IsWalkIn g (y :: ys) := fun e' he' => hW e' (by rw [walkEdges_cons_cons]; simp [he'])
      by_cases hxy : (x, y) = e
      · have hpos : 0 < (walkEdges (y :: ys)).count e := by
          rw [List.count_cons] at h
          have hb : ((x, y) == e) = true := by simpa using hxy
          rw [hb] at h
          have h1 : (if true = true then 1 else 0) = 1 := rfl
          rw [h1] at h
          omega
        have hmem : e ∈ walkEdges (y :: ys) := List.count_pos_iff.1 hpos
        have := reach_tail_of_walk g ys y hW' e hmem
        rw [← hxy] at this ⊢
        exact this
      · have : 2 ≤ (walkEdges (y :: ys)).count e := by
          rw [List.count_cons] at h
          have : ((x, y) == e) = false := by simpa using hxy
          simp [this] at h
          exact h
        exact ih hW' e this

/-- **a walk runs through an edge outside the SCCs at most once** -/
theorem nonScc_once_proof (g : Graph) (hcl : ∀ e ∈ g.edges, e.1 ∈ g.nodes ∧ e.2 ∈ g.nodes)
    (L : List Node) (hW : IsWalkIn g L) (e : Edge) (he : e ∈ g.edges) (hscc : isSccEdge g e = false) :
    traversals L e ≤ 1 := by
  apply Classical.byContradiction
  intro hgt
  have h2 : 2 ≤ (walkEdges L).count e := by unfold traversals at hgt; omega
  have := isSccEdge_of_reach g hcl e he (reach_back_of_twice g L hW e h2)
  rw [hscc] at this
  cases this

/-! ## soundness of the closure; synthetic edges are not SCC edges -/

theorem stepOne_sound (all : List Edge) (v : Node) (acc : List Node) (e : Edge) (he : e ∈ all)
    (h : ∀ y ∈ acc, Reach all v y) : ∀ y ∈ stepOne acc e, Reach all v y := by
  unfold stepOne; split
  · rename_i hc
    rw [Bool.and_eq_true] at hc
    have h1 : e.1 ∈ acc := by simpa using hc.1
    intro y hy
    rcases List.mem_append.1 hy with hy | hy
    · exact h y hy
    · have : y = e.2 := by simpa using hy
      rw [this]; exact Reach.step (h _ h1) he
  · exact h

theorem stepClosure_sound (all : List Edge) (v : Node) : ∀ (es : List Edge), (∀ e ∈ es, e ∈ all) →
    ∀ seen : List Node, (∀ y ∈ seen, Reach all v y) → ∀ y ∈ stepClosure es seen, Reach all v y := by
  intro es
  induction es with
  | nil => intro _ seen h; exact h
  | cons e es ih =>
    intro hsub seen h
    rw [stepClosure_cons]
    exact ih (fun e' he' => hsub e' (by simp [he'])) _ (stepOne_sound all v seen e (hsub e (by simp)) h)

theorem closure_sound (all : List Edge) (v : Node) : ∀ (n : Nat) (seen : List Node),
    (∀ y ∈ seen, Reach all v y) → ∀ y ∈ closure all n seen, Reach all v y := by
  intro n
  induction n with
  | zero => intro seen h; exact h
  | succ n ih =>
    intro seen h
    exact ih _ (stepClosure_sound all v all (fun _ h => h) seen h)

theorem reachFrom_sound (g : Graph) (v y : Node) (h : y ∈ reachFrom g v) : Reach g.edges v y :=
  closure_sound g.edges v g.nodes.length [v] (fun y hy => by
    have : y = v := by simpa using hy
    rw [this]; exact Reach.refl _) y h

theorem reach_last {es : List Edge} {x y : Node} (h : Reach es x y) : y = x ∨ ∃ u, (u, y) ∈ es := by
  cases h with
  | refl => exact Or.inl rfl
  | step _ hm => exact Or.inr ⟨_, hm⟩

theorem reach_first' {es : List Edge} {x y : Node} (h : Reach es x y) : y = x ∨ ∃ w, (x, w) ∈ es := by
  induction h with
  | refl => exact Or.inl rfl
  | step _ hmem ih =>
    rcases ih with rfl | h
    · exact Or.inr ⟨_, hmem⟩
    · exact Or.inr h

/-- an edge leaving a vertex without in-edges, or entering a vertex without out-edges, is not an SCC edge -/
theorem not_scc_of_terminal (g : Graph) (hcl : ∀ e ∈ g.edges, e.1 ∈ g.nodes ∧ e.2 ∈ g.nodes) (e : Edge)
    (he : e ∈ g.edges)
    (hterm : (∀ e' ∈ g.edges, e'.2 ≠ e.1) ∨ (∀ e' ∈ g.edges, e'.1 ≠ e.2)) : isSccEdge g e = false := by
  cases hs : isSccEdge g e with
  | false => rfl
  | true =>
    exfalso
    unfold isSccEdge sameScc at hs
    rw [lookup_reachTable g e.1 (hcl e he).1, lookup_reachTable g e.2 (hcl e he).2,
      Bool.and_eq_true] at hs
    have hback : Reach g.edges e.2 e.1 := reachFrom_sound g e.2 e.1 (by simpa using hs.2)
    rcases hterm with h | h
    · rcases reach_last hback with h1 | ⟨u, hu⟩
      · exact h e he h1.symm
      · exact h (u, e.1) hu rfl
    · rcases reach_first' hback with h1 | ⟨w, hw⟩
      · exact h e he h1
      · exact h (e.2, w) hw rfl

end FP
