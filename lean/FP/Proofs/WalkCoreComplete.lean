import FP.Proofs.WalkCore
import FP.Model.Enc.KFDCWitness
/-!
# FP.Proofs.WalkCoreComplete — completeness of the walk encoding (`_encode_walks`, subset block)

Given, for every layer, natural multiplicities `m` that are conserved, leave the source once, respect
the per-edge bounds, together with *connectivity witnesses* — a choice `sel` of at most one entering
edge of positive multiplicity for every vertex with in-flow and ranks `dist` that increase along the
chosen edges, start with `1` at the source and stay within `|V|` (`LayerWitness`) — every assignment
that carries these values on the `edge`, `selected_edge` and `distance` columns satisfies all columns
and all rows 17a, 17b, 21, 22a, 22b, 18a, 19c (`encodeWalks_sat`); with the `used_edge` and `r` columns
set to "edge used" and "constraint covered" it satisfies the subset block (`subsetBlock_sat`).
-/
namespace FP
open FP.Spec

/-! ## rows from (in)equalities -/

theorem rowEq_holds_p04 (a : Asg) (ts : Terms) (c : Rat) (h : evalTerms a ts = c) : (rowEq ts c).holds a := by
  constructor
  · intro l hl; cases hl; show c ≤ evalTerms a ts; rw [h]; exact Rat.le_refl
  · intro u hu; cases hu; show evalTerms a ts ≤ c; rw [h]; exact Rat.le_refl

theorem rowLe_holds_p04 (a : Asg) (ts : Terms) (c : Rat) (h : evalTerms a ts ≤ c) : (rowLe ts c).holds a := by
  constructor
  · intro l hl; cases hl
  · intro u hu; cases hu; exact h

theorem rowGe_holds_p04 (a : Asg) (ts : Terms) (c : Rat) (h : c ≤ evalTerms a ts) : (rowGe ts c).holds a := by
  constructor
  · intro l hl; cases hl; exact h
  · intro u hu; cases hu

theorem natCast_isInt (n : Nat) : ∃ z : Int, (n : Rat) = z := ⟨(n : Int), (Rat.intCast_natCast n).symm⟩

theorem sum_map_mul_left_p04 {α} (l : List α) (f : α → Rat) (k : Rat) :
    (l.map (fun x => k * f x)).sum = k * (l.map f).sum := by
  induction l with
  | nil => simp
  | cons x xs ih => simp only [List.map_cons, List.sum_cons, ih]; grind

/-- the witnesses of one layer -/
structure LayerWitness (s : STGraph) (ae : Bool) (ub : Edge → Rat) (m : Edge → Nat)
    (sel : Edge → Bool) (dist : Node → Nat) : Prop where
  src : if ae then outN s.g m s.source ≤ 1 else outN s.g m s.source = 1
  cons : ∀ v ∈ s.g.nodes, v ≠ s.source → v ≠ s.sink → inN s.g m v = outN s.g m v
  cap : ∀ e ∈ s.g.edges, (m e : Rat) ≤ ub e
  sel_pos : ∀ e ∈ s.g.edges, sel e = true → 1 ≤ m e
  sel_ex : ∀ v ∈ s.g.nodes, v ≠ s.source → inN s.g m v ≠ 0 → ∃ u ∈ s.g.pred v, sel (u, v) = true
  sel_one : ∀ v ∈ s.g.nodes, ∀ u ∈ s.g.pred v, ∀ u' ∈ s.g.pred v,
    sel (u, v) = true → sel (u', v) = true → u = u'
  dist_src : dist s.source = 1
  dist_inc : ∀ e ∈ s.g.edges, sel e = true → dist e.1 + 1 ≤ dist e.2
  dist_ub : ∀ v ∈ s.g.nodes, dist v ≤ s.g.nodes.length

/-! ## sums -/

theorem sum_succ_val (g : Graph) (a : Asg) (i : Nat) (mi : Edge → Nat)
    (hx : ∀ e ∈ g.edges, a (edgeVar e i) = (mi e : Rat)) (v : Node) :
    ((g.succ v).map (fun w => a (edgeVar (v, w) i))).sum = (outN g mi v : Rat) := by
  rw [sum_succ g (fun e => a (edgeVar e i)) v]
  unfold outflow outN
  rw [natCast_sum]
  apply sum_map_congr
  intro e he
  exact hx e (List.mem_filter.1 he).1

theorem sum_pred_val (g : Graph) (a : Asg) (i : Nat) (mi : Edge → Nat)
    (hx : ∀ e ∈ g.edges, a (edgeVar e i) = (mi e : Rat)) (v : Node) :
    ((g.pred v).map (fun u => a (edgeVar (u, v) i))).sum = (inN g mi v : Rat) := by
  rw [sum_pred g (fun e => a (edgeVar e i)) v]
  unfold inflow inN
  rw [natCast_sum]
  apply sum_map_congr
  intro e he
  exact hx e (List.mem_filter.1 he).1

/-- a 0/1 indicator summed over a duplicate-free list on which at most one element is marked -/
theorem sum_ind_le_one {α} (l : List α) (hnd : l.Nodup) (p : α → Bool)
    (h : ∀ x ∈ l, ∀ y ∈ l, p x = true → p y = true → x = y) :
    (l.map fun x => if p x then (1 : Rat) else 0).sum ≤ 1 := by
  induction l with
  | nil => simp only [List.map_nil, List.sum_nil]; grind
  | cons x xs ih =>
    have hx := List.nodup_cons.1 hnd
    simp only [List.map_cons, List.sum_cons]
    by_cases hp : p x = true
    · have hz : (xs.map fun y => if p y then (1 : Rat) else 0).sum = 0 := by
        apply sum_map_zero
        intro y hy
        have : p y ≠ true := by
          intro hpy
          have := h x (by simp) y (by simp [hy]) hp hpy
          exact hx.1 (this ▸ hy)
        simp [this]
      rw [hz]; simp only [hp, if_true]; grind
    · have := ih hx.2 (fun a ha b hb => h a (by simp [ha]) b (by simp [hb]))
      simp only [hp]
      grind

theorem one_le_sum_ind {α} (l : List α) (p : α → Bool) (x : α) (hx : x ∈ l) (hp : p x = true) :
    (1 : Rat) ≤ (l.map fun x => if p x then (1 : Rat) else 0).sum := by
  have := le_sum_of_mem l (fun x => if p x then (1 : Rat) else 0)
    (fun y _ => by by_cases h : p y = true <;> simp only [h] <;> grind) x hx
  simpa [hp] using this

theorem pred_nodup (g : Graph) (hnd : g.edges.Nodup) (v : Node) : (g.pred v).Nodup := by
  unfold Graph.pred
  have hf : (g.edges.filter (·.2 = v)).Nodup := hnd.filter _
  have hp : (g.edges.filter (·.2 = v)).Pairwise (fun e e' => e.1 ≠ e'.1) := by
    apply List.Pairwise.imp_of_mem _ hf
    intro e e' he he' hne h
    have h1 : e.2 = v := by simpa using (List.mem_filter.1 he).2
    have h2 : e'.2 = v := by simpa using (List.mem_filter.1 he').2
    exact hne (Prod.ext h (h1.trans h2.symm))
  exact List.Pairwise.map _ (fun _ _ h => h) hp

/-! ## the walk rows -/

theorem encodeWalks_sat (s : STGraph) (c : WalkCfg) (ub : Edge → Rat) (a : Asg)
    (hnd : s.g.edges.Nodup) (hcl : ∀ e ∈ s.g.edges, e.1 ∈ s.g.nodes ∧ e.2 ∈ s.g.nodes)
    (hsrc : s.source ∈ s.g.nodes)
    (m : Nat → Edge → Nat) (sel : Nat → Edge → Bool) (dist : Nat → Node → Nat)
    (hw : ∀ i, i < c.k → LayerWitness s c.allowEmpty ub (m i) (sel i) (dist i))
    (hx : ∀ i, i < c.k → ∀ e ∈ s.g.edges, a (edgeVar e i) = (m i e : Rat))
    (hs : ∀ i, i < c.k → ∀ e ∈ s.g.edges, a (selVar e i) = if sel i e then 1 else 0)
    (hd : ∀ i, i < c.k → ∀ v ∈ s.g.nodes, a (distVar v i) = (dist i v : Rat)) :
    Sat a (encodeWalks s c ub) := by
  constructor
  · -- columns
    intro col hcol
    simp only [encodeWalks, List.mem_append] at hcol
    rcases hcol with (h | h) | h
    · obtain ⟨i, hi, h⟩ := List.mem_flatMap.1 h
      obtain ⟨e, he, rfl⟩ := List.mem_map.1 h
      have hi' := List.mem_range.1 hi
      simp only [Col.holds, hx i hi' e he]
      refine ⟨Rat.natCast_nonneg, ?_, fun _ => natCast_isInt _⟩
      intro u hu; cases hu
      exact (hw i hi').cap e he
    · obtain ⟨i, hi, h⟩ := List.mem_flatMap.1 h
      obtain ⟨v, hv, rfl⟩ := List.mem_map.1 h
      have hi' := List.mem_range.1 hi
      simp only [Col.holds, hd i hi' v hv]
      refine ⟨Rat.natCast_nonneg, ?_, fun _ => natCast_isInt _⟩
      intro u hu; cases hu
      exact Rat.natCast_le_natCast.2 ((hw i hi').dist_ub v hv)
    · obtain ⟨i, hi, h⟩ := List.mem_flatMap.1 h
      obtain ⟨e, he, rfl⟩ := List.mem_map.1 h
      have hi' := List.mem_range.1 hi
      simp only [Col.holds, hs i hi' e he]
      by_cases hse : sel i e = true
      · simp only [hse, if_true]
        exact ⟨by decide, fun u hu => by cases hu; exact Rat.le_refl, fun _ => ⟨1, by simp⟩⟩
      · simp only [hse]
        exact ⟨Rat.le_refl, fun u hu => by cases hu; decide, fun _ => ⟨0, by simp⟩⟩
  · -- rows
    intro r hr
    simp only [encodeWalks, List.mem_append] at hr
    rcases hr with ((((h | h) | h) | h) | h) | h
    · -- 17a
      obtain ⟨i, hi, rfl⟩ := List.mem_map.1 h
      have hi' := List.mem_range.1 hi
      have hsum := sum_succ_val s.g a i (m i) (hx i hi') s.source
      have hsrcw := (hw i hi').src
      cases hae : c.allowEmpty
      · rw [hae] at hsrcw
        simp only [Bool.false_eq_true, if_false] at hsrcw ⊢
        apply rowEq_holds_p04
        rw [evalTerms_ones, hsum, hsrcw]; simp
      · rw [hae] at hsrcw
        simp only [if_true] at hsrcw ⊢
        apply rowLe_holds_p04
        rw [evalTerms_ones, hsum]
        have : ((outN s.g (m i) s.source : Nat) : Rat) ≤ ((1 : Nat) : Rat) := Rat.natCast_le_natCast.2 hsrcw
        simpa using this
    · -- 17b
      obtain ⟨i, hi, h⟩ := List.mem_flatMap.1 h
      obtain ⟨v, hv, rfl⟩ := List.mem_map.1 h
      have hi' := List.mem_range.1 hi
      have hv' := List.mem_filter.1 hv
      have hne : v ≠ s.source ∧ v ≠ s.sink := by simpa using hv'.2
      apply rowEq_holds_p04
      rw [evalTerms_append, evalTerms_negTerms, evalTerms_ones, evalTerms_ones,
        sum_pred_val s.g a i (m i) (hx i hi') v, sum_succ_val s.g a i (m i) (hx i hi') v,
        (hw i hi').cons v hv'.1 hne.1 hne.2]
      grind
    · -- 21
      obtain ⟨i, hi, h⟩ := List.mem_flatMap.1 h
      obtain ⟨e, he, rfl⟩ := List.mem_map.1 h
      have hi' := List.mem_range.1 hi
      apply rowGe_holds_p04
      simp only [evalTerms, List.map_cons, List.map_nil, List.sum_cons, List.sum_nil,
        hx i hi' e he, hs i hi' e he]
      by_cases hse : sel i e = true
      · have : ((1 : Nat) : Rat) ≤ (m i e : Rat) := Rat.natCast_le_natCast.2 ((hw i hi').sel_pos e he hse)
        simp only [hse, if_true]
        have h1 : (1 : Rat) ≤ (m i e : Rat) := by simpa using this
        grind
      · have : (0 : Rat) ≤ (m i e : Rat) := Rat.natCast_nonneg
        simp only [hse]
        grind
    · -- 22a, 22b
      obtain ⟨i, hi, h⟩ := List.mem_flatMap.1 h
      obtain ⟨v, hv, h⟩ := List.mem_flatMap.1 h
      have hi' := List.mem_range.1 hi
      have hv' := List.mem_filter.1 hv
      have hne : v ≠ s.source := by simpa using hv'.2
      have hselsum : ((s.g.pred v).map fun u => a (selVar (u, v) i)).sum
          = ((s.g.pred v).map fun u => if sel i (u, v) then (1 : Rat) else 0).sum := by
        apply sum_map_congr
        intro u hu
        exact hs i hi' (u, v) (mem_pred.1 hu)
      have hle1 := sum_ind_le_one (s.g.pred v) (pred_nodup s.g hnd v) (fun u => sel i (u, v))
        (fun x hx y hy => (hw i hi').sel_one v hv'.1 x hx y hy)
      simp only [List.mem_cons, List.not_mem_nil, or_false] at h
      rcases h with rfl | rfl
      · -- 22a
        apply rowLe_holds_p04
        rw [evalTerms_append, evalTerms_ones, evalTerms_map, sum_pred_val s.g a i (m i) (hx i hi') v,
          sum_map_congr _ _ (fun u => -(((s.g.pred v).map fun u => ub (u, v)).sum) * (if sel i (u, v) then (1 : Rat) else 0))
            (fun u hu => by rw [hs i hi' (u, v) (mem_pred.1 hu)])]
        have hmul := sum_map_mul_left_p04 (s.g.pred v) (fun u => if sel i (u, v) then (1 : Rat) else 0)
          (-(((s.g.pred v).map fun u => ub (u, v)).sum))
        -- the in-flow is at most M_v
        have hM : (inN s.g (m i) v : Rat) ≤ ((s.g.pred v).map fun u => ub (u, v)).sum := by
          rw [← sum_pred_val s.g a i (m i) (hx i hi') v]
          have : ∀ l : List Node, (∀ u ∈ l, (u, v) ∈ s.g.edges) →
              (l.map fun u => a (edgeVar (u, v) i)).sum ≤ (l.map fun u => ub (u, v)).sum := by
            intro l
            induction l with
            | nil => intro _; simp
            | cons x xs ih =>
              intro hl
              have h1 := hx i hi' (x, v) (hl x (by simp))
              have h2 := (hw i hi').cap (x, v) (hl x (by simp))
              have h3 := ih (fun u hu => hl u (by simp [hu]))
              simp only [List.map_cons, List.sum_cons, h1]
              grind
          exact this _ (fun u hu => mem_pred.1 hu)
        have hin0 : (0 : Rat) ≤ (inN s.g (m i) v : Rat) := Rat.natCast_nonneg
        rw [hmul]
        generalize hMv : ((s.g.pred v).map fun u => ub (u, v)).sum = Mv at hM ⊢
        by_cases hin : inN s.g (m i) v = 0
        · rw [hin]
          have hsel0 : (0 : Rat) ≤ ((s.g.pred v).map fun u => if sel i (u, v) then (1 : Rat) else 0).sum :=
            sum_map_nonneg _ _ (fun u _ => by by_cases h : sel i (u, v) = true <;> simp only [h] <;> grind)
          have hMv0 : (0 : Rat) ≤ Mv := by rw [hin] at hM; simpa using hM
          have := Rat.mul_nonneg hMv0 hsel0
          have hz : ((0 : Nat) : Rat) = 0 := by simp
          rw [hz]
          grind
        · obtain ⟨u, hu, hsu⟩ := (hw i hi').sel_ex v hv'.1 hne hin
          have h1 := one_le_sum_ind (s.g.pred v) (fun u => sel i (u, v)) u hu hsu
          generalize ((s.g.pred v).map fun u => if sel i (u, v) then (1 : Rat) else 0).sum = S at h1 hle1 ⊢
          have hS : S = 1 := Rat.le_antisymm hle1 h1
          subst hS
          grind
      · -- 22b
        apply rowLe_holds_p04
        rw [evalTerms_ones, hselsum]
        exact hle1
    · -- 18a
      obtain ⟨i, hi, rfl⟩ := List.mem_map.1 h
      have hi' := List.mem_range.1 hi
      apply rowEq_holds_p04
      rw [evalTerms_single, hd i hi' s.source hsrc, (hw i hi').dist_src]
      simp
    · -- 19c
      obtain ⟨i, hi, h⟩ := List.mem_flatMap.1 h
      obtain ⟨e, he, rfl⟩ := List.mem_map.1 h
      have hi' := List.mem_range.1 hi
      apply rowGe_holds_p04
      simp only [evalTerms, List.map_cons, List.map_nil, List.sum_cons, List.sum_nil,
        hd i hi' e.1 (hcl e he).1, hd i hi' e.2 (hcl e he).2, hs i hi' e he]
      by_cases hse : sel i e = true
      · have := (hw i hi').dist_inc e he hse
        have h1 : ((dist i e.1 + 1 : Nat) : Rat) ≤ (dist i e.2 : Rat) := Rat.natCast_le_natCast.2 this
        simp only [Rat.natCast_add] at h1
        simp only [hse, if_true]
        have h1' : (dist i e.1 : Rat) + 1 ≤ (dist i e.2 : Rat) := by simpa using h1
        grind
      · have h1 : (dist i e.1 : Rat) ≤ (s.g.nodes.length : Rat) :=
          Rat.natCast_le_natCast.2 ((hw i hi').dist_ub e.1 (hcl e he).1)
        have h2 : (0 : Rat) ≤ (dist i e.2 : Rat) := Rat.natCast_nonneg
        simp only [hse]
        grind

/-! ## the subset block -/

theorem mem_zip_range_p04 {α} (l : List α) (j : Nat) (x : α)
    (h : (j, x) ∈ (List.range l.length).zip l) : ∃ hj : j < l.length, x = l[j] := by
  obtain ⟨t, ht, heq⟩ := List.mem_iff_getElem.1 h
  have ht' : t < l.length := by
    have := ht
    rw [List.length_zip, List.length_range] at this
    omega
  rw [List.getElem_zip] at heq
  have h1 : (List.range l.length)[t]'(by rw [List.length_range]; exact ht') = j := congrArg Prod.fst heq
  have h2 : l[t]'ht' = x := congrArg Prod.snd heq
  rw [List.getElem_range] at h1
  subst h1
  exact ⟨ht', h2.symm⟩

theorem ite01_cases (b : Prop) [Decidable b] :
    (if b then (0 : Rat) else 1) = 0 ∨ (if b then (0 : Rat) else 1) = 1 := by
  by_cases h : b <;> simp [h]

theorem subsetBlock_sat (s : STGraph) (c : WalkCfg) (ub : Edge → Rat) (a : Asg)
    (m : Nat → Edge → Nat)
    (hcap : ∀ i, i < c.k → ∀ e ∈ s.g.edges, (m i e : Rat) ≤ ub e)
    (hx : ∀ i, i < c.k → ∀ e ∈ s.g.edges, a (edgeVar e i) = (m i e : Rat))
    (hu : ∀ i, i < c.k → ∀ e : Edge, a (usedVar e i) = if m i e = 0 then 0 else 1)
    (hr : ∀ i, i < c.k → ∀ j (hj : j < c.constraints.length),
      a (rVar i j) = if coversB (m i) c.constraints[j] c.coverage then 1 else 0)
    (hcov : ∀ j (hj : j < c.constraints.length), ∃ i, i < c.k ∧
      coversB (m i) c.constraints[j] c.coverage = true) :
    Sat a (subsetBlock s c ub) := by
  unfold subsetBlock
  split
  · exact ⟨fun _ h => by simp at h, fun _ h => by simp at h⟩
  constructor
  · intro col hcol
    simp only [List.mem_append] at hcol
    rcases hcol with h | h
    · obtain ⟨i, hi, h⟩ := List.mem_flatMap.1 h
      obtain ⟨j, hj, rfl⟩ := List.mem_map.1 h
      have hi' := List.mem_range.1 hi
      have hj' := List.mem_range.1 hj
      simp only [Col.holds, hr i hi' j hj']
      by_cases hc : coversB (m i) c.constraints[j] c.coverage = true
      · simp only [hc, if_true]
        exact ⟨by decide, fun u hu => by cases hu; exact Rat.le_refl, fun _ => ⟨1, by simp⟩⟩
      · simp only [hc]
        exact ⟨Rat.le_refl, fun u hu => by cases hu; decide, fun _ => ⟨0, by simp⟩⟩
    · obtain ⟨i, hi, h⟩ := List.mem_flatMap.1 h
      obtain ⟨e, he, rfl⟩ := List.mem_map.1 h
      have hi' := List.mem_range.1 hi
      simp only [Col.holds, hu i hi' e]
      by_cases hz : m i e = 0
      · simp only [hz, if_true]
        exact ⟨Rat.le_refl, fun u hu => by cases hu; decide, fun _ => ⟨0, by simp⟩⟩
      · simp only [hz, if_false]
        exact ⟨by decide, fun u hu => by cases hu; exact Rat.le_refl, fun _ => ⟨1, by simp⟩⟩
  · intro r hr'
    simp only [List.mem_append] at hr'
    rcases hr' with (h | h) | h
    · -- min1 rows
      obtain ⟨i, hi, h⟩ := List.mem_flatMap.1 h
      obtain ⟨e, he, h⟩ := List.mem_flatMap.1 h
      have hi' := List.mem_range.1 hi
      have hm0 : (0 : Rat) ≤ (m i e : Rat) := Rat.natCast_nonneg
      simp only [List.mem_cons, List.not_mem_nil, or_false] at h
      rcases h with rfl | rfl
      · apply rowLe_holds_p04
        simp only [evalTerms, List.map_cons, List.map_nil, List.sum_cons, List.sum_nil, hu i hi' e,
          hx i hi' e he]
        by_cases hz : m i e = 0
        · simp only [hz, if_true]; grind
        · have : ((1 : Nat) : Rat) ≤ (m i e : Rat) := Rat.natCast_le_natCast.2 (by omega)
          have h1 : (1 : Rat) ≤ (m i e : Rat) := by simpa using this
          simp only [hz, if_false]; grind
      · apply rowLe_holds_p04
        simp only [evalTerms, List.map_cons, List.map_nil, List.sum_cons, List.sum_nil, hu i hi' e,
          hx i hi' e he]
        by_cases hz : m i e = 0
        · have hz' : ((m i e : Nat) : Rat) = 0 := by rw [hz]; simp
          simp only [hz, if_true]
          have h0 : ((0 : Nat) : Rat) = 0 := by simp
          rw [h0]
          grind
        · have := hcap i hi' e he
          simp only [hz, if_false]; grind
    · -- 7a
      obtain ⟨i, hi, h⟩ := List.mem_flatMap.1 h
      obtain ⟨⟨j, con⟩, hjc, rfl⟩ := List.mem_map.1 h
      have hi' := List.mem_range.1 hi
      obtain ⟨hj, rfl⟩ := mem_zip_range_p04 c.constraints j con hjc
      apply rowGe_holds_p04
      simp only
      rw [evalTerms_append, evalTerms_ones, evalTerms_single, hr i hi' j hj,
        sum_map_congr _ _ (fun e => if m i e = 0 then (0 : Rat) else 1) (fun e _ => hu i hi' e)]
      by_cases hc : coversB (m i) c.constraints[j] c.coverage = true
      · have := hc
        unfold coversB at this
        have hle := of_decide_eq_true this
        simp only [hc, if_true]
        grind
      · have h0 : (0 : Rat) ≤ (c.constraints[j].eraseDups.map fun e => if m i e = 0 then (0 : Rat) else 1).sum :=
          sum_map_nonneg _ _ (fun e _ => by rcases ite01_cases (m i e = 0) with h | h <;> rw [h] <;> grind)
        simp only [hc]
        grind
    · -- 7b
      obtain ⟨j, hj, rfl⟩ := List.mem_map.1 h
      have hj' := List.mem_range.1 hj
      obtain ⟨i, hi, hc⟩ := hcov j hj'
      apply rowGe_holds_p04
      rw [evalTerms_ones]
      have hle := le_sum_of_mem (List.range c.k) (fun i => a (rVar i j))
        (fun i' hi' => by
          rw [hr i' (List.mem_range.1 hi') j hj']
          by_cases h : coversB (m i') c.constraints[j] c.coverage = true <;> simp only [h] <;> grind)
        i (List.mem_range.2 hi)
      simp only [hr i hi j hj', hc, if_true] at hle
      exact hle

end FP
