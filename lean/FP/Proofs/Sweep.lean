import FP.Proofs.ReachLemmas
/-!
# FP.Proofs.Sweep — the two dictionary-filling loop shapes compute reachability closures

`has a x` reads "`x` is below / in the value `a`": membership for set-valued tables, `x ≤ a` for
running maxima. If `comb` joins its two arguments with respect to `has`, then sweeping in an order
in which every out-neighbour is handled earlier (`pullSweep`) resp. every in-neighbour is handled
earlier (`pushSweep`) yields the join over everything reachable.
-/
namespace FP
open FP.Spec

section
variable {κ α β : Type} [DecidableEq κ]

/-- `order` lists every endpoint of `es`, once; no edge of `es` points from a later to an earlier
(or the same) element -/
structure IsTopo (es : List (κ × κ)) (order : List κ) : Prop where
  nodup : order.Nodup
  cover : ∀ e ∈ es, e.1 ∈ order ∧ e.2 ∈ order
  noloop : ∀ a, (a, a) ∉ es
  fwd : order.Pairwise (fun a b => (b, a) ∉ es)

theorem pull_inner (has : α → β → Prop) (comb : κ → κ → α → α → α) (Ex : κ → κ → β → Prop)
    (hcomb : ∀ c s a b x, has (comb c s a b) x ↔ has a x ∨ has b x ∨ Ex c s x)
    (c : κ) (l : List κ) (hc : c ∉ l) (t : Tbl κ α) :
    (∀ k, k ≠ c → (l.foldl (fun t s => t.set c (comb c s (t.get c) (t.get s))) t).get k = t.get k) ∧
    ∀ x, has ((l.foldl (fun t s => t.set c (comb c s (t.get c) (t.get s))) t).get c) x ↔
      has (t.get c) x ∨ ∃ s ∈ l, has (t.get s) x ∨ Ex c s x := by
  induction l generalizing t with
  | nil => simp
  | cons s l ih =>
    have hs : s ≠ c := fun h => hc (by simp [h])
    have hcl : c ∉ l := fun h => hc (by simp [h])
    simp only [List.foldl_cons]
    obtain ⟨ih1, ih2⟩ := ih hcl (t.set c (comb c s (t.get c) (t.get s)))
    constructor
    · intro k hk
      rw [ih1 k hk]; simp [hk]
    · intro x
      rw [ih2 x]
      simp only [Tbl.get_set, if_true, hcomb]
      constructor
      · rintro ((h | h | h) | ⟨s', hs', h⟩)
        · exact Or.inl h
        · exact Or.inr ⟨s, by simp, Or.inl h⟩
        · exact Or.inr ⟨s, by simp, Or.inr h⟩
        · have : s' ≠ c := fun h' => hcl (h' ▸ hs')
          simp only [this, if_false] at h
          exact Or.inr ⟨s', by simp [hs'], h⟩
      · rintro (h | ⟨s', hs', h⟩)
        · exact Or.inl (Or.inl h)
        · rcases List.mem_cons.1 hs' with rfl | hs''
          · rcases h with h | h
            · exact Or.inl (Or.inr (Or.inl h))
            · exact Or.inl (Or.inr (Or.inr h))
          · have : s' ≠ c := fun h' => hcl (h' ▸ hs'')
            refine Or.inr ⟨s', hs'', ?_⟩
            simp only [this, if_false]; exact h

/-- what a pull sweep accumulates at `c` -/
def PullSpec (es : List (κ × κ)) (has : α → β → Prop) (Ex : κ → κ → β → Prop) (t0 : κ → α) (c : κ) (x : β) : Prop :=
  ∃ w, Reach es c w ∧ (has (t0 w) x ∨ ∃ s, (w, s) ∈ es ∧ Ex w s x)

omit [DecidableEq κ] in
theorem pullSpec_unfold (es : List (κ × κ)) (has : α → β → Prop) (Ex : κ → κ → β → Prop) (t0 : κ → α) (c : κ) (x : β) :
    PullSpec es has Ex t0 c x ↔
      has (t0 c) x ∨ ∃ s, (c, s) ∈ es ∧ (PullSpec es has Ex t0 s x ∨ Ex c s x) := by
  constructor
  · rintro ⟨w, hr, hw⟩
    rcases reach_head_cases hr with rfl | ⟨y, hy, hr'⟩
    · rcases hw with h | ⟨s, hs, h⟩
      · exact Or.inl h
      · exact Or.inr ⟨s, hs, Or.inr h⟩
    · exact Or.inr ⟨y, hy, Or.inl ⟨w, hr', hw⟩⟩
  · rintro (h | ⟨s, hs, h | h⟩)
    · exact ⟨c, Reach.refl c, Or.inl h⟩
    · obtain ⟨w, hr, hw⟩ := h
      exact ⟨w, Reach.head hs hr, hw⟩
    · exact ⟨c, Reach.refl c, Or.inr ⟨s, hs, h⟩⟩

theorem pull_outer (es : List (κ × κ)) (has : α → β → Prop) (comb : κ → κ → α → α → α) (Ex : κ → κ → β → Prop)
    (hcomb : ∀ c s a b x, has (comb c s a b) x ↔ has a x ∨ has b x ∨ Ex c s x) (t0 : κ → α)
    (hloop : ∀ a, (a, a) ∉ es) (post : List κ) :
    ∀ (pre : List κ) (t : Tbl κ α), (pre ++ post).Nodup → (∀ e ∈ es, e.2 ∈ pre ++ post) →
      (pre ++ post).Pairwise (fun a b => (a, b) ∉ es) →
      (∀ c ∈ pre, ∀ x, has (t.get c) x ↔ PullSpec es has Ex t0 c x) → (∀ c, c ∉ pre → t.get c = t0 c) →
      let t' := post.foldl (fun t c => (succOf es c).foldl (fun t s => t.set c (comb c s (t.get c) (t.get s))) t) t
      (∀ c ∈ pre ++ post, ∀ x, has (t'.get c) x ↔ PullSpec es has Ex t0 c x) ∧ (∀ c, c ∉ pre ++ post → t'.get c = t0 c) := by
  induction post with
  | nil => intro pre t _ _ _ h1 h2; simpa using ⟨h1, h2⟩
  | cons c post ih =>
    intro pre t hnd hcov hpw h1 h2
    simp only [List.foldl_cons]
    have hassoc : pre ++ c :: post = (pre ++ [c]) ++ post := by simp
    have hcpre : c ∉ pre := by
      intro h
      have := (List.nodup_append.1 hnd).2.2 c h c (by simp)
      exact this rfl
    have hsucc : ∀ s, (c, s) ∈ es → s ∈ pre := by
      intro s hs
      have hmem : s ∈ pre ++ c :: post := hcov (c, s) hs
      rcases List.mem_append.1 hmem with h | h
      · exact h
      · rcases List.mem_cons.1 h with h | h
        · rw [h] at hs; exact absurd hs (hloop _)
        · have hp := (List.pairwise_append.1 hpw).2.1
          exact absurd hs ((List.pairwise_cons.1 hp).1 s h)
    have hcl : c ∉ succOf es c := fun h => hloop c (mem_succOf.1 h)
    obtain ⟨i1, i2⟩ := pull_inner has comb Ex hcomb c (succOf es c) hcl t
    rw [hassoc] at hnd hcov hpw ⊢
    apply ih (pre ++ [c]) _ hnd hcov hpw
    · intro k hk x
      rcases List.mem_append.1 hk with hk | hk
      · have : k ≠ c := fun h => hcpre (h ▸ hk)
        rw [i1 k this]; exact h1 k hk x
      · have : k = c := by simpa using hk
        subst this
        rw [i2 x, pullSpec_unfold, h2 k hcpre]
        constructor
        · rintro (h | ⟨s, hs, h⟩)
          · exact Or.inl h
          · have hs' := mem_succOf.1 hs
            refine Or.inr ⟨s, hs', ?_⟩
            rcases h with h | h
            · exact Or.inl ((h1 s (hsucc s hs') x).1 h)
            · exact Or.inr h
        · rintro (h | ⟨s, hs, h⟩)
          · exact Or.inl h
          · refine Or.inr ⟨s, mem_succOf.2 hs, ?_⟩
            rcases h with h | h
            · exact Or.inl ((h1 s (hsucc s hs) x).2 h)
            · exact Or.inr h
    · intro k hk
      have hk1 : k ∉ pre := fun h => hk (by simp [h])
      have hk2 : k ≠ c := fun h => hk (by simp [h])
      rw [i1 k hk2]; exact h2 k hk1

/-- **pull sweep.** If no edge leads from an earlier to a later (or the same) element of `order`
and every head of an edge occurs in `order`, the swept table holds at every `c ∈ order` exactly
the join over all `w` reachable from `c`. -/
theorem pullSweep_correct (es : List (κ × κ)) (has : α → β → Prop) (comb : κ → κ → α → α → α) (Ex : κ → κ → β → Prop)
    (hcomb : ∀ c s a b x, has (comb c s a b) x ↔ has a x ∨ has b x ∨ Ex c s x) (t0 : κ → α) (order : List κ)
    (hnd : order.Nodup) (hcov : ∀ e ∈ es, e.2 ∈ order) (hloop : ∀ a, (a, a) ∉ es)
    (hpw : order.Pairwise (fun a b => (a, b) ∉ es)) :
    (∀ c ∈ order, ∀ x, has ((pullSweep es comb order t0).get c) x ↔ PullSpec es has Ex t0 c x) ∧
    (∀ c, c ∉ order → (pullSweep es comb order t0).get c = t0 c) := by
  have := pull_outer es has comb Ex hcomb t0 hloop order [] ⟨t0⟩ (by simpa using hnd) (by simpa using hcov)
    (by simpa using hpw) (by simp) (by simp)
  simpa [pullSweep] using this

theorem push_inner (has : α → β → Prop) (comb : κ → κ → α → α → α)
    (hcomb : ∀ c s a b x, has (comb c s a b) x ↔ has a x ∨ has b x)
    (c : κ) (l : List κ) (hc : c ∉ l) (t : Tbl κ α) :
    ∀ k x, has ((l.foldl (fun t s => t.set s (comb c s (t.get c) (t.get s))) t).get k) x ↔
      has (t.get k) x ∨ (k ∈ l ∧ has (t.get c) x) := by
  induction l generalizing t with
  | nil => simp
  | cons s l ih =>
    have hs : c ≠ s := fun h => hc (by simp [h])
    have hcl : c ∉ l := fun h => hc (by simp [h])
    intro k x
    simp only [List.foldl_cons]
    rw [ih hcl]
    simp only [Tbl.get_set, hs, if_false]
    by_cases hk : k = s
    · subst hk
      simp only [if_true, hcomb]
      constructor
      · rintro ((h | h) | ⟨_, h⟩)
        · exact Or.inr ⟨by simp, h⟩
        · exact Or.inl h
        · exact Or.inr ⟨by simp, h⟩
      · rintro (h | ⟨_, h⟩)
        · exact Or.inl (Or.inr h)
        · exact Or.inl (Or.inl h)
    · simp only [hk, if_false, List.mem_cons, false_or]

/-- what a push sweep accumulates at `v` -/
def PushSpec (es : List (κ × κ)) (has : α → β → Prop) (t0 : κ → α) (v : κ) (x : β) : Prop :=
  ∃ w, Reach es w v ∧ has (t0 w) x

omit [DecidableEq κ] in
theorem pushSpec_unfold (es : List (κ × κ)) (has : α → β → Prop) (t0 : κ → α) (v : κ) (x : β) :
    PushSpec es has t0 v x ↔ has (t0 v) x ∨ ∃ p, (p, v) ∈ es ∧ PushSpec es has t0 p x := by
  constructor
  · rintro ⟨w, hr, hw⟩
    rcases reach_tail_cases hr with rfl | ⟨y, hr', hy⟩
    · exact Or.inl hw
    · exact Or.inr ⟨y, hy, w, hr', hw⟩
  · rintro (h | ⟨p, hp, w, hr, hw⟩)
    · exact ⟨v, Reach.refl v, h⟩
    · exact ⟨w, Reach.step hr hp, hw⟩

theorem push_outer (es : List (κ × κ)) (has : α → β → Prop) (comb : κ → κ → α → α → α)
    (hcomb : ∀ c s a b x, has (comb c s a b) x ↔ has a x ∨ has b x) (t0 : κ → α)
    (hloop : ∀ a, (a, a) ∉ es) (post : List κ) :
    ∀ (pre : List κ) (t : Tbl κ α), (pre ++ post).Nodup → (∀ e ∈ es, e.1 ∈ pre ++ post) →
      (pre ++ post).Pairwise (fun a b => (b, a) ∉ es) →
      (∀ v x, has (t.get v) x ↔ has (t0 v) x ∨ ∃ p ∈ pre, (p, v) ∈ es ∧ PushSpec es has t0 p x) →
      let t' := post.foldl (fun t c => (succOf es c).foldl (fun t s => t.set s (comb c s (t.get c) (t.get s))) t) t
      ∀ v x, has (t'.get v) x ↔ has (t0 v) x ∨ ∃ p ∈ pre ++ post, (p, v) ∈ es ∧ PushSpec es has t0 p x := by
  induction post with
  | nil => intro pre t _ _ _ h1; simpa using h1
  | cons c post ih =>
    intro pre t hnd hcov hpw h1
    simp only [List.foldl_cons]
    have hassoc : pre ++ c :: post = (pre ++ [c]) ++ post := by simp
    have hpred : ∀ p, (p, c) ∈ es → p ∈ pre := by
      intro p hp
      have hmem : p ∈ pre ++ c :: post := hcov (p, c) hp
      rcases List.mem_append.1 hmem with h | h
      · exact h
      · rcases List.mem_cons.1 h with h | h
        · rw [h] at hp; exact absurd hp (hloop _)
        · have hq := (List.pairwise_append.1 hpw).2.1
          exact absurd hp ((List.pairwise_cons.1 hq).1 p h)
    have hcl : c ∉ succOf es c := fun h => hloop c (mem_succOf.1 h)
    have hin := push_inner has comb hcomb c (succOf es c) hcl t
    have hcspec : ∀ x, has (t.get c) x ↔ PushSpec es has t0 c x := by
      intro x
      rw [h1 c x, pushSpec_unfold]
      constructor
      · rintro (h | ⟨p, _, hp, h⟩)
        · exact Or.inl h
        · exact Or.inr ⟨p, hp, h⟩
      · rintro (h | ⟨p, hp, h⟩)
        · exact Or.inl h
        · exact Or.inr ⟨p, hpred p hp, hp, h⟩
    rw [hassoc] at hnd hcov hpw ⊢
    apply ih (pre ++ [c]) _ hnd hcov hpw
    intro v x
    rw [hin v x, h1 v x, hcspec x]
    constructor
    · rintro ((h | ⟨p, hp, hpe, h⟩) | ⟨hv, h⟩)
      · exact Or.inl h
      · exact Or.inr ⟨p, by simp [hp], hpe, h⟩
      · exact Or.inr ⟨c, by simp, mem_succOf.1 hv, h⟩
    · rintro (h | ⟨p, hp, hpe, h⟩)
      · exact Or.inl (Or.inl h)
      · rcases List.mem_append.1 hp with hp | hp
        · exact Or.inl (Or.inr ⟨p, hp, hpe, h⟩)
        · have : p = c := by simpa using hp
          subst this
          exact Or.inr ⟨mem_succOf.2 hpe, h⟩

/-- **push sweep.** In a topological order that lists every tail of an edge, the pushed table
holds at every `v` exactly the join over all `w` from which `v` is reachable. -/
theorem pushSweep_correct (es : List (κ × κ)) (has : α → β → Prop) (comb : κ → κ → α → α → α)
    (hcomb : ∀ c s a b x, has (comb c s a b) x ↔ has a x ∨ has b x) (t0 : κ → α) (order : List κ)
    (hnd : order.Nodup) (hcov : ∀ e ∈ es, e.1 ∈ order) (hloop : ∀ a, (a, a) ∉ es)
    (hpw : order.Pairwise (fun a b => (b, a) ∉ es)) :
    ∀ v x, has ((pushSweep es comb order t0).get v) x ↔ PushSpec es has t0 v x := by
  have := push_outer es has comb hcomb t0 hloop order [] ⟨t0⟩ (by simpa using hnd) (by simpa using hcov)
    (by simpa using hpw) (by simp)
  intro v x
  have h := this v x
  simp only [List.nil_append] at h
  unfold pushSweep
  rw [h, pushSpec_unfold]
  constructor
  · rintro (h | ⟨p, _, hp, h⟩)
    · exact Or.inl h
    · exact Or.inr ⟨p, hp, h⟩
  · rintro (h | ⟨p, hp, h⟩)
    · exact Or.inl h
    · exact Or.inr ⟨p, hcov _ hp, hp, h⟩

end
end FP
