import FP.Proofs.Greedy
/-!
# FP.Proofs.GreedyStep — one peeling step keeps a non-negative conserving flow non-negative and
conserving and zeroes at least one more edge
-/
namespace FP
open FP.Spec

/-! ## a topological order ranks the nodes -/

theorem idxOf_lt_of_pairwise {es : List Edge} (l : List Node) :
    l.Pairwise (fun a b => (b, a) ∉ es) → ∀ u v, (u, v) ∈ es → u ∈ l → v ∈ l → u ≠ v →
      l.idxOf u < l.idxOf v := by
  induction l with
  | nil => intro _ u v _ hu; simp at hu
  | cons c rest ih =>
    intro hpw u v he hu hv hne
    obtain ⟨hc, hrest⟩ := List.pairwise_cons.1 hpw
    rw [List.idxOf_cons, List.idxOf_cons]
    by_cases huc : c = u
    · subst huc
      have hvc : (c == v) = false := by simp [hne]
      simp [hvc]
    · have hu' : u ∈ rest := by
        rcases List.mem_cons.1 hu with h | h
        · exact absurd h.symm huc
        · exact h
      by_cases hvc : c = v
      · subst hvc; exact absurd he (hc u hu')
      · have hv' : v ∈ rest := by
          rcases List.mem_cons.1 hv with h | h
          · exact absurd h.symm hvc
          · exact h
        have h1 : (c == u) = false := by simp [huc]
        have h2 : (c == v) = false := by simp [hvc]
        simp only [h1, h2, cond_false]
        have := ih hrest u v he hu' hv' hne
        omega

theorem topo_rank {es : List Edge} {topo : List Node} (h : IsTopo es topo) :
    ∀ e ∈ es, topo.idxOf e.1 < topo.idxOf e.2 := by
  intro e he
  have hc := h.cover e he
  exact idxOf_lt_of_pairwise topo h.fwd e.1 e.2 he hc.1 hc.2 (fun heq => h.noloop e.1 (by
    have : e = (e.1, e.1) := by rw [Prod.ext_iff]; exact ⟨rfl, heq.symm⟩
    rw [← this]; exact he))

theorem walk_nodup {g : Graph} {topo : List Node} (h : IsTopo g.edges topo) (p : List Node) (hp : IsWalkIn g p) :
    p.Nodup :=
  nodup_of_walk (fun v => topo.idxOf v) p (fun e he => topo_rank h e (hp e he))

/-! ## occurrences -/

theorem occR_cons_c17 (a : Node) (l : List Node) (v : Node) : occR (a :: l) v = (if a = v then 1 else 0) + occR l v := by
  simp [occR]

theorem occR_append_c17 (l m : List Node) (v : Node) : occR (l ++ m) v = occR l v + occR m v := by
  simp [occR, List.sum_append]

theorem occR_tail_of_ne (l : List Node) (v : Node) (h : ∀ a, l.head? = some a → a ≠ v) : occR l.tail v = occR l v := by
  cases l with
  | nil => rfl
  | cons a l =>
    have : a ≠ v := h a rfl
    simp [occR_cons_c17, this, Rat.zero_add]

theorem occR_dropLast_of_ne (l : List Node) (v : Node) (h : ∀ a, l.getLast? = some a → a ≠ v) :
    occR l.dropLast v = occR l v := by
  by_cases hl : l = []
  · subst hl; rfl
  · have hsplit := List.dropLast_concat_getLast hl
    have hlast : l.getLast hl ≠ v := h _ (List.getLast?_eq_some_getLast hl)
    conv => rhs; rw [← hsplit]
    rw [occR_append_c17]
    simp [occR, hlast, Rat.add_zero]

theorem count_eq_cntR (P : List Edge) (e : Edge) : ((P.count e : Nat) : Rat) = cntR P e := by
  induction P with
  | nil => simp [cntR]
  | cons p P ih =>
    rw [cntR_cons, ← ih, List.count_cons]
    by_cases h : e = p
    · subst h; simp [Rat.add_comm]
    · have : ¬ p = e := fun h' => h h'.symm
      simp [h, this, Rat.zero_add]

/-! ## linearity of in- and out-flow -/

theorem sum_map_mul_left {α} (l : List α) (b : Rat) (h : α → Rat) :
    (l.map (fun e => b * h e)).sum = b * (l.map h).sum := by
  induction l with
  | nil => simp
  | cons a l ih => simp only [List.map_cons, List.sum_cons, ih]; grind

theorem subtractPath_eq (f : Edge → Rat) (p : List Node) (b : Rat) :
    subtractPath f p b = fun e => f e - b * cntR (walkEdges p) e := by
  funext e; unfold subtractPath; rw [count_eq_cntR]

theorem inflow_subtract (g : Graph) (f : Edge → Rat) (p : List Node) (b : Rat) (v : Node) :
    inflowOf g (subtractPath f p b) v = inflowOf g f v - b * inflow g (cntR (walkEdges p)) v := by
  rw [subtractPath_eq]
  unfold inflowOf inflow
  rw [sum_map_sub, sum_map_mul_left]

theorem outflow_subtract (g : Graph) (f : Edge → Rat) (p : List Node) (b : Rat) (v : Node) :
    outflowOf g (subtractPath f p b) v = outflowOf g f v - b * outflow g (cntR (walkEdges p)) v := by
  rw [subtractPath_eq]
  unfold outflowOf outflow
  rw [sum_map_sub, sum_map_mul_left]

/-- subtracting along a source-to-sink path keeps the flow conserved -/
theorem conserving_subtract (g : Graph) (hnd : g.edges.Nodup) (f : Edge → Rat) (hc : Conserving g f)
    (p : List Node) (hp : IsSTPath g p) (b : Rat) : Conserving g (subtractPath f p b) := by
  intro v hpv hsv
  rw [inflow_subtract, outflow_subtract, hc v hpv hsv,
    inflow_cntR g hnd _ hp.walk, outflow_cntR g hnd _ hp.walk, heads_walkEdges, tails_walkEdges]
  have h1 : occR p.tail v = occR p v :=
    occR_tail_of_ne p v (fun a ha hav => hpv (hav ▸ hp.first a ha))
  have h2 : occR p.dropLast v = occR p v :=
    occR_dropLast_of_ne p v (fun a ha hav => hsv (hav ▸ hp.last a ha))
  rw [h1, h2]

/-! ## values after a step -/

theorem subtract_on_path (g : Graph) (topo : List Node) (htopo : IsTopo g.edges topo) (f : Edge → Rat)
    (p : List Node) (hp : IsWalkIn g p) (b : Rat) (e : Edge) :
    subtractPath f p b e = if e ∈ walkEdges p then f e - b else f e := by
  have hnd : (walkEdges p).Nodup := walkEdges_nodup p (walk_nodup htopo p hp)
  unfold subtractPath
  rw [List.Nodup.count hnd]
  by_cases h : e ∈ walkEdges p
  · simp [h]
  · simp [h]; grind

/-- number of edges still carrying flow -/
def nzCount (g : Graph) (f : Edge → Rat) : Nat := (g.edges.filter (fun e => decide (f e ≠ 0))).length

theorem filterLen_le {α} (l : List α) (p q : α → Bool) (hsub : ∀ e ∈ l, q e = true → p e = true) :
    (l.filter q).length ≤ (l.filter p).length := by
  induction l with
  | nil => simp
  | cons x l ih =>
    have := ih (fun e he => hsub e (by simp [he]))
    have hx := hsub x (by simp)
    simp only [List.filter_cons]
    by_cases hqx : q x = true
    · simp [hqx, hx hqx]; exact this
    · by_cases hpx : p x = true
      · simp [hqx, hpx]; omega
      · simp [hqx, hpx]; exact this

theorem filterLen_lt {α} (l : List α) (p q : α → Bool) (hsub : ∀ e ∈ l, q e = true → p e = true)
    (hex : ∃ e ∈ l, p e = true ∧ q e = false) : (l.filter q).length < (l.filter p).length := by
  induction l with
  | nil => obtain ⟨e, he, _⟩ := hex; simp at he
  | cons a l ih =>
    have hsub' : ∀ e ∈ l, q e = true → p e = true := fun e he => hsub e (by simp [he])
    have hle := filterLen_le l p q hsub'
    simp only [List.filter_cons]
    obtain ⟨e, he, hpe, hqe⟩ := hex
    rcases List.mem_cons.1 he with rfl | he'
    · simp [hpe, hqe]; omega
    · have := ih hsub' ⟨e, he', hpe, hqe⟩
      have ha := hsub a (by simp)
      by_cases hqa : q a = true
      · simp [hqa, ha hqa]; exact this
      · by_cases hpa : p a = true
        · simp [hqa, hpa]; omega
        · simp [hqa, hpa]; exact this

/-- the facts about one productive iteration -/
theorem peel_step (g : Graph) (hnd : g.edges.Nodup) (topo : List Node) (htopo : IsTopo g.edges topo)
    (f : Edge → Rat) (hnn : ∀ e ∈ g.edges, 0 ≤ f e) (hc : Conserving g f) (b : Rat) (p : List Node)
    (h : maxBottleneckPath g f topo = .path b p) :
    0 < b ∧ IsSTPath g p ∧ (∀ e ∈ g.edges, 0 ≤ subtractPath f p b e) ∧ Conserving g (subtractPath f p b) ∧
      nzCount g (subtractPath f p b) < nzCount g f := by
  have hs := maxBottleneckPath_spec g f topo htopo
  rw [h] at hs
  obtain ⟨hb0, hst, hge, ⟨e0, he0, hfe0⟩, _⟩ := hs
  have hbpos : 0 < b := by
    have := hnn e0 (hst.walk e0 he0)
    rw [hfe0] at this
    grind
  have hval := subtract_on_path g topo htopo f p hst.walk b
  refine ⟨hbpos, hst, ?_, conserving_subtract g hnd f hc p hst b, ?_⟩
  · intro e he
    rw [hval e]
    by_cases hmem : e ∈ walkEdges p
    · simp only [hmem, if_true]
      have := hge e hmem
      grind
    · simp only [hmem, if_false]; exact hnn e he
  · unfold nzCount
    apply filterLen_lt
    · intro e _ hq
      simp only [decide_eq_true_eq] at hq ⊢
      rw [hval e] at hq
      by_cases hmem : e ∈ walkEdges p
      · have := hge e hmem
        intro h0; rw [h0] at this; grind
      · simpa [hmem] using hq
    · refine ⟨e0, hst.walk e0 he0, ?_, ?_⟩
      · simp only [decide_eq_true_eq]; rw [hfe0]; exact hb0
      · simp only [decide_eq_false_iff_not, Decidable.not_not]
        rw [hval e0]; simp [he0, hfe0]; grind

end FP
