import FP.Model.Enc.IgnoreBlock
import FP.Proofs.PathCore
/-!
# FP.Proofs.C10Ignore — ignoring an edge deletes exactly that edge's block of the LP

For `kfdLP`, `kcoverLP`, `klaeLP`: the LP with `e` added to the ignore list is the LP without it
minus the rows (and, for `klaeLP`, the error column and objective term) generated for `e`; the flow
value of an ignored edge occurs nowhere; an error scale of 0 produces the same LP as ignoring.
-/
namespace FP
open FP.Spec

/-! ## lists -/

theorem c10_perm_cons_filter_ne {α} [BEq α] [LawfulBEq α] (l : List α) (hnd : l.Nodup) (e : α) (he : e ∈ l) :
    l.Perm (e :: l.filter (fun x => x != e)) := by
  induction l with
  | nil => simp at he
  | cons x xs ih =>
    have hx := List.nodup_cons.1 hnd
    by_cases hxe : x = e
    · subst hxe
      have : xs.filter (fun y => y != x) = xs := by
        apply List.filter_eq_self.2
        intro y hy
        have : y ≠ x := fun h => hx.1 (h ▸ hy)
        simpa using this
      simp [this]
    · have he' : e ∈ xs := by
        rcases List.mem_cons.1 he with h | h
        · exact absurd h.symm hxe
        · exact h
      have := ih hx.2 he'
      have hf : (x :: xs).filter (fun y => y != e) = x :: xs.filter (fun y => y != e) := by
        simp [hxe]
      rw [hf]
      exact (List.Perm.cons x this).trans (List.Perm.swap e x _)

/-- moving the blocks of one element to the end -/
theorem c10_perm_blocks {α β} (E : List β) (g h : α → List β) (l l' : List α) (e : α)
    (hp : l.Perm (e :: l')) :
    (E ++ (l.flatMap g ++ l.flatMap h)).Perm ((E ++ (l'.flatMap g ++ l'.flatMap h)) ++ (g e ++ h e)) := by
  have h1 : (l.flatMap g).Perm (g e ++ l'.flatMap g) := by
    have := List.Perm.flatMap_right g hp
    simpa using this
  have h2 : (l.flatMap h).Perm (h e ++ l'.flatMap h) := by
    have := List.Perm.flatMap_right h hp
    simpa using this
  rw [List.append_assoc]
  apply List.Perm.append_left
  refine (List.Perm.append h1 h2).trans ?_
  -- (G ++ B') ++ (H ++ C') ~ (B' ++ C') ++ (G ++ H)
  have a1 : ((g e ++ l'.flatMap g) ++ (h e ++ l'.flatMap h)).Perm
      ((l'.flatMap g ++ g e) ++ (l'.flatMap h ++ h e)) :=
    List.Perm.append List.perm_append_comm List.perm_append_comm
  refine a1.trans ?_
  -- (B' ++ G) ++ (C' ++ H) ~ (B' ++ C') ++ (G ++ H)
  rw [List.append_assoc, List.append_assoc]
  apply List.Perm.append_left
  rw [← List.append_assoc, ← List.append_assoc]
  exact List.Perm.append_right _ List.perm_append_comm

theorem c10_map_eq_flatMap_single {α β} (f : α → β) (l : List α) : l.map f = l.flatMap fun x => [f x] := by
  induction l with
  | nil => rfl
  | cons x xs ih => simp [ih]

theorem c10_perm_block1 {α β} (E : List β) (h : α → List β) (l l' : List α) (e : α)
    (hp : l.Perm (e :: l')) : (E ++ l.flatMap h).Perm ((E ++ l'.flatMap h) ++ h e) := by
  have h2 : (l.flatMap h).Perm (h e ++ l'.flatMap h) := by
    have := List.Perm.flatMap_right h hp
    simpa using this
  rw [List.append_assoc]
  apply List.Perm.append_left
  exact h2.trans List.perm_append_comm

theorem c10_filter_ne_subset {α} [BEq α] (l : List α) (e : α) :
    ∀ x ∈ l.filter (fun y => y != e), x ∈ l := fun _ hx => (List.mem_filter.1 hx).1

/-! ## the active edges after ignoring one more edge -/

theorem ignoreMore_ignored (inp : FlowInput) (e e' : Edge) :
    (inp.ignoreMore e).ignored e' = (inp.ignored e' || e' == e) := by
  unfold FlowInput.ignored FlowInput.ignoreMore FlowInput.st
  simp only [List.contains_cons]
  cases (augment inp.base inp.starts inp.ends).sourceSinkEdges.contains e' <;>
    cases inp.ignore.contains e' <;> cases (e' == e) <;> rfl

theorem ignoreMore_active (inp : FlowInput) (e : Edge) :
    (inp.ignoreMore e).activeEdges = inp.activeEdges.filter (fun e' => e' != e) := by
  unfold FlowInput.activeEdges
  rw [List.filter_filter]
  apply List.filter_congr
  intro x _
  rw [ignoreMore_ignored]
  cases inp.ignored x <;> cases hxe : (x == e) <;> simp [bne, hxe]

theorem ignoreMore_active_of_not_active (inp : FlowInput) (e : Edge) (he : e ∉ inp.activeEdges) :
    (inp.ignoreMore e).activeEdges = inp.activeEdges := by
  rw [ignoreMore_active]
  apply List.filter_eq_self.2
  intro x hx
  have : x ≠ e := fun h => he (h ▸ hx)
  simpa using this

/-! ## kFlowDecomp -/

def kfdCols (s : STGraph) (k : Nat) (wm : Rat) (isInt : Bool) : List Col :=
  ((List.range k).flatMap fun i => s.g.edges.map fun e =>
      { v := piVar e i, lb := 0, ub := some wm, isInt := isInt })
    ++ (List.range k).map fun i => { v := wVar i, lb := 0, ub := some wm, isInt := isInt }

/-- the class-specific rows of `kfdLP` for a list of active edges -/
def kfdRowsOf (k : Nat) (f : Edge → Rat) (active : List Edge) (wm : Rat) : List Row :=
  coupleBin active k piVar wVar wm ++ active.map fun e => rowEq (ones (List.range k) (piVar e)) (f e)

theorem kfdLP_eq (inp : FlowInput) :
    kfdLP inp = (encodePaths inp.st inp.cfg).append
      { cols := kfdCols inp.st inp.cfg.k inp.wmax inp.weightInt,
        rows := kfdRowsOf inp.cfg.k inp.f inp.activeEdges inp.wmax } := rfl

/-- **row deletion, exact form.** With an unchanged weight bound, the LP with `e` ignored has the
same columns and objective, and its class rows are generated from the active edges with `e`
filtered out. -/
theorem kfd_ignore_filter (inp : FlowInput) (e : Edge) (hw : (inp.ignoreMore e).wmax = inp.wmax) :
    kfdLP (inp.ignoreMore e) = (encodePaths inp.st inp.cfg).append
      { cols := kfdCols inp.st inp.cfg.k inp.wmax inp.weightInt,
        rows := kfdRowsOf inp.cfg.k inp.f (inp.activeEdges.filter fun e' => e' != e) inp.wmax } := by
  rw [kfdLP_eq, hw, ignoreMore_active]
  rfl

theorem kfdEdgeRows_eq (inp : FlowInput) (e : Edge) :
    kfdEdgeRows inp e = (fun e => (List.range inp.cfg.k).flatMap fun i =>
        binProd (edgeVar e i) (wVar i) (piVar e i) 0 inp.wmax) e
      ++ (fun e => [rowEq (ones (List.range inp.cfg.k) (piVar e)) (inp.f e)]) e := by
  simp [kfdEdgeRows, coupleBin]

/-- **row deletion, multiset form**: the rows of the LP without `e` ignored are the rows of the LP
with `e` ignored plus exactly `e`'s block; columns and objective coincide. -/
theorem kfd_ignore_is_row_deletion (inp : FlowInput) (e : Edge) (hnd : inp.st.g.edges.Nodup)
    (he : e ∈ inp.activeEdges) (hw : (inp.ignoreMore e).wmax = inp.wmax) :
    (kfdLP (inp.ignoreMore e)).cols = (kfdLP inp).cols ∧
    (kfdLP (inp.ignoreMore e)).obj = (kfdLP inp).obj ∧
    (kfdLP inp).rows.Perm ((kfdLP (inp.ignoreMore e)).rows ++ kfdEdgeRows inp e) := by
  rw [kfd_ignore_filter inp e hw, kfdLP_eq]
  refine ⟨rfl, rfl, ?_⟩
  have hp := c10_perm_cons_filter_ne inp.activeEdges (hnd.sublist List.filter_sublist) e he
  rw [kfdEdgeRows_eq]
  simp only [LP.append, kfdRowsOf, coupleBin, c10_map_eq_flatMap_single]
  exact c10_perm_blocks _ _ _ _ _ e hp

/-- ignoring an edge that is not active (already ignored, synthetic, or not an edge) changes nothing -/
theorem kfd_ignore_inactive (inp : FlowInput) (e : Edge) (he : e ∉ inp.activeEdges) :
    kfdLP (inp.ignoreMore e) = kfdLP inp := by
  have hact := ignoreMore_active_of_not_active inp e he
  have hw : (inp.ignoreMore e).wmax = inp.wmax := by
    unfold FlowInput.wmax; rw [hact]; rfl
  rw [kfdLP_eq, kfdLP_eq, hw, hact]
  rfl

/-- **the flow value of an ignored edge occurs nowhere in the LP** -/
theorem kfd_ignored_flow_irrelevant (inp : FlowInput) (flow' : List (Edge × Rat))
    (h : ∀ e ∈ inp.activeEdges, lookupD flow' e 0 = lookupD inp.flow e 0) :
    kfdLP { inp with flow := flow' } = kfdLP inp := by
  have hf : inp.activeEdges.map ({ inp with flow := flow' } : FlowInput).f = inp.activeEdges.map inp.f :=
    List.map_congr_left h
  have hw : ({ inp with flow := flow' } : FlowInput).wmax = inp.wmax := by
    unfold FlowInput.wmax
    show listMax (inp.activeEdges.map ({ inp with flow := flow' } : FlowInput).f) = _
    rw [hf]
  rw [kfdLP_eq, kfdLP_eq, hw]
  have hrows : kfdRowsOf inp.cfg.k ({ inp with flow := flow' } : FlowInput).f inp.activeEdges inp.wmax
      = kfdRowsOf inp.cfg.k inp.f inp.activeEdges inp.wmax := by
    unfold kfdRowsOf
    congr 1
    apply List.map_congr_left
    intro e he
    rw [show ({ inp with flow := flow' } : FlowInput).f e = inp.f e from h e he]
  show (encodePaths inp.st inp.cfg).append
      { cols := kfdCols inp.st inp.cfg.k inp.wmax inp.weightInt,
        rows := kfdRowsOf inp.cfg.k ({ inp with flow := flow' } : FlowInput).f inp.activeEdges inp.wmax } = _
  rw [hrows]

/-- ignoring relaxes: every feasible assignment stays feasible (weight bound unchanged) -/
theorem kfd_ignore_relaxes (inp : FlowInput) (e : Edge) (hw : (inp.ignoreMore e).wmax = inp.wmax)
    (a : Asg) (hsat : Sat a (kfdLP inp)) : Sat a (kfdLP (inp.ignoreMore e)) := by
  rw [kfd_ignore_filter inp e hw]
  rw [kfdLP_eq] at hsat
  refine ⟨hsat.1, fun r hr => hsat.2 r ?_⟩
  simp only [LP.append, List.mem_append, kfdRowsOf, coupleBin, List.mem_flatMap, List.mem_map] at hr ⊢
  rcases hr with h | ⟨x, hx, h⟩ | ⟨x, hx, h⟩
  · exact Or.inl h
  · exact Or.inr (Or.inl ⟨x, c10_filter_ne_subset _ e x hx, h⟩)
  · exact Or.inr (Or.inr ⟨x, c10_filter_ne_subset _ e x hx, h⟩)

/-! ## kPathCover -/

theorem kcoverLP_eq (inp : FlowInput) :
    kcoverLP inp = (encodePaths inp.st inp.cfg).append
      { rows := inp.activeEdges.map fun e => rowGe (ones (List.range inp.cfg.k) (edgeVar e)) 1 } := by
  unfold kcoverLP coverSkipped
  simp only [Bool.not_false]
  rw [List.filter_eq_self.2 (fun _ _ => rfl)]

theorem kcover_ignore_filter (inp : FlowInput) (e : Edge) :
    kcoverLP (inp.ignoreMore e) = (encodePaths inp.st inp.cfg).append
      { rows := (inp.activeEdges.filter fun e' => e' != e).map fun e =>
          rowGe (ones (List.range inp.cfg.k) (edgeVar e)) 1 } := by
  rw [kcoverLP_eq, ignoreMore_active]
  rfl

theorem kcover_ignore_is_row_deletion (inp : FlowInput) (e : Edge) (hnd : inp.st.g.edges.Nodup)
    (he : e ∈ inp.activeEdges) :
    (kcoverLP (inp.ignoreMore e)).cols = (kcoverLP inp).cols ∧
    (kcoverLP (inp.ignoreMore e)).obj = (kcoverLP inp).obj ∧
    (kcoverLP inp).rows.Perm ((kcoverLP (inp.ignoreMore e)).rows ++ kcoverEdgeRows inp e) := by
  rw [kcover_ignore_filter, kcoverLP_eq]
  refine ⟨rfl, rfl, ?_⟩
  have hp := c10_perm_cons_filter_ne inp.activeEdges (hnd.sublist List.filter_sublist) e he
  have := c10_perm_block1 (encodePaths inp.st inp.cfg).rows
    (fun e => [rowGe (ones (List.range inp.cfg.k) (edgeVar e)) 1]) _ _ e hp
  simpa [LP.append, kcoverEdgeRows, c10_map_eq_flatMap_single] using this

theorem kcover_ignore_inactive (inp : FlowInput) (e : Edge) (he : e ∉ inp.activeEdges) :
    kcoverLP (inp.ignoreMore e) = kcoverLP inp := by
  rw [kcoverLP_eq, kcoverLP_eq, ignoreMore_active_of_not_active inp e he]
  rfl

/-- ignoring an edge never makes a feasible cover model infeasible -/
theorem kcover_ignore_relaxes (inp : FlowInput) (e : Edge) (a : Asg) (hsat : Sat a (kcoverLP inp)) :
    Sat a (kcoverLP (inp.ignoreMore e)) := by
  rw [kcover_ignore_filter]
  rw [kcoverLP_eq] at hsat
  refine ⟨hsat.1, fun r hr => hsat.2 r ?_⟩
  simp only [LP.append, List.mem_append, List.mem_map] at hr ⊢
  rcases hr with h | ⟨x, hx, h⟩
  · exact Or.inl h
  · exact Or.inr ⟨x, c10_filter_ne_subset _ e x hx, h⟩

/-- `kPathCover` has no flow attribute: the LP does not depend on `flow` at all -/
theorem kcover_flow_irrelevant (inp : FlowInput) (flow' : List (Edge × Rat)) :
    kcoverLP { inp with flow := flow' } = kcoverLP inp := rfl

/-! ## kLeastAbsErrors -/

theorem err_ignoreMore_ignored (inp : ErrInput) (e e' : Edge) :
    (inp.ignoreMore e).ignored e' = (inp.ignored e' || e' == e) := by
  unfold ErrInput.ignored ErrInput.ignoreMore
  simp only [ignoreMore_ignored]
  cases inp.fi.ignored e' <;> cases (e' == e) <;>
    cases (inp.scaling.any fun p => p.1 == e' && p.2 == 0) <;> rfl

theorem err_ignoreMore_basic (inp : ErrInput) (e : Edge) :
    (inp.ignoreMore e).basicEdges = inp.basicEdges.filter (fun e' => e' != e) := by
  unfold ErrInput.basicEdges
  rw [List.filter_filter]
  apply List.filter_congr
  intro x _
  rw [err_ignoreMore_ignored]
  cases inp.ignored x <;> cases hxe : (x == e) <;> simp [bne, hxe]

def errCol (wm : Rat) (isInt : Bool) (e : Edge) : Col := { v := eeVar e, lb := 0, ub := some wm, isInt := isInt }

/-- the class-specific part of `klaeLP` for a list of non-ignored edges -/
def klaePart (s : STGraph) (k : Nat) (isInt : Bool) (f sc : Edge → Rat) (basic : List Edge) (wm : Rat) : LP :=
  { cols := ((List.range k).flatMap fun i => s.g.edges.map fun e =>
        { v := piVar e i, lb := 0, ub := some wm, isInt := isInt })
      ++ ((List.range k).map fun i => { v := weightsVar i, lb := 0, ub := some wm, isInt := isInt })
      ++ basic.map (errCol wm isInt),
    rows := coupleBin basic k piVar weightsVar wm
      ++ basic.flatMap fun e =>
        [ rowLe (negTerms (ones (List.range k) (piVar e)) ++ [(-1, eeVar e)]) (-(f e)),
          rowLe (ones (List.range k) (piVar e) ++ [(-1, eeVar e)]) (f e) ],
    obj := basic.map fun e => (sc e, eeVar e) }

theorem klaeLP_eq (inp : ErrInput) :
    klaeLP inp = (encodePaths inp.st inp.fi.cfg).append
      (klaePart inp.st inp.k inp.fi.weightInt inp.fi.f inp.scale inp.basicEdges (inp.wmax none)) := rfl

/-- **kLeastAbsErrors: ignoring `e` removes `e`'s error column, its rows and its objective term**
(same weight bound): the LP is generated from the non-ignored edges with `e` filtered out. -/
theorem klae_ignore_filter (inp : ErrInput) (e : Edge)
    (hw : (inp.ignoreMore e).wmax none = inp.wmax none) :
    klaeLP (inp.ignoreMore e) = (encodePaths inp.st inp.fi.cfg).append
      (klaePart inp.st inp.k inp.fi.weightInt inp.fi.f inp.scale
        (inp.basicEdges.filter fun e' => e' != e) (inp.wmax none)) := by
  rw [klaeLP_eq, hw, err_ignoreMore_basic]
  rfl

theorem klaeEdgeRows_eq (inp : ErrInput) (e : Edge) :
    klaeEdgeRows inp e = (fun e => (List.range inp.k).flatMap fun i =>
        binProd (edgeVar e i) (weightsVar i) (piVar e i) 0 (inp.wmax none)) e
      ++ (fun e => [ rowLe (negTerms (ones (List.range inp.k) (piVar e)) ++ [(-1, eeVar e)]) (-(inp.fi.f e)),
          rowLe (ones (List.range inp.k) (piVar e) ++ [(-1, eeVar e)]) (inp.fi.f e) ]) e := by
  simp [klaeEdgeRows, coupleBin]

theorem klae_ignore_is_row_deletion (inp : ErrInput) (e : Edge) (hnd : inp.st.g.edges.Nodup)
    (he : e ∈ inp.basicEdges) (hw : (inp.ignoreMore e).wmax none = inp.wmax none) :
    (klaeLP inp).rows.Perm ((klaeLP (inp.ignoreMore e)).rows ++ klaeEdgeRows inp e) ∧
    (klaeLP inp).obj.Perm ((klaeLP (inp.ignoreMore e)).obj ++ [(inp.scale e, eeVar e)]) ∧
    (klaeLP inp).cols.Perm ((klaeLP (inp.ignoreMore e)).cols
      ++ [errCol (inp.wmax none) inp.fi.weightInt e]) := by
  rw [klae_ignore_filter inp e hw, klaeLP_eq]
  have hp := c10_perm_cons_filter_ne inp.basicEdges (hnd.sublist List.filter_sublist) e he
  refine ⟨?_, ?_, ?_⟩
  · rw [klaeEdgeRows_eq]
    simp only [LP.append, klaePart, coupleBin]
    exact c10_perm_blocks _ _ _ _ _ e hp
  · simp only [LP.append, klaePart]
    refine (List.Perm.map (fun e => (inp.scale e, eeVar e)) hp).trans ?_
    simp only [List.map_cons]
    exact List.perm_append_comm (l₁ := [(inp.scale e, eeVar e)])
  · simp only [LP.append, klaePart, List.append_assoc]
    apply List.Perm.append_left
    apply List.Perm.append_left
    apply List.Perm.append_left
    refine (List.Perm.map (errCol (inp.wmax none) inp.fi.weightInt) hp).trans ?_
    simp only [List.map_cons]
    exact List.perm_append_comm (l₁ := [errCol (inp.wmax none) inp.fi.weightInt e])

theorem klaePart_congr_scale (s : STGraph) (k : Nat) (isInt : Bool) (f sc sc' : Edge → Rat)
    (basic : List Edge) (wm : Rat) (h : ∀ x ∈ basic, sc x = sc' x) :
    klaePart s k isInt f sc basic wm = klaePart s k isInt f sc' basic wm := by
  unfold klaePart
  congr 1
  apply List.map_congr_left
  intro x hx
  rw [h x hx]

/-- **error scale 0 ≡ ignore**: giving `e` the scale factor 0 produces the same LP as putting it
into `elements_to_ignore` -/
theorem klae_scale_zero_eq_ignore (inp : ErrInput) (e : Edge) :
    klaeLP { inp with scaling := (e, 0) :: inp.scaling } = klaeLP (inp.ignoreMore e) := by
  have hign : ∀ e', ({ inp with scaling := (e, 0) :: inp.scaling } : ErrInput).ignored e'
      = (inp.ignoreMore e).ignored e' := by
    intro e'
    rw [err_ignoreMore_ignored]
    unfold ErrInput.ignored
    simp only [List.any_cons]
    have : ((e == e') : Bool) = (e' == e) := by
      by_cases h : e = e'
      · subst h; rfl
      · have h' : ¬ e' = e := fun h'' => h h''.symm
        rw [beq_eq_false_iff_ne.2 h, beq_eq_false_iff_ne.2 h']
    rw [this]
    cases inp.fi.ignored e' <;> cases (e' == e) <;>
      cases (inp.scaling.any fun p => p.1 == e' && p.2 == 0) <;> simp
  have hbasic : ({ inp with scaling := (e, 0) :: inp.scaling } : ErrInput).basicEdges
      = (inp.ignoreMore e).basicEdges := by
    unfold ErrInput.basicEdges
    apply List.filter_congr
    intro x _
    show (!({ inp with scaling := (e, 0) :: inp.scaling } : ErrInput).ignored x) = _
    rw [hign]
  have hne : ∀ x ∈ (inp.ignoreMore e).basicEdges, x ≠ e := by
    intro x hx
    rw [err_ignoreMore_basic] at hx
    simpa using (List.mem_filter.1 hx).2
  have hw : ({ inp with scaling := (e, 0) :: inp.scaling } : ErrInput).wmax none
      = (inp.ignoreMore e).wmax none := by
    unfold ErrInput.wmax
    rw [hbasic]
    rfl
  rw [klaeLP_eq, klaeLP_eq, hw, hbasic]
  congr 1
  apply klaePart_congr_scale
  intro x hx
  have hxe := hne x hx
  unfold ErrInput.scale lookupD
  have hbeq : (x == e) = false := by simpa using hxe
  simp [List.lookup_cons, hbeq]
  rfl

end FP
