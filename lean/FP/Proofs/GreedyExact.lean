import FP.Proofs.GreedyStep
/-!
# FP.Proofs.GreedyExact — greedy bottleneck peeling of a non-negative conserving flow on a DAG
terminates within its fuel and decomposes the flow exactly
-/
namespace FP
open FP.Spec

/-- every consecutive pair of `l` is an edge of `g` satisfying `Q` -/
def AllQ (g : Graph) (Q : Edge → Prop) (l : List Node) : Prop := ∀ e ∈ walkEdges l, e ∈ g.edges ∧ Q e

theorem idxOf_lt_len {topo : List Node} {v : Node} (h : v ∈ topo) : topo.idxOf v < topo.length :=
  List.idxOf_lt_length_of_mem h

/-- forward extension of a `Q`-walk to a node without out-edges -/
theorem extend_fwd (g : Graph) (topo : List Node) (htopo : IsTopo g.edges topo) (Q : Edge → Prop)
    (hf : ∀ u v, (u, v) ∈ g.edges → Q (u, v) → g.succ v ≠ [] → ∃ w, (v, w) ∈ g.edges ∧ Q (v, w)) (k : Nat) :
    ∀ (pre : List Node) (u v : Node), (u, v) ∈ g.edges → Q (u, v) → topo.length - topo.idxOf v < k →
      AllQ g Q (pre ++ [u] ++ [v]) →
      ∃ ext t, (pre ++ [u] ++ [v] ++ ext).getLast? = some t ∧ g.succ t = [] ∧ AllQ g Q (pre ++ [u] ++ [v] ++ ext) := by
  induction k with
  | zero => intro pre u v _ _ h; omega
  | succ k ih =>
    intro pre u v he hq hm hall
    by_cases hs : g.succ v = []
    · exact ⟨[], v, by simp, hs, by simpa using hall⟩
    · obtain ⟨w, hw, hqw⟩ := hf u v he hq hs
      have hlt : topo.idxOf v < topo.idxOf w := topo_rank htopo (v, w) hw
      have hwl : topo.idxOf w < topo.length := idxOf_lt_len (htopo.cover _ hw).2
      have hall' : AllQ g Q (pre ++ [u] ++ [v] ++ [w]) := by
        intro e hmem
        rw [walkEdges_snoc] at hmem
        rcases List.mem_append.1 hmem with h | h
        · exact hall e h
        · have : e = (v, w) := by simpa using h
          rw [this]; exact ⟨hw, hqw⟩
      obtain ⟨ext, t, h1, h2, h3⟩ := ih (pre ++ [u]) v w hw hqw (by omega) hall'
      refine ⟨w :: ext, t, ?_, h2, ?_⟩
      · have : pre ++ [u] ++ [v] ++ w :: ext = pre ++ [u] ++ [v] ++ [w] ++ ext := by simp
        rw [this]; exact h1
      · have : pre ++ [u] ++ [v] ++ w :: ext = pre ++ [u] ++ [v] ++ [w] ++ ext := by simp
        rw [this]; exact h3

/-- backward extension of a `Q`-walk to a node without in-edges -/
theorem extend_bwd (g : Graph) (topo : List Node) (htopo : IsTopo g.edges topo) (Q : Edge → Prop)
    (hb : ∀ u v, (u, v) ∈ g.edges → Q (u, v) → g.pred u ≠ [] → ∃ t, (t, u) ∈ g.edges ∧ Q (t, u)) (k : Nat) :
    ∀ (u v : Node) (rest : List Node), (u, v) ∈ g.edges → Q (u, v) → topo.idxOf u < k →
      AllQ g Q (u :: v :: rest) →
      ∃ pre s, (pre ++ u :: v :: rest).head? = some s ∧ g.pred s = [] ∧ AllQ g Q (pre ++ u :: v :: rest) := by
  induction k with
  | zero => intro u v rest _ _ h; omega
  | succ k ih =>
    intro u v rest he hq hm hall
    by_cases hp : g.pred u = []
    · exact ⟨[], u, by simp, hp, by simpa using hall⟩
    · obtain ⟨t, ht, hqt⟩ := hb u v he hq hp
      have hlt : topo.idxOf t < topo.idxOf u := topo_rank htopo (t, u) ht
      have hall' : AllQ g Q (t :: u :: v :: rest) := by
        intro e hmem
        rw [walkEdges_cons_cons] at hmem
        rcases List.mem_cons.1 hmem with h | h
        · rw [h]; exact ⟨ht, hqt⟩
        · exact hall e h
      obtain ⟨pre, s, h1, h2, h3⟩ := ih t u (v :: rest) ht hqt (by omega) hall'
      refine ⟨pre ++ [t], s, ?_, h2, ?_⟩
      · have : pre ++ [t] ++ u :: v :: rest = pre ++ t :: u :: v :: rest := by simp
        rw [this]; exact h1
      · have : pre ++ [t] ++ u :: v :: rest = pre ++ t :: u :: v :: rest := by simp
        rw [this]; exact h3

/-- every `Q`-edge lies on a source-to-sink path all of whose edges satisfy `Q`, provided `Q`
propagates forwards and backwards through inner nodes -/
theorem exists_Q_stpath (g : Graph) (topo : List Node) (htopo : IsTopo g.edges topo) (Q : Edge → Prop)
    (hf : ∀ u v, (u, v) ∈ g.edges → Q (u, v) → g.succ v ≠ [] → ∃ w, (v, w) ∈ g.edges ∧ Q (v, w))
    (hb : ∀ u v, (u, v) ∈ g.edges → Q (u, v) → g.pred u ≠ [] → ∃ t, (t, u) ∈ g.edges ∧ Q (t, u))
    (u v : Node) (he : (u, v) ∈ g.edges) (hq : Q (u, v)) :
    ∃ p, IsSTPath g p ∧ ∀ e ∈ walkEdges p, Q e := by
  have h0 : AllQ g Q (u :: v :: []) := by
    intro e hmem
    have : e = (u, v) := by simpa [walkEdges] using hmem
    rw [this]; exact ⟨he, hq⟩
  obtain ⟨pre, s, b1, b2, b3⟩ := extend_bwd g topo htopo Q hb (topo.idxOf u + 1) u v [] he hq (by omega) h0
  have hform : pre ++ u :: v :: [] = pre ++ [u] ++ [v] := by simp
  rw [hform] at b1 b3
  obtain ⟨ext, t, f1, f2, f3⟩ := extend_fwd g topo htopo Q hf (topo.length - topo.idxOf v + 1) pre u v he hq
    (by omega) b3
  refine ⟨pre ++ [u] ++ [v] ++ ext, ⟨?_, fun e hmem => (f3 e hmem).1, ?_, ?_⟩, fun e hmem => (f3 e hmem).2⟩
  · simp; omega
  · intro a ha
    rw [head?_append_ne_nil _ _ (by simp)] at ha
    rw [b1] at ha
    have : a = s := (Option.some.inj ha).symm
    rw [this]; exact b2
  · intro a ha
    rw [f1] at ha
    have : a = t := (Option.some.inj ha).symm
    rw [this]; exact f2

/-- a graph with an edge and a topological order has a source-to-sink path -/
theorem exists_stpath (g : Graph) (topo : List Node) (htopo : IsTopo g.edges topo) (hne : g.edges ≠ []) :
    ∃ p, IsSTPath g p := by
  cases hge : g.edges with
  | nil => exact absurd hge hne
  | cons e es =>
    have he : (e.1, e.2) ∈ g.edges := by rw [hge]; simp
    obtain ⟨p, hp, _⟩ := exists_Q_stpath g topo htopo (fun _ => True)
      (fun u v _ _ hs => by
        cases hsv : g.succ v with
        | nil => exact absurd hsv hs
        | cons w ws => exact ⟨w, mem_succ.1 (by rw [hsv]; simp), trivial⟩)
      (fun u v _ _ hp => by
        cases hpu : g.pred u with
        | nil => exact absurd hpu hp
        | cons t ts => exact ⟨t, mem_pred.1 (by rw [hpu]; simp), trivial⟩)
      e.1 e.2 he trivial
    exact ⟨p, hp⟩

/-- a non-negative conserving flow on a DAG every source-to-sink path of which has an edge of value
`≤ 0` vanishes -/
theorem residual_zero (g : Graph) (topo : List Node) (htopo : IsTopo g.edges topo) (f : Edge → Rat)
    (hnn : ∀ e ∈ g.edges, 0 ≤ f e) (hc : Conserving g f)
    (hall : ∀ p, IsSTPath g p → ∃ e ∈ walkEdges p, f e ≤ 0) : ∀ e ∈ g.edges, f e = 0 := by
  intro e he
  apply Classical.byContradiction
  intro hne
  have hpos : 0 < f e := by have := hnn e he; grind
  have hmemP : ∀ (v : Node) (a : Edge), a ∈ g.edges.filter (fun e' => e'.2 = v) → 0 ≤ f a :=
    fun v a ha => hnn a (List.mem_filter.1 ha).1
  have hmemS : ∀ (v : Node) (a : Edge), a ∈ g.edges.filter (fun e' => e'.1 = v) → 0 ≤ f a :=
    fun v a ha => hnn a (List.mem_filter.1 ha).1
  obtain ⟨p, hp, hq⟩ := exists_Q_stpath g topo htopo (fun e' => 0 < f e')
    (fun u v huv hquv hs => by
      have hpv : g.pred v ≠ [] := by
        intro h0; have := mem_pred.2 huv; rw [h0] at this; simp at this
      have hcons := hc v hpv hs
      have hin : f (u, v) ≤ inflowOf g f v :=
        le_sum_of_mem _ f (hmemP v) (u, v) (List.mem_filter.2 ⟨huv, by simp⟩)
      have hout : outflowOf g f v ≠ 0 := by rw [← hcons]; grind
      obtain ⟨a, ha, hfa⟩ := exists_ne_zero_of_sum_ne_zero _ f hout
      have ha' := List.mem_filter.1 ha
      have ha1 : a.1 = v := by simpa using ha'.2
      refine ⟨a.2, ?_, ?_⟩
      · rw [← ha1]; exact ha'.1
      · have h0 := hnn a ha'.1
        have : (v, a.2) = a := by rw [← ha1]
        rw [this]; grind)
    (fun u v huv hquv hp => by
      have hsu : g.succ u ≠ [] := by
        intro h0; have := mem_succ.2 huv; rw [h0] at this; simp at this
      have hcons := hc u hp hsu
      have hout : f (u, v) ≤ outflowOf g f u :=
        le_sum_of_mem _ f (hmemS u) (u, v) (List.mem_filter.2 ⟨huv, by simp⟩)
      have hin : inflowOf g f u ≠ 0 := by rw [hcons]; grind
      obtain ⟨a, ha, hfa⟩ := exists_ne_zero_of_sum_ne_zero _ f hin
      have ha' := List.mem_filter.1 ha
      have ha2 : a.2 = u := by simpa using ha'.2
      refine ⟨a.1, ?_, ?_⟩
      · rw [← ha2]; exact ha'.1
      · have h0 := hnn a ha'.1
        have : (a.1, u) = a := by rw [← ha2]
        rw [this]; grind)
    e.1 e.2 he hpos
  obtain ⟨e', he', hle⟩ := hall p hp
  have := hq e' he'
  grind

/-- the loop runs at most `nzCount + 1` times -/
theorem peel_terminates (g : Graph) (hnd : g.edges.Nodup) (topo : List Node)
    (htopo : IsTopo g.edges topo) (n : Nat) :
    ∀ (f : Edge → Rat) (acc : List (List Node × Rat)), (∀ e ∈ g.edges, 0 ≤ f e) → Conserving g f →
      nzCount g f < n → ∃ r, peelLoop g topo n f acc = .done r := by
  induction n with
  | zero => intro f acc _ _ h; omega
  | succ n ih =>
    intro f acc hnn hc hlt
    unfold peelLoop
    have hs := maxBottleneckPath_spec g f topo htopo
    cases hm : maxBottleneckPath g f topo with
    | none => exact ⟨_, rfl⟩
    | path b p =>
      obtain ⟨_, _, h3, h4, h5⟩ := peel_step g hnd topo htopo f hnn hc b p hm
      exact ih _ _ h3 h4 (by omega)
    | stuck => rw [hm] at hs; exact hs.elim

end FP

namespace FP
open FP.Spec

/-- non-negativity and conservation survive the loop; every newly peeled weight is positive -/
theorem peel_keeps (g : Graph) (hnd : g.edges.Nodup) (topo : List Node) (htopo : IsTopo g.edges topo) (n : Nat) :
    ∀ (f : Edge → Rat) (acc : List (List Node × Rat)) (r : Peeled), peelLoop g topo n f acc = .done r →
      (∀ e ∈ g.edges, 0 ≤ f e) → Conserving g f →
      (∀ e ∈ g.edges, 0 ≤ r.residual e) ∧ Conserving g r.residual ∧ ∀ pw ∈ r.paths, pw ∈ acc ∨ 0 < pw.2 := by
  induction n with
  | zero => intro f acc r h; simp [peelLoop] at h
  | succ n ih =>
    intro f acc r h hnn hc
    unfold peelLoop at h
    cases hm : maxBottleneckPath g f topo with
    | none =>
      rw [hm] at h
      simp only [PeelResult.done.injEq] at h
      subst h
      exact ⟨hnn, hc, fun pw hpw => Or.inl hpw⟩
    | path b p =>
      rw [hm] at h
      simp only at h
      obtain ⟨hb, _, h3, h4, _⟩ := peel_step g hnd topo htopo f hnn hc b p hm
      obtain ⟨i1, i2, i3⟩ := ih _ _ r h h3 h4
      refine ⟨i1, i2, ?_⟩
      intro pw hpw
      rcases i3 pw hpw with h' | h'
      · rcases List.mem_append.1 h' with h'' | h''
        · exact Or.inl h''
        · have : pw = (p, b) := by simpa using h''
          rw [this]; exact Or.inr hb
      · exact Or.inr h'
    | stuck => rw [hm] at h; simp at h

/-- **greedy peeling is exact.** On a DAG (distinct edges, `topo` a topological order; a graph without
edges included: no path is peeled) and a non-negative flow conserved at every inner node, the loop of
`decompose_using_max_bottleneck` stops within `|E| + 1` rounds, the residual vanishes on every edge,
every peeled path is a source-to-sink path of the graph with positive weight, and on every edge
the weights of the paths through it add up to the flow. -/
theorem decompose_exact (g : Graph) (hnd : g.edges.Nodup) (topo : List Node)
    (htopo : IsTopo g.edges topo) (f : Edge → Rat) (hnn : ∀ e ∈ g.edges, 0 ≤ f e) (hc : Conserving g f) :
    ∃ r, decompose g f topo = .done r ∧ (∀ e ∈ g.edges, r.residual e = 0) ∧
      (∀ e ∈ g.edges, peeledSum r.paths e = f e) ∧ (∀ pw ∈ r.paths, IsSTPath g pw.1 ∧ 0 < pw.2) := by
  have hcount : nzCount g f < g.edges.length + 1 := by
    unfold nzCount
    have := List.length_filter_le (fun e => decide (f e ≠ 0)) g.edges
    omega
  obtain ⟨r, hr⟩ := peel_terminates g hnd topo htopo _ f [] hnn hc hcount
  have hr' : decompose g f topo = .done r := hr
  obtain ⟨d1, d2, d3⟩ := decompose_invariant g f topo htopo r hr'
  obtain ⟨k1, k2, k3⟩ := peel_keeps g hnd topo htopo _ f [] r hr hnn hc
  have hz := residual_zero g topo htopo r.residual k1 k2 d3
  refine ⟨r, hr', hz, ?_, ?_⟩
  · intro e he
    have := d1 e
    rw [hz e he] at this
    grind
  · intro pw hpw
    refine ⟨(d2 pw hpw).1, ?_⟩
    rcases k3 pw hpw with h | h
    · simp at h
    · exact h

/-- in a graph without in-edges `maxBottleneckSink` stays `None` (whatever the order swept) -/
theorem bTable_best_none (g : Graph) (f : Edge → Rat) (hp : ∀ v, g.pred v = []) (topo : List Node) :
    ∀ st : BState, st.best = none → (topo.foldl (bstep g f) st).best = none := by
  induction topo with
  | nil => intro st h; exact h
  | cons v topo ih =>
    intro st h
    rw [List.foldl_cons]
    apply ih
    unfold bstep
    simp [hp v, h]

/-- on a graph without edges `max_bottleneck_path` answers `(None, None)` at once and the loop
returns no paths (before the repair of finding C17-F1 the code looked up `B[None]` here); no
assumption on `topo` or `f` -/
theorem decompose_edgeless (g : Graph) (he : g.edges = []) (topo : List Node) (f : Edge → Rat) :
    maxBottleneckPath g f topo = .none ∧ decompose g f topo = .done { paths := [], residual := f } := by
  have hp : ∀ v, g.pred v = [] := by intro v; simp [Graph.pred, he]
  have hb : (bTable g f topo).best = none := bTable_best_none g f hp topo bInit rfl
  have hm := mbp_noSink g f topo hb
  refine ⟨hm, ?_⟩
  unfold decompose
  rw [he]
  simp only [List.length_nil, Nat.zero_add]
  unfold peelLoop
  rw [hm]

end FP
