import FP.Proofs.MGSComplete
import FP.Proofs.MGSPre
import FP.Proofs.MSC
import FP.Proofs.Search
/-!
# FP.Proofs.C15 — concrete witnesses used by `FP/Props/C15.lean`
-/
namespace FP.GS
open FP.Spec

instance (g : List Rat) (total : Rat) (numbers : List Rat) (mult : Nat) :
    Decidable (IsGenSet g total numbers mult) := by unfold IsGenSet; infer_instance

theorem generates_one (a x : Rat) (h : Generates [a] 1 x) : x = 0 ∨ x = a := by
  obtain ⟨c, h1, h2, h3⟩ := h
  match c, h1, h2, h3 with
  | [c0], _, h2, h3 =>
    have : c0 ≤ 1 := h2 c0 (by simp)
    have h' : c0 = 0 ∨ c0 = 1 := by omega
    simp only [dot_cons, dot_nil_left] at h3
    rcases h' with rfl | rfl
    · left; rw [← h3]; simp; grind
    · right; rw [← h3]; simp; grind

theorem generates_two (a b x : Rat) (h : Generates [a, b] 1 x) : x = 0 ∨ x = a ∨ x = b ∨ x = a + b := by
  obtain ⟨c, h1, h2, h3⟩ := h
  match c, h1, h2, h3 with
  | [c0, c1], _, h2, h3 =>
    have hc0 : c0 ≤ 1 := h2 c0 (by simp)
    have hc1 : c1 ≤ 1 := h2 c1 (by simp)
    have h0 : c0 = 0 ∨ c0 = 1 := by omega
    have h1 : c1 = 0 ∨ c1 = 1 := by omega
    simp only [dot_cons, dot_nil_left] at h3
    rcases h0 with rfl | rfl <;> rcases h1 with rfl | rfl <;> simp at h3
    · left; grind
    · right; right; left; grind
    · right; left; grind
    · right; right; right; grind

/-- `[1, 2, 4]` with total `7`: no generating multiset with fewer than three elements -/
theorem no_small_genset_124 (g : List Rat) (hlen : g.length ≤ 2) : ¬ IsGenSet g 7 [1, 2, 4] 1 := by
  rintro ⟨hs, _, hgen⟩
  have g1 := hgen 1 (by simp)
  have g2 := hgen 2 (by simp)
  have g4 := hgen 4 (by simp)
  match g, hlen with
  | [], _ => simp at hs
  | [a], _ =>
    simp only [List.sum_cons, List.sum_nil] at hs
    rcases generates_one a 1 g1 with h | h <;> rcases generates_one a 2 g2 with h' | h' <;> grind
  | [a, b], _ =>
    simp only [List.sum_cons, List.sum_nil] at hs
    rcases generates_two a b 1 g1 with h | h | h | h <;>
    rcases generates_two a b 2 g2 with h' | h' | h' | h' <;>
    rcases generates_two a b 4 g4 with h'' | h'' | h'' | h'' <;> grind

/-- three distinct positive values below the sum cannot all be sub-sums of a two-element multiset -/
theorem no_two_genset_eighths (g : List Rat) (hlen : g.length = 2) :
    ¬ IsGenSet g 1 [3/8, 1/4, 1/8] 1 := by
  rintro ⟨hs, _, hgen⟩
  have g1 := hgen (3/8) (by simp)
  have g2 := hgen (1/4) (by simp)
  have g3 := hgen (1/8) (by simp)
  match g, hlen with
  | [a, b], _ =>
    simp only [List.sum_cons, List.sum_nil] at hs
    rcases generates_two a b _ g1 with h | h | h | h <;>
    rcases generates_two a b _ g2 with h' | h' | h' | h' <;>
    rcases generates_two a b _ g3 with h'' | h'' | h'' | h'' <;> grind

end FP.GS
