import FP.Proofs.NodeExpandGraph
/-!
# translation of constraints / starts / ends / values, and the node branch of kFlowDecomp as LP data
-/
namespace FP
namespace NX

/-! ## `mapM` in `Except` -/

theorem bind_ok {α β ε} {x : Except ε α} {f : α → Except ε β} {y : β} (h : x >>= f = .ok y) :
    ∃ a, x = .ok a ∧ f a = .ok y := by
  cases x with
  | error e => exact nomatch h
  | ok a => exact ⟨a, rfl, h⟩

theorem mapM_ok_inv {α β ε} (f : α → Except ε β) : ∀ (l : List α) (ys : List β),
    l.mapM f = .ok ys → ys.length = l.length ∧ ∀ i (h1 : i < l.length) (h2 : i < ys.length), f l[i] = .ok ys[i] := by
  intro l
  induction l with
  | nil =>
    intro ys h
    have : ys = [] := by
      rw [List.mapM_nil] at h
      exact (Except.ok.inj h).symm
    subst this
    exact ⟨rfl, fun i h1 => absurd h1 (Nat.not_lt_zero _)⟩
  | cons a l ih =>
    intro ys h
    rw [List.mapM_cons] at h
    obtain ⟨b, hfa, h⟩ := bind_ok h
    obtain ⟨bs, hl, h⟩ := bind_ok h
    have : ys = b :: bs := (Except.ok.inj h).symm
    subst this
    obtain ⟨h1, h2⟩ := ih bs hl
    refine ⟨by simp [h1], ?_⟩
    intro i hi1 hi2
    cases i with
    | zero => simpa using hfa
    | succ i => simpa using h2 i (by simpa using hi1) (by simpa using hi2)

theorem mapM_ok_map {α β ε} (f : α → Except ε β) (g : α → β) (P : α → Prop)
    (hf : ∀ a b, f a = .ok b → P a ∧ b = g a) (l : List α) (ys : List β) (h : l.mapM f = .ok ys) :
    ys = l.map g ∧ ∀ a ∈ l, P a := by
  obtain ⟨h1, h2⟩ := mapM_ok_inv f l ys h
  constructor
  · apply List.ext_getElem (by simp [h1])
    intro i hi1 hi2
    have hi : i < l.length := by simpa using hi2
    rw [List.getElem_map]
    exact (hf _ _ (h2 i hi hi1)).2
  · intro a ha
    obtain ⟨i, hi, rfl⟩ := List.getElem_of_mem ha
    exact (hf _ _ (h2 i hi (by omega))).1

theorem expandedNode_ok {g : Graph} {v : Node} {x : Edge} (h : expandedNode g v = .ok x) :
    v ∈ g.nodes ∧ x = nodeEdge v := by
  unfold expandedNode at h
  by_cases hv : g.nodes.contains v = true
  · rw [if_pos hv] at h
    exact ⟨by simpa using hv, (Except.ok.inj h).symm⟩
  · rw [if_neg hv] at h; exact nomatch h

theorem expandedNode_of_mem {g : Graph} {v : Node} (h : v ∈ g.nodes) : expandedNode g v = .ok (nodeEdge v) := by
  unfold expandedNode
  rw [if_pos (by simpa using h)]

/-! ## starts, ends, ignored nodes -/

theorem mapM_expandedNode_ok {g : Graph} {l : List Node} {xs : List Edge}
    (h : l.mapM (expandedNode g) = .ok xs) : xs = l.map nodeEdge ∧ ∀ v ∈ l, v ∈ g.nodes :=
  mapM_ok_map (expandedNode g) nodeEdge (· ∈ g.nodes) (fun _ _ hab => expandedNode_ok hab) l xs h

theorem expandStarts_ok {g : Graph} {l xs : List Node} (h : expandStarts g l = .ok xs) :
    xs = l.map n0 ∧ (∀ v ∈ l, v ∈ g.nodes) ∧ xs.map strip2 = l := by
  have := mapM_ok_map (fun v => (expandedNode g v).map (·.1)) n0 (· ∈ g.nodes) (by
    intro a b hab
    cases hx : expandedNode g a with
    | error e => rw [hx] at hab; exact nomatch hab
    | ok x =>
      rw [hx] at hab
      obtain ⟨h1, h2⟩ := expandedNode_ok hx
      refine ⟨h1, ?_⟩
      have : x.1 = b := Except.ok.inj hab
      rw [← this, h2]; rfl) l xs (by unfold expandStarts at h; exact h)
  refine ⟨this.1, this.2, ?_⟩
  rw [this.1, List.map_map]
  conv => rhs; rw [← List.map_id l]
  exact List.map_congr_left (fun v _ => strip2_n0 v)

theorem expandEnds_ok {g : Graph} {l xs : List Node} (h : expandEnds g l = .ok xs) :
    xs = l.map n1 ∧ (∀ v ∈ l, v ∈ g.nodes) ∧ xs.map strip2 = l := by
  have := mapM_ok_map (fun v => (expandedNode g v).map (·.2)) n1 (· ∈ g.nodes) (by
    intro a b hab
    cases hx : expandedNode g a with
    | error e => rw [hx] at hab; exact nomatch hab
    | ok x =>
      rw [hx] at hab
      obtain ⟨h1, h2⟩ := expandedNode_ok hx
      refine ⟨h1, ?_⟩
      have : x.2 = b := Except.ok.inj hab
      rw [← this, h2]; rfl) l xs (by unfold expandEnds at h; exact h)
  refine ⟨this.1, this.2, ?_⟩
  rw [this.1, List.map_map]
  conv => rhs; rw [← List.map_id l]
  exact List.map_congr_left (fun v _ => strip2_n1 v)

/-! ## constraints -/

/-- the original elements named by a list of expanded edges -/
def condenseConstraint (xs : List Edge) : List Element := xs.filterMap condenseElement

def edgesOf (l : List Element) : List Edge := l.filterMap fun x => match x with
  | .edge e => some e
  | .node _ => none

theorem condenseConstraint_nodes (c : List Node) : condenseConstraint (c.map nodeEdge) = c.map .node := by
  unfold condenseConstraint
  induction c with
  | nil => rfl
  | cons v c ih => simp [condenseElement_nodeEdge, ih]

theorem edgesOf_condense_expandEdgeConstraint : ∀ c : List Edge,
    edgesOf (condenseConstraint (expandEdgeConstraint c)) = c
  | [] => rfl
  | [e] => by
    simp [expandEdgeConstraint, condenseConstraint, edgesOf, condenseElement_nodeEdge,
      condenseElement_edgeEdge]
  | e :: e' :: rest => by
    have ih := edgesOf_condense_expandEdgeConstraint (e' :: rest)
    have hx : expandEdgeConstraint (e :: e' :: rest)
        = nodeEdge e.1 :: edgeEdge e :: expandEdgeConstraint (e' :: rest) := by
      simp [expandEdgeConstraint]
    unfold condenseConstraint edgesOf at ih ⊢
    rw [hx]
    simp only [List.filterMap_cons, condenseElement_nodeEdge, condenseElement_edgeEdge]
    rw [ih]

theorem expandEdgeConstraint_ne_nil {c : List Edge} (h : c ≠ []) : expandEdgeConstraint c ≠ [] := by
  match c, h with
  | [e], _ => simp [expandEdgeConstraint]
  | e :: e' :: rest, _ => simp [expandEdgeConstraint]

theorem expandConstraints_ok {g : Graph} {cs : Constraints} {xs : List (List Edge)}
    (h : expandConstraints g cs = .ok xs) : xs = specConstraints cs := by
  match cs, h with
  | .nodes [], h => exact (Except.ok.inj h).symm
  | .edges [], h => exact (Except.ok.inj h).symm
  | .nodes (c0 :: l), h =>
    unfold expandConstraints at h
    simp only at h
    split at h
    · exact nomatch h
    · exact (mapM_ok_map (fun c : List Node => c.mapM (expandedNode g)) (·.map nodeEdge) (fun _ => True)
        (fun a b hab => ⟨trivial, (mapM_expandedNode_ok hab).1⟩) _ xs h).1
  | .edges (c0 :: l), h =>
    unfold expandConstraints at h
    simp only at h
    split at h
    · exact nomatch h
    · exact (mapM_ok_map _ expandEdgeConstraint (fun _ => True) (by
        intro a b hab
        by_cases hc : a.all g.edges.contains = true
        · rw [if_pos hc] at hab; exact ⟨trivial, (Except.ok.inj hab).symm⟩
        · rw [if_neg hc] at hab; exact nomatch hab) _ xs h).1

theorem constraints_roundtrip {g : Graph} {cs : Constraints} {xs : List (List Edge)}
    (h : expandConstraints g cs = .ok xs) :
    match cs with
    | .nodes l => xs.map condenseConstraint = l.map (·.map .node)
    | .edges l => xs.map (fun x => edgesOf (condenseConstraint x)) = l := by
  have hx := expandConstraints_ok h
  subst hx
  cases cs with
  | nodes l =>
    simp only [specConstraints, List.map_map]
    exact List.map_congr_left (fun c _ => condenseConstraint_nodes c)
  | edges l =>
    simp only [specConstraints, List.map_map]
    conv => rhs; rw [← List.map_id l]
    exact List.map_congr_left (fun c _ => edgesOf_condense_expandEdgeConstraint c)

/-! ## values -/

theorem lookup_map_key {α β γ} [BEq α] [LawfulBEq α] [BEq γ] [LawfulBEq γ] (f : α → γ)
    (hf : ∀ a b, f a = f b → a = b) (l : List (α × β)) (k : α) :
    (l.map fun p => (f p.1, p.2)).lookup (f k) = l.lookup k := by
  induction l with
  | nil => rfl
  | cons p l ih =>
    obtain ⟨a, b⟩ := p
    simp only [List.map_cons, List.lookup_cons]
    by_cases hka : k = a
    · subst hka; simp
    · have h1 : (k == a) = false := by simpa using hka
      have h2 : (f k == f a) = false := by
        simp only [beq_eq_false_iff_ne, ne_eq]
        exact fun h => hka (hf _ _ h)
      rw [h1, h2]; exact ih

theorem lookup_map_none {α β γ} [BEq γ] [LawfulBEq γ] (f : α → γ) (l : List (α × β)) (k : γ)
    (h : ∀ p ∈ l, f p.1 ≠ k) : (l.map fun p => (f p.1, p.2)).lookup k = none := by
  induction l with
  | nil => rfl
  | cons p l ih =>
    simp only [List.map_cons, List.lookup_cons]
    have h2 : (k == f p.1) = false := by
      simp only [beq_eq_false_iff_ne, ne_eq]
      exact fun hk => h p (List.mem_cons_self ..) hk.symm
    rw [h2]
    exact ih (fun q hq => h q (List.mem_cons_of_mem _ hq))

theorem lookup_expandFlow_nodeEdge (ng : NodeGraph) (v : Node) :
    (expandFlow ng).lookup (nodeEdge v) = ng.nodeFlow.lookup v := by
  unfold expandFlow
  rw [List.lookup_append, lookup_map_key nodeEdge (fun _ _ => nodeEdge_inj),
    lookup_map_none edgeEdge _ _ (fun p _ h => nodeEdge_ne_edgeEdge _ _ h.symm)]
  simp

theorem condenseFlow_expandFlow (ng : NodeGraph) :
    condenseFlow ng.g (expandFlow ng) = ng.g.nodes.filterMap fun v => (ng.nodeFlow.lookup v).map fun q => (v, q) := by
  unfold condenseFlow
  congr 1
  funext v
  rw [lookup_expandFlow_nodeEdge]

/-! ## the LP of kFlowDecomp depends on the ignore list as a set and on the values of active edges only -/

theorem kfdLP_congr (a b : FlowInput) (hbase : a.base = b.base) (hs : a.starts = b.starts)
    (he : a.ends = b.ends) (hw : a.weightInt = b.weightInt) (hcfg : a.cfg = b.cfg)
    (hign : ∀ e, a.ignore.contains e = b.ignore.contains e)
    (hf : ∀ e, a.ignored e = false → a.f e = b.f e) : kfdLP a = kfdLP b := by
  have hst : a.st = b.st := by unfold FlowInput.st; rw [hbase, hs, he]
  have hignd : a.ignored = b.ignored := by
    funext e; unfold FlowInput.ignored; rw [hst, hign]
  have hact : a.activeEdges = b.activeEdges := by
    unfold FlowInput.activeEdges; rw [hst, hignd]
  have hfa : ∀ e ∈ a.activeEdges, a.f e = b.f e := by
    intro e hea
    apply hf
    have := (List.mem_filter.1 hea).2
    simpa using this
  have hwm : a.wmax = b.wmax := by
    unfold FlowInput.wmax
    rw [← hact]
    congr 1
    exact List.map_congr_left hfa
  have hrows : (a.activeEdges.map fun e => rowEq (ones (List.range a.cfg.k) (piVar e)) (a.f e))
      = (b.activeEdges.map fun e => rowEq (ones (List.range b.cfg.k) (piVar e)) (b.f e)) := by
    rw [← hact, ← hcfg]
    exact List.map_congr_left (fun e he => by rw [hfa e he])
  unfold kfdLP
  simp only [hrows]
  rw [hst, hcfg, hw, hact, hwm]

/-! ## node mode = edge mode on the explicit expansion -/

theorem kfdNodeTranslate_ok {inp : NodeFlowInput} {fi : FlowInput} (h : kfdNodeTranslate inp = .ok fi) :
    ∃ cons ign, expandConstraints inp.ng.g inp.constraints = .ok cons ∧
      inp.ignoreNodes.mapM (expandedNode inp.ng.g) = .ok ign ∧
      inp.ng.g.nodes ≠ [] ∧ (∀ c ∈ cons, c ≠ []) ∧
      fi = { base := expandGraph inp.ng.g, flow := expandFlow inp.ng,
             ignore := (edgesToIgnore inp.ng ++ ign).eraseDups, starts := [], ends := [],
             weightInt := inp.weightInt,
             cfg := { k := inp.k, allowEmpty := inp.allowEmpty, constraints := cons,
                      coverage := inp.coverage, coverageLength := inp.coverageLength,
                      lengths := expandLengths inp.ng } } := by
  unfold kfdNodeTranslate at h
  by_cases hn : inp.ng.g.nodes.isEmpty = true
  · rw [if_pos hn] at h; exact nomatch h
  · rw [if_neg hn] at h
    cases hc : expandConstraints inp.ng.g inp.constraints with
    | error e => rw [hc] at h; exact nomatch h
    | ok cons =>
      rw [hc] at h
      cases hi : inp.ignoreNodes.mapM (expandedNode inp.ng.g) with
      | error e => rw [hi] at h; exact nomatch h
      | ok ign =>
        rw [hi] at h
        by_cases he : cons.any (·.isEmpty) = true
        · simp only [he, if_true] at h; exact nomatch h
        · simp only [he] at h
          refine ⟨cons, ign, rfl, rfl, ?_, ?_, (Except.ok.inj h).symm⟩
          · intro h0; rw [h0] at hn; simp at hn
          · intro c hcm h0
            apply he
            exact List.any_eq_true.2 ⟨c, hcm, by simp [h0]⟩

theorem kfdEdgeChecks_ok {fi fi' : FlowInput} (h : kfdEdgeChecks fi = .ok fi') :
    fi' = fi ∧ fi.activeEdges ≠ [] ∧ fi.cfg.k ≠ 0 := by
  unfold kfdEdgeChecks at h
  by_cases ha : fi.activeEdges.isEmpty = true
  · rw [if_pos ha] at h; exact nomatch h
  · rw [if_neg ha] at h
    by_cases hk : fi.cfg.k = 0
    · rw [if_pos hk] at h; exact nomatch h
    · rw [if_neg hk] at h
      exact ⟨(Except.ok.inj h).symm, fun h0 => ha (by simp [h0]), hk⟩

theorem kfdEdgeChecks_accepts (fi : FlowInput) (ha : fi.activeEdges ≠ []) (hk : fi.cfg.k ≠ 0) :
    kfdEdgeChecks fi = .ok fi := by
  unfold kfdEdgeChecks
  have h1 : ¬ (fi.activeEdges.isEmpty = true) := fun h => ha (List.isEmpty_iff.1 h)
  rw [if_neg h1, if_neg hk]

theorem kfdNodeInternal_of_translate {inp : NodeFlowInput} {fi : FlowInput}
    (ht : kfdNodeTranslate inp = .ok fi) : kfdNodeInternal inp = kfdEdgeChecks fi := by
  unfold kfdNodeInternal; rw [ht]

theorem kfdNodeInternal_ok {inp : NodeFlowInput} {fi : FlowInput} (h : kfdNodeInternal inp = .ok fi) :
    kfdNodeTranslate inp = .ok fi ∧ fi.activeEdges ≠ [] ∧ fi.cfg.k ≠ 0 := by
  unfold kfdNodeInternal at h
  cases ht : kfdNodeTranslate inp with
  | error e => rw [ht] at h; exact nomatch h
  | ok fi0 =>
    rw [ht] at h
    obtain ⟨h1, h2, h3⟩ := kfdEdgeChecks_ok h
    subst h1
    exact ⟨rfl, h2, h3⟩

theorem node_mode_is_edge_mode_on_expansion (inp : NodeFlowInput) (lp : LP) (hc : Closed inp.ng.g)
    (hef : ∀ p ∈ inp.ng.edgeFlow, p.1 ∈ inp.ng.g.edges) (h : kfdNodeLP inp = .ok lp) :
    lp = kfdLP (expandInput inp) := by
  unfold kfdNodeLP at h
  cases hfi : kfdNodeInternal inp with
  | error e => rw [hfi] at h; exact nomatch h
  | ok fi =>
    rw [hfi] at h
    have hlp : kfdLP fi = lp := Except.ok.inj h
    rw [← hlp]
    obtain ⟨cons, ign, hcons, hign, _, _, rfl⟩ := kfdNodeTranslate_ok (kfdNodeInternal_ok hfi).1
    obtain ⟨hign1, _⟩ := mapM_expandedNode_ok hign
    have hcons' := expandConstraints_ok hcons
    subst hign1 hcons'
    have hmem : ∀ e : Edge, e ∈ (edgesToIgnore inp.ng ++ inp.ignoreNodes.map nodeEdge).eraseDups ↔
        e ∈ (expandInput inp).ignore := by
      intro e
      rw [List.mem_eraseDups, List.mem_append, edgesToIgnore_exact inp.ng hc]
      simp only [expandInput, List.mem_append, List.mem_map, List.mem_filter]
      constructor
      · rintro ((⟨x, hx, rfl⟩ | ⟨v, hv, hf, rfl⟩) | ⟨v, hv, rfl⟩)
        · exact Or.inl (Or.inl ⟨x, hx, rfl⟩)
        · exact Or.inl (Or.inr ⟨v, ⟨hv, by simp [hf]⟩, rfl⟩)
        · exact Or.inr ⟨v, hv, rfl⟩
      · rintro ((⟨x, hx, rfl⟩ | ⟨v, ⟨hv, hf⟩, rfl⟩) | ⟨v, hv, rfl⟩)
        · exact Or.inl (Or.inl ⟨x, hx, rfl⟩)
        · exact Or.inl (Or.inr ⟨v, hv, by simpa using hf, rfl⟩)
        · exact Or.inr ⟨v, hv, rfl⟩
    refine kfdLP_congr _ (expandInput inp) rfl rfl rfl rfl rfl ?_ ?_
    · intro e
      rw [Bool.eq_iff_iff]
      simp only [List.contains_iff_mem]
      exact hmem e
    · intro e hne
      -- a non-ignored edge is not the copy of an original edge: its value is read from the node part
      have hnot : ∀ p ∈ inp.ng.edgeFlow, edgeEdge p.1 ≠ e := by
        intro p hp hpe
        have hin : e ∈ (edgesToIgnore inp.ng ++ inp.ignoreNodes.map nodeEdge).eraseDups := by
          rw [List.mem_eraseDups, List.mem_append, edgesToIgnore_exact inp.ng hc]
          exact Or.inl (Or.inl ⟨p.1, hef p hp, hpe.symm⟩)
        unfold FlowInput.ignored at hne
        have h2 := (Bool.or_eq_false_iff.1 hne).2
        have h3 : List.contains (edgesToIgnore inp.ng ++ inp.ignoreNodes.map nodeEdge).eraseDups e = true :=
          List.contains_iff_mem.2 hin
        exact absurd (h3.symm.trans h2) (by decide)
      unfold FlowInput.f lookupD
      simp only [expandInput, expandFlow]
      rw [List.lookup_append, lookup_map_none edgeEdge _ _ hnot]
      simp

/-- the translation step accepts every input with at least one node, known ignored nodes and non-empty
node constraints over known nodes, and returns the record below -/
theorem node_translate_accepts (inp : NodeFlowInput) (l : List (List Node)) (hcs : inp.constraints = .nodes l)
    (hn : inp.ng.g.nodes ≠ []) (hl : ∀ c ∈ l, c ≠ [] ∧ ∀ v ∈ c, v ∈ inp.ng.g.nodes)
    (hi : ∀ v ∈ inp.ignoreNodes, v ∈ inp.ng.g.nodes) :
    kfdNodeTranslate inp = .ok
      { base := expandGraph inp.ng.g, flow := expandFlow inp.ng,
        ignore := (edgesToIgnore inp.ng ++ inp.ignoreNodes.map nodeEdge).eraseDups, starts := [], ends := [],
        weightInt := inp.weightInt,
        cfg := { k := inp.k, allowEmpty := inp.allowEmpty, constraints := l.map (·.map nodeEdge),
                 coverage := inp.coverage, coverageLength := inp.coverageLength,
                 lengths := expandLengths inp.ng } } := by
  have h1 : inp.ignoreNodes.mapM (expandedNode inp.ng.g) = .ok (inp.ignoreNodes.map nodeEdge) :=
    mapM_except_ok _ _ _ (fun v hv => expandedNode_of_mem (hi v hv))
  have h2 : expandConstraints inp.ng.g (.nodes l) = .ok (l.map (·.map nodeEdge)) := by
    have hm : l.mapM (fun c => c.mapM (expandedNode inp.ng.g)) = .ok (l.map (·.map nodeEdge)) :=
      mapM_except_ok _ _ _ (fun c hc =>
        mapM_except_ok _ _ _ (fun v hv => expandedNode_of_mem ((hl c hc).2 v hv)))
    match l, hl, hm with
    | [], _, _ => rfl
    | c0 :: l', hl, hm =>
      have hne : (c0 :: l').any List.isEmpty = false := by
        cases hb : (c0 :: l').any List.isEmpty with
        | false => rfl
        | true =>
          obtain ⟨x, hx, hxe⟩ := List.any_eq_true.1 hb
          have : x = [] := by simpa using hxe
          exact absurd this (hl x hx).1
      unfold expandConstraints
      simp only [hne]
      exact hm
  have h3 : (l.map (·.map nodeEdge)).any (·.isEmpty) = false := by
    cases hb : (l.map (·.map nodeEdge)).any (·.isEmpty) with
    | false => rfl
    | true =>
      obtain ⟨x, hx, hxe⟩ := List.any_eq_true.1 hb
      obtain ⟨c, hc, rfl⟩ := List.mem_map.1 hx
      have : c = [] := by simpa using hxe
      exact absurd this (hl c hc).1
  have h4 : inp.ng.g.nodes.isEmpty = false := by
    cases hb : inp.ng.g.nodes.isEmpty with
    | false => rfl
    | true => exact absurd (List.isEmpty_iff.1 hb) hn
  unfold kfdNodeTranslate
  rw [hcs, h2, h1]
  simp only [h3, h4]
  rfl

/-- a node that carries the attribute and is not ignored by the caller gives an active edge of the
internal record (so "All edges are ignored" is not raised) -/
theorem nodeEdge_active (ng : NodeGraph) (hc : Closed ng.g) (ignoreNodes : List Node) (fi : FlowInput)
    (hb : fi.base = expandGraph ng.g) (hs : fi.starts = []) (he : fi.ends = [])
    (hig : fi.ignore = (edgesToIgnore ng ++ ignoreNodes.map nodeEdge).eraseDups)
    (v : Node) (hv : v ∈ ng.g.nodes) (hf : ng.hasFlow v = true) (hni : v ∉ ignoreNodes) :
    nodeEdge v ∈ fi.activeEdges := by
  have hwf := expansion_wf ng.g hc
  unfold FlowInput.activeEdges
  apply List.mem_filter.2
  constructor
  · unfold FlowInput.st
    rw [hb, hs, he]
    exact (aug_mem_edges hwf.closed).2 (Or.inl (nodeEdge_mem_expand hv))
  · have h1 : fi.st.sourceSinkEdges.contains (nodeEdge v) = false := by
      cases hcn : fi.st.sourceSinkEdges.contains (nodeEdge v) with
      | false => rfl
      | true =>
        exfalso
        have hm : nodeEdge v ∈ fi.st.sourceSinkEdges := List.contains_iff_mem.1 hcn
        unfold STGraph.sourceSinkEdges STGraph.sourceEdges STGraph.sinkEdges Graph.outEdges Graph.inEdges at hm
        rcases List.mem_append.1 hm with hm | hm
        · have := (List.mem_filter.1 hm).2
          have h' : n0 v = srcName := by simpa [nodeEdge, FlowInput.st, augment] using this
          exact (src_not_expanded v).1 h'.symm
        · have := (List.mem_filter.1 hm).2
          have h' : n1 v = snkName := by simpa [nodeEdge, FlowInput.st, augment] using this
          exact (snk_not_expanded v).2 h'.symm
    have h2 : fi.ignore.contains (nodeEdge v) = false := by
      cases hcn : fi.ignore.contains (nodeEdge v) with
      | false => rfl
      | true =>
        exfalso
        have hm : nodeEdge v ∈ fi.ignore := List.contains_iff_mem.1 hcn
        rw [hig, List.mem_eraseDups, List.mem_append, edgesToIgnore_exact ng hc] at hm
        rcases hm with (⟨e, _, hx⟩ | ⟨w, _, hw, hx⟩) | hm
        · exact nodeEdge_ne_edgeEdge _ _ hx
        · rw [nodeEdge_inj hx] at hf; rw [hf] at hw; exact nomatch hw
        · obtain ⟨w, hw, hx⟩ := List.mem_map.1 hm
          exact hni (nodeEdge_inj hx ▸ hw)
    unfold FlowInput.ignored
    rw [h1, h2]; rfl

/-- sufficient conditions under which node mode accepts its input (node-form constraints): at least one
node carries the attribute and is not ignored, `k > 0`, ignored nodes and constraint nodes are known,
constraints are non-empty -/
theorem node_mode_accepts (inp : NodeFlowInput) (l : List (List Node)) (hcs : inp.constraints = .nodes l)
    (hc : Closed inp.ng.g) (hk : inp.k ≠ 0)
    (hact : ∃ v ∈ inp.ng.g.nodes, inp.ng.hasFlow v = true ∧ v ∉ inp.ignoreNodes)
    (hl : ∀ c ∈ l, c ≠ [] ∧ ∀ v ∈ c, v ∈ inp.ng.g.nodes)
    (hi : ∀ v ∈ inp.ignoreNodes, v ∈ inp.ng.g.nodes) : ∃ lp, kfdNodeLP inp = .ok lp := by
  obtain ⟨v, hv, hf, hni⟩ := hact
  have hn : inp.ng.g.nodes ≠ [] := List.ne_nil_of_mem hv
  have ht := node_translate_accepts inp l hcs hn hl hi
  have ha := nodeEdge_active inp.ng hc inp.ignoreNodes (v := v) (hb := rfl) (hs := rfl) (he := rfl) (hig := rfl)
    (hv := hv) (hf := hf) (hni := hni)
    (fi := { base := expandGraph inp.ng.g, flow := expandFlow inp.ng,
             ignore := (edgesToIgnore inp.ng ++ inp.ignoreNodes.map nodeEdge).eraseDups, starts := [], ends := [],
             weightInt := inp.weightInt,
             cfg := { k := inp.k, allowEmpty := inp.allowEmpty, constraints := l.map (·.map nodeEdge),
                      coverage := inp.coverage, coverageLength := inp.coverageLength,
                      lengths := expandLengths inp.ng } })
  have hck := kfdEdgeChecks_accepts _ (List.ne_nil_of_mem ha) hk
  unfold kfdNodeLP
  rw [kfdNodeInternal_of_translate ht, hck]
  exact ⟨_, rfl⟩

/-! ## elements read back; decoded paths of the DAG k-models condense to routes of the caller's graph -/

theorem condenseElement_expand (g : Graph) :
    (∀ v x, expandedNode g v = .ok x → condenseElement x = some (.node v) ∧ v ∈ g.nodes) ∧
    (∀ e x, expandedEdge g e = .ok x → condenseElement x = some (.edge e) ∧ e ∈ g.edges) := by
  constructor
  · intro v x h
    obtain ⟨h1, rfl⟩ := expandedNode_ok h
    exact ⟨condenseElement_nodeEdge v, h1⟩
  · intro e x h
    unfold expandedEdge at h
    by_cases he : g.edges.contains e = true
    · rw [if_pos he] at h
      have : edgeEdge e = x := Except.ok.inj h
      subst this
      exact ⟨condenseElement_edgeEdge e, by simpa using he⟩
    · rw [if_neg he] at h; exact nomatch h

open FP.Spec in
theorem node_mode_paths_condense (g : Graph) (hc : Closed g) (hac : Acyclic g) (starts ends : List Node)
    (c : PathCfg) (a : Asg)
    (hsat : Sat a (encodePaths (augment (expandGraph g) (starts.map n0) (ends.map n1)) c)) (i : Nat) (hi : i < c.k) :
    ∃ l, decodeLayer (augment (expandGraph g) (starts.map n0) (ends.map n1)) (fun e j => a (edgeVar e j)) i = some l ∧
      (l ≠ [] → ∃ p, condensePath g.nodes [] l = .ok p ∧ ValidRoute g starts ends p ∧ l = expandPath p) := by
  obtain ⟨l, hl, _, hne⟩ := FP.dag_routes_valid (expandGraph g) (starts.map n0) (ends.map n1) c a
    (expansion_wf g hc) (expansion_acyclic g hac) hsat i hi
  refine ⟨l, hl, fun h => ?_⟩
  obtain ⟨p, h1, h2, h3⟩ := expanded_route_condenses g hc starts ends l (hne h).1
  exact ⟨p, h3, h2, h1⟩

end NX
end FP
