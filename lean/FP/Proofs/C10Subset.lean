import FP.Model.WalkCore
import FP.Proofs.C10Constraints
/-!
# FP.Proofs.C10Subset — subset constraints of the walk models

* `used_indicator_exact` / `used_indicator_complete`: the two `min1` rows make `used_edge(e,i)` the
  indicator of `edge(e,i) ≥ 1` (and, for integral `edge(e,i)` in `[0, ub e]`, such a value exists).
* `subset_constraint_honoured`: in every satisfying assignment of `walkCore` each subset constraint
  has a responsible layer which traverses (multiplicity `≥ 1`) at least
  `|set of the constraint's edges| · coverage` of the *distinct* edges of the constraint.
-/
namespace FP
open FP.Spec

/-- the two rows `min1_le_x` and `x_le_Ue_min1` of `_encode_subset_constraints` -/
def min1Rows (e : Edge) (i : Nat) (ub : Rat) : List Row :=
  [ rowLe [(1, usedVar e i), (-1, edgeVar e i)] 0,
    rowLe [(1, edgeVar e i), (-ub, usedVar e i)] 0 ]

theorem used_indicator_exact (a : Asg) (e : Edge) (i : Nat) (ub : Rat)
    (hu : a (usedVar e i) = 0 ∨ a (usedVar e i) = 1) (hx0 : 0 ≤ a (edgeVar e i))
    (hrows : ∀ r ∈ min1Rows e i ub, r.holds a) :
    (a (usedVar e i) = 1 ↔ 1 ≤ a (edgeVar e i)) ∧ (a (usedVar e i) = 0 ↔ a (edgeVar e i) = 0) := by
  have h1 := (hrows (rowLe [(1, usedVar e i), (-1, edgeVar e i)] 0) (by simp [min1Rows])).2 0 rfl
  have h2 := (hrows (rowLe [(1, edgeVar e i), (-ub, usedVar e i)] 0) (by simp [min1Rows])).2 0 rfl
  simp only [rowLe, evalTerms, List.map_cons, List.map_nil, List.sum_cons, List.sum_nil] at h1 h2
  rcases hu with hu | hu <;> rw [hu] at h1 h2 ⊢ <;> constructor <;> constructor <;> intro h <;> grind

theorem used_indicator_complete (a : Asg) (e : Edge) (i : Nat) (ub : Rat)
    (hz : ∃ z : Int, a (edgeVar e i) = z) (hx0 : 0 ≤ a (edgeVar e i)) (hub : a (edgeVar e i) ≤ ub)
    (hu : a (usedVar e i) = if 1 ≤ a (edgeVar e i) then 1 else 0) :
    ∀ r ∈ min1Rows e i ub, r.holds a := by
  obtain ⟨z, hz⟩ := hz
  have hz0 : (0 : Int) ≤ z := by rw [hz] at hx0; exact Rat.intCast_nonneg.1 hx0
  intro r hr
  simp only [min1Rows, List.mem_cons, List.not_mem_nil, or_false] at hr
  by_cases h1 : 1 ≤ a (edgeVar e i)
  · rw [if_pos h1] at hu
    rcases hr with rfl | rfl <;>
      refine ⟨fun l hl => by simp [rowLe] at hl, fun h hh => ?_⟩ <;>
      (have : h = 0 := by simp [rowLe] at hh; exact hh.symm) <;> subst this <;>
      simp only [rowLe, evalTerms, List.map_cons, List.map_nil, List.sum_cons, List.sum_nil, hu] <;>
      grind
  · rw [if_neg h1] at hu
    have hzz : z = 0 := by
      have : ¬ (1 : Int) ≤ z := by
        intro h; apply h1; rw [hz]
        exact_mod_cast (Rat.intCast_le_intCast.2 h)
      omega
    have hx : a (edgeVar e i) = 0 := by rw [hz, hzz]; simp
    rcases hr with rfl | rfl <;>
      refine ⟨fun l hl => by simp [rowLe] at hl, fun h hh => ?_⟩ <;>
      (have : h = 0 := by simp [rowLe] at hh; exact hh.symm) <;> subst this <;>
      simp only [rowLe, evalTerms, List.map_cons, List.map_nil, List.sum_cons, List.sum_nil, hu, hx] <;>
      grind

theorem sat_subsetBlock (s : STGraph) (c : WalkCfg) (ub : Edge → Rat) (a : Asg)
    (hsat : Sat a (walkCore s c ub)) : Sat a (subsetBlock s c ub) := sat_append_right a _ _ hsat

theorem walk_edge_nonneg (s : STGraph) (c : WalkCfg) (ub : Edge → Rat) (a : Asg)
    (hsat : Sat a (walkCore s c ub)) (e : Edge) (he : e ∈ s.g.edges) (i : Nat) (hi : i < c.k) :
    0 ≤ a (edgeVar e i) ∧ a (edgeVar e i) ≤ ub e ∧ ∃ z : Int, a (edgeVar e i) = z := by
  have h := (sat_append_left a _ _ hsat).1
    { v := edgeVar e i, lb := 0, ub := some (ub e), isInt := true }
    (by
      unfold encodeWalks
      simp only
      exact List.mem_append_left _ (List.mem_append_left _
        (List.mem_flatMap.2 ⟨i, List.mem_range.2 hi, List.mem_map.2 ⟨e, he, rfl⟩⟩)))
  exact ⟨h.1, h.2.1 _ rfl, h.2.2 rfl⟩

theorem subset_constraint_honoured (s : STGraph) (c : WalkCfg) (ub : Edge → Rat) (a : Asg)
    (hsat : Sat a (walkCore s c ub)) (j : Nat) (hj : j < c.constraints.length)
    (hedges : ∀ e ∈ c.constraints[j], e ∈ s.g.edges) :
    ∃ i, i < c.k ∧ a (rVar i j) = 1 ∧
      (c.constraints[j].eraseDups.length : Rat) * c.coverage ≤
        ((c.constraints[j].eraseDups.countP (fun e => decide (1 ≤ a (edgeVar e i))) : Nat) : Rat) := by
  have hne := c10_isEmpty_false_of_lt _ j hj
  have hsub := sat_subsetBlock s c ub a hsat
  unfold subsetBlock at hsub
  rw [hne] at hsub
  simp only [Bool.false_eq_true, if_false] at hsub
  obtain ⟨hcols, hrows⟩ := hsub
  -- r and used are 0/1
  have hrbin : ∀ i, i < c.k → a (rVar i j) = 0 ∨ a (rVar i j) = 1 := by
    intro i hi
    have := hcols { v := rVar i j, lb := 0, ub := some 1, isInt := true }
      (List.mem_append_left _ (List.mem_flatMap.2 ⟨i, List.mem_range.2 hi,
        List.mem_map.2 ⟨j, List.mem_range.2 hj, rfl⟩⟩))
    exact int01 _ this.1 (this.2.1 1 rfl) (this.2.2 rfl)
  have hubin : ∀ i, i < c.k → ∀ e ∈ s.g.edges, a (usedVar e i) = 0 ∨ a (usedVar e i) = 1 := by
    intro i hi e he
    have := hcols { v := usedVar e i, lb := 0, ub := some 1, isInt := true }
      (List.mem_append_right _ (List.mem_flatMap.2 ⟨i, List.mem_range.2 hi,
        List.mem_map.2 ⟨e, he, rfl⟩⟩))
    exact int01 _ this.1 (this.2.1 1 rfl) (this.2.2 rfl)
  -- 7b
  have h7b := hrows (rowGe (ones (List.range c.k) (fun i => rVar i j)) 1)
    (List.mem_append_right _ (List.mem_map.2 ⟨j, List.mem_range.2 hj, rfl⟩))
  have h1 := h7b.1 1 rfl
  simp only [rowGe, evalTerms_ones] at h1
  have hnz : ((List.range c.k).map fun i => a (rVar i j)).sum ≠ 0 := by
    intro h0; rw [h0] at h1; exact absurd h1 (by decide)
  obtain ⟨i, hi, hr⟩ := exists_ne_zero_of_sum_ne_zero _ _ hnz
  have hi' := List.mem_range.1 hi
  have hr1 := (hrbin i hi').resolve_left hr
  refine ⟨i, hi', hr1, ?_⟩
  -- 7a
  have h7a := hrows _ (List.mem_append_left _ (List.mem_append_right _
    (List.mem_flatMap.2 ⟨i, hi, List.mem_map.2 ⟨(j, c.constraints[j]), c10_mem_zip_range _ j hj, rfl⟩⟩)))
  have h0 := h7a.1 0 rfl
  simp only [rowGe, evalTerms_append, evalTerms_ones, evalTerms_single, hr1] at h0
  have hsum : (c.constraints[j].eraseDups.map fun e => a (usedVar e i)).sum
      = ((c.constraints[j].eraseDups.countP (fun e => decide (1 ≤ a (edgeVar e i))) : Nat) : Rat) := by
    rw [← c10_sum_indicator_countP]
    apply sum_map_congr
    intro e he
    have hee : e ∈ s.g.edges := hedges e (List.mem_eraseDups.1 he)
    have hmin : ∀ r ∈ min1Rows e i (ub e), r.holds a := by
      intro r hr
      apply hrows r
      apply List.mem_append_left; apply List.mem_append_left
      exact List.mem_flatMap.2 ⟨i, hi, List.mem_flatMap.2 ⟨e, hee, hr⟩⟩
    have hex := used_indicator_exact a e i (ub e) (hubin i hi' e hee)
      (walk_edge_nonneg s c ub a hsat e hee i hi').1 hmin
    by_cases hx : 1 ≤ a (edgeVar e i)
    · simp [hx, hex.1.2 hx]
    · have : a (usedVar e i) ≠ 1 := fun h => hx (hex.1.1 h)
      have := (hubin i hi' e hee).resolve_right this
      simp [hx, this]
  rw [hsum] at h0
  grind

end FP
