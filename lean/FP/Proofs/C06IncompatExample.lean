import FP.Proofs.Reach
import FP.Proofs.C06Incompat
/-!
# FP.Proofs.C06IncompatExample — executable checks of the hypotheses of T6 and a concrete instance

* `c06i_sccLabelling_of_check`, `c06i_condAntichain_of_check` — the two contracts decided by the model's own
  reachability (`reachFrom`);
* the digraph `exP`: cycle `a ⇄ b`, two parallel edges `a→c`, `b→c` between the components `{a,b}` and `{c}`, a
  second branch through `d`; SCC numbering, maximal safe sequences, antichain and result are those of the real run
  (`stDiGraph(G, additional_starts=["a"])`, `maximal_safe_sequences_via_dominators(G, G.edges)`,
  `get_longest_incompatible_sequences`).
-/
namespace FP.Safety
open FP FP.Spec

/-- executable form of `SccLabelling` -/
def sccCheck (c : Cond) : Bool :=
  c.g.nodes.all fun u => c.g.nodes.all fun v =>
    decide (c.scc u = c.scc v) == ((reachFrom c.g u).contains v && (reachFrom c.g v).contains u)

theorem c06i_sccLabelling_of_check (c : Cond) (hg : GraphWF c.g) (h : sccCheck c = true) : SccLabelling c := by
  intro u hu v hv
  unfold sccCheck at h
  have h1 := List.all_eq_true.1 (List.all_eq_true.1 h u hu) v hv
  have h2 : decide (c.scc u = c.scc v) = ((reachFrom c.g u).contains v && (reachFrom c.g v).contains u) := by
    simpa using h1
  constructor
  · intro heq
    have : ((reachFrom c.g u).contains v && (reachFrom c.g v).contains u) = true := by
      rw [← h2]; simpa using heq
    simp only [Bool.and_eq_true, List.contains_eq_mem, decide_eq_true_eq] at this
    exact ⟨FP.reachFrom_sound c.g u v this.1, FP.reachFrom_sound c.g v u this.2⟩
  · rintro ⟨r1, r2⟩
    have m1 := reachFrom_complete c.g hg u v hu r1
    have m2 := reachFrom_complete c.g hg v u hv r2
    have : ((reachFrom c.g u).contains v && (reachFrom c.g v).contains u) = true := by
      simp only [Bool.and_eq_true, List.contains_eq_mem, decide_eq_true_eq]; exact ⟨m1, m2⟩
    rw [← h2] at this
    simpa using this

/-- the expanded condensation as a graph: its nodes are the end points of its edges -/
def condExpGraph (c : Cond) : Graph :=
  { nodes := (condExpEdges c).flatMap fun e => [e.1, e.2], edges := condExpEdges c }

/-- executable form of `CondAntichain` -/
def condAntiCheck (c : Cond) (anti : List (String × String)) : Bool :=
  anti.all fun a => anti.all fun b =>
    a == b || ((condExpGraph c).nodes.contains a.2 && !(reachFrom (condExpGraph c) a.2).contains b.1)

theorem c06i_condAntichain_of_check (c : Cond) (anti : List (String × String))
    (h : condAntiCheck c anti = true) : CondAntichain c anti := by
  intro a ha b hb hab hr
  unfold condAntiCheck at h
  have h1 := List.all_eq_true.1 (List.all_eq_true.1 h a ha) b hb
  simp only [Bool.or_eq_true, beq_iff_eq, Bool.and_eq_true, List.contains_eq_mem, decide_eq_true_eq,
    Bool.not_eq_eq_eq_not, Bool.not_true, decide_eq_false_iff_not] at h1
  rcases h1 with h1 | ⟨hn, hnr⟩
  · exact hab h1
  · have hwf : GraphWF (condExpGraph c) := by
      intro e he
      constructor
      · exact List.mem_flatMap.2 ⟨e, he, by simp⟩
      · exact List.mem_flatMap.2 ⟨e, he, by simp⟩
    exact hnr (reachFrom_complete (condExpGraph c) hwf a.2 b.1 hn hr)

/-! ## `sequence_function`, evaluated by hand where the kernel does not unfold `mergeSort` -/

/-- the occurrence list of `sequence_function[ce]` before sorting -/
def c06i_occOf (c : Cond) (seqs : List (List Edge)) (ce : String × String) : List Nat :=
  ((List.range seqs.length).zip seqs).flatMap fun (i, s) => (s.filter fun e => c.expandedEdge e = ce).map fun _ => i

theorem c06i_seqFn_eq (c : Cond) (seqs : List (List Edge)) (ce : String × String) :
    c.seqFn seqs ce = (if Cond.isSccEdge ce then
      ((c06i_occOf c seqs ce).mergeSort fun a b =>
        decide ((seqs.getD a []).length ≥ (seqs.getD b []).length)).take 1
      else ((c06i_occOf c seqs ce).mergeSort fun a b =>
        decide ((seqs.getD a []).length ≥ (seqs.getD b []).length)).take
        (c.g.edges.countP fun e => c.expandedEdge e = ce)) := rfl

theorem c06i_sort2 (le : Nat → Nat → Bool) (a b : Nat) :
    [a, b].mergeSort le = if le a b then [a, b] else [b, a] := by
  simp [List.mergeSort, List.merge]

/-! ## the instance -/

def exP : Graph :=
  { nodes := ["a", "b", "c", "d", "source", "sink"],
    edges := [("a", "b"), ("a", "c"), ("b", "a"), ("b", "c"), ("c", "sink"), ("d", "sink"), ("source", "a"),
      ("source", "d")] }

/-- `nx.condensation(G).graph["mapping"]` of the real run -/
def exPc : Cond := ⟨exP, [("sink", 0), ("c", 1), ("b", 2), ("a", 2), ("d", 3), ("source", 4)]⟩

/-- `maximal_safe_sequences_via_dominators(G, G.edges)` -/
def exPseqs : List (List Edge) :=
  [[("source", "a"), ("a", "c"), ("c", "sink")],
   [("source", "a"), ("a", "b"), ("b", "a"), ("c", "sink")],
   [("source", "a"), ("a", "b"), ("b", "c"), ("c", "sink")],
   [("source", "d"), ("d", "sink")]]

/-- the antichain returned by `compute_max_edge_antichain` in the real run: the edge of the branch through `d`
and the inter-SCC member `{a,b} → {c}` of multiplicity two -/
def exPanti : List (String × String) := [("4", "3"), ("2_expanded", "1")]

/-- the result of the real run: the sequence through `d` and **both** sequences of the parallel edges -/
def exPchosen : List (List Edge) :=
  [[("source", "d"), ("d", "sink")],
   [("source", "a"), ("a", "b"), ("b", "c"), ("c", "sink")],
   [("source", "a"), ("a", "c"), ("c", "sink")]]

theorem exP_wf : GraphWF exP := by unfold GraphWF; decide
theorem exP_nodup : exP.edges.Nodup := by decide
theorem exP_scc : SccLabelling exPc := c06i_sccLabelling_of_check exPc exP_wf (by decide +kernel)
theorem exP_anti : CondAntichain exPc exPanti := c06i_condAntichain_of_check exPc exPanti (by decide +kernel)

set_option maxRecDepth 100000 in
theorem exP_maxSafeSeqs : maxSafeSeqs exP "source" "sink" exP.edges = .ok exPseqs := by decide +kernel

theorem exP_seqFn_par : exPc.seqFn exPseqs ("2_expanded", "1") = [2, 0] := by
  rw [c06i_seqFn_eq]
  have h1 : c06i_occOf exPc exPseqs ("2_expanded", "1") = [0, 2] := by decide +kernel
  have h2 : Cond.isSccEdge ("2_expanded", "1") = false := by decide +kernel
  have h3 : (exPc.g.edges.countP fun e => exPc.expandedEdge e = ("2_expanded", "1")) = 2 := by decide +kernel
  rw [h1, h2, h3, c06i_sort2]
  decide +kernel

theorem exP_seqFn_d : exPc.seqFn exPseqs ("4", "3") = [3] := by
  rw [c06i_seqFn_eq]
  have h1 : c06i_occOf exPc exPseqs ("4", "3") = [3] := by decide +kernel
  have h2 : Cond.isSccEdge ("4", "3") = false := by decide +kernel
  have h3 : (exPc.g.edges.countP fun e => exPc.expandedEdge e = ("4", "3")) = 1 := by decide +kernel
  rw [h1, h2, h3, List.mergeSort_singleton]
  decide +kernel

theorem exP_longest : longestIncompatible exPc exPseqs exPanti = .ok exPchosen := by
  unfold longestIncompatible
  have h0 : (exPseqs.any fun s => s.any fun e => !exPc.g.edges.contains e) = false := by decide +kernel
  have hidx : exPanti.flatMap (exPc.seqFn exPseqs) = [3, 2, 0] := by
    simp only [exPanti, List.flatMap_cons, List.flatMap_nil, exP_seqFn_par, exP_seqFn_d]
    rfl
  simp only [h0, hidx]
  decide +kernel

/-! ## a real run on which `NoSharedParallel` fails

`u → v`, `u → sink`, loops at `v` and `x`, `v → x`, `x → sink` (`stDiGraph(G, additional_ends=["x", "u"])`): the
second and the third maximal safe sequence share `(u, v)`, the only graph edge of the member `("3", "2")`, which the
antichain of the real run contains. -/

def exQ : Graph :=
  { nodes := ["u", "v", "x", "source", "sink"],
    edges := [("u", "v"), ("u", "sink"), ("v", "v"), ("v", "x"), ("x", "x"), ("x", "sink"), ("source", "u")] }
def exQc : Cond := ⟨exQ, [("sink", 0), ("x", 1), ("v", 2), ("u", 3), ("source", 4)]⟩
def exQseqs : List (List Edge) :=
  [[("source", "u"), ("u", "sink")],
   [("source", "u"), ("u", "v"), ("v", "v"), ("v", "x"), ("x", "sink")],
   [("source", "u"), ("u", "v"), ("v", "x"), ("x", "x"), ("x", "sink")]]
def exQanti : List (String × String) := [("3", "2"), ("3", "0")]

theorem exQ_wf : GraphWF exQ := by unfold GraphWF; decide
theorem exQ_scc : SccLabelling exQc := c06i_sccLabelling_of_check exQc exQ_wf (by decide +kernel)
theorem exQ_anti : CondAntichain exQc exQanti := c06i_condAntichain_of_check exQc exQanti (by decide +kernel)
set_option maxRecDepth 100000 in
theorem exQ_maxSafeSeqs : maxSafeSeqs exQ "source" "sink" exQ.edges = .ok exQseqs := by decide +kernel
theorem exQ_shared : ¬ NoSharedParallel exQc exQseqs exQanti := by
  intro h
  have := h 1 2 (by decide) ("u", "v") (by decide) (by decide) (by decide +kernel)
  revert this; decide +kernel

end FP.Safety
