import FP.Model.Basic
import FP.Spec.Optimum
/-!
# FP.Proofs.C05Base — optimum preservation (abstract), and bounds versus rows on one column
-/
namespace FP
open FP.Spec

theorem opt_preserved_proof {α} (Base Extra : α → Prop) (obj : α → Rat)
    (h : ∀ s, Base s → ∃ s', Base s' ∧ Extra s' ∧ obj s' = obj s) :
    ((∃ s, Base s) ↔ (∃ s, Base s ∧ Extra s)) ∧
    (∀ v, IsMin Base obj v ↔ IsMin (fun s => Base s ∧ Extra s) obj v) := by
  refine ⟨⟨fun ⟨s, hs⟩ => ?_, fun ⟨s, hs, _⟩ => ⟨s, hs⟩⟩, fun v => ⟨fun ⟨⟨s, hs, hv⟩, hmin⟩ => ?_, fun ⟨⟨s, ⟨hs, _⟩, hv⟩, hmin⟩ => ?_⟩⟩
  · obtain ⟨s', h1, h2, _⟩ := h s hs; exact ⟨s', h1, h2⟩
  · obtain ⟨s', h1, h2, h3⟩ := h s hs
    exact ⟨⟨s', ⟨h1, h2⟩, by rw [h3, hv]⟩, fun t ht => hmin t ht.1⟩
  · refine ⟨⟨s, hs, hv⟩, fun t ht => ?_⟩
    obtain ⟨t', h1, h2, h3⟩ := h t ht
    have := hmin t' ⟨h1, h2⟩
    rw [h3] at this; exact this

/-- two feasible sets each of whose points has a counterpart of equal objective in the other have the same
feasibility status and the same minimum -/
theorem c05_opt_transfer {α β} (P : α → Prop) (Q : β → Prop) (objP : α → Rat) (objQ : β → Rat)
    (h1 : ∀ s, P s → ∃ t, Q t ∧ objQ t = objP s) (h2 : ∀ t, Q t → ∃ s, P s ∧ objP s = objQ t) :
    ((∃ s, P s) ↔ (∃ t, Q t)) ∧ (∀ v, IsMin P objP v ↔ IsMin Q objQ v) := by
  refine ⟨⟨fun ⟨s, hs⟩ => ?_, fun ⟨t, ht⟩ => ?_⟩, fun v => ⟨fun ⟨⟨s, hs, hv⟩, hmin⟩ => ?_, fun ⟨⟨t, ht, hv⟩, hmin⟩ => ?_⟩⟩
  · obtain ⟨t, ht, _⟩ := h1 s hs; exact ⟨t, ht⟩
  · obtain ⟨s, hs, _⟩ := h2 t ht; exact ⟨s, hs⟩
  · obtain ⟨t, ht, he⟩ := h1 s hs
    refine ⟨⟨t, ht, by rw [he, hv]⟩, fun t' ht' => ?_⟩
    obtain ⟨s', hs', he'⟩ := h2 t' ht'
    rw [← he']; exact hmin s' hs'
  · obtain ⟨s, hs, he⟩ := h2 t ht
    refine ⟨⟨s, hs, by rw [he, hv]⟩, fun s' hs' => ?_⟩
    obtain ⟨t', ht', he'⟩ := h1 s' hs'
    rw [← he']; exact hmin t' ht'

theorem lowerBound_row_equiv_proof (a : Asg) (c : Col) (m : Rat) (hm : c.lb ≤ m) :
    ({ c with lb := m } : Col).holds a ↔ (c.holds a ∧ (rowGe [(1, c.v)] m).holds a) := by
  simp [Col.holds, Row.holds, rowGe, evalTerms]
  grind

theorem fix_row_equiv_proof (a : Asg) (c : Col) (v : Rat) (hl : c.lb ≤ v) (hu : ∀ u, c.ub = some u → v ≤ u) :
    ({ c with lb := v, ub := some v } : Col).holds a ↔ (c.holds a ∧ (rowEq [(1, c.v)] v).holds a) := by
  simp [Col.holds, Row.holds, rowEq, evalTerms]
  grind

end FP
