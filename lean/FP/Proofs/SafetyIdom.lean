import FP.Proofs.SafetyBridges
/-!
# FP.Proofs.SafetyIdom — the path found by `find_path` is simple; the bridge returned by `find_idom`
lies on every walk
-/
namespace FP.Safety
open FP.Spec
variable {V : Type} [DecidableEq V]

/-- both halves of the mutual DFS at once -/
theorem dfs_spec (g : Adj V) (t : V) : ∀ n,
    (∀ node vis r vis', dfsNode g t n node vis = some (r, vis') →
      (∀ x ∈ vis, x ∈ vis') ∧ ∀ p, r = some p →
        (node :: p).Nodup ∧ (∀ x ∈ p, x ∉ vis) ∧ ∀ e ∈ walkEdges (node :: p), e.2 ∈ out g e.1) ∧
    (∀ xs vis r vis', dfsList g t n xs vis = some (r, vis') →
      (∀ x ∈ vis, x ∈ vis') ∧ ∀ p, r = some p →
        p.Nodup ∧ (∀ x ∈ p, x ∉ vis) ∧ (∀ e ∈ walkEdges p, e.2 ∈ out g e.1) ∧
        ∀ h, p.head? = some h → h ∈ xs) := by
  intro n
  induction n with
  | zero => exact ⟨fun _ _ _ _ h => by simp [dfsNode] at h, fun _ _ _ _ h => by simp [dfsList] at h⟩
  | succ n ih =>
    obtain ⟨ihN, ihL⟩ := ih
    refine ⟨?_, ?_⟩
    · intro node vis r vis' h
      unfold dfsNode at h
      by_cases hn : node = t
      · rw [if_pos hn] at h
        injection h with h; injection h with h1 h2; subst h1; subst h2
        refine ⟨fun x hx => hx, ?_⟩
        intro p hp; injection hp with hp; subst hp
        simp [we_single]
      · rw [if_neg hn] at h
        obtain ⟨hm, hp⟩ := ihL _ _ _ _ h
        refine ⟨fun x hx => hm x (by simp [hx]), ?_⟩
        intro p hr
        obtain ⟨hnd, hvis, hwe, hhd⟩ := hp p hr
        refine ⟨?_, fun x hx hxv => hvis x hx (by simp [hxv]), ?_⟩
        · rw [List.nodup_cons]; exact ⟨fun hx => hvis node hx (by simp), hnd⟩
        · intro e he
          cases p with
          | nil => simp [we_single] at he
          | cons y p =>
            rw [we_cons_cons] at he
            rcases List.mem_cons.1 he with rfl | he
            · exact hhd y rfl
            · exact hwe e he
    · intro xs vis r vis' h
      unfold dfsList at h
      cases xs with
      | nil =>
        simp only at h
        injection h with h; injection h with h1 h2; subst h1; subst h2
        exact ⟨fun x hx => hx, fun p hp => by cases hp⟩
      | cons x xs =>
        simp only at h
        by_cases hx : x ∈ vis
        · rw [if_pos hx] at h
          obtain ⟨hm, hp⟩ := ihL _ _ _ _ h
          refine ⟨hm, fun p hr => ?_⟩
          obtain ⟨a, b, c, d⟩ := hp p hr
          exact ⟨a, b, c, fun h hh => List.mem_cons_of_mem _ (d h hh)⟩
        · rw [if_neg hx] at h
          split at h
          · cases h
          · rename_i p' vis1 hN
            injection h with h; injection h with h1 h2; subst h1; subst h2
            obtain ⟨hm, hp⟩ := ihN _ _ _ _ hN
            refine ⟨hm, fun p hr => ?_⟩
            injection hr with hr; subst hr
            obtain ⟨a, b, c⟩ := hp p' rfl
            refine ⟨a, ?_, ?_, ?_⟩
            · intro y hy; rcases List.mem_cons.1 hy with rfl | hy
              · exact hx
              · exact b y hy
            · exact c
            · intro h hh; simp at hh; subst hh; simp
          · rename_i vis1 hN
            obtain ⟨hm1, _⟩ := ihN _ _ _ _ hN
            obtain ⟨hm, hp⟩ := ihL _ _ _ _ h
            refine ⟨fun y hy => hm y (hm1 y hy), fun p hr => ?_⟩
            obtain ⟨a, b, c, d⟩ := hp p hr
            exact ⟨a, fun y hy hyv => b y hy (hm1 y hyv), c, fun h hh => List.mem_cons_of_mem _ (d h hh)⟩

theorem findPath_spec (g : Adj V) (s t : V) (p : List V) (h : findPath g s t = some p) :
    p.Nodup ∧ p.head? = some s ∧ ∀ e ∈ walkEdges p, e.2 ∈ out g e.1 := by
  unfold findPath at h
  split at h
  · cases h
  · rename_i p' vis' hd
    injection h with h; subst h
    obtain ⟨_, hp⟩ := (dfs_spec g t _).1 _ _ _ _ hd
    obtain ⟨a, _, c⟩ := hp p' rfl
    exact ⟨a, rfl, c⟩
  · injection h with h; subst h
    simp [we_single]

omit [DecidableEq V] in
/-- no edge of a simple path is the reverse of an edge of the path -/
theorem noRev_of_nodup (p : List V) (h : p.Nodup) : ∀ e ∈ walkEdges p, (e.2, e.1) ∉ walkEdges p := by
  induction p with
  | nil => intro e he; simp [we_nil] at he
  | cons x p ih =>
    cases p with
    | nil => intro e he; simp [we_single] at he
    | cons y p =>
      rw [List.nodup_cons] at h
      obtain ⟨hx, hnd⟩ := h
      intro e he
      rw [we_cons_cons] at he ⊢
      rcases List.mem_cons.1 he with rfl | he
      · intro hc
        rcases List.mem_cons.1 hc with hc | hc
        · injection hc with h1 h2; simp only at h1; exact hx (by rw [← h1]; simp)
        · exact hx (we_snd_mem hc)
      · intro hc
        rcases List.mem_cons.1 hc with hc | hc
        · injection hc with h1 h2
          apply hx; rw [← h1]; exact we_snd_mem he
        · exact ih hnd e he hc

theorem reversePath_fold (es : List (V × V)) : ∀ g : Adj V, (∀ e ∈ es, e.2 ∈ keys g) →
    (∀ a b, b ∈ out g a →
      b ∈ out (es.foldl (fun g e => appendOut (removeOut g e.1 e.2) e.2 e.1) g) a ∨ (a, b) ∈ es) := by
  induction es with
  | nil => intro g _ a b h; exact Or.inl h
  | cons e es ih =>
    intro g hk a b hb
    rw [List.foldl_cons]
    have hk' : ∀ e' ∈ es, e'.2 ∈ keys (appendOut (removeOut g e.1 e.2) e.2 e.1) := by
      intro e' he'; rw [keys_appendOut, keys_removeOut]; exact hk e' (List.mem_cons_of_mem _ he')
    rcases out_removeOut_sub g e.1 e.2 a b hb with h | ⟨h1, h2⟩
    · rcases ih _ hk' a b (out_appendOut_sub _ e.2 e.1 a b h) with h' | h'
      · exact Or.inl h'
      · exact Or.inr (List.mem_cons_of_mem _ h')
    · right; rw [h1, h2]; simp

theorem reversePath_rev (es : List (V × V)) : ∀ g : Adj V, (∀ e ∈ es, e.2 ∈ keys g) →
    (∀ e ∈ es, (e.2, e.1) ∉ es) →
    ∀ e ∈ es, e.1 ∈ out (es.foldl (fun g e => appendOut (removeOut g e.1 e.2) e.2 e.1) g) e.2 := by
  induction es with
  | nil => intro g _ _ e he; simp at he
  | cons e0 es ih =>
    intro g hk hnr e he
    rw [List.foldl_cons]
    have hk' : ∀ e' ∈ es, e'.2 ∈ keys (appendOut (removeOut g e0.1 e0.2) e0.2 e0.1) := by
      intro e' he'; rw [keys_appendOut, keys_removeOut]; exact hk e' (List.mem_cons_of_mem _ he')
    rcases List.mem_cons.1 he with rfl | he
    · have hnew : e.1 ∈ out (appendOut (removeOut g e.1 e.2) e.2 e.1) e.2 :=
        out_appendOut_new _ _ _ (by rw [keys_removeOut]; exact hk e (by simp))
      rcases reversePath_fold es _ hk' e.2 e.1 hnew with h | h
      · exact h
      · exact absurd (List.mem_cons_of_mem _ h) (hnr e (by simp))
    · exact ih _ hk' (fun e' he' hc => hnr e' (List.mem_cons_of_mem _ he') (List.mem_cons_of_mem _ hc)) e he

theorem idomCore_sound (g : Adj V) (s t : V) (hwf : wfAdj g s t = true)
    (b : V × V) (R : Adj V) (p : List V) (h : idomCore g s t = .ok (some b, R, p)) :
    ∀ w, IsWalkAdj g s t w → b ∈ walkEdges w := by
  obtain ⟨_, _, hkeys⟩ := wfAdj_out g s t hwf
  unfold idomCore at h
  split at h
  · cases h
  · rename_i p' hfp
    obtain ⟨hnd, hhd, hedges⟩ := findPath_spec g s t p' hfp
    have hpk : ∀ e ∈ walkEdges p', e.2 ∈ keys g := fun e he => hkeys _ _ (hedges e he)
    simp only at h
    split at h
    · cases h
    · rename_i C hbfs
      by_cases ht : t ∈ C
      · rw [if_pos ht] at h; injection h with h; injection h with h1 _; cases h1
      · rw [if_neg ht] at h
        split at h
        · cases h
        · rename_i y z rest' hadv
          injection h with h; injection h with h1 h2; injection h2 with h2 h3
          injection h1 with h1; subst h1; subst h2; subst h3
          have hq : QInv (reversePath g p') [s] [s] := by intro u hu; left; exact hu
          obtain ⟨hcl, hsub⟩ := bfs_closed _ _ _ _ _ hbfs hq
          have hinv : LoopInv (reversePath g p') p' s p' C :=
            ⟨⟨[], by simp, by simp⟩, fun h hh => by rw [hhd] at hh; injection hh with hh; subst hh; exact hsub _ (by simp),
              hsub s (by simp), hcl⟩
          obtain ⟨pre, hp, hpre, hz, _⟩ := advance_split _ p' s _ p' C hinv y z rest' hadv
          intro w hw
          exact bridge_of_cut g (reversePath g p') p' (reversePath_fold _ g hpk)
            (reversePath_rev _ g hpk (noRev_of_nodup p' hnd)) C hcl pre rest' y z hp hpre hz s t
            (hsub s (by simp)) ht w hw

theorem findIdom_sound (g : Adj V) (s t : V) (b : V × V) (g' : Adj V)
    (h : findIdom g s t = .ok (some b, g')) :
    ∀ w, IsWalkAdj g s t w → b ∈ walkEdges w := by
  unfold findIdom at h
  by_cases hwf : wfAdj g s t = true
  · rw [hwf] at h
    simp only [Bool.not_true, Bool.false_eq_true, if_false] at h
    cases hc : idomCore g s t with
    | ok r =>
      obtain ⟨b', R, p⟩ := r
      rw [hc] at h
      injection h with h; injection h with h1 h2; subst h1
      exact idomCore_sound g s t hwf b R p hc
    | raises w => rw [hc] at h; cases h
    | fuel => rw [hc] at h; cases h
  · have : wfAdj g s t = false := by simpa using hwf
    rw [this] at h; simp at h

end FP.Safety
