import FP.Proofs.RouteFacts
/-!
# FP.Proofs.RouteUser — routes of the user's graph are routes of the augmented graph

The converse of `dag_routes_valid`: an admissible route of the user's DAG (`ValidRoute`), wrapped in
the synthetic endpoints, is a simple source-to-sink path of `augment base starts ends`. Optimality
statements over `Route (augment …)` therefore range over all routes of the user's graph.
-/
namespace FP
open FP.Spec

theorem walkEdges_append_single (p : List Node) (b : Node) :
    ∀ e ∈ walkEdges (p ++ [b]), e ∈ walkEdges p ∨ (p.getLast? = some e.1 ∧ e.2 = b) := by
  induction p with
  | nil => intro e he; simp [walkEdges] at he
  | cons x p ih =>
    intro e he
    cases p with
    | nil =>
      simp [walkEdges] at he
      right; simp [he]
    | cons y p =>
      rw [List.cons_append, List.cons_append, walkEdges_cons_cons] at he
      rcases List.mem_cons.1 he with rfl | he
      · left; rw [walkEdges_cons_cons]; simp
      · rcases ih e (by simpa using he) with h | h
        · left; rw [walkEdges_cons_cons]; exact List.mem_cons_of_mem _ h
        · right; rw [List.getLast?_cons_cons]; exact h

theorem route_of_validRoute (base : Graph) (starts ends : List Node) (h : BaseWF base)
    (hac : Acyclic base) (ae : Bool) (p : List Node) (hv : ValidRoute base starts ends p) :
    Route (augment base starts ends) ae p := by
  right
  refine ⟨hv.nonempty, ?_, ?_⟩
  · -- every consecutive pair is an edge of the augmented graph
    intro e he
    have hs : (augment base starts ends).source = srcName := rfl
    have ht : (augment base starts ends).sink = snkName := rfl
    unfold full at he
    rw [hs, ht] at he
    apply (aug_mem_edges' (st := starts) (en := ends) h.closed (e := e)).2
    cases p with
    | nil => exact absurd rfl hv.nonempty
    | cons x rest =>
      rw [List.cons_append, List.cons_append, walkEdges_cons_cons] at he
      rcases List.mem_cons.1 he with rfl | he
      · right; left
        exact ⟨rfl, hv.nodes x (by simp), hv.first x rfl⟩
      · rcases walkEdges_append_single (x :: rest) snkName e (by simpa using he) with hin | ⟨hl, hb⟩
        · left; exact hv.adjacent e hin
        · right; right
          exact ⟨hb, hv.nodes e.1 (List.mem_of_getLast? hl), hv.last e.1 hl⟩
  · obtain ⟨rank, hr⟩ := hac
    have hpn : p.Nodup := nodup_of_walk rank p (fun e he => hr e (hv.adjacent e he))
    have hsp : srcName ∉ p := fun hm => h.freshSrc (hv.nodes _ hm)
    have htp : snkName ∉ p := fun hm => h.freshSnk (hv.nodes _ hm)
    show (srcName :: p ++ [snkName]).Nodup
    rw [List.cons_append, List.nodup_cons]
    refine ⟨?_, List.nodup_append.2 ⟨hpn, by simp, ?_⟩⟩
    · intro hm
      rcases List.mem_append.1 hm with hm | hm
      · exact hsp hm
      · exact src_ne_snk (by simpa using hm)
    · intro a ha b hb hab
      have : b = snkName := by simpa using hb
      exact htp (this ▸ hab ▸ ha)

end FP
