import FP.Model.NodeExpand
/-!
# name arithmetic of the node expansion: suffixes, stripping, condensing a path
-/
namespace FP
namespace NX

theorem toList_n0 (v : Node) : (n0 v).toList = v.toList ++ ['.', '0'] := by
  unfold n0; rw [String.toList_append]; rfl

theorem toList_n1 (v : Node) : (n1 v).toList = v.toList ++ ['.', '1'] := by
  unfold n1; rw [String.toList_append]; rfl

theorem n0_inj {a b : Node} (h : n0 a = n0 b) : a = b := by
  have := congrArg String.toList h
  rw [toList_n0, toList_n0] at this
  exact String.toList_inj.1 (List.append_cancel_right this)

theorem n1_inj {a b : Node} (h : n1 a = n1 b) : a = b := by
  have := congrArg String.toList h
  rw [toList_n1, toList_n1] at this
  exact String.toList_inj.1 (List.append_cancel_right this)

theorem n0_ne_n1 (a b : Node) : n0 a ≠ n1 b := by
  intro h
  have := congrArg String.toList h
  rw [toList_n0, toList_n1] at this
  have h2 := List.append_inj_right' this rfl
  exact absurd h2 (by decide)

theorem drop_len_sub_two (l s : List Char) (hs : s.length = 2) :
    (l ++ s).drop ((l ++ s).length - 2) = s := by
  have : (l ++ s).length - 2 = l.length := by simp [hs]
  rw [this]; simp

theorem take_len_sub_two (l s : List Char) (hs : s.length = 2) :
    (l ++ s).take ((l ++ s).length - 2) = l := by
  have : (l ++ s).length - 2 = l.length := by simp [hs]
  rw [this]; simp

theorem endsWith0_n0 (v : Node) : endsWith0 (n0 v) = true := by
  unfold endsWith0; rw [toList_n0, drop_len_sub_two _ _ rfl]; rfl

theorem endsWith0_n1 (v : Node) : endsWith0 (n1 v) = false := by
  unfold endsWith0; rw [toList_n1, drop_len_sub_two _ _ rfl]; rfl

theorem strip2_n0 (v : Node) : strip2 (n0 v) = v := by
  unfold strip2; rw [toList_n0, take_len_sub_two _ _ rfl]; exact String.ofList_toList

theorem strip2_n1 (v : Node) : strip2 (n1 v) = v := by
  unfold strip2; rw [toList_n1, take_len_sub_two _ _ rfl]; exact String.ofList_toList

/-- `name[-2:] == '.1'` (specification side only: the code never tests it) -/
def endsWith1 (s : String) : Bool := s.toList.drop (s.toList.length - 2) == ['.', '1']

theorem endsWith1_n1 (v : Node) : endsWith1 (n1 v) = true := by
  unfold endsWith1; rw [toList_n1, drop_len_sub_two _ _ rfl]; rfl

theorem endsWith1_n0 (v : Node) : endsWith1 (n0 v) = false := by
  unfold endsWith1; rw [toList_n0, drop_len_sub_two _ _ rfl]; rfl

/-- a name that ends in `.0` is the `.0` copy of its stripped form -/
theorem eq_n0_of_endsWith0 (x : Node) (h : endsWith0 x = true) : x = n0 (strip2 x) := by
  apply String.toList_inj.1
  rw [toList_n0]
  unfold strip2
  rw [String.toList_ofList]
  unfold endsWith0 at h
  have h' : x.toList.drop (x.toList.length - 2) = ['.', '0'] := by simpa using h
  rw [← h']
  exact (List.take_append_drop _ _).symm

/-! ## elements -/

theorem nodeEdge_inj {a b : Node} (h : nodeEdge a = nodeEdge b) : a = b :=
  n0_inj (congrArg Prod.fst h)

theorem edgeEdge_inj {a b : Edge} (h : edgeEdge a = edgeEdge b) : a = b := by
  have h1 := n1_inj (congrArg Prod.fst h)
  have h2 := n0_inj (congrArg Prod.snd h)
  exact Prod.ext h1 h2

theorem nodeEdge_ne_edgeEdge (v : Node) (e : Edge) : nodeEdge v ≠ edgeEdge e := fun h =>
  n0_ne_n1 _ _ (congrArg Prod.fst h)

/-- an element of the original graph -/
inductive Element where
  | node (v : Node)
  | edge (e : Edge)
  deriving DecidableEq, Repr

/-- the inverse of `get_expanded_edge` (specification side): `(x.0, x.1) ↦ node x`,
`(u.1, v.0) ↦ edge (u, v)`, anything else is not the expansion of an element -/
def condenseElement (x : Edge) : Option Element :=
  if endsWith0 x.1 && endsWith1 x.2 then
    (if strip2 x.1 = strip2 x.2 then some (.node (strip2 x.1)) else none)
  else if endsWith1 x.1 && endsWith0 x.2 then some (.edge (strip2 x.1, strip2 x.2))
  else none

theorem condenseElement_nodeEdge (v : Node) : condenseElement (nodeEdge v) = some (.node v) := by
  simp [condenseElement, nodeEdge, endsWith0_n0, endsWith1_n1, strip2_n0, strip2_n1]

theorem condenseElement_edgeEdge (e : Edge) : condenseElement (edgeEdge e) = some (.edge e) := by
  simp [condenseElement, edgeEdge, endsWith0_n0, endsWith1_n1, endsWith0_n1, endsWith1_n0, strip2_n0, strip2_n1]

/-! ## condensing paths -/

theorem expandPath_cons (v : Node) (p : List Node) : expandPath (v :: p) = n0 v :: n1 v :: expandPath p := by
  simp [expandPath]

theorem expandPath_append (p q : List Node) : expandPath (p ++ q) = expandPath p ++ expandPath q := by
  simp [expandPath]

theorem evens_expandPath (p : List Node) : evens (expandPath p) = p.map n0 := by
  induction p with
  | nil => rfl
  | cons v p ih => rw [expandPath_cons, evens, ih]; rfl

theorem condenseNames_map_n0 (orig globals : List Node) (p : List Node)
    (h : ∀ v ∈ p, v ∈ orig ∨ v ∈ globals) :
    condenseNames orig globals (p.map n0) = .ok (p.filter fun v => !globals.contains v) := by
  induction p with
  | nil => rfl
  | cons v p ih =>
    have hv := h v (List.mem_cons_self ..)
    have ih' := ih (fun w hw => h w (List.mem_cons_of_mem _ hw))
    simp only [List.map_cons, condenseNames, endsWith0_n0, strip2_n0, ih']
    have hc : (!orig.contains v && !globals.contains v) = false := by
      rcases hv with hv | hv
      · simp [hv]
      · simp [hv]
    simp only [hc]
    by_cases hg : globals.contains v = true <;> simp [List.filter_cons]

theorem condense_expand_globals (orig globals : List Node) (p : List Node)
    (h : ∀ v ∈ p, v ∈ orig ∨ v ∈ globals) :
    condensePath orig globals (expandPath p) = .ok (p.filter fun v => !globals.contains v) := by
  unfold condensePath; rw [evens_expandPath]; exact condenseNames_map_n0 orig globals p h

theorem condense_expand (orig : List Node) (p : List Node) (h : ∀ v ∈ p, v ∈ orig) :
    condensePath orig [] (expandPath p) = .ok p := by
  have := condense_expand_globals orig [] p (fun v hv => Or.inl (h v hv))
  rw [this]; congr 1
  exact List.filter_eq_self.2 (fun a _ => by simp)

theorem mapM_except_ok {α β ε} (f : α → Except ε β) (g : α → β) (l : List α) (h : ∀ a ∈ l, f a = .ok (g a)) :
    l.mapM f = .ok (l.map g) := by
  induction l with
  | nil => rfl
  | cons a l ih =>
    rw [List.mapM_cons, h a (List.mem_cons_self ..), ih (fun b hb => h b (List.mem_cons_of_mem _ hb))]
    rfl

theorem condensePaths_expand (orig : List Node) (ps : List (List Node)) (h : ∀ p ∈ ps, ∀ v ∈ p, v ∈ orig) :
    condensePaths orig [] (ps.map expandPath) = .ok ps := by
  unfold condensePaths
  rw [mapM_except_ok (condensePath orig []) (fun x => condenseNames orig [] (evens x) |>.toOption.getD []) ]
  · congr 1
    rw [List.map_map]
    conv => rhs; rw [← List.map_id ps]
    apply List.map_congr_left
    intro p hp
    have := condense_expand orig p (h p hp)
    unfold condensePath at this
    simp [this, Except.toOption]
  · intro x hx
    obtain ⟨p, hp, rfl⟩ := List.mem_map.1 hx
    have := condense_expand orig p (h p hp)
    unfold condensePath at this ⊢
    simp [this, Except.toOption]

end NX
end FP
