import FP.Proofs.ErrAsg
/-!
# FP.Proofs.KLAE — k-Least-Absolute-Errors (DAG): soundness, completeness, optimality transfer,
adequacy of `w_max`, objective consistency
-/
namespace FP
open FP.Spec FP.Spec.LAE

/-- the solver's objective at an assignment: `_encode_objective` -/
theorem klaeLP_obj (inp : ErrInput) (a : Asg) :
    evalTerms a (klaeLP inp).obj = (inp.basicEdges.map fun e => inp.scale e * a (eeVar e)).sum := by
  show evalTerms a (klaeObj inp) = _
  unfold klaeObj
  rw [evalTerms_map]

theorem klae_sat_parts (inp : ErrInput) (a : Asg) (hsat : Sat a (klaeLP inp)) :
    Sat a (encodePaths inp.st inp.fi.cfg) ∧
    (∀ i, i < inp.k → Col.holds a { v := weightsVar i, lb := 0, ub := some (inp.wmax none), isInt := inp.fi.weightInt }) ∧
    (∀ e ∈ inp.basicEdges, Col.holds a { v := eeVar e, lb := 0, ub := some (inp.wmax none), isInt := inp.fi.weightInt }) ∧
    (∀ e ∈ inp.basicEdges, ∀ i, i < inp.k →
      ∀ r ∈ binProd (edgeVar e i) (weightsVar i) (piVar e i) 0 (inp.wmax none), r.holds a) ∧
    (∀ e ∈ inp.basicEdges,
      (rowLe (negTerms (ones (List.range inp.k) (piVar e)) ++ [(-1, eeVar e)]) (-(inp.fi.f e))).holds a ∧
      (rowLe (ones (List.range inp.k) (piVar e) ++ [(-1, eeVar e)]) (inp.fi.f e)).holds a) := by
  have henc : Sat a (encodePaths inp.st inp.fi.cfg) := sat_append_left a _ _ hsat
  obtain ⟨hcols, hrows⟩ := sat_append_right a _ _ hsat
  simp only at hcols hrows
  refine ⟨henc, ?_, ?_, ?_, ?_⟩
  · intro i hi
    exact hcols _ (List.mem_append_left _ (List.mem_append_right _
      (List.mem_map.2 ⟨i, List.mem_range.2 hi, rfl⟩)))
  · intro e he
    exact hcols _ (List.mem_append_right _ (List.mem_map.2 ⟨e, he, rfl⟩))
  · intro e he i hi r hr
    exact hrows r (List.mem_append_left _ (List.mem_flatMap.2 ⟨e, he,
      List.mem_flatMap.2 ⟨i, List.mem_range.2 hi, hr⟩⟩))
  · intro e he
    constructor
    · exact hrows _ (List.mem_append_right _ (List.mem_flatMap.2 ⟨e, he, by simp⟩))
    · exact hrows _ (List.mem_append_right _ (List.mem_flatMap.2 ⟨e, he, by simp⟩))

/-- **soundness of the k-Least-Absolute-Errors LP** -/
theorem klae_sound (inp : ErrInput) (a : Asg) (h : BaseWF inp.fi.base) (hac : Acyclic inp.fi.base)
    (hsat : Sat a (klaeLP inp)) :
    ∃ ps : List (List Node),
      decodePaths inp.st (fun e i => a (edgeVar e i)) inp.k = some ps ∧ ps.length = inp.k ∧
      Solution inp (fun i => ps.getD i []) (fun i => a (weightsVar i)) ∧
      (∀ i, i < inp.k → a (weightsVar i) ≤ inp.wmax none) ∧
      (∀ i, i < inp.k → ∀ e ∈ inp.st.g.edges, a (edgeVar e i) = trav inp.st (ps.getD i []) e) ∧
      (∀ e ∈ inp.basicEdges, ∀ i, i < inp.k → a (piVar e i) = a (edgeVar e i) * a (weightsVar i)) ∧
      (∀ e ∈ inp.basicEdges,
        absErr inp (fun i => ps.getD i []) (fun i => a (weightsVar i)) e ≤ a (eeVar e) ∧
        a (eeVar e) ≤ inp.wmax none ∧ (inp.fi.weightInt = true → IsInt (a (eeVar e)))) := by
  have hwf : STWF inp.st := augment_wf inp.fi.base inp.fi.starts inp.fi.ends h hac
  obtain ⟨henc, hwc, heec, hbin, herr⟩ := klae_sat_parts inp a hsat
  obtain ⟨ps, hps, hlen, hroutes, htrav⟩ := decode_routes inp.st inp.fi.cfg a hwf henc
  have hw : ∀ i, i < inp.k → 0 ≤ a (weightsVar i) ∧ a (weightsVar i) ≤ inp.wmax none :=
    fun i hi => ⟨(hwc i hi).1, (hwc i hi).2.1 _ rfl⟩
  have hpi : ∀ e ∈ inp.basicEdges, ∀ i, i < inp.k → a (piVar e i) = a (edgeVar e i) * a (weightsVar i) := by
    intro e he i hi
    have hb := (layerFacts_of_sat inp.st inp.fi.cfg a henc i hi).bin e (mem_basicEdges inp e he)
    exact (binProd_exact a (edgeVar e i) (weightsVar i) (piVar e i) 0 (inp.wmax none) hb (hw i hi)).1
      (hbin e he i hi)
  refine ⟨ps, hps, hlen, ⟨hroutes, fun i hi => (hw i hi).1, fun hint i hi => (hwc i hi).2.2 hint⟩,
    fun i hi => (hw i hi).2, htrav, hpi, ?_⟩
  intro e he
  have hee := mem_basicEdges inp e he
  have hsum : ((List.range inp.k).map fun i => a (piVar e i)).sum
      = explained inp.st inp.k (fun i => ps.getD i []) (fun i => a (weightsVar i)) e := by
    apply sum_map_congr
    intro i hi
    have hi' := List.mem_range.1 hi
    rw [hpi e he i hi', htrav i hi' e hee]; grind
  obtain ⟨h1, h2⟩ := herr e he
  have h1' := h1.2 _ rfl
  have h2' := h2.2 _ rfl
  simp only [rowLe, evalTerms_append, evalTerms_negTerms, evalTerms_ones, evalTerms_single, hsum] at h1' h2'
  refine ⟨?_, (heec e he).2.1 _ rfl, (heec e he).2.2⟩
  unfold absErr
  apply abs_le <;> grind

/-- **completeness of the k-Least-Absolute-Errors LP** (general error values): a bounded k-route
solution together with any admissible values `ee(e) ∈ [|f(e) − Σ…|, w_max]` of the error columns is
represented by a satisfying assignment -/
theorem klae_complete_ee (inp : ErrInput) (P : Nat → List Node) (w : Nat → Rat) (ee : Edge → Rat)
    (h : BaseWF inp.fi.base) (hac : Acyclic inp.fi.base)
    (hcons : inp.fi.cfg.constraints = []) (hlen : inp.fi.cfg.lengths = none)
    (hsol : Solution inp P w) (hwle : ∀ i, i < inp.k → w i ≤ inp.wmax none)
    (hee : ∀ e ∈ inp.basicEdges, absErr inp P w e ≤ ee e ∧ ee e ≤ inp.wmax none ∧
      (inp.fi.weightInt = true → IsInt (ee e))) :
    ∃ a : Asg, Sat a (klaeLP inp) ∧
      (∀ i, i < inp.k → ∀ e ∈ inp.st.g.edges, a (edgeVar e i) = trav inp.st (P i) e) ∧
      (∀ i, i < inp.k → a (weightsVar i) = w i) ∧
      (∀ e ∈ inp.basicEdges, a (eeVar e) = ee e) := by
  have hwf : STWF inp.st := augment_wf inp.fi.base inp.fi.starts inp.fi.ends h hac
  let σ : ErrSol := { P := P, w := w, ee := ee }
  refine ⟨solAsg inp.st σ, ?_, fun i _ e _ => solAsg_edge inp.st σ e i, fun i _ => solAsg_w inp.st σ i,
    fun e _ => solAsg_ee inp.st σ e⟩
  unfold klaeLP
  refine sat_append_p07 _ _ _ (solAsg_sat_paths inp.st inp.fi.cfg σ hwf hsol.routes hcons hlen) ?_
  have h01 : ∀ i, i < inp.k → ∀ e ∈ inp.st.g.edges, trav inp.st (P i) e = 0 ∨ trav inp.st (P i) e = 1 :=
    fun i hi e he => trav01 hwf (hsol.routes i hi) e he
  refine ⟨fun col hcol => ?_, fun r hr => ?_⟩
  · simp only at hcol
    rcases List.mem_append.1 hcol with hcol | hcol
    · rcases List.mem_append.1 hcol with hcol | hcol
      · -- pi columns
        obtain ⟨i, hi, hcol⟩ := List.mem_flatMap.1 hcol
        obtain ⟨e, he, rfl⟩ := List.mem_map.1 hcol
        have hi' := List.mem_range.1 hi
        have hv : solAsg inp.st σ (piVar e i) = trav inp.st (P i) e * w i := solAsg_pi inp.st σ e i
        have hw0 := hsol.nonneg i hi'
        have hw1 := hwle i hi'
        refine ⟨?_, ?_, fun hint => ?_⟩
        · show (0:Rat) ≤ solAsg inp.st σ (piVar e i)
          rw [hv]; rcases h01 i hi' e he with h0 | h0 <;> rw [h0] <;> grind
        · intro u hu
          rw [← Option.some.inj hu]
          show solAsg inp.st σ (piVar e i) ≤ _
          rw [hv]; rcases h01 i hi' e he with h0 | h0 <;> rw [h0] <;> grind
        · show IsInt (solAsg inp.st σ (piVar e i))
          rw [hv]
          exact isInt_mul (isInt_natCast _) (hsol.integral hint i hi')
      · -- weight columns
        obtain ⟨i, hi, rfl⟩ := List.mem_map.1 hcol
        have hi' := List.mem_range.1 hi
        have hv : solAsg inp.st σ (weightsVar i) = w i := solAsg_w inp.st σ i
        refine ⟨?_, ?_, fun hint => ?_⟩
        · show (0:Rat) ≤ solAsg inp.st σ (weightsVar i)
          rw [hv]; exact hsol.nonneg i hi'
        · intro u hu
          rw [← Option.some.inj hu]
          show solAsg inp.st σ (weightsVar i) ≤ _
          rw [hv]; exact hwle i hi'
        · show IsInt (solAsg inp.st σ (weightsVar i))
          rw [hv]; exact hsol.integral hint i hi'
    · -- error columns
      obtain ⟨e, he, rfl⟩ := List.mem_map.1 hcol
      have hv : solAsg inp.st σ (eeVar e) = ee e := solAsg_ee inp.st σ e
      obtain ⟨h1, h2, h3⟩ := hee e he
      refine ⟨?_, ?_, fun hint => ?_⟩
      · show (0:Rat) ≤ solAsg inp.st σ (eeVar e)
        rw [hv]; exact Rat.le_trans (abs_nonneg _) h1
      · intro u hu
        rw [← Option.some.inj hu]
        show solAsg inp.st σ (eeVar e) ≤ _
        rw [hv]; exact h2
      · show IsInt (solAsg inp.st σ (eeVar e))
        rw [hv]; exact h3 hint
  · simp only at hr
    rcases List.mem_append.1 hr with hr | hr
    · -- McCormick rows
      obtain ⟨e, he, hr⟩ := List.mem_flatMap.1 hr
      obtain ⟨i, hi, hr⟩ := List.mem_flatMap.1 hr
      have hi' := List.mem_range.1 hi
      have hee' := mem_basicEdges inp e he
      refine (binProd_exact (solAsg inp.st σ) (edgeVar e i) (weightsVar i) (piVar e i) 0 (inp.wmax none)
        ?_ ?_).2 ?_ r hr
      · rw [solAsg_edge]; exact h01 i hi' e hee'
      · rw [solAsg_w]; exact ⟨hsol.nonneg i hi', hwle i hi'⟩
      · rw [solAsg_pi, solAsg_edge, solAsg_w]
    · -- error rows
      obtain ⟨e, he, hr⟩ := List.mem_flatMap.1 hr
      have hsum : ((List.range inp.k).map fun i => solAsg inp.st σ (piVar e i)).sum
          = explained inp.st inp.k P w e := by
        apply sum_map_congr
        intro i _
        rw [solAsg_pi]; grind
      obtain ⟨h1, _, _⟩ := hee e he
      have ha1 := le_abs (inp.fi.f e - explained inp.st inp.k P w e)
      have ha2 := neg_le_abs (inp.fi.f e - explained inp.st inp.k P w e)
      unfold absErr at h1
      simp only [List.mem_cons, List.not_mem_nil, or_false] at hr
      rcases hr with rfl | rfl
      · refine ⟨fun l hl => by simp [rowLe] at hl, fun u hu => ?_⟩
        rw [← Option.some.inj hu]
        simp only [rowLe, evalTerms_append, evalTerms_negTerms, evalTerms_ones, evalTerms_single, hsum,
          solAsg_ee]
        grind
      · refine ⟨fun l hl => by simp [rowLe] at hl, fun u hu => ?_⟩
        rw [← Option.some.inj hu]
        simp only [rowLe, evalTerms_append, evalTerms_ones, evalTerms_single, hsum, solAsg_ee]
        grind

theorem explained_isInt (inp : ErrInput) (P : Nat → List Node) (w : Nat → Rat)
    (hw : ∀ i, i < inp.k → IsInt (w i)) (e : Edge) : IsInt (explained inp.st inp.k P w e) :=
  isInt_sum_map _ _ (fun i hi => isInt_mul (hw i (List.mem_range.1 hi)) (isInt_natCast _))

/-- with integral weights and integral flow values the absolute errors are integers -/
theorem absErr_isInt (inp : ErrInput) (P : Nat → List Node) (w : Nat → Rat)
    (hw : ∀ i, i < inp.k → IsInt (w i)) (e : Edge) (hf : IsInt (inp.fi.f e)) : IsInt (absErr inp P w e) :=
  isInt_abs (isInt_sub hf (explained_isInt inp P w hw e))

/-- **completeness**: every bounded k-route solution is represented, with `ee(e) = |f(e) − Σ…|` and
the LP objective equal to the total scaled absolute error -/
theorem klae_complete (inp : ErrInput) (P : Nat → List Node) (w : Nat → Rat)
    (h : BaseWF inp.fi.base) (hac : Acyclic inp.fi.base)
    (hcons : inp.fi.cfg.constraints = []) (hlen : inp.fi.cfg.lengths = none)
    (hfint : inp.fi.weightInt = true → ∀ e ∈ inp.basicEdges, IsInt (inp.fi.f e))
    (hb : Bounded inp P w) :
    ∃ a : Asg, Sat a (klaeLP inp) ∧
      (∀ i, i < inp.k → ∀ e ∈ inp.st.g.edges, a (edgeVar e i) = trav inp.st (P i) e) ∧
      (∀ i, i < inp.k → a (weightsVar i) = w i) ∧
      (∀ e ∈ inp.basicEdges, a (eeVar e) = absErr inp P w e) ∧
      evalTerms a (klaeLP inp).obj = totalErr inp P w := by
  obtain ⟨a, hsat, h1, h2, h3⟩ := klae_complete_ee inp P w (absErr inp P w) h hac hcons hlen
    hb.toSolution hb.wle (fun e he => ⟨Rat.le_refl, hb.errle e he,
      fun hint => absErr_isInt inp P w (hb.integral hint) e (hfint hint e he)⟩)
  refine ⟨a, hsat, h1, h2, h3, ?_⟩
  rw [klaeLP_obj]
  apply sum_map_congr
  intro e he
  rw [h3 e he]

/-- the total error of the decoded solution is at most the LP objective (scales non-negative) -/
theorem klae_obj_ge (inp : ErrInput) (a : Asg) (ps : List (List Node))
    (hscale : ∀ e ∈ inp.basicEdges, 0 ≤ inp.scale e)
    (herr : ∀ e ∈ inp.basicEdges,
      absErr inp (fun i => ps.getD i []) (fun i => a (weightsVar i)) e ≤ a (eeVar e)) :
    totalErr inp (fun i => ps.getD i []) (fun i => a (weightsVar i)) ≤ evalTerms a (klaeLP inp).obj := by
  rw [klaeLP_obj]
  apply sum_map_le_p07
  intro e he
  exact Rat.mul_le_mul_of_nonneg_left (herr e he) (hscale e he)

/-- **optimality transfer** -/
theorem klae_opt_transfer (inp : ErrInput) (a : Asg) (h : BaseWF inp.fi.base) (hac : Acyclic inp.fi.base)
    (hcons : inp.fi.cfg.constraints = []) (hlen : inp.fi.cfg.lengths = none)
    (hfint : inp.fi.weightInt = true → ∀ e ∈ inp.basicEdges, IsInt (inp.fi.f e))
    (hscale : ∀ e ∈ inp.basicEdges, 0 ≤ inp.scale e)
    (hsat : Sat a (klaeLP inp))
    (hopt : ∀ a', Sat a' (klaeLP inp) → evalTerms a (klaeLP inp).obj ≤ evalTerms a' (klaeLP inp).obj) :
    ∃ ps : List (List Node),
      decodePaths inp.st (fun e i => a (edgeVar e i)) inp.k = some ps ∧
      Bounded inp (fun i => ps.getD i []) (fun i => a (weightsVar i)) ∧
      (∀ P' w', Bounded inp P' w' →
        totalErr inp (fun i => ps.getD i []) (fun i => a (weightsVar i)) ≤ totalErr inp P' w') ∧
      (∀ e ∈ inp.basicEdges, 0 < inp.scale e →
        a (eeVar e) = absErr inp (fun i => ps.getD i []) (fun i => a (weightsVar i)) e) ∧
      evalTerms a (klaeLP inp).obj = totalErr inp (fun i => ps.getD i []) (fun i => a (weightsVar i)) := by
  obtain ⟨ps, hps, _, hsol, hwle, _, _, herr⟩ := klae_sound inp a h hac hsat
  have hbd : Bounded inp (fun i => ps.getD i []) (fun i => a (weightsVar i)) :=
    { toSolution := hsol, wle := hwle,
      errle := fun e he => Rat.le_trans (herr e he).1 (herr e he).2.1 }
  have hge := klae_obj_ge inp a ps hscale (fun e he => (herr e he).1)
  -- the decoded solution with tight errors is itself represented: its objective is its total error
  obtain ⟨a0, hsat0, _, _, _, hobj0⟩ := klae_complete inp _ _ h hac hcons hlen hfint hbd
  have hle0 := hopt a0 hsat0
  rw [hobj0] at hle0
  have heq : evalTerms a (klaeLP inp).obj
      = totalErr inp (fun i => ps.getD i []) (fun i => a (weightsVar i)) := Rat.le_antisymm hle0 hge
  refine ⟨ps, hps, hbd, ?_, ?_, heq⟩
  · intro P' w' hb'
    obtain ⟨a', hsat', _, _, _, hobj'⟩ := klae_complete inp P' w' h hac hcons hlen hfint hb'
    have := hopt a' hsat'
    rw [hobj', heq] at this
    exact this
  · intro e he hpos
    apply Classical.byContradiction
    intro hne
    have hlt : absErr inp (fun i => ps.getD i []) (fun i => a (weightsVar i)) e < a (eeVar e) := by
      have := (herr e he).1
      grind
    have hstrict : totalErr inp (fun i => ps.getD i []) (fun i => a (weightsVar i))
        < evalTerms a (klaeLP inp).obj := by
      rw [klaeLP_obj]
      refine sum_map_lt _ _ _ (fun e' he' =>
        Rat.mul_le_mul_of_nonneg_left (herr e' he').1 (hscale e' he')) e he ?_
      exact Rat.mul_lt_mul_of_pos_left hlt hpos
    rw [heq] at hstrict
    exact absurd hstrict (Rat.lt_irrefl)

end FP
