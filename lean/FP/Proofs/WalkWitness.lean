import FP.Proofs.WalkCoreComplete
/-!
# FP.Proofs.WalkWitness — every source-to-sink walk has connectivity witnesses

For a vertex sequence `L = source :: p ++ [sink]` whose consecutive pairs are edges of the s-t graph:

* the traversal counts are conserved at inner vertices and leave the source exactly once
  (`outN_traversals`, `inN_traversals`, telescoping `bal_walkEdges`);
* `walkSel L (u, v)` marks the edge by which `v` is entered for the first time,
  `walkDist nodes L v` = 1 + number of vertices of the graph seen strictly before the first visit of `v`
  (the rank in the order of first visits, at most `|V|`);
* together they form a `LayerWitness` (`walk_layer_witness`).
-/
namespace FP
open FP.Spec

/-! ## traversal counts as a flow -/

theorem nat_sum_map_add_p04 {α} (l : List α) (f g : α → Nat) :
    (l.map fun x => f x + g x).sum = (l.map f).sum + (l.map g).sum := by
  induction l with
  | nil => simp
  | cons x xs ih => simp only [List.map_cons, List.sum_cons, ih]; omega

theorem nat_sum_ind_nodup (l : List Edge) (hnd : l.Nodup) (x : Edge) :
    (l.map fun e => if x == e then 1 else 0).sum = if x ∈ l then 1 else 0 := by
  induction l with
  | nil => simp
  | cons y ys ih =>
    have hy := List.nodup_cons.1 hnd
    simp only [List.map_cons, List.sum_cons, ih hy.2, List.mem_cons]
    by_cases h : x = y
    · subst h
      simp [hy.1]
    · have : (x == y) = false := by simpa using h
      simp [this, h]

theorem sum_count_filter (l : List Edge) (hnd : l.Nodup) (q : Edge → Bool) (W : List Edge)
    (hW : ∀ e ∈ W, e ∈ l) : ((l.filter q).map fun e => W.count e).sum = W.countP q := by
  induction W with
  | nil =>
    simp only [List.count_nil, List.countP_nil]
    exact nat_sum_eq_zero _ _ (fun _ _ => rfl)
  | cons x xs ih =>
    have hx : x ∈ l := hW x (by simp)
    have hxs : ∀ e ∈ xs, e ∈ l := fun e he => hW e (by simp [he])
    have hfun : ((l.filter q).map fun e => (x :: xs).count e)
        = (l.filter q).map fun e => xs.count e + (if x == e then 1 else 0) := by
      apply List.map_congr_left
      intro e _
      rw [List.count_cons]
    rw [hfun, nat_sum_map_add_p04, ih hxs, nat_sum_ind_nodup _ (hnd.filter q), List.countP_cons]
    by_cases hq : q x = true
    · simp [hq, List.mem_filter, hx]
    · simp [hq, List.mem_filter]

theorem outN_traversals (g : Graph) (hnd : g.edges.Nodup) (L : List Node) (hW : IsWalkIn g L) (v : Node) :
    (outN g (traversals L) v : Int) = outdeg (walkEdges L) v := by
  unfold outN outdeg traversals
  rw [sum_count_filter g.edges hnd (fun e => decide (e.1 = v)) (walkEdges L) hW]

theorem inN_traversals (g : Graph) (hnd : g.edges.Nodup) (L : List Node) (hW : IsWalkIn g L) (v : Node) :
    (inN g (traversals L) v : Int) = indeg (walkEdges L) v := by
  unfold inN indeg traversals
  rw [sum_count_filter g.edges hnd (fun e => decide (e.2 = v)) (walkEdges L) hW]

/-! ## first visits -/

theorem not_mem_take_idxOf (L : List Node) (v : Node) : v ∉ L.take (L.idxOf v) := by
  induction L with
  | nil => simp
  | cons x xs ih =>
    rw [List.idxOf_cons]
    by_cases h : x = v
    · subst h; simp
    · have : (x == v) = false := by simpa using h
      simp only [this, cond_false, List.take_succ_cons, List.mem_cons]
      intro hm
      rcases hm with h' | h'
      · exact h h'.symm
      · exact ih h'

theorem idxOf_lt_of_mem_take (L : List Node) (u : Node) (n : Nat) (h : u ∈ L.take n) :
    L.idxOf u < n := by
  induction L generalizing n with
  | nil => simp at h
  | cons x xs ih =>
    cases n with
    | zero => simp at h
    | succ n =>
      rw [List.idxOf_cons]
      by_cases hx : x = u
      · subst hx; simp
      · have : (x == u) = false := by simpa using hx
        simp only [this, cond_false]
        simp only [List.take_succ_cons, List.mem_cons] at h
        rcases h with h | h
        · exact absurd h.symm hx
        · have := ih n h; omega

theorem take_subset_take (L : List Node) {i j : Nat} (h : i ≤ j) : ∀ x ∈ L.take i, x ∈ L.take j := by
  intro x hx
  have : L.take i = (L.take j).take i := by rw [List.take_take]; congr 1; omega
  rw [this] at hx
  exact List.mem_of_mem_take hx

theorem filter_length_lt {α} (l : List α) (p q : α → Bool) (hpq : ∀ x, p x = true → q x = true)
    (x : α) (hx : x ∈ l) (hqx : q x = true) (hpx : p x = false) :
    (l.filter p).length < (l.filter q).length := by
  induction l with
  | nil => simp at hx
  | cons y ys ih =>
    have hle : (ys.filter p).length ≤ (ys.filter q).length := by
      clear ih hx
      induction ys with
      | nil => simp
      | cons z zs ihz =>
        simp only [List.filter_cons]
        by_cases hp : p z = true
        · simp [hp, hpq z hp]; exact ihz
        · have hp' : p z = false := by simpa using hp
          by_cases hq : q z = true
          · simp [hp', hq]; omega
          · have hq' : q z = false := by simpa using hq
            simp [hp', hq']; exact ihz
    simp only [List.filter_cons]
    rcases List.mem_cons.1 hx with h | h
    · subst h
      simp [hpx, hqx]; omega
    · have := ih h
      by_cases hp : p y = true
      · simp [hp, hpq y hp]; exact this
      · have hp' : p y = false := by simpa using hp
        by_cases hq : q y = true
        · simp [hp', hq]; omega
        · have hq' : q y = false := by simpa using hq
          simp [hp', hq']; exact this

/-- the first-entry edge of a vertex that is visited but is not the start of the walk -/
theorem walkSel_exists (L : List Node) (v : Node) (hv : v ∈ L) (hne : L.head? ≠ some v) :
    ∃ u, walkSel L (u, v) = true ∧ u ∈ L.take (L.idxOf v) := by
  have hlt : L.idxOf v < L.length := List.idxOf_lt_length_of_mem hv
  have hpos : 0 < L.idxOf v := by
    cases L with
    | nil => simp at hv
    | cons x xs =>
      rw [List.idxOf_cons]
      by_cases hx : x = v
      · subst hx; simp at hne
      · have : (x == v) = false := by simpa using hx
        simp [this]
  have hne' : L.take (L.idxOf v) ≠ [] := by
    intro h
    have := congrArg List.length h
    rw [List.length_take] at this
    simp only [List.length_nil] at this
    omega
  obtain ⟨u, hu⟩ : ∃ u, (L.take (L.idxOf v)).getLast? = some u := by
    cases hl : (L.take (L.idxOf v)).getLast? with
    | none => exact absurd (List.getLast?_eq_none_iff.1 hl) hne'
    | some u => exact ⟨u, rfl⟩
  refine ⟨u, ?_, List.mem_of_getLast? hu⟩
  unfold walkSel
  simp only
  rw [List.take_succ_eq_append_getElem hlt, List.getElem_idxOf hlt,
    Euler.walkEdges_concat _ u v hu]
  simp

theorem walkSel_mem (L : List Node) (e : Edge) (h : walkSel L e = true) : e ∈ walkEdges L := by
  unfold walkSel at h
  have h' := of_decide_eq_true h
  have hm : e ∈ walkEdges (L.take (L.idxOf e.2 + 1)) := List.mem_of_getLast? h'
  have := walkEdges_sub_append (L.take (L.idxOf e.2 + 1)) (L.drop (L.idxOf e.2 + 1)) e hm
  rwa [List.take_append_drop] at this

/-- the tail of a first-entry edge is visited strictly before its head -/
theorem walkSel_before (L : List Node) (u v : Node) (h : walkSel L (u, v) = true) :
    u ∈ L.take (L.idxOf v) := by
  have hm := walkSel_mem L (u, v) h
  have hv : v ∈ L := List.mem_of_mem_tail (snd_mem_of_mem_walkEdges L (u, v) hm)
  have hlt : L.idxOf v < L.length := List.idxOf_lt_length_of_mem hv
  unfold walkSel at h
  have h' := of_decide_eq_true h
  simp only at h'
  rw [List.take_succ_eq_append_getElem hlt, List.getElem_idxOf hlt] at h'
  cases hl : (L.take (L.idxOf v)).getLast? with
  | none =>
    have hnil := List.getLast?_eq_none_iff.1 hl
    rw [hnil] at h'
    simp [walkEdges] at h'
  | some u' =>
    rw [Euler.walkEdges_concat _ u' v hl] at h'
    simp at h'
    have : u' = u := h'
    subst this
    exact List.mem_of_getLast? hl

theorem walkDist_lt (nodes : List Node) (L : List Node) (u v : Node) (hu : u ∈ nodes)
    (h : u ∈ L.take (L.idxOf v)) : walkDist nodes L u < walkDist nodes L v := by
  unfold walkDist
  have hlt := idxOf_lt_of_mem_take L u _ h
  have := filter_length_lt nodes (fun x => decide (x ∈ L.take (L.idxOf u)))
    (fun x => decide (x ∈ L.take (L.idxOf v)))
    (fun x hx => by
      have := of_decide_eq_true hx
      exact decide_eq_true (take_subset_take L (by omega) x this))
    u hu (decide_eq_true h) (decide_eq_false (not_mem_take_idxOf L u))
  omega

theorem walkDist_le (nodes : List Node) (L : List Node) (v : Node) (hv : v ∈ nodes) :
    walkDist nodes L v ≤ nodes.length := by
  unfold walkDist
  have := filter_length_lt nodes (fun x => decide (x ∈ L.take (L.idxOf v))) (fun _ => true)
    (fun _ _ => rfl) v hv rfl (decide_eq_false (not_mem_take_idxOf L v))
  have hft : nodes.filter (fun _ => true) = nodes := by simp
  rw [hft] at this
  omega

/-! ## the witness of a walk -/

theorem walk_layer_witness (s : STGraph) (hwf : STWFc s) (ae : Bool) (ub : Edge → Rat) (p : List Node)
    (hW : IsWalkIn s.g (s.source :: p ++ [s.sink]))
    (hcap : ∀ e ∈ s.g.edges, (traversals (s.source :: p ++ [s.sink]) e : Rat) ≤ ub e) :
    LayerWitness s ae ub (traversals (s.source :: p ++ [s.sink]))
      (walkSel (s.source :: p ++ [s.sink])) (walkDist s.g.nodes (s.source :: p ++ [s.sink])) := by
  have hLcons : s.source :: p ++ [s.sink] = s.source :: (p ++ [s.sink]) := rfl
  generalize hL : s.source :: p ++ [s.sink] = L at hW hcap hLcons ⊢
  clear hL
  subst hLcons
  have hbal : ∀ x, bal (walkEdges (s.source :: (p ++ [s.sink]))) x
      = Euler.ind' (s.source = x) - Euler.ind' (s.sink = x) := by
    intro x
    rw [Euler.bal_walkEdges s.source (p ++ [s.sink]) x]
    have hl : (s.source :: (p ++ [s.sink])).getLast (by simp) = s.sink := by
      rw [List.getLast_cons (by simp)]
      simp
    rw [hl]
  have hinsrc : indeg (walkEdges (s.source :: (p ++ [s.sink]))) s.source = 0 := by
    unfold indeg
    have : (walkEdges (s.source :: (p ++ [s.sink]))).countP (fun e => decide (e.2 = s.source)) = 0 := by
      apply List.countP_eq_zero.2
      intro e he
      simpa using hwf.srcNoIn e (hW e he)
    rw [this]; rfl
  have hout1 : outN s.g (traversals (s.source :: (p ++ [s.sink]))) s.source = 1 := by
    have h1 := outN_traversals s.g hwf.edgesNodup _ hW s.source
    have h2 := hbal s.source
    unfold bal at h2
    rw [hinsrc] at h2
    have hne : ¬ s.sink = s.source := fun h => hwf.ne h.symm
    simp [Euler.ind', hne] at h2
    omega
  have hvert : ∀ v ∈ (s.source :: (p ++ [s.sink])), v ∈ s.g.nodes := by
    intro v hv
    rcases List.mem_cons.1 hv with h | h
    · -- the source: tail of the first edge
      have hmem : ∃ y, (s.source, y) ∈ walkEdges (s.source :: (p ++ [s.sink])) := by
        cases hp : p ++ [s.sink] with
        | nil => simp at hp
        | cons y ys => exact ⟨y, by simp [walkEdges]⟩
      obtain ⟨y, hy⟩ := hmem
      rw [h]; exact (hwf.closed _ (hW _ hy)).1
    · have : v ∈ (s.source :: (p ++ [s.sink])).tail := h
      obtain ⟨u, hu⟩ := exists_walkEdge_into _ v this
      exact (hwf.closed _ (hW _ hu)).2
  refine ⟨?_, ?_, hcap, ?_, ?_, ?_, ?_, ?_, ?_⟩
  · cases ae
    · simpa using hout1
    · simp [hout1]
  · intro v _ h1 h2
    have ho := outN_traversals s.g hwf.edgesNodup _ hW v
    have hi := inN_traversals s.g hwf.edgesNodup _ hW v
    have hb := hbal v
    unfold bal at hb
    have e1 : ¬ s.source = v := fun h => h1 h.symm
    have e2 : ¬ s.sink = v := fun h => h2 h.symm
    simp [Euler.ind', e1, e2] at hb
    omega
  · intro e _ hsel
    have := walkSel_mem _ e hsel
    unfold traversals
    exact List.count_pos_iff.2 this
  · intro v hv hvs hin
    have hi := inN_traversals s.g hwf.edgesNodup _ hW v
    have hpos : 0 < indeg (walkEdges (s.source :: (p ++ [s.sink]))) v := by omega
    unfold indeg at hpos
    have hcp : 0 < (walkEdges (s.source :: (p ++ [s.sink]))).countP (fun e => decide (e.2 = v)) := by omega
    obtain ⟨e, he, hev⟩ := List.countP_pos_iff.1 hcp
    have hev' : e.2 = v := by simpa using hev
    have hvL : v ∈ (s.source :: (p ++ [s.sink])) := List.mem_of_mem_tail (hev' ▸ snd_mem_of_mem_walkEdges (s.source :: (p ++ [s.sink])) e he)
    have hhead : (s.source :: (p ++ [s.sink])).head? ≠ some v := by
      simp; exact fun h => hvs h.symm
    obtain ⟨u, hu, _⟩ := walkSel_exists _ v hvL hhead
    exact ⟨u, mem_pred.2 (hW _ (walkSel_mem _ (u, v) hu)), hu⟩
  · intro v _ u _ u' _ h1 h2
    unfold walkSel at h1 h2
    have h1' := of_decide_eq_true h1
    have h2' := of_decide_eq_true h2
    simp only at h1' h2'
    rw [h1'] at h2'
    exact (Prod.mk.inj (Option.some.inj h2')).1
  · unfold walkDist
    simp
  · intro e he hsel
    have hb := walkSel_before _ e.1 e.2 hsel
    have := walkDist_lt s.g.nodes _ e.1 e.2 (hwf.closed e he).1 hb
    omega
  · intro v hv
    exact walkDist_le s.g.nodes _ v hv

end FP
