import FP.Model.PathSafetyRows
import FP.Proofs.C05Perm
/-!
# FP.Proofs.C05DagPerm — the DAG LPs are invariant under permutations of the layer indices

`permLayersD π` renames every layered column of a DAG model — `edge(u,v,i)`, `position(u,v,i)`, `pi(u,v,i)`,
`r(i,j)`, `path_length<i>`, `w<i>` — to layer `π i`. Every row family of `_encode_paths` (10a, 10c, 7a, position,
path length) is generated uniformly over `range(k)` and the rows 7b / cover rows / flow rows are sums over all
layers, hence `Sat a lp → Sat (a ∘ permLayersD π) lp` for `encodePaths`, `kcoverLP`, `kfdLP`.
(On this tree no safety row distinguishes a layer, so the invariance is not needed for the option theorems; it is
what a fixing routine — layer `i` gets the `i`-th path to fix — would rest on.)
-/
namespace FP

/-- rename the layer index of every layered column of a DAG model -/
def permLayersD (π : Nat → Nat) : Var → Var
  | .uvi p u v i => .uvi p u v (π i)
  | .vi p v i => .vi p v (π i)
  | .ij p i j => .ij p (π i) j
  | .ix p i => .ix p (π i)
  | v => v

/-- `P` renames the layer index of every layered column (including the per-layer scalars `path_length<i>`, `w<i>`) -/
structure IsLayerRenamingD (π : Nat → Nat) (P : Var → Var) : Prop where
  uvi : ∀ p u v i, P (.uvi p u v i) = .uvi p u v (π i)
  ij : ∀ p i j, P (.ij p i j) = .ij p (π i) j
  ix : ∀ p i, P (.ix p i) = .ix p (π i)

theorem permLayersD_isLayerRenaming (π : Nat → Nat) : IsLayerRenamingD π (permLayersD π) :=
  ⟨fun _ _ _ _ => rfl, fun _ _ _ => rfl, fun _ _ => rfl⟩

section Generic
variable {k : Nat}

/-- a family of rows generated per layer, closed under the renaming -/
theorem c05d_perm_rows (π : LayerPerm k) (P : Var → Var) (f : Nat → List Row)
    (hf : ∀ i, (f i).map (Row.mapVars P) = f (π.fwd i)) (a : Asg)
    (h : ∀ r ∈ (List.range k).flatMap f, r.holds a) : ∀ r ∈ (List.range k).flatMap f, r.holds (a ∘ P) := by
  intro r hr
  obtain ⟨i, hi, hri⟩ := List.mem_flatMap.1 hr
  rw [c05_row_holds_comp]
  apply h
  refine List.mem_flatMap.2 ⟨π.fwd i, List.mem_range.2 (π.fwd_lt i (List.mem_range.1 hi)), ?_⟩
  rw [← hf i]
  exact List.mem_map_of_mem hri

theorem c05d_perm_cols (π : LayerPerm k) (P : Var → Var) (f : Nat → List Col)
    (hf : ∀ i, (f i).map (Col.mapVars P) = f (π.fwd i)) (a : Asg)
    (h : ∀ c ∈ (List.range k).flatMap f, c.holds a) : ∀ c ∈ (List.range k).flatMap f, c.holds (a ∘ P) := by
  intro c hc
  obtain ⟨i, hi, hci⟩ := List.mem_flatMap.1 hc
  rw [c05_col_holds_comp]
  apply h
  refine List.mem_flatMap.2 ⟨π.fwd i, List.mem_range.2 (π.fwd_lt i (List.mem_range.1 hi)), ?_⟩
  rw [← hf i]
  exact List.mem_map_of_mem hci

/-- a row `Σ_{i<k} x(.., i) ⋈ b` under a renaming of the layers -/
theorem c05d_sumRow_perm (a : Asg) (π : LayerPerm k) (P : Var → Var) (f : Nat → Var)
    (hf : ∀ i, P (f i) = f (π.fwd i)) (r : Row)
    (hr : r.terms = ones (List.range k) f) (h : r.holds a) : r.holds (a ∘ P) := by
  rw [c05_row_holds_comp]
  apply c05_row_holds_of_eval_eq a (r.mapVars _) r rfl rfl _ h
  show evalTerms a (mapTerms _ r.terms) = evalTerms a r.terms
  rw [hr]
  have : mapTerms P (ones (List.range k) f) = ones (List.range k) (fun i => f (π.fwd i)) := by
    simp [mapTerms, ones, hf]
  rw [this, evalTerms_ones, evalTerms_ones]
  exact c05_sum_range_perm π (fun i => a (f i))

end Generic

section Enc
variable (s : STGraph) (c : PathCfg)

/-- the rows of `_encode_paths` that belong to layer `i` -/
def pathRowsAt (i : Nat) : List Row :=
  [ let ts := ones (s.g.succ s.source) (fun v => edgeVar (s.source, v) i)
    if c.allowEmpty then rowLe ts 1 else rowEq ts 1 ]
  ++ ((s.g.nodes.filter fun v => v ≠ s.source ∧ v ≠ s.sink).map fun v =>
      rowEq (ones (s.g.pred v) (fun u => edgeVar (u, v) i)
             ++ negTerms (ones (s.g.succ v) (fun w => edgeVar (v, w) i))) 0)

theorem c05d_core_rows_mem (r : Row) :
    r ∈ rows10a s c ++ rows10c s c ↔ r ∈ (List.range c.k).flatMap (pathRowsAt s c) := by
  simp only [rows10a, rows10c, pathRowsAt, List.mem_append, List.mem_map, List.mem_flatMap, List.mem_range,
    List.mem_cons, List.not_mem_nil, or_false]
  constructor
  · rintro (⟨i, hi, h⟩ | ⟨i, hi, h⟩)
    · exact ⟨i, hi, Or.inl h.symm⟩
    · exact ⟨i, hi, Or.inr h⟩
  · rintro ⟨i, hi, h | h⟩
    · exact Or.inl ⟨i, hi, h.symm⟩
    · exact Or.inr ⟨i, hi, h⟩

theorem c05d_pathRowsAt_map (π : Nat → Nat) (P : Var → Var) (hP : IsLayerRenamingD π P) (i : Nat) :
    (pathRowsAt s c i).map (Row.mapVars P) = pathRowsAt s c (π i) := by
  by_cases h : c.allowEmpty = true <;>
    simp [h, pathRowsAt, Row.mapVars, mapTerms, hP.uvi, edgeVar, ones, negTerms, rowLe, rowEq, Function.comp_def]

/-- 7a rows of layer `i` -/
def subRowsAtD (i : Nat) : List Row :=
  ((List.range c.constraints.length).zip c.constraints).map fun (j, con) =>
    match c.coverageLength with
    | none =>
      rowGe (ones con (fun e => edgeVar e i) ++ [(-((con.length : Rat) * c.coverage), rVar i j)]) 0
    | some cl =>
      let total := (con.map c.len).sum
      rowGe (con.map (fun e => (c.len e, edgeVar e i)) ++ [(-(total * cl), rVar i j)]) 0

theorem c05d_subRowsAtD_map (π : Nat → Nat) (P : Var → Var) (hP : IsLayerRenamingD π P) (i : Nat) :
    (subRowsAtD c i).map (Row.mapVars P) = subRowsAtD c (π i) := by
  cases hc : c.coverageLength <;>
    simp [subRowsAtD, hc, Row.mapVars, mapTerms, hP.uvi, hP.ij, edgeVar, rVar, ones, rowGe, Function.comp_def]

/-- **T1 for the subpath-constraint block** -/
theorem subpathBlock_perm (a : Asg) (π : LayerPerm c.k) (P : Var → Var) (hP : IsLayerRenamingD π.fwd P)
    (h : Sat a (subpathBlock c)) : Sat (a ∘ P) (subpathBlock c) := by
  by_cases hne : c.constraints.isEmpty = true
  · have : subpathBlock c = {} := by simp [subpathBlock, hne]
    rw [this]
    exact ⟨fun _ hc => by simp at hc, fun _ hr => by simp at hr⟩
  have hne' : c.constraints.isEmpty = false := by simpa using hne
  unfold subpathBlock at h ⊢
  rw [hne'] at h ⊢
  simp only [Bool.false_eq_true, if_false] at h ⊢
  constructor
  · apply c05d_perm_cols π P _ _ a h.1
    intro i
    simp [Col.mapVars, hP.ij, rVar, Function.comp_def]
  · intro r hr
    rcases List.mem_append.1 hr with hr' | hr'
    · have h7a : ∀ r ∈ (List.range c.k).flatMap (subRowsAtD c), r.holds a :=
        fun r hr => h.2 r (List.mem_append_left _ hr)
      exact c05d_perm_rows π P _ (c05d_subRowsAtD_map c π.fwd P hP) a h7a r hr'
    · obtain ⟨j, hj, rfl⟩ := List.mem_map.1 hr'
      apply c05d_sumRow_perm a π P (fun i => rVar i j) (fun i => hP.ij _ _ _) _ rfl
      exact h.2 _ (List.mem_append_right _ (List.mem_map.2 ⟨j, hj, rfl⟩))

/-- **T1 for the position / path-length block** -/
theorem positionBlock_perm (a : Asg) (π : LayerPerm c.k) (P : Var → Var) (hP : IsLayerRenamingD π.fwd P)
    (h : Sat a (positionBlock s c)) : Sat (a ∘ P) (positionBlock s c) := by
  by_cases hp : c.encodePosition = true
  · unfold positionBlock at h ⊢
    simp only [hp, Bool.not_true, Bool.false_eq_true, if_false] at h ⊢
    constructor
    · intro col hcol
      rcases List.mem_append.1 hcol with hc | hc
      · have h1 : ∀ c' ∈ (List.range c.k).flatMap (fun i => s.g.edges.map fun e =>
            ({ v := posVar e i, lb := 0, ub := some (maxLength s c), isInt := true } : Col)), c'.holds a :=
          fun c' hc' => h.1 c' (List.mem_append_left _ hc')
        exact c05d_perm_cols π P _ (fun i => by
          simp [Col.mapVars, hP.uvi, posVar, Function.comp_def]) a h1 col hc
      · have h2 : ∀ c' ∈ (List.range c.k).flatMap (fun i =>
            [({ v := lenVar i, lb := 0, ub := some (maxLength s c), isInt := true } : Col)]), c'.holds a := by
          intro c' hc'
          obtain ⟨i, hi, hci⟩ := List.mem_flatMap.1 hc'
          rw [List.mem_singleton] at hci
          exact h.1 c' (List.mem_append_right _ (List.mem_map.2 ⟨i, hi, hci.symm⟩))
        obtain ⟨i, hi, rfl⟩ := List.mem_map.1 hc
        exact c05d_perm_cols π P _ (fun i => by
          simp [Col.mapVars, hP.ix, lenVar]) a h2 _ (List.mem_flatMap.2 ⟨i, hi, List.mem_singleton.2 rfl⟩)
    · intro r hr
      rcases List.mem_append.1 hr with hc | hc
      · have h1 : ∀ r' ∈ (List.range c.k).flatMap (fun i => s.g.edges.map fun e =>
            rowEq ([(1, posVar e i)] ++ negTerms ((edgesReaching s e.1).map fun e' => (c.len e', edgeVar e' i))) 0),
            r'.holds a := fun r' hr' => h.2 r' (List.mem_append_left _ hr')
        exact c05d_perm_rows π P _ (fun i => by
          simp [Row.mapVars, mapTerms, hP.uvi, posVar, edgeVar, negTerms, rowEq, Function.comp_def]) a h1 r hc
      · have h2 : ∀ r' ∈ (List.range c.k).flatMap (fun i =>
            [rowEq ([(1, lenVar i)] ++ negTerms (s.g.edges.map fun e' => (c.len e', edgeVar e' i))) 0]),
            r'.holds a := by
          intro r' hr'
          obtain ⟨i, hi, hri⟩ := List.mem_flatMap.1 hr'
          rw [List.mem_singleton] at hri
          exact h.2 r' (List.mem_append_right _ (List.mem_map.2 ⟨i, hi, hri.symm⟩))
        obtain ⟨i, hi, rfl⟩ := List.mem_map.1 hc
        exact c05d_perm_rows π P _ (fun i => by
          simp [Row.mapVars, mapTerms, hP.uvi, hP.ix, lenVar, edgeVar, negTerms, rowEq, Function.comp_def]) a h2 _
          (List.mem_flatMap.2 ⟨i, hi, List.mem_singleton.2 rfl⟩)
  · have hp' : c.encodePosition = false := by simpa using hp
    have : positionBlock s c = {} := by simp [positionBlock, hp']
    rw [this]
    exact ⟨fun _ hc => by simp at hc, fun _ hr => by simp at hr⟩

/-- **T1 (`layer_perm_invariant`) for `_encode_paths`** -/
theorem encodePaths_perm (a : Asg) (π : LayerPerm c.k) (P : Var → Var) (hP : IsLayerRenamingD π.fwd P)
    (h : Sat a (encodePaths s c)) : Sat (a ∘ P) (encodePaths s c) := by
  have hcore := sat_append_left a _ _ (sat_append_left a _ _ h)
  have hsub := subpathBlock_perm c a π P hP (sat_append_right a _ _ (sat_append_left a _ _ h))
  have hpos := positionBlock_perm s c a π P hP (sat_append_right a _ _ h)
  have hcols : ∀ col ∈ (List.range c.k).flatMap (fun i => s.g.edges.map fun e =>
      ({ v := edgeVar e i, lb := 0, ub := some 1, isInt := true } : Col)), col.holds (a ∘ P) :=
    c05d_perm_cols π P _ (fun i => by simp [Col.mapVars, hP.uvi, edgeVar, Function.comp_def]) a hcore.1
  have hrows : ∀ r ∈ rows10a s c ++ rows10c s c, r.holds (a ∘ P) := by
    intro r hr
    have h1 : ∀ r' ∈ (List.range c.k).flatMap (pathRowsAt s c), r'.holds a :=
      fun r' hr' => hcore.2 r' ((c05d_core_rows_mem s c r').2 hr')
    exact c05d_perm_rows π P _ (c05d_pathRowsAt_map s c π.fwd P hP) a h1 r ((c05d_core_rows_mem s c r).1 hr)
  unfold encodePaths
  constructor
  · intro col hcol
    simp only [LP.append, List.mem_append] at hcol
    rcases hcol with (h | h) | h
    · exact hcols col h
    · exact hsub.1 col h
    · exact hpos.1 col h
  · intro r hr
    simp only [LP.append, List.mem_append] at hr
    rcases hr with (h | h) | h
    · exact hrows r (List.mem_append.2 h)
    · exact hsub.2 r h
    · exact hpos.2 r h

end Enc

/-- **T1 for `kPathCover`** (the class sets no objective) -/
theorem kcoverLP_perm (inp : FlowInput) (a : Asg) (π : LayerPerm inp.cfg.k) (P : Var → Var)
    (hP : IsLayerRenamingD π.fwd P) (h : Sat a (kcoverLP inp)) :
    Sat (a ∘ P) (kcoverLP inp) ∧ evalTerms (a ∘ P) (kcoverLP inp).obj = evalTerms a (kcoverLP inp).obj := by
  refine ⟨?_, rfl⟩
  unfold kcoverLP at h ⊢
  have h1 := encodePaths_perm inp.st inp.cfg a π P hP (sat_append_left a _ _ h)
  have h2 := sat_append_right a _ _ h
  refine ⟨fun col hc => (List.mem_append.1 hc).elim (h1.1 col) (fun hc' => by simp at hc'), fun r hr => ?_⟩
  rcases List.mem_append.1 hr with hr' | hr'
  · exact h1.2 r hr'
  · obtain ⟨e, he, rfl⟩ := List.mem_map.1 hr'
    apply c05d_sumRow_perm a π P (fun i => edgeVar e i) (fun i => hP.uvi _ _ _ _) _ rfl
    exact h2.2 _ (List.mem_map.2 ⟨e, he, rfl⟩)

/-- **T1 for `kFlowDecomp`** (no given weights): the weights move with their layers -/
theorem kfdLP_perm (inp : FlowInput) (a : Asg) (π : LayerPerm inp.cfg.k) (P : Var → Var)
    (hP : IsLayerRenamingD π.fwd P) (h : Sat a (kfdLP inp)) : Sat (a ∘ P) (kfdLP inp) := by
  unfold kfdLP at h ⊢
  have h1 := encodePaths_perm inp.st inp.cfg a π P hP (sat_append_left a _ _ h)
  obtain ⟨h2c, h2r⟩ := sat_append_right a _ _ h
  simp only at h2c h2r
  refine ⟨fun col hc => ?_, fun r hr => ?_⟩
  · rcases List.mem_append.1 hc with hc' | hc'
    · exact h1.1 col hc'
    · simp only at hc'
      rcases List.mem_append.1 hc' with hc'' | hc''
      · exact c05d_perm_cols π P _ (fun i => by
          simp [Col.mapVars, hP.uvi, piVar, Function.comp_def]) a
          (fun c' hc3 => h2c c' (List.mem_append_left _ hc3)) col hc''
      · have h3 : ∀ c' ∈ (List.range inp.cfg.k).flatMap (fun i =>
            [({ v := wVar i, lb := 0, ub := some inp.wmax, isInt := inp.weightInt } : Col)]), c'.holds a := by
          intro c' hc3
          obtain ⟨i, hi, hci⟩ := List.mem_flatMap.1 hc3
          rw [List.mem_singleton] at hci
          exact h2c c' (List.mem_append_right _ (List.mem_map.2 ⟨i, hi, hci.symm⟩))
        obtain ⟨i, hi, rfl⟩ := List.mem_map.1 hc''
        exact c05d_perm_cols π P _ (fun i => by simp [Col.mapVars, hP.ix, wVar]) a h3 _
          (List.mem_flatMap.2 ⟨i, hi, List.mem_singleton.2 rfl⟩)
  · rcases List.mem_append.1 hr with hr' | hr'
    · exact h1.2 r hr'
    · simp only at hr'
      rcases List.mem_append.1 hr' with hr'' | hr''
      · -- McCormick rows, edge by edge
        obtain ⟨e, he, hre⟩ := List.mem_flatMap.1 hr''
        have h4 : ∀ r' ∈ (List.range inp.cfg.k).flatMap (fun i =>
            binProd (edgeVar e i) (wVar i) (piVar e i) 0 inp.wmax), r'.holds a :=
          fun r' hr3 => h2r r' (List.mem_append_left _ (List.mem_flatMap.2 ⟨e, he, hr3⟩))
        exact c05d_perm_rows π P _ (fun i => by
          simp [binProd, Row.mapVars, mapTerms, hP.uvi, hP.ix, edgeVar, piVar, wVar, rowLe, rowGe]) a h4 r hre
      · obtain ⟨e, he, rfl⟩ := List.mem_map.1 hr''
        apply c05d_sumRow_perm a π P (fun i => piVar e i) (fun i => hP.uvi _ _ _ _) _ rfl
        exact h2r _ (List.mem_append_right _ (List.mem_map.2 ⟨e, he, rfl⟩))

end FP
