import FP.Model.Enc.MEF
import FP.Spec.ErrorFlow
import FP.Proofs.FlowLemmas
import FP.Proofs.PathCoreEnc
import FP.Proofs.WrapperPiecewise
import FP.Proofs.PathCore
/-!
# FP.Proofs.MEF — what the `MinErrorFlow` LPs say (property C16)

* `mef_sound`    — a satisfying assignment of the first-stage LP is a bounded non-negative flow on the
                   model graph, with `err ≥ |f − x|` on the non-ignored and `err = 0` on the ignored edges;
* `mef_complete` — every bounded (integral, if asked) flow extends to a satisfying assignment whose
                   objective is the total scaled absolute change (plus the sparsity term);
* `mef_opt_transfer` — an LP optimum is a cost-minimal candidate flow, `err = |f − x|` where `scale > 0`;
* `mef_eps`      — the second-stage LP keeps the flow rows and contains the `(1+ε)·opt` row.
-/
namespace FP
open FP.Spec

/-! ## sums -/

theorem sum_map_one_mul {α} (l : List α) (y : α → Rat) :
    (l.map fun e => (1 : Rat) * y e).sum = (l.map y).sum := by
  congr 1; apply List.map_congr_left; intro e _; grind

theorem sum_map_negone_mul {α} (l : List α) (y : α → Rat) :
    (l.map fun e => (-1 : Rat) * y e).sum = - (l.map y).sum := by
  induction l with
  | nil => simp
  | cons x xs ih => simp only [List.map_cons, List.sum_cons, ih]; grind

theorem sum_map_mul_left_p16 {α} (l : List α) (f : α → Rat) (k : Rat) :
    (l.map (fun i => k * f i)).sum = k * (l.map f).sum := by
  induction l with
  | nil => simp
  | cons x xs ih => simp only [List.map_cons, List.sum_cons, ih]; grind

theorem sum_map_le_p16 {α} (l : List α) (f g : α → Rat) (h : ∀ e ∈ l, f e ≤ g e) :
    (l.map f).sum ≤ (l.map g).sum := by
  induction l with
  | nil => simp
  | cons x xs ih =>
    have h1 := h x (by simp)
    have h2 := ih (fun e he => h e (by simp [he]))
    simp only [List.map_cons, List.sum_cons]; grind

/-! ## absolute value -/

theorem qabs_nonneg (q : Rat) : 0 ≤ qabs q := by unfold qabs; split <;> grind

theorem qabs_le_iff (q r : Rat) : qabs q ≤ r ↔ q ≤ r ∧ -q ≤ r := by unfold qabs; split <;> grind

theorem qabs_int (q : Rat) (h : ∃ z : Int, q = z) : ∃ z : Int, qabs q = z := by
  obtain ⟨z, rfl⟩ := h
  unfold qabs; split
  · exact ⟨z, rfl⟩
  · exact ⟨-z, by simp⟩

/-! ## `lookupD` -/

theorem lookupD_nonneg (l : List (Edge × Rat)) (e : Edge) (d : Rat) (hd : 0 ≤ d)
    (h : ∀ p ∈ l, 0 ≤ p.2) : 0 ≤ lookupD l e d := by
  unfold lookupD
  induction l with
  | nil => simpa using hd
  | cons p ps ih =>
    rw [List.lookup_cons]
    split
    · simpa using h p (by simp)
    · exact ih (fun q hq => h q (by simp [hq]))

theorem MEFInput.scale_nonneg (inp : MEFInput) (h : ∀ p ∈ inp.scaling, 0 ≤ p.2) (e : Edge) :
    0 ≤ inp.scale e :=
  lookupD_nonneg _ _ _ (by decide) h

/-! ## reading the rows and columns of `mefFlow` -/

section Read
variable (inp : MEFInput) (a : Asg) (hsat : Sat a (mefFlow inp))

include hsat in
theorem mef_col_edge (e : Edge) (he : e ∈ inp.graph.edges) :
    0 ≤ a (evVar e) ∧ a (evVar e) ≤ inp.ub ∧ (inp.weightInt = true → ∃ z : Int, a (evVar e) = z) := by
  have := hsat.1 { v := evVar e, lb := 0, ub := some inp.ub, isInt := inp.weightInt }
    (List.mem_append_left _ (List.mem_map.2 ⟨e, he, rfl⟩))
  exact ⟨this.1, this.2.1 _ rfl, this.2.2⟩

include hsat in
theorem mef_col_err (e : Edge) (he : e ∈ inp.graph.edges) :
    0 ≤ a (mefErrVar e) ∧ a (mefErrVar e) ≤ inp.ub ∧
      (inp.weightInt = true → ∃ z : Int, a (mefErrVar e) = z) := by
  have := hsat.1 { v := mefErrVar e, lb := 0, ub := some inp.ub, isInt := inp.weightInt }
    (List.mem_append_right _ (List.mem_map.2 ⟨e, he, rfl⟩))
  exact ⟨this.1, this.2.1 _ rfl, this.2.2⟩

include hsat in
theorem mef_row_cons (v : Node) (hv : v ∈ inp.graph.nodes) (hin : inp.graph.inEdges v ≠ [])
    (hout : inp.graph.outEdges v ≠ []) :
    inSum inp.graph (fun e => a (evVar e)) v = outSum inp.graph (fun e => a (evVar e)) v := by
  have hrow := hsat.2
    (rowEq ((inp.graph.inEdges v).map (fun e => ((1 : Rat), evVar e))
            ++ (inp.graph.outEdges v).map (fun e => ((-1 : Rat), evVar e))) 0)
    (List.mem_append_left _ (List.mem_map.2 ⟨v, List.mem_filter.2 ⟨hv, by
      simp [hin, hout]⟩, rfl⟩))
  have hlo := hrow.1 _ rfl
  have hhi := hrow.2 _ rfl
  simp only [rowEq, evalTerms_append, evalTerms_map, sum_map_one_mul, sum_map_negone_mul] at hlo hhi
  unfold inSum outSum
  grind

include hsat in
theorem mef_row_ignored (e : Edge) (he : e ∈ inp.graph.edges) (hi : inp.ignored e = true) :
    a (mefErrVar e) = 0 := by
  have hrow := hsat.2 (rowEq [(1, mefErrVar e)] 0)
    (List.mem_append_right _ (List.mem_flatMap.2 ⟨e, he, by simp [hi]⟩))
  have hlo := hrow.1 _ rfl
  have hhi := hrow.2 _ rfl
  simp only [rowEq, evalTerms_single] at hlo hhi
  grind

include hsat in
theorem mef_row_active (e : Edge) (he : e ∈ inp.graph.edges) (hi : inp.ignored e = false) :
    qabs (inp.f e - a (evVar e)) ≤ a (mefErrVar e) := by
  have hmem : ∀ r ∈ [ rowLe [(-1, evVar e), (-1, mefErrVar e)] (-(lookupD inp.flow e 0)),
                      rowLe [(1, evVar e), (-1, mefErrVar e)] (lookupD inp.flow e 0) ],
      r ∈ (mefFlow inp).rows := fun r hr =>
    List.mem_append_right _ (List.mem_flatMap.2 ⟨e, he, by simpa [hi] using hr⟩)
  have h1 := (hsat.2 _ (hmem (rowLe [(-1, evVar e), (-1, mefErrVar e)] (-(lookupD inp.flow e 0)))
    (by simp))).2 _ rfl
  have h2 := (hsat.2 _ (hmem (rowLe [(1, evVar e), (-1, mefErrVar e)] (lookupD inp.flow e 0))
    (by simp))).2 _ rfl
  simp only [rowLe, evalTerms, List.map_cons, List.map_nil, List.sum_cons, List.sum_nil] at h1 h2
  rw [qabs_le_iff]
  unfold MEFInput.f
  constructor <;> grind

end Read

/-- the expression minimised by stage 1 (and bounded in stage 2), evaluated -/
theorem evalTerms_mefErrorTerms (inp : MEFInput) (a : Asg) :
    evalTerms a (mefErrorTerms inp) =
      (inp.active.map fun e => inp.scale e * a (mefErrVar e)).sum
        + inp.sparsity (fun e => a (evVar e)) := by
  unfold mefErrorTerms MEFInput.sparsity MEFInput.active MEFInput.scale outSum
  simp only [evalTerms_append, evalTerms_map]
  congr 1
  split
  · rw [evalTerms_map, sum_map_mul_left_p16]
  · simp [evalTerms]

/-- **soundness of the flow rows** -/
theorem mefFlow_sound (inp : MEFInput) (a : Asg) (hsat : Sat a (mefFlow inp)) :
    inp.Candidate (fun e => a (evVar e)) ∧
    (∀ e ∈ inp.graph.edges, inp.ignored e = true → a (mefErrVar e) = 0) ∧
    (∀ e ∈ inp.graph.edges, inp.ignored e = false →
        qabs (inp.f e - a (evVar e)) ≤ a (mefErrVar e)) :=
  ⟨{ flow := ⟨fun e he => (mef_col_edge inp a hsat e he).1, fun v hv hin hout =>
        mef_row_cons inp a hsat v hv hin hout⟩,
     bounded := fun e he => (mef_col_edge inp a hsat e he).2.1,
     integral := fun hint e he => (mef_col_edge inp a hsat e he).2.2 hint },
   fun e he hi => mef_row_ignored inp a hsat e he hi,
   fun e he hi => mef_row_active inp a hsat e he hi⟩

theorem sat_stage1_iff (inp : MEFInput) (a : Asg) : Sat a (mefStage1 inp) ↔ Sat a (mefFlow inp) :=
  Iff.rfl

theorem mef_sound (inp : MEFInput) (a : Asg) (hsat : Sat a (mefStage1 inp)) :
    inp.Candidate (fun e => a (evVar e)) ∧
    (∀ e ∈ inp.graph.edges, inp.ignored e = true → a (mefErrVar e) = 0) ∧
    (∀ e ∈ inp.graph.edges, inp.ignored e = false →
        qabs (inp.f e - a (evVar e)) ≤ a (mefErrVar e)) ∧
    evalTerms a (mefStage1 inp).obj =
      (inp.active.map fun e => inp.scale e * a (mefErrVar e)).sum
        + inp.sparsity (fun e => a (evVar e)) := by
  obtain ⟨h1, h2, h3⟩ := mefFlow_sound inp a hsat
  exact ⟨h1, h2, h3, evalTerms_mefErrorTerms inp a⟩

/-! ## completeness -/

theorem rowEq_holds_p16 (a : Asg) (ts : Terms) (c : Rat) (h : evalTerms a ts = c) : (rowEq ts c).holds a := by
  constructor
  · intro l hl
    have : l = c := (Option.some.inj hl).symm
    subst this; show l ≤ evalTerms a ts; rw [h]; exact Rat.le_refl
  · intro l hl
    have : l = c := (Option.some.inj hl).symm
    subst this; show evalTerms a ts ≤ l; rw [h]; exact Rat.le_refl

theorem rowLe_holds_p16 (a : Asg) (ts : Terms) (c : Rat) (h : evalTerms a ts ≤ c) : (rowLe ts c).holds a := by
  constructor
  · intro l hl; cases hl
  · intro l hl
    have : l = c := (Option.some.inj hl).symm
    subst this; exact h

theorem rowGe_holds_p16 (a : Asg) (ts : Terms) (c : Rat) (h : c ≤ evalTerms a ts) : (rowGe ts c).holds a := by
  constructor
  · intro l hl
    have : l = c := (Option.some.inj hl).symm
    subst this; exact h
  · intro l hl; cases hl

/-- the assignment extending an edge function `x`: `err := 0` on ignored edges, `|f − x|` on the others -/
def mefAsg (inp : MEFInput) (x : Edge → Rat) : Asg := fun v =>
  match v with
  | .uv p u w =>
      if p = "edge_vars" then x (u, w)
      else if p = "edge_error_vars" then
        (if inp.ignored (u, w) then 0 else qabs (inp.f (u, w) - x (u, w)))
      else 0
  | _ => 0

theorem mefAsg_ev (inp : MEFInput) (x : Edge → Rat) (e : Edge) : mefAsg inp x (evVar e) = x e := by
  simp [mefAsg, evVar]

theorem mefAsg_err (inp : MEFInput) (x : Edge → Rat) (e : Edge) :
    mefAsg inp x (mefErrVar e) = if inp.ignored e then 0 else qabs (inp.f e - x e) := by
  have : ("edge_error_vars" : String) ≠ "edge_vars" := by decide
  simp [mefAsg, mefErrVar, this]

theorem mef_ub_facts (inp : MEFInput) (hf : ∀ e ∈ inp.graph.edges, 0 ≤ inp.f e) (e : Edge)
    (he : e ∈ inp.graph.edges) : inp.f e ≤ inp.ub ∧ 0 ≤ inp.ub := by
  have h1 : inp.f e ≤ inp.wmax :=
    le_listMax _ _ (List.mem_map.2 ⟨e, he, rfl⟩)
  have h0 := hf e he
  have hw : 0 ≤ inp.wmax := Rat.le_trans h0 h1
  have hlen : 1 ≤ inp.graph.edges.length := List.length_pos_of_mem he
  have hlen' : (1 : Rat) ≤ (inp.graph.edges.length : Rat) := by exact_mod_cast hlen
  have := Rat.mul_le_mul_of_nonneg_left hlen' hw
  unfold MEFInput.ub
  constructor <;> grind

theorem mef_sat_of_agree (inp : MEFInput) (x : Edge → Rat) (a : Asg) (hd : inp.DataOK)
    (hx : inp.Candidate x) (mefAsg_ev : ∀ e, a (evVar e) = x e)
    (mefAsg_err : ∀ e, a (mefErrVar e) = if inp.ignored e then 0 else qabs (inp.f e - x e)) :
    Sat a (mefFlow inp) := by
  constructor
  · intro c hc
    rcases List.mem_append.1 hc with h | h
    · obtain ⟨e, he, rfl⟩ := List.mem_map.1 h
      refine ⟨?_, ?_, ?_⟩
      · simp only [mefAsg_ev]; exact hx.flow.nonneg e he
      · intro u hu
        have : u = inp.ub := (Option.some.inj hu).symm
        subst this
        simp only [mefAsg_ev]; exact hx.bounded e he
      · intro hint
        simp only [mefAsg_ev]; exact hx.integral hint e he
    · obtain ⟨e, he, rfl⟩ := List.mem_map.1 h
      obtain ⟨hfub, hub0⟩ := mef_ub_facts inp hd.fNonneg e he
      have hx0 := hx.flow.nonneg e he
      have hxub := hx.bounded e he
      have hf0 := hd.fNonneg e he
      refine ⟨?_, ?_, ?_⟩
      · simp only [mefAsg_err]; split
        · exact Rat.le_refl
        · exact qabs_nonneg _
      · intro u hu
        have : u = inp.ub := (Option.some.inj hu).symm
        subst this
        simp only [mefAsg_err]; split
        · exact hub0
        · rw [qabs_le_iff]; constructor <;> grind
      · intro hint
        simp only [mefAsg_err]; split
        · exact ⟨0, by simp⟩
        · rename_i hi
          apply qabs_int
          obtain ⟨zf, hzf⟩ := hd.fInt hint e (List.mem_filter.2 ⟨he, by simpa using hi⟩)
          obtain ⟨zx, hzx⟩ := hx.integral hint e he
          exact ⟨zf - zx, by rw [hzf, hzx]; simp [Rat.intCast_sub]⟩
  · intro r hr
    rcases List.mem_append.1 hr with h | h
    · obtain ⟨v, hv, rfl⟩ := List.mem_map.1 h
      have hv' := List.mem_filter.1 hv
      have hcond : inp.graph.inEdges v ≠ [] ∧ inp.graph.outEdges v ≠ [] := by
        simpa [List.isEmpty_iff] using hv'.2
      have hc := hx.flow.cons v hv'.1 hcond.1 hcond.2
      unfold inSum outSum at hc
      have hev : evalTerms a
          ((inp.graph.inEdges v).map (fun e => ((1 : Rat), evVar e))
            ++ (inp.graph.outEdges v).map (fun e => ((-1 : Rat), evVar e))) = 0 := by
        simp only [evalTerms_append, evalTerms_map, mefAsg_ev, sum_map_one_mul, sum_map_negone_mul]
        grind
      exact rowEq_holds_p16 _ _ _ hev
    · obtain ⟨e, he, hr'⟩ := List.mem_flatMap.1 h
      by_cases hi : inp.ignored e = true
      · simp only [hi, if_true, List.mem_singleton] at hr'
        subst hr'
        have hev : evalTerms a [(1, mefErrVar e)] = 0 := by
          rw [evalTerms_single, mefAsg_err]; simp [hi]
        exact rowEq_holds_p16 _ _ _ hev
      · have hi' : inp.ignored e = false := by simpa using hi
        simp only [hi', Bool.false_eq_true, if_false, List.mem_cons, List.not_mem_nil, or_false] at hr'
        have habs : qabs (inp.f e - x e) ≤ a (mefErrVar e) := by
          rw [mefAsg_err]; simp [hi']
        rw [qabs_le_iff] at habs
        have hxe := mefAsg_ev e
        unfold MEFInput.f at habs
        rcases hr' with rfl | rfl
        · apply rowLe_holds_p16
          simp only [evalTerms, List.map_cons, List.map_nil, List.sum_cons, List.sum_nil]
          grind
        · apply rowLe_holds_p16
          simp only [evalTerms, List.map_cons, List.map_nil, List.sum_cons, List.sum_nil]
          grind

theorem mefAsg_sat (inp : MEFInput) (x : Edge → Rat) (hd : inp.DataOK) (hx : inp.Candidate x) :
    Sat (mefAsg inp x) (mefFlow inp) :=
  mef_sat_of_agree inp x _ hd hx (mefAsg_ev inp x) (mefAsg_err inp x)

theorem mef_obj_of_agree (inp : MEFInput) (x : Edge → Rat) (a : Asg) (hev : ∀ e, a (evVar e) = x e)
    (herr : ∀ e, a (mefErrVar e) = if inp.ignored e then 0 else qabs (inp.f e - x e)) :
    evalTerms a (mefErrorTerms inp) = inp.cost x := by
  rw [evalTerms_mefErrorTerms]
  unfold MEFInput.cost absErr
  have h1 : (fun e => a (evVar e)) = x := funext hev
  rw [h1]
  congr 1
  apply sum_map_congr
  intro e he
  have hi : inp.ignored e = false := by simpa using (List.mem_filter.1 he).2
  rw [herr]; simp [hi]

theorem mefAsg_obj (inp : MEFInput) (x : Edge → Rat) :
    evalTerms (mefAsg inp x) (mefErrorTerms inp) = inp.cost x :=
  mef_obj_of_agree inp x _ (mefAsg_ev inp x) (mefAsg_err inp x)

theorem mef_complete (inp : MEFInput) (x : Edge → Rat) (hd : inp.DataOK) (hx : inp.Candidate x) :
    ∃ a : Asg, Sat a (mefStage1 inp) ∧ (∀ e, a (evVar e) = x e) ∧
      (∀ e, a (mefErrVar e) = if inp.ignored e then 0 else qabs (inp.f e - x e)) ∧
      evalTerms a (mefStage1 inp).obj = inp.cost x :=
  ⟨mefAsg inp x, mefAsg_sat inp x hd hx, mefAsg_ev inp x, mefAsg_err inp x, mefAsg_obj inp x⟩

/-! ## optimality transfer -/

theorem mef_cost_le_obj (inp : MEFInput) (a : Asg) (hsc : ∀ p ∈ inp.scaling, 0 ≤ p.2)
    (hsat : Sat a (mefFlow inp)) :
    inp.cost (fun e => a (evVar e)) ≤ evalTerms a (mefErrorTerms inp) := by
  rw [evalTerms_mefErrorTerms]
  unfold MEFInput.cost absErr
  have := sum_map_le_p16 inp.active (fun e => inp.scale e * qabs (inp.f e - a (evVar e)))
    (fun e => inp.scale e * a (mefErrVar e)) (fun e he => by
      have hm := List.mem_filter.1 he
      exact Rat.mul_le_mul_of_nonneg_left
        (mef_row_active inp a hsat e hm.1 (by simpa using hm.2)) (inp.scale_nonneg hsc e))
  grind

theorem mef_opt_transfer (inp : MEFInput) (a : Asg) (hd : inp.DataOK) (hsat : Sat a (mefStage1 inp))
    (hopt : ∀ a', Sat a' (mefStage1 inp) →
      evalTerms a (mefStage1 inp).obj ≤ evalTerms a' (mefStage1 inp).obj) :
    inp.Candidate (fun e => a (evVar e)) ∧
    (∀ x', inp.Candidate x' → inp.cost (fun e => a (evVar e)) ≤ inp.cost x') ∧
    evalTerms a (mefStage1 inp).obj = inp.cost (fun e => a (evVar e)) ∧
    (∀ e ∈ inp.active, 0 < inp.scale e →
      a (mefErrVar e) = qabs (inp.f e - a (evVar e))) := by
  have hcand := (mefFlow_sound inp a hsat).1
  have hle : inp.cost (fun e => a (evVar e)) ≤ evalTerms a (mefErrorTerms inp) :=
    mef_cost_le_obj inp a hd.scaleNonneg hsat
  have hto : ∀ x', inp.Candidate x' → evalTerms a (mefErrorTerms inp) ≤ inp.cost x' := by
    intro x' hx'
    have := hopt (mefAsg inp x') (mefAsg_sat inp x' hd hx')
    have h2 := mefAsg_obj inp x'
    change evalTerms a (mefErrorTerms inp) ≤ evalTerms (mefAsg inp x') (mefErrorTerms inp) at this
    rw [h2] at this; exact this
  have heq : evalTerms a (mefErrorTerms inp) = inp.cost (fun e => a (evVar e)) :=
    Rat.le_antisymm (hto _ hcand) hle
  refine ⟨hcand, fun x' hx' => Rat.le_trans hle (hto x' hx'), heq, ?_⟩
  intro e he hpos
  -- the slack  Σ scale · (err − |f − x|)  is zero and every summand is non-negative
  have hterm : ∀ e ∈ inp.active,
      0 ≤ inp.scale e * a (mefErrVar e) - inp.scale e * qabs (inp.f e - a (evVar e)) := by
    intro e he
    have hm := List.mem_filter.1 he
    have := Rat.mul_le_mul_of_nonneg_left
      (mef_row_active inp a hsat e hm.1 (by simpa using hm.2)) (inp.scale_nonneg hd.scaleNonneg e)
    grind
  have hsum : (inp.active.map fun e =>
      inp.scale e * a (mefErrVar e) - inp.scale e * qabs (inp.f e - a (evVar e))).sum = 0 := by
    rw [sum_map_sub]
    rw [evalTerms_mefErrorTerms] at heq
    unfold MEFInput.cost absErr at heq
    grind
  have hz := all_zero_of_sum_zero _ _ hterm hsum e he
  have hfac : inp.scale e * (a (mefErrVar e) - qabs (inp.f e - a (evVar e))) = 0 := by
    grind
  rcases Rat.mul_eq_zero.1 hfac with h | h
  · rw [h] at hpos; exact absurd hpos (by decide)
  · grind

/-! ## the second stage -/

theorem MEFInput.graph_cyclic (inp : MEFInput) (h : inp.acyclic = false) : inp.graph = inp.base := by
  simp [MEFInput.graph, h]

theorem MEFInput.graph_acyclic (inp : MEFInput) (h : inp.acyclic = true) :
    inp.graph = (augment inp.base inp.starts inp.ends).g := by
  simp [MEFInput.graph, h]


theorem mef_stage2_rows (inp : MEFInput) (bound : Rat) (nvals : Nat) (a : Asg)
    (hsat : Sat a (mefStage2 inp bound nvals)) :
    Sat a (mefFlow inp) ∧ evalTerms a (mefErrorTerms inp) ≤ bound := by
  refine ⟨sat_append_left a _ _ hsat, ?_⟩
  have hB := sat_append_right a _ _ hsat
  have hrow := hB.2 (rowLe (mefErrorTerms inp) bound) (List.mem_append_right _ (by simp))
  exact hrow.2 _ rfl

theorem mef_eps (inp : MEFInput) (bound : Rat) (nvals : Nat) (a : Asg)
    (hsc : ∀ p ∈ inp.scaling, 0 ≤ p.2) (hsat : Sat a (mefStage2 inp bound nvals)) :
    inp.Candidate (fun e => a (evVar e)) ∧
    evalTerms a (mefStage1 inp).obj ≤ bound ∧
    inp.cost (fun e => a (evVar e)) ≤ bound := by
  obtain ⟨hflow, hb⟩ := mef_stage2_rows inp bound nvals a hsat
  exact ⟨(mefFlow_sound inp a hflow).1, hb, Rat.le_trans (mef_cost_le_obj inp a hsc hflow) hb⟩

/-- a satisfying assignment of the second stage uses, on the edges of the input graph, only the
`nvals` values `all_flow_values_vars[i]` -/
theorem mef_stage2_values (inp : MEFInput) (bound : Rat) (nvals : Nat) (a : Asg)
    (hsat : Sat a (mefStage2 inp bound nvals)) :
    ∀ e ∈ inp.base.edges, ∃ i, i < nvals ∧ a (evVar e) = a (afvVar i) := by
  intro e he
  have hB := sat_append_right a _ _ hsat
  have hrowmem : ∀ r, r ∈ ([rowEq ((List.range nvals).map fun i => ((1 : Rat), mapVar e i)) 1]
        ++ (List.range nvals).flatMap fun i =>
          [ rowLe [(1, evVar e), (-1, afvVar i), (inp.ub, mapVar e i)] inp.ub,
            rowGe [(1, evVar e), (-1, afvVar i), (-inp.ub, mapVar e i)] (-inp.ub),
            rowGe [(1, indVar i), (-1, mapVar e i)] 0 ]) → r.holds a := fun r hr =>
    hB.2 r (List.mem_append_left _ (List.mem_flatMap.2 ⟨e, he, hr⟩))
  have hsum := hrowmem _ (List.mem_append_left _ (List.mem_singleton.2 rfl))
  have hs1 : ((List.range nvals).map fun i => a (mapVar e i)).sum = 1 := by
    have hlo := hsum.1 _ rfl
    have hhi := hsum.2 _ rfl
    simp only [rowEq, evalTerms_map, sum_map_one_mul] at hlo hhi
    exact Rat.le_antisymm hhi hlo
  obtain ⟨i, hi, hne⟩ := exists_ne_zero_of_sum_ne_zero (List.range nvals) (fun i => a (mapVar e i))
    (by rw [hs1]; decide)
  have hi' := List.mem_range.1 hi
  have hcol := hB.1 { v := mapVar e i, lb := 0, ub := some 1, isInt := true }
    (List.mem_append_right _ (List.mem_flatMap.2 ⟨e, he, List.mem_map.2 ⟨i, hi, rfl⟩⟩))
  have h01 := int01 _ hcol.1 (hcol.2.1 _ rfl) (hcol.2.2 rfl)
  have hone : a (mapVar e i) = 1 := by
    rcases h01 with h | h
    · exact absurd h hne
    · exact h
  have hr1 := hrowmem (rowLe [(1, evVar e), (-1, afvVar i), (inp.ub, mapVar e i)] inp.ub)
    (List.mem_append_right _ (List.mem_flatMap.2 ⟨i, hi, by simp⟩))
  have hr2 := hrowmem (rowGe [(1, evVar e), (-1, afvVar i), (-inp.ub, mapVar e i)] (-inp.ub))
    (List.mem_append_right _ (List.mem_flatMap.2 ⟨i, hi, by simp⟩))
  have h1 := hr1.2 _ rfl
  have h2 := hr2.1 _ rfl
  simp only [rowLe, rowGe, evalTerms, List.map_cons, List.map_nil, List.sum_cons, List.sum_nil,
    hone] at h1 h2
  exact ⟨i, hi', by grind⟩

/-! ### the second stage is satisfiable when there are enough value slots -/

/-- index of the first slot holding the value `q` -/
def pickSlot (nvals : Nat) (vals : Nat → Rat) (q : Rat) : Nat :=
  ((List.range nvals).find? (fun i => vals i == q)).getD 0

theorem pickSlot_spec (nvals : Nat) (vals : Nat → Rat) (q : Rat)
    (h : ∃ i, i < nvals ∧ q = vals i) :
    pickSlot nvals vals q < nvals ∧ vals (pickSlot nvals vals q) = q := by
  unfold pickSlot
  cases hf : (List.range nvals).find? (fun i => vals i == q) with
  | none =>
    obtain ⟨i, hi, hq⟩ := h
    have := List.find?_eq_none.1 hf i (List.mem_range.2 hi)
    simp [hq] at this
  | some j =>
    have h1 := List.mem_of_find?_eq_some hf
    have h2 := List.find?_some hf
    exact ⟨List.mem_range.1 h1, by simpa using h2⟩

/-- stage-2 assignment: slot `i` holds `vals i`, every indicator is 1, edge `e` is mapped to the first
slot holding its value; edge and error variables as in `mefAsg` -/
def mefAsg2 (inp : MEFInput) (x : Edge → Rat) (nvals : Nat) (vals : Nat → Rat) : Asg := fun v =>
  match v with
  | .ix p i =>
      if p = "all_flow_values_vars" then vals i
      else if p = "all_flow_values_used_indicator_vars" then 1 else 0
  | .uvi p u w i =>
      if p = "flow_values_map_vars" then (if pickSlot nvals vals (x (u, w)) = i then 1 else 0) else 0
  | v => mefAsg inp x v

theorem MEFInput.base_sub_graph (inp : MEFInput)
    (hcl : ∀ e ∈ inp.base.edges, e.1 ∈ inp.base.nodes ∧ e.2 ∈ inp.base.nodes) :
    ∀ e ∈ inp.base.edges, e ∈ inp.graph.edges := by
  intro e he
  cases hac : inp.acyclic with
  | false => rw [inp.graph_cyclic hac]; exact he
  | true => rw [inp.graph_acyclic hac]; exact (aug_mem_edges hcl).2 (Or.inl he)

theorem mef_stage2_complete (inp : MEFInput) (bound : Rat) (nvals : Nat) (x : Edge → Rat)
    (vals : Nat → Rat) (hd : inp.DataOK) (hx : inp.Candidate x) (hcost : inp.cost x ≤ bound)
    (hcl : ∀ e ∈ inp.base.edges, e.1 ∈ inp.base.nodes ∧ e.2 ∈ inp.base.nodes)
    (hvals : ∀ i, i < nvals → 0 ≤ vals i ∧ vals i ≤ inp.ub ∧
      (inp.weightInt = true → ∃ z : Int, vals i = z))
    (hcover : ∀ e ∈ inp.base.edges, ∃ i, i < nvals ∧ x e = vals i) :
    ∃ a : Asg, Sat a (mefStage2 inp bound nvals) ∧ ∀ e, a (evVar e) = x e := by
  let a := mefAsg2 inp x nvals vals
  have hev : ∀ e, a (evVar e) = x e := fun e => by
    show mefAsg inp x (evVar e) = x e
    exact mefAsg_ev inp x e
  have herr : ∀ e, a (mefErrVar e) = if inp.ignored e then 0 else qabs (inp.f e - x e) := fun e => by
    show mefAsg inp x (mefErrVar e) = _
    exact mefAsg_err inp x e
  have hafv : ∀ i, a (afvVar i) = vals i := fun i => by simp [a, mefAsg2, afvVar]
  have hind : ∀ i, a (indVar i) = 1 := fun i => by
    have : ("all_flow_values_used_indicator_vars" : String) ≠ "all_flow_values_vars" := by decide
    simp [a, mefAsg2, indVar, this]
  have hmap : ∀ e i, a (mapVar e i) = if pickSlot nvals vals (x e) = i then 1 else 0 := fun e i => by
    simp [a, mefAsg2, mapVar]
  have hflow : Sat a (mefFlow inp) := mef_sat_of_agree inp x a hd hx hev herr
  have hsub := inp.base_sub_graph hcl
  refine ⟨a, ⟨?_, ?_⟩, hev⟩
  · intro c hc
    rcases List.mem_append.1 hc with h | h
    · exact hflow.1 c h
    · rcases List.mem_append.1 h with h | h
      · rcases List.mem_append.1 h with h | h
        · obtain ⟨i, hi, rfl⟩ := List.mem_map.1 h
          have hv := hvals i (List.mem_range.1 hi)
          refine ⟨by simp only [hafv]; exact hv.1, fun u hu => ?_, fun hint => by
            simp only [hafv]; exact hv.2.2 hint⟩
          have : u = inp.ub := (Option.some.inj hu).symm
          subst this; simp only [hafv]; exact hv.2.1
        · obtain ⟨i, hi, rfl⟩ := List.mem_map.1 h
          refine ⟨by simp only [hind]; decide, fun u hu => ?_, fun _ => ⟨1, by simp only [hind]; simp⟩⟩
          have : u = 1 := (Option.some.inj hu).symm
          subst this; simp only [hind]; exact Rat.le_refl
      · obtain ⟨e, he, h'⟩ := List.mem_flatMap.1 h
        obtain ⟨i, hi, rfl⟩ := List.mem_map.1 h'
        refine ⟨?_, fun u hu => ?_, fun _ => ?_⟩
        · simp only [hmap]; split <;> decide
        · have : u = 1 := (Option.some.inj hu).symm
          subst this; simp only [hmap]; split <;> decide
        · simp only [hmap]; split
          · exact ⟨1, by simp⟩
          · exact ⟨0, by simp⟩
  · intro r hr
    rcases List.mem_append.1 hr with h | h
    · exact hflow.2 r h
    · rcases List.mem_append.1 h with h | h
      · obtain ⟨e, he, h'⟩ := List.mem_flatMap.1 h
        have heg := hsub e he
        have hx0 := hx.flow.nonneg e heg
        have hxub := hx.bounded e heg
        obtain ⟨hplt, hpv⟩ := pickSlot_spec nvals vals (x e) (hcover e he)
        rcases List.mem_append.1 h' with h' | h'
        · have : r = rowEq ((List.range nvals).map fun i => ((1 : Rat), mapVar e i)) 1 := by
            simpa using h'
          subst this
          apply rowEq_holds_p16
          rw [evalTerms_map]
          simp only [hmap, sum_map_one_mul]
          exact sum_single_mem (List.range nvals) List.nodup_range _ (List.mem_range.2 hplt)
        · obtain ⟨i, hi, h''⟩ := List.mem_flatMap.1 h'
          have hv := hvals i (List.mem_range.1 hi)
          simp only [List.mem_cons, List.not_mem_nil, or_false] at h''
          rcases h'' with rfl | rfl | rfl
          · apply rowLe_holds_p16
            simp only [evalTerms, List.map_cons, List.map_nil, List.sum_cons, List.sum_nil, hev, hafv,
              hmap]
            split
            · rename_i hp; rw [← hp, hpv]; grind
            · grind
          · apply rowGe_holds_p16
            simp only [evalTerms, List.map_cons, List.map_nil, List.sum_cons, List.sum_nil, hev, hafv,
              hmap]
            split
            · rename_i hp; rw [← hp, hpv]; grind
            · grind
          · apply rowGe_holds_p16
            simp only [evalTerms, List.map_cons, List.map_nil, List.sum_cons, List.sum_nil, hind, hmap]
            split <;> grind
      · have : r = rowLe (mefErrorTerms inp) bound := by simpa using h
        subst this
        apply rowLe_holds_p16
        rw [mef_obj_of_agree inp x a hev herr]
        exact hcost

/-! ## from the model graph back to the user's graph -/

theorem sum_perm {α} (f : α → Rat) {l1 l2 : List α} (h : l1.Perm l2) :
    (l1.map f).sum = (l2.map f).sum := by
  induction h with
  | nil => rfl
  | cons x _ ih => simp only [List.map_cons, List.sum_cons, ih]
  | swap x y l => simp only [List.map_cons, List.sum_cons]; grind
  | trans _ _ ih1 ih2 => exact ih1.trans ih2

section User
variable {b : Graph} {st en : List Node} (hwf : BaseWF b)

include hwf in
theorem aug_inEdges_perm (v : Node) (hv : v ∈ b.nodes) :
    ((augment b st en).g.inEdges v).Perm
      (b.inEdges v ++ (if isStart b st v then [(srcName, v)] else [])) := by
  have hsv : (srcName, v) ∉ b.edges := fun h => hwf.freshSrc (hwf.closed _ h).1
  have hvs : v ≠ snkName := fun h => hwf.freshSnk (h ▸ hv)
  apply (List.perm_ext_iff_of_nodup ?_ ?_).2
  · intro e
    unfold Graph.inEdges
    rw [List.mem_filter, aug_mem_edges' hwf.closed, List.mem_append, List.mem_filter]
    constructor
    · rintro ⟨h | ⟨h1, _, h3⟩ | ⟨h1, _, _⟩, h2⟩
      · exact Or.inl ⟨h, h2⟩
      · right
        have hev : e.2 = v := by simpa using h2
        have hst : isStart b st v = true := isStart_iff.2 (hev ▸ h3)
        have : e = (srcName, v) := Prod.ext h1 hev
        simp [hst, this]
      · have hev : e.2 = v := by simpa using h2
        exact absurd (hev.symm.trans h1) hvs
    · rintro (⟨h, h2⟩ | h)
      · exact ⟨Or.inl h, h2⟩
      · split at h
        · rename_i hst
          have : e = (srcName, v) := by simpa using h
          subst this
          exact ⟨Or.inr (Or.inl ⟨rfl, hv, isStart_iff.1 hst⟩), by simp⟩
        · simp at h
  · exact List.Pairwise.filter _
      (aug_edges_nodup hwf.closed hwf.freshSrc hwf.freshSnk hwf.nodesNodup hwf.edgesNodup)
  · apply List.nodup_append.2
    refine ⟨List.Pairwise.filter _ hwf.edgesNodup, by split <;> simp, ?_⟩
    intro x hx y hy hxy
    subst hxy
    split at hy
    · have : x = (srcName, v) := by simpa using hy
      subst this
      exact hsv (List.mem_filter.1 hx).1
    · simp at hy

include hwf in
theorem aug_outEdges_perm (v : Node) (hv : v ∈ b.nodes) :
    ((augment b st en).g.outEdges v).Perm
      (b.outEdges v ++ (if isEnd b en v then [(v, snkName)] else [])) := by
  have hsv : (v, snkName) ∉ b.edges := fun h => hwf.freshSnk (hwf.closed _ h).2
  have hvs : v ≠ srcName := fun h => hwf.freshSrc (h ▸ hv)
  apply (List.perm_ext_iff_of_nodup ?_ ?_).2
  · intro e
    unfold Graph.outEdges
    rw [List.mem_filter, aug_mem_edges' hwf.closed, List.mem_append, List.mem_filter]
    constructor
    · rintro ⟨h | ⟨h1, _, _⟩ | ⟨h1, _, h3⟩, h2'⟩
      · exact Or.inl ⟨h, h2'⟩
      · have hev : e.1 = v := by simpa using h2'
        exact absurd (hev.symm.trans h1) hvs
      · right
        have hev : e.1 = v := by simpa using h2'
        have hst : isEnd b en v = true := isEnd_iff.2 (hev ▸ h3)
        have : e = (v, snkName) := Prod.ext hev h1
        simp [hst, this]
    · rintro (⟨h, h2⟩ | h)
      · exact ⟨Or.inl h, h2⟩
      · split at h
        · rename_i hst
          have : e = (v, snkName) := by simpa using h
          subst this
          exact ⟨Or.inr (Or.inr ⟨rfl, hv, isEnd_iff.1 hst⟩), by simp⟩
        · simp at h
  · exact List.Pairwise.filter _
      (aug_edges_nodup hwf.closed hwf.freshSrc hwf.freshSnk hwf.nodesNodup hwf.edgesNodup)
  · apply List.nodup_append.2
    refine ⟨List.Pairwise.filter _ hwf.edgesNodup, by split <;> simp, ?_⟩
    intro x hx y hy hxy
    subst hxy
    split at hy
    · have : x = (v, snkName) := by simpa using hy
      subst this
      exact hsv (List.mem_filter.1 hx).1
    · simp at hy

include hwf in
theorem aug_inSum (x : Edge → Rat) (v : Node) (hv : v ∈ b.nodes) :
    inSum (augment b st en).g x v
      = inSum b x v + (if isStart b st v then x (srcName, v) else 0) := by
  unfold inSum
  rw [sum_perm x (aug_inEdges_perm (st := st) (en := en) hwf v hv), List.map_append, List.sum_append]
  split <;> simp <;> grind

include hwf in
theorem aug_outSum (x : Edge → Rat) (v : Node) (hv : v ∈ b.nodes) :
    outSum (augment b st en).g x v
      = outSum b x v + (if isEnd b en v then x (v, snkName) else 0) := by
  unfold outSum
  rw [sum_perm x (aug_outEdges_perm (st := st) (en := en) hwf v hv), List.map_append, List.sum_append]
  split <;> simp <;> grind

end User

theorem pred_nil_iff (g : Graph) (v : Node) : g.pred v = [] ↔ g.inEdges v = [] := by
  unfold Graph.pred Graph.inEdges; simp
theorem succ_nil_iff (g : Graph) (v : Node) : g.succ v = [] ↔ g.outEdges v = [] := by
  unfold Graph.succ Graph.outEdges; simp

/-- **the user-level reading for acyclic input.** On the s-t augmentation every base node is conserved
once the two synthetic edges are counted; hence on the user's own edges: equality at every node with
in- and out-edges that is neither an additional start nor an additional end, `in ≤ out` wherever the
node is not an (implicit or declared) end, `out ≤ in` wherever it is not an (implicit or declared) start. -/
theorem mef_user_acyclic (inp : MEFInput) (x : Edge → Rat) (hwf : BaseWF inp.base)
    (hac : inp.acyclic = true) (hx : IsFlow inp.graph x) :
    (∀ e ∈ inp.base.edges, 0 ≤ x e) ∧
    (∀ v ∈ inp.base.nodes,
      inSum inp.base x v + (if isStart inp.base inp.starts v then x (srcName, v) else 0)
        = outSum inp.base x v + (if isEnd inp.base inp.ends v then x (v, snkName) else 0)) ∧
    (∀ v ∈ inp.base.nodes, inp.base.inEdges v ≠ [] → inp.base.outEdges v ≠ [] →
      v ∉ inp.starts → v ∉ inp.ends → inSum inp.base x v = outSum inp.base x v) ∧
    (∀ v ∈ inp.base.nodes, inp.base.outEdges v ≠ [] → v ∉ inp.ends →
      inSum inp.base x v ≤ outSum inp.base x v) ∧
    (∀ v ∈ inp.base.nodes, inp.base.inEdges v ≠ [] → v ∉ inp.starts →
      outSum inp.base x v ≤ inSum inp.base x v) := by
  rw [inp.graph_acyclic hac] at hx
  have hedge := fun e => aug_mem_edges (st := inp.starts) (en := inp.ends) hwf.closed (e := e)
  have hnn : ∀ e ∈ inp.base.edges, 0 ≤ x e := fun e he => hx.nonneg e ((hedge e).2 (Or.inl he))
  have hmain : ∀ v ∈ inp.base.nodes,
      inSum inp.base x v + (if isStart inp.base inp.starts v then x (srcName, v) else 0)
        = outSum inp.base x v + (if isEnd inp.base inp.ends v then x (v, snkName) else 0) := by
    intro v hv
    have hvA : v ∈ (augment inp.base inp.starts inp.ends).g.nodes := aug_mem_nodes.2 (Or.inl hv)
    have hinner := aug_inner (st := inp.starts) (en := inp.ends) hwf.closed v hvA
      (fun h => hwf.freshSrc (h ▸ hv)) (fun h => hwf.freshSnk (h ▸ hv))
    have hc := hx.cons v hvA (fun h => hinner.1 ((pred_nil_iff _ _).2 h))
      (fun h => hinner.2 ((succ_nil_iff _ _).2 h))
    rw [aug_inSum hwf x v hv, aug_outSum hwf x v hv] at hc
    exact hc
  have hs0 : ∀ v ∈ inp.base.nodes,
      0 ≤ (if isStart inp.base inp.starts v then x (srcName, v) else 0) := by
    intro v hv
    split
    · rename_i h
      exact hx.nonneg _ ((hedge _).2 (Or.inr (Or.inr (mem_srcEdges.2 ⟨rfl, hv, isStart_iff.1 h⟩))))
    · exact Rat.le_refl
  have ht0 : ∀ v ∈ inp.base.nodes,
      0 ≤ (if isEnd inp.base inp.ends v then x (v, snkName) else 0) := by
    intro v hv
    split
    · rename_i h
      exact hx.nonneg _ ((hedge _).2 (Or.inr (Or.inl (mem_snkEdges.2 ⟨rfl, hv, isEnd_iff.1 h⟩))))
    · exact Rat.le_refl
  have hnotStart : ∀ v, inp.base.inEdges v ≠ [] → v ∉ inp.starts →
      isStart inp.base inp.starts v = false := by
    intro v h1 h2
    cases h : isStart inp.base inp.starts v with
    | false => rfl
    | true =>
      rcases isStart_iff.1 h with h' | h'
      · exact absurd ((pred_nil_iff _ _).1 h') h1
      · exact absurd h' h2
  have hnotEnd : ∀ v, inp.base.outEdges v ≠ [] → v ∉ inp.ends →
      isEnd inp.base inp.ends v = false := by
    intro v h1 h2
    cases h : isEnd inp.base inp.ends v with
    | false => rfl
    | true =>
      rcases isEnd_iff.1 h with h' | h'
      · exact absurd ((succ_nil_iff _ _).1 h') h1
      · exact absurd h' h2
  refine ⟨hnn, hmain, ?_, ?_, ?_⟩
  · intro v hv hin hout hs he
    have := hmain v hv
    rw [hnotStart v hin hs, hnotEnd v hout he] at this
    simp only [Bool.false_eq_true, if_false] at this
    grind
  · intro v hv hout he
    have := hmain v hv
    have h0 := hs0 v hv
    rw [hnotEnd v hout he] at this
    grind
  · intro v hv hin hs
    have := hmain v hv
    have h0 := ht0 v hv
    rw [hnotStart v hin hs] at this
    grind

/-- **the user-level reading for input with cycles**: the model graph is the input graph itself;
`additional_starts` / `additional_ends` play no role (they are dropped by the constructor). -/
theorem mef_user_cyclic (inp : MEFInput) (x : Edge → Rat) (hac : inp.acyclic = false)
    (hx : IsFlow inp.graph x) : IsFlow inp.base x := by
  rw [inp.graph_cyclic hac] at hx; exact hx

end FP
