import FP.Proofs.KLAECAsg
import FP.Proofs.WalkWitness
import FP.Proofs.KFDCWalks
/-!
# FP.Proofs.KLAECComplete — restricted completeness of the `kLeastAbsErrorsCycles` LP and optimum transfer

`klaecAsg` turns multiplicities `m i e`, weights `w i`, error values `ee e` and connectivity witnesses
into an assignment of *all* columns of `klaecLP`. It satisfies the LP (`klaec_complete_mult`) provided

* every layer has layer witnesses within the repetition caps (`LayerWitness … (klaecCap inp)`),
* weights lie in `[0, w_max]` (integral for `weight_type = int`),
* every multiplicity on a non-ignored edge fits into the `⌈log2(w_max+1)⌉` bits of its product block,
* **every product `w_i · m_i(e)` on a non-ignored edge is at most `w_max`** (the bound of the `pi` column),
* **every error `|f(e) − Σ_i w_i m_i(e)|` is at most `w_max`** (the bound of the `ee` column).

The last two are what the findings C07-laecycles-wmax-cuts-optimum is about: solutions that need a
product or an error above `w_max = k·max f` are not represented. `klaec_complete_within_caps_proof` is
the same for walks (`LaecWithinCaps`), `klaec_opt_within_caps_proof` the optimum transfer: an optimum of
the LP is optimal among all such families, and (no empty walks, no subset constraints) its decoded
family is one of them with tight error columns.
-/
namespace FP
open FP.Spec

/-! ## the assignment -/

/-- the product blocks of the LP: one per non-ignored edge and layer -/
def klaecProds (inp : WalkInput) : List (Edge × Nat) :=
  (inp.activeEdges true).flatMap fun e => (List.range inp.k).map fun i => (e, i)

theorem mem_klaecProds {inp : WalkInput} {e : Edge} {i : Nat} :
    (e, i) ∈ klaecProds inp ↔ e ∈ inp.activeEdges true ∧ i < inp.k := by
  unfold klaecProds
  constructor
  · intro h
    obtain ⟨e', he', h⟩ := List.mem_flatMap.1 h
    obtain ⟨i', hi', heq⟩ := List.mem_map.1 h
    cases heq
    exact ⟨he', List.mem_range.1 hi'⟩
  · rintro ⟨he, hi⟩
    exact List.mem_flatMap.2 ⟨e, he, List.mem_map.2 ⟨i, List.mem_range.2 hi, rfl⟩⟩

/-- the names of the product blocks are pairwise different (the model identifies a column with its
HiGHS name; in the Python code the blocks own their variables whatever the names are) -/
def KlaecNameInj (inp : WalkInput) : Prop :=
  ∀ p ∈ klaecProds inp, ∀ q ∈ klaecProds inp, klaecProdName p.1 p.2 = klaecProdName q.1 q.2 → p = q

/-- all columns of `klaecLP` -/
def klaecAsg (inp : WalkInput) (m : Nat → Edge → Nat) (w : Nat → Rat) (ee : Edge → Rat)
    (sel : Nat → Edge → Bool) (dist : Nat → Node → Nat) : Asg :=
  klaecProdAsg (klaecProds inp) (fun p => klaecProdName p.1 p.2) (fun p => m p.2 p.1) (fun p => w p.2)
    (klaecBaseAsg inp m w (fun _ => 0) ee sel dist)

/-- the assignment of a family of weighted walks (inner vertex sequences), error columns tight -/
def klaecWalkAsg (inp : WalkInput) (walk : Nat → List Node) (w : Nat → Rat) : Asg :=
  klaecAsg inp (multsOf inp.st.source inp.st.sink walk) w (LAEC.absErr inp walk w)
    (fun i => walkSel (inp.st.source :: walk i ++ [inp.st.sink]))
    (fun i => walkDist inp.st.g.nodes (inp.st.source :: walk i ++ [inp.st.sink]))

section Asg
variable (inp : WalkInput) (m : Nat → Edge → Nat) (w : Nat → Rat) (ee : Edge → Rat)
  (sel : Nat → Edge → Bool) (dist : Nat → Node → Nat)

theorem klaecAsg_edge (e : Edge) (i : Nat) : klaecAsg inp m w ee sel dist (edgeVar e i) = (m i e : Rat) :=
  klaecBaseAsg_edge inp m w (fun _ => 0) ee sel dist e i

theorem klaecAsg_sel (e : Edge) (i : Nat) :
    klaecAsg inp m w ee sel dist (selVar e i) = if sel i e then 1 else 0 :=
  klaecBaseAsg_sel inp m w (fun _ => 0) ee sel dist e i

theorem klaecAsg_used (e : Edge) (i : Nat) :
    klaecAsg inp m w ee sel dist (usedVar e i) = if m i e = 0 then 0 else 1 :=
  klaecBaseAsg_used inp m w (fun _ => 0) ee sel dist e i

theorem klaecAsg_pi (e : Edge) (i : Nat) :
    klaecAsg inp m w ee sel dist (piVar e i)
      = if e ∈ inp.activeEdges true then w i * (m i e : Rat) else 0 :=
  klaecBaseAsg_pi inp m w (fun _ => 0) ee sel dist e i

theorem klaecAsg_ee (e : Edge) : klaecAsg inp m w ee sel dist (eeVar e) = ee e :=
  klaecBaseAsg_ee inp m w (fun _ => 0) ee sel dist e

theorem klaecAsg_dist (v : Node) (i : Nat) : klaecAsg inp m w ee sel dist (distVar v i) = (dist i v : Rat) :=
  klaecBaseAsg_dist inp m w (fun _ => 0) ee sel dist v i

theorem klaecAsg_r (i j : Nat) :
    klaecAsg inp m w ee sel dist (rVar i j)
      = if coversB (m i) (inp.cfg.constraints.getD j []) inp.cfg.coverage then 1 else 0 :=
  klaecBaseAsg_r inp m w (fun _ => 0) ee sel dist i j

theorem klaecAsg_weights (i : Nat) : klaecAsg inp m w ee sel dist (weightsVar i) = w i :=
  (klaecProdAsg_ix_other _ _ _ _ _ "weights" i binary_ne_weights comp_ne_weights).trans
    (klaecBaseAsg_weights inp m w (fun _ => 0) ee sel dist i)

theorem klaecAsg_bit (hinj : KlaecNameInj inp) (e : Edge) (i : Nat) (he : (e, i) ∈ klaecProds inp)
    (j : Nat) : klaecAsg inp m w ee sel dist (bitVar (klaecProdName e i) j) = bitOf (m i e) j :=
  klaecProdAsg_bit (klaecProds inp) (fun p => klaecProdName p.1 p.2) (fun p => m p.2 p.1)
    (fun p => w p.2) _ hinj (e, i) he j

theorem klaecAsg_comp (hinj : KlaecNameInj inp) (e : Edge) (i : Nat) (he : (e, i) ∈ klaecProds inp)
    (j : Nat) : klaecAsg inp m w ee sel dist (compVar (klaecProdName e i) j) = bitOf (m i e) j * w i :=
  klaecProdAsg_comp (klaecProds inp) (fun p => klaecProdName p.1 p.2) (fun p => m p.2 p.1)
    (fun p => w p.2) _ hinj (e, i) he j

end Asg

/-! ## the error block -/

theorem klaecErr_sat (inp : WalkInput) (a : Asg) (m : Nat → Edge → Nat) (w : Nat → Rat) (ee : Edge → Rat)
    (hx : ∀ i e, a (edgeVar e i) = (m i e : Rat))
    (hwv : ∀ i, a (weightsVar i) = w i)
    (hpi : ∀ i e, a (piVar e i) = if e ∈ inp.activeEdges true then w i * (m i e : Rat) else 0)
    (hev : ∀ e, a (eeVar e) = ee e)
    (hbit : ∀ i, i < inp.k → ∀ e ∈ inp.activeEdges true, ∀ j,
      a (bitVar (klaecProdName e i) j) = bitOf (m i e) j)
    (hcomp : ∀ i, i < inp.k → ∀ e ∈ inp.activeEdges true, ∀ j,
      a (compVar (klaecProdName e i) j) = bitOf (m i e) j * w i)
    (hw : ∀ i, i < inp.k → 0 ≤ w i ∧ w i ≤ inp.wmax true ∧ (inp.weightInt = true → IsInt (w i)))
    (hmb : ∀ i, i < inp.k → ∀ e ∈ inp.activeEdges true, m i e < 2 ^ klaecBits inp)
    (hprod : ∀ i, i < inp.k → ∀ e ∈ inp.activeEdges true, w i * (m i e : Rat) ≤ inp.wmax true)
    (hee : ∀ e ∈ inp.activeEdges true, (inp.f e - explainedM inp.k m w e).abs ≤ ee e ∧
      ee e ≤ inp.wmax true ∧ (inp.weightInt = true → IsInt (ee e))) :
    Sat a (klaecErr inp) := by
  have hprodS : ∀ e ∈ inp.activeEdges true, ∀ i, i < inp.k →
      Sat a (intProdQ (edgeVar e i) (weightsVar i) (piVar e i) 0 (inp.wmax true) (klaecProdName e i)) := by
    intro e he i hi
    apply klaec_intProdQ_sat_of_bits a _ _ _ _ _ (m i e) (hx i e) (hmb i hi e he)
    · rw [hwv i]; exact ⟨(hw i hi).1, (hw i hi).2.1⟩
    · rw [hpi i e, if_pos he, hx i e, hwv i]; grind
    · exact hbit i hi e he
    · intro j; rw [hcomp i hi e he j, hwv i]
  have hP := (klaec_sat_walkProducts_iff a _ _ _ _ _ _).2 hprodS
  constructor
  · intro col hcol
    simp only [klaecErr, List.mem_append] at hcol
    rcases hcol with ((h | h) | h) | h
    · -- pi columns
      obtain ⟨i, hi, h⟩ := List.mem_flatMap.1 h
      obtain ⟨e, he, rfl⟩ := List.mem_map.1 h
      have hi' := List.mem_range.1 hi
      simp only [Col.holds, hpi i e]
      by_cases hact : e ∈ inp.activeEdges true
      · simp only [hact, if_true]
        refine ⟨Rat.mul_nonneg (hw i hi').1 Rat.natCast_nonneg, ?_, ?_⟩
        · intro u hu; cases hu
          exact hprod i hi' e hact
        · intro hint
          exact isInt_mul ((hw i hi').2.2 hint) (isInt_natCast _)
      · simp only [hact, if_false]
        exact ⟨Rat.le_refl, fun u hu => by cases hu; exact Rat.le_trans (hw i hi').1 (hw i hi').2.1,
          fun _ => ⟨0, by simp⟩⟩
    · -- weight columns
      obtain ⟨i, hi, rfl⟩ := List.mem_map.1 h
      have hi' := List.mem_range.1 hi
      simp only [Col.holds, hwv i]
      exact ⟨(hw i hi').1, fun u hu => by cases hu; exact (hw i hi').2.1, (hw i hi').2.2⟩
    · -- error columns
      obtain ⟨e, he, rfl⟩ := List.mem_map.1 h
      simp only [Col.holds, hev e]
      obtain ⟨h1, h2, h3⟩ := hee e he
      exact ⟨Rat.le_trans (abs_nonneg _) h1, fun u hu => by cases hu; exact h2, h3⟩
    · exact hP.1 col h
  · intro r hr
    simp only [klaecErr, List.mem_append] at hr
    rcases hr with h | h
    · exact hP.2 r h
    · obtain ⟨e, he, h⟩ := List.mem_flatMap.1 h
      have hsum : ((List.range inp.k).map fun i => a (piVar e i)).sum = explainedM inp.k m w e := by
        unfold explainedM
        apply sum_map_congr
        intro i _
        rw [hpi i e, if_pos he]
      obtain ⟨h1, _, _⟩ := hee e he
      have ha1 := le_abs (inp.f e - explainedM inp.k m w e)
      have ha2 := neg_le_abs (inp.f e - explainedM inp.k m w e)
      simp only [List.mem_cons, List.not_mem_nil, or_false] at h
      rcases h with rfl | rfl
      · apply rowLe_holds_p04
        simp only [evalTerms_append, evalTerms_negTerms, evalTerms_ones, evalTerms_single, hsum, hev]
        grind
      · apply rowLe_holds_p04
        simp only [evalTerms_append, evalTerms_ones, evalTerms_single, hsum, hev]
        grind

/-! ## completeness on the level of multiplicities -/

/-- the hypotheses of completeness, for one instance -/
structure KlaecFamily (inp : WalkInput) (m : Nat → Edge → Nat) (w : Nat → Rat)
    (sel : Nat → Edge → Bool) (dist : Nat → Node → Nat) : Prop where
  /-- per layer: conserved multiplicities leaving the source once, within the caps, with connectivity witnesses -/
  layer : ∀ i, i < inp.k → LayerWitness inp.st inp.cfg.allowEmpty (klaecCap inp) (m i) (sel i) (dist i)
  /-- weights in `[0, w_max]`, integral for `weight_type = int` -/
  weights : ∀ i, i < inp.k → 0 ≤ w i ∧ w i ≤ inp.wmax true ∧ (inp.weightInt = true → IsInt (w i))
  /-- the multiplicities fit into the bits of the product blocks (`⌈log2(w_max + 1)⌉` bits) -/
  multBits : ∀ i, i < inp.k → ∀ e ∈ inp.activeEdges true, m i e < 2 ^ klaecBits inp
  /-- weight × multiplicity does not exceed `w_max` (the bound of the `pi` columns) -/
  prodLe : ∀ i, i < inp.k → ∀ e ∈ inp.activeEdges true, w i * (m i e : Rat) ≤ inp.wmax true
  /-- the errors do not exceed `w_max` (the bound of the `ee` columns) -/
  errLe : ∀ e ∈ inp.activeEdges true, (inp.f e - explainedM inp.k m w e).abs ≤ inp.wmax true
  /-- every subset constraint is covered by some layer -/
  covered : ∀ j (hj : j < inp.cfg.constraints.length), ∃ i, i < inp.k ∧
    coversB (m i) inp.cfg.constraints[j] inp.cfg.coverage = true

theorem klaec_explainedM_isInt (k : Nat) (m : Nat → Edge → Nat) (w : Nat → Rat)
    (hw : ∀ i, i < k → IsInt (w i)) (e : Edge) : IsInt (explainedM k m w e) :=
  isInt_sum_map _ _ (fun i hi => isInt_mul (hw i (List.mem_range.1 hi)) (isInt_natCast _))

theorem klaec_complete_mult (inp : WalkInput) (m : Nat → Edge → Nat) (w : Nat → Rat)
    (sel : Nat → Edge → Bool) (dist : Nat → Node → Nat)
    (hwf : STWFc inp.st) (hsrc : inp.st.source ∈ inp.st.g.nodes) (hinj : KlaecNameInj inp)
    (hfint : inp.weightInt = true → ∀ e ∈ inp.activeEdges true, IsInt (inp.f e))
    (h : KlaecFamily inp m w sel dist) :
    Sat (klaecAsg inp m w (fun e => (inp.f e - explainedM inp.k m w e).abs) sel dist) (klaecLP inp) := by
  rw [klaecLP_eq]
  refine sat_append_intro _ _ _ ?_ ?_
  · exact klaec_core_sat inp _ m sel dist hwf hsrc h.layer h.covered
      (fun i e => klaecAsg_edge inp m w _ sel dist e i)
      (fun i e => klaecAsg_sel inp m w _ sel dist e i)
      (fun i v => klaecAsg_dist inp m w _ sel dist v i)
      (fun i e => klaecAsg_used inp m w _ sel dist e i)
      (fun i j => klaecAsg_r inp m w _ sel dist i j)
  · exact klaecErr_sat inp _ m w _
      (fun i e => klaecAsg_edge inp m w _ sel dist e i)
      (fun i => klaecAsg_weights inp m w _ sel dist i)
      (fun i e => klaecAsg_pi inp m w _ sel dist e i)
      (fun e => klaecAsg_ee inp m w _ sel dist e)
      (fun i hi e he j => klaecAsg_bit inp m w _ sel dist hinj e i (mem_klaecProds.2 ⟨he, hi⟩) j)
      (fun i hi e he j => klaecAsg_comp inp m w _ sel dist hinj e i (mem_klaecProds.2 ⟨he, hi⟩) j)
      h.weights h.multBits h.prodLe
      (fun e he => ⟨Rat.le_refl, h.errLe e he, fun hint =>
        isInt_abs (isInt_sub (hfint hint e he)
          (klaec_explainedM_isInt inp.k m w (fun i hi => (h.weights i hi).2.2 hint) e))⟩)

/-! ## completeness for walks -/

/-- a family of `inp.k` weighted walks that the `kLeastAbsErrorsCycles` model can represent -/
structure LaecWithinCaps (inp : WalkInput) (walk : Nat → List Node) (w : Nat → Rat) : Prop where
  /-- walks of the augmented graph from the synthetic source to the synthetic sink -/
  isWalk : ∀ i, i < inp.k → IsWalkIn inp.st.g (inp.st.source :: walk i ++ [inp.st.sink])
  /-- every walk respects the repetition caps (largest reachable flow value inside an SCC, 1 outside) -/
  withinCap : ∀ i, i < inp.k → ∀ e ∈ inp.st.g.edges,
    (traversals (inp.st.source :: walk i ++ [inp.st.sink]) e : Rat) ≤ klaecCap inp e
  /-- weights in `[0, w_max]`, integral for `weight_type = int` -/
  weights : ∀ i, i < inp.k → 0 ≤ w i ∧ w i ≤ inp.wmax true ∧ (inp.weightInt = true → IsInt (w i))
  /-- the traversal counts fit into the `⌈log2(w_max + 1)⌉` bits of the product blocks (true when they
  are at most `w_max`: `klaec_lt_bits_of_le`) -/
  multBits : ∀ i, i < inp.k → ∀ e ∈ inp.activeEdges true,
    traversals (inp.st.source :: walk i ++ [inp.st.sink]) e < 2 ^ klaecBits inp
  /-- **weight × number of traversals is at most `w_max`** on every non-ignored edge -/
  prodLe : ∀ i, i < inp.k → ∀ e ∈ inp.activeEdges true,
    w i * (traversals (inp.st.source :: walk i ++ [inp.st.sink]) e : Rat) ≤ inp.wmax true
  /-- **every absolute error is at most `w_max`** -/
  errLe : ∀ e ∈ inp.activeEdges true, LAEC.absErr inp walk w e ≤ inp.wmax true
  /-- every subset constraint is covered by some walk -/
  covered : ∀ j (hj : j < inp.cfg.constraints.length), ∃ i, i < inp.k ∧
    coversB (multsOf inp.st.source inp.st.sink walk i) inp.cfg.constraints[j] inp.cfg.coverage = true

/-- **restricted completeness for walks.** -/
theorem klaec_complete_within_caps_proof (inp : WalkInput) (walk : Nat → List Node) (w : Nat → Rat)
    (hb : BaseWF inp.base) (hk : 0 < inp.k) (hinj : KlaecNameInj inp)
    (hfint : inp.weightInt = true → ∀ e ∈ inp.activeEdges true, IsInt (inp.f e))
    (h : LaecWithinCaps inp walk w) :
    Sat (klaecWalkAsg inp walk w) (klaecLP inp) ∧
      (∀ i e, multOf (klaecWalkAsg inp walk w) i e
        = traversals (inp.st.source :: walk i ++ [inp.st.sink]) e) ∧
      (∀ i, klaecWalkAsg inp walk w (weightsVar i) = w i) ∧
      (∀ e, klaecWalkAsg inp walk w (eeVar e) = LAEC.absErr inp walk w e) ∧
      evalTerms (klaecWalkAsg inp walk w) (klaecLP inp).obj = LAEC.totalErr inp walk w := by
  have hwf : STWFc inp.st := augment_wfc inp.base inp.starts inp.ends hb
  have hsrc := source_mem_of_walk inp.st hwf (walk 0) (h.isWalk 0 hk)
  have hfam : KlaecFamily inp (multsOf inp.st.source inp.st.sink walk) w
      (fun i => walkSel (inp.st.source :: walk i ++ [inp.st.sink]))
      (fun i => walkDist inp.st.g.nodes (inp.st.source :: walk i ++ [inp.st.sink])) :=
    { layer := fun i hi => walk_layer_witness inp.st hwf _ _ (walk i) (h.isWalk i hi) (h.withinCap i hi)
      weights := h.weights
      multBits := h.multBits
      prodLe := h.prodLe
      errLe := h.errLe
      covered := h.covered }
  have hsat := klaec_complete_mult inp _ w _ _ hwf hsrc hinj hfint hfam
  have hee : ∀ e, klaecWalkAsg inp walk w (eeVar e) = LAEC.absErr inp walk w e :=
    fun e => klaecAsg_ee inp _ w _ _ _ e
  refine ⟨hsat, ?_, fun i => klaecAsg_weights inp _ w _ _ _ i, hee, ?_⟩
  · intro i e
    unfold multOf klaecWalkAsg
    rw [klaecAsg_edge, pyRoundCount_natCast]
    rfl
  · rw [klaecLP_obj]
    unfold LAEC.totalErr
    apply sum_map_congr
    intro e _
    rw [hee e]

/-! ## what the decoded family of a satisfying assignment looks like -/

/-- the multiplicities of a satisfying assignment fit into the bits of their product blocks -/
theorem klaec_mult_bits (inp : WalkInput) (a : Asg) (hsat : Sat a (klaecLP inp))
    (e : Edge) (he : e ∈ inp.activeEdges true) (i : Nat) (hi : i < inp.k) :
    multOf a i e < 2 ^ klaecBits inp := by
  have hee : e ∈ inp.st.g.edges := (List.mem_filter.1 he).1
  have hcol := edge_col (klaec_sat_enc hsat) hi hee
  have hp := (klaec_sat_walkProducts_iff a _ _ _ _ _ _).1 (klaec_sat_prods hsat) e he i hi
  rw [klaec_intProdQ_bits] at hp
  exact klaec_prodFrag_mult_lt a _ _ _ _ _ _ _ _ hcol hp

/-- without empty walks every decoded layer is a source-to-sink walk of the augmented graph -/
theorem klaec_decoded_isWalk (s : STGraph) (c : WalkCfg) (ub : Edge → Rat) (a : Asg) (hwf : STWFc s)
    (hsat : Sat a (encodeWalks s c ub)) (hae : c.allowEmpty = false) (i : Nat) (hi : i < c.k) :
    IsWalkIn s.g (s.source :: decodeWalkLayer s a i ++ [s.sink]) := by
  obtain ⟨_, hempty, hwalk⟩ := walkcore_sound s c ub a hwf hsat i hi
  have hex : ∃ v ∈ s.g.succ s.source, multOf a i (s.source, v) ≠ 0 := by
    apply Classical.byContradiction
    intro hne
    have h0 : ∀ v ∈ s.g.succ s.source, multOf a i (s.source, v) = 0 :=
      fun v hv => Classical.byContradiction fun hm => hne ⟨v, hv, hm⟩
    have := (hempty h0).1
    rw [hae] at this
    cases this
  intro e he
  have h1 := hwalk hex e
  by_cases hee : e ∈ s.g.edges
  · exact hee
  · rw [if_neg hee] at h1
    unfold traversals at h1
    exact absurd he (List.count_eq_zero.1 h1)

/-- **the decoded family is within the caps** (no empty walks, no subset constraints) -/
theorem klaec_decoded_within_caps (inp : WalkInput) (a : Asg) (hb : BaseWF inp.base)
    (hae : inp.cfg.allowEmpty = false) (hcons : inp.cfg.constraints = [])
    (hsat : Sat a (klaecLP inp)) :
    LaecWithinCaps inp (decodeWalkLayer inp.st a) (fun i => a (weightsVar i)) := by
  have hwf : STWFc inp.st := augment_wfc inp.base inp.starts inp.ends hb
  obtain ⟨hw, _, hlayer, hpi, herr, _⟩ := klaec_sound_proof inp a hb hsat
  refine { isWalk := fun i hi => klaec_decoded_isWalk inp.st inp.cfg _ a hwf (klaec_sat_enc hsat) hae i hi
           withinCap := ?_, weights := hw, multBits := ?_, prodLe := ?_, errLe := ?_, covered := ?_ }
  · intro i hi e he
    rw [(hlayer i hi e he).1]; exact (hlayer i hi e he).2.2
  · intro i hi e he
    rw [(hlayer i hi e (List.mem_filter.1 he).1).1]
    exact klaec_mult_bits inp a hsat e he i hi
  · intro i hi e he
    rw [(hlayer i hi e (List.mem_filter.1 he).1).1, ← (hpi e he i hi).1]
    exact (hpi e he i hi).2
  · intro e he
    exact Rat.le_trans (herr e he).1 (herr e he).2.1
  · intro j hj
    rw [hcons] at hj
    exact absurd hj (Nat.not_lt_zero j)

/-! ## optimum transfer -/

/-- the total error of the decoded family is at most the LP objective (scales non-negative) -/
theorem klaec_obj_ge (inp : WalkInput) (a : Asg) (hb : BaseWF inp.base)
    (hscale : ∀ e ∈ inp.activeEdges true, 0 ≤ inp.scale e) (hsat : Sat a (klaecLP inp)) :
    LAEC.totalErr inp (decodeWalkLayer inp.st a) (fun i => a (weightsVar i))
      ≤ evalTerms a (klaecLP inp).obj := by
  obtain ⟨_, _, _, _, herr, _⟩ := klaec_sound_proof inp a hb hsat
  rw [klaecLP_obj]
  unfold LAEC.totalErr
  apply sum_map_le_p07
  intro e he
  exact Rat.mul_le_mul_of_nonneg_left (herr e he).1 (hscale e he)

/-- **optimum transfer.** An optimum of the LP decodes to a family whose total scaled error is at most
the total scaled error of every family within the caps. -/
theorem klaec_opt_within_caps_proof (inp : WalkInput) (a : Asg) (hb : BaseWF inp.base) (hk : 0 < inp.k)
    (hinj : KlaecNameInj inp)
    (hfint : inp.weightInt = true → ∀ e ∈ inp.activeEdges true, IsInt (inp.f e))
    (hscale : ∀ e ∈ inp.activeEdges true, 0 ≤ inp.scale e)
    (hsat : Sat a (klaecLP inp))
    (hopt : ∀ a', Sat a' (klaecLP inp) → evalTerms a (klaecLP inp).obj ≤ evalTerms a' (klaecLP inp).obj) :
    LAEC.totalErr inp (decodeWalkLayer inp.st a) (fun i => a (weightsVar i))
        ≤ evalTerms a (klaecLP inp).obj ∧
    ∀ walk' w', LaecWithinCaps inp walk' w' →
      evalTerms a (klaecLP inp).obj ≤ LAEC.totalErr inp walk' w' ∧
      LAEC.totalErr inp (decodeWalkLayer inp.st a) (fun i => a (weightsVar i))
        ≤ LAEC.totalErr inp walk' w' := by
  have hge := klaec_obj_ge inp a hb hscale hsat
  refine ⟨hge, fun walk' w' h' => ?_⟩
  obtain ⟨hsat', _, _, _, hobj'⟩ := klaec_complete_within_caps_proof inp walk' w' hb hk hinj hfint h'
  have := hopt _ hsat'
  rw [hobj'] at this
  exact ⟨this, Rat.le_trans hge this⟩

/-- **optimum transfer, tight form** (no empty walks, no subset constraints): the decoded family of an
optimum is itself within the caps, the objective is its total scaled error, and the error columns are
tight on every edge of positive scale. -/
theorem klaec_opt_tight_proof (inp : WalkInput) (a : Asg) (hb : BaseWF inp.base) (hk : 0 < inp.k)
    (hinj : KlaecNameInj inp)
    (hae : inp.cfg.allowEmpty = false) (hcons : inp.cfg.constraints = [])
    (hfint : inp.weightInt = true → ∀ e ∈ inp.activeEdges true, IsInt (inp.f e))
    (hscale : ∀ e ∈ inp.activeEdges true, 0 ≤ inp.scale e)
    (hsat : Sat a (klaecLP inp))
    (hopt : ∀ a', Sat a' (klaecLP inp) → evalTerms a (klaecLP inp).obj ≤ evalTerms a' (klaecLP inp).obj) :
    LaecWithinCaps inp (decodeWalkLayer inp.st a) (fun i => a (weightsVar i)) ∧
    evalTerms a (klaecLP inp).obj
      = LAEC.totalErr inp (decodeWalkLayer inp.st a) (fun i => a (weightsVar i)) ∧
    (∀ e ∈ inp.activeEdges true, 0 < inp.scale e →
      a (eeVar e) = LAEC.absErr inp (decodeWalkLayer inp.st a) (fun i => a (weightsVar i)) e) := by
  have hwithin := klaec_decoded_within_caps inp a hb hae hcons hsat
  obtain ⟨hge, hall⟩ := klaec_opt_within_caps_proof inp a hb hk hinj hfint hscale hsat hopt
  have heq := Rat.le_antisymm (hall _ _ hwithin).1 hge
  refine ⟨hwithin, heq, ?_⟩
  intro e he hpos
  obtain ⟨_, _, _, _, herr, _⟩ := klaec_sound_proof inp a hb hsat
  apply Classical.byContradiction
  intro hne
  have hlt : LAEC.absErr inp (decodeWalkLayer inp.st a) (fun i => a (weightsVar i)) e < a (eeVar e) := by
    have := (herr e he).1
    grind
  have hstrict : LAEC.totalErr inp (decodeWalkLayer inp.st a) (fun i => a (weightsVar i))
      < evalTerms a (klaecLP inp).obj := by
    rw [klaecLP_obj]
    unfold LAEC.totalErr
    refine sum_map_lt _ _ _ (fun e' he' =>
      Rat.mul_le_mul_of_nonneg_left (herr e' he').1 (hscale e' he')) e he ?_
    exact Rat.mul_lt_mul_of_pos_left hlt hpos
  rw [heq] at hstrict
  exact absurd hstrict Rat.lt_irrefl

end FP
