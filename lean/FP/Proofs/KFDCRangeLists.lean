import FP.Proofs.WalkWitness
import FP.Proofs.WalkCore
import FP.Proofs.EulerClosed
/-!
# FP.Proofs.KFDCRangeLists — list and counting facts for the range theorem of `MinFlowDecompCycles`

* sums of natural numbers over lists;
* closed walks `x :: b ++ [x]`: balanced traversal counts, rotation to any of their vertices, the edge
  entering / leaving a vertex, distinct edges when `x :: b` has no repetition;
* `kfdcr_find_cycle`: a balanced natural-valued function on a finite edge set that is positive
  somewhere is positive along a simple closed walk.
-/
namespace FP
open FP.Spec FP.Euler

/-! ## sums -/

theorem kfdcr_sum_map_mul {α} (l : List α) (f : α → Nat) (k : Nat) :
    (l.map fun x => k * f x).sum = k * (l.map f).sum := by
  induction l with
  | nil => simp
  | cons x xs ih => simp only [List.map_cons, List.sum_cons, ih, Nat.mul_add]

theorem kfdcr_exists_pos_of_sum_pos {α} (l : List α) (f : α → Nat) (h : 0 < (l.map f).sum) :
    ∃ x ∈ l, 0 < f x := by
  apply Classical.byContradiction
  intro hne
  have : (l.map f).sum = 0 := nat_sum_eq_zero l f (fun x hx => by
    apply Classical.byContradiction
    intro h0
    exact hne ⟨x, hx, by omega⟩)
  omega

theorem kfdcr_le_sum_of_mem {α} (l : List α) (f : α → Nat) (x : α) (hx : x ∈ l) : f x ≤ (l.map f).sum := by
  induction l with
  | nil => simp at hx
  | cons y ys ih =>
    simp only [List.map_cons, List.sum_cons]
    rcases List.mem_cons.1 hx with rfl | h
    · omega
    · have := ih h; omega

/-- a sum over a duplicate-free list all of whose selected elements are `a` -/
theorem kfdcr_sum_filter_single (E : List Edge) (hnd : E.Nodup) (p : Edge → Bool) (g : Edge → Nat) (a : Edge)
    (ha : a ∈ E) (hpa : p a = true) (hall : ∀ e ∈ E, p e = true → e = a) :
    ((E.filter p).map g).sum = g a := by
  induction E with
  | nil => simp at ha
  | cons y ys ih =>
    have hy := List.nodup_cons.1 hnd
    by_cases hya : y = a
    · subst hya
      have hrest : ys.filter p = [] := by
        apply List.filter_eq_nil_iff.2
        intro e he hpe
        have := hall e (by simp [he]) hpe
        exact hy.1 (this ▸ he)
      simp [hpa, hrest]
    · have hpy : p y = false := by
        cases h : p y with
        | false => rfl
        | true => exact absurd (hall y (by simp) h) hya
      have ha' : a ∈ ys := by
        rcases List.mem_cons.1 ha with h | h
        · exact absurd h.symm hya
        · exact h
      simp only [List.filter_cons, hpy]
      exact ih hy.2 ha' (fun e he hpe => hall e (by simp [he]) hpe)

theorem kfdcr_perm_sum {l1 l2 : List Nat} (h : l1.Perm l2) : l1.sum = l2.sum := by
  induction h with
  | nil => rfl
  | cons x _ ih => simp [ih]
  | swap x y l => simp only [List.sum_cons]; omega
  | trans _ _ ih1 ih2 => exact ih1.trans ih2

/-! ## weighted families of vertex sequences -/

/-- `Σ_d weight(d) · traversals(d, e)` -/
def kfdcr_tot (D : List (List Node × Nat)) (e : Edge) : Nat := (D.map fun d => d.2 * traversals d.1 e).sum

theorem kfdcr_tot_cons (d : List Node × Nat) (D : List (List Node × Nat)) (e : Edge) :
    kfdcr_tot (d :: D) e = d.2 * traversals d.1 e + kfdcr_tot D e := by
  simp [kfdcr_tot]

theorem kfdcr_tot_append (D1 D2 : List (List Node × Nat)) (e : Edge) :
    kfdcr_tot (D1 ++ D2) e = kfdcr_tot D1 e + kfdcr_tot D2 e := by
  simp [kfdcr_tot]

theorem kfdcr_tot_perm {D1 D2 : List (List Node × Nat)} (h : D1.Perm D2) (e : Edge) :
    kfdcr_tot D1 e = kfdcr_tot D2 e :=
  kfdcr_perm_sum (h.map _)

theorem kfdcr_tot_pos {D : List (List Node × Nat)} {e : Edge} (h : 0 < kfdcr_tot D e) :
    ∃ d ∈ D, 0 < d.2 ∧ e ∈ walkEdges d.1 := by
  obtain ⟨d, hd, hpos⟩ := kfdcr_exists_pos_of_sum_pos D _ h
  refine ⟨d, hd, Nat.pos_of_mul_pos_right hpos, ?_⟩
  have : 0 < traversals d.1 e := Nat.pos_of_mul_pos_left hpos
  exact List.count_pos_iff.1 this

theorem kfdcr_le_tot {D : List (List Node × Nat)} {d : List Node × Nat} (hd : d ∈ D) (e : Edge) :
    d.2 * traversals d.1 e ≤ kfdcr_tot D e :=
  kfdcr_le_sum_of_mem D (fun d => d.2 * traversals d.1 e) d hd

/-! ## closed walks -/

theorem kfdcr_walkEdges_snoc (q : List Node) (v x : Node) :
    walkEdges (q ++ [v] ++ [x]) = walkEdges (q ++ [v]) ++ [(v, x)] := by
  have : q ++ [v] ++ [x] = q ++ v :: [x] := by simp
  rw [this, walkEdges_append_cons]
  simp [walkEdges]

theorem kfdcr_walkEdges_suffix (a l : List Node) : ∀ e ∈ walkEdges l, e ∈ walkEdges (a ++ l) := by
  induction a with
  | nil => intro e he; exact he
  | cons x xs ih => intro e he; exact walkEdges_sub_cons x _ e (ih e he)

/-- the in- and out-degree of a vertex on a closed walk agree -/
theorem kfdcr_closed_bal (x : Node) (b : List Node) (v : Node) :
    (walkEdges (x :: b ++ [x])).countP (fun e => decide (e.1 = v))
      = (walkEdges (x :: b ++ [x])).countP (fun e => decide (e.2 = v)) := by
  have h1 : (walkEdges (x :: b ++ [x])).countP (fun e => decide (e.1 = v))
      = ((walkEdges (x :: b ++ [x])).map (·.1)).countP (fun w => decide (w = v)) := by
    rw [List.countP_map]; rfl
  have h2 : (walkEdges (x :: b ++ [x])).countP (fun e => decide (e.2 = v))
      = ((walkEdges (x :: b ++ [x])).map (·.2)).countP (fun w => decide (w = v)) := by
    rw [List.countP_map]; rfl
  rw [h1, h2, walkEdges_map_fst, walkEdges_map_snd]
  have e1 : (x :: b ++ [x]).dropLast = x :: b := by
    have : x :: b ++ [x] = (x :: b) ++ [x] := rfl
    rw [this, List.dropLast_concat]
  have e2 : (x :: b ++ [x]).tail = b ++ [x] := rfl
  rw [e1, e2, List.countP_cons, List.countP_append, List.countP_cons, List.countP_nil]
  omega

/-- rotation of a closed walk to one of its vertices -/
theorem kfdcr_rotate (x : Node) (b : List Node) (y : Node) (hy : y ∈ x :: b) :
    ∃ b', (walkEdges (y :: b' ++ [y])).Perm (walkEdges (x :: b ++ [x])) ∧
      ((x :: b).Nodup → (y :: b').Nodup) := by
  rcases List.mem_cons.1 hy with rfl | hyb
  · exact ⟨b, List.Perm.refl _, fun h => h⟩
  · obtain ⟨b1, b2, rfl⟩ := List.append_of_mem hyb
    refine ⟨b2 ++ x :: b1, ?_, ?_⟩
    · have e1 : x :: (b1 ++ y :: b2) ++ [x] = (x :: b1) ++ y :: (b2 ++ [x]) := by simp
      have e2 : y :: (b2 ++ x :: b1) ++ [y] = (y :: b2) ++ x :: (b1 ++ [y]) := by simp
      rw [e1, e2, walkEdges_append_cons (x :: b1) y (b2 ++ [x]), walkEdges_append_cons (y :: b2) x (b1 ++ [y])]
      exact List.perm_append_comm
    · intro hnd
      have hp : (y :: (b2 ++ x :: b1)).Perm (x :: (b1 ++ y :: b2)) := by
        have h1 : (y :: (b2 ++ x :: b1)).Perm ((y :: b2) ++ (x :: b1)) := List.Perm.refl _
        have h2 : ((y :: b2) ++ (x :: b1)).Perm ((x :: b1) ++ (y :: b2)) := List.perm_append_comm
        exact h1.trans h2
      exact hp.nodup_iff.2 hnd

/-- every vertex of a closed walk is left along one of its edges … -/
theorem kfdcr_closed_out (x : Node) (b : List Node) (v : Node) (hv : v ∈ x :: b ++ [x]) :
    ∃ w, (v, w) ∈ walkEdges (x :: b ++ [x]) := by
  apply exists_walkEdge_from
  have e1 : (x :: b ++ [x]).dropLast = x :: b := by
    have : x :: b ++ [x] = (x :: b) ++ [x] := rfl
    rw [this, List.dropLast_concat]
  rw [e1]
  simp only [List.cons_append, List.mem_cons, List.mem_append, List.mem_nil_iff, or_false] at hv
  rcases hv with h | h | h
  · simp [h]
  · simp [h]
  · simp [h]

/-- … and entered along one -/
theorem kfdcr_closed_in (x : Node) (b : List Node) (v : Node) (hv : v ∈ x :: b ++ [x]) :
    ∃ u, (u, v) ∈ walkEdges (x :: b ++ [x]) := by
  apply exists_walkEdge_into
  have e2 : (x :: b ++ [x]).tail = b ++ [x] := rfl
  rw [e2]
  simp only [List.cons_append, List.mem_cons, List.mem_append, List.mem_nil_iff, or_false] at hv
  rcases hv with h | h | h
  · simp [h]
  · simp [h]
  · simp [h]

/-- a closed walk without repeated vertices runs through each of its edges once -/
theorem kfdcr_simple_edges_nodup (x : Node) (b : List Node) (hnd : (x :: b).Nodup) :
    (walkEdges (x :: b ++ [x])).Nodup := by
  apply nodup_of_map (·.1)
  rw [walkEdges_map_fst]
  have e1 : (x :: b ++ [x]).dropLast = x :: b := by
    have : x :: b ++ [x] = (x :: b) ++ [x] := rfl
    rw [this, List.dropLast_concat]
  rw [e1]; exact hnd

theorem kfdcr_closed_ne_nil (x : Node) (b : List Node) : walkEdges (x :: b ++ [x]) ≠ [] := by
  cases b <;> simp [walkEdges]

/-! ## a positive simple closed walk -/

/-- the graph whose edges are `E` -/
def kfdcr_G (nodes : List Node) (E : List Edge) : Graph := { nodes := nodes, edges := E }

theorem kfdcr_pos_out (nodes : List Node) (E : List Edge) (g : Edge → Nat)
    (hbal : ∀ v, inN (kfdcr_G nodes E) g v = outN (kfdcr_G nodes E) g v)
    (u v : Node) (huv : (u, v) ∈ E) (hpos : 0 < g (u, v)) : ∃ x, (v, x) ∈ E ∧ 0 < g (v, x) := by
  have hin : g (u, v) ≤ inN (kfdcr_G nodes E) g v := le_inN (kfdcr_G nodes E) g (e := (u, v)) huv
  have hout : 0 < outN (kfdcr_G nodes E) g v := by rw [← hbal]; omega
  obtain ⟨e, he, hpe⟩ := kfdcr_exists_pos_of_sum_pos _ _ hout
  have hm := List.mem_filter.1 he
  have h1 : e.1 = v := by simpa using hm.2
  exact ⟨e.2, by rw [← h1]; exact hm.1, by rw [← h1]; exact hpe⟩

theorem kfdcr_find_cycle_aux (nodes : List Node) (E : List Edge) (g : Edge → Nat)
    (hcl : ∀ e ∈ E, e.1 ∈ nodes ∧ e.2 ∈ nodes)
    (hbal : ∀ v, inN (kfdcr_G nodes E) g v = outN (kfdcr_G nodes E) g v) :
    ∀ (n : Nat) (q : List Node) (v : Node), nodes.length + 1 ≤ n + (q ++ [v]).length →
      (q ++ [v]).Nodup → (∀ w ∈ q ++ [v], w ∈ nodes) →
      (∀ e ∈ walkEdges (q ++ [v]), e ∈ E ∧ 0 < g e) →
      (∃ x, (v, x) ∈ E ∧ 0 < g (v, x)) →
      ∃ x b, (x :: b).Nodup ∧ ∀ e ∈ walkEdges (x :: b ++ [x]), e ∈ E ∧ 0 < g e := by
  intro n
  induction n with
  | zero =>
    intro q v hlen hnd hsub _ _
    have := hnd.length_le_of_subset (fun w hw => hsub w hw)
    omega
  | succ n ih =>
    intro q v hlen hnd hsub hpos ⟨x, hx, hgx⟩
    have hall : ∀ e ∈ walkEdges (q ++ [v] ++ [x]), e ∈ E ∧ 0 < g e := by
      intro e he
      rw [kfdcr_walkEdges_snoc] at he
      rcases List.mem_append.1 he with h | h
      · exact hpos e h
      · have : e = (v, x) := by simpa using h
        rw [this]; exact ⟨hx, hgx⟩
    by_cases hmem : x ∈ q ++ [v]
    · obtain ⟨a, b, hab⟩ := List.append_of_mem hmem
      refine ⟨x, b, ?_, ?_⟩
      · rw [hab] at hnd
        exact (List.nodup_append.1 hnd).2.1
      · intro e he
        apply hall e
        rw [hab]
        have : a ++ x :: b ++ [x] = a ++ (x :: b ++ [x]) := by simp
        rw [this]
        exact kfdcr_walkEdges_suffix a _ e he
    · have hnd' : (q ++ [v] ++ [x]).Nodup := by
        rw [List.nodup_append]
        refine ⟨hnd, by simp, ?_⟩
        intro a ha b hb
        have : b = x := by simpa using hb
        rw [this]
        intro hax
        exact hmem (hax ▸ ha)
      have hsub' : ∀ w ∈ q ++ [v] ++ [x], w ∈ nodes := by
        intro w hw
        rcases List.mem_append.1 hw with h | h
        · exact hsub w h
        · have : w = x := by simpa using h
          rw [this]; exact (hcl _ hx).2
      apply ih (q ++ [v]) x
      · simp only [List.length_append, List.length_cons, List.length_nil] at hlen ⊢
        omega
      · exact hnd'
      · exact hsub'
      · exact hall
      · exact kfdcr_pos_out nodes E g hbal v x hx hgx

/-- **a balanced function that is positive somewhere is positive along a simple closed walk** -/
theorem kfdcr_find_cycle (nodes : List Node) (E : List Edge) (g : Edge → Nat)
    (hcl : ∀ e ∈ E, e.1 ∈ nodes ∧ e.2 ∈ nodes)
    (hbal : ∀ v, inN (kfdcr_G nodes E) g v = outN (kfdcr_G nodes E) g v)
    (e0 : Edge) (he0 : e0 ∈ E) (hpos : 0 < g e0) :
    ∃ x b, (x :: b).Nodup ∧ ∀ e ∈ walkEdges (x :: b ++ [x]), e ∈ E ∧ 0 < g e := by
  obtain ⟨u, v⟩ := e0
  apply kfdcr_find_cycle_aux nodes E g hcl hbal (nodes.length + 1) [] v
  · simp
  · simp
  · intro w hw
    have : w = v := by simpa using hw
    rw [this]; exact (hcl _ he0).2
  · intro e he
    simp [walkEdges] at he
  · exact kfdcr_pos_out nodes E g hbal u v he0 hpos

end FP
