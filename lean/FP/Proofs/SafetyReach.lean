import FP.Model.Graph
import FP.Spec.Safety
import FP.Proofs.SafetyWalk
/-!
# FP.Proofs.SafetyReach — `reachFrom` / `reaching` of `Graph.lean` contain everything reachable
-/
namespace FP.Safety
open FP FP.Spec

def stepFn (acc : List Node) (e : Edge) : List Node :=
  if acc.contains e.1 && !acc.contains e.2 then acc ++ [e.2] else acc

theorem stepClosure_eq (es : List Edge) (seen : List Node) : stepClosure es seen = es.foldl stepFn seen := rfl

def ClosedUnder (es : List Edge) (S : List Node) : Prop := ∀ e ∈ es, e.1 ∈ S → e.2 ∈ S

theorem stepFn_prefix (acc : List Node) (e : Edge) : acc <+: stepFn acc e := by
  unfold stepFn; split
  · exact List.prefix_append _ _
  · exact List.prefix_refl _

theorem stepClosure_prefix (es : List Edge) : ∀ seen, seen <+: stepClosure es seen := by
  induction es with
  | nil => intro seen; exact List.prefix_refl _
  | cons e es ih =>
    intro seen
    rw [stepClosure_eq, List.foldl_cons]
    exact (stepFn_prefix seen e).trans (ih _)

theorem stepFn_nodup (acc : List Node) (e : Edge) (h : acc.Nodup) : (stepFn acc e).Nodup := by
  unfold stepFn; split
  · rename_i hc
    simp only [Bool.and_eq_true, Bool.not_eq_true', List.contains_eq_mem,
      decide_eq_false_iff_not, decide_eq_true_eq] at hc
    rw [List.nodup_append]
    refine ⟨h, by simp, ?_⟩
    intro a ha b hb; simp at hb; subst hb
    intro hab; subst hab; exact hc.2 ha
  · exact h

theorem stepClosure_nodup (es : List Edge) : ∀ seen, seen.Nodup → (stepClosure es seen).Nodup := by
  induction es with
  | nil => intro seen h; exact h
  | cons e es ih =>
    intro seen h
    rw [stepClosure_eq, List.foldl_cons]
    exact ih _ (stepFn_nodup seen e h)

theorem stepFn_sub (U : List Node) (acc : List Node) (e : Edge) (he : e.2 ∈ U) (h : ∀ x ∈ acc, x ∈ U) :
    ∀ x ∈ stepFn acc e, x ∈ U := by
  unfold stepFn; split
  · intro x hx; rcases List.mem_append.1 hx with hx | hx
    · exact h x hx
    · simp at hx; subst hx; exact he
  · exact h

theorem stepClosure_sub (U : List Node) (es : List Edge) (hU : ∀ e ∈ es, e.2 ∈ U) :
    ∀ seen, (∀ x ∈ seen, x ∈ U) → ∀ x ∈ stepClosure es seen, x ∈ U := by
  induction es with
  | nil => intro seen h; exact h
  | cons e es ih =>
    intro seen h
    rw [stepClosure_eq, List.foldl_cons]
    exact ih (fun e' he' => hU e' (List.mem_cons_of_mem _ he')) _
      (stepFn_sub U seen e (hU e (by simp)) h)

/-- if a pass adds nothing, the set is closed under the edges -/
theorem stepClosure_fix (es : List Edge) : ∀ seen, (stepClosure es seen).length = seen.length →
    ClosedUnder es seen := by
  induction es with
  | nil => intro seen _ e he; simp at he
  | cons e es ih =>
    intro seen hlen
    rw [stepClosure_eq, List.foldl_cons] at hlen
    have h1 := (stepFn_prefix seen e).length_le
    have h2 := (stepClosure_prefix es (stepFn seen e)).length_le
    rw [stepClosure_eq] at h2
    have hl1 : (stepFn seen e).length = seen.length := by omega
    have heq : stepFn seen e = seen := ((stepFn_prefix seen e).eq_of_length hl1.symm).symm
    rw [heq] at hlen
    have hcl := ih seen hlen
    intro e' he' h1'
    rcases List.mem_cons.1 he' with rfl | he'
    · unfold stepFn at heq
      split at heq
      · have := congrArg List.length heq; simp at this
      · rename_i hc
        simp only [Bool.and_eq_true, Bool.not_eq_true', List.contains_eq_mem,
          decide_eq_false_iff_not, decide_eq_true_eq, not_and, Decidable.not_not] at hc
        exact hc h1'
    · exact hcl e' he' h1'

theorem stepClosure_of_closed (es : List Edge) (seen : List Node) (h : ClosedUnder es seen) :
    stepClosure es seen = seen := by
  induction es with
  | nil => rfl
  | cons e es ih =>
    rw [stepClosure_eq, List.foldl_cons]
    have : stepFn seen e = seen := by
      unfold stepFn; split
      · rename_i hc
        simp only [Bool.and_eq_true, Bool.not_eq_true', List.contains_eq_mem,
          decide_eq_false_iff_not, decide_eq_true_eq] at hc
        exact absurd (h e (by simp) hc.1) hc.2
      · rfl
    rw [this]
    exact ih (fun e' he' => h e' (List.mem_cons_of_mem _ he'))

theorem closure_of_closed (es : List Edge) (n : Nat) (seen : List Node) (h : ClosedUnder es seen) :
    closure es n seen = seen := by
  induction n with
  | zero => rfl
  | succ n ih => rw [closure, stepClosure_of_closed es seen h, ih]

theorem closure_prefix (es : List Edge) : ∀ n seen, seen <+: closure es n seen := by
  intro n
  induction n with
  | zero => intro seen; exact List.prefix_refl _
  | succ n ih => intro seen; rw [closure]; exact (stepClosure_prefix es seen).trans (ih _)

/-- after enough passes the set is closed -/
theorem closure_closed (U : List Node) (es : List Edge) (hU : ∀ e ∈ es, e.2 ∈ U) :
    ∀ n seen, seen.Nodup → (∀ x ∈ seen, x ∈ U) → U.length ≤ seen.length + n →
      ClosedUnder es (closure es n seen) := by
  intro n
  induction n with
  | zero =>
    intro seen hnd hsub hlen
    rw [closure]
    apply stepClosure_fix
    have h1 := (stepClosure_prefix es seen).length_le
    have h2 := (stepClosure_nodup es seen hnd).length_le_of_subset
      (fun x hx => stepClosure_sub U es hU seen hsub x hx)
    omega
  | succ n ih =>
    intro seen hnd hsub hlen
    rw [closure]
    have h1 := (stepClosure_prefix es seen).length_le
    by_cases hq : (stepClosure es seen).length = seen.length
    · have hc := stepClosure_fix es seen hq
      rw [stepClosure_of_closed es seen hc, closure_of_closed es n seen hc]
      exact hc
    · exact ih _ (stepClosure_nodup es seen hnd) (stepClosure_sub U es hU seen hsub) (by omega)

theorem reach_mem_closed (es : List Edge) (S : List Node) (hc : ClosedUnder es S) (v b : Node)
    (hv : v ∈ S) (h : Reach es v b) : b ∈ S := by
  induction h with
  | refl => exact hv
  | step _ he ih => exact hc _ he ih

theorem reach_trans {es : List Edge} {x y z : Node} (h1 : Reach es x y) (h2 : Reach es y z) : Reach es x z := by
  induction h2 with
  | refl => exact h1
  | step _ he ih => exact Reach.step ih he

theorem reach_rev {es : List Edge} {x y : Node} (h : Reach es x y) :
    Reach (es.map fun e => (e.2, e.1)) y x := by
  induction h with
  | refl => exact Reach.refl _
  | @step y z _ he ih =>
    have : Reach (es.map fun e => (e.2, e.1)) z y :=
      Reach.step (Reach.refl z) (List.mem_map.2 ⟨(y, z), he, rfl⟩)
    exact reach_trans this ih

/-- well-formed graph: edges connect nodes -/
def GraphWF (g : Graph) : Prop := ∀ e ∈ g.edges, e.1 ∈ g.nodes ∧ e.2 ∈ g.nodes

theorem reachFrom_complete (g : Graph) (hg : GraphWF g) (v b : Node) (hv : v ∈ g.nodes)
    (h : Reach g.edges v b) : b ∈ reachFrom g v := by
  unfold reachFrom
  have hc := closure_closed g.nodes g.edges (fun e he => (hg e he).2) g.nodes.length [v] (by simp)
    (by simpa using hv) (by simp)
  exact reach_mem_closed _ _ hc v b ((closure_prefix _ _ _).subset (by simp)) h

theorem reaching_complete (g : Graph) (hg : GraphWF g) (v a : Node) (hv : v ∈ g.nodes)
    (h : Reach g.edges a v) : a ∈ reaching g v := by
  unfold reaching
  have hc := closure_closed g.nodes (g.edges.map fun e => (e.2, e.1)) (fun e he => by
      obtain ⟨e', he', rfl⟩ := List.mem_map.1 he
      exact (hg e' he').1) g.nodes.length [v] (by simp) (by simpa using hv) (by simp)
  exact reach_mem_closed _ _ hc v a ((closure_prefix _ _ _).subset (by simp)) (reach_rev h)

/-- along a walk every later edge's tail is reachable from the first vertex -/
theorem walk_reach (g : Graph) : ∀ (l : List Node) (x : Node), IsWalkIn g (x :: l) →
    ∀ e ∈ walkEdges (x :: l), Reach g.edges x e.1 := by
  intro l
  induction l with
  | nil => intro x _ e he; simp [we_single] at he
  | cons y l ih =>
    intro x hw e he
    rw [we_cons_cons] at he
    rcases List.mem_cons.1 he with rfl | he
    · exact Reach.refl _
    · have hxy : (x, y) ∈ g.edges := hw _ (by rw [we_cons_cons]; simp)
      have := ih y (fun e' he' => hw e' (by rw [we_cons_cons]; exact List.mem_cons_of_mem _ he')) e he
      exact reach_trans (Reach.step (Reach.refl x) hxy) this

end FP.Safety
