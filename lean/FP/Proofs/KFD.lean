import FP.Model.Enc.KFD
import FP.Proofs.PathCore
import FP.Proofs.Wrapper
namespace FP
open FP.Spec

theorem count_nodup_mem {α} [BEq α] [LawfulBEq α] (l : List α) (h : l.Nodup) (a : α) (ha : a ∈ l) :
    l.count a = 1 := by
  induction l with
  | nil => simp at ha
  | cons x xs ih =>
    have hx := List.nodup_cons.1 h
    rw [List.count_cons]
    rcases List.mem_cons.1 ha with rfl | hm
    · have : xs.count a = 0 := List.count_eq_zero.2 hx.1
      simp [this]
    · have hne : x ≠ a := fun h' => hx.1 (h' ▸ hm)
      simp [ih hx.2 hm, hne]

/-- every layer of a satisfying assignment of `encodePaths` decodes, and the edge variables of a
layer are the traversal counts (0/1) of the decoded path with its synthetic endpoints -/
theorem decode_all (s : STGraph) (c : PathCfg) (a : Asg) (hwf : STWF s)
    (hsat : Sat a (encodePaths s c)) :
    ∃ ps : List (List Node), decodePaths s (fun e i => a (edgeVar e i)) c.k = some ps ∧
      ps.length = c.k ∧
      ∀ i, i < c.k → ∀ e ∈ s.g.edges,
        a (edgeVar e i) = (traversals (s.source :: (ps.getD i []) ++ [s.sink]) e : Rat) := by
  obtain ⟨ps, hps⟩ := mapM_option_exists (decodeLayer s (fun e i => a (edgeVar e i))) (List.range c.k)
    (fun i hi => by
      obtain ⟨p, hp, _⟩ := pathcore_sound s c a hwf hsat i (List.mem_range.1 hi)
      exact ⟨p, hp⟩)
  have hget := mapM_range_get _ c.k ps [] hps
  refine ⟨ps, hps, hget.1, ?_⟩
  intro i hi e he
  obtain ⟨p, hp, hempty, hne⟩ := pathcore_sound s c a hwf hsat i hi
  have hpe : p = ps.getD i [] := by
    have := hget.2 i hi
    rw [hp] at this
    exact Option.some.inj this
  rw [← hpe]
  unfold traversals
  by_cases hp0 : p = []
  · rw [(hempty hp0).2 e he, hp0]
    have : e ≠ (s.source, s.sink) := fun h => hwf.noDirect (h ▸ he)
    have hc : List.count e (walkEdges (s.source :: [] ++ [s.sink])) = 0 := by
      apply List.count_eq_zero.2
      simpa [walkEdges] using this
    rw [hc]; simp
  · obtain ⟨_, hnd, hind⟩ := hne hp0
    rw [hind e he]
    by_cases hm : e ∈ walkEdges (s.source :: p ++ [s.sink])
    · rw [count_nodup_mem _ (walkEdges_nodup _ hnd) e hm]; simp only [hm, if_true]; simp
    · rw [List.count_eq_zero.2 hm]; simp only [hm, if_false]; simp

theorem mem_activeEdges (inp : FlowInput) (e : Edge) (he : e ∈ inp.activeEdges) : e ∈ inp.st.g.edges :=
  (List.mem_filter.1 he).1

theorem kfd_exact (inp : FlowInput) (a : Asg) (h : BaseWF inp.base) (hac : Acyclic inp.base)
    (hsat : Sat a (kfdLP inp)) :
    ∃ ps : List (List Node), decodePaths inp.st (fun e i => a (edgeVar e i)) inp.cfg.k = some ps ∧
      ps.length = inp.cfg.k ∧
      (∀ i, i < inp.cfg.k → 0 ≤ a (wVar i) ∧ a (wVar i) ≤ inp.wmax) ∧
      ∀ e ∈ inp.activeEdges,
        ((List.range inp.cfg.k).map fun i =>
            a (wVar i) * (traversals (inp.st.source :: (ps.getD i []) ++ [inp.st.sink]) e : Rat)).sum
          = inp.f e := by
  have hwf : STWF inp.st := augment_wf inp.base inp.starts inp.ends h hac
  have henc : Sat a (encodePaths inp.st inp.cfg) := sat_append_left a _ _ hsat
  obtain ⟨hcols, hrows⟩ := sat_append_right a _ _ hsat
  simp only at hcols hrows
  obtain ⟨ps, hps, hlen, htrav⟩ := decode_all inp.st inp.cfg a hwf henc
  have hw : ∀ i, i < inp.cfg.k → 0 ≤ a (wVar i) ∧ a (wVar i) ≤ inp.wmax := by
    intro i hi
    have := hcols { v := wVar i, lb := 0, ub := some inp.wmax, isInt := inp.weightInt }
      (List.mem_append_right _ (List.mem_map.2 ⟨i, List.mem_range.2 hi, rfl⟩))
    exact ⟨this.1, this.2.1 _ rfl⟩
  refine ⟨ps, hps, hlen, hw, ?_⟩
  intro e he
  have hee := mem_activeEdges inp e he
  have hrow := hrows (rowEq (ones (List.range inp.cfg.k) (piVar e)) (inp.f e))
    (List.mem_append_right _ (List.mem_map.2 ⟨e, he, rfl⟩))
  have hlo := hrow.1 _ rfl
  have hhi := hrow.2 _ rfl
  simp only [rowEq, evalTerms_ones] at hlo hhi
  have hsum : ((List.range inp.cfg.k).map fun i => a (piVar e i)).sum = inp.f e :=
    Rat.le_antisymm hhi hlo
  rw [← hsum]
  apply sum_map_congr
  intro i hi
  have hi' := List.mem_range.1 hi
  have hbin := (layerFacts_of_sat inp.st inp.cfg a henc i hi').bin e hee
  have hprod := (binProd_exact a (edgeVar e i) (wVar i) (piVar e i) 0 inp.wmax hbin (hw i hi')).1
    (fun r hr => hrows r (List.mem_append_left _ (List.mem_flatMap.2 ⟨e, he,
      List.mem_flatMap.2 ⟨i, hi, hr⟩⟩)))
  rw [hprod, htrav i hi' e hee]
  grind

theorem kfd_given_exact (inp : FlowInput) (ws : List Rat) (ok : Nat) (a : Asg) (h : BaseWF inp.base)
    (hac : Acyclic inp.base) (hk : inp.cfg.k = ws.length) (hsat : Sat a (kfdGivenLP inp ws ok)) :
    ∃ ps : List (List Node), decodePaths inp.st (fun e i => a (edgeVar e i)) inp.cfg.k = some ps ∧
      ∀ e ∈ inp.activeEdges,
        ((List.range inp.cfg.k).map fun i =>
            ws.getD i 0 * (traversals (inp.st.source :: (ps.getD i []) ++ [inp.st.sink]) e : Rat)).sum
          = inp.f e := by
  have _ := hk
  have hwf : STWF inp.st := augment_wf inp.base inp.starts inp.ends h hac
  have henc : Sat a (encodePaths inp.st inp.cfg) := sat_append_left a _ _ hsat
  obtain ⟨_, hrows⟩ := sat_append_right a _ _ hsat
  simp only at hrows
  obtain ⟨ps, hps, _, htrav⟩ := decode_all inp.st inp.cfg a hwf henc
  refine ⟨ps, hps, ?_⟩
  intro e he
  have hee := mem_activeEdges inp e he
  have hrow := hrows
    (rowEq ((List.range inp.cfg.k).map fun i => (ws.getD i 0, edgeVar e i)) (inp.f e))
    (List.mem_append_left _ (List.mem_map.2 ⟨e, he, rfl⟩))
  have hlo := hrow.1 _ rfl
  have hhi := hrow.2 _ rfl
  simp only [rowEq, evalTerms_map] at hlo hhi
  rw [← Rat.le_antisymm hhi hlo]
  apply sum_map_congr
  intro i hi
  rw [htrav i (List.mem_range.1 hi) e hee]

end FP
