import FP.Proofs.PathCore
/-!
# FP.Proofs.PathCoreExample — the hypotheses of the C01 theorems are satisfiable

A concrete user DAG `a → b → c`, `a → c`; its augmentation; a satisfying assignment of
`encodePaths` selecting the path `a, b, c`; and the decoder's answer on it.
-/
namespace FP.PathCoreExample
open FP FP.Spec

def base : Graph := { nodes := ["a", "b", "c"], edges := [("a", "b"), ("b", "c"), ("a", "c")] }

theorem base_wf : BaseWF base where
  edgesNodup := by decide
  nodesNodup := by decide
  closed := by decide
  freshSrc := by decide
  freshSnk := by decide

def rank : Node → Nat := fun v => if v = "a" then 0 else if v = "b" then 1 else 2

theorem base_acyclic : Acyclic base := ⟨rank, by decide⟩

def st : STGraph := augment base [] []

theorem st_nodes : st.g.nodes = ["a", "b", "c", "source", "sink"] := by decide
theorem st_edges : st.g.edges =
    [("a", "b"), ("a", "c"), ("b", "c"), ("c", "sink"), ("source", "a")] := by decide

theorem st_wf : STWF st := augment_wf base [] [] base_wf base_acyclic

def cfg : PathCfg := { k := 1 }

/-- the indicator of the path `source, a, b, c, sink` in layer 0 -/
def asg : Asg := fun v =>
  if v ∈ [edgeVar ("source", "a") 0, edgeVar ("a", "b") 0, edgeVar ("b", "c") 0, edgeVar ("c", "sink") 0]
  then 1 else 0

theorem asg_bin (v : Var) : asg v = 0 ∨ asg v = 1 := by
  unfold asg; split <;> simp

theorem col01_holds (v : Var) : Col.holds asg { v := v, lb := 0, ub := some 1, isInt := true } := by
  refine ⟨?_, ?_, fun _ => ?_⟩
  · rcases asg_bin v with h | h <;> simp only [h] <;> decide
  · intro u hu
    have : u = 1 := (Option.some.inj hu).symm
    subst this
    rcases asg_bin v with h | h <;> simp only [h] <;> decide
  · rcases asg_bin v with h | h
    · exact ⟨0, by simp [h]⟩
    · exact ⟨1, by simp [h]⟩

theorem rows_eq : (encodePaths st cfg).rows =
    [ rowEq [(1, edgeVar ("source", "a") 0)] 1,
      rowEq ([(1, edgeVar ("source", "a") 0)]
        ++ negTerms [(1, edgeVar ("a", "b") 0), (1, edgeVar ("a", "c") 0)]) 0,
      rowEq ([(1, edgeVar ("a", "b") 0)] ++ negTerms [(1, edgeVar ("b", "c") 0)]) 0,
      rowEq ([(1, edgeVar ("a", "c") 0), (1, edgeVar ("b", "c") 0)]
        ++ negTerms [(1, edgeVar ("c", "sink") 0)]) 0 ] := by
  rfl

/-- the LP of `encodePaths` on the augmented example graph is satisfiable -/
theorem sat_example : Sat asg (encodePaths st cfg) := by
  constructor
  · intro c hc
    simp only [encodePaths, LP.append, subpathBlock, positionBlock, cfg, List.isEmpty_nil, if_true,
      Bool.not_false, List.append_nil, List.mem_flatMap, List.mem_map] at hc
    obtain ⟨i, _, e, _, rfl⟩ := hc
    exact col01_holds _
  · intro r hr
    rw [rows_eq] at hr
    have h1 : asg (edgeVar ("source", "a") 0) = 1 := by decide
    have h2 : asg (edgeVar ("a", "b") 0) = 1 := by decide
    have h3 : asg (edgeVar ("b", "c") 0) = 1 := by decide
    have h4 : asg (edgeVar ("c", "sink") 0) = 1 := by decide
    have h5 : asg (edgeVar ("a", "c") 0) = 0 := by decide
    simp only [List.mem_cons, List.not_mem_nil, or_false] at hr
    rcases hr with rfl | rfl | rfl | rfl <;>
      simp only [Row.holds, rowEq, negTerms, evalTerms, List.map_cons, List.map_nil, List.cons_append,
        List.nil_append, List.sum_cons, List.sum_nil, h1, h2, h3, h4, h5, Option.some.injEq,
        forall_eq'] <;> constructor <;> grind

theorem decode_example : decodeLayer st (fun e i => asg (edgeVar e i)) 0 = some ["a", "b", "c"] := by
  decide

/-- so `pathcore_sound` applies non-vacuously -/
example : ∃ p, decodeLayer st (fun e i => asg (edgeVar e i)) 0 = some p ∧ p ≠ [] :=
  ⟨["a", "b", "c"], decode_example, by decide⟩

example := pathcore_sound st cfg asg st_wf sat_example 0 (by decide)
example := dag_routes_valid base [] [] cfg asg base_wf base_acyclic sat_example 0 (by decide)

end FP.PathCoreExample
