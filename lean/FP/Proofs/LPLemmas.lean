import FP.Model.Wrapper
import FP.Proofs.Wrapper
/-!
# FP.Proofs.LPLemmas — `Sat` through `LP.append`/`foldl`, and the integer × continuous product helper for an
arbitrary (not necessarily natural) bound `ub`, in the "direct" form used by the encoder proofs
-/
namespace FP.GS

theorem sat_empty (a : Asg) : Sat a {} := ⟨fun _ h => by simp at h, fun _ h => by simp at h⟩

theorem sat_append_iff (a : Asg) (A B : LP) : Sat a (A.append B) ↔ Sat a A ∧ Sat a B := by
  constructor
  · intro h
    exact ⟨⟨fun c hc => h.1 c (by simp [LP.append, hc]), fun r hr => h.2 r (by simp [LP.append, hr])⟩,
           ⟨fun c hc => h.1 c (by simp [LP.append, hc]), fun r hr => h.2 r (by simp [LP.append, hr])⟩⟩
  · rintro ⟨hA, hB⟩
    refine ⟨fun c hc => ?_, fun r hr => ?_⟩
    · simp only [LP.append, List.mem_append] at hc
      rcases hc with h | h
      · exact hA.1 c h
      · exact hB.1 c h
    · simp only [LP.append, List.mem_append] at hr
      rcases hr with h | h
      · exact hA.2 r h
      · exact hB.2 r h

theorem sat_foldl_append (a : Asg) (l : List LP) : ∀ base : LP,
    Sat a (l.foldl LP.append base) ↔ Sat a base ∧ ∀ x ∈ l, Sat a x := by
  induction l with
  | nil => intro base; simp
  | cons x xs ih =>
    intro base
    rw [List.foldl_cons, ih, sat_append_iff]
    constructor
    · rintro ⟨⟨h1, h2⟩, h3⟩
      exact ⟨h1, fun y hy => by
        rcases List.mem_cons.1 hy with rfl | hm
        · exact h2
        · exact h3 y hm⟩
    · rintro ⟨h1, h2⟩
      exact ⟨⟨h1, h2 x (List.mem_cons_self ..)⟩, fun y hy => h2 y (List.mem_cons_of_mem _ hy)⟩

theorem sat_rows_only (a : Asg) (rows : List Row) :
    Sat a { rows := rows } ↔ ∀ r ∈ rows, r.holds a :=
  ⟨fun h => h.2, fun h => ⟨fun _ hc => by simp at hc, h⟩⟩

theorem rowEq_holds (a : Asg) (ts : Terms) (c : Rat) : (rowEq ts c).holds a ↔ evalTerms a ts = c := by
  simp only [Row.holds, rowEq]
  constructor
  · rintro ⟨h1, h2⟩
    exact Rat.le_antisymm (h2 c rfl) (h1 c rfl)
  · intro h
    constructor <;> intro x hx <;> cases hx <;> rw [h] <;> exact Rat.le_refl

/-! ### integer × continuous with a rational bound -/

/-- the fragment emitted by `add_integer_continuous_product_constraint` with `nb` bits -/
def intProdG (n c p : Var) (lb ub : Rat) (nb : Nat) (name : String) : LP :=
  let bits := List.range nb
  { cols := bits.map (fun i => { v := bitVar name i, lb := 0, ub := some 1, isInt := true })
         ++ bits.map (fun i => { v := compVar name i, lb := lb, ub := some ub, isInt := false }),
    rows := [rowEq (bits.map (fun i => (((2:Rat)^i), bitVar name i)) ++ [(-1, n)]) 0]
         ++ bits.flatMap (fun i => binProd (bitVar name i) c (compVar name i) lb ub)
         ++ [rowEq (bits.map (fun i => (((2:Rat)^i), compVar name i)) ++ [(-1, p)]) 0] }

/-- number of bit columns `intProdQ` creates for the bound `ub` -/
def qBits (ub : Rat) : Nat :=
  if ub.den = 1 ∧ 0 ≤ ub.num then numBits ub.num.toNat else numBits ub.ceil.toNat

theorem intProd_eq_G (n c p : Var) (lb : Rat) (ubN : Nat) (name : String) :
    intProd n c p lb ubN name = intProdG n c p lb ubN (numBits ubN) name := rfl

theorem rat_of_den_one (q : Rat) (h : q.den = 1) (h0 : 0 ≤ q.num) : ((q.num.toNat : Nat) : Rat) = q := by
  have h1 : ((q.num.toNat : Nat) : Int) = q.num := Int.toNat_of_nonneg h0
  have h2 : ((q.num : Int) : Rat) = q := Rat.ext rfl (id (Eq.symm h))
  rw [← Rat.intCast_natCast, h1, h2]

theorem intProdQ_eq_G (n c p : Var) (lb ub : Rat) (name : String) :
    intProdQ n c p lb ub name = intProdG n c p lb ub (qBits ub) name := by
  unfold intProdQ qBits
  split
  · rename_i h
    rw [intProd_eq_G, rat_of_den_one ub h.1 h.2]
  · rfl

/-- `qBits` bits suffice for every natural number `≤ ub` -/
theorem le_qBits (ub : Rat) (k : Nat) (h : (k : Rat) ≤ ub) : k < 2 ^ qBits ub := by
  unfold qBits
  split
  · rename_i hd
    have := (numBits_spec ub.num.toNat).1
    have h' : (k : Rat) ≤ ((ub.num.toNat : Nat) : Rat) := by rw [rat_of_den_one ub hd.1 hd.2]; exact h
    have := Rat.natCast_le_natCast.1 h'
    omega
  · have := (numBits_spec ub.ceil.toNat).1
    have h1 : (k : Rat) ≤ ((ub.ceil : Int) : Rat) := Rat.le_trans h Rat.le_ceil
    have h2 : ((k : Int) : Rat) ≤ ((ub.ceil : Int) : Rat) := by rw [Rat.intCast_natCast]; exact h1
    have h3 : (k : Int) ≤ ub.ceil := Rat.intCast_le_intCast.1 h2
    omega

theorem intProdG_sound (a : Asg) (n c p : Var) (lb ub : Rat) (nb : Nat) (name : String)
    (hc : lb ≤ a c ∧ a c ≤ ub) (h : Sat a (intProdG n c p lb ub nb name)) :
    a p = a n * a c := by
  obtain ⟨hcols, hrows⟩ := h
  simp only [intProdG] at hcols hrows
  have hbit : ∀ i ∈ List.range nb, a (bitVar name i) = 0 ∨ a (bitVar name i) = 1 := by
    intro i hi
    have := hcols { v := bitVar name i, lb := 0, ub := some 1, isInt := true }
      (List.mem_append_left _ (List.mem_map.2 ⟨i, hi, rfl⟩))
    obtain ⟨h0, h1, hz⟩ := this
    exact int01 _ h0 (h1 1 rfl) (hz rfl)
  have hcomp : ∀ i ∈ List.range nb, a (compVar name i) = a (bitVar name i) * a c := by
    intro i hi
    apply (binProd_exact_aux a (bitVar name i) c (compVar name i) lb ub (hbit i hi) hc).1
    intro r hr
    apply hrows
    apply List.mem_append_left
    apply List.mem_append_right
    exact List.mem_flatMap.2 ⟨i, hi, hr⟩
  have hint := hrows _ (List.mem_append_left _ (List.mem_append_left _ (List.mem_singleton.2 rfl)))
  have hprod := hrows _ (List.mem_append_right _ (List.mem_singleton.2 rfl))
  simp only [Row.holds, rowEq, evalTerms_append, evalTerms_map, evalTerms_single] at hint hprod
  have hint1 := hint.1 0 rfl
  have hint2 := hint.2 0 rfl
  have hprod1 := hprod.1 0 rfl
  have hprod2 := hprod.2 0 rfl
  have hs : ((List.range nb).map (fun i => (2:Rat)^i * a (compVar name i))).sum
      = ((List.range nb).map (fun i => (2:Rat)^i * a (bitVar name i))).sum * a c := by
    rw [← sum_map_mul_right]
    apply sum_map_congr
    intro i hi
    rw [hcomp i hi]; grind
  rw [hs] at hprod1 hprod2
  generalize ((List.range nb).map (fun i => (2:Rat)^i * a (bitVar name i))).sum = S at *
  have hS : S = a n := by grind
  subst hS
  grind

/-- the bit `i` of `k` as a rational -/
def bitOf (k i : Nat) : Rat := ((k / 2^i % 2 : Nat) : Rat)

/-- any assignment that gives the auxiliary columns the binary expansion of the integer factor (and the
matching partial products) satisfies the fragment -/
theorem intProdG_sat (a : Asg) (n c p : Var) (lb ub : Rat) (nb : Nat) (name : String) (k : Nat)
    (hk : a n = k) (hkub : k < 2 ^ nb) (hlb : lb ≤ 0) (hub : 0 ≤ ub)
    (hc : lb ≤ a c ∧ a c ≤ ub) (hp : a p = a n * a c)
    (hbit : ∀ i, i < nb → a (bitVar name i) = bitOf k i)
    (hcomp : ∀ i, i < nb → a (compVar name i) = bitOf k i * a c) :
    Sat a (intProdG n c p lb ub nb name) := by
  have hkmod : k % 2 ^ nb = k := Nat.mod_eq_of_lt hkub
  have hsum : ((List.range nb).map (fun i => (2:Rat)^i * a (bitVar name i))).sum = (k : Rat) := by
    rw [sum_map_congr _ _ (fun i => (2:Rat)^i * ((k / 2^i % 2 : Nat) : Rat))
      (fun i hi => by rw [hbit i (List.mem_range.1 hi)]; rfl), binexp, hkmod]
  have hsumc : ((List.range nb).map (fun i => (2:Rat)^i * a (compVar name i))).sum = (k : Rat) * a c := by
    rw [← hsum, ← sum_map_mul_right]
    apply sum_map_congr
    intro i hi
    rw [hcomp i (List.mem_range.1 hi), hbit i (List.mem_range.1 hi)]; grind
  constructor
  · intro col hcol
    simp only [intProdG] at hcol
    rcases List.mem_append.1 hcol with h | h
    · obtain ⟨i, hi, rfl⟩ := List.mem_map.1 h
      simp only [Col.holds, hbit i (List.mem_range.1 hi), bitOf]
      refine ⟨Rat.natCast_nonneg, ?_, fun _ => ⟨((k / 2^i % 2 : Nat) : Int), rfl⟩⟩
      intro u hu
      cases hu
      rcases natbit01 k i with h | h <;> rw [h] <;> grind
    · obtain ⟨i, hi, rfl⟩ := List.mem_map.1 h
      simp only [Col.holds, hcomp i (List.mem_range.1 hi), bitOf]
      refine ⟨?_, ?_, fun h => by cases h⟩
      · rcases natbit01 k i with h | h <;> rw [h] <;> grind
      · intro u hu
        cases hu
        rcases natbit01 k i with h | h <;> rw [h] <;> grind
  · intro r hr
    simp only [intProdG] at hr
    rcases List.mem_append.1 hr with h | h
    · rcases List.mem_append.1 h with h | h
      · rw [List.mem_singleton.1 h]
        simp only [Row.holds, rowEq, evalTerms_append, evalTerms_map, evalTerms_single, hsum, hk]
        constructor <;> intro x hx <;> cases hx <;> grind
      · obtain ⟨i, hi, hi'⟩ := List.mem_flatMap.1 h
        refine (binProd_exact_aux a (bitVar name i) c (compVar name i) lb ub ?_ hc).2 ?_ r hi'
        · rw [hbit i (List.mem_range.1 hi)]; exact natbit01 k i
        · rw [hcomp i (List.mem_range.1 hi), hbit i (List.mem_range.1 hi)]
    · rw [List.mem_singleton.1 h]
      simp only [Row.holds, rowEq, evalTerms_append, evalTerms_map, evalTerms_single, hsumc, hp, hk]
      constructor <;> intro x hx <;> cases hx <;> grind

/-! ### the integer factor is capped by its bits -/

theorem bits_sum_le (nb : Nat) (f : Nat → Rat) (h01 : ∀ i, i < nb → f i = 0 ∨ f i = 1) :
    ((List.range nb).map fun i => (2:Rat)^i * f i).sum ≤ (2:Rat)^nb - 1 := by
  induction nb with
  | zero => simp; decide +kernel
  | succ nb ih =>
    rw [List.range_succ, List.map_append, List.sum_append]
    have := ih (fun i hi => h01 i (by omega))
    have hp : (2:Rat)^(nb+1) = (2:Rat)^nb * 2 := Rat.pow_succ ..
    have hpos : (0:Rat) ≤ (2:Rat)^nb := Rat.pow_nonneg (by decide)
    simp only [List.map_cons, List.map_nil, List.sum_cons, List.sum_nil]
    rcases h01 nb (by omega) with h | h <;> rw [h, hp] <;> grind

theorem intProdG_factor_le (a : Asg) (n c p : Var) (lb ub : Rat) (nb : Nat) (name : String)
    (h : Sat a (intProdG n c p lb ub nb name)) : a n ≤ (2:Rat)^nb - 1 := by
  obtain ⟨hcols, hrows⟩ := h
  simp only [intProdG] at hcols hrows
  have hbit : ∀ i, i < nb → a (bitVar name i) = 0 ∨ a (bitVar name i) = 1 := by
    intro i hi
    have := hcols { v := bitVar name i, lb := 0, ub := some 1, isInt := true }
      (List.mem_append_left _ (List.mem_map.2 ⟨i, List.mem_range.2 hi, rfl⟩))
    obtain ⟨h0, h1, hz⟩ := this
    exact int01 _ h0 (h1 1 rfl) (hz rfl)
  have hint := hrows _ (List.mem_append_left _ (List.mem_append_left _ (List.mem_singleton.2 rfl)))
  rw [rowEq_holds, evalTerms_append, evalTerms_map, evalTerms_single] at hint
  have := bits_sum_le nb (fun i => a (bitVar name i)) hbit
  grind

theorem nat_le_of_rat_le_pow (c nb : Nat) (h : (c : Rat) ≤ (2:Rat)^nb - 1) : c ≤ 2^nb - 1 := by
  have hpos : 0 < 2^nb := Nat.two_pow_pos nb
  have h1 : ((2^nb : Nat) : Rat) = (2:Rat)^nb := by rw [Rat.natCast_pow]; rfl
  have h2 : ((c + 1 : Nat) : Rat) ≤ ((2^nb : Nat) : Rat) := by
    rw [h1, Rat.natCast_add]; simp; grind
  have := Rat.natCast_le_natCast.1 h2
  omega

end FP.GS
