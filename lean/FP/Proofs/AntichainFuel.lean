import FP.Proofs.Antichain
/-!
# FP.Proofs.AntichainFuel — the fuel `2·|E| + 2` given to the two DFS phases always suffices

Potential: stack length + number of (edge, endpoint) incidences whose endpoint still carries the mark
the phase consumes (`0` in phase 1, `1` in phase 2). Every pop lowers it by at least one.
-/
namespace FP

theorem count_mark {α} (l : List α) (k : α → Node) (vis : Node → Nat) (u : Node) (c new : Nat)
    (hu : vis u = c) (hnew : new ≠ c) :
    (l.filter (fun e => decide (upd vis u new (k e) = c))).length + (l.filter (fun e => decide (k e = u))).length =
      (l.filter (fun e => decide (vis (k e) = c))).length := by
  induction l with
  | nil => simp
  | cons e l ih =>
    simp only [List.filter_cons]
    by_cases hk : k e = u
    · have d1 : decide (upd vis u new (k e) = c) = false := by simp [upd, hk, hnew]
      have d2 : decide (vis (k e) = c) = true := by rw [hk]; simp [hu]
      have d3 : decide (k e = u) = true := by simp [hk]
      simp only [d1, d2, d3, if_true, Bool.false_eq_true, if_false, List.length_cons]
      omega
    · have h1 : upd vis u new (k e) = vis (k e) := by simp [upd, hk]
      have d3 : decide (k e = u) = false := by simp [hk]
      rw [h1]
      by_cases h2 : vis (k e) = c
      · have d2 : decide (vis (k e) = c) = true := by simp [h2]
        simp only [d2, d3, if_true, Bool.false_eq_true, if_false, List.length_cons]
        omega
      · have d2 : decide (vis (k e) = c) = false := by simp [h2]
        simp only [d2, d3, Bool.false_eq_true, if_false]
        omega

/-- potential of a DFS state for the mark `c` -/
def acPhi (a : ACInput) (c : Nat) (stack : List Node) (vis : Node → Nat) : Nat :=
  stack.length + (a.g.edges.filter (fun e => decide (vis e.1 = c))).length
    + (a.g.edges.filter (fun e => decide (vis e.2 = c))).length

theorem succ_length (g : Graph) (u : Node) : (g.succ u).length = (g.edges.filter (fun e => decide (e.1 = u))).length := by
  unfold Graph.succ; simp

theorem pred_length (g : Graph) (u : Node) : (g.pred u).length = (g.edges.filter (fun e => decide (e.2 = u))).length := by
  unfold Graph.pred; simp

theorem acPhi_mark (a : ACInput) (c new : Nat) (hnew : new ≠ c) (u : Node) (rest pushed : List Node)
    (vis : Node → Nat) (hu : vis u = c) (hlen : pushed.length ≤ (a.g.succ u).length + (a.g.pred u).length) :
    acPhi a c (pushed ++ rest) (upd vis u new) + 1 ≤ acPhi a c (u :: rest) vis := by
  unfold acPhi
  have h1 := count_mark a.g.edges (fun e => e.1) vis u c new hu hnew
  have h2 := count_mark a.g.edges (fun e => e.2) vis u c new hu hnew
  rw [succ_length, pred_length] at hlen
  simp only [List.length_append, List.length_cons]
  omega

theorem acPhase1_fuel (a : ACInput) (n : Nat) :
    ∀ (stack : List Node) (vis : Node → Nat), acPhi a 0 stack vis ≤ n → acPhase1 a n stack vis ≠ .ok none := by
  induction n with
  | zero =>
    intro stack vis h
    cases stack with
    | nil => simp [acPhase1]
    | cons u rest => unfold acPhi at h; simp at h
  | succ n ih =>
    intro stack vis h
    cases stack with
    | nil => simp [acPhase1]
    | cons u rest =>
      unfold acPhase1
      by_cases hvu : vis u ≠ 0
      · rw [if_pos hvu]
        apply ih
        unfold acPhi at h ⊢
        simp only [List.length_cons] at h
        omega
      · rw [if_neg hvu]
        by_cases hs : u = a.sink
        · rw [if_pos hs]; simp
        · rw [if_neg hs]
          apply ih
          have hu0 : vis u = 0 := by simpa using hvu
          have := acPhi_mark a 0 1 (by decide) u rest
            ((List.filter (fun v => decide (a.flow (u, v) > a.demand (u, v)) && upd vis u 1 v == 0) (a.g.succ u) ++
              List.filter (fun v => upd vis u 1 v == 0) (a.g.pred u)).reverse) vis hu0 (by
              simp only [List.length_reverse, List.length_append]
              have h1 := List.length_filter_le (fun v => decide (a.flow (u, v) > a.demand (u, v)) && upd vis u 1 v == 0) (a.g.succ u)
              have h2 := List.length_filter_le (fun v => upd vis u 1 v == 0) (a.g.pred u)
              omega)
          omega

theorem acPhase2_fuel (a : ACInput) (n : Nat) :
    ∀ (stack : List Node) (vis : Node → Nat) (acc : List Edge), acPhi a 1 stack vis ≤ n →
      acPhase2 a n stack vis acc ≠ none := by
  induction n with
  | zero =>
    intro stack vis acc h
    cases stack with
    | nil => simp [acPhase2]
    | cons u rest => unfold acPhi at h; simp at h
  | succ n ih =>
    intro stack vis acc h
    cases stack with
    | nil => simp [acPhase2]
    | cons u rest =>
      unfold acPhase2
      by_cases hvu : vis u ≠ 1
      · rw [if_pos hvu]
        apply ih
        unfold acPhi at h ⊢
        simp only [List.length_cons] at h
        omega
      · rw [if_neg hvu]
        apply ih
        have hu1 : vis u = 1 := by simpa using hvu
        have := acPhi_mark a 1 2 (by decide) u rest
          ((List.filter (fun v => decide (a.flow (u, v) > a.demand (u, v)) && upd vis u 2 v == 1) (a.g.succ u) ++
            List.filter (fun v => upd vis u 2 v == 1) (a.g.pred u)).reverse) vis hu1 (by
            simp only [List.length_reverse, List.length_append]
            have h1 := List.length_filter_le (fun v => decide (a.flow (u, v) > a.demand (u, v)) && upd vis u 2 v == 1) (a.g.succ u)
            have h2 := List.length_filter_le (fun v => upd vis u 2 v == 1) (a.g.pred u)
            omega)
        omega

theorem acPhi_init (a : ACInput) (c : Nat) (vis : Node → Nat) : acPhi a c [a.source] vis ≤ acFuel a := by
  unfold acPhi acFuel
  have h1 := List.length_filter_le (fun e => decide (vis e.1 = c)) a.g.edges
  have h2 := List.length_filter_le (fun e => decide (vis e.2 = c)) a.g.edges
  simp only [List.length_cons, List.length_nil]
  omega

/-- **the fuel suffices**: the extraction never reports exhaustion; it either fails the
`assert u != self.sink` or returns an edge list -/
theorem acExtract_fuel (a : ACInput) : acExtract a ≠ .ok none := by
  unfold acExtract
  cases hv : acVisited a with
  | error e => simp
  | ok o =>
    cases o with
    | none =>
      exfalso
      unfold acVisited at hv
      exact acPhase1_fuel a _ _ _ (acPhi_init a 0 _) hv
    | some vis =>
      simp only
      intro h
      have : acPhase2 a (acFuel a) [a.source] vis [] = none := by simpa using h
      exact acPhase2_fuel a _ _ _ _ (acPhi_init a 1 _) this

end FP
