import FP.Model.SafetyAdj
import FP.Proofs.SafetyWalk
/-!
# FP.Proofs.SafetyAdj — adjacency-dict operations, BFS closure, the cut argument
-/
namespace FP.Safety
open FP.Spec
variable {V : Type} [DecidableEq V]

theorem out_nil (v : V) : out ([] : Adj V) v = [] := rfl

theorem out_cons (k : V) (l : List V) (g : Adj V) (v : V) :
    out ((k, l) :: g) v = if v = k then l else out g v := by
  unfold out
  by_cases h : v = k
  · subst h; simp
  · have : (v == k) = false := by simpa using h
    simp [List.lookup_cons, this, h]

theorem keys_updOut (g : Adj V) (v : V) (f : List V → List V) : keys (updOut g v f) = keys g := by
  unfold keys updOut
  rw [List.map_map]
  apply List.map_congr_left
  intro kl _
  by_cases h : kl.1 = v <;> simp [h]

theorem out_updOut_ne (g : Adj V) (v a : V) (f : List V → List V) (h : a ≠ v) :
    out (updOut g v f) a = out g a := by
  induction g with
  | nil => rfl
  | cons kl g ih =>
    obtain ⟨k, l⟩ := kl
    unfold updOut at ih ⊢
    by_cases hk : k = v
    · subst hk; simp only [List.map_cons, if_true, out_cons, if_neg h]; exact ih
    · simp only [List.map_cons, if_neg hk, out_cons]
      by_cases ha : a = k
      · simp [ha]
      · simp only [if_neg ha]; exact ih

theorem out_updOut_self (g : Adj V) (v : V) (f : List V → List V) (h : v ∈ keys g) :
    out (updOut g v f) v = f (out g v) := by
  induction g with
  | nil => simp [keys] at h
  | cons kl g ih =>
    obtain ⟨k, l⟩ := kl
    unfold updOut at ih ⊢
    by_cases hk : k = v
    · subst hk; simp [out_cons]
    · have hk' : v ≠ k := fun e => hk e.symm
      simp only [List.map_cons, if_neg hk, out_cons, if_neg hk']
      apply ih
      simpa [keys, hk'] using h

theorem out_eq_nil_of_not_key (g : Adj V) (v : V) (h : v ∉ keys g) : out g v = [] := by
  induction g with
  | nil => rfl
  | cons kl g ih =>
    obtain ⟨k, l⟩ := kl
    have hk : v ≠ k := by intro e; apply h; simp [keys, e]
    rw [out_cons, if_neg hk]
    apply ih
    intro h'; apply h; simp only [keys, List.map_cons, List.mem_cons]; right; exact h'

theorem out_updOut_self' (g : Adj V) (v : V) (f : List V → List V) (hf : f [] = []) :
    out (updOut g v f) v = f (out g v) := by
  by_cases h : v ∈ keys g
  · exact out_updOut_self g v f h
  · rw [out_eq_nil_of_not_key g v h, hf]
    apply out_eq_nil_of_not_key
    rw [keys_updOut]; exact h

/-- removing list entries only loses the removed edge -/
theorem out_popOut_sub (g : Adj V) (v a b : V) (h : b ∈ out g a) :
    b ∈ out (popOut g v) a ∨ (a = v ∧ (out g v).getLast? = some b) := by
  by_cases hav : a = v
  · subst hav
    unfold popOut
    rw [out_updOut_self' _ _ _ (by simp)]
    rcases List.eq_nil_or_concat (out g a) with h0 | ⟨l, x, hx⟩
    · rw [h0] at h; simp at h
    · rw [List.concat_eq_append] at hx
      rw [hx] at h ⊢
      simp only [List.dropLast_concat, List.mem_append, List.mem_singleton] at h ⊢
      rcases h with h | h
      · left; exact h
      · right; simp [h]
  · left; unfold popOut; rw [out_updOut_ne _ _ _ _ hav]; exact h

theorem out_popOut_mem (g : Adj V) (v a b : V) (h : b ∈ out (popOut g v) a) : b ∈ out g a := by
  by_cases hav : a = v
  · subst hav
    unfold popOut at h
    rw [out_updOut_self' _ _ _ (by simp)] at h
    exact List.dropLast_subset _ h
  · unfold popOut at h; rw [out_updOut_ne _ _ _ _ hav] at h; exact h

theorem out_removeOut_sub (g : Adj V) (v x a b : V) (h : b ∈ out g a) :
    b ∈ out (removeOut g v x) a ∨ (a = v ∧ b = x) := by
  by_cases hav : a = v
  · subst hav
    by_cases hbx : b = x
    · right; exact ⟨rfl, hbx⟩
    · left; unfold removeOut
      rw [out_updOut_self' _ _ _ (by simp)]
      exact (List.mem_erase_of_ne hbx).2 h
  · left; unfold removeOut; rw [out_updOut_ne _ _ _ _ hav]; exact h

theorem out_appendOut_sub (g : Adj V) (v x a b : V) (h : b ∈ out g a) : b ∈ out (appendOut g v x) a := by
  by_cases hav : a = v
  · subst hav
    by_cases hk : a ∈ keys g
    · unfold appendOut; rw [out_updOut_self _ _ _ hk]; simp [h]
    · rw [out_eq_nil_of_not_key g a hk] at h; simp at h
  · unfold appendOut; rw [out_updOut_ne _ _ _ _ hav]; exact h

theorem out_appendOut_new (g : Adj V) (v x : V) (hk : v ∈ keys g) : x ∈ out (appendOut g v x) v := by
  unfold appendOut; rw [out_updOut_self _ _ _ hk]; simp

theorem keys_appendOut (g : Adj V) (v x : V) : keys (appendOut g v x) = keys g := keys_updOut _ _ _
theorem keys_popOut (g : Adj V) (v : V) : keys (popOut g v) = keys g := keys_updOut _ _ _
theorem keys_removeOut (g : Adj V) (v x : V) : keys (removeOut g v x) = keys g := keys_updOut _ _ _

/-! ## well-formedness -/

theorem mem_out_exists (g : Adj V) (a b : V) (h : b ∈ out g a) : ∃ kl ∈ g, kl.1 = a ∧ b ∈ kl.2 := by
  induction g with
  | nil => simp [out_nil] at h
  | cons kl g ih =>
    obtain ⟨k, l⟩ := kl
    rw [out_cons] at h
    by_cases hk : a = k
    · rw [if_pos hk] at h; exact ⟨(k, l), by simp, hk.symm, h⟩
    · rw [if_neg hk] at h
      obtain ⟨kl, h1, h2⟩ := ih h
      exact ⟨kl, List.mem_cons_of_mem _ h1, h2⟩

theorem wfAdj_out (g : Adj V) (s t : V) (h : wfAdj g s t = true) :
    s ∈ keys g ∧ t ∈ keys g ∧ ∀ a b, b ∈ out g a → b ∈ keys g := by
  unfold wfAdj at h
  simp only [Bool.and_eq_true, List.contains_iff_mem, List.all_eq_true] at h
  refine ⟨h.1.1, h.1.2, ?_⟩
  intro a b hb
  obtain ⟨kl, h1, _, h3⟩ := mem_out_exists g a b hb
  exact h.2 kl h1 b h3

end FP.Safety
