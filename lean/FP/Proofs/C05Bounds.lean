import FP.Proofs.C05Base
import FP.Proofs.C05Perm
import FP.Model.WalkSafetyRows
import FP.Proofs.WrapperBase
import FP.Proofs.PathCoreEnc
/-!
# FP.Proofs.C05Bounds — the bound variant of the safety fragment admits what the row variant admits

`applyBounds` models the flushed batch update (`queue_fix_variable` → `LB = UB = value`,
`queue_set_var_lower_bound` → `LB = value`; the last request for a variable wins). For a fragment whose
requests are functional in the variable, address edge columns, stay inside the original bounds and never fix
and bound the same variable (`BoundsOK` — true for every `safetyExtra`, `safetyExtra_boundsOK`):

`sat_walkCoreS_iff` : `Sat a (walkCoreS s c ub fr) ↔ Sat a (encodeWalks s c ub) ∧ (all rows of fr.asRows hold)
                        ∧ Sat a (subsetBlock s (c.withSafety fr) ub)`

and hence `bounds_variant_equiv_proof`.
-/
namespace FP

/-! ## `lookupLast` -/

theorem lookupLast_aux (v : Var) (l : List (Var × Rat)) : ∀ acc : Option Rat, ∀ q,
    l.foldl (fun acc p => if p.1 = v then some p.2 else acc) acc = some q → (v, q) ∈ l ∨ acc = some q := by
  induction l with
  | nil => intro acc q h; exact Or.inr h
  | cons p l ih =>
    intro acc q h
    rw [List.foldl_cons] at h
    rcases ih _ q h with h1 | h1
    · exact Or.inl (List.mem_cons_of_mem _ h1)
    · by_cases hp : p.1 = v
      · rw [if_pos hp] at h1
        injection h1 with h1
        left
        have : p = (v, q) := by rw [← hp, ← h1]
        rw [this]; exact List.mem_cons_self ..
      · rw [if_neg hp] at h1; exact Or.inr h1

theorem lookupLast_mem (l : List (Var × Rat)) (v : Var) (q : Rat) (h : lookupLast l v = some q) :
    (v, q) ∈ l := by
  rcases lookupLast_aux v l none q h with h1 | h1
  · exact h1
  · cases h1

theorem lookupLast_some_aux (v : Var) (l : List (Var × Rat)) : ∀ x : Rat,
    ∃ q', l.foldl (fun acc p => if p.1 = v then some p.2 else acc) (some x) = some q' := by
  induction l with
  | nil => intro x; exact ⟨x, rfl⟩
  | cons p l ih =>
    intro x
    rw [List.foldl_cons]
    by_cases hp : p.1 = v
    · rw [if_pos hp]; exact ih _
    · rw [if_neg hp]; exact ih _

theorem lookupLast_isSome (l : List (Var × Rat)) (v : Var) (q : Rat) (h : (v, q) ∈ l) :
    ∃ q', lookupLast l v = some q' := by
  unfold lookupLast
  suffices ∀ acc : Option Rat,
      ∃ q', l.foldl (fun acc p => if p.1 = v then some p.2 else acc) acc = some q' from this none
  induction l with
  | nil => cases h
  | cons p l ih =>
    intro acc
    rw [List.foldl_cons]
    rcases List.mem_cons.1 h with h1 | h1
    · have hp : p.1 = v := by rw [← h1]
      rw [if_pos hp]; exact lookupLast_some_aux v l _
    · exact ih h1 _

theorem lookupLast_none (l : List (Var × Rat)) (v : Var) (h : ∀ q, (v, q) ∉ l) : lookupLast l v = none := by
  cases hq : lookupLast l v with
  | none => rfl
  | some q => exact absurd (lookupLast_mem l v q hq) (h q)

/-! ## one column -/

theorem c05_rowGe_single_holds (a : Asg) (v : Var) (q : Rat) : (rowGe [(1, v)] q).holds a ↔ q ≤ a v := by
  simp only [Row.holds, rowGe, evalTerms_single]
  constructor
  · intro h; have := h.1 q rfl; grind
  · intro h; exact ⟨fun l hl => by cases hl; grind, fun _ hh => by cases hh⟩

theorem c05_rowEq_single_holds (a : Asg) (v : Var) (q : Rat) : (rowEq [(1, v)] q).holds a ↔ a v = q := by
  simp only [Row.holds, rowEq, evalTerms_single]
  constructor
  · intro h; have h1 := h.1 q rfl; have h2 := h.2 q rfl; grind
  · intro h; exact ⟨fun l hl => by cases hl; grind, fun _ hh => by cases hh; grind⟩

/-- the batch update on a column, against the rows of the requests that address it -/
theorem applyBounds_holds_iff (fr : SafetyFrag) (a : Asg) (col : Col)
    (hfunL : ∀ q q', (col.v, q) ∈ fr.lower → (col.v, q') ∈ fr.lower → q = q')
    (hfunF : ∀ q q', (col.v, q) ∈ fr.fixed → (col.v, q') ∈ fr.fixed → q = q')
    (hdisj : ∀ q q', (col.v, q) ∈ fr.lower → (col.v, q') ∈ fr.fixed → False)
    (hlb : ∀ q, (col.v, q) ∈ fr.lower → col.lb ≤ q)
    (hfx : ∀ q, (col.v, q) ∈ fr.fixed → col.lb ≤ q ∧ ∀ u, col.ub = some u → q ≤ u) :
    (applyBounds fr col).holds a ↔
      col.holds a ∧ (∀ q, (col.v, q) ∈ fr.lower → q ≤ a col.v) ∧ (∀ q, (col.v, q) ∈ fr.fixed → a col.v = q) := by
  unfold applyBounds
  cases hF : lookupLast fr.fixed col.v with
  | none =>
    have hnoF : ∀ q, (col.v, q) ∉ fr.fixed := by
      intro q hq
      obtain ⟨q', hq'⟩ := lookupLast_isSome _ _ _ hq
      rw [hF] at hq'; cases hq'
    cases hL : lookupLast fr.lower col.v with
    | none =>
      have hnoL : ∀ q, (col.v, q) ∉ fr.lower := by
        intro q hq
        obtain ⟨q', hq'⟩ := lookupLast_isSome _ _ _ hq
        rw [hL] at hq'; cases hq'
      simp only
      exact ⟨fun h => ⟨h, fun q hq => absurd hq (hnoL q), fun q hq => absurd hq (hnoF q)⟩, fun h => h.1⟩
    | some ql =>
      have hmem := lookupLast_mem _ _ _ hL
      simp only
      rw [lowerBound_row_equiv_proof a col ql (hlb ql hmem), c05_rowGe_single_holds]
      constructor
      · rintro ⟨h1, h2⟩
        exact ⟨h1, fun q hq => by rw [hfunL q ql hq hmem]; exact h2, fun q hq => absurd hq (hnoF q)⟩
      · rintro ⟨h1, h2, _⟩
        exact ⟨h1, h2 ql hmem⟩
  | some qf =>
    have hmem := lookupLast_mem _ _ _ hF
    have hnoL : ∀ q, (col.v, q) ∉ fr.lower := fun q hq => hdisj q qf hq hmem
    rw [lookupLast_none _ _ hnoL]
    simp only
    rw [fix_row_equiv_proof a col qf (hfx qf hmem).1 (hfx qf hmem).2, c05_rowEq_single_holds]
    constructor
    · rintro ⟨h1, h2⟩
      exact ⟨h1, fun q hq => absurd hq (hnoL q), fun q hq => by rw [hfunF q qf hq hmem]; exact h2⟩
    · rintro ⟨h1, _, h3⟩
      exact ⟨h1, h3 qf hmem⟩

/-! ## the whole LP -/

/-- the queued requests of a fragment are consistent and address edge columns within their bounds -/
structure BoundsOK (s : STGraph) (k : Nat) (ub : Edge → Rat) (fr : SafetyFrag) : Prop where
  lowerKey : ∀ v q, (v, q) ∈ fr.lower → ∃ e i, e ∈ s.g.edges ∧ i < k ∧ v = edgeVar e i ∧ 0 ≤ q
  fixedKey : ∀ v q, (v, q) ∈ fr.fixed → ∃ e i, e ∈ s.g.edges ∧ i < k ∧ v = edgeVar e i ∧ 0 ≤ q ∧ q ≤ ub e
  lowerFun : ∀ v q q', (v, q) ∈ fr.lower → (v, q') ∈ fr.lower → q = q'
  fixedFun : ∀ v q q', (v, q) ∈ fr.fixed → (v, q') ∈ fr.fixed → q = q'
  disjoint : ∀ v q q', (v, q) ∈ fr.lower → (v, q') ∈ fr.fixed → False

theorem mem_asRows (fr : SafetyFrag) (r : Row) :
    r ∈ fr.asRows ↔ r ∈ fr.rows ∨ (∃ p ∈ fr.lower, r = rowGe [(1, p.1)] p.2)
      ∨ (∃ p ∈ fr.fixed, r = rowEq [(1, p.1)] p.2) := by
  simp only [SafetyFrag.asRows, List.mem_append, List.mem_map]
  constructor
  · rintro ((h | ⟨p, hp, rfl⟩) | ⟨p, hp, rfl⟩)
    · exact Or.inl h
    · exact Or.inr (Or.inl ⟨p, hp, rfl⟩)
    · exact Or.inr (Or.inr ⟨p, hp, rfl⟩)
  · rintro (h | ⟨p, hp, rfl⟩ | ⟨p, hp, rfl⟩)
    · exact Or.inl (Or.inl h)
    · exact Or.inl (Or.inr ⟨p, hp, rfl⟩)
    · exact Or.inr ⟨p, hp, rfl⟩

theorem c05_edgeVar_ne_distVar (e : Edge) (i : Nat) (v : Node) (j : Nat) : edgeVar e i ≠ distVar v j := by
  simp [edgeVar, distVar]

theorem c05_edgeVar_ne_selVar (e : Edge) (i : Nat) (e' : Edge) (j : Nat) : edgeVar e i ≠ selVar e' j := by
  simp [edgeVar, selVar]

theorem c05_edgeVar_inj {e e' : Edge} {i j : Nat} (h : edgeVar e i = edgeVar e' j) : e = e' ∧ i = j := by
  unfold edgeVar at h
  injection h with _ h1 h2 h3
  exact ⟨Prod.ext h1 h2, h3⟩

section Whole
variable (s : STGraph) (c : WalkCfg) (ub : Edge → Rat)

/-- `_encode_walks` with the flushed bound changes and the extra rows -/
def encS (fr : SafetyFrag) : LP :=
  { encodeWalks s c ub with
    cols := (encodeWalks s c ub).cols.map (applyBounds fr),
    rows := (encodeWalks s c ub).rows ++ fr.rows }

theorem walkCoreS_eq (fr : SafetyFrag) :
    walkCoreS s c ub fr = (encS s c ub fr).append (subsetBlock s (c.withSafety fr) ub) := rfl

theorem sat_encS_iff (fr : SafetyFrag) (hok : BoundsOK s c.k ub fr) (a : Asg) :
    Sat a (encS s c ub fr) ↔ Sat a (encodeWalks s c ub) ∧ ∀ r ∈ fr.asRows, r.holds a := by
  -- per column
  have hcolE : ∀ e ∈ s.g.edges, ∀ i, i < c.k →
      ((applyBounds fr { v := edgeVar e i, lb := 0, ub := some (ub e), isInt := true }).holds a ↔
        (({ v := edgeVar e i, lb := 0, ub := some (ub e), isInt := true } : Col).holds a ∧
          (∀ q, (edgeVar e i, q) ∈ fr.lower → q ≤ a (edgeVar e i)) ∧
          (∀ q, (edgeVar e i, q) ∈ fr.fixed → a (edgeVar e i) = q))) := by
    intro e he i hi
    apply applyBounds_holds_iff fr a _ (hok.lowerFun _) (hok.fixedFun _) (hok.disjoint _)
    · intro q hq
      obtain ⟨_, _, _, _, _, h0⟩ := hok.lowerKey _ q hq
      exact h0
    · intro q hq
      obtain ⟨e', i', _, _, hv, h0, h1⟩ := hok.fixedKey _ q hq
      obtain ⟨rfl, _⟩ := c05_edgeVar_inj hv
      exact ⟨h0, fun u hu => by cases hu; exact h1⟩
  have hcolOther : ∀ col : Col, (∀ e i, col.v ≠ edgeVar e i) → applyBounds fr col = col := by
    intro col hne
    have h1 : lookupLast fr.fixed col.v = none := lookupLast_none _ _ (fun q hq => by
      obtain ⟨e, i, _, _, hv, _⟩ := hok.fixedKey _ q hq
      exact hne e i hv)
    have h2 : lookupLast fr.lower col.v = none := lookupLast_none _ _ (fun q hq => by
      obtain ⟨e, i, _, _, hv, _⟩ := hok.lowerKey _ q hq
      exact hne e i hv)
    unfold applyBounds
    rw [h1, h2]
  -- the three column families
  have hcols : ∀ col ∈ (encodeWalks s c ub).cols,
      (∃ e ∈ s.g.edges, ∃ i, i < c.k ∧ col = { v := edgeVar e i, lb := 0, ub := some (ub e), isInt := true })
      ∨ (∀ e i, col.v ≠ edgeVar e i) := by
    intro col hcol
    obtain ⟨i, hi, hc⟩ := (mem_encCols s c ub col).1 hcol
    simp only [encColsAt, List.mem_append, List.mem_map] at hc
    rcases hc with (⟨e, he, rfl⟩ | ⟨v, _, rfl⟩) | ⟨e, _, rfl⟩
    · exact Or.inl ⟨e, he, i, hi, rfl⟩
    · exact Or.inr (fun e' i' h => c05_edgeVar_ne_distVar e' i' v i h.symm)
    · exact Or.inr (fun e' i' h => c05_edgeVar_ne_selVar e' i' e i h.symm)
  have hedgecol : ∀ e ∈ s.g.edges, ∀ i, i < c.k →
      ({ v := edgeVar e i, lb := 0, ub := some (ub e), isInt := true } : Col) ∈ (encodeWalks s c ub).cols := by
    intro e he i hi
    apply (mem_encCols s c ub _).2
    refine ⟨i, hi, ?_⟩
    simp only [encColsAt, List.mem_append, List.mem_map]
    exact Or.inl (Or.inl ⟨e, he, rfl⟩)
  constructor
  · intro h
    have hrows : ∀ r ∈ (encodeWalks s c ub).rows, r.holds a := fun r hr =>
      h.2 r (by show r ∈ (encodeWalks s c ub).rows ++ fr.rows; exact List.mem_append_left _ hr)
    have hfr : ∀ r ∈ fr.rows, r.holds a := fun r hr =>
      h.2 r (by show r ∈ (encodeWalks s c ub).rows ++ fr.rows; exact List.mem_append_right _ hr)
    have hmod : ∀ col ∈ (encodeWalks s c ub).cols, (applyBounds fr col).holds a := fun col hcol =>
      h.1 _ (by show applyBounds fr col ∈ (encodeWalks s c ub).cols.map (applyBounds fr)
                exact List.mem_map_of_mem hcol)
    refine ⟨⟨?_, hrows⟩, ?_⟩
    · intro col hcol
      rcases hcols col hcol with ⟨e, he, i, hi, rfl⟩ | hne
      · exact ((hcolE e he i hi).1 (hmod _ hcol)).1
      · have := hmod col hcol
        rw [hcolOther col hne] at this; exact this
    · intro r hr
      rcases (mem_asRows fr r).1 hr with h1 | ⟨p, hp, rfl⟩ | ⟨p, hp, rfl⟩
      · exact hfr r h1
      · obtain ⟨e, i, he, hi, hv, _⟩ := hok.lowerKey p.1 p.2 hp
        rw [c05_rowGe_single_holds, hv]
        have := ((hcolE e he i hi).1 (hmod _ (hedgecol e he i hi))).2.1 p.2 (by rw [← hv]; exact hp)
        exact this
      · obtain ⟨e, i, he, hi, hv, _⟩ := hok.fixedKey p.1 p.2 hp
        rw [c05_rowEq_single_holds, hv]
        exact ((hcolE e he i hi).1 (hmod _ (hedgecol e he i hi))).2.2 p.2 (by rw [← hv]; exact hp)
  · rintro ⟨h, hrows⟩
    constructor
    · intro col' hcol'
      have hcol' : col' ∈ (encodeWalks s c ub).cols.map (applyBounds fr) := hcol'
      obtain ⟨col, hcol, rfl⟩ := List.mem_map.1 hcol'
      rcases hcols col hcol with ⟨e, he, i, hi, rfl⟩ | hne
      · apply (hcolE e he i hi).2
        refine ⟨h.1 _ hcol, ?_, ?_⟩
        · intro q hq
          have := hrows _ ((mem_asRows fr _).2 (Or.inr (Or.inl ⟨(edgeVar e i, q), hq, rfl⟩)))
          exact (c05_rowGe_single_holds a _ _).1 this
        · intro q hq
          have := hrows _ ((mem_asRows fr _).2 (Or.inr (Or.inr ⟨(edgeVar e i, q), hq, rfl⟩)))
          exact (c05_rowEq_single_holds a _ _).1 this
      · rw [hcolOther col hne]; exact h.1 col hcol
    · intro r hr
      have hr : r ∈ (encodeWalks s c ub).rows ++ fr.rows := hr
      rcases List.mem_append.1 hr with h1 | h1
      · exact h.2 r h1
      · exact hrows r ((mem_asRows fr r).2 (Or.inl h1))

theorem sat_walkCoreS_iff (fr : SafetyFrag) (hok : BoundsOK s c.k ub fr) (a : Asg) :
    Sat a (walkCoreS s c ub fr) ↔
      Sat a (encodeWalks s c ub) ∧ (∀ r ∈ fr.asRows, r.holds a) ∧
      Sat a (subsetBlock s (c.withSafety fr) ub) := by
  rw [walkCoreS_eq]
  constructor
  · intro h
    have h1 := (sat_encS_iff s c ub fr hok a).1 (sat_append_left a _ _ h)
    exact ⟨h1.1, h1.2, sat_append_right a _ _ h⟩
  · rintro ⟨h1, h2, h3⟩
    have := (sat_encS_iff s c ub fr hok a).2 ⟨h1, h2⟩
    exact ⟨fun col hc => (List.mem_append.1 hc).elim (this.1 col) (h3.1 col),
           fun r hr => (List.mem_append.1 hr).elim (this.2 r) (h3.2 r)⟩

/-- the row variant of a fragment -/
def SafetyFrag.rowVariant (fr : SafetyFrag) : SafetyFrag :=
  { fr with rows := fr.asRows, lower := [], fixed := [] }

theorem rowVariant_boundsOK (fr : SafetyFrag) : BoundsOK s c.k ub (SafetyFrag.rowVariant fr) :=
  ⟨fun _ _ h => by simp [SafetyFrag.rowVariant] at h, fun _ _ h => by simp [SafetyFrag.rowVariant] at h,
   fun _ _ _ h => by simp [SafetyFrag.rowVariant] at h, fun _ _ _ h => by simp [SafetyFrag.rowVariant] at h,
   fun _ _ _ h => by simp [SafetyFrag.rowVariant] at h⟩

/-- **`bounds_variant_equiv`**: fixing through variable bounds admits exactly the assignments that fixing
through rows admits -/
theorem bounds_variant_equiv_proof (fr : SafetyFrag) (hok : BoundsOK s c.k ub fr) (a : Asg) :
    Sat a (walkCoreS s c ub fr) ↔ Sat a (walkCoreS s c ub (SafetyFrag.rowVariant fr)) := by
  rw [sat_walkCoreS_iff s c ub fr hok, sat_walkCoreS_iff s c ub _ (rowVariant_boundsOK s c ub fr)]
  have h1 : (SafetyFrag.rowVariant fr).asRows = fr.asRows := by
    simp [SafetyFrag.rowVariant, SafetyFrag.asRows]
  have h2 : c.withSafety (SafetyFrag.rowVariant fr) = c.withSafety fr := rfl
  rw [h1, h2]

end Whole

end FP
