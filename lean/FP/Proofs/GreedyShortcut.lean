import FP.Model.GreedyShortcut
import FP.Model.Search
import FP.Proofs.GreedyExact
import FP.Proofs.C17Example
/-!
# FP.Proofs.GreedyShortcut — the greedy shortcut of `kFlowDecomp` returns a minimum decomposition
-/
namespace FP
open FP.Spec FP.Search

/-- `D` (paths with weights) is a decomposition of `f` on the DAG `g`: source-to-sink paths, non-negative
weights, `Σ_i w_i · [e ∈ p_i] = f(e)` on every edge -/
structure IsPathDecomp (g : Graph) (f : Edge → Rat) (D : List (List Node × Rat)) : Prop where
  paths : ∀ pw ∈ D, IsSTPath g pw.1 ∧ 0 ≤ pw.2
  explains : ∀ e ∈ g.edges, peeledSum D e = f e

theorem peeledSum_append (A B : List (List Node × Rat)) (e : Edge) :
    peeledSum (A ++ B) e = peeledSum A e + peeledSum B e := by
  unfold peeledSum
  rw [List.map_append, List.sum_append]

theorem peeledSum_replicate_zero (n : Nat) (p : List Node) (e : Edge) :
    peeledSum (List.replicate n (p, (0 : Rat))) e = 0 := by
  induction n with
  | zero => simp [peeledSum]
  | succ n ih =>
    have : peeledSum (List.replicate (n + 1) (p, (0 : Rat))) e =
        0 * (((walkEdges p).count e : Nat) : Rat) + peeledSum (List.replicate n (p, (0 : Rat))) e := by
      simp [peeledSum, List.replicate_succ]
    rw [this, ih]; grind

theorem zip_map_fst_snd {α β} (l : List (α × β)) : (l.map (·.1)).zip (l.map (·.2)) = l := by
  induction l with
  | nil => rfl
  | cons a l ih => simp [ih]

theorem zip_pad (l : List (List Node × Rat)) (n : Nat) (p : List Node) :
    (l.map (·.1) ++ List.replicate n p).zip (l.map (·.2) ++ List.replicate n (0 : Rat)) =
      l ++ List.replicate n (p, 0) := by
  rw [List.zip_append (by simp), zip_map_fst_snd, List.zip_replicate']

/-- what firing means, unfolded -/
theorem greedyShortcut_some (x : GSIn) (ps : List (List Node)) (ws : List Rat)
    (h : greedyShortcut x = some (ps, ws)) :
    gsGuard x = true ∧ ∃ r pw0 rest, decompose x.g x.f x.topo = .done r ∧ r.paths = pw0 :: rest ∧
      gsConstraintFails x (r.paths.map (·.1)) = false ∧ r.paths.length ≤ x.k ∧
      ps = r.paths.map (·.1) ++ List.replicate (x.k - r.paths.length) pw0.1 ∧
      ws = r.paths.map (·.2) ++ List.replicate (x.k - r.paths.length) 0 := by
  unfold greedyShortcut at h
  by_cases hg : gsGuard x = true
  · simp only [hg, Bool.not_true, Bool.false_eq_true, if_false] at h
    refine ⟨hg, ?_⟩
    cases hd : decompose x.g x.f x.topo with
    | stuck => rw [hd] at h; simp at h
    | done r =>
      rw [hd] at h
      simp only at h
      cases hp : r.paths with
      | nil => rw [hp] at h; simp at h
      | cons pw0 rest =>
        rw [hp] at h
        simp only at h
        by_cases hc : gsConstraintFails x ((pw0 :: rest).map (·.1)) = true
        · rw [if_pos hc] at h; simp at h
        · rw [if_neg hc] at h
          by_cases hk : (pw0 :: rest).length ≤ x.k
          · rw [if_pos hk] at h
            simp only [Option.some.injEq, Prod.mk.injEq] at h
            refine ⟨r, pw0, rest, rfl, hp, ?_, ?_, ?_, ?_⟩
            · rw [hp]; simpa using hc
            · rw [hp]; exact hk
            · rw [hp]; exact h.1.symm
            · rw [hp]; exact h.2.symm
          · rw [if_neg hk] at h; simp at h
  · simp [hg] at h

/-- **soundness of the shortcut.** -/
theorem greedy_shortcut_sound_proof (x : GSIn) (hnd : x.g.edges.Nodup) (htopo : IsTopo x.g.edges x.topo)
    (hnn : ∀ e ∈ x.g.edges, 0 ≤ x.f e) (hc : Conserving x.g x.f)
    (ps : List (List Node)) (ws : List Rat) (h : greedyShortcut x = some (ps, ws)) :
    ps.length = x.k ∧ ws.length = x.k ∧ 1 ≤ x.k ∧ IsPathDecomp x.g x.f (ps.zip ws) ∧
    ∃ r, decompose x.g x.f x.topo = .done r ∧ 1 ≤ r.paths.length ∧ r.paths.length ≤ x.k ∧
      IsPathDecomp x.g x.f r.paths ∧ (∀ pw ∈ r.paths, 0 < pw.2) ∧
      ps.take r.paths.length = r.paths.map (·.1) ∧ ws.take r.paths.length = r.paths.map (·.2) ∧
      (∀ w ∈ ws.drop r.paths.length, w = 0) ∧ (r.paths.length = x.k → ∀ w ∈ ws, 0 < w) := by
  obtain ⟨_, r, pw0, rest, hd, hp, _, hk, hps, hws⟩ := greedyShortcut_some x ps ws h
  obtain ⟨r', hd', _, hsum, hpos⟩ := decompose_exact x.g hnd x.topo htopo x.f hnn hc
  rw [hd] at hd'
  cases hd'
  have hlen1 : 1 ≤ r.paths.length := by rw [hp]; simp
  have hrd : IsPathDecomp x.g x.f r.paths :=
    ⟨fun pw hpw => ⟨(hpos pw hpw).1, Rat.le_of_lt (hpos pw hpw).2⟩, hsum⟩
  have hpw0 : pw0 ∈ r.paths := by rw [hp]; simp
  refine ⟨by rw [hps]; simp; omega, by rw [hws]; simp; omega, by omega, ?_, r, hd, hlen1, hk, hrd, fun pw hpw => (hpos pw hpw).2,
    by rw [hps]; simp, by rw [hws]; simp, ?_, ?_⟩
  · rw [hps, hws, zip_pad]
    constructor
    · intro pw hpw
      rcases List.mem_append.1 hpw with hm | hm
      · exact hrd.paths pw hm
      · have := (List.mem_replicate.1 hm).2
        subst this
        exact ⟨(hpos pw0 hpw0).1, Rat.le_refl⟩
    · intro e he
      rw [peeledSum_append, peeledSum_replicate_zero, hsum e he]; grind
  · intro w hw
    rw [hws] at hw
    simp at hw
    exact hw.2
  · intro heq w hw
    rw [hws, heq] at hw
    simp at hw
    obtain ⟨a, hab⟩ := hw
    exact (hpos (a, w) hab).2

/-- **minimality.** `lb` a valid lower bound on the size of any decomposition (the contract of the width
oracle), shortcut fired with `k ≤ lb`: no decomposition has fewer than `k` paths, the greedy paths are
exactly `k` and all returned weights are positive. -/
theorem greedy_shortcut_minimal_proof (x : GSIn) (hnd : x.g.edges.Nodup) (htopo : IsTopo x.g.edges x.topo)
    (hnn : ∀ e ∈ x.g.edges, 0 ≤ x.f e) (hc : Conserving x.g x.f) (lb : Nat)
    (hlb : ∀ D, IsPathDecomp x.g x.f D → lb ≤ D.length) (hk : x.k ≤ lb)
    (ps : List (List Node)) (ws : List Rat) (h : greedyShortcut x = some (ps, ws)) :
    IsPathDecomp x.g x.f (ps.zip ws) ∧ (ps.zip ws).length = x.k ∧ (∀ w ∈ ws, 0 < w) ∧
    (∀ D, IsPathDecomp x.g x.f D → x.k ≤ D.length) := by
  obtain ⟨h1, h2, _, h4, r, _, _, hrk, hrd, _, _, _, _, hall⟩ :=
    greedy_shortcut_sound_proof x hnd htopo hnn hc ps ws h
  have := hlb r.paths hrd
  refine ⟨h4, by simp [h1, h2], hall (by omega), fun D hD => ?_⟩
  have := hlb D hD
  omega

/-- **agreement with the search loop.** A solver script that reports `optimal` whenever a decomposition
into `j` paths exists makes the search `range(k, hi)` stop at `k` — the value the shortcut answers with. -/
theorem shortcut_agrees_with_search_proof (x : GSIn) (hnd : x.g.edges.Nodup) (htopo : IsTopo x.g.edges x.topo)
    (hnn : ∀ e ∈ x.g.edges, 0 ≤ x.f e) (hc : Conserving x.g x.f)
    (σ : Nat → Status) (hσ : ∀ j, (∃ D, IsPathDecomp x.g x.f D ∧ D.length = j) → σ j = .optimal)
    (hi : Nat) (hhi : x.k < hi)
    (ps : List (List Node)) (ws : List Rat) (h : greedyShortcut x = some (ps, ws)) :
    (stopSearch σ x.k hi).solved = some (ps.zip ws).length := by
  obtain ⟨h1, h2, _, h4, _⟩ := greedy_shortcut_sound_proof x hnd htopo hnn hc ps ws h
  have hlen : (ps.zip ws).length = x.k := by simp [h1, h2]
  have hopt := hσ x.k ⟨_, h4, hlen⟩
  unfold stopSearch
  obtain ⟨n, hn⟩ : ∃ n, hi - x.k = n + 1 := ⟨hi - x.k - 1, by omega⟩
  rw [hn, hlen]
  simp [stopLoop, hopt]

theorem occ_cons (el : Edge × Rat) (con : List (Edge × Rat)) (p : List Node) :
    occurrence (el :: con) p = (if (walkEdges p).contains el.1 then el.2 else 0) + occurrence con p := by
  simp [occurrence]

theorem len_cons (el : Edge × Rat) (con : List (Edge × Rat)) : conLength (el :: con) = el.2 + conLength con := by
  simp [conLength]

theorem occ_bounds (p : List Node) (con : List (Edge × Rat)) (hpos : ∀ el ∈ con, 0 < el.2) :
    0 ≤ occurrence con p ∧ occurrence con p ≤ conLength con ∧
    ((∃ el ∈ con, el.1 ∉ walkEdges p) → occurrence con p < conLength con) := by
  induction con with
  | nil => simp [occurrence, conLength]
  | cons el con ih =>
    have hel := hpos el (by simp)
    obtain ⟨i1, i2, i3⟩ := ih (fun e he => hpos e (by simp [he]))
    rw [occ_cons, len_cons]
    by_cases hc : (walkEdges p).contains el.1 = true
    · rw [if_pos hc]
      refine ⟨by grind, by grind, ?_⟩
      rintro ⟨e, he, hne⟩
      rcases List.mem_cons.1 he with rfl | he'
      · exact absurd (List.contains_iff_mem.1 hc) hne
      · have := i3 ⟨e, he', hne⟩; grind
    · rw [if_neg hc]
      refine ⟨by grind, by grind, fun _ => by grind⟩

theorem fold_lt (con : List (Edge × Rat)) (L : Rat) (paths : List (List Node)) :
    ∀ m, m < L → (∀ p ∈ paths, occurrence con p < L) →
      paths.foldl (fun m p => if occurrence con p > m then occurrence con p else m) m < L := by
  induction paths with
  | nil => intro m hm _; simpa using hm
  | cons p ps ih =>
    intro m hm h
    simp only [List.foldl_cons]
    apply ih
    · split
      · exact h p (by simp)
      · exact hm
    · exact fun q hq => h q (by simp [hq])

/-- **subpath constraints.** Coverage fraction 1 (in edges or in positive lengths): when the shortcut fires,
every subpath constraint is contained in one of the returned paths. -/
theorem greedy_shortcut_constraints_proof (x : GSIn) (hcov : x.coverage = 1)
    (hlen : ∀ con ∈ x.constraints, ∀ el ∈ con, 0 < el.2)
    (ps : List (List Node)) (ws : List Rat) (h : greedyShortcut x = some (ps, ws)) :
    ∀ con ∈ x.constraints, ∃ p ∈ ps, ∀ el ∈ con, el.1 ∈ walkEdges p := by
  obtain ⟨_, r, pw0, rest, _, hp, hcf, _, hps, _⟩ := greedyShortcut_some x ps ws h
  intro con hcon
  apply Classical.byContradiction
  intro hno
  have hall : ∀ p ∈ r.paths.map (·.1), ∃ el ∈ con, el.1 ∉ walkEdges p := by
    intro p hpm
    apply Classical.byContradiction
    intro hn
    apply hno
    refine ⟨p, by rw [hps]; exact List.mem_append_left _ hpm, fun el hel => ?_⟩
    apply Classical.byContradiction
    intro hne
    exact hn ⟨el, hel, hne⟩
  have hp0 : pw0.1 ∈ r.paths.map (·.1) := by rw [hp]; simp
  have hb0 := occ_bounds pw0.1 con (hlen con hcon)
  have hL : (0 : Rat) < conLength con := by
    have := hb0.2.2 (hall _ hp0); grind
  have hlt : maxOccurrence con (r.paths.map (·.1)) < conLength con :=
    fold_lt con _ _ 0 hL (fun p hpm => (occ_bounds p con (hlen con hcon)).2.2 (hall p hpm))
  have : gsConstraintFails x (r.paths.map (·.1)) = true := by
    unfold gsConstraintFails
    rw [List.any_eq_true]
    refine ⟨con, hcon, ?_⟩
    rw [hcov]
    simp only [decide_eq_true_eq]
    grind
  rw [hcf] at this
  exact absurd this (by simp)

end FP
