import Std.Data.String.ToNat
import FP.Model.SafetyFix
import FP.Spec.Substrate
import FP.Proofs.SafetyIncompat
import FP.Proofs.C06IncompatWalk
/-!
# FP.Proofs.C06IncompatCond — walks of the digraph project to the expanded condensation

`Cond.expandedEdge` sends a graph edge to its edge of the expanded condensation
(`stDiGraph._edge_to_condensation_expanded_edge`). The edge set of the expanded condensation built by
`_build_condensation_expanded` is exactly the image of the graph edges (`condExpEdges`): a member edge of a
component gives `(str(c), str(c) + "_expanded")`, an edge between components `(out-name, str(c'))`.

* `c06i_proj` — reachability in the digraph projects to reachability in the expanded condensation;
* `c06i_antichainHyp` — if `mapping` numbers the strongly connected components (`SccLabelling`) and the members
  of the antichain are pairwise unreachable in the expanded condensation (`CondAntichain`, the contract that C17
  proves for the extraction of `compute_max_edge_antichain`), no source-to-sink walk traverses two graph edges
  of two different members, nor two parallel graph edges of one inter-SCC member (`AntichainHyp`).
-/
namespace FP.Safety
open FP FP.Spec

/-- `mapping` numbers the strongly connected components: two nodes of the graph carry the same number iff they
are mutually reachable (the contract of `nx.condensation(G).graph["mapping"]`) -/
def SccLabelling (c : Cond) : Prop :=
  ∀ u ∈ c.g.nodes, ∀ v ∈ c.g.nodes, (c.scc u = c.scc v ↔ Reach c.g.edges u v ∧ Reach c.g.edges v u)

/-- the edges of the expanded condensation (`self._condensation_expanded` before its own source / sink are
added): the images of the graph edges -/
def condExpEdges (c : Cond) : List (String × String) := c.g.edges.map c.expandedEdge

/-- the members are pairwise unreachable in the expanded condensation: the head of none reaches the tail of
another one -/
def CondAntichain (c : Cond) (anti : List (String × String)) : Prop :=
  ∀ a ∈ anti, ∀ b ∈ anti, a ≠ b → ¬ Reach (condExpEdges c) a.2 b.1

theorem c06i_reach_mono {V : Type} {es es' : List (V × V)} (hsub : ∀ e ∈ es, e ∈ es') {x y : V}
    (h : Reach es x y) : Reach es' x y := by
  induction h with
  | refl => exact Reach.refl _
  | step _ he ih => exact Reach.step ih (hsub _ he)

/-- the C17 contract (`antichain_sound`: `IsEdgeAntichain` in the DAG handed to `compute_max_edge_antichain`,
which contains the expanded condensation) gives `CondAntichain` -/
theorem c06i_condAntichain_of_isEdgeAntichain (c : Cond) (G : Graph) (anti : List (String × String))
    (hsub : ∀ e ∈ c.g.edges, c.expandedEdge e ∈ G.edges) (h : IsEdgeAntichain G anti) : CondAntichain c anti := by
  intro a ha b hb hab hr
  have hr' : Reach G.edges a.2 b.1 := c06i_reach_mono (fun e he => by
    obtain ⟨e', he', rfl⟩ := List.mem_map.1 he
    exact hsub e' he') hr
  have hp := List.pairwise_iff_getElem.1 h.2
  obtain ⟨i, hi, rfl⟩ := List.mem_iff_getElem.1 ha
  obtain ⟨j, hj, rfl⟩ := List.mem_iff_getElem.1 hb
  rcases Nat.lt_trichotomy i j with hlt | heq | hgt
  · exact hp i j hi hj hlt (Or.inl hr')
  · subst heq; exact hab rfl
  · exact hp j i hj hi hgt (Or.inr hr')

/-! ## names -/

theorem c06i_toString_inj {m n : Nat} (h : toString m = toString n) : m = n :=
  Nat.repr_injective h

theorem c06i_expandedName_inj {m n : Nat} (h : expandedName m = expandedName n) : m = n := by
  unfold expandedName at h
  exact c06i_toString_inj ((String.append_left_inj _).1 h)

theorem c06i_expandedName_ne (m n : Nat) : expandedName m ≠ toString n := by
  intro h
  have h' := congrArg String.toList h
  unfold expandedName at h'
  rw [String.toList_append] at h'
  have hmem : '_' ∈ (toString n).toList := by
    rw [← h']; simp
  have hmem' : '_' ∈ Nat.toDigits 10 n := by
    have : (toString n).toList = Nat.toDigits 10 n := Nat.toList_repr
    rwa [this] at hmem
  have := Nat.isDigit_of_mem_toDigits (by decide) (by decide) hmem'
  revert this; decide

/-- name under which a component is entered -/
def inName (c : Cond) (v : Node) : String := toString (c.scc v)
/-- name under which a component is left -/
def outName (c : Cond) (v : Node) : String :=
  if c.nontrivial (c.scc v) then expandedName (c.scc v) else toString (c.scc v)

theorem c06i_expandedEdge_inter (c : Cond) (e : Edge) (h : c.scc e.1 ≠ c.scc e.2) :
    c.expandedEdge e = (outName c e.1, inName c e.2) := by
  unfold Cond.expandedEdge outName inName
  simp only [ne_eq, h, not_false_eq_true, if_true]

theorem c06i_expandedEdge_intra (c : Cond) (e : Edge) (h : c.scc e.1 = c.scc e.2) :
    c.expandedEdge e = (inName c e.1, expandedName (c.scc e.1)) := by
  unfold Cond.expandedEdge inName
  simp only [ne_eq, h, not_true_eq_false, if_false]

theorem c06i_isSccEdge_intra (c : Cond) (e : Edge) (h : c.scc e.1 = c.scc e.2) :
    Cond.isSccEdge (c.expandedEdge e) = true := by
  rw [c06i_expandedEdge_intra c e h]
  unfold Cond.isSccEdge inName expandedName
  simp

theorem c06i_nontrivial_of_intra (c : Cond) (e : Edge) (he : e ∈ c.g.edges) (h : c.scc e.1 = c.scc e.2) :
    c.nontrivial (c.scc e.1) = true := by
  unfold Cond.nontrivial
  exact List.any_eq_true.2 ⟨e, he, by simp [h]⟩

theorem c06i_outName_intra (c : Cond) (e : Edge) (he : e ∈ c.g.edges) (h : c.scc e.1 = c.scc e.2) :
    outName c e.2 = expandedName (c.scc e.1) := by
  unfold outName
  rw [← h, c06i_nontrivial_of_intra c e he h]
  simp

/-- inside the expanded condensation the in-name of a component reaches its out-name -/
theorem c06i_in_out (c : Cond) (v : Node) : Reach (condExpEdges c) (inName c v) (outName c v) := by
  unfold outName
  by_cases hn : c.nontrivial (c.scc v) = true
  · rw [if_pos hn]
    unfold Cond.nontrivial at hn
    obtain ⟨e, he, hh⟩ := List.any_eq_true.1 hn
    simp only [Bool.and_eq_true, decide_eq_true_eq] at hh
    have hintra : c.scc e.1 = c.scc e.2 := hh.1.trans hh.2.symm
    have hmem : c.expandedEdge e ∈ condExpEdges c := List.mem_map.2 ⟨e, he, rfl⟩
    rw [c06i_expandedEdge_intra c e hintra] at hmem
    unfold inName at hmem ⊢
    rw [hh.1] at hmem
    exact Reach.step (Reach.refl _) hmem
  · rw [if_neg hn]; exact Reach.refl _

/-- **projection.** Reachability in the digraph projects to the expanded condensation: in-name to in-name,
out-name to out-name, and — unless the two nodes carry the same number — out-name to in-name. -/
theorem c06i_proj (c : Cond) {x y : Node} (h : Reach c.g.edges x y) :
    Reach (condExpEdges c) (inName c x) (inName c y) ∧ Reach (condExpEdges c) (outName c x) (outName c y) ∧
      (c.scc x = c.scc y ∨ Reach (condExpEdges c) (outName c x) (inName c y)) := by
  induction h with
  | refl => exact ⟨Reach.refl _, Reach.refl _, Or.inl rfl⟩
  | @step y z _ he ih =>
    obtain ⟨h1, h2, h3⟩ := ih
    by_cases hyz : c.scc y = c.scc z
    · have hin : inName c z = inName c y := by unfold inName; rw [hyz]
      have hout : outName c z = outName c y := by unfold outName; rw [hyz]
      rw [hin, hout]
      exact ⟨h1, h2, by rw [← hyz]; exact h3⟩
    · have hmem : c.expandedEdge (y, z) ∈ condExpEdges c := List.mem_map.2 ⟨(y, z), he, rfl⟩
      rw [c06i_expandedEdge_inter c (y, z) hyz] at hmem
      have hoi : Reach (condExpEdges c) (outName c x) (inName c z) := Reach.step h2 hmem
      exact ⟨Reach.step (reach_trans h1 (c06i_in_out c y)) hmem, reach_trans hoi (c06i_in_out c z), Or.inr hoi⟩

/-- a graph edge taken before another one on a walk: the members are comparable in the expanded condensation -/
theorem c06i_members_comparable (c : Cond) (e1 e2 : Edge) (he1 : e1 ∈ c.g.edges)
    (hr : Reach c.g.edges e1.2 e2.1) (hab : c.expandedEdge e1 ≠ c.expandedEdge e2) :
    Reach (condExpEdges c) (c.expandedEdge e1).2 (c.expandedEdge e2).1 := by
  obtain ⟨p1, p2, p3⟩ := c06i_proj c hr
  by_cases h1 : c.scc e1.1 = c.scc e1.2
  · rw [c06i_expandedEdge_intra c e1 h1]
    simp only
    rw [← c06i_outName_intra c e1 he1 h1]
    by_cases h2 : c.scc e2.1 = c.scc e2.2
    · rw [c06i_expandedEdge_intra c e2 h2]
      simp only
      rcases p3 with p3 | p3
      · exfalso; apply hab
        rw [c06i_expandedEdge_intra c e1 h1, c06i_expandedEdge_intra c e2 h2]
        unfold inName
        rw [h1, p3]
      · exact p3
    · rw [c06i_expandedEdge_inter c e2 h2]; exact p2
  · rw [c06i_expandedEdge_inter c e1 h1]
    simp only
    by_cases h2 : c.scc e2.1 = c.scc e2.2
    · rw [c06i_expandedEdge_intra c e2 h2]; exact p1
    · rw [c06i_expandedEdge_inter c e2 h2]; exact reach_trans p1 (c06i_in_out c _)

/-- two different graph edges of one inter-SCC member are never on one walk -/
theorem c06i_parallel_not_comparable (c : Cond) (hg : GraphWF c.g) (hscc : SccLabelling c) (e1 e2 : Edge)
    (he1 : e1 ∈ c.g.edges) (he2 : e2 ∈ c.g.edges) (hsame : c.expandedEdge e1 = c.expandedEdge e2)
    (hns : Cond.isSccEdge (c.expandedEdge e1) = false) : ¬ Reach c.g.edges e1.2 e2.1 := by
  intro hr
  have h1 : c.scc e1.1 ≠ c.scc e1.2 := by
    intro h; rw [c06i_isSccEdge_intra c e1 h] at hns; cases hns
  have h2 : c.scc e2.1 ≠ c.scc e2.2 := by
    intro h; rw [hsame, c06i_isSccEdge_intra c e2 h] at hns; cases hns
  rw [c06i_expandedEdge_inter c e1 h1, c06i_expandedEdge_inter c e2 h2] at hsame
  have hheads : c.scc e1.2 = c.scc e2.2 := c06i_toString_inj (congrArg Prod.snd hsame)
  have hback := ((hscc _ (hg e1 he1).2 _ (hg e2 he2).2).1 hheads).2
  -- `e2.2 ⇝ e1.2 ⇝ e2.1` and `e2.1 → e2.2`
  have hcyc : Reach c.g.edges e2.2 e2.1 := reach_trans hback hr
  have hfw : Reach c.g.edges e2.1 e2.2 := Reach.step (Reach.refl _) (show (e2.1, e2.2) ∈ c.g.edges from he2)
  exact h2 ((hscc _ (hg e2 he2).1 _ (hg e2 he2).2).2 ⟨hfw, hcyc⟩)

/-- **`AntichainHyp` from the contract of the antichain.** -/
theorem c06i_antichainHyp (c : Cond) (s t : Node) (anti : List (String × String)) (hg : GraphWF c.g)
    (hscc : SccLabelling c) (hanti : CondAntichain c anti) : AntichainHyp c s t anti := by
  intro a ha b hb e1 he1 e2 he2 hc1 hc2 hne hor
  rintro ⟨w, hw, hm1, hm2⟩
  have hord := c06i_walk_order c.g hw hm1 hm2 hne
  by_cases hab : a = b
  · subst hab
    rcases hor with hns | hns
    · rcases hord with hr | hr
      · exact c06i_parallel_not_comparable c hg hscc e1 e2 he1 he2 (hc1.trans hc2.symm) (by rw [hc1]; exact hns) hr
      · exact c06i_parallel_not_comparable c hg hscc e2 e1 he2 he1 (hc2.trans hc1.symm) (by rw [hc2]; exact hns) hr
    · exact hns rfl
  · rcases hord with hr | hr
    · have := c06i_members_comparable c e1 e2 he1 hr (by rw [hc1, hc2]; exact hab)
      rw [hc1, hc2] at this
      exact hanti a ha b hb hab this
    · have := c06i_members_comparable c e2 e1 he2 hr (by rw [hc1, hc2]; exact fun h => hab h.symm)
      rw [hc1, hc2] at this
      exact hanti b hb a ha (fun h => hab h.symm) this

end FP.Safety
