import FP.Proofs.FlowDecompExists
/-!
# FP.Proofs.DecompConstraints — with subpath constraints, `|E| + #constraints` paths always suffice

A decomposition of the flow that ignores the subpath constraints (at most `|E|` paths,
`mfd_total_proof`) plus one path of weight 0 per constraint is a decomposition that satisfies them.
-/
namespace FP
open FP.Spec

/-- the same input without its subpath constraints -/
def FlowInput.noCons (inp : FlowInput) : FlowInput :=
  { inp with cfg := { inp.cfg with constraints := [] } }

/-- every subpath constraint lies on some source-to-sink path (necessary for any decomposition) -/
def Coverable (inp : FlowInput) : Prop :=
  ∀ con ∈ inp.cfg.constraints, ∃ p, IsWalkIn inp.st.g (inp.st.source :: p ++ [inp.st.sink]) ∧
    ∀ e ∈ con, e ∈ walkEdges (inp.st.source :: p ++ [inp.st.sink])

theorem coverable_of_hasDecomp (inp : FlowInput) (k : Nat) (h : HasDecomp inp k) : Coverable inp := by
  obtain ⟨P, w, hd, _⟩ := h
  intro con hcon
  obtain ⟨i, hi, hc⟩ := hd.constraints con hcon
  exact ⟨P i, hd.walk i hi, hc⟩

theorem sum_range_add_zero (f : Nat → Rat) (k c : Nat) (h : ∀ i, k ≤ i → f i = 0) :
    ((List.range (k + c)).map f).sum = ((List.range k).map f).sum := by
  induction c with
  | zero => rfl
  | succ c ih =>
    rw [← Nat.add_assoc, List.range_succ, List.map_append, List.sum_append, ih]
    have : f (k + c) = 0 := h _ (by omega)
    simp [this, Rat.add_zero]

/-- a constraint-free decomposition plus one weight-0 path per constraint -/
theorem add_constraint_paths (inp : FlowInput) (k : Nat) (hd0 : HasDecomp inp.noCons k)
    (hcov : Coverable inp) : HasDecomp inp (k + inp.cfg.constraints.length) := by
  obtain ⟨P, w, hd, _⟩ := hd0
  apply decomp_bound_wlog_proof
  -- a covering path for the j-th constraint
  let Q : Nat → List Node := fun j =>
    if hj : j < inp.cfg.constraints.length then
      Classical.choose (hcov inp.cfg.constraints[j] (List.getElem_mem hj)) else []
  have hQ : ∀ j (hj : j < inp.cfg.constraints.length),
      IsWalkIn inp.st.g (inp.st.source :: Q j ++ [inp.st.sink]) ∧
      ∀ e ∈ inp.cfg.constraints[j], e ∈ walkEdges (inp.st.source :: Q j ++ [inp.st.sink]) := by
    intro j hj
    have := Classical.choose_spec (hcov inp.cfg.constraints[j] (List.getElem_mem hj))
    simp only [Q, hj, dif_pos]
    exact this
  refine ⟨fun i => if i < k then P i else Q (i - k), fun i => if i < k then w i else 0,
    ⟨?_, ?_, ?_, ?_, ?_⟩⟩
  · intro i hi
    by_cases hik : i < k
    · simp only [hik, if_true]; exact hd.walk i hik
    · simp only [hik, if_false]; exact (hQ (i - k) (by omega)).1
  · intro i _
    by_cases hik : i < k
    · simp only [hik, if_true]; exact hd.wnonneg i hik
    · simp only [hik, if_false]; exact Rat.le_refl
  · intro hint i _
    by_cases hik : i < k
    · simp only [hik, if_true]; exact hd.wint hint i hik
    · simp only [hik, if_false]; exact ⟨0, by simp⟩
  · intro e he
    have hex : ((List.range k).map fun i =>
        w i * ((traversals (inp.st.source :: P i ++ [inp.st.sink]) e : Nat) : Rat)).sum = inp.f e :=
      hd.explains e he
    rw [← hex, sum_range_add_zero _ k _ (fun i hi => by
      have : ¬ i < k := by omega
      simp [this, Rat.zero_mul])]
    apply sum_map_congr
    intro i hi
    have hik : i < k := List.mem_range.1 hi
    simp only [hik, if_true]
  · intro con hcon
    obtain ⟨j, hj, hjc⟩ := List.mem_iff_getElem.1 hcon
    refine ⟨k + j, by omega, ?_⟩
    have hnot : ¬ k + j < k := by omega
    simp only [hnot, if_false, Nat.add_sub_cancel_left]
    rw [← hjc]
    exact (hQ j hj).2

/-- **existence with subpath constraints.** A non-negative conserving flow on a well-formed user DAG
whose subpath constraints each lie on some source-to-sink path has a minimum decomposition, with at
most `|E| + #constraints` paths — inside `range(lb, |E| + len(subpath_constraints) + 1)`. -/
theorem mfd_total_constraints_proof (inp : FlowInput) (h : BaseWF inp.base) (hac : Acyclic inp.base)
    (hci : ConservingInput inp) (hcov : Coverable inp)
    (hint : inp.weightInt = true → ∀ e ∈ inp.base.edges, ∃ z : Int, inp.f e = z) :
    ∃ m, m ≤ inp.base.edges.length + inp.cfg.constraints.length ∧ IsMinDecomp inp m := by
  have hci0 : ConservingInput inp.noCons := ⟨hci.noStarts, hci.noEnds, hci.nonneg, hci.cons⟩
  obtain ⟨m0, hm0, hmin0⟩ := mfd_total_proof inp.noCons h hac hci0 rfl hint
  have hd := add_constraint_paths inp m0 hmin0.1 hcov
  obtain ⟨m, hm, hqm, hmin⟩ := exists_least (HasDecomp inp) _ hd
  have hE : inp.noCons.base.edges.length = inp.base.edges.length := rfl
  exact ⟨m, by omega, hqm, hmin⟩

end FP
