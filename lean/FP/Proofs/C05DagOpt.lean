import FP.Proofs.C05DagBase
import FP.Proofs.C05DagConstraints
import FP.Proofs.C05Base
/-!
# FP.Proofs.C05DagOpt — safe lists appended as subpath constraints change neither feasibility nor the minimum

Generic form (`c05d_generic_preserves`): a DAG model is `_encode_paths` followed by class-specific columns and
rows `rest` that do not mention the `r` columns of the subpath constraints. If every solution uses every trusted
edge in some layer (and contains the externally supplied lists), then for every subset of the six flags the LP
built with the options has a solution iff the LP built without them has one, and both have the same minimum of
the (class-specific) objective: forwards the `r` columns are re-chosen (`c05d_append_constraints`), backwards the
same assignment works (`c05d_drop_constraints`).
-/
namespace FP
open FP.Spec FP.Safety

/-- what the constructor checks / the documentation asks of the subpath-constraint parameters: constraints made of
graph edges; a coverage *fraction* (at most 1; the constructor tests `0 < coverage ≤ 1` only when the user passes
constraints, but the appended safe lists use the fraction as well); non-negative edge lengths, positive on the
user's constraints when they are to be covered completely by length (otherwise an edge of length 0 need not be
traversed and the sequence computed from the constraint is not safe) -/
structure ConstraintDomain (s : STGraph) (c : PathCfg) : Prop where
  edges : ∀ con ∈ c.constraints, ∀ e ∈ con, e ∈ s.g.edges
  cov : c.coverageLength = none → c.coverage ≤ 1
  covLen : ∀ cl, c.coverageLength = some cl → cl ≤ 1
  len : ∀ e ∈ s.g.edges, 0 ≤ c.len e
  lenPos : c.coverageLength = some 1 → ∀ con ∈ c.constraints, ∀ e ∈ con, 0 < c.len e

/-- two assignments that agree on the columns and row variables of an LP satisfy it alike -/
theorem c05d_sat_congr (lp : LP) (a a' : Asg) (hc : ∀ c ∈ lp.cols, a' c.v = a c.v)
    (hr : ∀ r ∈ lp.rows, ∀ t ∈ r.terms, a' t.2 = a t.2) (h : Sat a lp) : Sat a' lp := by
  constructor
  · intro c hcm
    have := h.1 c hcm
    unfold Col.holds at this ⊢
    rw [hc c hcm]
    exact this
  · intro r hrm
    have := h.2 r hrm
    have heq : evalTerms a' r.terms = evalTerms a r.terms := by
      unfold evalTerms
      apply sum_map_congr
      intro t ht
      rw [hr r hrm t ht]
    unfold Row.holds at this ⊢
    rw [heq]
    exact this

theorem c05d_evalTerms_congr (a a' : Asg) (ts : Terms) (h : ∀ t ∈ ts, a' t.2 = a t.2) :
    evalTerms a' ts = evalTerms a ts := by
  unfold evalTerms
  apply sum_map_congr
  intro t ht
  rw [h t ht]

/-- the class-specific part of a DAG model does not mention the `r` columns -/
structure RestNoR (rest : LP) : Prop where
  cols : ∀ col ∈ rest.cols, col.v.isR = false
  rows : ∀ r ∈ rest.rows, ∀ t ∈ r.terms, t.2.isR = false
  obj : ∀ t ∈ rest.obj, t.2.isR = false

section
variable {s : STGraph} {c : PathCfg}

theorem c05d_forward (hwf : STWF s) (D : ConstraintDomain s c) (rest : LP) (hR : RestNoR rest) (a : Asg)
    (hsat : Sat a ((encodePaths s c).append rest)) (E : List (List Edge))
    (hE : ∀ q ∈ E, SomeLayerHas s a c.k q) :
    ∃ a', Sat a' ((encodePaths s (c.appendConstraints E)).append rest) ∧
      evalTerms a' rest.obj = evalTerms a rest.obj := by
  have henc := sat_append_left a _ _ hsat
  have hrest := sat_append_right a _ _ hsat
  obtain ⟨a', h1, h2⟩ := c05d_append_constraints hwf henc D.edges E hE D.cov D.covLen D.len
  have hrest' : Sat a' rest := c05d_sat_congr rest a a' (fun col hc => h2 _ (hR.cols col hc))
    (fun r hr t ht => h2 _ (hR.rows r hr t ht)) hrest
  refine ⟨a', ⟨fun col hc => ?_, fun r hr => ?_⟩, c05d_evalTerms_congr a a' _ (fun t ht => h2 _ (hR.obj t ht))⟩
  · rcases List.mem_append.1 hc with h | h
    · exact h1.1 col h
    · exact hrest'.1 col h
  · rcases List.mem_append.1 hr with h | h
    · exact h1.2 r h
    · exact hrest'.2 r h

theorem c05d_backward (rest : LP) (a : Asg) (E : List (List Edge))
    (hsat : Sat a ((encodePaths s (c.appendConstraints E)).append rest)) :
    Sat a ((encodePaths s c).append rest) := by
  have henc := c05d_drop_constraints E (sat_append_left a _ _ hsat)
  have hrest := sat_append_right a _ _ hsat
  refine ⟨fun col hc => ?_, fun r hr => ?_⟩
  · rcases List.mem_append.1 hc with h | h
    · exact henc.1 col h
    · exact hrest.1 col h
  · rcases List.mem_append.1 hr with h | h
    · exact henc.2 r h
    · exact hrest.2 r h

/-- **generic C05 for the DAG models, every subset of the six flags** -/
theorem c05d_generic_preserves (hwf : STWF s) (D : ConstraintDomain s c) (rest : LP) (hR : RestNoR rest)
    (X : List Edge) (hX : ∀ x ∈ X, x ∈ s.g.edges)
    (hcover : ∀ a, Sat a ((encodePaths s c).append rest) → ∀ x ∈ X, ∃ i, i < c.k ∧ a (edgeVar x i) = 1)
    (external : Option (List (List Edge)))
    (hext : ∀ a, Sat a ((encodePaths s c).append rest) → ∀ l, external = some l → ∀ q ∈ l, SomeLayerHas s a c.k q)
    (o : PathSafetyOpts) (fr : PathSafetyFrag) (h : pathSafetyPipeline s c X external o = .ok fr) :
    ((∃ a, Sat a ((encodePaths s c).append rest)) ↔ (∃ a, Sat a ((pathCoreS s c fr).append rest))) ∧
    (∀ v, IsMin (fun a => Sat a ((encodePaths s c).append rest)) (fun a => evalTerms a rest.obj) v ↔
      IsMin (fun a => Sat a ((pathCoreS s c fr).append rest)) (fun a => evalTerms a rest.obj) v) := by
  obtain ⟨lists, hl, rfl⟩ := c05d_pipeline_frag s c X external o fr h
  rw [c05d_pathCoreS_extra]
  have hcfg : c.withSafety (pathSafetyExtra lists o) = c.appendConstraints (pathSafetyExtra lists o).constraints := rfl
  rw [hcfg]
  apply c05_opt_transfer
  · intro a hsat
    have hin := c05d_safeLists_in_layers s c a hwf (sat_append_left a _ _ hsat) X hX (hcover a hsat) external
      (hext a hsat) D.edges D.lenPos o lists hl
    have hE : ∀ q ∈ (pathSafetyExtra lists o).constraints, SomeLayerHas s a c.k q := by
      intro q hq
      rw [(c05d_extra_fields lists o).2.2.2] at hq
      split at hq
      · exact hin q hq
      · cases hq
    obtain ⟨a', h1, h2⟩ := c05d_forward hwf D rest hR a hsat _ hE
    exact ⟨a', h1, h2⟩
  · intro a hsat
    exact ⟨a, c05d_backward rest a _ hsat, rfl⟩

end
end FP
