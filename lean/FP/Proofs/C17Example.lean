import FP.Proofs.ReachTables
import FP.Proofs.BottleneckPath
import FP.Proofs.Greedy
import FP.Proofs.Antichain
import FP.Proofs.AntichainMax
import FP.Proofs.AntichainFuel
import FP.Proofs.GreedyExact
import FP.Proofs.TopoCheck
/-!
# FP.Proofs.C17Example — the hypotheses of the C17 theorems are satisfiable (concrete inputs)
-/
namespace FP.C17Example
open FP FP.Spec

/-! ## a digraph with a 2-cycle and an exit: `a ⇄ b → c` -/

def g : Graph := { nodes := ["a", "b", "c"], edges := [("a", "b"), ("b", "a"), ("b", "c")] }

/-- what networkx returns for `g` (component 0 = `{c}`, component 1 = `{a, b}`) -/
def o : CondOracle where
  lab := fun v => if v = "c" then 0 else 1
  cnodes := [0, 1]
  cedges := [(1, 0)]
  desc := fun c => if c = 1 then [0] else []
  anc := fun c => if c = 0 then [1] else []
  topo := [1, 0]

theorem c_stuck : ∀ y, Reach g.edges "c" y → y = "c" := by
  intro y h
  rcases reach_head_cases h with h | ⟨z, hz, _⟩
  · exact h.symm
  · simp [g] at hz

theorem zero_stuck : ∀ d, Reach o.cedges 0 d → d = 0 := by
  intro d h
  rcases reach_head_cases h with h | ⟨z, hz, _⟩
  · exact h.symm
  · simp [o] at hz

theorem rab : Reach g.edges "a" "b" := Reach.single (by decide)
theorem rba : Reach g.edges "b" "a" := Reach.single (by decide)
theorem rbc : Reach g.edges "b" "c" := Reach.single (by decide)

theorem contract : CondContract g o where
  wf := by decide
  scc := by
    intro u hu v hv
    have hu' : u = "a" ∨ u = "b" ∨ u = "c" := by simpa [g] using hu
    have hv' : v = "a" ∨ v = "b" ∨ v = "c" := by simpa [g] using hv
    rcases hu' with rfl | rfl | rfl <;> rcases hv' with rfl | rfl | rfl
    · exact ⟨fun _ => ⟨Reach.refl _, Reach.refl _⟩, fun _ => rfl⟩
    · exact ⟨fun _ => ⟨rab, rba⟩, fun _ => rfl⟩
    · exact ⟨fun h => absurd h (by decide), fun h => absurd (c_stuck _ h.2) (by decide)⟩
    · exact ⟨fun _ => ⟨rba, rab⟩, fun _ => rfl⟩
    · exact ⟨fun _ => ⟨Reach.refl _, Reach.refl _⟩, fun _ => rfl⟩
    · exact ⟨fun h => absurd h (by decide), fun h => absurd (c_stuck _ h.2) (by decide)⟩
    · exact ⟨fun h => absurd h (by decide), fun h => absurd (c_stuck _ h.1) (by decide)⟩
    · exact ⟨fun h => absurd h (by decide), fun h => absurd (c_stuck _ h.1) (by decide)⟩
    · exact ⟨fun _ => ⟨Reach.refl _, Reach.refl _⟩, fun _ => rfl⟩
  cedges := by
    intro a b
    constructor
    · intro h
      have : a = 1 ∧ b = 0 := by simpa [o] using h
      obtain ⟨rfl, rfl⟩ := this
      exact ⟨by decide, ("b", "c"), by decide, by decide, by decide⟩
    · rintro ⟨hne, e, he, h1, h2⟩
      have he' : e = ("a", "b") ∨ e = ("b", "a") ∨ e = ("b", "c") := by simpa [g] using he
      rcases he' with rfl | rfl | rfl
      · exact absurd (h1.symm.trans h2) hne
      · exact absurd (h1.symm.trans h2) hne
      · rw [← h1, ← h2]; decide
  desc := by
    intro c d
    constructor
    · intro h
      by_cases hc : c = 1
      · subst hc
        have : d = 0 := by simpa [o] using h
        subst this
        exact ⟨by decide, Reach.single (by decide)⟩
      · simp [o, hc] at h
    · rintro ⟨hne, hr⟩
      rcases reach_head_cases hr with h | ⟨z, hz, hr'⟩
      · exact absurd h.symm hne
      · have : c = 1 ∧ z = 0 := by simpa [o] using hz
        obtain ⟨rfl, rfl⟩ := this
        have := zero_stuck d hr'
        subst this
        decide
  anc := by
    intro c d
    constructor
    · intro h
      by_cases hc : c = 0
      · subst hc
        have : d = 1 := by simpa [o] using h
        subst this
        exact ⟨by decide, Reach.single (by decide)⟩
      · simp [o, hc] at h
    · rintro ⟨hne, hr⟩
      rcases reach_tail_cases hr with h | ⟨z, hr', hz⟩
      · exact absurd h hne
      · have : z = 1 ∧ c = 0 := by simpa [o] using hz
        obtain ⟨rfl, rfl⟩ := this
        rcases reach_tail_cases hr' with h | ⟨z', _, hz'⟩
        · subst h; decide
        · simp [o] at hz'
  topo := { nodup := by decide, cover := by decide, noloop := by intro a h; simp [o] at h; omega, fwd := by decide }
  topoNodes := by decide

/-- a warm-cache query sequence on the example (the third query is served from the dictionary) -/
def queries : List Query :=
  [.reachable "a", .reaching "c", .reachable "a", .sccEdge "a" "b", .sccEdge "b" "c", .reachable "zz",
   .edgeMax [(("a", "b"), 1), (("b", "a"), 5), (("b", "c"), 2)]]

theorem answers : (qrun g o {} queries).2 =
    [.nodes ["c", "a", "b"], .nodes ["a", "b", "c"], .nodes ["c", "a", "b"], .bool true, .bool false, .valueError,
     .vals [(("a", "b"), 5), (("b", "a"), 5), (("b", "c"), 5)]] := by decide

/-! ## a DAG with a conserving flow: the diamond `s → a → t`, `s → b → t` with flows 3 and 2 -/

def d : Graph := { nodes := ["s", "a", "b", "t"], edges := [("s", "a"), ("s", "b"), ("a", "t"), ("b", "t")] }
def dtopo : List Node := ["s", "a", "b", "t"]
def dflow : Edge → Rat := wtOf [(("s", "a"), 3), (("s", "b"), 2), (("a", "t"), 3), (("b", "t"), 2)]

theorem d_topo : IsTopo d.edges dtopo where
  nodup := by decide
  cover := by decide
  noloop := by
    intro a h
    have : (a, a) = ("s", "a") ∨ (a, a) = ("s", "b") ∨ (a, a) = ("a", "t") ∨ (a, a) = ("b", "t") := by simpa [d] using h
    rcases this with h | h | h | h <;> · have h1 := congrArg Prod.fst h; have h2 := congrArg Prod.snd h; simp at h1 h2; rw [h1] at h2; exact absurd h2 (by decide)
  fwd := by decide

theorem d_tables : (dagReachNodes d dtopo).get "s" = ["s", "a", "t", "b"] ∧
    (dagNodesReaching d dtopo).get "t" = ["t", "a", "s", "b"] := by decide

theorem d_bottleneck : maxBottleneckPath d dflow dtopo = .path 3 ["s", "a", "t"] := by decide

theorem d_decompose : ∃ r, decompose d dflow dtopo = .done r ∧
    r.paths = [(["s", "a", "t"], 3), (["s", "b", "t"], 2)] ∧ ∀ e ∈ d.edges, r.residual e = 0 := by
  unfold decompose
  have h1 : maxBottleneckPath d dflow dtopo = .path 3 ["s", "a", "t"] := by decide
  have h2 : maxBottleneckPath d (subtractPath dflow ["s", "a", "t"] 3) dtopo = .path 2 ["s", "b", "t"] := by decide +kernel
  have h3 : maxBottleneckPath d (subtractPath (subtractPath dflow ["s", "a", "t"] 3) ["s", "b", "t"] 2) dtopo = .none := by
    decide +kernel
  have hlen : d.edges.length + 1 = 2 + 1 + 1 + 1 := by decide
  rw [hlen]
  refine ⟨_, by simp only [peelLoop, h1, h2, h3]; rfl, rfl, by decide +kernel⟩

theorem d_topo' : IsTopo d.edges dtopo := checkTopo_sound d.nodes d.edges dtopo (by decide)

theorem d_nonneg : ∀ e ∈ d.edges, 0 ≤ dflow e := by decide +kernel

theorem d_conserving : Conserving d dflow := by
  intro v hp hs
  by_cases h1 : v = "a"
  · subst h1; decide +kernel
  · by_cases h2 : v = "b"
    · subst h2; decide +kernel
    · by_cases h3 : v = "s"
      · subst h3; exact absurd (by decide) hp
      · exfalso; apply hs
        have e1 : ¬ "s" = v := fun h => h3 h.symm
        have e2 : ¬ "a" = v := fun h => h1 h.symm
        have e3 : ¬ "b" = v := fun h => h2 h.symm
        simp [Graph.succ, d, List.filter, e1, e2, e3]

/-! ## antichain extraction on the augmented fork `S → a`, `a → b`, `a → c`, `b → T`, `c → T` -/

def ac : ACInput where
  g := { nodes := ["a", "b", "c", "S", "T"], edges := [("a", "b"), ("a", "c"), ("b", "T"), ("c", "T"), ("S", "a")] }
  source := "S"
  sink := "T"
  demand := wtOf [(("a", "b"), 2), (("a", "c"), 3)]
  flow := wtOf [(("a", "b"), 2), (("a", "c"), 3), (("b", "T"), 2), (("c", "T"), 3), (("S", "a"), 5)]

theorem ac_extract : (match acExtract ac with | .ok (some A) => A | _ => []) = [("a", "b"), ("a", "c")] := by
  decide +kernel

theorem ac_result : (match acResult ac 5 false with | .ok (some A) => A | _ => []) = [("a", "b"), ("a", "c")] := by
  decide +kernel

theorem ac_extract_eq : acExtract ac = .ok (some [("a", "b"), ("a", "c")]) := by
  have h := ac_extract
  cases hx : acExtract ac with
  | error e => rw [hx] at h; simp at h
  | ok o =>
    cases o with
    | none => rw [hx] at h; simp at h
    | some A => rw [hx] at h; simp only at h; rw [h]

def actopo : List Node := ["S", "a", "b", "c", "T"]

theorem ac_topo : IsTopo ac.g.edges actopo := checkTopo_sound ac.g.nodes ac.g.edges actopo (by decide)

theorem ac_feasible : FeasibleFlow ac.g ac.source ac.sink ac.demand ac.flow where
  ge := by decide +kernel
  cons := by decide +kernel

theorem ac_cost : (5 : Rat) = flowValue ac.g ac.source ac.flow := by decide +kernel

theorem ac_result_eq : acResult ac 5 false = .ok (some [("a", "b"), ("a", "c")]) := by
  unfold acResult
  rw [ac_extract_eq]
  simp only [Bool.false_eq_true, if_false]
  have : (5 : Rat) = (List.map ac.demand [("a", "b"), ("a", "c")]).sum := by decide +kernel
  rw [if_pos this]

end FP.C17Example
