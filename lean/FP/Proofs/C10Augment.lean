import FP.Proofs.C10Constraints
/-!
# FP.Proofs.C10Augment — additional starts / ends enlarge the route set by exactly the routes that
start / end there

`augment_starts_ends`: the source-to-sink walks of the augmented graph are exactly the
`ValidRoute`s of the user's graph (both directions). Consequences: monotonicity in `starts`/`ends`,
a newly admitted route starts (ends) at the added node, and declaring a node that already is a
source (sink) changes nothing — not even the augmented graph.
-/
namespace FP
open FP.Spec

theorem augment_starts_ends (base : Graph) (starts ends : List Node) (h : BaseWF base)
    (p : List Node) :
    IsWalkIn (augment base starts ends).g (srcName :: p ++ [snkName]) ↔
      ValidRoute base starts ends p := by
  have hedge := fun e => aug_mem_edges' (st := starts) (en := ends) h.closed (e := e)
  constructor
  · intro hwalk
    -- every node of `p` has a predecessor and a successor on the walk
    have hL : srcName :: p ++ [snkName] = srcName :: (p ++ [snkName]) := rfl
    have hsp : srcName ∉ p := by
      intro hm
      obtain ⟨u, hu⟩ := exists_walkEdge_into (srcName :: p ++ [snkName]) srcName
        (by rw [hL, List.tail_cons]; exact List.mem_append_left _ hm)
      exact aug_srcNoIn h.closed h.freshSrc _ (hwalk _ hu) rfl
    have htp : snkName ∉ p := by
      intro hm
      obtain ⟨l1, l2, hsplit⟩ := List.append_of_mem hm
      have hmem : ∃ w, (snkName, w) ∈ walkEdges (srcName :: p ++ [snkName]) := by
        rw [hsplit]
        cases l2 with
        | nil =>
          have := mem_walkEdges_mid (srcName :: l1) [] snkName snkName
          exact ⟨snkName, by simpa using this⟩
        | cons y ys =>
          have := mem_walkEdges_mid (srcName :: l1) (ys ++ [snkName]) snkName y
          exact ⟨y, by simpa using this⟩
      obtain ⟨w, hw⟩ := hmem
      exact aug_snkNoOut h.closed h.freshSnk _ (hwalk _ hw) rfl
    have hp : p ≠ [] := by
      intro hp
      subst hp
      exact aug_noDirect h.closed h.freshSrc h.freshSnk (hwalk (srcName, snkName) (by simp [walkEdges]))
    have hnodes : ∀ v ∈ p, v ∈ base.nodes := by
      intro v hv
      obtain ⟨u, hu⟩ := exists_walkEdge_into (srcName :: p ++ [snkName]) v
        (by rw [hL, List.tail_cons]; exact List.mem_append_left _ hv)
      rcases (hedge _).1 (hwalk _ hu) with hb | ⟨_, hb, _⟩ | ⟨hb, _, _⟩
      · exact (h.closed _ hb).2
      · exact hb
      · exact absurd (hb ▸ hv) htp
    refine ⟨hp, hnodes, ?_, ?_, ?_⟩
    · intro e he
      have he' : e ∈ walkEdges (srcName :: p ++ [snkName]) :=
        walkEdges_sub_cons _ _ _ (walkEdges_sub_append p [snkName] e he)
      have h1 : e.1 ∈ p := List.dropLast_subset _ (fst_mem_of_mem_walkEdges p e he)
      have h2 : e.2 ∈ p := List.mem_of_mem_tail (snd_mem_of_mem_walkEdges p e he)
      rcases (hedge _).1 (hwalk _ he') with hb | ⟨hb, _, _⟩ | ⟨hb, _, _⟩
      · exact hb
      · exact absurd (hb ▸ h1) hsp
      · exact absurd (hb ▸ h2) htp
    · intro v hv
      cases p with
      | nil => simp at hv
      | cons w p' =>
        have : w = v := by simpa using hv
        subst this
        have hmem : (srcName, w) ∈ walkEdges (srcName :: (w :: p') ++ [snkName]) := by
          simp [walkEdges_cons_cons]
        rcases (hedge _).1 (hwalk _ hmem) with hb | ⟨_, _, hb⟩ | ⟨_, hb, _⟩
        · exact absurd (h.closed _ hb).1 h.freshSrc
        · exact hb
        · exact absurd hb h.freshSrc
    · intro v hv
      have hsplit := split_last p v hv
      have hmem : (v, snkName) ∈ walkEdges (srcName :: p ++ [snkName]) := by
        rw [hsplit]
        have := mem_walkEdges_mid (srcName :: p.dropLast) [] v snkName
        simpa using this
      rcases (hedge _).1 (hwalk _ hmem) with hb | ⟨hb, _, _⟩ | ⟨_, _, hb⟩
      · exact absurd (h.closed _ hb).2 h.freshSnk
      · exact absurd (hb ▸ List.mem_of_getLast? hv) hsp
      · exact hb
  · intro hv e he
    obtain ⟨u, hu⟩ : ∃ u, p.head? = some u := by
      cases p with
      | nil => exact absurd rfl hv.nonempty
      | cons x xs => exact ⟨x, rfl⟩
    obtain ⟨w, hw⟩ : ∃ w, p.getLast? = some w := by
      cases hl : p.getLast? with
      | none => exact absurd (List.getLast?_eq_none_iff.1 hl) hv.nonempty
      | some w => exact ⟨w, rfl⟩
    rcases (c10_mem_walkEdges_wrap srcName snkName u w p hu hw e).1 he with rfl | hmid | rfl
    · exact (hedge _).2 (Or.inr (Or.inl ⟨rfl, hv.nodes u (List.mem_of_mem_head? hu), hv.first u hu⟩))
    · exact (hedge _).2 (Or.inl (hv.adjacent e hmid))
    · exact (hedge _).2 (Or.inr (Or.inr ⟨rfl, hv.nodes w (List.mem_of_getLast? hw), hv.last w hw⟩))

/-- enlarging the declared starts / ends only adds admissible routes -/
theorem validRoute_mono (base : Graph) (starts starts' ends ends' : List Node)
    (hs : ∀ v ∈ starts, v ∈ starts') (he : ∀ v ∈ ends, v ∈ ends') (p : List Node)
    (h : ValidRoute base starts ends p) : ValidRoute base starts' ends' p :=
  ⟨h.nonempty, h.nodes, h.adjacent,
    fun v hv => (h.first v hv).imp id (hs v), fun v hv => (h.last v hv).imp id (he v)⟩

/-- a route admitted only because of the additional start `v` starts at `v` -/
theorem new_route_starts_there (base : Graph) (starts ends : List Node) (v : Node) (p : List Node)
    (h : ValidRoute base (v :: starts) ends p) (hn : ¬ ValidRoute base starts ends p) :
    p.head? = some v := by
  apply Classical.byContradiction
  intro hne
  apply hn
  refine ⟨h.nonempty, h.nodes, h.adjacent, fun u hu => ?_, h.last⟩
  rcases h.first u hu with h1 | h1
  · exact Or.inl h1
  · rcases List.mem_cons.1 h1 with rfl | h2
    · exact absurd hu hne
    · exact Or.inr h2

/-- a route admitted only because of the additional end `v` ends at `v` -/
theorem new_route_ends_there (base : Graph) (starts ends : List Node) (v : Node) (p : List Node)
    (h : ValidRoute base starts (v :: ends) p) (hn : ¬ ValidRoute base starts ends p) :
    p.getLast? = some v := by
  apply Classical.byContradiction
  intro hne
  apply hn
  refine ⟨h.nonempty, h.nodes, h.adjacent, h.first, fun u hu => ?_⟩
  rcases h.last u hu with h1 | h1
  · exact Or.inl h1
  · rcases List.mem_cons.1 h1 with rfl | h2
    · exact absurd hu hne
    · exact Or.inr h2

/-- declaring a node without in-edges as additional start does not change the augmented graph -/
theorem augment_start_at_source (base : Graph) (starts ends : List Node) (v : Node)
    (hv : base.pred v = []) : augment base (v :: starts) ends = augment base starts ends := by
  have hfun : isStart base (v :: starts) = isStart base starts := by
    funext u
    unfold isStart
    by_cases huv : u = v
    · subst huv; simp [hv]
    · simp [huv]
  have h1 : srcEdges base (v :: starts) = srcEdges base starts := by unfold srcEdges; rw [hfun]
  have h2 : firstKind base (v :: starts) ends = firstKind base starts ends := by
    unfold firstKind; rw [hfun]
  have h3 : extra base (v :: starts) ends = extra base starts ends := by unfold extra; rw [h1, h2]
  rw [augment_eq, augment_eq, h1, h3]

/-- declaring a node without out-edges as additional end does not change the augmented graph -/
theorem augment_end_at_sink (base : Graph) (starts ends : List Node) (v : Node)
    (hv : base.succ v = []) : augment base starts (v :: ends) = augment base starts ends := by
  have hfun : isEnd base (v :: ends) = isEnd base ends := by
    funext u
    unfold isEnd
    by_cases huv : u = v
    · subst huv; simp [hv]
    · simp [huv]
  have h1 : snkEdges base (v :: ends) = snkEdges base ends := by unfold snkEdges; rw [hfun]
  have h2 : firstKind base starts (v :: ends) = firstKind base starts ends := by
    unfold firstKind; rw [hfun]
  have h3 : extra base starts (v :: ends) = extra base starts ends := by unfold extra; rw [h1, h2]
  rw [augment_eq, augment_eq, h1, h3]

end FP
