import FP.Proofs.ReachCond
/-!
# FP.Proofs.ReachTables — `stDAG` closure tables and `compute_edge_max_reachable_value`
-/
namespace FP
open FP.Spec

/-! ## stDAG tables -/

theorem nodup_reverse' {α} {l : List α} (h : l.Nodup) : l.reverse.Nodup :=
  List.pairwise_reverse.2 (h.imp (fun hab heq => hab heq.symm))

theorem isTopo_rev_pairwise {κ} {es : List (κ × κ)} {topo : List κ} (h : IsTopo es topo) :
    topo.reverse.Pairwise (fun a b => (a, b) ∉ es) :=
  List.pairwise_reverse.2 h.fwd

theorem isTopo_swap_pairwise {κ} {es : List (κ × κ)} {topo : List κ} (h : IsTopo es topo) :
    topo.Pairwise (fun a b => (a, b) ∉ swapEdges es) :=
  h.fwd.imp (fun hab hm => hab (mem_swapEdges.1 hm))

theorem dagReachNodes_correct (g : Graph) (topo : List Node) (h : IsTopo g.edges topo) (v : Node) (hv : v ∈ topo)
    (x : Node) : x ∈ (dagReachNodes g topo).get v ↔ Reach g.edges v x := by
  have := (pullSweep_correct g.edges (fun (l : List Node) x => x ∈ l) (fun _ _ a b => lunion a b)
    (fun _ _ _ => False) (by intro c s a b x; simp [mem_lunion]) (fun v => [v]) topo.reverse
    (nodup_reverse' h.nodup) (fun e he => List.mem_reverse.2 (h.cover e he).2) h.noloop
    (isTopo_rev_pairwise h)).1 v (List.mem_reverse.2 hv) x
  unfold dagReachNodes
  rw [this]
  unfold PullSpec
  constructor
  · rintro ⟨w, hr, (hw | ⟨_, _, hf⟩)⟩
    · have : x = w := by simpa using hw
      rw [this]; exact hr
    · exact hf.elim
  · intro hr; exact ⟨x, hr, Or.inl (by simp)⟩

theorem dagReachEdges_correct (g : Graph) (topo : List Node) (h : IsTopo g.edges topo) (v : Node) (hv : v ∈ topo)
    (x : Edge) : x ∈ (dagReachEdges g topo).get v ↔ (x ∈ g.edges ∧ Reach g.edges v x.1) := by
  have := (pullSweep_correct g.edges (fun (l : List Edge) x => x ∈ l) (fun c s a b => lunion (lunion a b) [(c, s)])
    (fun c s x => x = (c, s)) (by intro c s a b x; simp [mem_lunion, or_assoc]) (fun _ => []) topo.reverse
    (nodup_reverse' h.nodup) (fun e he => List.mem_reverse.2 (h.cover e he).2) h.noloop
    (isTopo_rev_pairwise h)).1 v (List.mem_reverse.2 hv) x
  unfold dagReachEdges
  rw [this]
  unfold PullSpec
  constructor
  · rintro ⟨w, hr, (hw | ⟨s, hs, rfl⟩)⟩
    · simp at hw
    · exact ⟨hs, hr⟩
  · rintro ⟨hx, hr⟩; exact ⟨x.1, hr, Or.inr ⟨x.2, hx, rfl⟩⟩

theorem dagNodesReaching_correct (g : Graph) (topo : List Node) (h : IsTopo g.edges topo) (v : Node) (hv : v ∈ topo)
    (x : Node) : x ∈ (dagNodesReaching g topo).get v ↔ Reach g.edges x v := by
  have := (pullSweep_correct (swapEdges g.edges) (fun (l : List Node) x => x ∈ l) (fun _ _ a b => lunion a b)
    (fun _ _ _ => False) (by intro c s a b x; simp [mem_lunion]) (fun v => [v]) topo
    h.nodup (fun e he => (h.cover (e.2, e.1) (mem_swapEdges.1 he)).1) (fun a ha => h.noloop a (mem_swapEdges.1 ha))
    (isTopo_swap_pairwise h)).1 v hv x
  unfold dagNodesReaching
  rw [this]
  unfold PullSpec
  constructor
  · rintro ⟨w, hr, (hw | ⟨_, _, hf⟩)⟩
    · have : x = w := by simpa using hw
      rw [this]; exact reach_swap.1 hr
    · exact hf.elim
  · intro hr; exact ⟨x, reach_swap.2 hr, Or.inl (by simp)⟩

theorem dagReachEdgesRev_correct (g : Graph) (topo : List Node) (h : IsTopo g.edges topo) (v : Node) (hv : v ∈ topo)
    (x : Edge) : x ∈ (dagReachEdgesRev g topo).get v ↔ (x ∈ g.edges ∧ Reach g.edges x.2 v) := by
  have := (pullSweep_correct (swapEdges g.edges) (fun (l : List Edge) x => x ∈ l)
    (fun c s a b => lunion (lunion a b) [(s, c)])
    (fun c s x => x = (s, c)) (by intro c s a b x; simp [mem_lunion, or_assoc]) (fun _ => []) topo
    h.nodup (fun e he => (h.cover (e.2, e.1) (mem_swapEdges.1 he)).1) (fun a ha => h.noloop a (mem_swapEdges.1 ha))
    (isTopo_swap_pairwise h)).1 v hv x
  unfold dagReachEdgesRev
  rw [this]
  unfold PullSpec
  constructor
  · rintro ⟨w, hr, (hw | ⟨s, hs, rfl⟩)⟩
    · simp at hw
    · exact ⟨mem_swapEdges.1 hs, reach_swap.1 hr⟩
  · rintro ⟨hx, hr⟩; exact ⟨x.2, reach_swap.2 hr, Or.inr ⟨x.1, mem_swapEdges.2 hx, rfl⟩⟩

/-! ## compute_edge_max_reachable_value -/

theorem le_ite_max (a b x : Rat) : x ≤ (if b > a then b else a) ↔ x ≤ a ∨ x ≤ b := by
  by_cases h : b > a
  · simp only [h, if_true]; constructor
    · exact fun h' => Or.inr h'
    · rintro (h' | h')
      · exact Rat.le_trans h' (Rat.le_of_lt h)
      · exact h'
  · simp only [h, if_false]; constructor
    · exact fun h' => Or.inl h'
    · rintro (h' | h')
      · exact h'
      · exact Rat.le_trans h' (Rat.not_lt.1 h)

theorem le_max_iff' (a b x : Rat) : x ≤ max a b ↔ x ≤ a ∨ x ≤ b := by
  rw [Rat.max_def]
  by_cases h : a ≤ b
  · simp only [h, if_true]; exact ⟨Or.inr, fun h' => h'.elim (fun h1 => Rat.le_trans h1 h) id⟩
  · simp only [h, if_false]
    exact ⟨Or.inl, fun h' => h'.elim id (fun h1 => Rat.le_trans h1 (Rat.le_of_lt (Rat.not_le.1 h)))⟩

theorem le_max3 (a b c x : Rat) : x ≤ max3 a b c ↔ x ≤ a ∨ x ≤ b ∨ x ≤ c := by
  unfold max3; rw [le_max_iff', le_max_iff', or_assoc]

theorem localMax_fold (o : CondOracle) (wt : Edge → Rat) (tail : Bool) (l : List Edge) :
    ∀ (t : Tbl Nat Rat) (c : Nat) (x : Rat),
      x ≤ (l.foldl (fun t e =>
        let c := o.lab (if tail then e.1 else e.2)
        if wt e > t.get c then t.set c (wt e) else t) t).get c ↔
      x ≤ t.get c ∨ ∃ e ∈ l, o.lab (if tail then e.1 else e.2) = c ∧ x ≤ wt e := by
  induction l with
  | nil => intro t c x; simp
  | cons e l ih =>
    intro t c x
    simp only [List.foldl_cons]
    rw [ih]
    have key : x ≤ (if wt e > t.get (o.lab (if tail then e.1 else e.2)) then
          t.set (o.lab (if tail then e.1 else e.2)) (wt e) else t).get c ↔
        x ≤ t.get c ∨ (o.lab (if tail then e.1 else e.2) = c ∧ x ≤ wt e) := by
      by_cases hgt : wt e > t.get (o.lab (if tail then e.1 else e.2))
      · simp only [hgt, if_true, Tbl.get_set]
        by_cases hc : c = o.lab (if tail then e.1 else e.2)
        · subst hc
          simp only [if_true, true_and]
          exact ⟨Or.inr, fun h => h.elim (fun h1 => Rat.le_trans h1 (Rat.le_of_lt hgt)) id⟩
        · have hc' : ¬ o.lab (if tail then e.1 else e.2) = c := fun h => hc h.symm
          simp only [hc, if_false, hc', false_and, or_false]
      · simp only [hgt, if_false]
        constructor
        · exact Or.inl
        · rintro (h | ⟨hc, h⟩)
          · exact h
          · subst hc; exact Rat.le_trans h (Rat.not_lt.1 hgt)
    rw [key]
    constructor
    · rintro ((h | ⟨h1, h2⟩) | ⟨e', he', h⟩)
      · exact Or.inl h
      · exact Or.inr ⟨e, by simp, h1, h2⟩
      · exact Or.inr ⟨e', by simp [he'], h⟩
    · rintro (h | ⟨e', he', h⟩)
      · exact Or.inl (Or.inl h)
      · rcases List.mem_cons.1 he' with rfl | he''
        · exact Or.inl (Or.inr h)
        · exact Or.inr ⟨e', he'', h⟩

theorem localMax_char (g : Graph) (o : CondOracle) (wt : Edge → Rat) (tail : Bool) (c : Nat) (x : Rat) :
    x ≤ (localMax g o wt tail).get c ↔
      x ≤ 0 ∨ ∃ e ∈ g.edges, o.lab (if tail then e.1 else e.2) = c ∧ x ≤ wt e := by
  unfold localMax
  exact localMax_fold o wt tail g.edges ⟨fun _ => 0⟩ c x

/-- the edges whose weight `compute_edge_max_reachable_value` has to consider for `e`: `e` itself,
edges whose tail is reachable from the head of `e`, edges whose head reaches the tail of `e` -/
def InScope (g : Graph) (e e' : Edge) : Prop :=
  e' = e ∨ Reach g.edges e.2 e'.1 ∨ Reach g.edges e'.2 e.1

theorem edgeMax_char (g : Graph) (o : CondOracle) (h : CondContract g o) (wt : Edge → Rat) (e : Edge)
    (he : e ∈ g.edges) (x : Rat) :
    x ≤ edgeMaxFn g o wt e ↔ x ≤ 0 ∨ ∃ e' ∈ g.edges, InScope g e e' ∧ x ≤ wt e' := by
  have hwf := h.wf e he
  have hD := (pullSweep_correct o.cedges (fun (m : Rat) (x : Rat) => x ≤ m) (fun _ _ a b => if b > a then b else a)
    (fun _ _ _ => False) (by intro c s a b x; simp [le_ite_max]) (localMax g o wt true).get o.topo.reverse
    (nodup_reverse' h.topo.nodup) (fun e he => List.mem_reverse.2 (h.topo.cover e he).2) h.topo.noloop
    (isTopo_rev_pairwise h.topo)).1 (o.lab e.2) (List.mem_reverse.2 (h.topoNodes _ hwf.2)) x
  have hA := pushSweep_correct o.cedges (fun (m : Rat) (x : Rat) => x ≤ m) (fun _ _ a b => if a > b then a else b)
    (by intro c s a b x; rw [le_ite_max]; exact or_comm) (localMax g o wt false).get o.topo
    h.topo.nodup (fun e he => (h.topo.cover e he).1) h.topo.noloop h.topo.fwd (o.lab e.1) x
  unfold edgeMaxFn
  rw [le_max3]
  unfold maxDesc maxAnc
  rw [hD, hA]
  unfold PullSpec PushSpec
  simp only [localMax_char, if_true, Bool.false_eq_true, if_false]
  constructor
  · rintro (h1 | ⟨c', hr, ((h0 | ⟨e', he', hl, hx⟩) | ⟨_, _, hf⟩)⟩ | ⟨c', hr, (h0 | ⟨e', he', hl, hx⟩)⟩)
    · exact Or.inr ⟨e, he, Or.inl rfl, h1⟩
    · exact Or.inl h0
    · subst hl
      exact Or.inr ⟨e', he', Or.inr (Or.inl ((h.reach_iff hwf.2 (h.wf e' he').1).1 hr)), hx⟩
    · exact hf.elim
    · exact Or.inl h0
    · subst hl
      exact Or.inr ⟨e', he', Or.inr (Or.inr ((h.reach_iff (h.wf e' he').2 hwf.1).1 hr)), hx⟩
  · rintro (h0 | ⟨e', he', (rfl | hr | hr), hx⟩)
    · exact Or.inr (Or.inl ⟨o.lab e.2, Reach.refl _, Or.inl (Or.inl h0)⟩)
    · exact Or.inl hx
    · exact Or.inr (Or.inl ⟨o.lab e'.1, h.reach_proj hr, Or.inl (Or.inr ⟨e', he', rfl, hx⟩)⟩)
    · exact Or.inr (Or.inr ⟨o.lab e'.2, h.reach_proj hr, Or.inr ⟨e', he', rfl, hx⟩⟩)

/-- for non-negative weights the value is the maximum over the scope of `e`: an upper bound that
is attained -/
theorem edgeMax_is_max (g : Graph) (o : CondOracle) (h : CondContract g o) (wt : Edge → Rat)
    (hnn : ∀ e ∈ g.edges, 0 ≤ wt e) (e : Edge) (he : e ∈ g.edges) :
    (∀ e' ∈ g.edges, InScope g e e' → wt e' ≤ edgeMaxFn g o wt e) ∧
    (∃ e' ∈ g.edges, InScope g e e' ∧ wt e' = edgeMaxFn g o wt e) := by
  have hc := edgeMax_char g o h wt e he
  constructor
  · intro e' he' hs
    exact (hc (wt e')).2 (Or.inr ⟨e', he', hs, Rat.le_refl⟩)
  · have hself : wt e ≤ edgeMaxFn g o wt e := (hc (wt e)).2 (Or.inr ⟨e, he, Or.inl rfl, Rat.le_refl⟩)
    rcases (hc (edgeMaxFn g o wt e)).1 Rat.le_refl with h0 | ⟨e', he', hs, hx⟩
    · refine ⟨e, he, Or.inl rfl, ?_⟩
      have := hnn e he
      exact Rat.le_antisymm hself (Rat.le_trans h0 this)
    · refine ⟨e', he', hs, ?_⟩
      exact Rat.le_antisymm ((hc (wt e')).2 (Or.inr ⟨e', he', hs, Rat.le_refl⟩)) hx

theorem edgeMaxAll_eq (g : Graph) (o : CondOracle) (wt : Edge → Rat) :
    edgeMaxAll g o wt = g.edges.map fun e => (e, edgeMaxFn g o wt e) := rfl

end FP
