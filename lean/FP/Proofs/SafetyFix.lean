import FP.Model.SafetyFix
import FP.Proofs.SafetyReach
/-!
# FP.Proofs.SafetyFix — an edge that is not protected lies on no walk containing the slot's sequence

For a walk `w` that contains `seq` as a subsequence, every edge of `w` is a member of `seq`, or precedes
its first element (its head reaches the first node), or follows its last element (its tail is reachable
from the last node), or sits in the gap between two consecutive elements.
-/
namespace FP.Safety
open FP FP.Spec

def Placed (E : List Edge) (seq : List Edge) (e : Edge) : Prop :=
  e ∈ seq ∨ (∃ a, seq.head? = some a ∧ Reach E e.2 a.1) ∨ (∃ b, seq.getLast? = some b ∧ Reach E b.2 e.1)
    ∨ ∃ pr ∈ seq.zip seq.tail, Reach E pr.1.2 e.1 ∧ Reach E e.2 pr.2.1

theorem placed_of_walk (g : Graph) : ∀ (w : List Node), IsWalkIn g w → ∀ seq : List Edge, seq ≠ [] →
    seq.Sublist (walkEdges w) → ∀ e ∈ walkEdges w, Placed g.edges seq e := by
  intro w
  induction w with
  | nil => intro _ _ _ _ e he; simp [we_nil] at he
  | cons x w ih =>
    cases w with
    | nil => intro _ _ _ _ e he; simp [we_single] at he
    | cons y w =>
      intro hw seq hne hsub e he
      have hw' : IsWalkIn g (y :: w) := fun e' he' => hw e' (by rw [we_cons_cons]; exact List.mem_cons_of_mem _ he')
      have hxy : (x, y) ∈ g.edges := hw _ (by rw [we_cons_cons]; simp)
      rw [we_cons_cons] at hsub he
      rcases List.sublist_cons_iff.1 hsub with hs | ⟨r, rfl, hr⟩
      · -- the first edge of the walk is not used by the embedding
        rcases List.mem_cons.1 he with rfl | he
        · obtain ⟨a, l, rfl⟩ := List.exists_cons_of_ne_nil hne
          have ha : a ∈ walkEdges (y :: w) := hs.subset (by simp)
          right; left
          exact ⟨a, rfl, walk_reach g w y hw' a ha⟩
        · exact ih hw' seq hne hs e he
      · rcases List.mem_cons.1 he with rfl | he
        · left; simp
        · by_cases hr0 : r = []
          · subst hr0
            right; right; left
            exact ⟨(x, y), rfl, walk_reach g w y hw' e he⟩
          · have hye : Reach g.edges y e.1 := walk_reach g w y hw' e he
            rcases ih hw' r hr0 hr e he with h | ⟨a, ha, hra⟩ | ⟨b, hb, hrb⟩ | ⟨pr, hpr, h1, h2⟩
            · left; exact List.mem_cons_of_mem _ h
            · right; right; right
              obtain ⟨a', l, rfl⟩ := List.exists_cons_of_ne_nil hr0
              simp at ha; subst ha
              exact ⟨((x, y), a'), by simp, hye, hra⟩
            · right; right; left
              refine ⟨b, ?_, hrb⟩
              obtain ⟨a', l, rfl⟩ := List.exists_cons_of_ne_nil hr0
              rw [List.getLast?_cons_cons]; exact hb
            · right; right; right
              refine ⟨pr, ?_, h1, h2⟩
              obtain ⟨a', l, rfl⟩ := List.exists_cons_of_ne_nil hr0
              simp only [List.tail_cons, List.zip_cons_cons]
              exact List.mem_cons_of_mem _ hpr

/-- every placed edge of the graph is in the protected set -/
theorem placed_protected (g : Graph) (hg : GraphWF g) (walk : List Edge)
    (hn : ∀ e ∈ walk, e.1 ∈ g.nodes ∧ e.2 ∈ g.nodes) (e : Edge) (he : e ∈ g.edges)
    (hp : Placed g.edges walk e) : e ∈ protectedEdges g walk := by
  unfold protectedEdges
  rcases hp with h | ⟨a, ha, hra⟩ | ⟨b, hb, hrb⟩ | ⟨pr, hpr, h1, h2⟩
  · obtain ⟨a, l, rfl⟩ := List.exists_cons_of_ne_nil (List.ne_nil_of_mem h)
    obtain ⟨b, hb⟩ : ∃ b, (a :: l).getLast? = some b := ⟨_, List.getLast?_eq_some_getLast (by simp)⟩
    simp only [List.head?_cons, hb]
    exact List.mem_filter.2 ⟨he, by simp [h]⟩
  · obtain ⟨a', l, rfl⟩ : ∃ a' l, walk = a' :: l := by
      cases walk with
      | nil => simp at ha
      | cons a' l => exact ⟨a', l, rfl⟩
    simp at ha; subst ha
    obtain ⟨b, hb⟩ : ∃ b, (a' :: l).getLast? = some b := ⟨_, List.getLast?_eq_some_getLast (by simp)⟩
    simp only [List.head?_cons, hb]
    have := reaching_complete g hg a'.1 e.2 (hn a' (by simp)).1 hra
    exact List.mem_filter.2 ⟨he, by simp [this]⟩
  · obtain ⟨a', l, rfl⟩ : ∃ a' l, walk = a' :: l := by
      cases walk with
      | nil => simp at hb
      | cons a' l => exact ⟨a', l, rfl⟩
    simp only [List.head?_cons, hb]
    have hbm : b ∈ a' :: l := List.mem_of_getLast? hb
    have := reachFrom_complete g hg b.2 e.1 (hn b hbm).2 hrb
    exact List.mem_filter.2 ⟨he, by simp [this]⟩
  · obtain ⟨a', l, rfl⟩ : ∃ a' l, walk = a' :: l := by
      cases walk with
      | nil => simp at hpr
      | cons a' l => exact ⟨a', l, rfl⟩
    obtain ⟨b, hb⟩ : ∃ b, (a' :: l).getLast? = some b := ⟨_, List.getLast?_eq_some_getLast (by simp)⟩
    simp only [List.head?_cons, hb]
    have hm1 : pr.1 ∈ a' :: l := (List.of_mem_zip (a := pr.1) (b := pr.2) (by simpa using hpr)).1
    have hm2 : pr.2 ∈ a' :: l := List.mem_of_mem_tail (List.of_mem_zip (a := pr.1) (b := pr.2) (by simpa using hpr)).2
    have r1 := reachFrom_complete g hg pr.1.2 e.1 (hn _ hm1).2 h1
    have r2 := reaching_complete g hg pr.2.1 e.2 (hn _ hm2).1 h2
    refine List.mem_filter.2 ⟨he, ?_⟩
    simp only [Bool.or_eq_true, List.any_eq_true, Bool.and_eq_true, List.contains_iff_mem]
    right
    refine ⟨(reachFrom g pr.1.2, reaching g pr.2.1), ?_, r1, r2⟩
    simp only [List.mem_map]
    exact ⟨(pr.1.2, pr.2.1), ⟨pr, hpr, rfl⟩, rfl⟩

/-- T3 -/
theorem zeroFix_sound (g : Graph) (hg : GraphWF g) (walks : List (List Edge)) (k : Nat)
    (zs : List (Edge × Nat)) (h : zeroFix g walks k = .ok zs) :
    ∀ e i, (e, i) ∈ zs → ∀ w, IsWalkIn g w → Occurs (walks.getD i []) w → e ∉ walkEdges w := by
  intro e i hz w hw ho hew
  unfold zeroFix at h
  simp only at h
  split at h
  · cases h
  · rename_i hbad
    injection h with h; subst h
    obtain ⟨⟨i', walk⟩, hmem, hin⟩ := List.mem_flatMap.1 hz
    simp only at hin
    split at hin
    · simp at hin
    · rename_i hne
      obtain ⟨e', he', heq⟩ := List.mem_map.1 hin
      injection heq with h1 h2; subst h1; subst h2
      obtain ⟨heg, hnp⟩ := List.mem_filter.1 he'
      -- identify the walk
      obtain ⟨n, hn, hget⟩ := List.mem_iff_getElem.1 hmem
      rw [List.getElem_zip] at hget
      injection hget with hg1 hg2
      simp only [List.getElem_range] at hg1
      subst hg1
      have hlen : n < (walks.take k).length := by simpa using hn
      have hwalk : walks.getD n [] = walk := by
        rw [List.getD_eq_getElem?_getD]
        have : (walks.take k)[n]? = some walk := by rw [List.getElem?_eq_getElem hlen]; exact congrArg some hg2
        rw [List.getElem?_take] at this
        split at this
        · rw [this]; rfl
        · cases this
      rw [hwalk] at ho
      have hwne : walk ≠ [] := by intro h0; apply hne; simp [h0]
      have hnodes : ∀ e ∈ walk, e.1 ∈ g.nodes ∧ e.2 ∈ g.nodes := by
        intro e0 he0
        have hwm : walk ∈ walks.take k := by rw [← hg2]; exact List.getElem_mem _
        by_cases h1 : e0.1 ∈ g.nodes
        · by_cases h2 : e0.2 ∈ g.nodes
          · exact ⟨h1, h2⟩
          · exfalso; apply hbad
            simp only [List.any_eq_true]
            exact ⟨walk, hwm, e0, he0, by simp [h2]⟩
        · exfalso; apply hbad
          simp only [List.any_eq_true]
          exact ⟨walk, hwm, e0, he0, by simp [h1]⟩
      have hpl := placed_of_walk g w hw walk hwne ho e' hew
      have := placed_protected g hg walk hnodes e' heg hpl
      simp [this] at hnp

end FP.Safety
