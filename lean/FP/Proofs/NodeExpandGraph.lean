import FP.Proofs.NodeExpandStr
import FP.Proofs.PathCore
import FP.Proofs.WalkLemmas
import FP.Spec.Routes
/-!
# structure of the expanded graph: its nodes, edges, ignore list, well-formedness, acyclicity, and
how its walks / routes condense to walks / routes of the original graph
-/
namespace FP
namespace NX
open FP.Spec

/-- edges join nodes of the graph (always true of a networkx graph) -/
def Closed (g : Graph) : Prop := ∀ e ∈ g.edges, e.1 ∈ g.nodes ∧ e.2 ∈ g.nodes

theorem mem_pred {g : Graph} {p v : Node} : p ∈ g.pred v ↔ (p, v) ∈ g.edges := by
  unfold Graph.pred
  constructor
  · intro h
    obtain ⟨e, he, rfl⟩ := List.mem_map.1 h
    have h2 := List.mem_filter.1 he
    have h3 : e.2 = v := by simpa using h2.2
    rw [← h3]; exact h2.1
  · intro h
    exact List.mem_map.2 ⟨(p, v), List.mem_filter.2 ⟨h, by simp⟩, rfl⟩

theorem mem_succ {g : Graph} {s v : Node} : s ∈ g.succ v ↔ (v, s) ∈ g.edges := by
  unfold Graph.succ
  constructor
  · intro h
    obtain ⟨e, he, rfl⟩ := List.mem_map.1 h
    have h2 := List.mem_filter.1 he
    have h3 : e.1 = v := by simpa using h2.2
    rw [← h3]; exact h2.1
  · intro h
    exact List.mem_map.2 ⟨(v, s), List.mem_filter.2 ⟨h, by simp⟩, rfl⟩

theorem nodup_eraseDups {α} [BEq α] [LawfulBEq α] (l : List α) : l.eraseDups.Nodup := by
  suffices h : ∀ n, ∀ l : List α, l.length ≤ n → l.eraseDups.Nodup from h l.length l (Nat.le_refl _)
  intro n
  induction n with
  | zero =>
    intro l hl
    have : l = [] := List.eq_nil_of_length_eq_zero (Nat.le_zero.1 hl)
    subst this; simp
  | succ n ih =>
    intro l hl
    cases l with
    | nil => simp
    | cons a as =>
      rw [List.eraseDups_cons]
      apply List.nodup_cons.2
      constructor
      · intro h
        have := (List.mem_filter.1 (List.mem_eraseDups.1 h)).2
        simp at this
      · apply ih
        have := List.length_filter_le (fun b => !b == a) as
        simp at hl; omega

/-! ## nodes and edges of the expansion -/

theorem mem_expand_nodes_of {g : Graph} {x : Node} (h : x ∈ (expandGraph g).nodes) (hc : Closed g) :
    ∃ v ∈ g.nodes, x = n0 v ∨ x = n1 v := by
  obtain ⟨v, hv, hx⟩ := List.mem_flatMap.1 (List.mem_eraseDups.1 h)
  unfold nodeMentions at hx
  rcases List.mem_append.1 hx with hx | hx
  · rcases List.mem_append.1 hx with hx | hx
    · simp at hx
      rcases hx with rfl | rfl
      · exact ⟨v, hv, Or.inl rfl⟩
      · exact ⟨v, hv, Or.inr rfl⟩
    · obtain ⟨p, hp, rfl⟩ := List.mem_map.1 hx
      exact ⟨p, (hc _ (mem_pred.1 hp)).1, Or.inr rfl⟩
  · obtain ⟨s, hs, rfl⟩ := List.mem_map.1 hx
    exact ⟨s, (hc _ (mem_succ.1 hs)).2, Or.inl rfl⟩

theorem n0_mem_expand {g : Graph} {v : Node} (hv : v ∈ g.nodes) : n0 v ∈ (expandGraph g).nodes :=
  List.mem_eraseDups.2 (List.mem_flatMap.2 ⟨v, hv, by simp [nodeMentions]⟩)

theorem n1_mem_expand {g : Graph} {v : Node} (hv : v ∈ g.nodes) : n1 v ∈ (expandGraph g).nodes :=
  List.mem_eraseDups.2 (List.mem_flatMap.2 ⟨v, hv, by simp [nodeMentions]⟩)

theorem expansion_nodes (g : Graph) (hc : Closed g) (x : Node) :
    x ∈ (expandGraph g).nodes ↔ ∃ v ∈ g.nodes, x = n0 v ∨ x = n1 v := by
  constructor
  · exact fun h => mem_expand_nodes_of h hc
  · rintro ⟨v, hv, rfl | rfl⟩
    · exact n0_mem_expand hv
    · exact n1_mem_expand hv

theorem mem_expand_edges_of {g : Graph} {x : Edge} (h : x ∈ (expandGraph g).edges) :
    (∃ v ∈ g.nodes, x = nodeEdge v) ∨ (∃ e ∈ g.edges, x = edgeEdge e) := by
  obtain ⟨v, hv, hx⟩ := List.mem_flatMap.1 (List.mem_eraseDups.1 h)
  unfold edgeMentions at hx
  rcases List.mem_append.1 hx with hx | hx
  · rcases List.mem_append.1 hx with hx | hx
    · simp at hx
      exact Or.inl ⟨v, hv, hx⟩
    · obtain ⟨p, hp, rfl⟩ := List.mem_map.1 hx
      exact Or.inr ⟨(p, v), mem_pred.1 hp, rfl⟩
  · obtain ⟨s, hs, rfl⟩ := List.mem_map.1 hx
    exact Or.inr ⟨(v, s), mem_succ.1 hs, rfl⟩

theorem nodeEdge_mem_expand {g : Graph} {v : Node} (hv : v ∈ g.nodes) : nodeEdge v ∈ (expandGraph g).edges :=
  List.mem_eraseDups.2 (List.mem_flatMap.2 ⟨v, hv, by simp [edgeMentions]⟩)

theorem edgeEdge_mem_expand {g : Graph} {e : Edge} (he : e ∈ g.edges) (hc : Closed g) :
    edgeEdge e ∈ (expandGraph g).edges := by
  refine List.mem_eraseDups.2 (List.mem_flatMap.2 ⟨e.2, (hc e he).2, ?_⟩)
  unfold edgeMentions
  apply List.mem_append_left
  apply List.mem_append_right
  exact List.mem_map.2 ⟨e.1, mem_pred.2 he, rfl⟩

theorem expansion_edges (g : Graph) (hc : Closed g) (x : Edge) :
    x ∈ (expandGraph g).edges ↔ (∃ v ∈ g.nodes, x = nodeEdge v) ∨ (∃ e ∈ g.edges, x = edgeEdge e) := by
  constructor
  · exact mem_expand_edges_of
  · rintro (⟨v, hv, rfl⟩ | ⟨e, he, rfl⟩)
    · exact nodeEdge_mem_expand hv
    · exact edgeEdge_mem_expand he hc

/-! ## the ignore list -/

theorem edgesToIgnore_exact (ng : NodeGraph) (hc : Closed ng.g) (x : Edge) :
    x ∈ edgesToIgnore ng ↔
      (∃ e ∈ ng.g.edges, x = edgeEdge e) ∨ (∃ v ∈ ng.g.nodes, ng.hasFlow v = false ∧ x = nodeEdge v) := by
  unfold edgesToIgnore
  constructor
  · intro h
    obtain ⟨v, hv, hx⟩ := List.mem_flatMap.1 h
    rcases List.mem_append.1 hx with hx | hx
    · by_cases hf : ng.hasFlow v = true
      · simp [hf] at hx
      · have hf' : ng.hasFlow v = false := by simpa using hf
        simp [hf'] at hx
        exact Or.inr ⟨v, hv, hf', hx⟩
    · obtain ⟨p, hp, rfl⟩ := List.mem_map.1 hx
      exact Or.inl ⟨(p, v), mem_pred.1 hp, rfl⟩
  · rintro (⟨e, he, rfl⟩ | ⟨v, hv, hf, rfl⟩)
    · refine List.mem_flatMap.2 ⟨e.2, (hc e he).2, List.mem_append_right _ ?_⟩
      exact List.mem_map.2 ⟨e.1, mem_pred.2 he, rfl⟩
    · exact List.mem_flatMap.2 ⟨v, hv, List.mem_append_left _ (by simp [hf])⟩

theorem missing_attr_ignored (ng : NodeGraph) (hc : Closed ng.g) :
    (∀ v ∈ ng.g.nodes, ng.hasFlow v = false → nodeEdge v ∈ edgesToIgnore ng) ∧
    (∀ e ∈ ng.g.edges, edgeEdge e ∈ edgesToIgnore ng) ∧
    (∀ v ∈ ng.g.nodes, ng.hasFlow v = true → nodeEdge v ∉ edgesToIgnore ng) := by
  refine ⟨fun v hv hf => (edgesToIgnore_exact ng hc _).2 (Or.inr ⟨v, hv, hf, rfl⟩),
          fun e he => (edgesToIgnore_exact ng hc _).2 (Or.inl ⟨e, he, rfl⟩), ?_⟩
  intro v _ hf h
  rcases (edgesToIgnore_exact ng hc _).1 h with ⟨e, _, he⟩ | ⟨w, _, hw, he⟩
  · exact nodeEdge_ne_edgeEdge _ _ he
  · rw [nodeEdge_inj he] at hf; rw [hf] at hw; exact Bool.noConfusion hw

/-! ## well-formedness and acyclicity of the expansion -/

theorem src_not_expanded (v : Node) : srcName ≠ n0 v ∧ srcName ≠ n1 v := by
  constructor
  · intro h
    have h1 := endsWith0_n0 v
    rw [← h] at h1
    exact absurd h1 (by decide)
  · intro h
    have h1 := endsWith1_n1 v
    rw [← h] at h1
    exact absurd h1 (by decide)

theorem snk_not_expanded (v : Node) : snkName ≠ n0 v ∧ snkName ≠ n1 v := by
  constructor
  · intro h
    have h1 := endsWith0_n0 v
    rw [← h] at h1
    exact absurd h1 (by decide)
  · intro h
    have h1 := endsWith1_n1 v
    rw [← h] at h1
    exact absurd h1 (by decide)

theorem expansion_wf (g : Graph) (hc : Closed g) : BaseWF (expandGraph g) where
  edgesNodup := nodup_eraseDups _
  nodesNodup := nodup_eraseDups _
  closed := by
    intro x hx
    rcases mem_expand_edges_of hx with ⟨v, hv, rfl⟩ | ⟨e, he, rfl⟩
    · exact ⟨n0_mem_expand hv, n1_mem_expand hv⟩
    · exact ⟨n1_mem_expand (hc e he).1, n0_mem_expand (hc e he).2⟩
  freshSrc := by
    intro h
    obtain ⟨v, _, hv | hv⟩ := mem_expand_nodes_of h hc
    · exact (src_not_expanded v).1 hv
    · exact (src_not_expanded v).2 hv
  freshSnk := by
    intro h
    obtain ⟨v, _, hv | hv⟩ := mem_expand_nodes_of h hc
    · exact (snk_not_expanded v).1 hv
    · exact (snk_not_expanded v).2 hv

theorem expansion_acyclic (g : Graph) (hac : Acyclic g) : Acyclic (expandGraph g) := by
  obtain ⟨rank, hr⟩ := hac
  refine ⟨fun x => if endsWith0 x then 2 * rank (strip2 x) else 2 * rank (strip2 x) + 1, ?_⟩
  intro x hx
  rcases mem_expand_edges_of hx with ⟨v, _, rfl⟩ | ⟨e, he, rfl⟩
  · simp [nodeEdge, endsWith0_n0, endsWith0_n1, strip2_n0, strip2_n1]
  · have := hr e he
    simp [edgeEdge, endsWith0_n0, endsWith0_n1, strip2_n0, strip2_n1]
    omega

/-! ## walks of the expansion -/

theorem out_of_n0 {g : Graph} {v a : Node} (h : (n0 v, a) ∈ (expandGraph g).edges) : a = n1 v := by
  rcases mem_expand_edges_of h with ⟨u, _, hu⟩ | ⟨e, _, he⟩
  · have h1 : n0 v = n0 u := congrArg Prod.fst hu
    have h2 : a = n1 u := congrArg Prod.snd hu
    rw [h2, n0_inj h1]
  · exact absurd (congrArg Prod.fst he) (n0_ne_n1 _ _)

theorem out_of_n1 {g : Graph} {v b : Node} (h : (n1 v, b) ∈ (expandGraph g).edges) :
    ∃ w, b = n0 w ∧ (v, w) ∈ g.edges := by
  rcases mem_expand_edges_of h with ⟨u, _, hu⟩ | ⟨e, he, hx⟩
  · exact absurd (congrArg Prod.fst hu).symm (n0_ne_n1 _ _)
  · have h1 : n1 v = n1 e.1 := congrArg Prod.fst hx
    have h2 : b = n0 e.2 := congrArg Prod.snd hx
    refine ⟨e.2, h2, ?_⟩
    rw [n1_inj h1]; exact he

theorem isWalkIn_cons {g : Graph} {a b : Node} {l : List Node} (h : IsWalkIn g (a :: b :: l)) :
    (a, b) ∈ g.edges ∧ IsWalkIn g (b :: l) := by
  unfold IsWalkIn at h ⊢
  rw [walkEdges_cons_cons] at h
  exact ⟨h _ (List.mem_cons_self ..), fun e he => h e (List.mem_cons_of_mem _ he)⟩

theorem isWalkIn_cons_of {g : Graph} {a b : Node} {l : List Node} (hab : (a, b) ∈ g.edges)
    (h : IsWalkIn g (b :: l)) : IsWalkIn g (a :: b :: l) := by
  unfold IsWalkIn at h ⊢
  rw [walkEdges_cons_cons]
  intro e he
  rcases List.mem_cons.1 he with rfl | he
  · exact hab
  · exact h e he

theorem expandPath_ne_nil {q : List Node} (h : q ≠ []) : expandPath q ≠ [] := by
  cases q with
  | nil => exact absurd rfl h
  | cons a q => rw [expandPath_cons]; exact List.cons_ne_nil _ _

/-- a walk of the expansion that starts at a `.0` node is the expansion of a walk `q` of the original
graph, possibly cut before its last `.1` node -/
theorem walk_from_n0 (g : Graph) : ∀ n, ∀ (l : List Node) (v : Node), l.length ≤ n →
    IsWalkIn (expandGraph g) (n0 v :: l) →
    ∃ q, q.head? = some v ∧ IsWalkIn g q ∧
      (n0 v :: l = expandPath q ∨ n0 v :: l = (expandPath q).dropLast) := by
  intro n
  induction n with
  | zero =>
    intro l v hl _
    have : l = [] := List.eq_nil_of_length_eq_zero (Nat.le_zero.1 hl)
    subst this
    exact ⟨[v], rfl, by simp [IsWalkIn, walkEdges], Or.inr (by simp [expandPath])⟩
  | succ n ih =>
    intro l v hl hw
    match l, hl, hw with
    | [], _, _ => exact ⟨[v], rfl, by simp [IsWalkIn, walkEdges], Or.inr (by simp [expandPath])⟩
    | [a], _, hw =>
      have ha := out_of_n0 (isWalkIn_cons hw).1
      subst ha
      exact ⟨[v], rfl, by simp [IsWalkIn, walkEdges], Or.inl (by simp [expandPath])⟩
    | a :: b :: rest, hl, hw =>
      have h1 := isWalkIn_cons hw
      have ha := out_of_n0 h1.1
      subst ha
      have h2 := isWalkIn_cons h1.2
      obtain ⟨w, hb, hvw⟩ := out_of_n1 h2.1
      subst hb
      have hlen : rest.length ≤ n := by simp at hl; omega
      obtain ⟨q, hq, hwq, hcase⟩ := ih rest w hlen h2.2
      cases q with
      | nil => simp at hq
      | cons w' q' =>
        have : w' = w := by simpa using hq
        subst this
        refine ⟨v :: w' :: q', rfl, isWalkIn_cons_of hvw hwq, ?_⟩
        rcases hcase with hc | hc
        · left; rw [expandPath_cons, ← hc]
        · right
          rw [expandPath_cons, List.dropLast_cons_of_ne_nil (List.cons_ne_nil _ _),
            List.dropLast_cons_of_ne_nil (expandPath_ne_nil (List.cons_ne_nil _ _)), ← hc]

theorem getLast?_expandPath (q : List Node) : (expandPath q).getLast? = q.getLast?.map n1 := by
  rcases List.eq_nil_or_concat q with rfl | ⟨q0, z, rfl⟩
  · rfl
  · rw [List.concat_eq_append, expandPath_append]; simp [expandPath]

theorem getLast?_dropLast_expandPath (q : List Node) (hq : q ≠ []) :
    ∃ z, ((expandPath q).dropLast).getLast? = some (n0 z) := by
  rcases List.eq_nil_or_concat q with rfl | ⟨q0, z, rfl⟩
  · exact absurd rfl hq
  · refine ⟨z, ?_⟩
    rw [List.concat_eq_append, expandPath_append]
    have : expandPath [z] = [n0 z] ++ [n1 z] := by simp [expandPath]
    rw [this, ← List.append_assoc, List.dropLast_concat]
    simp

theorem expanded_walk_condenses (g : Graph) (l : List Node) (v w : Node)
    (hw : IsWalkIn (expandGraph g) l) (hfirst : l.head? = some (n0 v)) (hlast : l.getLast? = some (n1 w)) :
    ∃ p, l = expandPath p ∧ IsWalkIn g p ∧ p.head? = some v ∧ p.getLast? = some w := by
  cases l with
  | nil => simp at hfirst
  | cons x l =>
    have : x = n0 v := by simpa using hfirst
    subst this
    obtain ⟨q, hq, hwq, hcase⟩ := walk_from_n0 g l.length l v (Nat.le_refl _) hw
    have hqne : q ≠ [] := by intro h; subst h; simp at hq
    rcases hcase with hc | hc
    · refine ⟨q, hc, hwq, hq, ?_⟩
      rw [hc, getLast?_expandPath] at hlast
      cases hql : q.getLast? with
      | none => rw [hql] at hlast; simp at hlast
      | some z =>
        rw [hql] at hlast
        have : n1 z = n1 w := by simpa using hlast
        rw [n1_inj this]
    · exfalso
      obtain ⟨z, hz⟩ := getLast?_dropLast_expandPath q hqne
      rw [hc, hz] at hlast
      have : n0 z = n1 w := by simpa using hlast
      exact n0_ne_n1 _ _ this

/-! ## routes -/

theorem head?_expandPath (q : List Node) : (expandPath q).head? = q.head?.map n0 := by
  cases q with
  | nil => rfl
  | cons a q => rw [expandPath_cons]; rfl

theorem mem_expandPath {q : List Node} {x : Node} : x ∈ expandPath q ↔ ∃ u ∈ q, x = n0 u ∨ x = n1 u := by
  unfold expandPath
  rw [List.mem_flatMap]
  constructor
  · rintro ⟨u, hu, hx⟩
    simp at hx
    exact ⟨u, hu, hx⟩
  · rintro ⟨u, hu, hx⟩
    exact ⟨u, hu, by simpa using hx⟩

/-- **routes of the expansion are the expansions of the routes of the original graph**: an admissible
route of the expanded graph (additional starts `s.0`, additional ends `t.1`) is `v₁.0, v₁.1, …, vₙ.0,
vₙ.1` for an admissible route `v₁ … vₙ` of the original graph, and `get_condensed_paths` returns it -/
theorem expanded_route_condenses (g : Graph) (hc : Closed g) (starts ends : List Node) (l : List Node)
    (h : ValidRoute (expandGraph g) (starts.map n0) (ends.map n1) l) :
    ∃ p, l = expandPath p ∧ ValidRoute g starts ends p ∧ condensePath g.nodes [] l = .ok p := by
  have hne := h.nonempty
  -- the first node is a `.0` node
  obtain ⟨x, hx⟩ : ∃ x, l.head? = some x := by
    cases l with
    | nil => exact absurd rfl hne
    | cons a l => exact ⟨a, rfl⟩
  have hxl : x ∈ l := List.mem_of_head? hx
  obtain ⟨v, hv, hxv⟩ := mem_expand_nodes_of (h.nodes x hxl) hc
  have hx0 : x = n0 v := by
    rcases hxv with hxv | hxv
    · exact hxv
    · exfalso
      subst hxv
      rcases h.first _ hx with hp | hs
      · have : n0 v ∈ (expandGraph g).pred (n1 v) := mem_pred.2 (nodeEdge_mem_expand hv)
        rw [hp] at this; simp at this
      · obtain ⟨s, _, hs⟩ := List.mem_map.1 hs
        exact n0_ne_n1 _ _ hs
  subst hx0
  -- the last node is a `.1` node
  obtain ⟨y, hy⟩ : ∃ y, l.getLast? = some y := by
    cases hl : l.getLast? with
    | none => exact absurd (List.getLast?_eq_none_iff.1 hl) hne
    | some y => exact ⟨y, rfl⟩
  have hyl : y ∈ l := List.mem_of_getLast? hy
  obtain ⟨w, hw, hyw⟩ := mem_expand_nodes_of (h.nodes y hyl) hc
  have hy1 : y = n1 w := by
    rcases hyw with hyw | hyw
    · exfalso
      subst hyw
      rcases h.last _ hy with hp | hs
      · have : n1 w ∈ (expandGraph g).succ (n0 w) := mem_succ.2 (nodeEdge_mem_expand hw)
        rw [hp] at this; simp at this
      · obtain ⟨s, _, hs⟩ := List.mem_map.1 hs
        exact n0_ne_n1 _ _ hs.symm
    · exact hyw
  subst hy1
  obtain ⟨p, hlp, hwp, hph, hpl⟩ := expanded_walk_condenses g l v w h.adjacent hx hy
  have hnodes : ∀ u ∈ p, u ∈ g.nodes := by
    intro u hu
    have : n0 u ∈ l := by rw [hlp]; exact mem_expandPath.2 ⟨u, hu, Or.inl rfl⟩
    obtain ⟨z, hz, huz⟩ := mem_expand_nodes_of (h.nodes _ this) hc
    rcases huz with huz | huz
    · rw [n0_inj huz]; exact hz
    · exact absurd huz (n0_ne_n1 _ _)
  refine ⟨p, hlp, ⟨?_, hnodes, hwp, ?_, ?_⟩, ?_⟩
  · intro hp; subst hp; simp at hph
  · intro a ha
    rw [hph] at ha
    have : v = a := by simpa using ha
    subst this
    rcases h.first _ hx with hp | hs
    · left
      cases hpr : g.pred v with
      | nil => rfl
      | cons u us =>
        exfalso
        have hu : u ∈ g.pred v := by rw [hpr]; exact List.mem_cons_self ..
        have : n1 u ∈ (expandGraph g).pred (n0 v) :=
          mem_pred.2 (edgeEdge_mem_expand (e := (u, v)) (mem_pred.1 hu) hc)
        rw [hp] at this; simp at this
    · right
      obtain ⟨s, hs1, hs2⟩ := List.mem_map.1 hs
      rw [← n0_inj hs2]; exact hs1
  · intro a ha
    rw [hpl] at ha
    have : w = a := by simpa using ha
    subst this
    rcases h.last _ hy with hp | hs
    · left
      cases hsu : g.succ w with
      | nil => rfl
      | cons u us =>
        exfalso
        have hu : u ∈ g.succ w := by rw [hsu]; exact List.mem_cons_self ..
        have : n0 u ∈ (expandGraph g).succ (n1 w) :=
          mem_succ.2 (edgeEdge_mem_expand (e := (w, u)) (mem_succ.1 hu) hc)
        rw [hp] at this; simp at this
    · right
      obtain ⟨s, hs1, hs2⟩ := List.mem_map.1 hs
      rw [← n1_inj hs2]; exact hs1
  · rw [hlp]; exact condense_expand g.nodes p hnodes

end NX
end FP
