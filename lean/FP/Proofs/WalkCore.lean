import FP.Model.WalkDecode
import FP.Spec.Routes
import FP.Proofs.PathCore
import FP.Proofs.Euler
import FP.Proofs.WalkResidual
import FP.Proofs.WalkCoreEnc
/-!
# FP.Proofs.WalkCore — soundness of the walk encoding (`_encode_walks`) and of the decoded walks

* `WalkCoreEnc` extracts, from a satisfying assignment, natural multiplicities `m = multOf a i`
  with flow conservation and a distance witness (`WalkFacts`);
* `WalkResidual` relates the residual adjacency structure to the multiset `e ↦ m e`;
* here: every edge of positive multiplicity is reachable from the source along such edges
  (`reach_tail`), the balances are those of an Euler trail (`bal_src`, `bal_snk`), so the proven
  Hierholzer theorem `Euler.reconstruct_euler_main` applies.
-/
namespace FP
open FP.Spec

/-- well-formed s-t digraph (cycles allowed): what `stDiGraph` guarantees about the augmented graph -/
structure STWFc (s : STGraph) : Prop where
  edgesNodup : s.g.edges.Nodup
  nodesNodup : s.g.nodes.Nodup
  closed : ∀ e ∈ s.g.edges, e.1 ∈ s.g.nodes ∧ e.2 ∈ s.g.nodes
  srcNoIn : ∀ e ∈ s.g.edges, e.2 ≠ s.source
  snkNoOut : ∀ e ∈ s.g.edges, e.1 ≠ s.sink
  ne : s.source ≠ s.sink
  noDirect : (s.source, s.sink) ∉ s.g.edges

/-! ## natural flows -/

theorem nat_le_sum_of_mem' {α} (l : List α) (f : α → Nat) (u : α) (hu : u ∈ l) :
    f u ≤ (l.map f).sum := by
  induction l with
  | nil => simp at hu
  | cons x xs ih =>
    simp only [List.map_cons, List.sum_cons]
    rcases List.mem_cons.1 hu with rfl | h
    · omega
    · have := ih h; omega

theorem le_outN (g : Graph) (m : Edge → Nat) {e : Edge} (he : e ∈ g.edges) : m e ≤ outN g m e.1 :=
  nat_le_sum_of_mem' _ m e (List.mem_filter.2 ⟨he, by simp⟩)

theorem le_inN (g : Graph) (m : Edge → Nat) {e : Edge} (he : e ∈ g.edges) : m e ≤ inN g m e.2 :=
  nat_le_sum_of_mem' _ m e (List.mem_filter.2 ⟨he, by simp⟩)

theorem outN_eq_zero (g : Graph) (m : Edge → Nat) (v : Node) (h : ∀ e ∈ g.edges, e.1 ≠ v) :
    outN g m v = 0 := by
  unfold outN
  rw [List.filter_eq_nil_iff.2 (fun e he => by simpa using h e he)]; rfl

theorem inN_eq_zero (g : Graph) (m : Edge → Nat) (v : Node) (h : ∀ e ∈ g.edges, e.2 ≠ v) :
    inN g m v = 0 := by
  unfold inN
  rw [List.filter_eq_nil_iff.2 (fun e he => by simpa using h e he)]; rfl

theorem int_sum_map_mul_left {α} (l : List α) (f : α → Int) (k : Int) :
    (l.map (fun i => k * f i)).sum = k * (l.map f).sum := by
  induction l with
  | nil => simp
  | cons x xs ih => simp only [List.map_cons, List.sum_cons, ih, Int.mul_add]

theorem nat_sum_eq_zero {α} (l : List α) (f : α → Nat) (h : ∀ x ∈ l, f x = 0) :
    (l.map f).sum = 0 := by
  induction l with
  | nil => simp
  | cons x xs ih =>
    simp only [List.map_cons, List.sum_cons, h x (by simp), ih (fun y hy => h y (by simp [hy]))]

/-! ## one layer -/

section Layer
variable {s : STGraph} {ae : Bool} {m : Edge → Nat}

/-- conservation holds at every vertex other than the synthetic ones (trivially outside the graph) -/
theorem cons_all (hwf : STWFc s) (hf : WalkFacts s ae m) (v : Node) (h1 : v ≠ s.source)
    (h2 : v ≠ s.sink) : inN s.g m v = outN s.g m v := by
  by_cases hv : v ∈ s.g.nodes
  · exact hf.cons v hv h1 h2
  · rw [inN_eq_zero s.g m v (fun e he h => hv (h ▸ (hwf.closed e he).2)),
      outN_eq_zero s.g m v (fun e he h => hv (h ▸ (hwf.closed e he).1))]

theorem mem_res (hwf : STWFc s) {e : Edge} :
    e ∈ Euler.edges (buildResidual s.g m) ↔ e ∈ s.g.edges ∧ m e ≠ 0 :=
  mem_residual hwf.nodesNodup hwf.edgesNodup hwf.closed m

/-- every node with positive in-flow is reachable from the source along edges of positive
multiplicity (descent along the distance witness) -/
theorem reach_of_inflow (hwf : STWFc s) (hf : WalkFacts s ae m) (dist : Node → Nat)
    (hd : ∀ v ∈ s.g.nodes, v ≠ s.source → inN s.g m v ≠ 0 →
      ∃ u, (u, v) ∈ s.g.edges ∧ m (u, v) ≠ 0 ∧ dist u < dist v) :
    ∀ n v, dist v < n → v ∈ s.g.nodes → v ≠ s.source → inN s.g m v ≠ 0 →
      Reach (Euler.edges (buildResidual s.g m)) s.source v := by
  intro n
  induction n with
  | zero => intro v h; omega
  | succ n ih =>
    intro v hlt hv hvs hin
    obtain ⟨u, he, hm, hdu⟩ := hd v hv hvs hin
    have hmem : (u, v) ∈ Euler.edges (buildResidual s.g m) := (mem_res hwf).2 ⟨he, hm⟩
    by_cases hus : u = s.source
    · subst hus
      exact Reach.step (Reach.refl _) hmem
    · have hut : u ≠ s.sink := hwf.snkNoOut _ he
      have hcons := cons_all hwf hf u hus hut
      have hle := le_outN s.g m he
      have hu : inN s.g m u ≠ 0 := by
        simp only at hle; omega
      exact Reach.step (ih u (by omega) (hwf.closed _ he).1 hus hu) hmem

/-- the tail of every residual edge is reachable from the source -/
theorem reach_tail (hwf : STWFc s) (hf : WalkFacts s ae m) :
    ∀ e ∈ Euler.edges (buildResidual s.g m),
      Reach (Euler.edges (buildResidual s.g m)) s.source e.1 := by
  intro e he
  obtain ⟨he', hm⟩ := (mem_res hwf).1 he
  by_cases hs : e.1 = s.source
  · rw [hs]; exact Reach.refl _
  · obtain ⟨dist, hd⟩ := hf.conn
    have hcons := cons_all hwf hf e.1 hs (hwf.snkNoOut _ he')
    have hle := le_outN s.g m he'
    exact reach_of_inflow hwf hf dist hd (dist e.1 + 1) e.1 (by omega) (hwf.closed _ he').1 hs
      (by omega)

/-- a vertex reachable from `x` is `x` itself or the walk starts with an edge leaving `x` -/
theorem reach_first {es : List Edge} {x y : Node} (h : Reach es x y) : y = x ∨ ∃ w, (x, w) ∈ es := by
  induction h with
  | refl => exact Or.inl rfl
  | step _ hmem ih =>
    rcases ih with rfl | h
    · exact Or.inr ⟨_, hmem⟩
    · exact Or.inr h

theorem bal_inner (hwf : STWFc s) (hf : WalkFacts s ae m) (x : Node) (h1 : x ≠ s.source)
    (h2 : x ≠ s.sink) : bal (Euler.edges (buildResidual s.g m)) x = 0 := by
  rw [bal_residual hwf.nodesNodup hwf.edgesNodup hwf.closed, cons_all hwf hf x h1 h2]; omega

theorem bal_src (hwf : STWFc s) (h1 : outN s.g m s.source = 1) :
    bal (Euler.edges (buildResidual s.g m)) s.source = 1 := by
  rw [bal_residual hwf.nodesNodup hwf.edgesNodup hwf.closed, h1,
    inN_eq_zero s.g m s.source hwf.srcNoIn]; rfl

theorem bal_snk (hwf : STWFc s) (hf : WalkFacts s ae m) (hsm : s.source ∈ s.g.nodes)
    (h1 : outN s.g m s.source = 1) : bal (Euler.edges (buildResidual s.g m)) s.sink = -1 := by
  have hsum := sum_bal_zero s.g.nodes hwf.nodesNodup (Euler.edges (buildResidual s.g m))
    (fun e he => hwf.closed e ((mem_res hwf).1 he).1)
  have hfun : ∀ v ∈ s.g.nodes, bal (Euler.edges (buildResidual s.g m)) v
      = Euler.ind' (s.source = v)
        + bal (Euler.edges (buildResidual s.g m)) s.sink * Euler.ind' (s.sink = v) := by
    intro v _
    by_cases hvs : v = s.source
    · subst hvs
      have : ¬ s.sink = s.source := fun h => hwf.ne h.symm
      rw [bal_src hwf h1]; simp [Euler.ind', this]
    · by_cases hvt : v = s.sink
      · subst hvt
        simp [Euler.ind', hwf.ne]
      · have h3 : ¬ s.source = v := fun h => hvs h.symm
        have h4 : ¬ s.sink = v := fun h => hvt h.symm
        rw [bal_inner hwf hf v hvs hvt]; simp [Euler.ind', h3, h4]
  rw [List.map_congr_left hfun, int_sum_map_add, sum_ind_mem _ hwf.nodesNodup _ hsm] at hsum
  generalize bal (Euler.edges (buildResidual s.g m)) s.sink = b at hsum ⊢
  rw [int_sum_map_mul_left] at hsum
  by_cases ht : s.sink ∈ s.g.nodes
  · rw [sum_ind_mem _ hwf.nodesNodup _ ht] at hsum; omega
  · rw [sum_ind_not_mem _ _ ht] at hsum; omega

/-- the combinatorial heart of `walkcore_sound` -/
theorem layer_walk_sound (hwf : STWFc s) (hf : WalkFacts s ae m) :
    ((∀ v ∈ s.g.succ s.source, m (s.source, v) = 0) →
        ae = true ∧ Euler.reconstruct (buildResidual s.g m) s.source s.sink = [] ∧
          ∀ e ∈ s.g.edges, m e = 0) ∧
    ((∃ v ∈ s.g.succ s.source, m (s.source, v) ≠ 0) →
        ∀ e : Edge,
          traversals (s.source :: Euler.reconstruct (buildResidual s.g m) s.source s.sink ++ [s.sink]) e
            = if e ∈ s.g.edges then m e else 0) := by
  constructor
  · intro h0
    have hall : ∀ e ∈ s.g.edges, m e = 0 := by
      intro e he
      apply Classical.byContradiction
      intro hm
      have hmem : e ∈ Euler.edges (buildResidual s.g m) := (mem_res hwf).2 ⟨he, hm⟩
      have hex : ∃ w, (s.source, w) ∈ Euler.edges (buildResidual s.g m) := by
        rcases reach_first (reach_tail hwf hf e hmem) with h | h
        · exact ⟨e.2, by rw [← h]; exact hmem⟩
        · exact h
      obtain ⟨w, hw⟩ := hex
      obtain ⟨hw1, hw2⟩ := (mem_res hwf).1 hw
      exact hw2 (h0 w (mem_succ.2 hw1))
    have hout : outN s.g m s.source = 0 :=
      nat_sum_eq_zero _ _ (fun e he => hall e (List.mem_filter.1 he).1)
    refine ⟨?_, ?_, hall⟩
    · have := hf.src
      cases hae : ae
      · rw [hae, hout] at this; simp at this
      · rfl
    · apply Euler.reconstruct_nil
      apply List.eq_nil_iff_forall_not_mem.2
      intro e he
      obtain ⟨he1, he2⟩ := (mem_res hwf).1 he
      exact he2 (hall e he1)
  · rintro ⟨v, hv, hm⟩
    have he : (s.source, v) ∈ s.g.edges := mem_succ.1 hv
    have hsm : s.source ∈ s.g.nodes := (hwf.closed _ he).1
    have hout : outN s.g m s.source = 1 := by
      have hle := le_outN s.g m he
      have := hf.src
      cases hae : ae
      · rw [hae] at this; simpa using this
      · rw [hae] at this
        simp only [if_true] at this
        simp only at hle; omega
    have hkeys := keys_buildResidual s.g m
    have hmain := Euler.reconstruct_euler_main (buildResidual s.g m) s.source s.sink
      (by rw [hkeys]; exact hwf.nodesNodup) (by rw [hkeys]; exact hsm)
      (fun e he => by rw [hkeys]; exact (hwf.closed e ((mem_res hwf).1 he).1).2) hwf.ne
      (bal_inner hwf hf) (bal_src hwf hout) (bal_snk hwf hf hsm hout) (reach_tail hwf hf)
    intro e
    unfold traversals
    rw [hmain.1.count_eq, count_residual hwf.nodesNodup hwf.edgesNodup hwf.closed]

end Layer

theorem walkcore_sound (s : STGraph) (c : WalkCfg) (ub : Edge → Rat) (a : Asg) (hwf : STWFc s)
    (hsat : Sat a (encodeWalks s c ub)) (i : Nat) (hi : i < c.k) :
    (∀ e ∈ s.g.edges, a (edgeVar e i) = (multOf a i e : Rat)) ∧
    ((∀ v ∈ s.g.succ s.source, multOf a i (s.source, v) = 0) →
        c.allowEmpty = true ∧ decodeWalkLayer s a i = [] ∧ ∀ e ∈ s.g.edges, multOf a i e = 0) ∧
    ((∃ v ∈ s.g.succ s.source, multOf a i (s.source, v) ≠ 0) →
        ∀ e : Edge, traversals (s.source :: decodeWalkLayer s a i ++ [s.sink]) e
          = if e ∈ s.g.edges then multOf a i e else 0) :=
  ⟨fun _ he => edge_col hsat hi he,
    layer_walk_sound hwf (walkFacts_of_sat hwf.closed hsat i hi)⟩

theorem augment_wfc (base : Graph) (starts ends : List Node) (h : BaseWF base) :
    STWFc (augment base starts ends) where
  edgesNodup := aug_edges_nodup h.closed h.freshSrc h.freshSnk h.nodesNodup h.edgesNodup
  nodesNodup := aug_nodes_nodup h.freshSrc h.freshSnk h.nodesNodup
  closed := aug_closed h.closed
  srcNoIn := aug_srcNoIn h.closed h.freshSrc
  snkNoOut := aug_snkNoOut h.closed h.freshSnk
  ne := src_ne_snk
  noDirect := aug_noDirect h.closed h.freshSrc h.freshSnk

theorem exists_walkEdge_from (l : List Node) (v : Node) (hv : v ∈ l.dropLast) :
    ∃ w, (v, w) ∈ walkEdges l := by
  rw [← walkEdges_map_fst] at hv
  obtain ⟨e, he, rfl⟩ := List.mem_map.1 hv
  exact ⟨e.2, he⟩

theorem walk_routes_valid (base : Graph) (starts ends : List Node) (c : WalkCfg) (ub : Edge → Rat)
    (a : Asg) (h : BaseWF base)
    (hsat : Sat a (encodeWalks (augment base starts ends) c ub)) (i : Nat) (hi : i < c.k) :
    let w := decodeWalkLayer (augment base starts ends) a i
    (w = [] → c.allowEmpty = true) ∧ (w ≠ [] → ValidRoute base starts ends w) := by
  intro w
  have hwf := augment_wfc base starts ends h
  obtain ⟨_, hempty, hwalk⟩ := walkcore_sound (augment base starts ends) c ub a hwf hsat i hi
  by_cases hex : ∃ v ∈ (augment base starts ends).g.succ (augment base starts ends).source,
      multOf a i ((augment base starts ends).source, v) ≠ 0
  · -- the layer leaves the source: the reconstructed walk uses edges of the augmented graph only
    have htrav := hwalk hex
    have hs : (augment base starts ends).source = srcName := rfl
    have ht : (augment base starts ends).sink = snkName := rfl
    rw [hs, ht] at htrav
    have hW : IsWalkIn (augment base starts ends).g (srcName :: w ++ [snkName]) := by
      intro e he
      apply Classical.byContradiction
      intro hne
      have h1 := htrav e
      rw [if_neg hne] at h1
      exact (List.count_eq_zero.1 h1) he
    have hedge := fun e => aug_mem_edges' (st := starts) (en := ends) h.closed (e := e)
    have hL : srcName :: w ++ [snkName] = srcName :: (w ++ [snkName]) := rfl
    have hsp : srcName ∉ w := by
      intro hm
      obtain ⟨u, hu⟩ := exists_walkEdge_into (srcName :: w ++ [snkName]) srcName
        (by rw [hL, List.tail_cons]; exact List.mem_append_left _ hm)
      exact hwf.srcNoIn _ (hW _ hu) rfl
    have htp : snkName ∉ w := by
      intro hm
      obtain ⟨u, hu⟩ := exists_walkEdge_from (srcName :: w ++ [snkName]) snkName
        (by rw [List.dropLast_concat]; exact List.mem_cons_of_mem _ hm)
      exact hwf.snkNoOut _ (hW _ hu) rfl
    have hne : w ≠ [] := by
      intro hw
      rw [hw] at hW
      exact hwf.noDirect (hW (srcName, snkName) (by simp [walkEdges]))
    refine ⟨fun hw => absurd hw hne, fun _ => ?_⟩
    generalize w = p at hW hsp htp hne hL
    have hnodes : ∀ v ∈ p, v ∈ base.nodes := by
      intro v hv
      obtain ⟨u, hu⟩ := exists_walkEdge_into (srcName :: p ++ [snkName]) v
        (by rw [hL, List.tail_cons]; exact List.mem_append_left _ hv)
      rcases (hedge _).1 (hW _ hu) with hb | ⟨_, hb, _⟩ | ⟨hb, _, _⟩
      · exact (h.closed _ hb).2
      · exact hb
      · exact absurd (hb ▸ hv) htp
    refine ⟨hne, hnodes, ?_, ?_, ?_⟩
    · intro e he
      have he' : e ∈ walkEdges (srcName :: p ++ [snkName]) :=
        walkEdges_sub_cons _ _ _ (walkEdges_sub_append p [snkName] e he)
      have h1 : e.1 ∈ p := List.dropLast_subset _ (fst_mem_of_mem_walkEdges p e he)
      have h2 : e.2 ∈ p := List.mem_of_mem_tail (snd_mem_of_mem_walkEdges p e he)
      rcases (hedge _).1 (hW _ he') with hb | ⟨hb, _, _⟩ | ⟨hb, _, _⟩
      · exact hb
      · exact absurd (hb ▸ h1) hsp
      · exact absurd (hb ▸ h2) htp
    · intro v hv
      cases p with
      | nil => simp at hv
      | cons x p' =>
        have : x = v := by simpa using hv
        subst this
        have hmem : (srcName, x) ∈ walkEdges (srcName :: (x :: p') ++ [snkName]) := by
          simp [walkEdges_cons_cons]
        rcases (hedge _).1 (hW _ hmem) with hb | ⟨_, _, hb⟩ | ⟨_, hb, _⟩
        · exact absurd (h.closed _ hb).1 h.freshSrc
        · exact hb
        · exact absurd hb h.freshSrc
    · intro v hv
      have hsplit := split_last p v hv
      have hmem : (v, snkName) ∈ walkEdges (srcName :: p ++ [snkName]) := by
        rw [hsplit]
        have := mem_walkEdges_mid (srcName :: p.dropLast) [] v snkName
        simpa using this
      rcases (hedge _).1 (hW _ hmem) with hb | ⟨hb, _, _⟩ | ⟨_, _, hb⟩
      · exact absurd (h.closed _ hb).2 h.freshSnk
      · exact absurd (hb ▸ List.mem_of_getLast? hv) hsp
      · exact hb
  · -- the layer does not leave the source: empty walk, allowed only with `allowEmpty`
    have h0 : ∀ v ∈ (augment base starts ends).g.succ (augment base starts ends).source,
        multOf a i ((augment base starts ends).source, v) = 0 := by
      intro v hv
      apply Classical.byContradiction
      intro hm
      exact hex ⟨v, hv, hm⟩
    obtain ⟨hae, hnil, _⟩ := hempty h0
    exact ⟨fun _ => hae, fun hw => absurd hnil hw⟩

end FP
