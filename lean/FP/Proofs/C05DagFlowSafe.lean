import FP.Proofs.C05DagClasses
import FP.Proofs.WalkLemmas
import FP.Props.C06
/-!
# FP.Proofs.C05DagFlowSafe — `kFlowDecomp`'s flow-safe paths lie in some path of every solution

`kFlowDecomp.__init__` hands `compute_flow_decomp_safe_paths(G, flow)` over as `external_safe_paths` only when no
edge is ignored (fix 3d0fcdd). Then every satisfying assignment of the k-model is a flow decomposition of the whole
flow of the user's graph (C02 `kfd_exact`): the layers of positive weight that use an edge, with the synthetic
endpoints removed, are positively weighted walks of the user's graph ending in a node without out-edges whose
superposition is the flow on every edge. C06 `excess_flow_safe` puts every path reported by the two-pointer scan
`flowSafePaths` (whatever decomposition paths it was given) inside one of them — hence inside one layer.
-/
namespace FP
open FP.Spec FP.Safety

theorem c05d_count_inner (src snk : Node) (p : List Node) (e : Edge) (h1 : e.1 ≠ src) (h2 : e.2 ≠ snk) :
    (walkEdges (src :: p ++ [snk])).count e = (walkEdges p).count e := by
  cases p with
  | nil =>
    have : e ≠ (src, snk) := fun h => h1 (by rw [h])
    have hc : List.count e [(src, snk)] = 0 := List.count_eq_zero.2 (by simpa using this)
    simpa [walkEdges] using hc
  | cons x xs =>
    cases hl : (x :: xs).getLast? with
    | none => simp at hl
    | some t =>
      have hne1 : e ≠ (src, x) := fun h => h1 (by rw [h])
      have hne2 : e ≠ (t, snk) := fun h => h2 (by rw [h])
      have h3 : src :: (x :: xs) ++ [snk] = src :: x :: (xs ++ [snk]) := rfl
      rw [h3, walkEdges_cons_cons]
      have h4 : x :: (xs ++ [snk]) = (x :: xs) ++ [snk] := rfl
      rw [h4, we_concat (x :: xs) t snk hl]
      rw [List.count_cons, List.count_append]
      have h5 : List.count e [(t, snk)] = 0 := List.count_eq_zero.2 (by simpa using hne2)
      have h6 : ((src, x) == e) = false := by
        apply beq_false_of_ne
        exact fun h => hne1 h.symm
      rw [h5, h6]
      simp

theorem c05d_sum_filter {α} (l : List α) (p : α → Bool) (g : α → Rat) (h : ∀ x ∈ l, p x = false → g x = 0) :
    (l.map g).sum = ((l.filter p).map g).sum := by
  induction l with
  | nil => rfl
  | cons x xs ih =>
    have ih' := ih (fun y hy => h y (List.mem_cons_of_mem _ hy))
    by_cases hp : p x = true
    · rw [List.filter_cons_of_pos hp]
      simp only [List.map_cons, List.sum_cons, ih']
    · have hp' : p x = false := by simpa using hp
      rw [List.filter_cons_of_neg hp]
      simp only [List.map_cons, List.sum_cons, ih', h x List.mem_cons_self hp']
      grind

/-- a base edge is an active edge when nothing is ignored -/
theorem c05d_base_edge_active (inp : FlowInput) (hb : BaseWF inp.base) (hign : inp.ignore = []) (e : Edge)
    (he : e ∈ inp.base.edges) : e ∈ inp.activeEdges ∧ e.1 ≠ inp.st.source ∧ e.2 ≠ inp.st.sink := by
  have h1 : e.1 ≠ srcName := fun h => hb.freshSrc (h ▸ (hb.closed e he).1)
  have h2 : e.2 ≠ snkName := fun h => hb.freshSnk (h ▸ (hb.closed e he).2)
  refine ⟨?_, h1, h2⟩
  unfold FlowInput.activeEdges
  apply List.mem_filter.2
  refine ⟨(aug_mem_edges hb.closed).2 (Or.inl he), ?_⟩
  have hs : e ∉ inp.st.sourceSinkEdges := by
    intro hm
    unfold STGraph.sourceSinkEdges STGraph.sourceEdges STGraph.sinkEdges Graph.outEdges Graph.inEdges at hm
    rcases List.mem_append.1 hm with hm | hm
    · have := (List.mem_filter.1 hm).2
      have hs' : inp.st.source = srcName := rfl
      exact h1 (by rw [← hs']; simpa using this)
    · have := (List.mem_filter.1 hm).2
      have ht' : inp.st.sink = snkName := rfl
      exact h2 (by rw [← ht']; simpa using this)
  simp [FlowInput.ignored, hs, hign]

/-- **flow-safe paths lie in some layer of every solution, when nothing is ignored** -/
theorem c05d_flowSafe_in_layers (inp : FlowInput) (hb : BaseWF inp.base) (hac : Acyclic inp.base)
    (hign : inp.ignore = []) (hends : inp.ends = [])
    (hkeys : ∀ e q, inp.flow.lookup e = some q → e ∈ inp.base.edges)
    (paths : List (List Node)) (out : List (List Edge)) (hout : flowSafePaths inp.base inp.flow paths = .ok out)
    (a : Asg) (hsat : Sat a (kfdLP inp)) : ∀ q ∈ out, SomeLayerHas inp.st a inp.cfg.k q := by
  have hwf : STWF inp.st := augment_wf inp.base inp.starts inp.ends hb hac
  have henc : Sat a (encodePaths inp.st inp.cfg) := sat_append_left a _ _ hsat
  obtain ⟨ps, hps, _, hw, hexp⟩ := kfd_exact inp a hb hac hsat
  have hget := mapM_range_get _ inp.cfg.k ps [] hps
  let P : Nat → List Node := fun i => ps.getD i []
  have hdec : ∀ i, i < inp.cfg.k → decodeLayer inp.st (fun e i => a (edgeVar e i)) i = some (P i) := hget.2
  have hwalk : ∀ i, i < inp.cfg.k → dagLayerWalk inp.st a i = inp.st.source :: P i ++ [inp.st.sink] := by
    intro i hi
    unfold dagLayerWalk
    rw [hdec i hi]
  let keep : Nat → Bool := fun i => decide (0 < a (wVar i)) && !(P i).isEmpty
  let D : List (List Node × Rat) := ((List.range inp.cfg.k).filter keep).map fun i => (P i, a (wVar i))
  have hkeep : ∀ i, keep i = true → 0 < a (wVar i) ∧ P i ≠ [] := by
    intro i hk
    have hk' : (decide (0 < a (wVar i)) && !(P i).isEmpty) = true := hk
    rw [Bool.and_eq_true] at hk'
    refine ⟨by simpa using hk'.1, ?_⟩
    intro h0
    have := hk'.2
    rw [h0] at this
    simp at this
  have hD : FP.Props.C06.IsFlowDecomposition inp.base (fun e => lookupD inp.flow e 0) D := by
    constructor
    · intro pw hpw
      obtain ⟨i, hi, rfl⟩ := List.mem_map.1 hpw
      obtain ⟨hir, hik⟩ := List.mem_filter.1 hi
      have hi' := List.mem_range.1 hir
      obtain ⟨hpos, hne⟩ := hkeep i hik
      obtain ⟨p, hp, _, hroute⟩ := dag_routes_valid inp.base inp.starts inp.ends inp.cfg a hb hac henc i hi'
      have hpe : p = P i := by
        have := hdec i hi'
        have hp' : decodeLayer inp.st (fun e i => a (edgeVar e i)) i = some p := hp
        rw [hp'] at this
        exact Option.some.inj this
      subst hpe
      obtain ⟨hvr, _⟩ := hroute hne
      refine ⟨hvr.adjacent, hpos, ?_⟩
      cases hl : (P i).getLast? with
      | none => exact absurd (List.getLast?_eq_none_iff.1 hl) hne
      | some t =>
        refine ⟨t, rfl, ?_⟩
        rcases hvr.last t hl with h | h
        · exact h
        · rw [hends] at h; cases h
    · intro e he
      obtain ⟨hact, h1, h2⟩ := c05d_base_edge_active inp hb hign e he
      have hsum := hexp e hact
      show lookupD inp.flow e 0 = _
      have hf : inp.f e = lookupD inp.flow e 0 := rfl
      rw [← hf, ← hsum]
      rw [c05d_sum_filter (List.range inp.cfg.k) keep]
      · show _ = (List.map _ (List.map _ _)).sum
        rw [List.map_map]
        congr 1
        apply List.map_congr_left
        intro i _
        show a (wVar i) * (traversals (inp.st.source :: P i ++ [inp.st.sink]) e : Rat) = _
        unfold traversals
        rw [c05d_count_inner _ _ _ _ h1 h2]
        show _ = ((walkEdges (P i)).count e : Rat) * a (wVar i)
        rw [Rat.mul_comm]
      · intro i hi hk
        have hi' := List.mem_range.1 hi
        have hk' : (decide (0 < a (wVar i)) && !(P i).isEmpty) = false := hk
        rw [Bool.and_eq_false_iff] at hk'
        rcases hk' with hk' | hk'
        · have h0 : a (wVar i) = 0 := by
            have hnp : ¬ 0 < a (wVar i) := by simpa using hk'
            have := (hw i hi').1
            grind
          show a (wVar i) * _ = 0
          rw [h0, Rat.zero_mul]
        · have hP : P i = [] := by
            have : (P i).isEmpty = true := by simpa using hk'
            exact List.isEmpty_iff.1 this
          show a (wVar i) * (traversals (inp.st.source :: P i ++ [inp.st.sink]) e : Rat) = 0
          unfold traversals
          rw [c05d_count_inner _ _ _ _ h1 h2, hP]
          simp [walkEdges]
  intro q hq
  obtain ⟨pw, hpw, hinf⟩ := FP.Props.C06.excess_flow_safe inp.base inp.flow hkeys paths out hout D hD q hq
  obtain ⟨i, hi, rfl⟩ := List.mem_map.1 hpw
  obtain ⟨hir, hik⟩ := List.mem_filter.1 hi
  have hi' := List.mem_range.1 hir
  obtain ⟨_, hne⟩ := hkeep i hik
  refine ⟨i, hi', ?_⟩
  obtain ⟨p, hp, _, hnonempty⟩ := pathcore_sound inp.st inp.cfg a hwf henc i hi'
  have hpe : p = P i := by
    have := hdec i hi'
    rw [hp] at this
    exact Option.some.inj this
  subst hpe
  have hw' : IsWalkIn inp.st.g (dagLayerWalk inp.st a i) := by
    rw [hwalk i hi']; exact (hnonempty hne).1
  apply c05d_layerHas_of_mem hwf henc hi' hw' q
  intro e he
  rw [hwalk i hi']
  have : e ∈ walkEdges (P i) := hinf.subset he
  exact walkEdges_sub_cons _ _ _ (walkEdges_sub_append (P i) [inp.st.sink] e this)

theorem c05d_lookup_mem {β} (l : List (Edge × β)) (e : Edge) (q : β) (h : l.lookup e = some q) :
    ∃ p ∈ l, p.1 = e := by
  induction l with
  | nil => simp [List.lookup] at h
  | cons x xs ih =>
    obtain ⟨k, v⟩ := x
    by_cases hk : e = k
    · exact ⟨(k, v), List.mem_cons_self, hk.symm⟩
    · have hbeq : (e == k) = false := beq_false_of_ne hk
      simp only [List.lookup, hbeq] at h
      obtain ⟨p, hp, hpe⟩ := ih h
      exact ⟨p, List.mem_cons_of_mem _ hp, hpe⟩

/-- the modelled provenance of `external_safe_paths` (`kfdExternalOK`) gives `ExternalInLayers` -/
theorem c05d_externalInLayers_of_ok (inp : FlowInput) (hb : BaseWF inp.base) (hac : Acyclic inp.base)
    (hends : inp.ends = []) (hkeys : ∀ e q, inp.flow.lookup e = some q → e ∈ inp.base.edges)
    (external : Option (List (List Edge))) (decompPaths : List (List Node))
    (hok : kfdExternalOK inp external decompPaths = true) : ExternalInLayers inp external := by
  intro a hsat l hl q hq
  subst hl
  unfold kfdExternalOK at hok
  simp only [Bool.and_eq_true] at hok
  obtain ⟨hign, hscan⟩ := hok
  have hign' : inp.ignore = [] := List.isEmpty_iff.1 hign
  cases hfs : flowSafePaths inp.base inp.flow decompPaths with
  | ok out =>
    rw [hfs] at hscan
    have hmem : q ∈ out := by
      have := List.all_eq_true.1 hscan q hq
      simpa using this
    exact c05d_flowSafe_in_layers inp hb hac hign' hends hkeys decompPaths out hfs a hsat q hmem
  | raises w => rw [hfs] at hscan; cases hscan
  | fuel => rw [hfs] at hscan; cases hscan

theorem c05d_kfd_preserves_full (inp : FlowInput) (hb : BaseWF inp.base) (hac : Acyclic inp.base)
    (D : ConstraintDomain inp.st inp.cfg) (hends : inp.ends = [])
    (hkeys : ∀ p ∈ inp.flow, p.1 ∈ inp.base.edges)
    (X : List Edge) (hX : ∀ x ∈ X, x ∈ kfdTrusted inp)
    (external : Option (List (List Edge))) (decompPaths : List (List Node))
    (hok : kfdExternalOK inp external decompPaths = true)
    (o : PathSafetyOpts) (fr : PathSafetyFrag) (h : pathSafetyPipeline inp.st inp.cfg X external o = .ok fr) :
    (∃ a, Sat a (kfdLP inp)) ↔ (∃ a, Sat a (kfdLPS inp fr)) :=
  c05d_kfd_preserves inp hb hac D X hX external
    (c05d_externalInLayers_of_ok inp hb hac hends (fun e q hl => by
      obtain ⟨p, hp, rfl⟩ := c05d_lookup_mem _ e q hl
      exact hkeys p hp) external decompPaths hok) o fr h

end FP
