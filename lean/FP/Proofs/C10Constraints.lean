import FP.Proofs.KFD
/-!
# FP.Proofs.C10Constraints — subpath constraints of the DAG models (rows 7a / 7b)

* `constraint_honoured`, `constraint_honoured_length` — every satisfying assignment of `encodePaths`
  has, for every constraint `j`, a layer `i` with `r(i,j) = 1` whose decoded path contains the
  requested fraction of the constraint (edge count with list multiplicity, resp. total length).
* `withR`, `subpath_rows_complete`, `constraint_complete` — conversely, `k` routes of which one
  contains each constraint to the requested fraction extend (by a choice of `r`) to a satisfying
  assignment of the constraint rows, and of the whole of `encodePaths`.
-/
namespace FP
open FP.Spec

/-! ## small list facts -/

theorem c10_sum_indicator_countP {α} (l : List α) (p : α → Bool) :
    (l.map fun e => if p e then (1 : Rat) else 0).sum = ((l.countP p : Nat) : Rat) := by
  induction l with
  | nil => simp
  | cons x xs ih =>
    simp only [List.map_cons, List.sum_cons, List.countP_cons, ih]
    by_cases h : p x = true
    · simp [h]; grind
    · simp [h]; grind

theorem c10_mem_zip_range {α} (l : List α) (j : Nat) (hj : j < l.length) :
    (j, l[j]) ∈ (List.range l.length).zip l := by
  apply List.mem_of_getElem? (i := j)
  rw [List.getElem?_zip_eq_some]
  simp [hj]

theorem c10_mem_zip_range_inv {α} (l : List α) (j : Nat) (x : α)
    (h : (j, x) ∈ (List.range l.length).zip l) : ∃ hj : j < l.length, x = l[j] := by
  obtain ⟨n, hn, heq⟩ := List.mem_iff_getElem.1 h
  rw [List.getElem_zip] at heq
  have hn' : n < l.length := by
    have := hn; simp at this; omega
  have h1 : (List.range l.length)[n]'(by simpa using hn') = j := congrArg Prod.fst heq
  have h2 : l[n] = x := congrArg Prod.snd heq
  rw [List.getElem_range] at h1
  subst h1
  exact ⟨hn', h2.symm⟩

theorem c10_walkEdges_append_singleton (p : List Node) (v b : Node) (h : p.getLast? = some v) :
    walkEdges (p ++ [b]) = walkEdges p ++ [(v, b)] := by
  induction p with
  | nil => simp at h
  | cons x xs ih =>
    cases xs with
    | nil =>
      have : x = v := by simpa using h
      subst this
      simp [walkEdges]
    | cons y ys =>
      have h' : (y :: ys).getLast? = some v := by simpa [List.getLast?_cons_cons] using h
      have := ih h'
      rw [List.cons_append, List.cons_append, walkEdges_cons_cons, walkEdges_cons_cons,
        ← List.cons_append, this]
      rfl

theorem c10_mem_walkEdges_wrap (a b u v : Node) (p : List Node) (hu : p.head? = some u)
    (hv : p.getLast? = some v) (e : Edge) :
    e ∈ walkEdges (a :: p ++ [b]) ↔ e = (a, u) ∨ e ∈ walkEdges p ∨ e = (v, b) := by
  cases p with
  | nil => simp at hu
  | cons x xs =>
    have : x = u := by simpa using hu
    subst this
    rw [List.cons_append, List.cons_append, walkEdges_cons_cons, ← List.cons_append,
      c10_walkEdges_append_singleton _ v b hv]
    simp

/-! ## what a satisfying assignment says about the `r` variables -/

theorem sat_subpathBlock (s : STGraph) (c : PathCfg) (a : Asg) (hsat : Sat a (encodePaths s c)) :
    Sat a (subpathBlock c) :=
  sat_append_right a _ _ (sat_append_left a _ _ hsat)

theorem c10_isEmpty_false_of_lt {α} (l : List α) (j : Nat) (hj : j < l.length) : l.isEmpty = false := by
  cases l with
  | nil => simp at hj
  | cons x xs => rfl

/-- the uniform form of `pathcore_sound`'s indicator clause (empty layers included) -/
theorem c10_layer_indicator (s : STGraph) (c : PathCfg) (a : Asg) (hwf : STWF s)
    (hsat : Sat a (encodePaths s c)) (i : Nat) (hi : i < c.k) :
    ∃ p, decodeLayer s (fun e i => a (edgeVar e i)) i = some p ∧
      ∀ e ∈ s.g.edges,
        a (edgeVar e i) = if e ∈ walkEdges (s.source :: p ++ [s.sink]) then 1 else 0 := by
  obtain ⟨p, hp, hempty, hne⟩ := pathcore_sound s c a hwf hsat i hi
  refine ⟨p, hp, ?_⟩
  by_cases hp0 : p = []
  · intro e he
    rw [(hempty hp0).2 e he, hp0]
    have h1 : e ≠ (s.source, s.sink) := fun h => hwf.noDirect (h ▸ he)
    have h2 : e ∉ walkEdges (s.source :: [] ++ [s.sink]) := by simp [walkEdges, h1]
    rw [if_neg h2]
  · exact (hne hp0).2.2

/-- `r(i,j) ∈ {0,1}` -/
theorem c10_r_bin (c : PathCfg) (a : Asg) (hsat : Sat a (subpathBlock c)) (i j : Nat) (hi : i < c.k)
    (hj : j < c.constraints.length) : a (rVar i j) = 0 ∨ a (rVar i j) = 1 := by
  have hne := c10_isEmpty_false_of_lt _ j hj
  unfold subpathBlock at hsat
  rw [hne] at hsat
  simp only [Bool.false_eq_true, if_false] at hsat
  have := hsat.1 { v := rVar i j, lb := 0, ub := some 1, isInt := true }
    (List.mem_flatMap.2 ⟨i, List.mem_range.2 hi, List.mem_map.2 ⟨j, List.mem_range.2 hj, rfl⟩⟩)
  exact int01 _ this.1 (this.2.1 1 rfl) (this.2.2 rfl)

/-- row 7b: some layer is responsible for constraint `j` -/
theorem c10_exists_responsible (c : PathCfg) (a : Asg) (hsat : Sat a (subpathBlock c)) (j : Nat)
    (hj : j < c.constraints.length) : ∃ i, i < c.k ∧ a (rVar i j) = 1 := by
  have hne := c10_isEmpty_false_of_lt _ j hj
  have hbin := fun i hi => c10_r_bin c a hsat i j hi hj
  unfold subpathBlock at hsat
  rw [hne] at hsat
  simp only [Bool.false_eq_true, if_false] at hsat
  have hrow := hsat.2 (rowGe (ones (List.range c.k) (fun i => rVar i j)) 1)
    (List.mem_append_right _ (List.mem_map.2 ⟨j, List.mem_range.2 hj, rfl⟩))
  have h1 := hrow.1 1 rfl
  simp only [rowGe, evalTerms_ones] at h1
  have hnz : ((List.range c.k).map fun i => a (rVar i j)).sum ≠ 0 := by
    intro h0; rw [h0] at h1; exact absurd h1 (by decide)
  obtain ⟨i, hi, hr⟩ := exists_ne_zero_of_sum_ne_zero _ _ hnz
  have hi' := List.mem_range.1 hi
  exact ⟨i, hi', (hbin i hi').resolve_left hr⟩

/-- row 7a of layer `i` and constraint `j` -/
theorem c10_row7a (c : PathCfg) (a : Asg) (hsat : Sat a (subpathBlock c)) (i j : Nat) (hi : i < c.k)
    (hj : j < c.constraints.length) :
    (match c.coverageLength with
      | none =>
        rowGe (ones c.constraints[j] (fun e => edgeVar e i)
          ++ [(-((c.constraints[j].length : Rat) * c.coverage), rVar i j)]) 0
      | some cl =>
        rowGe (c.constraints[j].map (fun e => (c.len e, edgeVar e i))
          ++ [(-((c.constraints[j].map c.len).sum * cl), rVar i j)]) 0).holds a := by
  have hne := c10_isEmpty_false_of_lt _ j hj
  unfold subpathBlock at hsat
  rw [hne] at hsat
  simp only [Bool.false_eq_true, if_false] at hsat
  exact hsat.2 _ (List.mem_append_left _ (List.mem_flatMap.2 ⟨i, List.mem_range.2 hi,
    List.mem_map.2 ⟨(j, c.constraints[j]), c10_mem_zip_range _ j hj, rfl⟩⟩))

/-! ## T1: constraints are honoured -/

theorem constraint_honoured (s : STGraph) (c : PathCfg) (a : Asg) (hwf : STWF s)
    (hsat : Sat a (encodePaths s c)) (hcl : c.coverageLength = none)
    (j : Nat) (hj : j < c.constraints.length) (hedges : ∀ e ∈ c.constraints[j], e ∈ s.g.edges) :
    ∃ i, i < c.k ∧ a (rVar i j) = 1 ∧
      ∃ p, decodeLayer s (fun e i => a (edgeVar e i)) i = some p ∧
        (c.constraints[j].length : Rat) * c.coverage ≤
          ((c.constraints[j].countP
            (fun e => decide (e ∈ walkEdges (s.source :: p ++ [s.sink]))) : Nat) : Rat) := by
  have hsub := sat_subpathBlock s c a hsat
  obtain ⟨i, hi, hr⟩ := c10_exists_responsible c a hsub j hj
  obtain ⟨p, hp, hind⟩ := c10_layer_indicator s c a hwf hsat i hi
  refine ⟨i, hi, hr, p, hp, ?_⟩
  have hrow := c10_row7a c a hsub i j hi hj
  rw [hcl] at hrow
  have h0 := hrow.1 0 rfl
  simp only [rowGe, evalTerms_append, evalTerms_ones, evalTerms_single, hr] at h0
  have hsum : (c.constraints[j].map fun e => a (edgeVar e i)).sum
      = ((c.constraints[j].countP
          (fun e => decide (e ∈ walkEdges (s.source :: p ++ [s.sink]))) : Nat) : Rat) := by
    rw [← c10_sum_indicator_countP]
    apply sum_map_congr
    intro e he
    rw [hind e (hedges e he)]
    simp
  rw [hsum] at h0
  grind

theorem constraint_honoured_length (s : STGraph) (c : PathCfg) (a : Asg) (hwf : STWF s)
    (hsat : Sat a (encodePaths s c)) (cl : Rat) (hcl : c.coverageLength = some cl)
    (j : Nat) (hj : j < c.constraints.length) (hedges : ∀ e ∈ c.constraints[j], e ∈ s.g.edges) :
    ∃ i, i < c.k ∧ a (rVar i j) = 1 ∧
      ∃ p, decodeLayer s (fun e i => a (edgeVar e i)) i = some p ∧
        (c.constraints[j].map c.len).sum * cl ≤
          (c.constraints[j].map fun e =>
            if e ∈ walkEdges (s.source :: p ++ [s.sink]) then c.len e else 0).sum := by
  have hsub := sat_subpathBlock s c a hsat
  obtain ⟨i, hi, hr⟩ := c10_exists_responsible c a hsub j hj
  obtain ⟨p, hp, hind⟩ := c10_layer_indicator s c a hwf hsat i hi
  refine ⟨i, hi, hr, p, hp, ?_⟩
  have hrow := c10_row7a c a hsub i j hi hj
  rw [hcl] at hrow
  have h0 := hrow.1 0 rfl
  simp only [rowGe, evalTerms_append, evalTerms_map, evalTerms_single, hr] at h0
  have hsum : (c.constraints[j].map fun e => c.len e * a (edgeVar e i)).sum
      = (c.constraints[j].map fun e =>
          if e ∈ walkEdges (s.source :: p ++ [s.sink]) then c.len e else 0).sum := by
    apply sum_map_congr
    intro e he
    rw [hind e (hedges e he)]
    split <;> grind
  rw [hsum] at h0
  grind

/-! ## T2: completeness — suitable `r` exist -/

/-- overwrite the `r` variables: layer `resp j` is declared responsible for constraint `j` -/
def withR (a : Asg) (resp : Nat → Nat) : Asg := fun v =>
  match v with
  | .ij pfx i j => if pfx = "r" then (if i = resp j then 1 else 0) else a v
  | _ => a v

def Var.isR : Var → Bool
  | .ij pfx _ _ => pfx = "r"
  | _ => false

theorem withR_r (a : Asg) (resp : Nat → Nat) (i j : Nat) :
    withR a resp (rVar i j) = if i = resp j then 1 else 0 := by simp [withR, rVar]

theorem withR_other (a : Asg) (resp : Nat → Nat) (v : Var) (h : v.isR = false) :
    withR a resp v = a v := by
  unfold withR
  cases v <;> simp_all [Var.isR]

theorem withR_edge (a : Asg) (resp : Nat → Nat) (e : Edge) (i : Nat) :
    withR a resp (edgeVar e i) = a (edgeVar e i) := rfl

theorem c10_sum_map_nonneg' {α} (l : List α) (f : α → Rat) (h : ∀ e ∈ l, 0 ≤ f e) : 0 ≤ (l.map f).sum :=
  sum_map_nonneg l f h

/-- **completeness of rows 7a/7b** (both variants). `P i` is the edge set of route `i`; if the edge
variables of the constraint edges are its indicator and for every constraint `j` the route
`resp j` contains the requested fraction, then `withR a resp` satisfies the whole constraint block. -/
theorem subpath_rows_complete (c : PathCfg) (a : Asg) (P : Nat → List Edge) (resp : Nat → Nat)
    (hx : ∀ i, i < c.k → ∀ j (hj : j < c.constraints.length), ∀ e ∈ c.constraints[j],
      a (edgeVar e i) = if e ∈ P i then 1 else 0)
    (hlen : ∀ j (hj : j < c.constraints.length), ∀ e ∈ c.constraints[j], 0 ≤ c.len e)
    (hresp : ∀ j (hj : j < c.constraints.length), resp j < c.k ∧
      match c.coverageLength with
      | none => (c.constraints[j].length : Rat) * c.coverage ≤
          ((c.constraints[j].countP (fun e => decide (e ∈ P (resp j))) : Nat) : Rat)
      | some cl => (c.constraints[j].map c.len).sum * cl ≤
          (c.constraints[j].map fun e => if e ∈ P (resp j) then c.len e else 0).sum) :
    Sat (withR a resp) (subpathBlock c) := by
  unfold subpathBlock
  by_cases hne : c.constraints.isEmpty = true
  · rw [if_pos hne]; exact ⟨fun _ h => by simp at h, fun _ h => by simp at h⟩
  rw [if_neg hne]
  constructor
  · intro col hcol
    simp only [List.mem_flatMap, List.mem_map, List.mem_range] at hcol
    obtain ⟨i, _, j, _, rfl⟩ := hcol
    refine ⟨?_, ?_, fun _ => ?_⟩ <;> simp only [withR_r]
    · split <;> decide
    · intro u hu; have : u = 1 := (Option.some.inj hu).symm
      subst this; split <;> decide
    · split
      · exact ⟨1, by simp⟩
      · exact ⟨0, by simp⟩
  · intro r hr
    rcases List.mem_append.1 hr with hr | hr
    · simp only [List.mem_flatMap, List.mem_map, List.mem_range] at hr
      obtain ⟨i, hi, ⟨j, con⟩, hmem, rfl⟩ := hr
      obtain ⟨hj, rfl⟩ := c10_mem_zip_range_inv _ j con hmem
      have hres := hresp j hj
      simp only
      cases hcl : c.coverageLength with
      | none =>
        rw [hcl] at hres
        simp only
        refine ⟨fun l hl => ?_, fun h hh => by simp [rowGe] at hh⟩
        have : l = 0 := by simp [rowGe] at hl; exact hl.symm
        subst this
        simp only [rowGe, evalTerms_append, evalTerms_ones, evalTerms_single, withR_r, withR_edge]
        have hsum : (c.constraints[j].map fun e => a (edgeVar e i)).sum
            = ((c.constraints[j].countP (fun e => decide (e ∈ P i)) : Nat) : Rat) := by
          rw [← c10_sum_indicator_countP]
          apply sum_map_congr
          intro e he
          rw [hx i hi j hj e he]; simp
        rw [hsum]
        by_cases hir : i = resp j
        · subst hir; simp only [if_true]; have := hres.2; grind
        · simp only [hir, if_false]
          have : (0 : Rat) ≤ ((c.constraints[j].countP (fun e => decide (e ∈ P i)) : Nat) : Rat) :=
            Rat.natCast_nonneg
          grind
      | some cl =>
        rw [hcl] at hres
        simp only
        refine ⟨fun l hl => ?_, fun h hh => by simp [rowGe] at hh⟩
        have : l = 0 := by simp [rowGe] at hl; exact hl.symm
        subst this
        simp only [rowGe, evalTerms_append, evalTerms_map, evalTerms_single, withR_r, withR_edge]
        have hsum : (c.constraints[j].map fun e => c.len e * a (edgeVar e i)).sum
            = (c.constraints[j].map fun e => if e ∈ P i then c.len e else 0).sum := by
          apply sum_map_congr
          intro e he
          rw [hx i hi j hj e he]; split <;> grind
        rw [hsum]
        by_cases hir : i = resp j
        · subst hir; simp only [if_true]; have := hres.2; grind
        · simp only [hir, if_false]
          have : (0 : Rat) ≤ (c.constraints[j].map fun e => if e ∈ P i then c.len e else 0).sum := by
            apply sum_map_nonneg
            intro e he
            split
            · exact hlen j hj e he
            · decide
          grind
    · simp only [List.mem_map, List.mem_range] at hr
      obtain ⟨j, hj, rfl⟩ := hr
      have hres := (hresp j hj).1
      refine ⟨fun l hl => ?_, fun h hh => by simp [rowGe] at hh⟩
      have : l = 1 := by simp [rowGe] at hl; exact hl.symm
      subst this
      simp only [rowGe, evalTerms_ones, withR_r]
      have hsum : ((List.range c.k).map fun i => if i = resp j then (1 : Rat) else 0).sum = 1 := by
        have hfun : (fun i => if i = resp j then (1 : Rat) else 0)
            = (fun i => if resp j = i then (1 : Rat) else 0) := by
          funext i
          by_cases h : i = resp j
          · simp [h]
          · have : ¬ resp j = i := fun h' => h h'.symm
            simp [h, this]
        rw [hfun]
        exact sum_single_mem (List.range c.k) List.nodup_range (resp j) (List.mem_range.2 hres)
      rw [hsum]
      exact Rat.le_refl

/-! ### the rest of `encodePaths` does not mention `r` -/

theorem sat_withR (lp : LP) (a : Asg) (resp : Nat → Nat)
    (hc : ∀ c ∈ lp.cols, c.v.isR = false) (hr : ∀ r ∈ lp.rows, ∀ t ∈ r.terms, t.2.isR = false)
    (h : Sat a lp) : Sat (withR a resp) lp := by
  constructor
  · intro c hcm
    have := h.1 c hcm
    unfold Col.holds at this ⊢
    rw [withR_other a resp c.v (hc c hcm)]
    exact this
  · intro r hrm
    have := h.2 r hrm
    have heq : evalTerms (withR a resp) r.terms = evalTerms a r.terms := by
      unfold evalTerms
      apply sum_map_congr
      intro t ht
      rw [withR_other a resp t.2 (hr r hrm t ht)]
    unfold Row.holds at this ⊢
    rw [heq]
    exact this

theorem c10_terms_ones_noR {α} (l : List α) (f : α → Var) (h : ∀ x, (f x).isR = false) :
    ∀ t ∈ ones l f, t.2.isR = false := by
  intro t ht
  obtain ⟨x, _, rfl⟩ := List.mem_map.1 ht
  exact h x

theorem c10_terms_neg_noR (ts : Terms) (h : ∀ t ∈ ts, t.2.isR = false) :
    ∀ t ∈ negTerms ts, t.2.isR = false := by
  intro t ht
  obtain ⟨x, hx, rfl⟩ := List.mem_map.1 ht
  exact h x hx

theorem c10_terms_append_noR (s t : Terms) (hs : ∀ x ∈ s, x.2.isR = false) (ht : ∀ x ∈ t, x.2.isR = false) :
    ∀ x ∈ s ++ t, x.2.isR = false := by
  intro x hx
  rcases List.mem_append.1 hx with h | h
  · exact hs x h
  · exact ht x h

/-- the path core (10a, 10c) and the position block of `encodePaths` contain no `r` variable -/
theorem c10_core_noR (s : STGraph) (c : PathCfg) :
    (∀ r ∈ rows10a s c ++ rows10c s c, ∀ t ∈ r.terms, t.2.isR = false) := by
  intro r hr
  rcases List.mem_append.1 hr with hr | hr
  · obtain ⟨i, _, rfl⟩ := List.mem_map.1 hr
    simp only
    split <;> exact c10_terms_ones_noR _ _ (fun _ => rfl)
  · obtain ⟨i, _, hr⟩ := List.mem_flatMap.1 hr
    obtain ⟨v, _, rfl⟩ := List.mem_map.1 hr
    exact c10_terms_append_noR _ _ (c10_terms_ones_noR _ _ (fun _ => rfl))
      (c10_terms_neg_noR _ (c10_terms_ones_noR _ _ (fun _ => rfl)))

theorem c10_position_noR (s : STGraph) (c : PathCfg) :
    (∀ col ∈ (positionBlock s c).cols, col.v.isR = false) ∧
    (∀ r ∈ (positionBlock s c).rows, ∀ t ∈ r.terms, t.2.isR = false) := by
  unfold positionBlock
  by_cases hp : c.encodePosition = true
  · simp only [hp, Bool.not_true, Bool.false_eq_true, if_false]
    constructor
    · intro col hcol
      rcases List.mem_append.1 hcol with h | h
      · obtain ⟨i, _, h⟩ := List.mem_flatMap.1 h
        obtain ⟨e, _, rfl⟩ := List.mem_map.1 h
        rfl
      · obtain ⟨i, _, rfl⟩ := List.mem_map.1 h
        rfl
    · intro r hr
      rcases List.mem_append.1 hr with h | h
      · obtain ⟨i, _, h⟩ := List.mem_flatMap.1 h
        obtain ⟨e, _, rfl⟩ := List.mem_map.1 h
        apply c10_terms_append_noR
        · intro t ht; simp at ht; subst ht; rfl
        · apply c10_terms_neg_noR
          intro t ht
          obtain ⟨e', _, rfl⟩ := List.mem_map.1 ht
          rfl
      · obtain ⟨i, _, rfl⟩ := List.mem_map.1 h
        apply c10_terms_append_noR
        · intro t ht; simp at ht; subst ht; rfl
        · apply c10_terms_neg_noR
          intro t ht
          obtain ⟨e', _, rfl⟩ := List.mem_map.1 ht
          rfl
  · have hp' : c.encodePosition = false := by simpa using hp
    simp only [hp', Bool.not_false, if_true]
    exact ⟨fun _ h => by simp at h, fun _ h => by simp at h⟩

/-- the configuration without its subpath constraints -/
def PathCfg.noConstraints (c : PathCfg) : PathCfg := { c with constraints := [] }

/-- **T2, whole encoding.** A satisfying assignment of the LP *without* the constraints whose edge
variables are the indicators of routes `P i`, one of which contains each constraint to the
requested fraction, becomes — after setting the `r` variables and changing nothing else — a
satisfying assignment of the LP *with* the constraints. -/
theorem constraint_complete (s : STGraph) (c : PathCfg) (a : Asg) (P : Nat → List Edge)
    (resp : Nat → Nat) (hsat : Sat a (encodePaths s c.noConstraints))
    (hx : ∀ i, i < c.k → ∀ j (hj : j < c.constraints.length), ∀ e ∈ c.constraints[j],
      a (edgeVar e i) = if e ∈ P i then 1 else 0)
    (hlen : ∀ j (hj : j < c.constraints.length), ∀ e ∈ c.constraints[j], 0 ≤ c.len e)
    (hresp : ∀ j (hj : j < c.constraints.length), resp j < c.k ∧
      match c.coverageLength with
      | none => (c.constraints[j].length : Rat) * c.coverage ≤
          ((c.constraints[j].countP (fun e => decide (e ∈ P (resp j))) : Nat) : Rat)
      | some cl => (c.constraints[j].map c.len).sum * cl ≤
          (c.constraints[j].map fun e => if e ∈ P (resp j) then c.len e else 0).sum) :
    Sat (withR a resp) (encodePaths s c) ∧ ∀ v, v.isR = false → withR a resp v = a v := by
  refine ⟨?_, fun v hv => withR_other a resp v hv⟩
  have hcore := sat_append_left a _ _ (sat_append_left a _ _ hsat)
  have hpos := sat_append_right a _ _ hsat
  have hpos' : Sat a (positionBlock s c) := hpos
  have h1 := sat_withR _ a resp (by
      intro col hcol
      obtain ⟨i, _, h⟩ := List.mem_flatMap.1 hcol
      obtain ⟨e, _, rfl⟩ := List.mem_map.1 h
      rfl) (c10_core_noR s c) hcore
  have h2 := subpath_rows_complete c a P resp hx hlen hresp
  have h3 := sat_withR _ a resp (c10_position_noR s c).1 (c10_position_noR s c).2 hpos'
  unfold encodePaths
  constructor
  · intro col hcol
    simp only [LP.append, List.mem_append] at hcol
    rcases hcol with (h | h) | h
    · exact h1.1 col h
    · exact h2.1 col h
    · exact h3.1 col h
  · intro r hr
    simp only [LP.append, List.mem_append] at hr
    rcases hr with (h | h) | h
    · exact h1.2 r (List.mem_append.2 h)
    · exact h2.2 r h
    · exact h3.2 r h

/-- **T1 on the user's graph.** With a positive coverage and a non-empty constraint, the responsible
layer's path is a non-empty *route of the user's graph* (C01) that contains the requested number
of the constraint's edges — as edges of the route itself, not of the synthetic extension. -/
theorem constraint_honoured_route (base : Graph) (starts ends : List Node) (c : PathCfg) (a : Asg)
    (h : BaseWF base) (hac : Acyclic base)
    (hsat : Sat a (encodePaths (augment base starts ends) c)) (hcl : c.coverageLength = none)
    (hcov : 0 < c.coverage)
    (j : Nat) (hj : j < c.constraints.length) (hne : c.constraints[j] ≠ [])
    (hedges : ∀ e ∈ c.constraints[j], e ∈ base.edges) :
    ∃ i, i < c.k ∧ ∃ p, decodeLayer (augment base starts ends) (fun e i => a (edgeVar e i)) i = some p ∧
      ValidRoute base starts ends p ∧
      (c.constraints[j].length : Rat) * c.coverage ≤
        ((c.constraints[j].countP (fun e => decide (e ∈ walkEdges p)) : Nat) : Rat) := by
  have hwf := augment_wf base starts ends h hac
  have hedges' : ∀ e ∈ c.constraints[j], e ∈ (augment base starts ends).g.edges :=
    fun e he => (aug_mem_edges' h.closed).2 (Or.inl (hedges e he))
  obtain ⟨i, hi, _, p, hp, hcount⟩ := constraint_honoured _ c a hwf hsat hcl j hj hedges'
  obtain ⟨p', hp', _, hvalid⟩ := dag_routes_valid base starts ends c a h hac hsat i hi
  have hpp : p' = p := Option.some.inj (hp'.symm.trans hp)
  subst hpp
  -- membership in the extended walk and in the route coincide for edges of the user's graph
  have hsame : ∀ e ∈ c.constraints[j],
      (decide (e ∈ walkEdges ((augment base starts ends).source :: p' ++ [(augment base starts ends).sink])))
        = decide (e ∈ walkEdges p') := by
    intro e he
    have hb := hedges e he
    have h1 : e.1 ≠ srcName := fun hh => h.freshSrc (hh ▸ (h.closed e hb).1)
    have h2 : e.2 ≠ snkName := fun hh => h.freshSnk (hh ▸ (h.closed e hb).2)
    by_cases hp0 : p' = []
    · subst hp0
      have : e ≠ (srcName, snkName) := fun hh => h1 (by rw [hh])
      simp [walkEdges]
      exact this
    · obtain ⟨u, hu⟩ : ∃ u, p'.head? = some u := by
        cases p' with
        | nil => exact absurd rfl hp0
        | cons x xs => exact ⟨x, rfl⟩
      obtain ⟨w, hw⟩ : ∃ w, p'.getLast? = some w := by
        cases hl : p'.getLast? with
        | none => exact absurd (List.getLast?_eq_none_iff.1 hl) hp0
        | some w => exact ⟨w, rfl⟩
      have hiff := c10_mem_walkEdges_wrap srcName snkName u w p' hu hw e
      apply decide_eq_decide.2
      constructor
      · intro hm
        rcases hiff.1 hm with rfl | hmid | rfl
        · exact absurd rfl h1
        · exact hmid
        · exact absurd rfl h2
      · intro hm; exact hiff.2 (Or.inr (Or.inl hm))
  have hcnt : c.constraints[j].countP (fun e => decide (e ∈ walkEdges
        ((augment base starts ends).source :: p' ++ [(augment base starts ends).sink])))
      = c.constraints[j].countP (fun e => decide (e ∈ walkEdges p')) := by
    apply List.countP_congr
    intro e he
    rw [hsame e he]
  rw [hcnt] at hcount
  refine ⟨i, hi, p', hp, ?_, hcount⟩
  apply (hvalid ?_).1
  intro hp0
  subst hp0
  have hzero : c.constraints[j].countP (fun e => decide (e ∈ walkEdges ([] : List Node))) = 0 := by
    apply List.countP_eq_zero.2
    intro e _
    simp [walkEdges]
  rw [hzero] at hcount
  have hlen : 0 < c.constraints[j].length := List.length_pos_iff.2 hne
  have hlen' : (0 : Rat) < (c.constraints[j].length : Rat) := by exact_mod_cast hlen
  have := Rat.mul_pos hlen' hcov
  simp at hcount
  grind

end FP
