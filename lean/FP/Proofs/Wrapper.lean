import FP.Model.Wrapper
import FP.Proofs.WrapperBase
import FP.Proofs.WrapperIntProd
import FP.Proofs.WrapperPiecewise
import FP.Proofs.WrapperState
namespace FP

theorem binProd_exact (a : Asg) (b c p : Var) (lb ub : Rat)
    (hb : a b = 0 ∨ a b = 1) (hc : lb ≤ a c ∧ a c ≤ ub) :
    (∀ r ∈ binProd b c p lb ub, r.holds a) ↔ a p = a b * a c :=
  binProd_exact_aux a b c p lb ub hb hc

theorem numBits_spec (ub : Nat) :
    ub + 1 ≤ 2 ^ numBits ub ∧ ∀ n, ub + 1 ≤ 2 ^ n → numBits ub ≤ n :=
  numBits_spec_proof ub

theorem intProd_sound (a : Asg) (n c p : Var) (lb : Rat) (ubN : Nat) (name : String)
    (hc : lb ≤ a c ∧ a c ≤ (ubN : Rat)) (h : Sat a (intProd n c p lb ubN name)) :
    a p = a n * a c :=
  intProd_sound_proof a n c p lb ubN name hc h

theorem intProd_complete (a : Asg) (n c p : Var) (lb : Rat) (ubN : Nat) (name : String) (k : Nat)
    (hk : a n = k) (hkub : k ≤ ubN) (hlb : lb ≤ 0)
    (hc : lb ≤ a c ∧ a c ≤ (ubN : Rat)) (hp : a p = a n * a c)
    (hfresh : ∀ i, bitVar name i ≠ n ∧ bitVar name i ≠ c ∧ bitVar name i ≠ p ∧
                   compVar name i ≠ n ∧ compVar name i ≠ c ∧ compVar name i ≠ p)
    (hbc : ∀ i j, bitVar name i ≠ compVar name j) :
    ∃ a' : Asg, (∀ v, (∀ i, v ≠ bitVar name i ∧ v ≠ compVar name i) → a' v = a v) ∧
      Sat a' (intProd n c p lb ubN name) :=
  intProd_complete_proof a n c p lb ubN name k hk hkub hlb hc hp hfresh hbc

theorem piecewise_sound (a : Asg) (x y : Var) (ranges : List (Rat × Rat)) (constants : List Rat)
    (name : String) (hlen : ranges.length = constants.length)
    (hLU : ∀ r ∈ ranges, r.1 ≤ r.2)
    (h : Sat a (piecewise x y ranges constants name)) :
    ∃ i, ∃ hi : i < ranges.length, (ranges[i]).1 ≤ a x ∧ a x ≤ (ranges[i]).2 ∧
      a y = constants[i]'(hlen ▸ hi) :=
  piecewise_sound_proof a x y ranges constants name hlen hLU h

theorem piecewise_complete (a : Asg) (x y : Var) (ranges : List (Rat × Rat))
    (constants : List Rat) (name : String) (hlen : ranges.length = constants.length)
    (hLU : ∀ r ∈ ranges, r.1 ≤ r.2) (j : Nat) (hj : j < ranges.length)
    (hx : (ranges[j]).1 ≤ a x ∧ a x ≤ (ranges[j]).2) (hy : a y = constants[j]'(hlen ▸ hj))
    (hfresh : ∀ i, zVar name i ≠ x ∧ zVar name i ≠ y) :
    ∃ a' : Asg, (∀ v, (∀ i, v ≠ zVar name i) → a' v = a v) ∧
      Sat a' (piecewise x y ranges constants name) :=
  piecewise_complete_proof a x y ranges constants name hlen hLU j hj hx hy hfresh

theorem piecewise_far_constants_feasible :
    ∃ a : Asg, a (.ix "x" 0) = 1/2 ∧ a (.ix "y" 0) = 0 ∧
      Sat a (piecewise (.ix "x" 0) (.ix "y" 0) [(0,1),(2,3)] [0,100] "f") :=
  piecewise_far_constants_feasible_proof

theorem flush_fix_exact (f : GetColsField) (s : WState) (hnolb : s.pendingLb = [])
    (hnd : (s.pendingFix.map (·.1)).Nodup) (i : Nat) (hi : i < s.cols.length) :
    ((flush f s).cols.length = s.cols.length) ∧
    (∀ v, (i, v) ∈ s.pendingFix →
        (flush f s).cols[i]? = some { lb := v, ub := v, cost := (s.cols.getD i default).cost }) ∧
    (i ∉ s.pendingFix.map (·.1) → (flush f s).cols[i]? = s.cols[i]?) :=
  flush_fix_exact_proof f s hnolb hnd i hi

theorem flush_lb_exact (s : WState) (hnofix : s.pendingFix = [])
    (hnd : (s.pendingLb.map (·.1)).Nodup) (i : Nat) (hi : i < s.cols.length) :
    (∀ v, (i, v) ∈ s.pendingLb →
        (flush .upper s).cols[i]? = some { (s.cols.getD i default) with lb := v }) ∧
    (i ∉ s.pendingLb.map (·.1) → (flush .upper s).cols[i]? = s.cols[i]?) :=
  flush_lb_exact_proof s hnofix hnd i hi

theorem flush_clears (f : GetColsField) (s : WState) :
    (flush f s).pendingFix = [] ∧ (flush f s).pendingLb = [] := ⟨rfl, rfl⟩

/-- using the wrong tuple component of `getCols` is observable: raising the lower bound of a
`[0, 5]` column to `2` yields `[2, 0]` (infeasible) -/
theorem flush_lb_wrong_field_witness :
    (flush .lower { cols := [{ lb := 0, ub := 5, cost := 0 }], pendingLb := [(0, 2)] }).cols
      = [{ lb := 2, ub := 0, cost := 0 }] := by decide

/-- a replaced objective fully replaces the previous one -/
theorem setObjective_replaces (cols : List WCol) (t1 t2 : List (Nat × Rat)) :
    setObjective (setObjective cols t1) t2 = setObjective cols t2 :=
  setObjective_replaces_proof cols t1 t2

theorem setObjective_cost (cols : List WCol) (t : List (Nat × Rat)) (i : Nat) (hi : i < cols.length) :
    ((setObjective cols t)[i]?).map (·.cost) = some ((t.filter (·.1 = i)).map (·.2)).sum :=
  setObjective_cost_proof cols t i hi

end FP