import FP.Model.Lexer
/-!
# FP.Proofs.Lexer — lemmas about the character-level primitives of `FP/Model/Lexer.lean`
-/
namespace FP.Lexer
open FP.Parser

/-- a token: non-empty and free of python whitespace -/
def Clean (t : List Char) : Prop := t ≠ [] ∧ ∀ c ∈ t, isPySpace c = false

/-- `" ".join(ts)` -/
def joinSp : List (List Char) → List Char
  | [] => []
  | [t] => t
  | t :: t' :: ts => t ++ ' ' :: joinSp (t' :: ts)

theorem lstrip_eq_nil_iff (l : List Char) : lstrip l = [] ↔ ∀ c ∈ l, isPySpace c = true := by
  induction l with
  | nil => simp [lstrip]
  | cons c cs ih =>
    by_cases h : isPySpace c = true <;> simp [lstrip, h, ih]

theorem rstrip_eq_nil_iff (l : List Char) : rstrip l = [] ↔ ∀ c ∈ l, isPySpace c = true := by
  induction l with
  | nil => simp [rstrip]
  | cons c cs ih =>
    by_cases h : isPySpace c = true
    · by_cases h2 : rstrip cs = []
      · simp [rstrip, h, h2]; exact ih.mp h2
      · have : ¬ ∀ c ∈ cs, isPySpace c = true := fun k => h2 (ih.mpr k)
        simp [rstrip, h, h2, this]
    · simp [rstrip, h]

theorem lstrip_head (l : List Char) : ∀ c r, lstrip l = c :: r → isPySpace c = false := by
  induction l with
  | nil => simp [lstrip]
  | cons a cs ih =>
    intro c r
    by_cases h : isPySpace a = true
    · simp only [lstrip, h, if_true]; exact ih c r
    · simp only [lstrip, h]; intro e; simp at e; rw [← e.1]; simpa using h

theorem strip_eq_nil_iff (l : List Char) : strip l = [] ↔ ∀ c ∈ l, isPySpace c = true := by
  unfold strip
  constructor
  · intro h
    have h1 := (rstrip_eq_nil_iff _).mp h
    cases e : lstrip l with
    | nil => exact (lstrip_eq_nil_iff l).mp e
    | cons c r =>
      have h2 := lstrip_head l c r e
      rw [e] at h1
      have := h1 c (by simp)
      simp_all
  · intro h; rw [(lstrip_eq_nil_iff l).mpr h]; rfl

theorem lstrip_cons_of_not_space {c : Char} (h : isPySpace c = false) (r : List Char) :
    lstrip (c :: r) = c :: r := by simp [lstrip, h]

theorem lstrip_ws_append (p x : List Char) (hp : ∀ c ∈ p, isPySpace c = true) : lstrip (p ++ x) = lstrip x := by
  induction p with
  | nil => rfl
  | cons a p ih =>
    have ha : isPySpace a = true := hp a (by simp)
    simp only [List.cons_append, lstrip, ha, if_true]
    exact ih (fun c hc => hp c (by simp [hc]))

theorem rstrip_clean (t : List Char) (h : ∀ c ∈ t, isPySpace c = false) : rstrip t = t := by
  induction t with
  | nil => rfl
  | cons c cs ih =>
    have hc : isPySpace c = false := h c (by simp)
    simp [rstrip, hc, ih (fun d hd => h d (by simp [hd]))]

theorem rstrip_append (a b : List Char) (hb : rstrip b = b) (hne : b ≠ []) : rstrip (a ++ b) = a ++ b := by
  induction a with
  | nil => simpa using hb
  | cons x a ih =>
    have : a ++ b ≠ [] := by simp [hne]
    simp [rstrip, ih, this]

theorem rstrip_append_ws (x s : List Char) (hs : ∀ c ∈ s, isPySpace c = true) : rstrip (x ++ s) = rstrip x := by
  induction x with
  | nil => simp only [List.nil_append]; rw [(rstrip_eq_nil_iff s).mpr hs]; rfl
  | cons c cs ih => simp [rstrip, ih]

theorem splitWs_ws_append (p x : List Char) (hp : ∀ c ∈ p, isPySpace c = true) : splitWs (p ++ x) = splitWs x := by
  induction p with
  | nil => rfl
  | cons a p ih =>
    have ha : isPySpace a = true := hp a (by simp)
    simp only [List.cons_append, splitWs, ha, if_true]
    exact ih (fun c hc => hp c (by simp [hc]))

theorem splitWs_all_ws (p : List Char) (hp : ∀ c ∈ p, isPySpace c = true) : splitWs p = [] := by
  have := splitWs_ws_append p [] hp
  simpa [splitWs] using this

/-- a clean token followed by the end of the line or by a whitespace character is split off as it is -/
theorem splitWs_token (t : List Char) (ht : Clean t) (rest : List Char)
    (hr : rest = [] ∨ ∃ d r, rest = d :: r ∧ isPySpace d = true) :
    splitWs (t ++ rest) = t :: splitWs rest := by
  obtain ⟨hne, hcl⟩ := ht
  induction t with
  | nil => exact absurd rfl hne
  | cons c t ih =>
    have hc : isPySpace c = false := hcl c (by simp)
    cases t with
    | nil =>
      rcases hr with rfl | ⟨d, r, rfl, hd⟩
      · simp [splitWs, hc]
      · simp [splitWs, hc, hd]
    | cons d t' =>
      have hd : isPySpace d = false := hcl d (by simp)
      have ih' := ih (by simp) (fun x hx => hcl x (by simp [hx]))
      simp only [List.cons_append] at ih' ⊢
      rw [splitWs]
      simp only [hc, hd]
      rw [ih']
      simp

theorem splitWs_joinSp (ts : List (List Char)) (h : ∀ t ∈ ts, Clean t) : splitWs (joinSp ts) = ts := by
  induction ts with
  | nil => rfl
  | cons t ts ih =>
    have ht : Clean t := h t (by simp)
    cases ts with
    | nil =>
      have := splitWs_token t ht [] (Or.inl rfl)
      simpa [joinSp, splitWs] using this
    | cons t' ts' =>
      have ih' := ih (fun x hx => h x (by simp [hx]))
      simp only [joinSp]
      rw [splitWs_token t ht _ (Or.inr ⟨' ', _, rfl, by decide⟩)]
      have : splitWs (' ' :: joinSp (t' :: ts')) = splitWs (joinSp (t' :: ts')) := by
        exact splitWs_ws_append [' '] _ (by simp; decide)
      rw [this, ih']

theorem joinSp_head (t : List Char) (ts : List (List Char)) (ht : Clean t) :
    ∃ c r, joinSp (t :: ts) = c :: r ∧ isPySpace c = false := by
  obtain ⟨hne, hcl⟩ := ht
  cases t with
  | nil => exact absurd rfl hne
  | cons c t' =>
    have hc := hcl c (by simp)
    cases ts with
    | nil => exact ⟨c, t', rfl, hc⟩
    | cons t2 ts' => exact ⟨c, t' ++ ' ' :: joinSp (t2 :: ts'), by simp [joinSp], hc⟩

theorem lstrip_joinSp (ts : List (List Char)) (h : ∀ t ∈ ts, Clean t) : lstrip (joinSp ts) = joinSp ts := by
  cases ts with
  | nil => rfl
  | cons t ts =>
    obtain ⟨c, r, e, hc⟩ := joinSp_head t ts (h t (by simp))
    rw [e]; exact lstrip_cons_of_not_space hc r

theorem rstrip_joinSp (ts : List (List Char)) (h : ∀ t ∈ ts, Clean t) : rstrip (joinSp ts) = joinSp ts := by
  induction ts with
  | nil => rfl
  | cons t ts ih =>
    have ht : Clean t := h t (by simp)
    cases ts with
    | nil => simpa [joinSp] using rstrip_clean t ht.2
    | cons t' ts' =>
      have ih' := ih (fun x hx => h x (by simp [hx]))
      obtain ⟨c, r, e, _⟩ := joinSp_head t' ts' (h t' (by simp))
      simp only [joinSp]
      have : t ++ ' ' :: joinSp (t' :: ts') = (t ++ [' ']) ++ joinSp (t' :: ts') := by simp
      rw [this]
      exact rstrip_append _ _ ih' (by rw [e]; simp)

theorem strip_joinSp (ts : List (List Char)) (h : ∀ t ∈ ts, Clean t) : strip (joinSp ts) = joinSp ts := by
  unfold strip; rw [lstrip_joinSp ts h, rstrip_joinSp ts h]

/-- every token produced by `splitWs` is non-empty and whitespace-free -/
theorem splitWs_clean (cs : List Char) : ∀ t ∈ splitWs cs, Clean t := by
  induction cs with
  | nil => simp [splitWs]
  | cons c cs ih =>
    by_cases hc : isPySpace c = true
    · simp only [splitWs, hc, if_true]; exact ih
    · have hc' : isPySpace c = false := by simpa using hc
      cases cs with
      | nil =>
        simp only [splitWs, hc', Bool.false_eq_true, if_false]
        intro t ht; simp at ht; subst ht; exact ⟨by simp, by simp [hc']⟩
      | cons d r =>
        rw [splitWs]
        simp only [hc', Bool.false_eq_true, if_false]
        by_cases hd : isPySpace d = true
        · simp only [hd, if_true]
          intro t ht
          rcases List.mem_cons.mp ht with rfl | ht
          · exact ⟨by simp, by simp [hc']⟩
          · exact ih t ht
        · simp only [hd]
          cases e : splitWs (d :: r) with
          | nil =>
            intro t ht; simp at ht; subst ht; exact ⟨by simp, by simp [hc']⟩
          | cons t0 ts0 =>
            rw [e] at ih
            intro t ht
            rcases List.mem_cons.mp ht with rfl | ht
            · have := ih t0 (by simp)
              exact ⟨by simp, by
                intro x hx
                rcases List.mem_cons.mp hx with rfl | hx
                · exact hc'
                · exact this.2 x hx⟩
            · exact ih t (by simp [ht])

theorem splitWs_joinSp_ws (ts : List (List Char)) (h : ∀ t ∈ ts, Clean t) (post : List Char)
    (hpost : ∀ c ∈ post, isPySpace c = true) : splitWs (joinSp ts ++ post) = ts := by
  have hrest : post = [] ∨ ∃ d r, post = d :: r ∧ isPySpace d = true := by
    cases post with
    | nil => exact Or.inl rfl
    | cons d r => exact Or.inr ⟨d, r, rfl, hpost d (by simp)⟩
  induction ts with
  | nil => simpa [joinSp] using splitWs_all_ws post hpost
  | cons t ts ih =>
    have ht : Clean t := h t (by simp)
    cases ts with
    | nil =>
      simp only [joinSp]
      rw [splitWs_token t ht post hrest, splitWs_all_ws post hpost]
    | cons t' ts' =>
      have ih' := ih (fun x hx => h x (by simp [hx]))
      simp only [joinSp, List.append_assoc, List.cons_append]
      rw [splitWs_token t ht _ (Or.inr ⟨' ', _, rfl, by decide⟩)]
      have : splitWs (' ' :: (joinSp (t' :: ts') ++ post)) = splitWs (joinSp (t' :: ts') ++ post) :=
        splitWs_ws_append [' '] _ (by simp; decide)
      rw [this, ih']

/-- `pre ++ " ".join(ts) ++ post` with whitespace runs `pre`, `post`, clean tokens, the first one not starting
with `#`: a data line whose text is the join and whose tokens are `ts` -/
theorem classifyL_data (c : Char) (t0 : List Char) (ts : List (List Char)) (pre post : List Char)
    (hc : c ≠ '#') (h0 : Clean (c :: t0)) (h : ∀ t ∈ ts, Clean t)
    (hpre : ∀ x ∈ pre, isPySpace x = true) (hpost : ∀ x ∈ post, isPySpace x = true) :
    classifyL (pre ++ joinSp ((c :: t0) :: ts) ++ post)
      = .data (joinSp ((c :: t0) :: ts)) ((c :: t0) :: ts) := by
  have hall : ∀ t ∈ (c :: t0) :: ts, Clean t := by
    intro t ht; rcases List.mem_cons.mp ht with rfl | ht
    · exact h0
    · exact h t ht
  obtain ⟨r, er⟩ : ∃ r, joinSp ((c :: t0) :: ts) = c :: r := by
    cases ts with
    | nil => exact ⟨t0, rfl⟩
    | cons t2 ts' => exact ⟨t0 ++ ' ' :: joinSp (t2 :: ts'), by simp [joinSp]⟩
  have hcs : isPySpace c = false := h0.2 c (by simp)
  have hl : lstrip (pre ++ joinSp ((c :: t0) :: ts) ++ post) = joinSp ((c :: t0) :: ts) ++ post := by
    rw [List.append_assoc, lstrip_ws_append _ _ hpre, er]
    exact lstrip_cons_of_not_space hcs _
  have hs : strip (pre ++ joinSp ((c :: t0) :: ts) ++ post) = joinSp ((c :: t0) :: ts) := by
    unfold strip; rw [hl, rstrip_append_ws _ _ hpost, rstrip_joinSp _ hall]
  have hsp : splitWs (pre ++ joinSp ((c :: t0) :: ts) ++ post) = (c :: t0) :: ts := by
    rw [List.append_assoc, splitWs_ws_append _ _ hpre, splitWs_joinSp_ws _ hall post hpost]
  have hne : (c == '#') = false := by simpa using hc
  unfold classifyL
  rw [hs, hsp, hl, er]
  simp [startsWith, hne]

/-- `pre ++ "#S" ++ sp ++ " ".join(ns) ++ post`: a subpath line with tokens `ns` -/
theorem classifyL_subpath (ns : List (List Char)) (pre sp post : List Char) (h : ∀ t ∈ ns, Clean t)
    (hpre : ∀ x ∈ pre, isPySpace x = true) (hsp : ∀ x ∈ sp, isPySpace x = true)
    (hpost : ∀ x ∈ post, isPySpace x = true) :
    classifyL (pre ++ '#' :: 'S' :: (sp ++ joinSp ns ++ post)) = .subpath ns := by
  have hl : lstrip (pre ++ '#' :: 'S' :: (sp ++ joinSp ns ++ post)) = '#' :: 'S' :: (sp ++ joinSp ns ++ post) := by
    rw [lstrip_ws_append _ _ hpre]; exact lstrip_cons_of_not_space (by decide) _
  have key : splitWs (strip (sp ++ joinSp ns ++ post)) = ns := by
    cases ns with
    | nil =>
      have : strip (sp ++ joinSp [] ++ post) = [] := by
        rw [strip_eq_nil_iff]; intro c hc; simp [joinSp] at hc
        rcases hc with hc | hc
        · exact hsp c hc
        · exact hpost c hc
      rw [this]; rfl
    | cons t ts =>
      obtain ⟨c, r, e, hc⟩ := joinSp_head t ts (h t (by simp))
      have : strip (sp ++ joinSp (t :: ts) ++ post) = joinSp (t :: ts) := by
        unfold strip
        rw [List.append_assoc, lstrip_ws_append _ _ hsp]
        have : lstrip (joinSp (t :: ts) ++ post) = joinSp (t :: ts) ++ post := by
          rw [e]; exact lstrip_cons_of_not_space hc _
        rw [this, rstrip_append_ws _ _ hpost, rstrip_joinSp _ h]
      rw [this, splitWs_joinSp _ h]
  unfold classifyL
  rw [hl]
  simp only [List.append_assoc] at key
  simp [startsWith, key]

theorem classifyL_blank_iff (l : List Char) : classifyL l = .blank ↔ ∀ c ∈ l, isPySpace c = true := by
  constructor
  · intro h
    unfold classifyL at h
    split at h
    · simp only at h; split at h <;> cases h
    · split at h
      · rename_i he
        exact (strip_eq_nil_iff l).mp (by simpa using he)
      · cases h
  · intro h
    have h1 := (lstrip_eq_nil_iff l).mpr h
    have h2 := (strip_eq_nil_iff l).mpr h
    unfold classifyL
    simp [h1, h2, startsWith]

end FP.Lexer
