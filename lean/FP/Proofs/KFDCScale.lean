import FP.Proofs.KFDC
import FP.Proofs.WalkCoreExample
/-!
# FP.Proofs.KFDCScale — the repetition cap `edge_upper_bounds[e] = floor(flow(e))`

* `cap_adequate_int_proof`: with weights `≥ 1` (positive integers) no walk of a decomposition runs
  through an edge more often than the edge's flow value, hence (`cap_adequate_floor_proof`, the
  count is a natural number) than its floor, the cap since fix fcfd0b0 — the cap loses nothing for
  weights `≥ 1`;
* the cap is not scale invariant: on `s → a → t` with a self-loop at `a`, all flows `1`, the LP for
  `k = 1` has a satisfying assignment (`loop_unscaled_feasible`), with all flows `1/2` (float weights)
  it has none for any `k` (`loop_scaled_infeasible`), although `[s, a, a, t]` with weight `1/2`
  decomposes the scaled flow (`loop_scaled_decomposition`).
-/
namespace FP
open FP.Spec

/-! ## integer weights: the cap is adequate -/

theorem cap_adequate_int_proof (k : Nat) (m : Nat → Edge → Nat) (w : Nat → Rat) (fe : Rat) (e : Edge)
    (hw0 : ∀ j, j < k → 0 ≤ w j) (hdec : explainedM k m w e = fe)
    (i : Nat) (hi : i < k) (hw : 1 ≤ w i) : (m i e : Rat) ≤ fe := by
  rw [← hdec]
  unfold explainedM
  have hle := le_sum_of_mem (List.range k) (fun j => w j * (m j e : Rat))
    (fun j hj => Rat.mul_nonneg (hw0 j (List.mem_range.1 hj)) Rat.natCast_nonneg) i
    (List.mem_range.2 hi)
  have hm : (0 : Rat) ≤ (m i e : Rat) := Rat.natCast_nonneg
  have h1 : (m i e : Rat) ≤ w i * (m i e : Rat) := by
    have := Rat.mul_nonneg (show (0 : Rat) ≤ w i - 1 by grind) hm
    grind
  grind

/-- … and, the count being a natural number, not more often than the floor of the flow value: the
cap of an SCC edge since fix fcfd0b0 -/
theorem cap_adequate_floor_proof (k : Nat) (m : Nat → Edge → Nat) (w : Nat → Rat) (fe : Rat) (e : Edge)
    (hw0 : ∀ j, j < k → 0 ≤ w j) (hdec : explainedM k m w e = fe)
    (i : Nat) (hi : i < k) (hw : 1 ≤ w i) : (m i e : Rat) ≤ ((fe.floor : Int) : Rat) :=
  natCast_le_floor (cap_adequate_int_proof k m w fe e hw0 hdec i hi hw)

/-! ## the self-loop instance -/

namespace ScaleWitness

def base : Graph := WalkCoreExample.base

/-- `s → a → t` with a self-loop at `a`, every edge with flow `c`; `weight_type = float` -/
def inp (c : Rat) (k : Nat) : WalkInput :=
  { base := base, flow := [(("s", "a"), c), (("a", "a"), c), (("a", "t"), c)], weightInt := false,
    cfg := { k := k } }

theorem base_wf : BaseWF base := WalkCoreExample.base_wf

theorem inp_st (c : Rat) (k : Nat) : (inp c k).st = WalkCoreExample.st := rfl

theorem st_edges (c : Rat) (k : Nat) : (inp c k).st.g.edges =
    [("s", "a"), ("a", "a"), ("a", "t"), ("t", "sink"), ("source", "s")] := by
  rw [inp_st]; exact WalkCoreExample.st_edges

theorem loop_mem (c : Rat) (k : Nat) : ("a", "a") ∈ (inp c k).st.g.edges := by
  rw [st_edges]; decide

theorem loop_active (c : Rat) (k : Nat) : ("a", "a") ∈ (inp c k).activeEdges false := by
  unfold WalkInput.activeEdges
  apply List.mem_filter.2
  refine ⟨loop_mem c k, ?_⟩
  have : (inp c k).ignored false ("a", "a") = false := by
    unfold WalkInput.ignored
    rw [inp_st]
    have h1 : WalkCoreExample.st.sourceSinkEdges.contains ("a", "a") = false := by decide
    have h2 : (inp c k).ignore.contains ("a", "a") = false := rfl
    rw [h1, h2]; rfl
  rw [this]; rfl

/-- the cap of the self-loop is the floor of its own flow value, whatever `k` -/
theorem loop_cap (c : Rat) (k : Nat) : kfdcCap (inp c k) ("a", "a") = ((c.floor : Int) : Rat) := by
  rw [kfdcCap_eq _ _ (loop_mem c k)]
  have h1 : isSccEdge (inp c k).st.g ("a", "a") = true := by
    rw [inp_st]; decide
  have h2 : (inp c k).fOpt ("a", "a") = some c := rfl
  rw [h1, h2]; rfl

/-- the cap of the self-loop of the scaled instance is `floor(1/2) = 0` -/
theorem loop_cap_half (k : Nat) : kfdcCap (inp (1/2) k) ("a", "a") = 0 := by
  rw [loop_cap]; decide +kernel

theorem loop_f (c : Rat) (k : Nat) : (inp c k).f ("a", "a") = c := rfl

/-- the intended solution of the unscaled instance: one walk `source, s, a, a, t, sink` of weight 1 -/
def asg1 : Asg := fun v =>
  if v ∈ [edgeVar ("source", "s") 0, edgeVar ("s", "a") 0, edgeVar ("a", "a") 0, edgeVar ("a", "t") 0,
      edgeVar ("t", "sink") 0, selVar ("source", "s") 0, selVar ("s", "a") 0, selVar ("a", "t") 0,
      selVar ("t", "sink") 0, distVar "source" 0, weightsVar 0,
      piVar ("s", "a") 0, piVar ("a", "a") 0, piVar ("a", "t") 0,
      bitVar (kfdcProdName ("s", "a") 0) 0, bitVar (kfdcProdName ("a", "a") 0) 0,
      bitVar (kfdcProdName ("a", "t") 0) 0,
      compVar (kfdcProdName ("s", "a") 0) 0, compVar (kfdcProdName ("a", "a") 0) 0,
      compVar (kfdcProdName ("a", "t") 0) 0] then 1
  else if v = distVar "s" 0 then 2
  else if v = distVar "a" 0 then 3
  else if v = distVar "t" 0 then 4
  else if v = distVar "sink" 0 then 5
  else 0

/-- flows `(1, 1, 1)`, `k = 1`: the LP of the real constructor is satisfiable -/
theorem loop_unscaled_feasible : Sat asg1 (kfdcLP (inp 1 1) none) :=
  WalkCoreExample.sat_of_check _ _ (by decide +kernel) (by decide +kernel)

/-- flows `(1/2, 1/2, 1/2)` (the same instance scaled by `1/2`): no satisfying assignment for any
number of walks — the loop's cap is `floor(1/2) = 0`, so the loop's edge variable is `0` and the
loop's flow `1/2` cannot be walkExplained -/
theorem loop_scaled_infeasible (k : Nat) (a : Asg) : ¬ Sat a (kfdcLP (inp (1/2) k) none) := by
  intro hsat
  obtain ⟨_, hlayer, hdec⟩ := kfdc_exact_proof (inp (1/2) k) none a base_wf hsat
  have he := hdec ("a", "a") (loop_active _ k)
  rw [loop_f] at he
  unfold walkExplained at he
  have hz : ((List.range (inp (1/2) k).k).map fun i => a (weightsVar i) *
      (traversals ((inp (1/2) k).st.source :: decodeWalkLayer (inp (1/2) k).st a i ++ [(inp (1/2) k).st.sink])
        ("a", "a") : Rat)).sum = 0 := by
    apply sum_map_zero
    intro i hi
    obtain ⟨ht, _, hcap⟩ := hlayer i (List.mem_range.1 hi) ("a", "a") (loop_mem _ k)
    rw [loop_cap_half] at hcap
    have hm : multOf a i ("a", "a") = 0 := by
      apply Classical.byContradiction
      intro hne
      have h1 : ((1 : Nat) : Rat) ≤ (multOf a i ("a", "a") : Rat) :=
        Rat.natCast_le_natCast.2 (by omega)
      have h1' : (1 : Rat) ≤ (multOf a i ("a", "a") : Rat) := by simpa using h1
      have : (1 : Rat) ≤ 0 := Rat.le_trans h1' hcap
      exact absurd this (by decide +kernel)
    rw [ht, hm]; simp
  rw [hz] at he
  exact absurd he (by decide +kernel)

/-- … although the scaled flow has the same one-walk decomposition (weight `1/2`): the walk runs
through the loop once, which the cap `floor(1/2) = 0` of the scaled instance forbids -/
theorem loop_scaled_decomposition :
    IsWalkDecomp "source" "sink" ((inp (1/2) 1).activeEdges false) (inp (1/2) 1).f 1
      (fun _ => ["s", "a", "a", "t"]) (fun _ => 1/2) := by
  unfold IsWalkDecomp
  decide +kernel

/-- the column bound the intended solution violates -/
theorem loop_scaled_cap_violated :
    kfdcCap (inp (1/2) 1) ("a", "a") < (traversals ["source", "s", "a", "a", "t", "sink"] ("a", "a") : Rat) := by
  rw [loop_cap_half]; decide +kernel

end ScaleWitness

end FP
