import FP.Model.PathSafetyRows
import FP.Proofs.PathCoreEnc
/-!
# FP.Proofs.C05DagBase — the DAG safety flags and the LP: syntactic facts

* `c05d_coupleBinS_nil` — with empty `edges_set_to_zero` / `edges_set_to_one` the three-branch product loop is the
  plain one;
* `c05d_kfdLPS_off` … — without `optimize_with_safety_as_subpath_constraints` the LP of every DAG class is, as a
  term, the LP built without any option;
* `c05d_kfdLPS_eq` … — with it, the LP is the option-free LP of the input whose subpath constraints are extended
  by the safe lists;
* `c05d_pipeline_frag` — what `pathSafetyPipeline` returns.
-/
namespace FP
open FP.Safety

theorem c05d_coupleBinS_nil (edges : List Edge) (k : Nat) (prod : Edge → Nat → Var) (cont : Nat → Var) (ub : Rat) :
    coupleBinS [] [] edges k prod cont ub = coupleBin edges k prod cont ub := by
  simp [coupleBinS, coupleBin]

theorem c05d_withSafety_nil (c : PathCfg) (fr : PathSafetyFrag) (h : fr.constraints = []) : c.withSafety fr = c := by
  simp [PathCfg.withSafety, h]

/-- the fragment of the pinned tree never carries rows or fixed keys -/
theorem c05d_extra_fields (lists : List (List Edge)) (o : PathSafetyOpts) :
    (pathSafetyExtra lists o).rows = [] ∧ (pathSafetyExtra lists o).zero = [] ∧
    (pathSafetyExtra lists o).one = [] ∧
    (pathSafetyExtra lists o).constraints = if o.asSubpath then lists else [] := ⟨rfl, rfl, rfl, rfl⟩

theorem c05d_extra_off (lists : List (List Edge)) (o : PathSafetyOpts) (h : o.asSubpath = false) :
    pathSafetyExtra lists o = {} := by
  simp [pathSafetyExtra, h]

theorem c05d_pathCoreS_extra (s : STGraph) (c : PathCfg) (lists : List (List Edge)) (o : PathSafetyOpts) :
    pathCoreS s c (pathSafetyExtra lists o) = encodePaths s (c.withSafety (pathSafetyExtra lists o)) := by
  simp [pathCoreS, pathSafetyExtra]

/-! ## the LP with the options = the option-free LP on the extended constraints -/

theorem c05d_kfdLPS_eq (inp : FlowInput) (lists : List (List Edge)) (o : PathSafetyOpts) :
    kfdLPS inp (pathSafetyExtra lists o) = kfdLP (inp.withSafety (pathSafetyExtra lists o)) := by
  simp only [kfdLPS, kfdLP, c05d_pathCoreS_extra, (c05d_extra_fields lists o).2.1, (c05d_extra_fields lists o).2.2.1,
    c05d_coupleBinS_nil]
  rfl

theorem c05d_kcoverLPS_eq (inp : FlowInput) (lists : List (List Edge)) (o : PathSafetyOpts) :
    kcoverLPS inp (pathSafetyExtra lists o) = kcoverLP (inp.withSafety (pathSafetyExtra lists o)) := by
  simp only [kcoverLPS, kcoverLP, c05d_pathCoreS_extra]
  rfl

/-- `ErrInput` after `self.subpath_constraints += self.safe_lists` -/
def ErrInput.withSafety (inp : ErrInput) (fr : PathSafetyFrag) : ErrInput :=
  { inp with fi := inp.fi.withSafety fr }
/-- `MpeInput` after `self.subpath_constraints += self.safe_lists` -/
def MpeInput.withSafety (inp : MpeInput) (fr : PathSafetyFrag) : MpeInput :=
  { inp with ei := inp.ei.withSafety fr }

theorem c05d_klaeLPS_eq (inp : ErrInput) (lists : List (List Edge)) (o : PathSafetyOpts) :
    klaeLPS inp (pathSafetyExtra lists o) = klaeLP (inp.withSafety (pathSafetyExtra lists o)) := by
  simp only [klaeLPS, klaeLP, c05d_pathCoreS_extra, (c05d_extra_fields lists o).2.1, (c05d_extra_fields lists o).2.2.1,
    c05d_coupleBinS_nil]
  rfl

theorem c05d_kmpeLPS_eq (inp : MpeInput) (lists : List (List Edge)) (o : PathSafetyOpts) :
    kmpeLPS inp (pathSafetyExtra lists o) = kmpeLP (inp.withSafety (pathSafetyExtra lists o)) := by
  simp only [kmpeLPS, kmpeLP, c05d_pathCoreS_extra, (c05d_extra_fields lists o).2.1, (c05d_extra_fields lists o).2.2.1,
    c05d_coupleBinS_nil]
  rfl

/-! ## without `optimize_with_safety_as_subpath_constraints` nothing changes -/

theorem c05d_flowInput_withSafety_off (inp : FlowInput) (lists : List (List Edge)) (o : PathSafetyOpts)
    (h : o.asSubpath = false) : inp.withSafety (pathSafetyExtra lists o) = inp := by
  simp [FlowInput.withSafety, PathCfg.withSafety, pathSafetyExtra, h]

theorem c05d_kfdLPS_off (inp : FlowInput) (lists : List (List Edge)) (o : PathSafetyOpts) (h : o.asSubpath = false) :
    kfdLPS inp (pathSafetyExtra lists o) = kfdLP inp := by
  rw [c05d_kfdLPS_eq, c05d_flowInput_withSafety_off inp lists o h]

theorem c05d_kcoverLPS_off (inp : FlowInput) (lists : List (List Edge)) (o : PathSafetyOpts)
    (h : o.asSubpath = false) : kcoverLPS inp (pathSafetyExtra lists o) = kcoverLP inp := by
  rw [c05d_kcoverLPS_eq, c05d_flowInput_withSafety_off inp lists o h]

theorem c05d_klaeLPS_off (inp : ErrInput) (lists : List (List Edge)) (o : PathSafetyOpts) (h : o.asSubpath = false) :
    klaeLPS inp (pathSafetyExtra lists o) = klaeLP inp := by
  rw [c05d_klaeLPS_eq]
  simp [ErrInput.withSafety, c05d_flowInput_withSafety_off inp.fi lists o h]

theorem c05d_kmpeLPS_off (inp : MpeInput) (lists : List (List Edge)) (o : PathSafetyOpts) (h : o.asSubpath = false) :
    kmpeLPS inp (pathSafetyExtra lists o) = kmpeLP inp := by
  rw [c05d_kmpeLPS_eq]
  simp [MpeInput.withSafety, ErrInput.withSafety, c05d_flowInput_withSafety_off inp.ei.fi lists o h]

/-! ## the pipeline -/

theorem c05d_pipeline_frag (s : STGraph) (c : PathCfg) (X : List Edge) (external : Option (List (List Edge)))
    (o : PathSafetyOpts) (fr : PathSafetyFrag) (h : pathSafetyPipeline s c X external o = .ok fr) :
    ∃ lists, pathSafeLists s c X external o = .ok lists ∧ fr = pathSafetyExtra lists o := by
  unfold pathSafetyPipeline at h
  cases hl : pathSafeLists s c X external o with
  | ok lists =>
    rw [hl] at h
    simp only [bind, pure] at h
    injection h with h
    exact ⟨lists, rfl, h.symm⟩
  | raises w => rw [hl] at h; simp only [bind] at h; cases h
  | fuel => rw [hl] at h; simp only [bind] at h; cases h

end FP
