import FP.Proofs.KFDCComplete
import FP.Proofs.WalkWitness
import FP.Proofs.KFDCSearch
import FP.Proofs.KFDCScale
import FP.Proofs.Reach
/-!
# FP.Proofs.KFDCWalks — completeness of `kfdcLP` stated for walks, and minimality of the search answer

`WalkDecompWithin inp walk w`: `k` walks of the augmented graph with weights that decompose the flow
on the non-ignored edges, every walk within the repetition caps, weights in `[0, w_max]`.
Every such family extends to a satisfying assignment whose decoded multiplicities and weights are the
given ones (`kfdc_complete_walks_proof`); hence the search answer is minimal among them
(`mfdc_min_walks_proof`).
-/
namespace FP
open FP.Spec FP.Search

theorem floor_toNat_natCast (n : Nat) : ((n : Rat)).floor.toNat = n := by
  rw [← Rat.intCast_natCast, Rat.floor_intCast]
  simp

/-- a family of `inp.k` weighted walks that the k-model can represent -/
structure WalkDecompWithin (inp : WalkInput) (walk : Nat → List Node) (w : Nat → Rat) : Prop where
  /-- walks of the augmented graph from the synthetic source to the synthetic sink -/
  isWalk : ∀ i, i < inp.k → IsWalkIn inp.st.g (inp.st.source :: walk i ++ [inp.st.sink])
  /-- every walk respects the repetition caps (floor of the own flow value inside an SCC, 1 outside) -/
  withinCap : ∀ i, i < inp.k → ∀ e ∈ inp.st.g.edges,
    (traversals (inp.st.source :: walk i ++ [inp.st.sink]) e : Rat) ≤ kfdcCap inp e
  weights : ∀ i, i < inp.k → 0 ≤ w i ∧ w i ≤ inp.wmax false ∧ (inp.weightInt = true → ∃ z : Int, w i = z)
  /-- no walk runs through a non-ignored edge more than `w_max` times (implied by the caps when every
  flow value is at most `w_max`) -/
  multBits : ∀ i, i < inp.k → ∀ e ∈ inp.activeEdges false,
    (traversals (inp.st.source :: walk i ++ [inp.st.sink]) e : Rat) ≤ inp.wmax false
  flowLe : ∀ e ∈ inp.activeEdges false, inp.f e ≤ inp.wmax false
  decomposes : IsWalkDecomp inp.st.source inp.st.sink (inp.activeEdges false) inp.f inp.k walk w
  covered : ∀ j (hj : j < inp.cfg.constraints.length), ∃ i, i < inp.k ∧
    coversB (multsOf inp.st.source inp.st.sink walk i) inp.cfg.constraints[j] inp.cfg.coverage = true

theorem source_mem_of_walk (s : STGraph) (hwf : STWFc s) (p : List Node)
    (hW : IsWalkIn s.g (s.source :: p ++ [s.sink])) : s.source ∈ s.g.nodes := by
  have hmem : ∃ y, (s.source, y) ∈ walkEdges (s.source :: p ++ [s.sink]) := by
    have : s.source :: p ++ [s.sink] = s.source :: (p ++ [s.sink]) := rfl
    rw [this]
    cases hp : p ++ [s.sink] with
    | nil => simp at hp
    | cons y ys => exact ⟨y, by simp [walkEdges]⟩
  obtain ⟨y, hy⟩ := hmem
  exact (hwf.closed _ (hW _ hy)).1

/-- **T2 for walks.** -/
theorem kfdc_complete_walks_proof (inp : WalkInput) (walk : Nat → List Node) (w : Nat → Rat)
    (hb : BaseWF inp.base) (hk : 0 < inp.k) (hinj : NameInj inp)
    (h : WalkDecompWithin inp walk w) :
    ∃ a : Asg, Sat a (kfdcLP inp none) ∧
      (∀ i e, multOf a i e = traversals (inp.st.source :: walk i ++ [inp.st.sink]) e) ∧
      (∀ i, a (weightsVar i) = w i) := by
  have hwf : STWFc inp.st := augment_wfc inp.base inp.starts inp.ends hb
  have hsrc := source_mem_of_walk inp.st hwf (walk 0) (h.isWalk 0 hk)
  let m := multsOf inp.st.source inp.st.sink walk
  let sel : Nat → Edge → Bool := fun i => walkSel (inp.st.source :: walk i ++ [inp.st.sink])
  let dist : Nat → Node → Nat := fun i => walkDist inp.st.g.nodes (inp.st.source :: walk i ++ [inp.st.sink])
  have hdec : KfdcDecomp inp m w sel dist :=
    { layer := fun i hi => walk_layer_witness inp.st hwf _ _ (walk i) (h.isWalk i hi) (h.withinCap i hi)
      weights := h.weights
      multBits := h.multBits
      flowLe := h.flowLe
      explains := h.decomposes
      covered := h.covered }
  obtain ⟨hsat, hx, hwv⟩ := kfdc_complete_proof inp m w sel dist hwf hsrc hinj hdec
  refine ⟨_, hsat, ?_, hwv⟩
  intro i e
  unfold multOf
  rw [hx i e, pyRoundCount_natCast]
  rfl

/-- the walks of the k-model for `j` walks that the model can represent make it feasible -/
theorem feasible_of_walks (inp : WalkInput) (j : Nat) (walk : Nat → List Node) (w : Nat → Rat)
    (hb : BaseWF inp.base) (hj : 0 < j) (hinj : NameInj (inp.withK j))
    (h : WalkDecompWithin (inp.withK j) walk w) : KfdcFeasible inp j := by
  obtain ⟨a, ha, _⟩ := kfdc_complete_walks_proof (inp.withK j) walk w hb hj hinj h
  exact ⟨a, ha⟩

/-- **T5 with T1 and T2.** With a faithful status script and a valid lower bound, the `k` returned by
`MinFlowDecompCycles.solve()` comes with `k` walks and weights that decompose the flow, and no family
of fewer walks that the k-model can represent decomposes it. -/
theorem mfdc_min_walks_proof (inp : WalkInput) (σ : Nat → Status) (late : Nat → Bool) (lo hi k : Nat)
    (hb : BaseWF inp.base) (hσ : FaithfulC inp σ) (hlo : ∀ j, j < lo → ¬ KfdcFeasible inp j)
    (h : (stopSearchTimed σ late lo hi).solved = some k) :
    (∃ (walk : Nat → List Node) (w : Nat → Rat),
      IsWalkDecomp inp.st.source inp.st.sink (inp.activeEdges false) inp.f k walk w ∧
      (∀ i, i < k → 0 ≤ w i ∧ (inp.weightInt = true → ∃ z : Int, w i = z))) ∧
    (∀ j, 0 < j → j < k → NameInj (inp.withK j) →
      ∀ walk w, ¬ WalkDecompWithin (inp.withK j) walk w) := by
  obtain ⟨hfeas, hmin, _⟩ := mfdc_search_minimal_proof inp σ late lo hi k hσ hlo h
  refine ⟨feasible_gives_decomposition inp k hb hfeas, ?_⟩
  intro j hj0 hjk hinj walk w hd
  exact hmin j hjk (feasible_of_walks inp j walk w hb hj0 hinj hd)

/-! ## integer-weighted decompositions meet the caps by themselves -/

/-- every SCC edge of the augmented graph is a non-ignored edge whose cap is (the floor of, since fix
fcfd0b0) its own flow value -/
def CapsAreFlows (inp : WalkInput) : Prop :=
  ∀ e ∈ inp.st.g.edges, isSccEdge inp.st.g e = true →
    e ∈ inp.activeEdges false ∧ kfdcCap inp e = (((inp.f e).floor : Int) : Rat)

/-- … which is the case for a plain flow instance: nothing ignored, every edge of the user's graph
carries its flow value (the synthetic edges are never SCC edges) -/
theorem caps_are_flows (inp : WalkInput) (hb : BaseWF inp.base) (hign : inp.ignore = [])
    (hattr : ∀ e ∈ inp.base.edges, ∃ q, inp.fOpt e = some q) : CapsAreFlows inp := by
  have hwf : STWFc inp.st := augment_wfc inp.base inp.starts inp.ends hb
  intro e he hscc
  have h1 : e.1 ≠ inp.st.source := by
    intro h
    have := not_scc_of_terminal inp.st.g hwf.closed e he
      (Or.inl (fun e' he' => by rw [h]; exact hwf.srcNoIn e' he'))
    rw [hscc] at this; cases this
  have h2 : e.2 ≠ inp.st.sink := by
    intro h
    have := not_scc_of_terminal inp.st.g hwf.closed e he
      (Or.inr (fun e' he' => by rw [h]; exact hwf.snkNoOut e' he'))
    rw [hscc] at this; cases this
  have hbase : e ∈ inp.base.edges := by
    rcases (aug_mem_edges' (st := inp.starts) (en := inp.ends) hb.closed (e := e)).1 he with h | h | h
    · exact h
    · exact absurd h.1 h1
    · exact absurd h.1 h2
  have hact : e ∈ inp.activeEdges false := by
    unfold WalkInput.activeEdges
    apply List.mem_filter.2
    refine ⟨he, ?_⟩
    unfold WalkInput.ignored STGraph.sourceSinkEdges STGraph.sourceEdges STGraph.sinkEdges
      Graph.outEdges Graph.inEdges
    rw [hign]
    simp [h1, h2]
  refine ⟨hact, ?_⟩
  rw [kfdcCap_eq inp e he, hscc]
  obtain ⟨q, hq⟩ := hattr e hbase
  simp [WalkInput.f, hq]

/-- **integer weights need no cap hypothesis.** `k` walks of the augmented graph with weights that are
at least `1` (positive integers) and at most `w_max`, decomposing a flow whose values are at most
`w_max`, on an input whose caps are the (floored) flow values: the family is within the caps — a
natural number of traversals below the flow value is below its floor. -/
theorem within_of_int (inp : WalkInput) (walk : Nat → List Node) (w : Nat → Rat)
    (hb : BaseWF inp.base) (hcaps : CapsAreFlows inp)
    (hwalk : ∀ i, i < inp.k → IsWalkIn inp.st.g (inp.st.source :: walk i ++ [inp.st.sink]))
    (hw : ∀ i, i < inp.k → 1 ≤ w i ∧ w i ≤ inp.wmax false ∧ (inp.weightInt = true → ∃ z : Int, w i = z))
    (hflow : ∀ e ∈ inp.activeEdges false, inp.f e ≤ inp.wmax false)
    (hdec : IsWalkDecomp inp.st.source inp.st.sink (inp.activeEdges false) inp.f inp.k walk w)
    (hcov : ∀ j (hj : j < inp.cfg.constraints.length), ∃ i, i < inp.k ∧
      coversB (multsOf inp.st.source inp.st.sink walk i) inp.cfg.constraints[j] inp.cfg.coverage = true) :
    WalkDecompWithin inp walk w := by
  have hwf : STWFc inp.st := augment_wfc inp.base inp.starts inp.ends hb
  have hw0 : ∀ j, j < inp.k → 0 ≤ w j := fun j hj =>
    Rat.le_trans (by decide) (hw j hj).1
  have hmle : ∀ i, i < inp.k → ∀ e ∈ inp.activeEdges false,
      (traversals (inp.st.source :: walk i ++ [inp.st.sink]) e : Rat) ≤ inp.f e := by
    intro i hi e he
    exact cap_adequate_int_proof inp.k (multsOf inp.st.source inp.st.sink walk) w (inp.f e) e hw0
      (hdec e he) i hi (hw i hi).1
  have hone : ∀ i, i < inp.k → ∀ e ∈ inp.st.g.edges, isSccEdge inp.st.g e = false →
      (traversals (inp.st.source :: walk i ++ [inp.st.sink]) e : Rat) ≤ 1 := by
    intro i hi e he hs
    have := nonScc_once_proof inp.st.g hwf.closed _ (hwalk i hi) e he hs
    have h1 : ((traversals (inp.st.source :: walk i ++ [inp.st.sink]) e : Nat) : Rat) ≤ ((1 : Nat) : Rat) :=
      Rat.natCast_le_natCast.2 this
    simpa using h1
  refine ⟨hwalk, ?_, fun i hi => ⟨hw0 i hi, (hw i hi).2⟩, ?_, hflow, hdec, hcov⟩
  · intro i hi e he
    cases hs : isSccEdge inp.st.g e with
    | true =>
      obtain ⟨hact, hcap⟩ := hcaps e he hs
      rw [hcap]; exact natCast_le_floor (hmle i hi e hact)
    | false =>
      rw [kfdcCap_eq inp e he, hs]
      exact hone i hi e he hs
  · intro i hi e he
    have hee : e ∈ inp.st.g.edges := (List.mem_filter.1 he).1
    cases hs : isSccEdge inp.st.g e with
    | true => exact Rat.le_trans (hmle i hi e he) (hflow e he)
    | false => exact Rat.le_trans (hone i hi e hee hs) (Rat.le_trans (hw i hi).1 (hw i hi).2.1)

/-- **C04, minimality for positive integer weights.** The returned `k` is at most the number of walks
of *any* decomposition of the flow into source-to-sink walks with weights `≥ 1` (integral for
`weight_type=int`) that covers the subset constraints — no cap hypothesis: by `cap_adequate_int` and
`nonScc_once` such walks are within the caps. (`w_max` side conditions: weights and flow values at most
`w_max = j·max flow`, true for positive integer flows and `j ≥ 1`.) -/
theorem mfdc_minimum_int_proof (inp : WalkInput) (σ : Nat → Status) (late : Nat → Bool) (lo hi k : Nat)
    (hb : BaseWF inp.base) (hcaps : ∀ j, CapsAreFlows (inp.withK j)) (hσ : FaithfulC inp σ)
    (hlo : ∀ j, j < lo → ¬ KfdcFeasible inp j)
    (h : (stopSearchTimed σ late lo hi).solved = some k)
    (j : Nat) (hj0 : 0 < j) (hinj : NameInj (inp.withK j))
    (walk : Nat → List Node) (w : Nat → Rat)
    (hwalk : ∀ i, i < j → IsWalkIn inp.st.g (inp.st.source :: walk i ++ [inp.st.sink]))
    (hw : ∀ i, i < j → 1 ≤ w i ∧ w i ≤ (inp.withK j).wmax false ∧
      (inp.weightInt = true → ∃ z : Int, w i = z))
    (hflow : ∀ e ∈ inp.activeEdges false, inp.f e ≤ (inp.withK j).wmax false)
    (hdec : IsWalkDecomp inp.st.source inp.st.sink (inp.activeEdges false) inp.f j walk w)
    (hcov : ∀ c (hc : c < inp.cfg.constraints.length), ∃ i, i < j ∧
      coversB (multsOf inp.st.source inp.st.sink walk i) inp.cfg.constraints[c] inp.cfg.coverage = true) :
    k ≤ j := by
  apply Classical.byContradiction
  intro hlt
  have hjk : j < k := by omega
  obtain ⟨_, hmin, _⟩ := mfdc_search_minimal_proof inp σ late lo hi k hσ hlo h
  have hwithin : WalkDecompWithin (inp.withK j) walk w :=
    within_of_int (inp.withK j) walk w hb (hcaps j) hwalk hw hflow hdec hcov
  exact hmin j hjk (feasible_of_walks inp j walk w hb hj0 hinj hwithin)

end FP
