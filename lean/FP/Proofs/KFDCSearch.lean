import FP.Proofs.KFDC
import FP.Props.C13
/-!
# FP.Proofs.KFDCSearch — `MinFlowDecompCycles.solve()` returns the least feasible `k`

The search is the timed machine of `FP/Model/Search.lean` (`stopSearchTimed`, tied to the real loop by
the K3 traces of C13/C04). The k-model tried at `k` is `kfdcLP (inp.withK k) none` (tied by K2).
A status script is *faithful* when the solver's verdicts are right about these LPs.
-/
namespace FP
open FP.Search FP.Spec

/-- the input of the k-model built in iteration `k` of the search -/
def WalkInput.withK (inp : WalkInput) (k : Nat) : WalkInput := { inp with cfg := { inp.cfg with k := k } }

/-- the LP of the k-model for `k` has a satisfying assignment -/
def KfdcFeasible (inp : WalkInput) (k : Nat) : Prop := ∃ a : Asg, Sat a (kfdcLP (inp.withK k) none)

/-- the solver's verdicts are right: `kOptimal` only for satisfiable LPs, `kInfeasible` only for
unsatisfiable ones (nothing is assumed about any other status) -/
def FaithfulC (inp : WalkInput) (σ : Nat → Status) : Prop :=
  ∀ k, (σ k = .optimal → KfdcFeasible inp k) ∧ (σ k = .infeasible → ¬ KfdcFeasible inp k)

/-- **T5, soundness.** With a faithful status script and a valid lower bound (no k-model below `lo`
is satisfiable), a returned `k` is the least `k` whose k-model is satisfiable; the clock did not
fire. -/
theorem mfdc_search_minimal_proof (inp : WalkInput) (σ : Nat → Status) (late : Nat → Bool)
    (lo hi k : Nat) (hσ : FaithfulC inp σ) (hlo : ∀ j, j < lo → ¬ KfdcFeasible inp j)
    (h : (stopSearchTimed σ late lo hi).solved = some k) :
    KfdcFeasible inp k ∧ (∀ j, j < k → ¬ KfdcFeasible inp j) ∧ lo ≤ k ∧ k < hi ∧ late k = false := by
  obtain ⟨h1, h2, h3, h4, h5⟩ := FP.Props.C13.timed_sound σ late lo hi k h
  refine ⟨(hσ k).1 h1, ?_, h3, h4, h2⟩
  intro j hj
  by_cases hjl : j < lo
  · exact hlo j hjl
  · exact (hσ j).2 (h5 j (by omega) hj)

/-- **T5, completeness.** If the least satisfiable k-model lies in the searched range and the solver
is conclusive and in time up to it, the search returns it. -/
theorem mfdc_search_finds_proof (inp : WalkInput) (σ : Nat → Status) (late : Nat → Bool)
    (lo hi k : Nat) (hσ : FaithfulC inp σ) (h1 : lo ≤ k) (h2 : k < hi)
    (hk : KfdcFeasible inp k) (hmin : ∀ j, j < k → ¬ KfdcFeasible inp j)
    (hconcl : ∀ j, lo ≤ j → j ≤ k → σ j ≠ .other ∧ late j = false) :
    (stopSearchTimed σ late lo hi).solved = some k := by
  apply FP.Props.C13.timed_complete σ late lo hi k h1 h2
  · cases hs : σ k with
    | optimal => rfl
    | infeasible => exact absurd hk ((hσ k).2 hs)
    | other => exact absurd hs (hconcl k h1 (Nat.le_refl _)).1
  · exact (hconcl k h1 (Nat.le_refl _)).2
  · intro j hj1 hj2
    refine ⟨?_, (hconcl j hj1 (by omega)).2⟩
    cases hs : σ j with
    | optimal => exact absurd ((hσ j).1 hs) (hmin j hj2)
    | infeasible => rfl
    | other => exact absurd hs (hconcl j hj1 (by omega)).1

/-- what a satisfiable k-model gives the user: `k` walks (decoded, possibly of weight zero) and
weights that explain every non-ignored edge -/
theorem feasible_gives_decomposition (inp : WalkInput) (k : Nat) (h : BaseWF inp.base)
    (hf : KfdcFeasible inp k) :
    ∃ (walk : Nat → List Node) (w : Nat → Rat),
      IsWalkDecomp inp.st.source inp.st.sink (inp.activeEdges false) inp.f k walk w ∧
      (∀ i, i < k → 0 ≤ w i ∧ (inp.weightInt = true → ∃ z : Int, w i = z)) := by
  obtain ⟨a, ha⟩ := hf
  obtain ⟨hw, _, hdec⟩ := kfdc_exact_proof (inp.withK k) none a h ha
  exact ⟨decodeWalkLayer inp.st a, fun i => a (weightsVar i), hdec,
    fun i hi => ⟨(hw i hi).1, (hw i hi).2.2⟩⟩

end FP
