import FP.Proofs.MFD
/-!
# FP.Proofs.DecompExample — the hypotheses of the C03 theorems are satisfiable

The diamond `a → b → d`, `a → c → d` with flow 3 on the upper and 2 on the lower branch, integer weights
and the subpath constraint `[(a,b),(b,d)]`: a concrete 2-path decomposition, the antichain
`{(a,b),(a,c)}`, and hence minimum 2.
-/
namespace FP.DecompExample
open FP FP.Spec FP.MFD

def base : Graph :=
  { nodes := ["a", "b", "c", "d"], edges := [("a", "b"), ("a", "c"), ("b", "d"), ("c", "d")] }

theorem base_wf : BaseWF base where
  edgesNodup := by decide
  nodesNodup := by decide
  closed := by decide
  freshSrc := by decide
  freshSnk := by decide

def rank : Node → Nat := fun v => if v = "a" then 0 else if v = "d" then 2 else 1

theorem base_acyclic : Acyclic base := ⟨rank, by decide⟩

def inp : FlowInput :=
  { base := base,
    flow := [(("a", "b"), 3), (("a", "c"), 2), (("b", "d"), 3), (("c", "d"), 2)],
    weightInt := true,
    cfg := { k := 2, constraints := [[("a", "b"), ("b", "d")]] } }

theorem st_edges : inp.st.g.edges =
    [("a", "b"), ("a", "c"), ("b", "d"), ("c", "d"), ("d", "sink"), ("source", "a")] := by decide

theorem active : inp.activeEdges = [("a", "b"), ("a", "c"), ("b", "d"), ("c", "d")] := by decide

theorem wmax_eq : inp.wmax = 3 := by decide +kernel

theorem plain : PlainCfg inp where
  noEmpty := rfl
  coverage := rfl
  noCovLen := rfl
  noPos := rfl
  consEdges := by decide

def P : Nat → List Node := fun i => if i = 0 then ["a", "b", "d"] else ["a", "c", "d"]
def w : Nat → Rat := fun i => if i = 0 then 3 else 2

theorem isDecomp : IsDecomp inp 2 P w where
  walk := by
    intro i hi
    have : i = 0 ∨ i = 1 := by omega
    rcases this with rfl | rfl <;> (unfold IsWalkIn; decide)
  wnonneg := by
    intro i hi
    have : i = 0 ∨ i = 1 := by omega
    rcases this with rfl | rfl <;> decide
  wint := by
    intro _ i hi
    have : i = 0 ∨ i = 1 := by omega
    rcases this with rfl | rfl
    · exact ⟨3, by simp [w]⟩
    · exact ⟨2, by simp [w]⟩
  explains := by
    rw [active]
    intro e he
    simp only [List.mem_cons, List.not_mem_nil, or_false] at he
    rcases he with rfl | rfl | rfl | rfl <;> decide +kernel
  constraints := by
    intro con hcon
    have : con = [("a", "b"), ("b", "d")] := by simpa [inp] using hcon
    subst this
    exact ⟨0, by omega, by decide⟩

theorem hasDecomp2 : HasDecomp inp 2 :=
  ⟨P, w, isDecomp, by
    intro i hi
    rw [wmax_eq]
    have : i = 0 ∨ i = 1 := by omega
    rcases this with rfl | rfl <;> decide +kernel⟩

/-- in a duplicate-free vertex sequence two consecutive pairs with the same first vertex coincide -/
theorem walkEdges_fst_inj (l : List Node) (hnd : l.Nodup) (e1 e2 : Edge)
    (h1 : e1 ∈ walkEdges l) (h2 : e2 ∈ walkEdges l) (h : e1.1 = e2.1) : e1 = e2 := by
  have hmap : ((walkEdges l).map (·.1)).Nodup := by
    rw [walkEdges_map_fst]; exact hnd.sublist (List.dropLast_sublist l)
  generalize walkEdges l = L at h1 h2 hmap
  induction L with
  | nil => cases h1
  | cons x xs ih =>
    have hx := List.nodup_cons.1 (by simpa using hmap : (x.1 :: xs.map (·.1)).Nodup)
    rcases List.mem_cons.1 h1 with rfl | h1' <;> rcases List.mem_cons.1 h2 with rfl | h2'
    · rfl
    · exact absurd (List.mem_map.2 ⟨e2, h2', h.symm⟩) hx.1
    · exact absurd (List.mem_map.2 ⟨e1, h1', h⟩) hx.1
    · exact ih h1' h2' hx.2

theorem antichain : IsAntichain inp.st [("a", "b"), ("a", "c")] := by
  have hwf : STWF inp.st := augment_wf _ _ _ base_wf base_acyclic
  refine ⟨by decide, ?_⟩
  intro e1 h1 e2 h2 hne p hp hboth
  have hnd := stwalk_nodup_p03 hwf hp
  apply hne
  apply walkEdges_fst_inj _ hnd e1 e2 hboth.1 hboth.2
  simp only [List.mem_cons, List.not_mem_nil, or_false] at h1 h2
  rcases h1 with rfl | rfl <;> rcases h2 with rfl | rfl <;> rfl

theorem no_decomp_below_2 : ∀ j, j < 2 → ¬ HasDecomp inp j := by
  intro j hj ⟨P', w', hd, _⟩
  have := lb_antichain_valid_proof inp j P' w' hd _ antichain (by decide) (by
    intro e he
    simp only [List.mem_cons, List.not_mem_nil, or_false] at he
    rcases he with rfl | rfl <;> decide +kernel)
  simp at this
  omega

theorem min_is_2 : IsMinDecomp inp 2 := ⟨hasDecomp2, no_decomp_below_2⟩

end FP.DecompExample
