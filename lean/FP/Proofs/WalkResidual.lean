import FP.Model.WalkDecode
import FP.Spec.Routes
import FP.Proofs.PathCore
import FP.Proofs.Euler
/-!
# FP.Proofs.WalkResidual — the residual multigraph of one layer of a walk model

`buildResidual g m` has, up to permutation, every edge `e` of `g` repeated `m e` times
(`residual_perm`); hence multiplicities (`count_residual`), out- and in-degrees (`outdeg_residual`,
`indeg_residual`) and the double-counting identity `sum_bal_zero`.
-/
namespace FP
open FP.Spec

/-- total multiplicity leaving `v` -/
def outN (g : Graph) (m : Edge → Nat) (v : Node) : Nat := ((g.edges.filter (·.1 = v)).map m).sum
/-- total multiplicity entering `v` -/
def inN (g : Graph) (m : Edge → Nat) (v : Node) : Nat := ((g.edges.filter (·.2 = v)).map m).sum

/-- every edge `e` of `l` repeated `m e` times -/
def expand (l : List Edge) (m : Edge → Nat) : List Edge := l.flatMap fun e => List.replicate (m e) e

theorem expand_cons (x : Edge) (xs : List Edge) (m : Edge → Nat) :
    expand (x :: xs) m = List.replicate (m x) x ++ expand xs m := by simp [expand]

theorem count_expand (l : List Edge) (m : Edge → Nat) (e : Edge) :
    (expand l m).count e = l.count e * m e := by
  induction l with
  | nil => simp [expand]
  | cons x xs ih =>
    rw [expand_cons, List.count_append, ih, List.count_replicate, List.count_cons]
    by_cases h : x = e
    · subst h; simp [Nat.add_mul]; omega
    · simp [h]

theorem countP_expand (l : List Edge) (m : Edge → Nat) (p : Edge → Bool) :
    (expand l m).countP p = ((l.filter p).map m).sum := by
  induction l with
  | nil => simp [expand]
  | cons x xs ih =>
    rw [expand_cons, List.countP_append, ih, List.countP_replicate, List.filter_cons]
    by_cases h : p x = true
    · simp [h]
    · simp [h]

theorem mem_expand {l : List Edge} {m : Edge → Nat} {e : Edge} :
    e ∈ expand l m ↔ e ∈ l ∧ m e ≠ 0 := by
  simp only [expand, List.mem_flatMap, List.mem_replicate]
  constructor
  · rintro ⟨a, ha, hm, rfl⟩; exact ⟨ha, hm⟩
  · rintro ⟨h1, h2⟩; exact ⟨e, h1, h2, rfl⟩

theorem residual_row (l : List Edge) (v : Node) (hl : ∀ e ∈ l, e.1 = v) (m : Edge → Nat) :
    (l.flatMap fun e => List.replicate (m e) e.2).map (fun w => (v, w))
      = l.flatMap fun e => List.replicate (m e) e := by
  induction l with
  | nil => simp
  | cons x xs ih =>
    have hx : (v, x.2) = x := by rw [← hl x (by simp)]
    simp only [List.flatMap_cons, List.map_append, List.map_replicate, hx]
    rw [ih (fun e he => hl e (by simp [he]))]

theorem flatMap_congr' {α β} (l : List α) (f g : α → List β) (h : ∀ x ∈ l, f x = g x) :
    l.flatMap f = l.flatMap g := by
  induction l with
  | nil => simp
  | cons x xs ih =>
    simp only [List.flatMap_cons, h x (by simp), ih (fun y hy => h y (by simp [hy]))]

theorem edges_buildResidual (g : Graph) (m : Edge → Nat) :
    Euler.edges (buildResidual g m) = expand (Graph.nxOrder g.nodes g.edges) m := by
  unfold Euler.edges buildResidual expand Graph.nxOrder
  rw [List.flatMap_map, List.flatMap_assoc]
  apply flatMap_congr'
  intro v _
  exact residual_row _ v (fun e he => by simpa [Graph.outEdges] using (List.mem_filter.1 he).2) m

theorem keys_buildResidual (g : Graph) (m : Edge → Nat) :
    (buildResidual g m).map (·.1) = g.nodes := by
  simp [buildResidual, List.map_map, Function.comp_def]

theorem nxOrder_perm (g : Graph) (hn : g.nodes.Nodup) (he : g.edges.Nodup)
    (hcl : ∀ e ∈ g.edges, e.1 ∈ g.nodes) : (Graph.nxOrder g.nodes g.edges).Perm g.edges :=
  (List.perm_ext_iff_of_nodup (nodup_nxOrder hn he) he).2
    (fun e => by rw [mem_nxOrder]; exact ⟨fun h => h.1, fun h => ⟨h, hcl e h⟩⟩)

section Residual
variable {g : Graph} (hn : g.nodes.Nodup) (he : g.edges.Nodup)
  (hcl : ∀ e ∈ g.edges, e.1 ∈ g.nodes ∧ e.2 ∈ g.nodes) (m : Edge → Nat)

include hn he hcl in
theorem residual_perm : (Euler.edges (buildResidual g m)).Perm (expand g.edges m) := by
  rw [edges_buildResidual]
  exact (nxOrder_perm g hn he (fun e h => (hcl e h).1)).flatMap_right _

include hn he hcl in
theorem count_residual (e : Edge) :
    (Euler.edges (buildResidual g m)).count e = if e ∈ g.edges then m e else 0 := by
  rw [(residual_perm hn he hcl m).count_eq, count_expand, he.count]
  split <;> simp

include hn he hcl in
theorem mem_residual {e : Edge} :
    e ∈ Euler.edges (buildResidual g m) ↔ e ∈ g.edges ∧ m e ≠ 0 := by
  rw [(residual_perm hn he hcl m).mem_iff, mem_expand]

include hn he hcl in
theorem outdeg_residual (x : Node) :
    outdeg (Euler.edges (buildResidual g m)) x = (outN g m x : Int) := by
  unfold outdeg outN
  rw [(residual_perm hn he hcl m).countP_eq, countP_expand]

include hn he hcl in
theorem indeg_residual (x : Node) :
    indeg (Euler.edges (buildResidual g m)) x = (inN g m x : Int) := by
  unfold indeg inN
  rw [(residual_perm hn he hcl m).countP_eq, countP_expand]

include hn he hcl in
theorem bal_residual (x : Node) :
    bal (Euler.edges (buildResidual g m)) x = (outN g m x : Int) - (inN g m x : Int) := by
  unfold bal
  rw [outdeg_residual hn he hcl, indeg_residual hn he hcl]

end Residual

/-! ## double counting -/

theorem int_sum_map_add {α} (l : List α) (f g : α → Int) :
    (l.map (fun e => f e + g e)).sum = (l.map f).sum + (l.map g).sum := by
  induction l with
  | nil => simp
  | cons x xs ih => simp only [List.map_cons, List.sum_cons, ih]; omega

theorem int_sum_map_sub {α} (l : List α) (f g : α → Int) :
    (l.map (fun e => f e - g e)).sum = (l.map f).sum - (l.map g).sum := by
  induction l with
  | nil => simp
  | cons x xs ih => simp only [List.map_cons, List.sum_cons, ih]; omega

theorem int_sum_map_zero {α} (l : List α) (f : α → Int) (h : ∀ x ∈ l, f x = 0) :
    (l.map f).sum = 0 := by
  induction l with
  | nil => simp
  | cons x xs ih =>
    simp only [List.map_cons, List.sum_cons, h x (by simp), ih (fun y hy => h y (by simp [hy]))]
    rfl

theorem sum_ind_not_mem (l : List Node) (a : Node) (h : a ∉ l) :
    (l.map fun v => Euler.ind' (a = v)).sum = 0 := by
  apply int_sum_map_zero
  intro v hv
  have : a ≠ v := fun h' => h (h' ▸ hv)
  simp [Euler.ind', this]

theorem sum_ind_mem (l : List Node) (hnd : l.Nodup) (a : Node) (h : a ∈ l) :
    (l.map fun v => Euler.ind' (a = v)).sum = 1 := by
  induction l with
  | nil => simp at h
  | cons x xs ih =>
    have hx : x ∉ xs := (List.nodup_cons.1 hnd).1
    simp only [List.map_cons, List.sum_cons]
    by_cases h1 : a = x
    · subst h1
      rw [sum_ind_not_mem xs a hx]; simp [Euler.ind']
    · have h2 : a ∈ xs := by simpa [h1] using h
      rw [ih (List.nodup_cons.1 hnd).2 h2]; simp [Euler.ind', h1]

/-- the balances of an edge list sum to zero over any duplicate-free vertex list containing all
endpoints -/
theorem sum_bal_zero (l : List Node) (hnd : l.Nodup) (es : List Edge)
    (h : ∀ e ∈ es, e.1 ∈ l ∧ e.2 ∈ l) : (l.map (bal es)).sum = 0 := by
  induction es with
  | nil => exact int_sum_map_zero _ _ (fun x _ => by simp [bal, outdeg, indeg])
  | cons e es ih =>
    have hfun : bal (e :: es) = fun x => (Euler.ind' (e.1 = x) - Euler.ind' (e.2 = x)) + bal es x := by
      funext x; exact Euler.bal_cons e es x
    rw [hfun, int_sum_map_add, int_sum_map_sub, ih (fun e' he' => h e' (by simp [he'])),
      sum_ind_mem l hnd _ (h e (by simp)).1, sum_ind_mem l hnd _ (h e (by simp)).2]
    rfl

end FP
