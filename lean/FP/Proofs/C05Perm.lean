import FP.Model.WalkCore
import FP.Model.Enc.KCoverC
import FP.Proofs.WrapperBase
import FP.Proofs.PathCoreEnc
/-!
# FP.Proofs.C05Perm — the walk LPs are invariant under permutations of the layer indices

`LayerPerm k`: a permutation of `0..k-1` (with its inverse). `permLayers π` renames every layered column
`(.., i)` to `(.., π i)`. Every row family of `_encode_walks` / `_encode_subset_constraints` / the cover rows is
generated uniformly over `List.range k`, hence `Sat a lp → Sat (a ∘ permLayers π) lp` (`encodeWalks_perm`,
`subsetBlock_perm`, `walkCore_perm`, `kcovercLP_perm`), and sums over all layers do not change
(`c05_sum_range_perm`).
-/
namespace FP

/-- a permutation of the layer indices `0..k-1`, with its inverse -/
structure LayerPerm (k : Nat) where
  fwd : Nat → Nat
  bwd : Nat → Nat
  fwd_lt : ∀ i, i < k → fwd i < k
  bwd_lt : ∀ i, i < k → bwd i < k
  bwd_fwd : ∀ i, i < k → bwd (fwd i) = i
  fwd_bwd : ∀ i, i < k → fwd (bwd i) = i

namespace LayerPerm

def id (k : Nat) : LayerPerm k :=
  ⟨fun i => i, fun i => i, fun _ h => h, fun _ h => h, fun _ _ => rfl, fun _ _ => rfl⟩

def inv {k : Nat} (π : LayerPerm k) : LayerPerm k :=
  ⟨π.bwd, π.fwd, π.bwd_lt, π.fwd_lt, π.fwd_bwd, π.bwd_fwd⟩

/-- exchange of two indices -/
def swapNat (x y i : Nat) : Nat := if i = x then y else if i = y then x else i

theorem swapNat_lt {k x y i : Nat} (hx : x < k) (hy : y < k) (hi : i < k) : swapNat x y i < k := by
  unfold swapNat; split
  · exact hy
  · split
    · exact hx
    · exact hi

theorem swapNat_swapNat (x y i : Nat) : swapNat x y (swapNat x y i) = i := by
  unfold swapNat; grind

/-- `π` after exchanging the new indices `x` and `y` -/
def swapRight {k : Nat} (π : LayerPerm k) (x y : Nat) (hx : x < k) (hy : y < k) : LayerPerm k where
  fwd := fun i => π.fwd (swapNat x y i)
  bwd := fun i => swapNat x y (π.bwd i)
  fwd_lt := fun i hi => π.fwd_lt _ (swapNat_lt hx hy hi)
  bwd_lt := fun i hi => swapNat_lt hx hy (π.bwd_lt i hi)
  bwd_fwd := fun i hi => by
    show swapNat x y (π.bwd (π.fwd (swapNat x y i))) = i
    rw [π.bwd_fwd _ (swapNat_lt hx hy hi), swapNat_swapNat]
  fwd_bwd := fun i hi => by
    show π.fwd (swapNat x y (swapNat x y (π.bwd i))) = i
    rw [swapNat_swapNat, π.fwd_bwd i hi]

theorem fwd_inj {k : Nat} (π : LayerPerm k) {i j : Nat} (hi : i < k) (hj : j < k)
    (h : π.fwd i = π.fwd j) : i = j := by
  rw [← π.bwd_fwd i hi, ← π.bwd_fwd j hj, h]

theorem map_range_perm {k : Nat} (π : LayerPerm k) : ((List.range k).map π.fwd).Perm (List.range k) := by
  apply (List.perm_ext_iff_of_nodup ?_ List.nodup_range).2
  · intro x
    simp only [List.mem_map, List.mem_range]
    constructor
    · rintro ⟨i, hi, rfl⟩; exact π.fwd_lt i hi
    · intro hx; exact ⟨π.bwd x, π.bwd_lt x hx, π.fwd_bwd x hx⟩
  · show List.Pairwise (· ≠ ·) _
    rw [List.pairwise_map]
    apply List.Pairwise.imp_of_mem _ (List.nodup_range (n := k))
    intro i j hi hj hne h
    exact hne (π.fwd_inj (List.mem_range.1 hi) (List.mem_range.1 hj) h)

end LayerPerm

theorem c05_sum_perm {α} {l1 l2 : List α} (h : l1.Perm l2) (f : α → Rat) :
    (l1.map f).sum = (l2.map f).sum := by
  induction h with
  | nil => rfl
  | cons x _ ih => simp only [List.map_cons, List.sum_cons, ih]
  | swap x y l => simp only [List.map_cons, List.sum_cons]; grind
  | trans _ _ ih1 ih2 => rw [ih1, ih2]

/-- a sum over all layers does not see a permutation of the layers -/
theorem c05_sum_range_perm {k : Nat} (π : LayerPerm k) (f : Nat → Rat) :
    ((List.range k).map fun i => f (π.fwd i)).sum = ((List.range k).map f).sum := by
  have := c05_sum_perm π.map_range_perm f
  rw [List.map_map] at this
  exact this

/-! ## renaming of columns -/

/-- rename the layer index of every layered column: edge / selected / used / pi / gamma variables
`(u, v, i)`, distance variables `(v, i)`, subset variables `r(i, j)` -/
def permLayers (π : Nat → Nat) : Var → Var
  | .uvi p u v i => .uvi p u v (π i)
  | .vi p v i => .vi p v (π i)
  | .ij p i j => .ij p (π i) j
  | v => v

/-- `P` renames the layer index of every layered column by `π` (what it does to other columns is free) -/
structure IsLayerRenaming (π : Nat → Nat) (P : Var → Var) : Prop where
  uvi : ∀ p u v i, P (.uvi p u v i) = .uvi p u v (π i)
  vi : ∀ p v i, P (.vi p v i) = .vi p v (π i)
  ij : ∀ p i j, P (.ij p i j) = .ij p (π i) j

theorem permLayers_isLayerRenaming (π : Nat → Nat) : IsLayerRenaming π (permLayers π) :=
  ⟨fun _ _ _ _ => rfl, fun _ _ _ => rfl, fun _ _ _ => rfl⟩

def mapTerms (P : Var → Var) (ts : Terms) : Terms := ts.map fun t => (t.1, P t.2)
def Row.mapVars (P : Var → Var) (r : Row) : Row := { r with terms := mapTerms P r.terms }
def Col.mapVars (P : Var → Var) (c : Col) : Col := { c with v := P c.v }

theorem c05_evalTerms_comp (a : Asg) (P : Var → Var) (ts : Terms) :
    evalTerms (a ∘ P) ts = evalTerms a (mapTerms P ts) := by
  simp [evalTerms, mapTerms, List.map_map, Function.comp_def]

theorem c05_row_holds_comp (a : Asg) (P : Var → Var) (r : Row) :
    r.holds (a ∘ P) ↔ (r.mapVars P).holds a := by
  simp only [Row.holds, Row.mapVars, c05_evalTerms_comp]

theorem c05_col_holds_comp (a : Asg) (P : Var → Var) (c : Col) :
    c.holds (a ∘ P) ↔ (c.mapVars P).holds a := by
  simp only [Col.holds, Col.mapVars, Function.comp]

/-- two rows with the same bounds whose left-hand sides evaluate alike -/
theorem c05_row_holds_of_eval_eq (a : Asg) (r r' : Row) (hlo : r.lo = r'.lo) (hhi : r.hi = r'.hi)
    (he : evalTerms a r.terms = evalTerms a r'.terms) (h : r'.holds a) : r.holds a := by
  simp only [Row.holds] at h ⊢
  rw [hlo, hhi, he]; exact h

/-! ## `_encode_walks`, layer by layer -/

section Enc
variable (s : STGraph) (c : WalkCfg) (ub : Edge → Rat)

def encColsAt (i : Nat) : List Col :=
  (s.g.edges.map fun e => ({ v := edgeVar e i, lb := 0, ub := some (ub e), isInt := true } : Col))
  ++ (s.g.nodes.map fun v => ({ v := distVar v i, lb := 0, ub := some (s.g.nodes.length : Rat), isInt := true } : Col))
  ++ (s.g.edges.map fun e => ({ v := selVar e i, lb := 0, ub := some 1, isInt := true } : Col))

def encRowsAt (i : Nat) : List Row :=
  let g := s.g
  let nN : Rat := g.nodes.length
  let bigM : Rat := nN + 1
  let inner := g.nodes.filter fun v => v ≠ s.source ∧ v ≠ s.sink
  let nonSource := g.nodes.filter fun v => v ≠ s.source
  [ let ts := ones (g.succ s.source) (fun v => edgeVar (s.source, v) i)
    if c.allowEmpty then rowLe ts 1 else rowEq ts 1 ]
  ++ (inner.map fun v =>
        rowEq (ones (g.pred v) (fun u => edgeVar (u, v) i)
               ++ negTerms (ones (g.succ v) (fun w => edgeVar (v, w) i))) 0)
  ++ (g.edges.map fun e => rowGe [(1, edgeVar e i), (-1, selVar e i)] 0)
  ++ (nonSource.flatMap fun v =>
        let mv : Rat := ((g.pred v).map fun u => ub (u, v)).sum
        [ rowLe (ones (g.pred v) (fun u => edgeVar (u, v) i)
                 ++ (g.pred v).map (fun u => (-mv, selVar (u, v) i))) 0,
          rowLe (ones (g.pred v) (fun u => selVar (u, v) i)) 1 ])
  ++ [rowEq [(1, distVar s.source i)] 1]
  ++ (g.edges.map fun e =>
        rowGe [(1, distVar e.2 i), (-1, distVar e.1 i), (-bigM, selVar e i)] (1 - bigM))

theorem mem_encCols (col : Col) :
    col ∈ (encodeWalks s c ub).cols ↔ ∃ i, i < c.k ∧ col ∈ encColsAt s ub i := by
  simp only [encodeWalks, encColsAt, List.mem_append, List.mem_flatMap, List.mem_range]
  constructor
  · rintro ((⟨i, hi, h⟩ | ⟨i, hi, h⟩) | ⟨i, hi, h⟩)
    · exact ⟨i, hi, Or.inl (Or.inl h)⟩
    · exact ⟨i, hi, Or.inl (Or.inr h)⟩
    · exact ⟨i, hi, Or.inr h⟩
  · rintro ⟨i, hi, (h | h) | h⟩
    · exact Or.inl (Or.inl ⟨i, hi, h⟩)
    · exact Or.inl (Or.inr ⟨i, hi, h⟩)
    · exact Or.inr ⟨i, hi, h⟩

theorem mem_encRows (r : Row) :
    r ∈ (encodeWalks s c ub).rows ↔ ∃ i, i < c.k ∧ r ∈ encRowsAt s c ub i := by
  simp only [encodeWalks, encRowsAt, List.mem_append, List.mem_flatMap, List.mem_map, List.mem_range,
    List.mem_singleton]
  constructor
  · rintro (((((⟨i, hi, h⟩ | ⟨i, hi, h⟩) | ⟨i, hi, h⟩) | ⟨i, hi, h⟩) | ⟨i, hi, h⟩) | ⟨i, hi, h⟩)
    · exact ⟨i, hi, Or.inl (Or.inl (Or.inl (Or.inl (Or.inl h.symm))))⟩
    · exact ⟨i, hi, Or.inl (Or.inl (Or.inl (Or.inl (Or.inr h))))⟩
    · exact ⟨i, hi, Or.inl (Or.inl (Or.inl (Or.inr h)))⟩
    · exact ⟨i, hi, Or.inl (Or.inl (Or.inr h))⟩
    · exact ⟨i, hi, Or.inl (Or.inr h.symm)⟩
    · exact ⟨i, hi, Or.inr h⟩
  · rintro ⟨i, hi, ((((h | h) | h) | h) | h) | h⟩
    · exact Or.inl (Or.inl (Or.inl (Or.inl (Or.inl ⟨i, hi, h.symm⟩))))
    · exact Or.inl (Or.inl (Or.inl (Or.inl (Or.inr ⟨i, hi, h⟩))))
    · exact Or.inl (Or.inl (Or.inl (Or.inr ⟨i, hi, h⟩)))
    · exact Or.inl (Or.inl (Or.inr ⟨i, hi, h⟩))
    · exact Or.inl (Or.inr ⟨i, hi, h.symm⟩)
    · exact Or.inr ⟨i, hi, h⟩

theorem encColsAt_map (π : Nat → Nat) (P : Var → Var) (hP : IsLayerRenaming π P) (i : Nat) :
    (encColsAt s ub i).map (Col.mapVars P) = encColsAt s ub (π i) := by
  simp [encColsAt, Col.mapVars, hP.uvi, hP.vi, edgeVar, distVar, selVar, Function.comp_def]

theorem encRowsAt_map (π : Nat → Nat) (P : Var → Var) (hP : IsLayerRenaming π P) (i : Nat) :
    (encRowsAt s c ub i).map (Row.mapVars P) = encRowsAt s c ub (π i) := by
  by_cases h : c.allowEmpty = true <;>
    simp [h, encRowsAt, List.map_flatMap, Row.mapVars, mapTerms, hP.uvi, hP.vi, edgeVar, selVar, distVar, ones,
      negTerms, rowLe, rowEq, rowGe, Function.comp_def]

/-- **T1 for `_encode_walks`** -/
theorem encodeWalks_perm (a : Asg) (π : LayerPerm c.k) (P : Var → Var) (hP : IsLayerRenaming π.fwd P)
    (h : Sat a (encodeWalks s c ub)) : Sat (a ∘ P) (encodeWalks s c ub) := by
  constructor
  · intro col hcol
    obtain ⟨i, hi, hc⟩ := (mem_encCols s c ub col).1 hcol
    rw [c05_col_holds_comp]
    apply h.1
    apply (mem_encCols s c ub _).2
    refine ⟨π.fwd i, π.fwd_lt i hi, ?_⟩
    rw [← encColsAt_map s ub π.fwd P hP]
    exact List.mem_map_of_mem hc
  · intro r hr
    obtain ⟨i, hi, hc⟩ := (mem_encRows s c ub r).1 hr
    rw [c05_row_holds_comp]
    apply h.2
    apply (mem_encRows s c ub _).2
    refine ⟨π.fwd i, π.fwd_lt i hi, ?_⟩
    rw [← encRowsAt_map s c ub π.fwd P hP]
    exact List.mem_map_of_mem hc

/-! ## `_encode_subset_constraints`, layer by layer -/

def subColsAt (i : Nat) : List Col :=
  ((List.range c.constraints.length).map fun j => ({ v := rVar i j, lb := 0, ub := some 1, isInt := true } : Col))
  ++ (s.g.edges.map fun e => ({ v := usedVar e i, lb := 0, ub := some 1, isInt := true } : Col))

def subRowsAt (i : Nat) : List Row :=
  (s.g.edges.flatMap fun e =>
    [ rowLe [(1, usedVar e i), (-1, edgeVar e i)] 0,
      rowLe [(1, edgeVar e i), (-(ub e), usedVar e i)] 0 ])
  ++ (((List.range c.constraints.length).zip c.constraints).map fun (j, con) =>
        let asSet := con.eraseDups
        rowGe (ones asSet (fun e => usedVar e i)
               ++ [(-((asSet.length : Rat) * c.coverage), rVar i j)]) 0)

theorem mem_subCols (hne : c.constraints.isEmpty = false) (col : Col) :
    col ∈ (subsetBlock s c ub).cols ↔ ∃ i, i < c.k ∧ col ∈ subColsAt s c i := by
  unfold subsetBlock
  rw [if_neg (by simp [hne])]
  simp only [subColsAt, List.mem_append, List.mem_flatMap, List.mem_range]
  constructor
  · rintro (⟨i, hi, h⟩ | ⟨i, hi, h⟩)
    · exact ⟨i, hi, Or.inl h⟩
    · exact ⟨i, hi, Or.inr h⟩
  · rintro ⟨i, hi, h | h⟩
    · exact Or.inl ⟨i, hi, h⟩
    · exact Or.inr ⟨i, hi, h⟩

theorem mem_subRows (hne : c.constraints.isEmpty = false) (r : Row) :
    r ∈ (subsetBlock s c ub).rows ↔ (∃ i, i < c.k ∧ r ∈ subRowsAt s c ub i) ∨
      ∃ j, j < c.constraints.length ∧ r = rowGe (ones (List.range c.k) (fun i => rVar i j)) 1 := by
  unfold subsetBlock
  rw [if_neg (by simp [hne])]
  simp only [subRowsAt, List.mem_append, List.mem_flatMap, List.mem_range, List.mem_map]
  constructor
  · rintro ((⟨i, hi, h⟩ | ⟨i, hi, h⟩) | ⟨j, hj, h⟩)
    · exact Or.inl ⟨i, hi, Or.inl h⟩
    · exact Or.inl ⟨i, hi, Or.inr h⟩
    · exact Or.inr ⟨j, hj, h.symm⟩
  · rintro (⟨i, hi, h | h⟩ | ⟨j, hj, h⟩)
    · exact Or.inl (Or.inl ⟨i, hi, h⟩)
    · exact Or.inl (Or.inr ⟨i, hi, h⟩)
    · exact Or.inr ⟨j, hj, h.symm⟩

theorem subColsAt_map (π : Nat → Nat) (P : Var → Var) (hP : IsLayerRenaming π P) (i : Nat) :
    (subColsAt s c i).map (Col.mapVars P) = subColsAt s c (π i) := by
  simp [subColsAt, Col.mapVars, hP.uvi, hP.ij, rVar, usedVar, Function.comp_def]

theorem subRowsAt_map (π : Nat → Nat) (P : Var → Var) (hP : IsLayerRenaming π P) (i : Nat) :
    (subRowsAt s c ub i).map (Row.mapVars P) = subRowsAt s c ub (π i) := by
  simp [subRowsAt, List.map_flatMap, Row.mapVars, mapTerms, hP.uvi, hP.ij, rVar, usedVar, edgeVar, ones,
    rowLe, rowGe, Function.comp_def]

/-- a row `Σ_{i<k} x(.., i) ⋈ b` under a renaming of the layers -/
theorem sumRow_perm (a : Asg) (π : LayerPerm c.k) (P : Var → Var) (f : Nat → Var)
    (hf : ∀ i, P (f i) = f (π.fwd i)) (r : Row)
    (hr : r.terms = ones (List.range c.k) f) (h : r.holds a) : r.holds (a ∘ P) := by
  rw [c05_row_holds_comp]
  apply c05_row_holds_of_eval_eq a (r.mapVars _) r rfl rfl _ h
  show evalTerms a (mapTerms _ r.terms) = evalTerms a r.terms
  rw [hr]
  have : mapTerms P (ones (List.range c.k) f) = ones (List.range c.k) (fun i => f (π.fwd i)) := by
    simp [mapTerms, ones, hf]
  rw [this, evalTerms_ones, evalTerms_ones]
  exact c05_sum_range_perm π (fun i => a (f i))

/-- **T1 for `_encode_subset_constraints`** -/
theorem subsetBlock_perm (a : Asg) (π : LayerPerm c.k) (P : Var → Var) (hP : IsLayerRenaming π.fwd P)
    (h : Sat a (subsetBlock s c ub)) : Sat (a ∘ P) (subsetBlock s c ub) := by
  by_cases hne : c.constraints.isEmpty = true
  · have : subsetBlock s c ub = {} := by simp [subsetBlock, hne]
    rw [this]
    exact ⟨fun _ hc => by simp at hc, fun _ hr => by simp at hr⟩
  have hne' : c.constraints.isEmpty = false := by simpa using hne
  constructor
  · intro col hcol
    obtain ⟨i, hi, hc⟩ := (mem_subCols s c ub hne' col).1 hcol
    rw [c05_col_holds_comp]
    apply h.1
    apply (mem_subCols s c ub hne' _).2
    refine ⟨π.fwd i, π.fwd_lt i hi, ?_⟩
    rw [← subColsAt_map s c π.fwd P hP]
    exact List.mem_map_of_mem hc
  · intro r hr
    rcases (mem_subRows s c ub hne' r).1 hr with ⟨i, hi, hc⟩ | ⟨j, hj, rfl⟩
    · rw [c05_row_holds_comp]
      apply h.2
      apply (mem_subRows s c ub hne' _).2
      refine Or.inl ⟨π.fwd i, π.fwd_lt i hi, ?_⟩
      rw [← subRowsAt_map s c ub π.fwd P hP]
      exact List.mem_map_of_mem hc
    · apply sumRow_perm c a π P (fun i => rVar i j) (fun i => hP.ij _ _ _) _ rfl
      exact h.2 _ ((mem_subRows s c ub hne' _).2 (Or.inr ⟨j, hj, rfl⟩))

/-- **T1 (`layer_perm_invariant`) for `create_solver_and_walks` without safety options** -/
theorem walkCore_perm (a : Asg) (π : LayerPerm c.k) (P : Var → Var) (hP : IsLayerRenaming π.fwd P)
    (h : Sat a (walkCore s c ub)) : Sat (a ∘ P) (walkCore s c ub) := by
  unfold walkCore at h ⊢
  have h1 := encodeWalks_perm s c ub a π P hP (sat_append_left a _ _ h)
  have h2 := subsetBlock_perm s c ub a π P hP (sat_append_right a _ _ h)
  exact ⟨fun col hc => (List.mem_append.1 hc).elim (h1.1 col) (h2.1 col),
         fun r hr => (List.mem_append.1 hr).elim (h1.2 r) (h2.2 r)⟩

end Enc

/-- the value of a layer-symmetric linear objective `Σ_e Σ_{i<k} x(e,i)` does not change -/
theorem edgeSum_perm (a : Asg) (k : Nat) (π : LayerPerm k) (P : Var → Var) (hP : IsLayerRenaming π.fwd P)
    (es : List Edge) :
    evalTerms (a ∘ P) (es.flatMap fun e => (List.range k).map fun i => ((1 : Rat), edgeVar e i))
      = evalTerms a (es.flatMap fun e => (List.range k).map fun i => ((1 : Rat), edgeVar e i)) := by
  induction es with
  | nil => rfl
  | cons e es ih =>
    simp only [List.flatMap_cons, evalTerms_append, ih]
    congr 1
    have h1 := evalTerms_ones (a ∘ P) (List.range k) (fun i => edgeVar e i)
    have h2 := evalTerms_ones a (List.range k) (fun i => edgeVar e i)
    unfold ones at h1 h2
    rw [h1, h2]
    have h3 : ∀ i, (a ∘ P) (edgeVar e i) = a (edgeVar e (π.fwd i)) := fun i => by
      show a (P (edgeVar e i)) = _
      unfold edgeVar; rw [hP.uvi]
    simp only [h3]
    exact c05_sum_range_perm π (fun i => a (edgeVar e i))

/-- **T1 for `kPathCoverCycles`** (safety options off): feasibility and the objective value -/
theorem kcovercLP_perm (inp : WalkInput) (a : Asg) (π : LayerPerm inp.k) (P : Var → Var)
    (hP : IsLayerRenaming π.fwd P) (h : Sat a (kcovercLP inp)) :
    Sat (a ∘ P) (kcovercLP inp) ∧
    evalTerms (a ∘ P) (kcovercLP inp).obj = evalTerms a (kcovercLP inp).obj := by
  refine ⟨?_, edgeSum_perm a inp.k π P hP _⟩
  unfold kcovercLP at h ⊢
  have h1 := walkCore_perm inp.st inp.cfg _ a π P hP (sat_append_left a _ _ h)
  have h2 := sat_append_right a _ _ h
  refine ⟨fun col hc => (List.mem_append.1 hc).elim (h1.1 col) (fun hc' => by simp at hc'), fun r hr => ?_⟩
  rcases List.mem_append.1 hr with hr' | hr'
  · exact h1.2 r hr'
  · obtain ⟨e, he, rfl⟩ := List.mem_map.1 hr'
    apply sumRow_perm inp.cfg a π P (fun i => edgeVar e i) (fun i => hP.uvi _ _ _ _) _ rfl
    exact h2.2 _ (List.mem_map.2 ⟨e, he, rfl⟩)

end FP
