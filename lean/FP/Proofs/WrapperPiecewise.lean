import FP.Proofs.WrapperBase
/-!
# Proofs for `piecewise` (piecewise-constant constraint with big-M)
-/
namespace FP

theorem mem_zip3 (ranges : List (Rat × Rat)) (constants : List Rat)
    (hlen : ranges.length = constants.length) (t : Nat × (Rat × Rat) × Rat) :
    t ∈ (List.range ranges.length).zip (ranges.zip constants) ↔
      ∃ i, ∃ hi : i < ranges.length, t = (i, ranges[i], constants[i]'(hlen ▸ hi)) := by
  rw [List.mem_iff_getElem]
  constructor
  · rintro ⟨k, hk, rfl⟩
    have hk' : k < ranges.length := by
      simp only [List.length_zip, List.length_range] at hk; omega
    exact ⟨k, hk', by simp [List.getElem_zip]⟩
  · rintro ⟨i, hi, rfl⟩
    have hlt : i < ((List.range ranges.length).zip (ranges.zip constants)).length := by
      simp only [List.length_zip, List.length_range]; omega
    exact ⟨i, hlt, by simp [List.getElem_zip]⟩

/-- the four rows of one block -/
def pwBlock (x y : Var) (M My : Rat) (name : String) (t : Nat × (Rat × Rat) × Rat) : List Row :=
  [ rowGe [(1, x), (-M, zVar name t.1)] (t.2.1.1 - M),
    rowLe [(1, x), (M, zVar name t.1)] (t.2.1.2 + M),
    rowLe [(1, y), (My, zVar name t.1)] (t.2.2 + My),
    rowGe [(1, y), (-My, zVar name t.1)] (t.2.2 - My) ]

theorem piecewise_rows (x y : Var) (ranges : List (Rat × Rat)) (constants : List Rat) (name : String) :
    (piecewise x y ranges constants name).rows =
      [rowEq ((List.range ranges.length).map (fun i => ((1:Rat), zVar name i))) 1]
      ++ ((List.range ranges.length).zip (ranges.zip constants)).flatMap
          (pwBlock x y (bigM ranges) (bigMy constants) name) := rfl

theorem pwBlock_holds (a : Asg) (x y : Var) (M My : Rat) (name : String)
    (t : Nat × (Rat × Rat) × Rat) :
    (∀ r ∈ pwBlock x y M My name t, r.holds a) ↔
      (t.2.1.1 - M ≤ a x + -M * a (zVar name t.1) ∧ a x + M * a (zVar name t.1) ≤ t.2.1.2 + M ∧
       a y + My * a (zVar name t.1) ≤ t.2.2 + My ∧ t.2.2 - My ≤ a y + -My * a (zVar name t.1)) := by
  simp only [pwBlock, List.mem_cons, List.not_mem_nil, or_false, forall_eq_or_imp, forall_eq,
    Row.holds, rowLe, rowGe, evalTerms, List.map, List.sum_cons, List.sum_nil]
  simp [Rat.add_zero]

theorem exists_one_of_sum (l : List Nat) (f : Nat → Rat) (h01 : ∀ i ∈ l, f i = 0 ∨ f i = 1)
    (hs : (l.map (fun i => (1:Rat) * f i)).sum = 1) : ∃ i ∈ l, f i = 1 := by
  apply Classical.byContradiction
  intro hne
  have h0 : ∀ i ∈ l, (1:Rat) * f i = 0 := by
    intro i hi
    rcases h01 i hi with h | h
    · rw [h]; grind
    · exact absurd ⟨i, hi, h⟩ hne
  rw [sum_map_congr l _ (fun _ => 0) h0] at hs
  have : (l.map (fun _ => (0:Rat))).sum = 0 := by
    clear hs h0 hne h01
    induction l with
    | nil => rfl
    | cons x xs ih => simp [ih, Rat.add_zero]
  rw [this] at hs
  exact absurd hs (by decide)

theorem sum_indicator (j : Nat) : ∀ n,
    ((List.range n).map (fun i => (1:Rat) * (if i = j then 1 else 0))).sum = if j < n then 1 else 0 := by
  intro n
  induction n with
  | zero => simp
  | succ n ih =>
    rw [List.range_succ, List.map_append, List.sum_append, ih]
    simp only [List.map_cons, List.map_nil, List.sum_cons, List.sum_nil]
    by_cases h1 : j < n
    · have : n ≠ j := by omega
      have : j < n + 1 := by omega
      simp [*, Rat.add_zero]
    · by_cases h2 : n = j
      · subst h2; simp [Rat.add_zero, Rat.zero_add]
      · have : ¬ j < n + 1 := by omega
        simp [*, Rat.add_zero]

theorem foldl_max_ge (l : List Rat) : ∀ acc, acc ≤ l.foldl max acc ∧ ∀ x ∈ l, x ≤ l.foldl max acc := by
  induction l with
  | nil => intro acc; simp
  | cons y ys ih =>
    intro acc
    have := ih (max acc y)
    simp only [List.foldl_cons, List.mem_cons]
    refine ⟨by grind, ?_⟩
    intro x hx
    rcases hx with rfl | hx
    · grind
    · exact this.2 x hx

theorem foldl_min_le (l : List Rat) : ∀ acc, l.foldl min acc ≤ acc ∧ ∀ x ∈ l, l.foldl min acc ≤ x := by
  induction l with
  | nil => intro acc; simp
  | cons y ys ih =>
    intro acc
    have := ih (min acc y)
    simp only [List.foldl_cons, List.mem_cons]
    refine ⟨by grind, ?_⟩
    intro x hx
    rcases hx with rfl | hx
    · grind
    · exact this.2 x hx

theorem le_listMax (l : List Rat) (x : Rat) (h : x ∈ l) : x ≤ listMax l := (foldl_max_ge l _).2 x h
theorem listMin_le (l : List Rat) (x : Rat) (h : x ∈ l) : listMin l ≤ x := (foldl_min_le l _).2 x h

theorem piecewise_sound_proof (a : Asg) (x y : Var) (ranges : List (Rat × Rat)) (constants : List Rat)
    (name : String) (hlen : ranges.length = constants.length)
    (_hLU : ∀ r ∈ ranges, r.1 ≤ r.2)
    (h : Sat a (piecewise x y ranges constants name)) :
    ∃ i, ∃ hi : i < ranges.length, (ranges[i]).1 ≤ a x ∧ a x ≤ (ranges[i]).2 ∧
      a y = constants[i]'(hlen ▸ hi) := by
  obtain ⟨hcols, hrows⟩ := h
  rw [piecewise_rows] at hrows
  have hz : ∀ i ∈ List.range ranges.length, a (zVar name i) = 0 ∨ a (zVar name i) = 1 := by
    intro i hi
    have := hcols { v := zVar name i, lb := 0, ub := some 1, isInt := true }
      (List.mem_map.2 ⟨i, hi, rfl⟩)
    obtain ⟨h0, h1, hz⟩ := this
    exact int01 _ h0 (h1 1 rfl) (hz rfl)
  have hsum := hrows _ (List.mem_append_left _ (List.mem_singleton.2 rfl))
  simp only [Row.holds, rowEq, evalTerms_map] at hsum
  have hsum' : ((List.range ranges.length).map (fun i => (1:Rat) * a (zVar name i))).sum = 1 :=
    Rat.le_antisymm (hsum.2 1 rfl) (hsum.1 1 rfl)
  obtain ⟨i, hi, hzi⟩ := exists_one_of_sum _ _ hz hsum'
  have hi' : i < ranges.length := List.mem_range.1 hi
  refine ⟨i, hi', ?_⟩
  have hb := (pwBlock_holds a x y (bigM ranges) (bigMy constants) name (i, ranges[i], constants[i]'(hlen ▸ hi'))).1
    (fun r hr => hrows r (List.mem_append_right _
      (List.mem_flatMap.2 ⟨_, (mem_zip3 ranges constants hlen _).2 ⟨i, hi', rfl⟩, hr⟩)))
  simp only [hzi] at hb
  grind

def pwAsg (a : Asg) (name : String) (j : Nat) : Asg := fun v =>
  match v with
  | .ix pfx i => if pfx = "z_" ++ name then (if i = j then 1 else 0) else a v
  | v => a v

theorem pwAsg_z (a : Asg) (name : String) (j i : Nat) :
    pwAsg a name j (zVar name i) = if i = j then 1 else 0 := by
  simp [pwAsg, zVar]

theorem pwAsg_other (a : Asg) (name : String) (j : Nat) (v : Var) (hv : ∀ i, v ≠ zVar name i) :
    pwAsg a name j v = a v := by
  cases v with
  | ix pfx i =>
    have h1 : pfx ≠ "z_" ++ name := by
      intro h; exact hv i (by simp [zVar, h])
    simp [pwAsg, h1]
  | _ => rfl

theorem piecewise_complete_proof (a : Asg) (x y : Var) (ranges : List (Rat × Rat))
    (constants : List Rat) (name : String) (hlen : ranges.length = constants.length)
    (hLU : ∀ r ∈ ranges, r.1 ≤ r.2) (j : Nat) (hj : j < ranges.length)
    (hx : (ranges[j]).1 ≤ a x ∧ a x ≤ (ranges[j]).2) (hy : a y = constants[j]'(hlen ▸ hj))
    (hfresh : ∀ i, zVar name i ≠ x ∧ zVar name i ≠ y) :
    ∃ a' : Asg, (∀ v, (∀ i, v ≠ zVar name i) → a' v = a v) ∧
      Sat a' (piecewise x y ranges constants name) := by
  refine ⟨pwAsg a name j, pwAsg_other a name j, ?_⟩
  have hxx : pwAsg a name j x = a x := pwAsg_other _ _ _ _ (fun i => (hfresh i).1.symm)
  have hyy : pwAsg a name j y = a y := pwAsg_other _ _ _ _ (fun i => (hfresh i).2.symm)
  have hmin : ∀ i (hi : i < ranges.length), listMin (ranges.map (·.1)) ≤ ranges[i].1 :=
    fun i hi => listMin_le _ _ (List.mem_map.2 ⟨ranges[i], List.getElem_mem hi, rfl⟩)
  have hmax : ∀ i (hi : i < ranges.length), ranges[i].2 ≤ listMax (ranges.map (·.2)) :=
    fun i hi => le_listMax _ _ (List.mem_map.2 ⟨ranges[i], List.getElem_mem hi, rfl⟩)
  have hcmin : ∀ i (hi : i < constants.length), listMin constants ≤ constants[i] :=
    fun i hi => listMin_le _ _ (List.getElem_mem hi)
  have hcmax : ∀ i (hi : i < constants.length), constants[i] ≤ listMax constants :=
    fun i hi => le_listMax _ _ (List.getElem_mem hi)
  constructor
  · intro col hcol
    obtain ⟨i, _, rfl⟩ := List.mem_map.1 hcol
    simp only [Col.holds, pwAsg_z]
    by_cases hij : i = j
    · simp only [hij, if_true]
      exact ⟨by decide, fun u hu => by cases hu; exact Rat.le_refl, fun _ => ⟨1, rfl⟩⟩
    · simp only [hij, if_false]
      exact ⟨Rat.le_refl, fun u hu => by cases hu; decide, fun _ => ⟨0, rfl⟩⟩
  · intro r hr
    rw [piecewise_rows] at hr
    rcases List.mem_append.1 hr with h | h
    · rw [List.mem_singleton.1 h]
      simp only [Row.holds, rowEq, evalTerms_map, pwAsg_z, sum_indicator, hj, if_true]
      constructor <;> intro u hu <;> cases hu <;> exact Rat.le_refl
    · obtain ⟨t, ht, hrt⟩ := List.mem_flatMap.1 h
      obtain ⟨i, hi, rfl⟩ := (mem_zip3 ranges constants hlen t).1 ht
      refine (pwBlock_holds (pwAsg a name j) x y (bigM ranges) (bigMy constants) name _).2 ?_ r hrt
      simp only [pwAsg_z, hxx, hyy]
      by_cases hij : i = j
      · subst hij
        simp only [if_true]
        grind
      · simp only [hij, if_false]
        have h1 := hmin i hi
        have h2 := hmax i hi
        have h3 := hmin j hj
        have h4 := hmax j hj
        have h5 := hLU _ (List.getElem_mem hi)
        have h6 := hcmin i (hlen ▸ hi)
        have h7 := hcmax i (hlen ▸ hi)
        have h8 := hcmin j (hlen ▸ hj)
        have h9 := hcmax j (hlen ▸ hj)
        simp only [bigM, bigMy]
        grind

/-- the user part of the regression instance: `x = 1/2`, everything else `0` -/
def farAsg : Asg := fun v => if v = .ix "x" 0 then 1/2 else 0

theorem farAsg_x : farAsg (.ix "x" 0) = 1/2 := by simp [farAsg]
theorem farAsg_y : farAsg (.ix "y" 0) = 0 := by simp [farAsg]

theorem piecewise_far_constants_feasible_proof :
    ∃ a : Asg, a (.ix "x" 0) = 1/2 ∧ a (.ix "y" 0) = 0 ∧
      Sat a (piecewise (.ix "x" 0) (.ix "y" 0) [(0,1),(2,3)] [0,100] "f") := by
  have hzx : ∀ i, Var.ix "x" 0 ≠ zVar "f" i := by intro i; simp [zVar]
  have hzy : ∀ i, Var.ix "y" 0 ≠ zVar "f" i := by intro i; simp [zVar]
  obtain ⟨a', hfr, hsat⟩ := piecewise_complete_proof farAsg (.ix "x" 0) (.ix "y" 0)
    [(0,1),(2,3)] [0,100] "f" rfl
    (by intro r hr; simp at hr; rcases hr with rfl | rfl <;> decide)
    0 (by decide) (by rw [farAsg_x]; simp only [List.getElem_cons_zero]; grind) (by rw [farAsg_y]; rfl)
    (fun i => ⟨(hzx i).symm, (hzy i).symm⟩)
  exact ⟨a', by rw [hfr _ hzx, farAsg_x], by rw [hfr _ hzy, farAsg_y], hsat⟩

end FP
