import FP.Proofs.NodeExpandModesCyc
import FP.Proofs.KFDC
import FP.Proofs.WalkCoreExample
/-!
# FP.Proofs.NodeExpandModesCycWitness — concrete cyclic node-weighted inputs

* `CycExample`: `s → a ⇄ b → t` with the self-loop `a → a` (its expansion is `a.1 → a.0`); the inputs of the
  non-vacuity examples of `FP.Props.C11` and the facts their hypotheses need;
* `LoopCap`: `s → a → t` with the self-loop `a → a`, node values `1, 2, 1`, and the edge attribute `flow = 0` on the
  self-loop: the node branch of `kFlowDecompCycles` caps the copy `(a.1, a.0)` at `0` where the explicit expansion
  caps it at `w_max = 2`; the LP of the node branch has no satisfying assignment, the LP on the explicit expansion has
  one (the walk `s, a, a, t` with weight `1`). Replayed on the real classes by the check
  (finding `C11-cyclic-node-mode-cap-from-edge-attribute`).
-/
namespace FP
namespace NX

/-- upper bound of the column `edge(e, 0)` -/
def nxcCapOf (lp : LP) (e : Edge) : Option (Option Rat) :=
  (lp.cols.find? (fun c => c.v = edgeVar e 0)).map (·.ub)

namespace CycExample

/-- `s → a`, `a → a`, `a → b`, `b → a`, `b → t` -/
def g : Graph :=
  { nodes := ["s", "a", "b", "t"], edges := [("s", "a"), ("a", "a"), ("a", "b"), ("b", "a"), ("b", "t")] }

theorem g_closed : Closed g := by unfold Closed; decide

/-- node values `s:1, a:3, b:1`, `t` without the attribute; the original edges `(s, a)` and `(a, a)` carry an attribute
of the same name: `7` on `(s, a)` (its copy is not inside an SCC) and `6 = w_max` on the self-loop; `b` is ignored; the
constraint is the self-loop given as an edge; additional start `a`, additional end `b`; `k = 2` -/
def exKfdc : NodeModeInput :=
  { nf := { ng := { g := g, nodeFlow := [("s", 1), ("a", 3), ("b", 1)],
                    edgeFlow := [(("s", "a"), 7), (("a", "a"), 6)] },
            ignoreNodes := ["b"], constraints := .edges [[("a", "a")]], k := 2, coverage := 3/4 },
    starts := ["a"], ends := ["b"] }

theorem exKfdc_hef : ∀ p ∈ exKfdc.nf.ng.edgeFlow, p.1 ∈ exKfdc.nf.ng.g.edges := by decide

theorem exKfdc_wmax : (expandWalkInput exKfdc).wmax false = 6 := by decide +kernel

theorem exKfdc_hcap : ∀ x q, exKfdc.nf.ng.edgeFlow.lookup x = some q →
    isSccEdge (expandWalkInput exKfdc).st.g (edgeEdge x) = true →
      q.floor = ((expandWalkInput exKfdc).wmax false).floor := by
  intro x q hl
  have hall : ∀ p ∈ exKfdc.nf.ng.edgeFlow,
      isSccEdge (expandWalkInput exKfdc).st.g (edgeEdge p.1) = true →
        p.2.floor = ((expandWalkInput exKfdc).wmax false).floor := by
    decide +kernel
  exact hall (x, q) (nxc_lookup_mem _ _ _ hl)

theorem exKfdc_accepted : (kfdcNodeLP exKfdc (some [1])).toBool = true := by decide +kernel

/-- the input of the two error classes: the self-loop carries the attribute with value `0`; error scaling on `a` and on
`s` (factor `0`: ignored); the constraint is the node list `a, b` -/
def exErrc : NodeModeInput :=
  { nf := { ng := { g := g, nodeFlow := [("s", 1), ("a", 3), ("b", 1)], edgeFlow := [(("a", "a"), 0)] },
            ignoreNodes := ["b"], constraints := .nodes [["a", "b"]], k := 2, weightInt := true },
    starts := ["a"], ends := ["b"], scaling := [("a", 1/2), ("s", 0)] }

theorem exErrc_hef : ∀ p ∈ exErrc.nf.ng.edgeFlow, p.1 ∈ exErrc.nf.ng.g.edges := by decide

theorem exErrc_hzero : ∀ x q, exErrc.nf.ng.edgeFlow.lookup x = some q → q = 0 := by
  intro x q hl
  have hall : ∀ p ∈ exErrc.nf.ng.edgeFlow, p.2 = 0 := by decide
  exact hall (x, q) (nxc_lookup_mem _ _ _ hl)

theorem exErrc_klaec_accepted : (klaecNodeLP exErrc).toBool = true := by decide +kernel
theorem exErrc_kmpec_accepted : (kmpecNodeLP exErrc).toBool = true := by decide +kernel
theorem exErrc_kcoverc_accepted : (kcovercNodeLP exErrc).toBool = true := by decide +kernel

/-- the self-loop `a → a` expands to `a.1 → a.0`, an SCC edge of the augmented expansion -/
theorem selfloop_copy : edgeEdge ("a", "a") = ("a.1", "a.0") ∧
    ("a.1", "a.0") ∈ (expandGraph g).edges ∧
    isSccEdge (expandWalkInput exKfdc).st.g ("a.1", "a.0") = true := by decide +kernel

end CycExample

namespace LoopCap
open FP.Spec

/-- `s → a → t` with the self-loop `a → a` -/
def g : Graph := { nodes := ["s", "a", "t"], edges := [("s", "a"), ("a", "a"), ("a", "t")] }

theorem g_closed : Closed g := by unfold Closed; decide

/-- node values `1, 2, 1` (the walk `s, a, a, t` with weight `1`); the self-loop carries the edge attribute
`flow = 0`; `k = 1`, integer weights -/
def inp : NodeModeInput :=
  { nf := { ng := { g := g, nodeFlow := [("s", 1), ("a", 2), ("t", 1)], edgeFlow := [(("a", "a"), 0)] },
            weightInt := true, k := 1 } }

/-- what the node branch hands to the edge-level constructor -/
def inpN : WalkInput := nxcTranslated inp inp.nf.ng
/-- the explicit expansion of the property text -/
def inpX : WalkInput := expandWalkInput inp

theorem node_lp : kfdcNodeLP inp none = .ok (kfdcLP inpN none) := by
  have hok : (kfdcNodeInternal inp).toBool = true := by decide +kernel
  unfold kfdcNodeLP
  cases hi : kfdcNodeInternal inp with
  | error e => rw [hi] at hok; cases hok
  | ok wi => rw [nxc_kfdcNodeInternal_ok hi]; rfl

theorem st_eq : inpN.st = inpX.st := rfl

theorem st_edges : inpN.st.g.edges =
    [("s.0", "s.1"), ("s.1", "a.0"), ("a.0", "a.1"), ("a.1", "a.0"), ("a.1", "t.0"), ("t.0", "t.1"),
     ("t.1", "sink"), ("source", "s.0")] := by decide +kernel

/-- **the caps differ**: `0` (the copied edge attribute) on the node branch, `w_max = 2` on the explicit expansion -/
theorem caps : nxcCapOf (kfdcLP inpN none) ("a.1", "a.0") = some (some 0) ∧
    nxcCapOf (kfdcLP inpX none) ("a.1", "a.0") = some (some 2) ∧
    inpN.wmax false = 2 ∧ inpX.wmax false = 2 := by decide +kernel

theorem lp_differs : kfdcLP inpN none ≠ kfdcLP inpX none := by
  intro h
  have h1 := caps.1
  rw [h, caps.2.1] at h1
  exact absurd h1 (by decide +kernel)

/-- the walk `source, s.0, s.1, a.0, a.1, a.0, a.1, t.0, t.1, sink` with weight `1` -/
def asgX : Asg := fun v =>
  if v ∈ [edgeVar ("source", "s.0") 0, edgeVar ("s.0", "s.1") 0, edgeVar ("s.1", "a.0") 0, edgeVar ("a.1", "a.0") 0,
      edgeVar ("a.1", "t.0") 0, edgeVar ("t.0", "t.1") 0, edgeVar ("t.1", "sink") 0,
      selVar ("source", "s.0") 0, selVar ("s.0", "s.1") 0, selVar ("s.1", "a.0") 0, selVar ("a.0", "a.1") 0,
      selVar ("a.1", "t.0") 0, selVar ("t.0", "t.1") 0, selVar ("t.1", "sink") 0,
      distVar "source" 0, weightsVar 0, piVar ("s.0", "s.1") 0, piVar ("t.0", "t.1") 0,
      bitVar (kfdcProdName ("s.0", "s.1") 0) 0, compVar (kfdcProdName ("s.0", "s.1") 0) 0,
      bitVar (kfdcProdName ("t.0", "t.1") 0) 0, compVar (kfdcProdName ("t.0", "t.1") 0) 0,
      bitVar (kfdcProdName ("a.0", "a.1") 0) 1, compVar (kfdcProdName ("a.0", "a.1") 0) 1] then 1
  else if v = edgeVar ("a.0", "a.1") 0 then 2
  else if v = piVar ("a.0", "a.1") 0 then 2
  else if v = distVar "s.0" 0 then 2
  else if v = distVar "s.1" 0 then 3
  else if v = distVar "a.0" 0 then 4
  else if v = distVar "a.1" 0 then 5
  else if v = distVar "t.0" 0 then 6
  else if v = distVar "t.1" 0 then 7
  else if v = distVar "sink" 0 then 8
  else 0

/-- **the LP on the explicit expansion is satisfiable** -/
theorem expansion_feasible : Sat asgX (kfdcLP inpX none) :=
  WalkCoreExample.sat_of_check _ _ (by decide +kernel) (by decide +kernel)

theorem base_wf : BaseWF inpN.base := expansion_wf g g_closed

theorem mem_edges {e : Edge} (h : e ∈ [("s.0", "s.1"), ("s.1", "a.0"), ("a.0", "a.1"), ("a.1", "a.0"), ("a.1", "t.0"),
    ("t.0", "t.1"), ("t.1", "sink"), ("source", "s.0")]) : e ∈ inpN.st.g.edges := by rw [st_edges]; exact h

/-- **the LP of the node branch has no satisfying assignment**: the copy `(a.1, a.0)` of the self-loop is capped at `0`
and `(s.1, a.0)` (outside every SCC) at `1`, so row 17b lets `(a.0, a.1)` be used at most once; its value `2` then forces
the weight `2`, which the value `1` of `(s.0, s.1)` excludes -/
theorem node_infeasible (a : Asg) : ¬ Sat a (kfdcLP inpN none) := by
  intro hsat
  obtain ⟨_, hlayer, hdec⟩ := kfdc_exact_proof inpN none a base_wf hsat
  have hk : (0 : Nat) < inpN.k := by decide
  have henc := sat_enc_of_base (sat_kfdc_base inpN none a hsat)
  have hwf : STWFc inpN.st := augment_wfc inpN.base inpN.starts inpN.ends base_wf
  have hfacts := walkFacts_of_sat hwf.closed henc 0 hk
  have hcons := hfacts.cons "a.0" (by decide +kernel) (by decide) (by decide)
  have hin : inN inpN.st.g (multOf a 0) "a.0" = multOf a 0 ("s.1", "a.0") + multOf a 0 ("a.1", "a.0") := by
    unfold inN
    rw [show inpN.st.g.edges.filter (·.2 = "a.0") = [("s.1", "a.0"), ("a.1", "a.0")] by decide +kernel]
    simp
  have hout : outN inpN.st.g (multOf a 0) "a.0" = multOf a 0 ("a.0", "a.1") := by
    unfold outN
    rw [show inpN.st.g.edges.filter (·.1 = "a.0") = [("a.0", "a.1")] by decide +kernel]
    simp
  rw [hin, hout] at hcons
  obtain ⟨_, _, hc1⟩ := hlayer 0 hk ("s.1", "a.0") (mem_edges (by decide))
  obtain ⟨_, _, hc2⟩ := hlayer 0 hk ("a.1", "a.0") (mem_edges (by decide))
  obtain ⟨htS, _, hcS⟩ := hlayer 0 hk ("s.0", "s.1") (mem_edges (by decide))
  obtain ⟨htA, _, _⟩ := hlayer 0 hk ("a.0", "a.1") (mem_edges (by decide))
  rw [show kfdcCap inpN ("s.1", "a.0") = 1 by decide +kernel] at hc1
  rw [show kfdcCap inpN ("a.1", "a.0") = 0 by decide +kernel] at hc2
  rw [show kfdcCap inpN ("s.0", "s.1") = 1 by decide +kernel] at hcS
  have heS := hdec ("s.0", "s.1") (by decide +kernel)
  have heA := hdec ("a.0", "a.1") (by decide +kernel)
  unfold walkExplained at heS heA
  have hk1 : inpN.k = 1 := rfl
  rw [hk1, show List.range 1 = [0] from rfl] at heS heA
  simp only [List.map_cons, List.map_nil, List.sum_cons, List.sum_nil] at heS heA
  rw [htS, show inpN.f ("s.0", "s.1") = 1 by decide +kernel] at heS
  rw [htA, show inpN.f ("a.0", "a.1") = 2 by decide +kernel] at heA
  have h1 : multOf a 0 ("s.1", "a.0") ≤ 1 := Rat.natCast_le_natCast.1 (by simpa using hc1)
  have h2 : multOf a 0 ("a.1", "a.0") ≤ 0 := Rat.natCast_le_natCast.1 (by simpa using hc2)
  have hS : multOf a 0 ("s.0", "s.1") ≤ 1 := Rat.natCast_le_natCast.1 (by simpa using hcS)
  have hA : multOf a 0 ("a.0", "a.1") = 0 ∨ multOf a 0 ("a.0", "a.1") = 1 := by omega
  have hS' : multOf a 0 ("s.0", "s.1") = 0 ∨ multOf a 0 ("s.0", "s.1") = 1 := by omega
  rcases hA with hA | hA <;> rcases hS' with hS' | hS' <;> rw [hA] at heA <;> rw [hS'] at heS <;>
    simp at heA heS <;> grind

end LoopCap

namespace LoopCapErr

/-- the graph of `LoopCap` with node values `1/2, 3/2, 1/2` (the walk `s, a, a, a, t` with weight `1/2`), float weights,
and the edge attribute `flow = 9` on the self-loop -/
def inp : NodeModeInput :=
  { nf := { ng := { g := LoopCap.g, nodeFlow := [("s", 1/2), ("a", 3/2), ("t", 1/2)], edgeFlow := [(("a", "a"), 9)] },
            weightInt := false, k := 1 } }

def inpN : WalkInput := nxcTranslated inp inp.nf.ng
def inpX : WalkInput := expandWalkInput inp

theorem node_internal : errcNodeInternal inp = .ok inpN := by
  have hok : (errcNodeInternal inp).toBool = true := by decide +kernel
  cases hi : errcNodeInternal inp with
  | error e => rw [hi] at hok; cases hok
  | ok wi => rw [nxc_errcNodeInternal_ok hi]; rfl

/-- `compute_edge_max_reachable_value` reads the copied attribute `9`: every SCC edge of the node branch is capped at
`9`, where the explicit expansion caps it at the floor `1` of the largest node value `3/2` (floored since fix fcfd0b0;
before, the bound was `3/2` itself, on an integer column the same) — the bound `1` lets the node `a` be visited once only,
the bound `9` allows the three visits of the exact solution -/
theorem caps : nxcCapOf (klaecLP inpN) ("a.0", "a.1") = some (some 9) ∧
    nxcCapOf (klaecLP inpX) ("a.0", "a.1") = some (some 1) ∧
    nxcCapOf (kmpecLP inpN) ("a.0", "a.1") = some (some 9) ∧
    nxcCapOf (kmpecLP inpX) ("a.0", "a.1") = some (some 1) := by decide +kernel

theorem klaec_lp_differs : klaecLP inpN ≠ klaecLP inpX := by
  intro h
  have h1 := caps.1
  rw [h, caps.2.1] at h1
  exact absurd h1 (by decide +kernel)

theorem kmpec_lp_differs : kmpecLP inpN ≠ kmpecLP inpX := by
  intro h
  have h1 := caps.2.2.1
  rw [h, caps.2.2.2] at h1
  exact absurd h1 (by decide +kernel)

end LoopCapErr

end NX
end FP
