import FP.Model.SafetyDag
import FP.Proofs.SafetyIdom
import FP.Proofs.SafetyPaths
import FP.Proofs.SafetyReach
/-!
# FP.Proofs.SafetyGraph — from adjacency dicts back to graphs: the dicts built from a `Graph`, reversed walks
-/
namespace FP.Safety
open FP FP.Spec

theorem out_mapAdj (ns : List Node) (f : Node → List Node) (u : Node) (hu : u ∈ ns) :
    out (ns.map fun v => (v, f v)) u = f u := by
  induction ns with
  | nil => simp at hu
  | cons v ns ih =>
    rw [List.map_cons, out_cons]
    by_cases h : u = v
    · simp [h]
    · rw [if_neg h]; exact ih (by simpa [h] using hu)

theorem out_succAdj (g : Graph) (u : Node) (hu : u ∈ g.nodes) : out (succAdj g) u = g.succ u :=
  out_mapAdj g.nodes g.succ u hu

theorem out_predAdj (g : Graph) (u : Node) (hu : u ∈ g.nodes) : out (predAdj g) u = g.pred u :=
  out_mapAdj g.nodes g.pred u hu

theorem isWalkAdj_succ (g : Graph) (hg : GraphWF g) (a b : Node) (w : List Node) (hw : IsSTWalkG g a b w) :
    IsWalkAdj (succAdj g) a b w := by
  refine ⟨?_, hw.first, hw.last⟩
  intro e he
  have heg := hw.walk e he
  rw [out_succAdj g e.1 (hg e heg).1]
  exact mem_succ.2 heg

theorem we_reverse {V : Type} (l : List V) : walkEdges l.reverse = ((walkEdges l).map fun e => (e.2, e.1)).reverse := by
  induction l with
  | nil => rfl
  | cons x l ih =>
    cases l with
    | nil => rfl
    | cons y l =>
      rw [List.reverse_cons, we_concat (y :: l).reverse y x (by simp), ih, we_cons_cons]
      simp

theorem isWalkAdj_pred (g : Graph) (hg : GraphWF g) (a b : Node) (w : List Node) (hw : IsSTWalkG g a b w) :
    IsWalkAdj (predAdj g) b a w.reverse := by
  refine ⟨?_, ?_, ?_⟩
  · intro e he
    rw [we_reverse] at he
    simp only [List.mem_reverse, List.mem_map] at he
    obtain ⟨e', he', rfl⟩ := he
    have heg := hw.walk e' he'
    simp only
    rw [out_predAdj g e'.2 (hg e' heg).2]
    exact mem_pred.2 heg
  · rw [List.head?_reverse]; exact hw.last
  · rw [List.getLast?_reverse]; exact hw.first

theorem mapRes_mem {α β : Type} (f : α → Res β) : ∀ (l : List α) (r : List β), mapRes f l = .ok r →
    ∀ b ∈ r, ∃ a ∈ l, f a = .ok b := by
  intro l
  induction l with
  | nil => intro r h b hb; simp [mapRes] at h; cases h; simp at hb
  | cons a l ih =>
    intro r h b hb
    unfold mapRes at h
    cases hfa : f a with
    | ok b0 =>
      cases hrest : mapRes f l with
      | ok bs =>
        simp only [hfa, hrest, bind, pure] at h
        injection h with h; subst h
        rcases List.mem_cons.1 hb with rfl | hb
        · exact ⟨a, by simp, hfa⟩
        · obtain ⟨a', ha', hf'⟩ := ih bs hrest b hb
          exact ⟨a', List.mem_cons_of_mem _ ha', hf'⟩
      | raises w => simp only [hfa, hrest, bind] at h; cases h
      | fuel => simp only [hfa, hrest, bind] at h; cases h
    | raises w => simp only [hfa, bind] at h; cases h
    | fuel => simp only [hfa, bind] at h; cases h

end FP.Safety
