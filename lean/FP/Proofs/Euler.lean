import FP.Proofs.EulerClosed
/-!
# FP.Proofs.Euler — correctness of the Eulerian-walk reconstruction (Hierholzer)

`reconstruct_euler_main`: under the Eulerian s-t hypotheses the reconstructed walk uses every
edge of the residual graph exactly once and nothing is left over; the fuel supplied by
`reconstructFull` is sufficient.  `reconstruct_nil`: the empty graph gives the empty walk.
-/
namespace FP.Euler
open FP.Spec
variable {V : Type} [DecidableEq V]

/-- invariant of the `while stack:` loop -/
structure SInv (g0 : Adj V) (s t : V) (g : Adj V) (walk stack : List V) : Prop where
  keys : (g.map (·.1)).Nodup
  perm : (edges g0).Perm (walkEdges walk ++ edges g)
  balanced : ∀ x, bal (edges g) x = 0
  head : walk.head? = some s
  last : walk.getLast? = some t
  stackMem : ∀ v ∈ stack, v ∈ walk
  cover : ∀ v ∈ walk, out g v ≠ [] → v ∈ stack

/-- one iteration that pops an exhausted vertex -/
theorem SInv.pop {g0 : Adj V} {s t : V} {g : Adj V} {walk stack : List V} {v : V}
    (h : SInv g0 s t g walk stack) (hv : stack.getLast? = some v) (he : out g v = []) :
    SInv g0 s t g walk stack.dropLast := by
  have hs := getLast?_eq_some_split stack v hv
  refine ⟨h.keys, h.perm, h.balanced, h.head, h.last, ?_, ?_⟩
  · intro x hx; exact h.stackMem x (List.dropLast_subset _ hx)
  · intro x hx hne
    have := h.cover x hx hne
    rw [hs] at this
    rcases List.mem_append.1 this with h1 | h1
    · exact h1
    · simp at h1; subst h1; exact absurd he hne

/-- one iteration that splices a closed walk -/
theorem SInv.closed {g0 : Adj V} {s t : V} {g : Adj V} {walk stack : List V} {v : V} {n : Nat}
    (h : SInv g0 s t g walk stack) (hv : stack.getLast? = some v) (hne : out g v ≠ [])
    (hfuel : 2 * edgeCount g + stack.length ≤ n + 1) :
    SInv g0 s t (closed (n+1) g v v [v] stack.dropLast).1
      (insertAfterFirst walk v (closed (n+1) g v v [v] stack.dropLast).2.1.tail)
      (closed (n+1) g v v [v] stack.dropLast).2.2 ∧
    2 * edgeCount (closed (n+1) g v v [v] stack.dropLast).1 +
      (closed (n+1) g v v [v] stack.dropLast).2.2.length ≤ n := by
  have hs := getLast?_eq_some_split stack v hv
  have hlen : stack.length = stack.dropLast.length + 1 := by
    conv => lhs; rw [hs]
    simp
  have hpos : 0 < edgeCount g := by
    obtain ⟨w, hw⟩ := List.exists_mem_of_ne_nil _ hne
    have := List.length_pos_of_mem (mem_edges_of_mem_out g v w hw)
    rwa [edges_length] at this
  obtain ⟨ext, hext, hlast, h1, h2, h3, h4, h5, h6⟩ :=
    closed_balanced (n+1) g v stack.dropLast h.keys (by omega) h.balanced hne
  have hvw : v ∈ walk := h.stackMem v (by rw [hs]; simp)
  rw [h1, h2, List.tail_cons]
  obtain ⟨a, b, hw, hins⟩ := insertAfterFirst_split walk v ext hvw
  rw [hins]
  have hmem : ∀ x, x ∈ a ++ v :: (ext ++ b) ↔ x ∈ walk ∨ x ∈ ext := by
    intro x; rw [hw]; simp only [List.mem_append, List.mem_cons]
    constructor
    · rintro (h | h | h | h) <;> simp [h]
    · rintro ((h | h | h) | h) <;> simp [h]
  refine ⟨⟨h4, ?_, h5, ?_, ?_, ?_, ?_⟩, ?_⟩
  · -- perm
    have p1 := walkEdges_splice_perm a b ext v hext hlast
    rw [← hw] at p1
    refine h.perm.trans ?_
    refine List.Perm.trans ?_ (List.Perm.append_right _ p1.symm)
    rw [List.append_assoc]
    exact List.Perm.append_left _ h3
  · rw [splice_head?, ← hw]; exact h.head
  · rw [splice_getLast? a b ext v hlast, ← hw]; exact h.last
  · intro x hx
    rw [hmem]
    rcases List.mem_append.1 hx with hx | hx
    · exact Or.inl (h.stackMem x (List.dropLast_subset _ hx))
    · rcases List.mem_cons.1 (List.dropLast_subset _ hx) with rfl | hx
      · exact Or.inl hvw
      · exact Or.inr hx
  · intro x hx hox
    rw [hmem] at hx
    rcases hx with hx | hx
    · -- an out-edge in the new residual is an out-edge in the old one
      have hog : out g x ≠ [] := by
        obtain ⟨w, hw'⟩ := List.exists_mem_of_ne_nil _ hox
        have hmem' := mem_edges_of_mem_out _ x w hw'
        have : (x, w) ∈ edges g := h3.symm.subset (List.mem_append_right _ hmem')
        exact List.ne_nil_of_mem (mem_out_of_mem_edges g x w h.keys this)
      have := h.cover x hx hog
      rw [hs] at this
      rcases List.mem_append.1 this with h' | h'
      · exact List.mem_append_left _ h'
      · simp at h'; subst h'
        exact List.mem_append_right _ (mem_dropLast_of_closed x ext hext hlast x (by simp))
    · exact List.mem_append_right _
        (mem_dropLast_of_closed v ext hext hlast x (List.mem_cons_of_mem _ hx))
  · -- fuel
    have hdl : ((v :: ext).dropLast).length = ext.length := by simp
    rw [List.length_append, hdl]
    omega

theorem splice_spec (g0 : Adj V) (s t : V) :
    ∀ (n : Nat) (g : Adj V) (walk stack : List V), SInv g0 s t g walk stack →
      2 * edgeCount g + stack.length ≤ n →
      SInv g0 s t (splice n g walk stack).1 (splice n g walk stack).2 [] := by
  intro n
  induction n with
  | zero =>
    intro g walk stack h hf
    have : stack = [] := List.eq_nil_of_length_eq_zero (by omega)
    subst this; simpa [splice] using h
  | succ n ih =>
    intro g walk stack h hf
    simp only [splice]
    split
    · rename_i hnone
      have : stack = [] := List.getLast?_eq_none_iff.1 hnone
      subst this; exact h
    · rename_i v hv
      have hs := getLast?_eq_some_split stack v hv
      have hlen : stack.length = stack.dropLast.length + 1 := by
        conv => lhs; rw [hs]
        simp
      split
      · rename_i he
        have he' : out g v = [] := by simpa using he
        exact ih g walk stack.dropLast (h.pop hv he') (by omega)
      · rename_i he
        have hne : out g v ≠ [] := by simpa using he
        have := h.closed (n := n) hv hne hf
        exact ih _ _ _ this.1 this.2

/-- the first phase establishes the loop invariant: it ends at `t`, the residual is balanced, and
the stack is the walk without its last vertex -/
theorem trail_SInv (g : Adj V) (s t : V) (keys : (g.map (·.1)).Nodup) (st : s ≠ t)
    (inner : ∀ x, x ≠ s → x ≠ t → bal (edges g) x = 0)
    (src : bal (edges g) s = 1) (snk : bal (edges g) t = -1) :
    SInv g s t (trail (edgeCount g + 1) g s [s] []).1 (trail (edgeCount g + 1) g s [s] []).2.2.1
      (trail (edgeCount g + 1) g s [s] []).2.2.2 ∧
    2 * edgeCount (trail (edgeCount g + 1) g s [s] []).1 +
      (trail (edgeCount g + 1) g s [s] []).2.2.2.length ≤ 3 * edgeCount g + 2 := by
  have h0 : TrailInv g s g s [s] := ⟨keys, rfl, rfl, by simp [walkEdges]⟩
  have hinv := trail_inv g s (edgeCount g + 1) g s [s] [] h0
  have hstuck := trail_stuck (edgeCount g + 1) g s [s] [] keys (by omega)
  have hstack := trail_stack (edgeCount g + 1) g s [s] [] (by simp)
  simp only at hinv
  generalize trail (edgeCount g + 1) g s [s] [] = r at hinv hstuck hstack
  obtain ⟨g', cur, walk, stack⟩ := r
  simp only at hinv hstuck hstack ⊢
  -- the trail can only be stuck at `t`
  have hcur : cur = t := by
    have hb := stuck_balance g g' s cur walk hinv hstuck
    simp only [ind'] at hb
    by_cases h1 : cur = s
    · subst h1; simp [src] at hb
    · by_cases h2 : cur = t
      · exact h2
      · have := inner cur h1 h2
        have h1' : ¬ s = cur := fun h => h1 h.symm
        simp [h1'] at hb; omega
  subst hcur
  have hbal : ∀ x, bal (edges g') x = 0 := by
    intro x
    have hb := trail_balance g g' s cur walk hinv x
    simp only [ind'] at hb
    by_cases h1 : s = x
    · subst h1
      have h2 : ¬ cur = s := fun h => st h.symm
      simp [h2, src] at hb; omega
    · by_cases h2 : cur = x
      · subst h2; simp [h1, snk] at hb; omega
      · have := inner x (fun h => h1 h.symm) (fun h => h2 h.symm)
        simp [h1, h2, this] at hb; omega
  refine ⟨⟨hinv.keys, hinv.perm, hbal, hinv.head, hinv.last, ?_, ?_⟩, ?_⟩
  · intro v hv; rw [hstack]; exact List.mem_append_left _ hv
  · intro v hv hne
    rw [hstack] at hv
    rcases List.mem_append.1 hv with h | h
    · exact h
    · simp at h; subst h; exact absurd hstuck hne
  · have hl := hinv.perm.length_eq
    rw [List.length_append, edges_length, edges_length, hstack] at hl
    have : (walkEdges (stack ++ [cur])).length = stack.length := by
      simp [walkEdges]
    omega

/-- when the stack is empty, connectivity forces the residual to be empty -/
theorem SInv.residual_nil {g0 : Adj V} {s t : V} {g : Adj V} {walk : List V}
    (h : SInv g0 s t g walk [])
    (conn : ∀ e ∈ edges g0, Reach (edges g0) s e.1) : edges g = [] := by
  have hout : ∀ v ∈ walk, out g v = [] := by
    intro v hv
    by_cases hne : out g v = []
    · exact hne
    · exact absurd (h.cover v hv hne) (by simp)
  have hreach : ∀ z, Reach (edges g0) s z → z ∈ walk := by
    intro z hz
    induction hz with
    | refl =>
      cases walk with
      | nil => have := h.head; simp at this
      | cons x xs => have := h.head; simp at this; simp [this]
    | @step y z _ he ih =>
      rcases List.mem_append.1 (h.perm.subset he) with h1 | h1
      · exact mem_of_mem_walkEdges walk (y, z) h1
      · have := mem_out_of_mem_edges g y z h.keys h1
        rw [hout y ih] at this; simp at this
  apply List.eq_nil_iff_forall_not_mem.2
  intro e he
  have he0 : e ∈ edges g0 := h.perm.symm.subset (List.mem_append_right _ he)
  have hw := hreach e.1 (conn e he0)
  have := mem_out_of_mem_edges g e.1 e.2 h.keys he
  rw [hout e.1 hw] at this; simp at this

omit [DecidableEq V] in
theorem strip_ends (walk : List V) (s t : V) (st : s ≠ t) (hh : walk.head? = some s)
    (hl : walk.getLast? = some t) :
    walk.length ≥ 2 ∧ s :: (walk.drop 1).dropLast ++ [t] = walk := by
  cases walk with
  | nil => simp at hh
  | cons x xs =>
    simp at hh; subst hh
    cases xs with
    | nil => simp at hl; exact absurd hl st
    | cons y ys =>
      have hl' : (y :: ys).getLast? = some t := by simpa [List.getLast?_cons_cons] using hl
      have := getLast?_eq_some_split (y :: ys) t hl'
      refine ⟨by simp, ?_⟩
      simp only [List.drop_one, List.tail_cons, List.cons_append]
      rw [← this]

theorem reconstruct_euler_main (g : Adj V) (s t : V)
    (keys : (g.map (·.1)).Nodup) (skey : s ∈ g.map (·.1))
    (closedKeys : ∀ e ∈ edges g, e.2 ∈ g.map (·.1)) (st : s ≠ t)
    (inner : ∀ x, x ≠ s → x ≠ t → FP.Spec.bal (edges g) x = 0)
    (src : FP.Spec.bal (edges g) s = 1) (snk : FP.Spec.bal (edges g) t = -1)
    (conn : ∀ e ∈ edges g, FP.Spec.Reach (edges g) s e.1) :
    (FP.Spec.walkEdges (s :: reconstruct g s t ++ [t])).Perm (edges g) ∧ remaining g s = 0 := by
  have _ := skey
  have _ := closedKeys
  obtain ⟨h1, h2⟩ := trail_SInv g s t keys st inner src snk
  have h3 := splice_spec g s t (3 * edgeCount g + 2) _ _ _ h1 h2
  have hfull : reconstructFull g s =
      splice (3 * edgeCount g + 2) (trail (edgeCount g + 1) g s [s] []).1
        (trail (edgeCount g + 1) g s [s] []).2.2.1 (trail (edgeCount g + 1) g s [s] []).2.2.2 := rfl
  rw [← hfull] at h3
  have hnil := h3.residual_nil conn
  have hperm := h3.perm
  rw [hnil, List.append_nil] at hperm
  obtain ⟨hlen, hstrip⟩ := strip_ends _ s t st h3.head h3.last
  constructor
  · have : reconstruct g s t = ((reconstructFull g s).2.drop 1).dropLast := by
      simp only [reconstruct]
      rw [if_pos ⟨hlen, h3.head, h3.last⟩]
    rw [this, hstrip]
    exact hperm.symm
  · have := edges_length (reconstructFull g s).1
    rw [hnil] at this
    simp only [remaining]; simpa using this.symm

theorem reconstruct_nil (g : Adj V) (s t : V) (h : edges g = []) : reconstruct g s t = [] := by
  have hout : out g s = [] := by
    apply List.eq_nil_iff_forall_not_mem.2
    intro w hw
    have := mem_edges_of_mem_out g s w hw
    rw [h] at this; simp at this
  have hfull : reconstructFull g s = (g, [s]) := by
    simp [reconstructFull, trail, hout, splice]
  simp [reconstruct, hfull]
end FP.Euler
