import FP.Model.Enc.MSC
import FP.Proofs.LPLemmas
import FP.Spec.GenSet
/-!
# FP.Proofs.MSC — satisfying assignments of `mscLP` are exactly the covers, the objective is the weight
-/
namespace FP.GS
open FP.Spec

/-- value of the objective (without the constant) -/
def objVal (a : Asg) (lp : LP) : Rat := evalTerms a lp.obj

/-- the chosen subsets of an assignment: python `[i for i in range(n) if sol[i] == 1]` -/
def mscChosen (a : Asg) : Nat → Bool := fun i => decide (a (subsetVar i) = 1)

/-- the assignment of a choice of subsets -/
def mscAsg (ch : Nat → Bool) : Asg := fun v =>
  match v with
  | .ix p i => if p = "subset" then (if ch i then 1 else 0) else 0
  | _ => 0

theorem mscAsg_val (ch : Nat → Bool) (i : Nat) : mscAsg ch (subsetVar i) = if ch i then 1 else 0 := by
  simp [mscAsg, subsetVar]

def mscW (inp : MSCInput) : Nat → Rat := fun i => inp.weights.getD i 0

theorem exists_one_of_sum_ge_one {α} (l : List α) (f : α → Rat) (h01 : ∀ x ∈ l, f x = 0 ∨ f x = 1)
    (h : 1 ≤ (l.map f).sum) : ∃ x ∈ l, f x = 1 := by
  induction l with
  | nil => simp at h; exact absurd h (by decide)
  | cons x xs ih =>
    rcases h01 x (List.mem_cons_self ..) with h0 | h1
    · simp only [List.map_cons, List.sum_cons, h0] at h
      obtain ⟨y, hy, hy1⟩ := ih (fun y hy => h01 y (List.mem_cons_of_mem _ hy)) (by grind)
      exact ⟨y, List.mem_cons_of_mem _ hy, hy1⟩
    · exact ⟨x, List.mem_cons_self .., h1⟩

theorem sum_nonneg' {α} (l : List α) (f : α → Rat) (h : ∀ x ∈ l, 0 ≤ f x) : 0 ≤ (l.map f).sum := by
  induction l with
  | nil => simp
  | cons x xs ih =>
    simp only [List.map_cons, List.sum_cons]
    have := h x (List.mem_cons_self ..)
    have := ih (fun y hy => h y (List.mem_cons_of_mem _ hy))
    grind

theorem one_le_sum_of_mem {α} (l : List α) (f : α → Rat) (h : ∀ x ∈ l, 0 ≤ f x) (x : α) (hx : x ∈ l)
    (h1 : f x = 1) : 1 ≤ (l.map f).sum := by
  induction l with
  | nil => simp at hx
  | cons y ys ih =>
    simp only [List.map_cons, List.sum_cons]
    have hy := h y (List.mem_cons_self ..)
    have hys := sum_nonneg' ys f (fun z hz => h z (List.mem_cons_of_mem _ hz))
    rcases List.mem_cons.1 hx with rfl | hm
    · rw [h1]; grind
    · have := ih (fun z hz => h z (List.mem_cons_of_mem _ hz)) hm
      grind

theorem mem_idx (subsets : List (List String)) (i : Nat) (s : List String) :
    (i, s) ∈ (List.range subsets.length).zip subsets ↔ ∃ h : i < subsets.length, subsets[i] = s := by
  constructor
  · intro h
    obtain ⟨m, hm, he⟩ := List.mem_iff_getElem.1 h
    simp only [List.getElem_zip, List.getElem_range, Prod.mk.injEq] at he
    have hm' : m < subsets.length := by simpa using hm
    obtain ⟨rfl, rfl⟩ := he
    exact ⟨hm', rfl⟩
  · rintro ⟨h, rfl⟩
    exact List.mem_iff_getElem.2 ⟨i, by simpa using h, by simp⟩

theorem msc_binary (inp : MSCInput) (a : Asg) (h : Sat a (mscLP inp)) (i : Nat) (hi : i < inp.subsets.length) :
    a (subsetVar i) = 0 ∨ a (subsetVar i) = 1 := by
  have := h.1 { v := subsetVar i, lb := 0, ub := some 1, isInt := true } (by
    simp only [mscLP, List.mem_map]
    exact ⟨(i, inp.subsets[i]), (mem_idx _ _ _).2 ⟨hi, rfl⟩, rfl⟩)
  exact int01 _ this.1 (this.2.1 _ rfl) (this.2.2 rfl)

theorem msc_sound_proof (inp : MSCInput) (a : Asg) (h : Sat a (mscLP inp)) :
    IsCover inp.univ inp.subsets (mscChosen a) := by
  intro el hel
  have hrow := h.2 _ (by simp only [mscLP, List.mem_map]; exact ⟨el, hel, rfl⟩)
  have hlo := hrow.1 1 rfl
  simp only [rowGe] at hlo
  rw [show (List.map (fun x => ((1:Rat), subsetVar x.1))
        (List.filter (fun x => x.2.contains el) ((List.range inp.subsets.length).zip inp.subsets)))
      = (List.filter (fun x => x.2.contains el) ((List.range inp.subsets.length).zip inp.subsets)).map
          (fun x => ((fun _ => (1:Rat)) x, (fun x => subsetVar x.1) x)) from rfl, evalTerms_map] at hlo
  obtain ⟨⟨i, s⟩, hm, h1⟩ := exists_one_of_sum_ge_one _ _ (fun x hx => by
    obtain ⟨hx1, _⟩ := List.mem_filter.1 hx
    obtain ⟨hi, _⟩ := (mem_idx _ x.1 x.2).1 hx1
    rcases msc_binary inp a h x.1 hi with h0 | h1
    · left; rw [h0]; grind
    · right; rw [h1]; grind) hlo
  obtain ⟨hm1, hm2⟩ := List.mem_filter.1 hm
  obtain ⟨hi, rfl⟩ := (mem_idx _ i s).1 hm1
  refine ⟨i, hi, ?_, hm2⟩
  simp only [mscChosen, decide_eq_true_eq]
  have : (1:Rat) * a (subsetVar i) = 1 := h1
  grind

theorem msc_complete_proof (inp : MSCInput) (ch : Nat → Bool) (h : IsCover inp.univ inp.subsets ch) :
    Sat (mscAsg ch) (mscLP inp) := by
  constructor
  · intro c hc
    simp only [mscLP, List.mem_map] at hc
    obtain ⟨⟨i, s⟩, _, rfl⟩ := hc
    simp only [Col.holds, mscAsg_val]
    cases ch i
    · exact ⟨Rat.le_refl, fun u hu => by cases hu; decide, fun _ => ⟨0, rfl⟩⟩
    · exact ⟨by decide, fun u hu => by cases hu; exact Rat.le_refl, fun _ => ⟨1, rfl⟩⟩
  · intro r hr
    simp only [mscLP, List.mem_map] at hr
    obtain ⟨el, hel, rfl⟩ := hr
    refine ⟨?_, fun u hu => by cases hu⟩
    intro l hl
    cases hl
    obtain ⟨i, hi, hch, hcont⟩ := h el hel
    simp only [rowGe]
    rw [show (List.map (fun x => ((1:Rat), subsetVar x.1))
          (List.filter (fun x => x.2.contains el) ((List.range inp.subsets.length).zip inp.subsets)))
        = (List.filter (fun x => x.2.contains el) ((List.range inp.subsets.length).zip inp.subsets)).map
            (fun x => ((fun _ => (1:Rat)) x, (fun x => subsetVar x.1) x)) from rfl, evalTerms_map]
    apply one_le_sum_of_mem _ _ _ (i, inp.subsets[i])
      (List.mem_filter.2 ⟨(mem_idx _ _ _).2 ⟨hi, rfl⟩, hcont⟩)
    · simp only [mscAsg_val, hch]; grind
    · intro x _
      simp only [mscAsg_val]
      cases ch x.1 <;> simp <;> grind

theorem msc_obj_eq (inp : MSCInput) (a : Asg) (ch : Nat → Bool)
    (hv : ∀ i, i < inp.subsets.length → a (subsetVar i) = if ch i then 1 else 0) :
    objVal a (mscLP inp) = coverWeight (mscW inp) inp.subsets.length ch := by
  unfold objVal coverWeight
  simp only [mscLP]
  rw [show (List.map (fun x => (inp.weights.getD x.1 0, subsetVar x.1))
        ((List.range inp.subsets.length).zip inp.subsets))
      = ((List.range inp.subsets.length).zip inp.subsets).map
          (fun x => ((fun x => inp.weights.getD x.1 0) x, (fun x => subsetVar x.1) x)) from rfl, evalTerms_map]
  have hfst : ((List.range inp.subsets.length).zip inp.subsets).map Prod.fst = List.range inp.subsets.length :=
    List.map_fst_zip (by simp)
  conv => rhs; rw [← hfst, List.map_map]
  apply sum_map_congr
  intro x hx
  obtain ⟨hi, _⟩ := (mem_idx _ x.1 x.2).1 hx
  simp only [Function.comp, mscW, hv x.1 hi]
  cases ch x.1 <;> simp <;> grind

theorem msc_obj_of_sat (inp : MSCInput) (a : Asg) (h : Sat a (mscLP inp)) :
    objVal a (mscLP inp) = coverWeight (mscW inp) inp.subsets.length (mscChosen a) := by
  apply msc_obj_eq
  intro i hi
  rcases msc_binary inp a h i hi with h0 | h1
  · simp [mscChosen, h0]
  · simp [mscChosen, h1]

theorem msc_opt_transfer_proof (inp : MSCInput) (a : Asg) (h : Sat a (mscLP inp))
    (hopt : ∀ a', Sat a' (mscLP inp) → objVal a (mscLP inp) ≤ objVal a' (mscLP inp)) :
    IsCover inp.univ inp.subsets (mscChosen a) ∧
      ∀ ch, IsCover inp.univ inp.subsets ch →
        coverWeight (mscW inp) inp.subsets.length (mscChosen a) ≤ coverWeight (mscW inp) inp.subsets.length ch := by
  refine ⟨msc_sound_proof inp a h, fun ch hch => ?_⟩
  have h1 := hopt _ (msc_complete_proof inp ch hch)
  rw [msc_obj_of_sat inp a h, msc_obj_eq inp (mscAsg ch) ch (fun i _ => mscAsg_val ch i)] at h1
  exact h1

end FP.GS
