import FP.Proofs.Cover
/-!
# FP.Proofs.FlowCover — an integral covering flow decomposes into source-to-sink paths (DAG)

`flow_decompose`: on a well-formed s-t DAG, a natural-number valued edge function that is conserved
at the inner nodes and has source out-flow `c` is the sum of the indicators of `c` source-to-sink
paths. Consequently a feasible flow of the min-flow instance (flow ≥ demand) of cost `c` yields a
cover by `c` paths of the edges with positive demand (`flow_to_cover`).
-/
namespace FP
open FP.Spec

theorem natVal_nonneg {y : Edge → Rat} {e : Edge} (h : ∃ n : Nat, y e = n) : 0 ≤ y e := by
  obtain ⟨n, hn⟩ := h
  rw [hn]; exact Rat.natCast_nonneg

theorem natVal_one_le {y : Edge → Rat} {e : Edge} (h : ∃ n : Nat, y e = n) (h0 : y e ≠ 0) :
    ∃ m : Nat, y e = (m : Rat) + 1 := by
  obtain ⟨n, hn⟩ := h
  cases n with
  | zero => rw [hn] at h0; simp at h0
  | succ m => exact ⟨m, by rw [hn, Rat.natCast_add]; simp⟩

/-- from a node with a positive out-edge one reaches the sink along positive edges -/
theorem pos_path {s : STGraph} (hwf : STWF s) (y : Edge → Rat)
    (hy : ∀ e ∈ s.g.edges, ∃ n : Nat, y e = n)
    (hcons : ∀ v ∈ s.g.nodes, v ≠ s.source → v ≠ s.sink → inflow s.g y v = outflow s.g y v)
    (rank : Node → Nat) (hr : ∀ e ∈ s.g.edges, rank e.1 < rank e.2) (n : Nat) :
    ∀ v, (v = s.sink ∨ ∃ e ∈ s.g.edges, e.1 = v ∧ y e ≠ 0) → above s rank v < n →
      ∃ t, (∀ e ∈ walkEdges (v :: t), e ∈ s.g.edges ∧ y e ≠ 0) ∧
        (v :: t).getLast? = some s.sink := by
  induction n with
  | zero => intro v _ h; omega
  | succ n ih =>
    intro v hv hlt
    by_cases hvs : v = s.sink
    · exact ⟨[], by simp [walkEdges_single], by simp [hvs]⟩
    · obtain ⟨e, he, he1, hye⟩ := hv.resolve_left hvs
      obtain ⟨v', w⟩ := e
      simp only at he1
      subst he1
      have hlt' := above_lt hwf rank hr he
      have hnext : w = s.sink ∨ ∃ e' ∈ s.g.edges, e'.1 = w ∧ y e' ≠ 0 := by
        by_cases hws : w = s.sink
        · exact Or.inl hws
        · right
          have hsrc : w ≠ s.source := hwf.srcNoIn _ he
          have hw : w ∈ s.g.nodes := (hwf.closed _ he).2
          have hin : inflow s.g y w ≠ 0 := by
            have hle := le_sum_of_mem (s.g.edges.filter (fun e : Edge => e.2 = w)) y
              (fun e' he' => natVal_nonneg (hy e' (List.mem_filter.1 he').1)) (v', w)
              (List.mem_filter.2 ⟨he, by simp⟩)
            have h0 := natVal_nonneg (hy _ he)
            unfold inflow
            intro hz
            rw [hz] at hle
            exact hye (Rat.le_antisymm hle h0)
          rw [hcons w hw hsrc hws] at hin
          obtain ⟨e', he', hne'⟩ := exists_ne_zero_of_sum_ne_zero _ _ hin
          have hm := List.mem_filter.1 he'
          exact ⟨e', hm.1, by simpa using hm.2, hne'⟩
      obtain ⟨t, hch, hlast⟩ := ih w hnext (by omega)
      refine ⟨w :: t, ?_, ?_⟩
      · intro e hmem
        rw [walkEdges_cons_cons] at hmem
        rcases List.mem_cons.1 hmem with rfl | hmem
        · exact ⟨he, hye⟩
        · exact hch e hmem
      · rw [List.getLast?_cons_cons]; exact hlast

/-- **flow decomposition on a DAG.** -/
theorem flow_decompose {s : STGraph} (hwf : STWF s) : ∀ (c : Nat) (y : Edge → Rat),
    (∀ e ∈ s.g.edges, ∃ n : Nat, y e = n) →
    (∀ v ∈ s.g.nodes, v ≠ s.source → v ≠ s.sink → inflow s.g y v = outflow s.g y v) →
    outflow s.g y s.source = (c : Rat) →
    ∃ routes : List (List Node), routes.length = c ∧ (∀ r ∈ routes, IsSTWalk s r) ∧
      ∀ e ∈ s.g.edges, y e = (routes.map (fun r => cntR (walkEdges r) e)).sum := by
  obtain ⟨rank, hr⟩ := hwf.acyclic
  intro c
  induction c with
  | zero =>
    intro y hy hcons hsrc
    refine ⟨[], rfl, fun r hr' => by simp at hr', ?_⟩
    have hz := flow_zero s.g rank hr s.source y (fun e he => natVal_nonneg (hy e he))
      (fun e he hs => hcons e.1 (hwf.closed e he).1 hs (hwf.snkNoOut e he)) (by simpa using hsrc)
    intro e he
    simp [hz e he]
  | succ c ih =>
    intro y hy hcons hsrc
    -- a positive edge out of the source
    have hne : outflow s.g y s.source ≠ 0 := by
      rw [hsrc, Rat.natCast_add]
      have : (0 : Rat) ≤ (c : Rat) := Rat.natCast_nonneg
      intro h0; grind
    obtain ⟨e0, he0, hy0⟩ := exists_ne_zero_of_sum_ne_zero _ _ hne
    have hm0 := List.mem_filter.1 he0
    have hfuel : above s rank s.source < s.g.nodes.length + 1 := by
      have : above s rank s.source ≤ s.g.nodes.length := List.countP_le_length
      omega
    obtain ⟨t, hch, hlast⟩ := pos_path hwf y hy hcons rank hr (s.g.nodes.length + 1) s.source
      (Or.inr ⟨e0, hm0.1, by simpa using hm0.2, hy0⟩) hfuel
    have hwalk : IsSTWalk s (s.source :: t) := ⟨by simp, hlast, fun e he => (hch e he).1⟩
    have hnd := stwalk_nodup_p09 hwf hwalk
    have hPnd := walkEdges_nodup _ hnd
    have hfacts := layerFacts_of_route hwf false hwalk
    -- subtract the path
    have hy' : ∀ e ∈ s.g.edges, ∃ n : Nat, y e - cntR (walkEdges (s.source :: t)) e = n := by
      intro e he
      by_cases hm : e ∈ walkEdges (s.source :: t)
      · obtain ⟨m, hm'⟩ := natVal_one_le (hy e he) (hch e hm).2
        exact ⟨m, by rw [cntR_mem _ hPnd e hm, hm']; grind⟩
      · obtain ⟨n, hn⟩ := hy e he
        exact ⟨n, by rw [cntR_not_mem _ e hm, hn]; grind⟩
    have hcons' : ∀ v ∈ s.g.nodes, v ≠ s.source → v ≠ s.sink →
        inflow s.g (fun e => y e - cntR (walkEdges (s.source :: t)) e) v
          = outflow s.g (fun e => y e - cntR (walkEdges (s.source :: t)) e) v := by
      intro v hv h1 h2
      have ha := hcons v hv h1 h2
      have hb := hfacts.cons v hv h1 h2
      unfold inflow outflow at ha hb ⊢
      rw [sum_map_sub, sum_map_sub, ha, hb]
    have hsrc' : outflow s.g (fun e => y e - cntR (walkEdges (s.source :: t)) e) s.source = (c : Rat) := by
      have hb := hfacts.src
      simp only [Bool.false_eq_true, if_false] at hb
      unfold outflow at hsrc hb ⊢
      rw [sum_map_sub, hsrc, hb, Rat.natCast_add]
      grind
    obtain ⟨routes, hlen, hrs, hdec⟩ := ih _ hy' hcons' hsrc'
    refine ⟨(s.source :: t) :: routes, by simp [hlen], ?_, ?_⟩
    · intro r hr'
      rcases List.mem_cons.1 hr' with rfl | hr'
      · exact hwalk
      · exact hrs r hr'
    · intro e he
      have := hdec e he
      simp only [List.map_cons, List.sum_cons]
      rw [← this]; grind

theorem cast_sum_map {α} (l : List α) (f : α → Nat) :
    (((l.map f).sum : Nat) : Rat) = (l.map (fun x => (f x : Rat))).sum := by
  induction l with
  | nil => simp
  | cons x xs ih => simp only [List.map_cons, List.sum_cons, Rat.natCast_add, ih]

/-- **T6.** a feasible integral flow of the min-flow instance with source out-flow `c` gives a cover
of the edges with positive demand by `c` source-to-sink paths -/
theorem flow_to_cover (s : STGraph) (hwf : STWF s) (demand f : Edge → Nat)
    (hf : CoveringFlow s demand f) (c : Nat) (hc : outN s.g f s.source = c) :
    HasCover s (s.g.edges.filter fun e => decide (1 ≤ demand e)) [] c := by
  have hin : ∀ v, inflow s.g (fun e => (f e : Rat)) v = ((inN s.g f v : Nat) : Rat) := by
    intro v; unfold inflow inN; rw [cast_sum_map]
  have hout : ∀ v, outflow s.g (fun e => (f e : Rat)) v = ((outN s.g f v : Nat) : Rat) := by
    intro v; unfold outflow outN; rw [cast_sum_map]
  obtain ⟨routes, hlen, hrs, hdec⟩ := flow_decompose hwf c (fun e => (f e : Rat))
    (fun e _ => ⟨f e, rfl⟩)
    (fun v hv h1 h2 => by rw [hin, hout, hf.cons v hv h1 h2])
    (by rw [hout, hc])
  refine ⟨routes, hlen, hrs, ?_, fun c hc' => by simp at hc'⟩
  intro e he
  have hm := List.mem_filter.1 he
  have hd : 1 ≤ demand e := by simpa using hm.2
  have hfe : 1 ≤ f e := Nat.le_trans hd (hf.dem e hm.1)
  have hsum := hdec e hm.1
  have hne : (routes.map (fun r => cntR (walkEdges r) e)).sum ≠ 0 := by
    rw [← hsum]
    intro h0
    have : f e = 0 := by exact_mod_cast h0
    omega
  obtain ⟨r, hr, hx⟩ := exists_ne_zero_of_sum_ne_zero _ _ hne
  refine ⟨r, hr, ?_⟩
  apply Classical.byContradiction
  intro hnm
  exact hx (cntR_not_mem _ e hnm)

/-- **width certificate.** a feasible integral flow of cost `c` together with an antichain of `c`
edges of positive demand certifies that `c` is the minimum size of a path cover — the run-time
certificate `compute_max_edge_antichain(get_antichain=True)` produces (flow from the network simplex,
antichain from the residual search, `assert minFlowCost == Σ weights`). -/
theorem width_certificate (s : STGraph) (hwf : STWF s) (demand f : Edge → Nat)
    (hf : CoveringFlow s demand f) (A : List Edge) (hA : Antichain s A)
    (hAact : ∀ e ∈ A, e ∈ s.g.edges.filter fun e => decide (1 ≤ demand e))
    (hcost : outN s.g f s.source = A.length) :
    IsMinCover s (s.g.edges.filter fun e => decide (1 ≤ demand e)) [] A.length := by
  refine ⟨flow_to_cover s hwf demand f hf _ hcost, fun j hj hcov => ?_⟩
  have := antichain_weak_duality s _ [] A hA hAact j hcov
  omega

end FP
