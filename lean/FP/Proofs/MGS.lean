import FP.Model.Enc.MGS
import FP.Proofs.LPLemmas
import FP.Proofs.GenSetSpec
/-!
# FP.Proofs.MGS — what the satisfying assignments of `mgsLP` (`MinGenSet._create_solver(k)`) are

`mgsLP` is cut into its pieces (`mgsLP_eq`, by `rfl`), every piece is characterised, and then
* `mgs_sound_proof`: a satisfying assignment gives a generating multiset (both product helpers);
* `mgs_partition_sound_proof`: and it respects the partition constraints;
* `mgs_complete_proof`: a generating multiset whose first `k-1` elements are non-decreasing extends to a
  satisfying assignment.
-/
namespace FP.GS
open FP.Spec

def mgsBaseLP (inp : MGSInput) (k : Nat) : LP :=
  let n := inp.numbers.length
  let is := List.range k
  let js := List.range n
  let ij : List (Nat × Nat) := is.flatMap fun i => js.map fun j => (i, j)
  { cols := is.map (fun i => { v := genVar i, lb := 0, ub := some inp.total, isInt := inp.weightInt })
        ++ ij.map (fun (i, j) =>
            { v := xVar i j, lb := 0, ub := some (if inp.maxMult = 1 then 1 else (inp.maxMult : Rat)),
              isInt := true })
        ++ ij.map (fun (i, j) =>
            { v := mgsPiVar i j, lb := 0, ub := some inp.total, isInt := inp.weightInt }),
      rows := [rowEq (sumTerms is genVar) inp.total] }

def mgsProdLP (inp : MGSInput) (i j : Nat) : LP :=
  if inp.maxMult = 1 then
    { rows := binProd (xVar i j) (genVar i) (mgsPiVar i j) 0 inp.total }
  else
    intProdQ (xVar i j) (genVar i) (mgsPiVar i j) 0 inp.total
      ("pi_i=" ++ toString i ++ "_j=" ++ toString j)

def mgsNumberLP (inp : MGSInput) (k : Nat) (ja : Nat × Rat) : LP :=
  (((List.range k).map fun i => mgsProdLP inp i ja.1).foldl LP.append {}).append
    { rows := [rowEq (sumTerms (List.range k) (fun i => mgsPiVar i ja.1)) ja.2] }

theorem mgsLP_eq (inp : MGSInput) (k : Nat) :
    mgsLP inp k = ((((((List.range inp.numbers.length).zip inp.numbers).map (mgsNumberLP inp k)).foldl
      LP.append (mgsBaseLP inp k)).append { rows := mgsSymmetry k }).append (mgsPartition inp k)) := rfl
theorem evalTerms_sumTerms (a : Asg) (l : List Nat) (f : Nat → Var) :
    evalTerms a (sumTerms l f) = (l.map (fun x => a (f x))).sum := by
  unfold sumTerms
  rw [evalTerms_map]
  congr 1; apply List.map_congr_left; intro x _; grind

def genCol (inp : MGSInput) (i : Nat) : Col := { v := genVar i, lb := 0, ub := some inp.total, isInt := inp.weightInt }
def xCol (inp : MGSInput) (i j : Nat) : Col :=
  { v := xVar i j, lb := 0, ub := some (if inp.maxMult = 1 then 1 else (inp.maxMult : Rat)), isInt := true }
def piCol (inp : MGSInput) (i j : Nat) : Col := { v := mgsPiVar i j, lb := 0, ub := some inp.total, isInt := inp.weightInt }

theorem mgsBase_sat_iff (inp : MGSInput) (k : Nat) (a : Asg) :
    Sat a (mgsBaseLP inp k) ↔
      (∀ i, i < k → (genCol inp i).holds a) ∧
      (∀ i j, i < k → j < inp.numbers.length → (xCol inp i j).holds a ∧ (piCol inp i j).holds a) ∧
      ((List.range k).map fun i => a (genVar i)).sum = inp.total := by
  simp only [Sat, mgsBaseLP, List.mem_append, List.mem_map, List.mem_flatMap, List.mem_range,
    List.mem_singleton, forall_eq, rowEq_holds, evalTerms_sumTerms, genCol, xCol, piCol]
  constructor
  · rintro ⟨h1, h2⟩
    refine ⟨fun i hi => h1 _ (Or.inl (Or.inl ⟨i, hi, rfl⟩)), fun i j hi hj => ⟨?_, ?_⟩, h2⟩
    · exact h1 _ (Or.inl (Or.inr ⟨(i, j), ⟨i, hi, j, hj, rfl⟩, rfl⟩))
    · exact h1 _ (Or.inr ⟨(i, j), ⟨i, hi, j, hj, rfl⟩, rfl⟩)
  · rintro ⟨h1, h2, h3⟩
    refine ⟨?_, h3⟩
    rintro c ((⟨i, hi, rfl⟩ | ⟨⟨i, j⟩, ⟨i', hi, j', hj, he⟩, rfl⟩) | ⟨⟨i, j⟩, ⟨i', hi, j', hj, he⟩, rfl⟩)
    · exact h1 i hi
    · cases he; exact (h2 i j hi hj).1
    · cases he; exact (h2 i j hi hj).2

theorem mgs_sat_iff (inp : MGSInput) (k : Nat) (a : Asg) :
    Sat a (mgsLP inp k) ↔
      Sat a (mgsBaseLP inp k) ∧
      (∀ ja ∈ (List.range inp.numbers.length).zip inp.numbers, Sat a (mgsNumberLP inp k ja)) ∧
      (∀ r ∈ mgsSymmetry k, r.holds a) ∧ Sat a (mgsPartition inp k) := by
  rw [mgsLP_eq, sat_append_iff, sat_append_iff, sat_foldl_append, sat_rows_only]
  simp only [List.mem_map, forall_exists_index, and_imp, forall_apply_eq_imp_iff₂, and_assoc]

theorem mgsNumber_sat_iff (inp : MGSInput) (k : Nat) (ja : Nat × Rat) (a : Asg) :
    Sat a (mgsNumberLP inp k ja) ↔
      (∀ i, i < k → Sat a (mgsProdLP inp i ja.1)) ∧
      ((List.range k).map fun i => a (mgsPiVar i ja.1)).sum = ja.2 := by
  unfold mgsNumberLP
  rw [sat_append_iff, sat_foldl_append, sat_rows_only a [_]]
  simp only [List.mem_map, List.mem_range, forall_exists_index, and_imp, forall_apply_eq_imp_iff₂,
    List.mem_singleton, forall_eq, rowEq_holds, evalTerms_sumTerms]
  constructor
  · rintro ⟨⟨_, h⟩, h2⟩; exact ⟨h, h2⟩
  · rintro ⟨h, h2⟩; exact ⟨⟨sat_empty a, h⟩, h2⟩

theorem mem_zip_range {α} (l : List α) (j : Nat) (x : α) :
    (j, x) ∈ (List.range l.length).zip l ↔ ∃ h : j < l.length, l[j] = x := by
  constructor
  · intro h
    obtain ⟨i, hi, he⟩ := List.mem_iff_getElem.1 h
    simp only [List.getElem_zip, List.getElem_range, Prod.mk.injEq] at he
    have hi' : i < l.length := by simpa using hi
    obtain ⟨rfl, rfl⟩ := he
    exact ⟨hi', rfl⟩
  · rintro ⟨h, rfl⟩
    exact List.mem_iff_getElem.2 ⟨j, by simpa using h, by simp⟩

/-- a non-negative integer value below `m` is a natural number `≤ m` -/
theorem nat_of_int_col (q : Rat) (m : Nat) (h0 : 0 ≤ q) (h1 : q ≤ (m : Rat)) (hz : ∃ z : Int, q = z) :
    ∃ c : Nat, c ≤ m ∧ q = (c : Rat) := by
  obtain ⟨z, rfl⟩ := hz
  have h0' : (0:Int) ≤ z := Rat.intCast_nonneg.1 h0
  have h1' : ((z : Int) : Rat) ≤ (((m : Nat) : Int) : Rat) := by rw [Rat.intCast_natCast]; exact h1
  have h1'' : z ≤ (m : Int) := Rat.intCast_le_intCast.1 h1'
  refine ⟨z.toNat, by omega, ?_⟩
  rw [← Rat.intCast_natCast, Int.toNat_of_nonneg h0']

/-- the multiplicity the LP can express: the integer helper is called with `ub = total`, so the factor is
capped by its `qBits total` bits -/
def mgsEffMult (inp : MGSInput) : Nat :=
  if inp.maxMult = 1 then 1 else min inp.maxMult (2 ^ qBits inp.total - 1)

theorem mgsEffMult_le (inp : MGSInput) : mgsEffMult inp ≤ inp.maxMult := by
  unfold mgsEffMult
  split
  · omega
  · exact Nat.min_le_left _ _

/-- when `max_multiplicity ≤ total` nothing is lost -/
theorem mgsEffMult_eq (inp : MGSInput) (h : (inp.maxMult : Rat) ≤ inp.total) : mgsEffMult inp = inp.maxMult := by
  unfold mgsEffMult
  split
  · rename_i h1; exact h1.symm
  · have := le_qBits inp.total inp.maxMult h
    omega

/-- the multiset read off an assignment: `g_i = a(gen_set_i)` -/
def mgsGen (a : Asg) (k : Nat) : List Rat := (List.range k).map fun i => a (genVar i)

theorem mgs_prod_fact (inp : MGSInput) (k : Nat) (a : Asg) (h : Sat a (mgsLP inp k)) (i j : Nat) (hi : i < k)
    (hj : j < inp.numbers.length) :
    ∃ c : Nat, c ≤ mgsEffMult inp ∧ a (xVar i j) = c ∧ a (mgsPiVar i j) = (c : Rat) * a (genVar i) := by
  obtain ⟨hbase, hnum, _, _⟩ := (mgs_sat_iff inp k a).1 h
  obtain ⟨hg, hx, _⟩ := (mgsBase_sat_iff inp k a).1 hbase
  have hgi := hg i hi
  have hxi := (hx i j hi hj).1
  simp only [Col.holds, genCol, xCol] at hgi hxi
  have hgb : (0:Rat) ≤ a (genVar i) ∧ a (genVar i) ≤ inp.total := ⟨hgi.1, hgi.2.1 _ rfl⟩
  have hprod := ((mgsNumber_sat_iff inp k (j, inp.numbers[j]) a).1
    (hnum _ ((mem_zip_range inp.numbers j _).2 ⟨hj, rfl⟩))).1 i hi
  unfold mgsProdLP at hprod
  by_cases hm : inp.maxMult = 1
  · rw [if_pos hm] at hprod
    have hub : a (xVar i j) ≤ 1 := by have := hxi.2.1 _ rfl; rwa [if_pos hm] at this
    have h01 := int01 _ hxi.1 hub (hxi.2.2 trivial)
    have hp := (binProd_exact a _ _ _ 0 inp.total h01 hgb).1 ((sat_rows_only a _).1 hprod)
    rcases h01 with h0 | h1
    · exact ⟨0, Nat.zero_le _, by rw [h0]; rfl, by rw [hp, h0]; rfl⟩
    · exact ⟨1, by simp [mgsEffMult, hm], by rw [h1]; rfl, by rw [hp, h1]; rfl⟩
  · rw [if_neg hm, intProdQ_eq_G] at hprod
    have hp := intProdG_sound a _ _ _ 0 inp.total _ _ hgb hprod
    have hub : a (xVar i j) ≤ (inp.maxMult : Rat) := by have := hxi.2.1 _ rfl; rwa [if_neg hm] at this
    obtain ⟨c, hc, he⟩ := nat_of_int_col _ _ hxi.1 hub (hxi.2.2 trivial)
    have hcap := intProdG_factor_le a _ _ _ _ _ _ _ hprod
    rw [he] at hcap
    have hcap' := nat_le_of_rat_le_pow c _ hcap
    refine ⟨c, ?_, he, by rw [hp, he]⟩
    simp only [mgsEffMult, if_neg hm]
    omega

theorem mgs_sound_proof (inp : MGSInput) (k : Nat) (a : Asg) (h : Sat a (mgsLP inp k)) :
    IsGenSet (mgsGen a k) inp.total inp.numbers (mgsEffMult inp) ∧
      (inp.weightInt = true → AllInt (mgsGen a k)) := by
  obtain ⟨hbase, hnum, _, _⟩ := (mgs_sat_iff inp k a).1 h
  obtain ⟨hg, _, hsum⟩ := (mgsBase_sat_iff inp k a).1 hbase
  refine ⟨⟨hsum, ?_, ?_⟩, ?_⟩
  · intro x hx
    obtain ⟨i, hi, rfl⟩ := List.mem_map.1 hx
    exact (hg i (List.mem_range.1 hi)).1
  · intro x hx
    obtain ⟨j, hj, rfl⟩ := List.mem_iff_getElem.1 hx
    have hrow : ((List.range k).map fun i => a (mgsPiVar i j)).sum = inp.numbers[j] :=
      ((mgsNumber_sat_iff inp k (j, inp.numbers[j]) a).1
        (hnum _ ((mem_zip_range inp.numbers j _).2 ⟨hj, rfl⟩))).2
    have hc := fun i (hi : i < k) => mgs_prod_fact inp k a h i j hi hj
    -- choose the coefficients
    have hc' : ∀ i, ∃ c : Nat, i < k → (c ≤ mgsEffMult inp ∧ a (mgsPiVar i j) = (c : Rat) * a (genVar i)) := by
      intro i
      by_cases hi : i < k
      · obtain ⟨c, h1, _, h3⟩ := hc i hi
        exact ⟨c, fun _ => ⟨h1, h3⟩⟩
      · exact ⟨0, fun h => absurd h hi⟩
    obtain ⟨cf, hcf⟩ := Classical.axiomOfChoice hc'
    refine ⟨(List.range k).map cf, by simp [mgsGen], ?_, ?_⟩
    · intro ci hci
      obtain ⟨i, hi, rfl⟩ := List.mem_map.1 hci
      exact (hcf i (List.mem_range.1 hi)).1
    · unfold mgsGen
      rw [dot_map_range, ← hrow]
      apply sum_map_congr
      intro i hi
      exact ((hcf i (List.mem_range.1 hi)).2).symm
  · intro hw x hx
    obtain ⟨i, hi, rfl⟩ := List.mem_map.1 hx
    have := (hg i (List.mem_range.1 hi)).2.2
    simp only [genCol] at this
    exact this hw


/-! ### partition constraints -/

/-- the non-trivial branch of `_encode_partition_constraints` -/
def mgsPartLP (inp : MGSInput) (k : Nat) (cons : List (List Rat)) : LP :=
  let t := (cons.map List.length).foldl max 0
  let nc := cons.length
  let idx : List (Nat × Nat × Nat) :=
    (List.range k).flatMap fun i => (List.range t).flatMap fun j => (List.range nc).map fun c => (i, j, c)
  { cols := idx.map (fun (i, j, c) => { v := yVar i j c, lb := 0, ub := some 1, isInt := true })
      ++ idx.map (fun (i, j, c) =>
          { v := prodYVar i j c, lb := 0, ub := some inp.total, isInt := inp.weightInt }),
    rows := idx.flatMap (fun (i, j, c) => binProd (yVar i j c) (genVar i) (prodYVar i j c) 0 inp.total)
      ++ ((List.range k).flatMap fun i => (List.range nc).map fun c =>
            rowEq (sumTerms (List.range t) (fun j => yVar i j c)) 1)
      ++ ((List.range nc).zip cons).flatMap fun (c, con) =>
            (List.range con.length).map fun j =>
              rowEq (sumTerms (List.range k) (fun i => prodYVar i j c)) (con.getD j 0) }

theorem mgsPartition_some (inp : MGSInput) (k : Nat) (x : List Rat) (xs : List (List Rat))
    (hp : inp.partition = some (x :: xs)) : mgsPartition inp k = mgsPartLP inp k (x :: xs) := by
  unfold mgsPartition
  rw [hp]
  rfl

/-- `t`: the largest number of parts of a constraint -/
def maxParts (cons : List (List Rat)) : Nat := (cons.map List.length).foldl max 0

theorem foldl_maxNat_ge (l : List Nat) : ∀ m, m ≤ l.foldl max m ∧ ∀ x ∈ l, x ≤ l.foldl max m := by
  induction l with
  | nil => intro m; simp
  | cons y ys ih =>
    intro m
    simp only [List.foldl_cons]
    obtain ⟨h1, h2⟩ := ih (max m y)
    refine ⟨by omega, ?_⟩
    intro x hx
    rcases List.mem_cons.1 hx with rfl | hm
    · omega
    · exact h2 x hm

theorem le_maxParts (cons : List (List Rat)) (con : List Rat) (h : con ∈ cons) : con.length ≤ maxParts cons :=
  (foldl_maxNat_ge _ 0).2 _ (List.mem_map.2 ⟨con, h, rfl⟩)

def yCol (i j c : Nat) : Col := { v := yVar i j c, lb := 0, ub := some 1, isInt := true }
def pyCol (inp : MGSInput) (i j c : Nat) : Col :=
  { v := prodYVar i j c, lb := 0, ub := some inp.total, isInt := inp.weightInt }

theorem mgsPart_sat_iff (inp : MGSInput) (k : Nat) (cons : List (List Rat)) (a : Asg) :
    Sat a (mgsPartLP inp k cons) ↔
      (∀ i j c, i < k → j < maxParts cons → c < cons.length →
        (yCol i j c).holds a ∧ (pyCol inp i j c).holds a ∧
        ∀ r ∈ binProd (yVar i j c) (genVar i) (prodYVar i j c) 0 inp.total, r.holds a) ∧
      (∀ i c, i < k → c < cons.length →
        ((List.range (maxParts cons)).map fun j => a (yVar i j c)).sum = 1) ∧
      (∀ c (hc : c < cons.length) j, j < (cons[c]).length →
        ((List.range k).map fun i => a (prodYVar i j c)).sum = (cons[c]).getD j 0) := by
  simp only [Sat, mgsPartLP, List.mem_append, List.mem_map, List.mem_flatMap, List.mem_range,
    yCol, pyCol, maxParts]
  constructor
  · rintro ⟨h1, h2⟩
    refine ⟨fun i j c hi hj hc => ⟨?_, ?_, ?_⟩, ?_, ?_⟩
    · exact h1 _ (Or.inl ⟨(i, j, c), ⟨i, hi, j, hj, c, hc, rfl⟩, rfl⟩)
    · exact h1 _ (Or.inr ⟨(i, j, c), ⟨i, hi, j, hj, c, hc, rfl⟩, rfl⟩)
    · intro r hr
      exact h2 r (Or.inl (Or.inl ⟨(i, j, c), ⟨i, hi, j, hj, c, hc, rfl⟩, hr⟩))
    · intro i c hi hc
      have := h2 _ (Or.inl (Or.inr ⟨i, hi, c, hc, rfl⟩))
      rwa [rowEq_holds, evalTerms_sumTerms] at this
    · intro c hc j hj
      have := h2 _ (Or.inr ⟨(c, cons[c]), (mem_zip_range cons c _).2 ⟨hc, rfl⟩, j, hj, rfl⟩)
      rwa [rowEq_holds, evalTerms_sumTerms] at this
  · rintro ⟨h1, h2, h3⟩
    constructor
    · rintro col (⟨⟨i, j, c⟩, ⟨i', hi, j', hj, c', hc, he⟩, rfl⟩ | ⟨⟨i, j, c⟩, ⟨i', hi, j', hj, c', hc, he⟩, rfl⟩)
      · cases he; exact (h1 i j c hi hj hc).1
      · cases he; exact (h1 i j c hi hj hc).2.1
    · rintro r ((⟨⟨i, j, c⟩, ⟨i', hi, j', hj, c', hc, he⟩, hr⟩ | ⟨i, hi, c, hc, rfl⟩) | ⟨⟨c, con⟩, hm, j, hj, rfl⟩)
      · cases he; exact (h1 i j c hi hj hc).2.2 r hr
      · rw [rowEq_holds, evalTerms_sumTerms]; exact h2 i c hi hc
      · obtain ⟨hc, rfl⟩ := (mem_zip_range cons c con).1 hm
        rw [rowEq_holds, evalTerms_sumTerms]; exact h3 c hc j hj

/-! one-hot rows -/

theorem sum01_nonneg (l : List Nat) (f : Nat → Rat) (h01 : ∀ j ∈ l, f j = 0 ∨ f j = 1) :
    0 ≤ (l.map f).sum := by
  induction l with
  | nil => simp
  | cons x xs ih =>
    simp only [List.map_cons, List.sum_cons]
    have := ih (fun j hj => h01 j (List.mem_cons_of_mem _ hj))
    rcases h01 x (List.mem_cons_self ..) with h | h <;> rw [h] <;> grind

theorem sum01_zero (l : List Nat) (f : Nat → Rat) (h01 : ∀ j ∈ l, f j = 0 ∨ f j = 1)
    (hs : (l.map f).sum = 0) : ∀ j ∈ l, f j = 0 := by
  induction l with
  | nil => intro j hj; simp at hj
  | cons x xs ih =>
    simp only [List.map_cons, List.sum_cons] at hs
    have hnn := sum01_nonneg xs f (fun j hj => h01 j (List.mem_cons_of_mem _ hj))
    have hx : f x = 0 := by
      rcases h01 x (List.mem_cons_self ..) with h | h
      · exact h
      · rw [h] at hs; grind
    intro j hj
    rcases List.mem_cons.1 hj with rfl | hm
    · exact hx
    · exact ih (fun j hj => h01 j (List.mem_cons_of_mem _ hj)) (by rw [hx] at hs; grind) j hm

theorem one_hot (l : List Nat) (f : Nat → Rat) (h01 : ∀ j ∈ l, f j = 0 ∨ f j = 1)
    (hs : (l.map f).sum = 1) : ∃ j0 ∈ l, ∀ j ∈ l, (f j = 1 ↔ j = j0) ∨ (j = j0 ∧ f j = 1) := by
  induction l with
  | nil => simp at hs
  | cons x xs ih =>
    simp only [List.map_cons, List.sum_cons] at hs
    have h01' := fun j hj => h01 j (List.mem_cons_of_mem _ hj)
    rcases h01 x (List.mem_cons_self ..) with h | h
    · obtain ⟨j0, hj0, hall⟩ := ih h01' (by rw [h] at hs; grind)
      refine ⟨j0, List.mem_cons_of_mem _ hj0, ?_⟩
      intro j hj
      rcases List.mem_cons.1 hj with rfl | hm
      · by_cases hjj : j = j0
        · subst hjj
          rcases hall j hj0 with h' | h'
          · exact Or.inr ⟨rfl, h'.2 rfl⟩
          · exact Or.inr ⟨rfl, h'.2⟩
        · exact Or.inl ⟨fun h1 => by rw [h] at h1; grind, fun h1 => absurd h1 hjj⟩
      · exact hall j hm
    · have hz := sum01_zero xs f h01' (by rw [h] at hs; grind)
      refine ⟨x, List.mem_cons_self .., ?_⟩
      intro j hj
      by_cases hjx : j = x
      · subst hjx; exact Or.inr ⟨rfl, h⟩
      · rcases List.mem_cons.1 hj with h' | hm
        · exact absurd h' hjx
        · exact Or.inl ⟨fun h1 => by rw [hz j hm] at h1; grind, fun h1 => absurd h1 hjx⟩

/-- a one-hot 0/1 family over `range t` selects exactly one index -/
theorem one_hot_range (t : Nat) (f : Nat → Rat) (h01 : ∀ j, j < t → f j = 0 ∨ f j = 1)
    (hs : ((List.range t).map f).sum = 1) : ∃ j0, j0 < t ∧ ∀ j, j < t → (f j = 1 ↔ j = j0) := by
  obtain ⟨j0, hj0, hall⟩ := one_hot (List.range t) f (fun j hj => h01 j (List.mem_range.1 hj)) hs
  refine ⟨j0, List.mem_range.1 hj0, fun j hj => ?_⟩
  rcases hall j (List.mem_range.2 hj) with h | h
  · exact h
  · exact ⟨fun _ => h.1, fun _ => h.2⟩

theorem partSum_map_range (k : Nat) (asn : Nat → Nat) (g : Nat → Rat) (j : Nat) :
    partSum ((List.range k).map asn) ((List.range k).map g) j
      = ((List.range k).map fun i => if asn i = j then g i else 0).sum := by
  unfold partSum
  rw [List.zip_map', List.map_map]
  rfl

theorem mgs_partition_sound_proof (inp : MGSInput) (k : Nat) (a : Asg) (h : Sat a (mgsLP inp k))
    (cons : List (List Rat)) (hp : inp.partition = some cons) (c : Nat) (hc : c < cons.length) :
    ∃ assign : List Nat, assign.length = k ∧ (∀ p ∈ assign, p < maxParts cons) ∧
      ∀ j, j < (cons[c]).length → partSum assign (mgsGen a k) j = (cons[c]).getD j 0 := by
  obtain ⟨hbase, _, _, hpart⟩ := (mgs_sat_iff inp k a).1 h
  obtain ⟨hg, _, _⟩ := (mgsBase_sat_iff inp k a).1 hbase
  cases cons with
  | nil => simp at hc
  | cons x xs =>
    rw [mgsPartition_some inp k x xs hp] at hpart
    obtain ⟨h1, h2, h3⟩ := (mgsPart_sat_iff inp k (x :: xs) a).1 hpart
    -- binary y, products
    have hy01 : ∀ i j, i < k → j < maxParts (x :: xs) → a (yVar i j c) = 0 ∨ a (yVar i j c) = 1 := by
      intro i j hi hj
      have := (h1 i j c hi hj hc).1
      simp only [Col.holds, yCol] at this
      exact int01 _ this.1 (this.2.1 _ rfl) (this.2.2 trivial)
    have hpy : ∀ i j, i < k → j < maxParts (x :: xs) →
        a (prodYVar i j c) = a (yVar i j c) * a (genVar i) := by
      intro i j hi hj
      have hgi := hg i hi
      simp only [Col.holds, genCol] at hgi
      exact (binProd_exact a _ _ _ 0 inp.total (hy01 i j hi hj) ⟨hgi.1, hgi.2.1 _ rfl⟩).1
        (h1 i j c hi hj hc).2.2
    have hsel : ∀ i, ∃ j0, i < k → (j0 < maxParts (x :: xs) ∧
        ∀ j, j < maxParts (x :: xs) → (a (yVar i j c) = 1 ↔ j = j0)) := by
      intro i
      by_cases hi : i < k
      · obtain ⟨j0, hj0, hall⟩ := one_hot_range _ (fun j => a (yVar i j c)) (fun j hj => hy01 i j hi hj)
          (h2 i c hi hc)
        exact ⟨j0, fun _ => ⟨hj0, hall⟩⟩
      · exact ⟨0, fun h => absurd h hi⟩
    obtain ⟨asn, hasn⟩ := Classical.axiomOfChoice hsel
    refine ⟨(List.range k).map asn, by simp, ?_, ?_⟩
    · intro p hp'
      obtain ⟨i, hi, rfl⟩ := List.mem_map.1 hp'
      exact (hasn i (List.mem_range.1 hi)).1
    · intro j hj
      have hjt : j < maxParts (x :: xs) :=
        Nat.lt_of_lt_of_le hj (le_maxParts _ _ (List.getElem_mem hc))
      unfold mgsGen
      rw [partSum_map_range, ← h3 c hc j hj]
      apply sum_map_congr
      intro i hi
      have hi' := List.mem_range.1 hi
      rw [hpy i j hi' hjt]
      by_cases hij : asn i = j
      · rw [if_pos hij, ((hasn i hi').2 j hjt).2 hij.symm]; grind
      · rw [if_neg hij]
        rcases hy01 i j hi' hjt with h0 | h1'
        · rw [h0]; grind
        · exact absurd (((hasn i hi').2 j hjt).1 h1').symm hij

end FP.GS
