import FP.Proofs.KLAEExtra
/-!
# FP.Proofs.KMPE — k-Min-Path-Error (DAG, no path-length factors): soundness, completeness,
feasibility from a path cover, optimality transfer
-/
namespace FP
open FP.Spec FP.Spec.MPE

theorem kmpeLP_obj (inp : MpeInput) (a : Asg) :
    evalTerms a (kmpeLP inp).obj = totalSlack inp.ei.k (fun i => a (slackVar i)) := by
  show evalTerms a (mpeObj inp.ei.k) = _
  unfold mpeObj totalSlack
  rw [evalTerms_ones]

theorem factorBlock_nil (inp : MpeInput) (k : Nat) (wm : Rat) (hfac : inp.factors = []) :
    factorBlock inp k wm = {} := by
  unfold factorBlock; simp [hfac]

theorem slackFor_nil (inp : MpeInput) (hfac : inp.factors = []) (i : Nat) : inp.slackFor i = slackVar i := by
  unfold MpeInput.slackFor; simp [hfac]

theorem evalTerms_scaled (a : Asg) (ts : Terms) (sc : Rat) :
    evalTerms a (ts.map fun t => (-(t.1 * sc), t.2)) = -(sc * evalTerms a ts) := by
  induction ts with
  | nil => simp [evalTerms]
  | cons t ts ih =>
    simp only [evalTerms, List.map_cons, List.sum_cons] at ih ⊢
    rw [ih]; grind

theorem kmpe_sat_parts (inp : MpeInput) (a : Asg) (hfac : inp.factors = []) (hsat : Sat a (kmpeLP inp)) :
    Sat a (encodePaths inp.ei.st inp.ei.fi.cfg) ∧
    (∀ i, i < inp.ei.k → Col.holds a { v := weightsVar i, lb := 0, ub := some (inp.ei.wmax none), isInt := inp.ei.fi.weightInt }) ∧
    (∀ i, i < inp.ei.k → Col.holds a { v := slackVar i, lb := 0, ub := some (inp.ei.wmax none), isInt := inp.ei.fi.weightInt }) ∧
    (∀ e ∈ inp.ei.basicEdges, ∀ i, i < inp.ei.k →
      ∀ r ∈ binProd (edgeVar e i) (weightsVar i) (piVar e i) 0 (inp.ei.wmax none), r.holds a) ∧
    (∀ e ∈ inp.ei.basicEdges, ∀ i, i < inp.ei.k →
      ∀ r ∈ binProd (edgeVar e i) (slackVar i) (gammaVar e i) 0 (inp.ei.wmax none), r.holds a) ∧
    (∀ e ∈ inp.ei.basicEdges, ∀ r ∈ errRows (inp.ei.fi.f e) (inp.ei.scale e)
        (ones (List.range inp.ei.k) (piVar e)) (ones (List.range inp.ei.k) (gammaVar e)), r.holds a) := by
  have h1 := sat_append_left a _ _ hsat
  have h2 := sat_append_left a _ _ h1
  have henc := sat_append_left a _ _ h2
  obtain ⟨hcols, _⟩ := sat_append_right a _ _ h2
  obtain ⟨_, hrows⟩ := sat_append_right a _ _ hsat
  simp only at hcols hrows
  refine ⟨henc, ?_, ?_, ?_, ?_, ?_⟩
  · intro i hi
    exact hcols _ (List.mem_append_left _ (List.mem_append_left _ (List.mem_append_left _
      (List.mem_map.2 ⟨i, List.mem_range.2 hi, rfl⟩))))
  · intro i hi
    exact hcols _ (List.mem_append_left _ (List.mem_append_right _
      (List.mem_map.2 ⟨i, List.mem_range.2 hi, rfl⟩)))
  · intro e he i hi r hr
    exact hrows r (List.mem_append_left _ (List.mem_append_left _ (List.mem_flatMap.2 ⟨e, he,
      List.mem_flatMap.2 ⟨i, List.mem_range.2 hi, hr⟩⟩)))
  · intro e he i hi r hr
    refine hrows r (List.mem_append_left _ (List.mem_append_right _ (List.mem_flatMap.2 ⟨e, he,
      List.mem_flatMap.2 ⟨i, List.mem_range.2 hi, ?_⟩⟩)))
    rw [slackFor_nil inp hfac]; exact hr
  · intro e he r hr
    exact hrows r (List.mem_append_right _ (List.mem_flatMap.2 ⟨e, he, hr⟩))

/-- **soundness of the k-Min-Path-Error LP** (no path-length factors) -/
theorem kmpe_sound (inp : MpeInput) (a : Asg) (h : BaseWF inp.ei.fi.base) (hac : Acyclic inp.ei.fi.base)
    (hfac : inp.factors = []) (hsat : Sat a (kmpeLP inp)) :
    ∃ ps : List (List Node),
      decodePaths inp.ei.st (fun e i => a (edgeVar e i)) inp.ei.k = some ps ∧ ps.length = inp.ei.k ∧
      Bounded inp.ei (fun i => ps.getD i []) (fun i => a (weightsVar i)) (fun i => a (slackVar i)) ∧
      (∀ i, i < inp.ei.k → ∀ e ∈ inp.ei.st.g.edges, a (edgeVar e i) = trav inp.ei.st (ps.getD i []) e) ∧
      (∀ e ∈ inp.ei.basicEdges, ∀ i, i < inp.ei.k →
        a (piVar e i) = a (edgeVar e i) * a (weightsVar i) ∧
        a (gammaVar e i) = a (edgeVar e i) * a (slackVar i)) ∧
      evalTerms a (kmpeLP inp).obj = totalSlack inp.ei.k (fun i => a (slackVar i)) := by
  have hwf : STWF inp.ei.st := augment_wf inp.ei.fi.base inp.ei.fi.starts inp.ei.fi.ends h hac
  obtain ⟨henc, hwc, hsc, hbinw, hbins, herr⟩ := kmpe_sat_parts inp a hfac hsat
  obtain ⟨ps, hps, hlen, hroutes, htrav⟩ := decode_routes inp.ei.st inp.ei.fi.cfg a hwf henc
  have hw : ∀ i, i < inp.ei.k → 0 ≤ a (weightsVar i) ∧ a (weightsVar i) ≤ inp.ei.wmax none :=
    fun i hi => ⟨(hwc i hi).1, (hwc i hi).2.1 _ rfl⟩
  have hs : ∀ i, i < inp.ei.k → 0 ≤ a (slackVar i) ∧ a (slackVar i) ≤ inp.ei.wmax none :=
    fun i hi => ⟨(hsc i hi).1, (hsc i hi).2.1 _ rfl⟩
  have hprod : ∀ e ∈ inp.ei.basicEdges, ∀ i, i < inp.ei.k →
      a (piVar e i) = a (edgeVar e i) * a (weightsVar i) ∧
      a (gammaVar e i) = a (edgeVar e i) * a (slackVar i) := by
    intro e he i hi
    have hb := (layerFacts_of_sat inp.ei.st inp.ei.fi.cfg a henc i hi).bin e (mem_basicEdges inp.ei e he)
    exact ⟨(binProd_exact a _ _ _ 0 _ hb (hw i hi)).1 (hbinw e he i hi),
           (binProd_exact a _ _ _ 0 _ hb (hs i hi)).1 (hbins e he i hi)⟩
  refine ⟨ps, hps, hlen, ?_, htrav, hprod, kmpeLP_obj inp a⟩
  refine { routes := hroutes, nonneg := fun i hi => ⟨(hw i hi).1, (hs i hi).1⟩,
           integral := fun hint i hi => ⟨(hwc i hi).2.2 hint, (hsc i hi).2.2 hint⟩,
           slackOK := ?_, wle := fun i hi => ⟨(hw i hi).2, (hs i hi).2⟩ }
  intro e he
  have hee := mem_basicEdges inp.ei e he
  have hsumW : ((List.range inp.ei.k).map fun i => a (piVar e i)).sum
      = explained inp.ei.st inp.ei.k (fun i => ps.getD i []) (fun i => a (weightsVar i)) e := by
    apply sum_map_congr
    intro i hi
    have hi' := List.mem_range.1 hi
    rw [(hprod e he i hi').1, htrav i hi' e hee]; grind
  have hsumS : ((List.range inp.ei.k).map fun i => a (gammaVar e i)).sum
      = explained inp.ei.st inp.ei.k (fun i => ps.getD i []) (fun i => a (slackVar i)) e := by
    apply sum_map_congr
    intro i hi
    have hi' := List.mem_range.1 hi
    rw [(hprod e he i hi').2, htrav i hi' e hee]; grind
  have hmem := herr e he
  unfold errRows at hmem
  have h1 := (hmem _ List.mem_cons_self).2 _ rfl
  have h2 := (hmem _ (List.mem_cons_of_mem _ List.mem_cons_self)).1 _ rfl
  simp only [rowLe, rowGe, evalTerms_append, evalTerms_negTerms, evalTerms_scaled, evalTerms_ones,
    hsumW, hsumS] at h1 h2
  unfold SlackOK
  generalize explained inp.ei.st inp.ei.k (fun i => ps.getD i []) (fun i => a (weightsVar i)) e = S at *
  generalize explained inp.ei.st inp.ei.k (fun i => ps.getD i []) (fun i => a (slackVar i)) e = G at *
  unfold Rat.abs; split <;> grind

/-- **completeness of the k-Min-Path-Error LP** (no path-length factors): every bounded solution is
represented, with objective `Σ slack_i` -/
theorem kmpe_complete (inp : MpeInput) (P : Nat → List Node) (w sl : Nat → Rat)
    (h : BaseWF inp.ei.fi.base) (hac : Acyclic inp.ei.fi.base) (hfac : inp.factors = [])
    (hcons : inp.ei.fi.cfg.constraints = []) (hlen : inp.ei.fi.cfg.lengths = none)
    (hscale : ∀ e ∈ inp.ei.basicEdges, 0 ≤ inp.ei.scale e)
    (hb : Bounded inp.ei P w sl) :
    ∃ a : Asg, Sat a (kmpeLP inp) ∧
      (∀ i, i < inp.ei.k → ∀ e ∈ inp.ei.st.g.edges, a (edgeVar e i) = trav inp.ei.st (P i) e) ∧
      (∀ i, i < inp.ei.k → a (weightsVar i) = w i ∧ a (slackVar i) = sl i) ∧
      evalTerms a (kmpeLP inp).obj = totalSlack inp.ei.k sl := by
  have hwf : STWF inp.ei.st := augment_wf inp.ei.fi.base inp.ei.fi.starts inp.ei.fi.ends h hac
  let σ : ErrSol := { P := P, w := w, sl := sl }
  have hobj : evalTerms (solAsg inp.ei.st σ) (kmpeLP inp).obj = totalSlack inp.ei.k sl := by
    rw [kmpeLP_obj]; unfold totalSlack
    apply sum_map_congr; intro i _; exact solAsg_slack inp.ei.st σ i
  refine ⟨solAsg inp.ei.st σ, ?_, fun i _ e _ => solAsg_edge inp.ei.st σ e i,
    fun i _ => ⟨solAsg_w inp.ei.st σ i, solAsg_slack inp.ei.st σ i⟩, hobj⟩
  have h01 : ∀ i, i < inp.ei.k → ∀ e ∈ inp.ei.st.g.edges,
      trav inp.ei.st (P i) e = 0 ∨ trav inp.ei.st (P i) e = 1 :=
    fun i hi e he => trav01 hwf (hb.routes i hi) e he
  unfold kmpeLP
  simp only [factorBlock_nil inp _ _ hfac]
  refine sat_append_p07 _ _ _ (sat_append_p07 _ _ _ (sat_append_p07 _ _ _
    (solAsg_sat_paths inp.ei.st inp.ei.fi.cfg σ hwf hb.routes hcons hlen) ?_) (sat_empty_p07 _)) ?_
  · -- columns
    refine ⟨fun col hcol => ?_, fun r hr => absurd hr List.not_mem_nil⟩
    simp only at hcol
    rcases List.mem_append.1 hcol with hcol | hcol
    · rcases List.mem_append.1 hcol with hcol | hcol
      · rcases List.mem_append.1 hcol with hcol | hcol
        · -- weights
          obtain ⟨i, hi, rfl⟩ := List.mem_map.1 hcol
          have hi' := List.mem_range.1 hi
          have hv : solAsg inp.ei.st σ (weightsVar i) = w i := solAsg_w inp.ei.st σ i
          refine ⟨?_, ?_, fun hint => ?_⟩
          · show (0:Rat) ≤ solAsg inp.ei.st σ (weightsVar i)
            rw [hv]; exact (hb.nonneg i hi').1
          · intro u hu
            rw [← Option.some.inj hu]
            show solAsg inp.ei.st σ (weightsVar i) ≤ _
            rw [hv]; exact (hb.wle i hi').1
          · show IsInt (solAsg inp.ei.st σ (weightsVar i))
            rw [hv]; exact (hb.integral hint i hi').1
        · -- pi
          obtain ⟨i, hi, hcol⟩ := List.mem_flatMap.1 hcol
          obtain ⟨e, he, rfl⟩ := List.mem_map.1 hcol
          have hi' := List.mem_range.1 hi
          have hv : solAsg inp.ei.st σ (piVar e i) = trav inp.ei.st (P i) e * w i := solAsg_pi inp.ei.st σ e i
          have hw0 := (hb.nonneg i hi').1
          have hw1 := (hb.wle i hi').1
          refine ⟨?_, ?_, fun hint => ?_⟩
          · show (0:Rat) ≤ solAsg inp.ei.st σ (piVar e i)
            rw [hv]; rcases h01 i hi' e he with h0 | h0 <;> rw [h0] <;> grind
          · intro u hu
            rw [← Option.some.inj hu]
            show solAsg inp.ei.st σ (piVar e i) ≤ _
            rw [hv]; rcases h01 i hi' e he with h0 | h0 <;> rw [h0] <;> grind
          · show IsInt (solAsg inp.ei.st σ (piVar e i))
            rw [hv]
            exact isInt_mul (isInt_natCast _) (hb.integral hint i hi').1
      · -- slacks
        obtain ⟨i, hi, rfl⟩ := List.mem_map.1 hcol
        have hi' := List.mem_range.1 hi
        have hv : solAsg inp.ei.st σ (slackVar i) = sl i := solAsg_slack inp.ei.st σ i
        refine ⟨?_, ?_, fun hint => ?_⟩
        · show (0:Rat) ≤ solAsg inp.ei.st σ (slackVar i)
          rw [hv]; exact (hb.nonneg i hi').2
        · intro u hu
          rw [← Option.some.inj hu]
          show solAsg inp.ei.st σ (slackVar i) ≤ _
          rw [hv]; exact (hb.wle i hi').2
        · show IsInt (solAsg inp.ei.st σ (slackVar i))
          rw [hv]; exact (hb.integral hint i hi').2
    · -- gamma
      obtain ⟨i, hi, hcol⟩ := List.mem_flatMap.1 hcol
      obtain ⟨e, he, rfl⟩ := List.mem_map.1 hcol
      have hi' := List.mem_range.1 hi
      have hv : solAsg inp.ei.st σ (gammaVar e i) = trav inp.ei.st (P i) e * sl i := solAsg_gamma inp.ei.st σ e i
      have hs0 := (hb.nonneg i hi').2
      have hs1 := (hb.wle i hi').2
      refine ⟨?_, ?_, fun hint => by simp at hint⟩
      · show (0:Rat) ≤ solAsg inp.ei.st σ (gammaVar e i)
        rw [hv]; rcases h01 i hi' e he with h0 | h0 <;> rw [h0] <;> grind
      · intro u hu
        rw [← Option.some.inj hu]
        show solAsg inp.ei.st σ (gammaVar e i) ≤ _
        rw [hv]; rcases h01 i hi' e he with h0 | h0 <;> rw [h0] <;> grind
  · -- rows
    refine ⟨fun col hcol => absurd hcol List.not_mem_nil, fun r hr => ?_⟩
    simp only at hr
    rcases List.mem_append.1 hr with hr | hr
    · rcases List.mem_append.1 hr with hr | hr
      · obtain ⟨e, he, hr⟩ := List.mem_flatMap.1 hr
        obtain ⟨i, hi, hr⟩ := List.mem_flatMap.1 hr
        have hi' := List.mem_range.1 hi
        refine (binProd_exact (solAsg inp.ei.st σ) (edgeVar e i) (weightsVar i) (piVar e i) 0
          (inp.ei.wmax none) ?_ ?_).2 ?_ r hr
        · rw [solAsg_edge]; exact h01 i hi' e (mem_basicEdges inp.ei e he)
        · rw [solAsg_w]; exact ⟨(hb.nonneg i hi').1, (hb.wle i hi').1⟩
        · rw [solAsg_pi, solAsg_edge, solAsg_w]
      · obtain ⟨e, he, hr⟩ := List.mem_flatMap.1 hr
        obtain ⟨i, hi, hr⟩ := List.mem_flatMap.1 hr
        have hi' := List.mem_range.1 hi
        rw [slackFor_nil inp hfac] at hr
        refine (binProd_exact (solAsg inp.ei.st σ) (edgeVar e i) (slackVar i) (gammaVar e i) 0
          (inp.ei.wmax none) ?_ ?_).2 ?_ r hr
        · rw [solAsg_edge]; exact h01 i hi' e (mem_basicEdges inp.ei e he)
        · rw [solAsg_slack]; exact ⟨(hb.nonneg i hi').2, (hb.wle i hi').2⟩
        · rw [solAsg_gamma, solAsg_edge, solAsg_slack]
    · obtain ⟨e, he, hr⟩ := List.mem_flatMap.1 hr
      have hsumW : ((List.range inp.ei.k).map fun i => solAsg inp.ei.st σ (piVar e i)).sum
          = explained inp.ei.st inp.ei.k P w e := by
        apply sum_map_congr; intro i _; rw [solAsg_pi]; grind
      have hsumS : ((List.range inp.ei.k).map fun i => solAsg inp.ei.st σ (gammaVar e i)).sum
          = explained inp.ei.st inp.ei.k P sl e := by
        apply sum_map_congr; intro i _; rw [solAsg_gamma]; grind
      have hok := hb.slackOK e he
      unfold SlackOK at hok
      have ha1 := Rat.mul_le_mul_of_nonneg_right
        (le_abs (inp.ei.fi.f e - explained inp.ei.st inp.ei.k P w e)) (hscale e he)
      have ha2 := Rat.mul_le_mul_of_nonneg_right
        (neg_le_abs (inp.ei.fi.f e - explained inp.ei.st inp.ei.k P w e)) (hscale e he)
      simp only [errRows, List.mem_cons, List.not_mem_nil, or_false] at hr
      generalize explained inp.ei.st inp.ei.k P w e = S at *
      generalize explained inp.ei.st inp.ei.k P sl e = G at *
      generalize (inp.ei.fi.f e - S).abs = A at *
      rcases hr with rfl | rfl
      · refine ⟨fun l hl => by simp [rowLe] at hl, fun u hu => ?_⟩
        rw [← Option.some.inj hu]
        simp only [rowLe, evalTerms_append, evalTerms_negTerms, evalTerms_scaled, evalTerms_ones,
          hsumW, hsumS]
        grind
      · refine ⟨fun l hl => ?_, fun u hu => by simp [rowGe] at hu⟩
        rw [← Option.some.inj hl]
        simp only [rowGe, evalTerms_append, evalTerms_scaled, evalTerms_ones, hsumW, hsumS]
        grind

/-! ## feasibility from a path cover -/

/-- on a covering family of routes, weights 0 and slacks `fmax` form a bounded solution -/
theorem cover_solution_bounded (inp : ErrInput) (P : Nat → List Node) (hk : 1 ≤ inp.k)
    (hroutes : ∀ i, i < inp.k → Route inp.st inp.fi.cfg.allowEmpty (P i)) (hcov : Covers inp P)
    (hf : ∀ e ∈ inp.basicEdges, 0 ≤ inp.fi.f e ∧ inp.fi.f e ≤ inp.fmax)
    (hscale : ∀ e ∈ inp.basicEdges, 0 ≤ inp.scale e ∧ inp.scale e ≤ 1) :
    Bounded inp P (fun _ => 0) (fun _ => inp.fmax) := by
  have hM0 := fmax_nonneg inp hf
  have hMw := fmax_le_wmax inp hk hM0
  refine { routes := hroutes, nonneg := fun _ _ => ⟨Rat.le_refl, hM0⟩,
           integral := fun hint _ _ => ⟨isInt_zero, fmax_isInt inp hint⟩,
           slackOK := ?_, wle := fun _ _ => ⟨Rat.le_trans hM0 hMw, hMw⟩ }
  intro e he
  obtain ⟨i, hi, ht⟩ := hcov e he
  have h0 : explained inp.st inp.k P (fun _ => 0) e = 0 := by
    apply sum_map_zero; intro j _; grind
  have hle := le_sum_of_mem (List.range inp.k) (fun j => inp.fmax * trav inp.st (P j) e)
    (fun j _ => Rat.mul_nonneg hM0 (trav_nonneg _ _ _)) i (List.mem_range.2 hi)
  simp only [ht] at hle
  obtain ⟨hf0, hf1⟩ := hf e he
  obtain ⟨hs0, hs1⟩ := hscale e he
  have hfs := Rat.mul_le_mul_of_nonneg_left hs1 hf0
  unfold SlackOK
  rw [h0]
  have habs : (inp.fi.f e - 0).abs = inp.fi.f e := by unfold Rat.abs; split <;> grind
  rw [habs]
  unfold explained
  grind

/-- **feasibility for every `k` that admits a path cover of the non-ignored edges** -/
theorem kmpe_feasible_of_cover (inp : MpeInput) (P : Nat → List Node)
    (h : BaseWF inp.ei.fi.base) (hac : Acyclic inp.ei.fi.base) (hfac : inp.factors = [])
    (hcons : inp.ei.fi.cfg.constraints = []) (hlen : inp.ei.fi.cfg.lengths = none) (hk : 1 ≤ inp.ei.k)
    (hroutes : ∀ i, i < inp.ei.k → Route inp.ei.st inp.ei.fi.cfg.allowEmpty (P i))
    (hcov : Covers inp.ei P)
    (hf : ∀ e ∈ inp.ei.basicEdges, 0 ≤ inp.ei.fi.f e ∧ inp.ei.fi.f e ≤ inp.ei.fmax)
    (hscale : ∀ e ∈ inp.ei.basicEdges, 0 ≤ inp.ei.scale e ∧ inp.ei.scale e ≤ 1) :
    ∃ a : Asg, Sat a (kmpeLP inp) ∧
      (∀ i, i < inp.ei.k → ∀ e ∈ inp.ei.st.g.edges, a (edgeVar e i) = trav inp.ei.st (P i) e) ∧
      evalTerms a (kmpeLP inp).obj = (inp.ei.k : Rat) * inp.ei.fmax := by
  obtain ⟨a, hsat, hx, _, hobj⟩ := kmpe_complete inp P (fun _ => 0) (fun _ => inp.ei.fmax) h hac hfac
    hcons hlen (fun e he => (hscale e he).1)
    (cover_solution_bounded inp.ei P hk hroutes hcov hf hscale)
  refine ⟨a, hsat, hx, ?_⟩
  rw [hobj]; unfold totalSlack
  rw [sum_map_const, List.length_range]

/-! ## optimality -/

/-- **optimality transfer**: an optimal assignment decodes to a bounded solution of minimum total
slack among all bounded solutions -/
theorem kmpe_opt_transfer (inp : MpeInput) (a : Asg) (h : BaseWF inp.ei.fi.base) (hac : Acyclic inp.ei.fi.base)
    (hfac : inp.factors = [])
    (hcons : inp.ei.fi.cfg.constraints = []) (hlen : inp.ei.fi.cfg.lengths = none)
    (hscale : ∀ e ∈ inp.ei.basicEdges, 0 ≤ inp.ei.scale e)
    (hsat : Sat a (kmpeLP inp))
    (hopt : ∀ a', Sat a' (kmpeLP inp) → evalTerms a (kmpeLP inp).obj ≤ evalTerms a' (kmpeLP inp).obj) :
    ∃ ps : List (List Node),
      decodePaths inp.ei.st (fun e i => a (edgeVar e i)) inp.ei.k = some ps ∧
      Bounded inp.ei (fun i => ps.getD i []) (fun i => a (weightsVar i)) (fun i => a (slackVar i)) ∧
      (∀ P' w' sl', Bounded inp.ei P' w' sl' →
        totalSlack inp.ei.k (fun i => a (slackVar i)) ≤ totalSlack inp.ei.k sl') ∧
      evalTerms a (kmpeLP inp).obj = totalSlack inp.ei.k (fun i => a (slackVar i)) := by
  obtain ⟨ps, hps, _, hbd, _, _, hobj⟩ := kmpe_sound inp a h hac hfac hsat
  refine ⟨ps, hps, hbd, fun P' w' sl' hb' => ?_, hobj⟩
  obtain ⟨a', hsat', _, _, hobj'⟩ := kmpe_complete inp P' w' sl' h hac hfac hcons hlen hscale hb'
  have := hopt a' hsat'
  rw [hobj, hobj'] at this
  exact this

/-- **the LP optimum is optimal among all solutions** (weights and slacks unbounded), as soon as
some family of `k` routes covers the non-ignored edges -/
theorem kmpe_opt_unbounded (inp : MpeInput) (a : Asg) (Pc : Nat → List Node)
    (h : BaseWF inp.ei.fi.base) (hac : Acyclic inp.ei.fi.base) (hfac : inp.factors = [])
    (hcons : inp.ei.fi.cfg.constraints = []) (hlen : inp.ei.fi.cfg.lengths = none) (hk : 1 ≤ inp.ei.k)
    (hroutes : ∀ i, i < inp.ei.k → Route inp.ei.st inp.ei.fi.cfg.allowEmpty (Pc i))
    (hcov : Covers inp.ei Pc)
    (hf : ∀ e ∈ inp.ei.basicEdges, 0 ≤ inp.ei.fi.f e ∧ inp.ei.fi.f e ≤ inp.ei.fmax)
    (hscale : ∀ e ∈ inp.ei.basicEdges, 0 ≤ inp.ei.scale e ∧ inp.ei.scale e ≤ 1)
    (hsat : Sat a (kmpeLP inp))
    (hopt : ∀ a', Sat a' (kmpeLP inp) → evalTerms a (kmpeLP inp).obj ≤ evalTerms a' (kmpeLP inp).obj) :
    ∀ P' w' sl', Solution inp.ei P' w' sl' →
      totalSlack inp.ei.k (fun i => a (slackVar i)) ≤ totalSlack inp.ei.k sl' := by
  have hscale0 := fun e he => (hscale e he).1
  obtain ⟨ps, _, _, hmin, _⟩ := kmpe_opt_transfer inp a h hac hfac hcons hlen hscale0 hsat hopt
  intro P' w' sl' hs'
  have hM0 := fmax_nonneg inp.ei hf
  have hcb := cover_solution_bounded inp.ei Pc hk hroutes hcov hf hscale
  have hcT : totalSlack inp.ei.k (fun _ => inp.ei.fmax) = (inp.ei.k : Rat) * inp.ei.fmax := by
    unfold totalSlack; rw [sum_map_const, List.length_range]
  by_cases hT : (inp.ei.k : Rat) * inp.ei.fmax ≤ totalSlack inp.ei.k sl'
  · have := hmin Pc _ _ hcb
    rw [hcT] at this
    exact Rat.le_trans this hT
  · -- every slack is below `w_max`; clamp the weights
    have hsl : ∀ i, i < inp.ei.k → sl' i ≤ inp.ei.wmax none := by
      intro i hi
      have := le_sum_of_mem (List.range inp.ei.k) sl' (fun j hj => (hs'.nonneg j (List.mem_range.1 hj)).2)
        i (List.mem_range.2 hi)
      unfold totalSlack at hT
      rw [wmax_eq]
      grind
    have hlae : LAE.Solution inp.ei P' w' :=
      { routes := hs'.routes, nonneg := fun i hi => (hs'.nonneg i hi).1,
        integral := fun hint i hi => (hs'.integral hint i hi).1 }
    obtain ⟨hbw, herr⟩ := wmax_adequate inp.ei P' w' h hac hk hf hlae
    refine hmin P' (clampW inp.ei w') sl'
      { routes := hs'.routes, nonneg := fun i hi => ⟨hbw.nonneg i hi, (hs'.nonneg i hi).2⟩,
        integral := fun hint i hi => ⟨hbw.integral hint i hi, (hs'.integral hint i hi).2⟩,
        slackOK := ?_, wle := fun i hi => ⟨hbw.wle i hi, hsl i hi⟩ }
    intro e he
    have h1 := hs'.slackOK e he
    have h2 := Rat.mul_le_mul_of_nonneg_right (herr e he) (hscale0 e he)
    unfold SlackOK at h1 ⊢
    unfold LAE.absErr at h2
    exact Rat.le_trans h2 h1

end FP
