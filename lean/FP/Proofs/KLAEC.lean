import FP.Model.Enc.KLAEC
import FP.Model.WalkDecode
import FP.Spec.ErrWalks
import FP.Proofs.KFDC
import FP.Proofs.ErrAsg
/-!
# FP.Proofs.KLAEC — soundness of the `kLeastAbsErrorsCycles` LP (`klaecLP`)

* the LP split into its blocks (`klaecLP_eq`, by `rfl`): the walk core with the repetition caps
  `klaecCap` (floor of the largest flow value reachable from / reaching the edge inside an SCC,
  `1` outside) and
  the error block `klaecErr` (`pi`, weights, `ee` columns, the product blocks, the two error rows
  per non-ignored edge, the objective);
* `klaec_sat_walkProducts_iff`: the block of products is satisfied iff every single `intProdQ` fragment is;
* `klaec_sound_proof`: every satisfying assignment decodes to walks, `pi = w · traversals`,
  `ee(e) ≥ |f(e) − Σ_i w_i · traversals_i(e)|`, objective `Σ scale(e)·ee(e)`.
-/
namespace FP
open FP.Spec

/-! ## blocks of the LP -/

/-- `edge_upper_bounds[e]` of the two cyclic error models -/
def klaecCap (inp : WalkInput) (e : Edge) : Rat := lookupD (reachBounds inp) e 1

/-- `create_solver_and_walks` of the two cyclic error models -/
def klaecCore (inp : WalkInput) : LP := walkCore inp.st inp.cfg (klaecCap inp)

/-- `_encode_leastabserrors_decomposition` and `_encode_objective` -/
def klaecErr (inp : WalkInput) : LP :=
  let prods := walkProducts (inp.activeEdges true) inp.k weightsVar piVar (inp.wmax true) klaecProdName
  { cols := ((List.range inp.k).flatMap fun i => inp.st.g.edges.map fun e =>
        { v := piVar e i, lb := 0, ub := some (inp.wmax true), isInt := inp.weightInt })
      ++ ((List.range inp.k).map fun i =>
        { v := weightsVar i, lb := 0, ub := some (inp.wmax true), isInt := inp.weightInt })
      ++ ((inp.activeEdges true).map fun e =>
        { v := eeVar e, lb := 0, ub := some (inp.wmax true), isInt := inp.weightInt })
      ++ prods.cols,
    rows := prods.rows
      ++ (inp.activeEdges true).flatMap fun e =>
        [ rowLe (negTerms (ones (List.range inp.k) (piVar e)) ++ [(-1, eeVar e)]) (-(inp.f e)),
          rowLe (ones (List.range inp.k) (piVar e) ++ [(-1, eeVar e)]) (inp.f e) ],
    obj := (inp.activeEdges true).map fun e => (inp.scale e, eeVar e) }

theorem klaecLP_eq (inp : WalkInput) : klaecLP inp = (klaecCore inp).append (klaecErr inp) := rfl

/-- the cap of an edge of the augmented graph: inside an SCC the floor (since fix fcfd0b0) of the
largest flow value (`0` where the attribute is missing, ignored edges included) among the edge
itself, the edges leaving a vertex reachable from its head and the edges entering a vertex that
reaches its tail; `1` outside the SCCs -/
theorem klaecCap_eq (inp : WalkInput) (e : Edge) (he : e ∈ inp.st.g.edges) :
    klaecCap inp e = if isSccEdge inp.st.g e
      then (((lookupD (edgeMaxReachable inp.st.g fun e => (inp.fOpt e).getD 0) e 0).floor : Int) : Rat)
      else 1 :=
  lookupD_capBounds _ _ e he

/-- the caps of the two cyclic error models are integers (since fix fcfd0b0) -/
theorem klaecCap_int (inp : WalkInput) (e : Edge) : ∃ z : Int, klaecCap inp e = (z : Rat) :=
  lookupD_capBounds_int _ _ e

/-- the solver's objective at an assignment: `Σ_e scale(e)·ee(e)` over the non-ignored edges -/
theorem klaecLP_obj (inp : WalkInput) (a : Asg) :
    evalTerms a (klaecLP inp).obj = ((inp.activeEdges true).map fun e => inp.scale e * a (eeVar e)).sum := by
  show evalTerms a ((inp.activeEdges true).map fun e => (inp.scale e, eeVar e)) = _
  rw [evalTerms_map]

/-! ## the block of products -/

theorem klaec_sat_walkProducts_iff (a : Asg) (edges : List Edge) (k : Nat) (cont : Nat → Var)
    (prod : Edge → Nat → Var) (ub : Rat) (name : Edge → Nat → String) :
    Sat a (walkProducts edges k cont prod ub name) ↔
      ∀ e ∈ edges, ∀ i, i < k →
        Sat a (intProdQ (edgeVar e i) (cont i) (prod e i) 0 ub (name e i)) := by
  constructor
  · intro h e he i hi
    have hpart : intProdQ (edgeVar e i) (cont i) (prod e i) 0 ub (name e i)
        ∈ edges.flatMap fun e => (List.range k).map fun i =>
          intProdQ (edgeVar e i) (cont i) (prod e i) 0 ub (name e i) :=
      List.mem_flatMap.2 ⟨e, he, List.mem_map.2 ⟨i, List.mem_range.2 hi, rfl⟩⟩
    exact ⟨fun c hc => h.1 c (List.mem_flatMap.2 ⟨_, hpart, hc⟩),
           fun r hr => h.2 r (List.mem_flatMap.2 ⟨_, hpart, hr⟩)⟩
  · intro h
    constructor
    · intro c hc
      simp only [walkProducts] at hc
      obtain ⟨part, hpart, hc⟩ := List.mem_flatMap.1 hc
      obtain ⟨e, he, hpart⟩ := List.mem_flatMap.1 hpart
      obtain ⟨i, hi, rfl⟩ := List.mem_map.1 hpart
      exact (h e he i (List.mem_range.1 hi)).1 c hc
    · intro r hr
      simp only [walkProducts] at hr
      obtain ⟨part, hpart, hr⟩ := List.mem_flatMap.1 hr
      obtain ⟨e, he, hpart⟩ := List.mem_flatMap.1 hpart
      obtain ⟨i, hi, rfl⟩ := List.mem_map.1 hpart
      exact (h e he i (List.mem_range.1 hi)).2 r hr

/-! ## what a satisfying assignment says -/

section Sound
variable {inp : WalkInput} {a : Asg}

theorem klaec_sat_enc (h : Sat a (klaecLP inp)) : Sat a (encodeWalks inp.st inp.cfg (klaecCap inp)) :=
  sat_append_left a _ _ (sat_append_left a _ _ h)

theorem klaec_edge_cap_col {ub : Edge → Rat} (h : Sat a (encodeWalks inp.st inp.cfg ub)) {i : Nat}
    (hi : i < inp.k) {e : Edge} (he : e ∈ inp.st.g.edges) : a (edgeVar e i) ≤ ub e := by
  have := h.1 { v := edgeVar e i, lb := 0, ub := some (ub e), isInt := true }
    (List.mem_append_left _ (List.mem_append_left _
      (List.mem_flatMap.2 ⟨i, List.mem_range.2 hi, List.mem_map.2 ⟨e, he, rfl⟩⟩)))
  exact this.2.1 _ rfl

theorem klaec_weights_col (h : Sat a (klaecLP inp)) {i : Nat} (hi : i < inp.k) :
    0 ≤ a (weightsVar i) ∧ a (weightsVar i) ≤ inp.wmax true ∧
      (inp.weightInt = true → IsInt (a (weightsVar i))) := by
  have := (sat_append_right a _ _ h).1
    { v := weightsVar i, lb := 0, ub := some (inp.wmax true), isInt := inp.weightInt }
    (List.mem_append_left _ (List.mem_append_left _ (List.mem_append_right _
      (List.mem_map.2 ⟨i, List.mem_range.2 hi, rfl⟩))))
  exact ⟨this.1, this.2.1 _ rfl, this.2.2⟩

theorem klaec_pi_col (h : Sat a (klaecLP inp)) {i : Nat} (hi : i < inp.k) {e : Edge}
    (he : e ∈ inp.st.g.edges) :
    0 ≤ a (piVar e i) ∧ a (piVar e i) ≤ inp.wmax true ∧ (inp.weightInt = true → IsInt (a (piVar e i))) := by
  have := (sat_append_right a _ _ h).1
    { v := piVar e i, lb := 0, ub := some (inp.wmax true), isInt := inp.weightInt }
    (List.mem_append_left _ (List.mem_append_left _ (List.mem_append_left _
      (List.mem_flatMap.2 ⟨i, List.mem_range.2 hi, List.mem_map.2 ⟨e, he, rfl⟩⟩))))
  exact ⟨this.1, this.2.1 _ rfl, this.2.2⟩

theorem klaec_ee_col (h : Sat a (klaecLP inp)) {e : Edge} (he : e ∈ inp.activeEdges true) :
    0 ≤ a (eeVar e) ∧ a (eeVar e) ≤ inp.wmax true ∧ (inp.weightInt = true → IsInt (a (eeVar e))) := by
  have := (sat_append_right a _ _ h).1
    { v := eeVar e, lb := 0, ub := some (inp.wmax true), isInt := inp.weightInt }
    (List.mem_append_left _ (List.mem_append_right _ (List.mem_map.2 ⟨e, he, rfl⟩)))
  exact ⟨this.1, this.2.1 _ rfl, this.2.2⟩

theorem klaec_sat_prods (h : Sat a (klaecLP inp)) :
    Sat a (walkProducts (inp.activeEdges true) inp.k weightsVar piVar (inp.wmax true) klaecProdName) := by
  have hf := sat_append_right a _ _ h
  exact ⟨fun c hc => hf.1 c (List.mem_append_right _ hc), fun r hr => hf.2 r (List.mem_append_left _ hr)⟩

theorem klaec_pi_eq (h : Sat a (klaecLP inp)) {i : Nat} (hi : i < inp.k) {e : Edge}
    (he : e ∈ inp.activeEdges true) : a (piVar e i) = a (edgeVar e i) * a (weightsVar i) := by
  have hw := klaec_weights_col h hi
  exact intProdQ_sound a _ _ _ 0 (inp.wmax true) _ ⟨hw.1, hw.2.1⟩
    ((klaec_sat_walkProducts_iff a _ _ _ _ _ _).1 (klaec_sat_prods h) e he i hi)

theorem klaec_err_rows (h : Sat a (klaecLP inp)) {e : Edge} (he : e ∈ inp.activeEdges true) :
    inp.f e - ((List.range inp.k).map fun i => a (piVar e i)).sum ≤ a (eeVar e) ∧
    ((List.range inp.k).map fun i => a (piVar e i)).sum - inp.f e ≤ a (eeVar e) := by
  have hrows := (sat_append_right a _ _ h).2
  have h1 := (hrows (rowLe (negTerms (ones (List.range inp.k) (piVar e)) ++ [(-1, eeVar e)]) (-(inp.f e)))
    (List.mem_append_right _ (List.mem_flatMap.2 ⟨e, he, by simp⟩))).2 _ rfl
  have h2 := (hrows (rowLe (ones (List.range inp.k) (piVar e) ++ [(-1, eeVar e)]) (inp.f e))
    (List.mem_append_right _ (List.mem_flatMap.2 ⟨e, he, by simp⟩))).2 _ rfl
  simp only [rowLe, evalTerms_append, evalTerms_negTerms, evalTerms_ones, evalTerms_single] at h1 h2
  constructor <;> grind

end Sound

/-- the layer facts shared by the two cyclic error models: decoded walks are routes of the user's graph,
their traversal counts are the edge variables, natural numbers within the caps -/
theorem klaec_layers (inp : WalkInput) (a : Asg) (h : BaseWF inp.base)
    (henc : Sat a (encodeWalks inp.st inp.cfg (klaecCap inp))) :
    (∀ i, i < inp.k →
        (decodeWalkLayer inp.st a i = [] → inp.cfg.allowEmpty = true) ∧
        (decodeWalkLayer inp.st a i ≠ [] →
          ValidRoute inp.base inp.starts inp.ends (decodeWalkLayer inp.st a i))) ∧
    (∀ i, i < inp.k → ∀ e ∈ inp.st.g.edges,
        traversals (inp.st.source :: decodeWalkLayer inp.st a i ++ [inp.st.sink]) e = multOf a i e ∧
        a (edgeVar e i) = (multOf a i e : Rat) ∧ (multOf a i e : Rat) ≤ klaecCap inp e) := by
  have hwf : STWFc inp.st := augment_wfc inp.base inp.starts inp.ends h
  constructor
  · intro i hi
    exact walk_routes_valid inp.base inp.starts inp.ends inp.cfg (klaecCap inp) a h henc i hi
  · intro i hi e he
    have hcol := edge_col henc hi he
    refine ⟨layer_traversals inp.st inp.cfg _ a hwf henc i hi e he, hcol, ?_⟩
    rw [← hcol]; exact klaec_edge_cap_col henc hi he

/-- **soundness of the `kLeastAbsErrorsCycles` LP.** -/
theorem klaec_sound_proof (inp : WalkInput) (a : Asg) (h : BaseWF inp.base) (hsat : Sat a (klaecLP inp)) :
    (∀ i, i < inp.k → 0 ≤ a (weightsVar i) ∧ a (weightsVar i) ≤ inp.wmax true ∧
        (inp.weightInt = true → IsInt (a (weightsVar i)))) ∧
    (∀ i, i < inp.k →
        (decodeWalkLayer inp.st a i = [] → inp.cfg.allowEmpty = true) ∧
        (decodeWalkLayer inp.st a i ≠ [] →
          ValidRoute inp.base inp.starts inp.ends (decodeWalkLayer inp.st a i))) ∧
    (∀ i, i < inp.k → ∀ e ∈ inp.st.g.edges,
        traversals (inp.st.source :: decodeWalkLayer inp.st a i ++ [inp.st.sink]) e = multOf a i e ∧
        a (edgeVar e i) = (multOf a i e : Rat) ∧ (multOf a i e : Rat) ≤ klaecCap inp e) ∧
    (∀ e ∈ inp.activeEdges true, ∀ i, i < inp.k →
        a (piVar e i) = a (weightsVar i) * (multOf a i e : Rat) ∧ a (piVar e i) ≤ inp.wmax true) ∧
    (∀ e ∈ inp.activeEdges true,
        LAEC.absErr inp (decodeWalkLayer inp.st a) (fun i => a (weightsVar i)) e ≤ a (eeVar e) ∧
        a (eeVar e) ≤ inp.wmax true ∧ (inp.weightInt = true → IsInt (a (eeVar e)))) ∧
    evalTerms a (klaecLP inp).obj
      = ((inp.activeEdges true).map fun e => inp.scale e * a (eeVar e)).sum := by
  have henc := klaec_sat_enc hsat
  obtain ⟨hroutes, hlayer⟩ := klaec_layers inp a h henc
  have hpi : ∀ e ∈ inp.activeEdges true, ∀ i, i < inp.k →
      a (piVar e i) = a (weightsVar i) * (multOf a i e : Rat) ∧ a (piVar e i) ≤ inp.wmax true := by
    intro e he i hi
    have hee : e ∈ inp.st.g.edges := (List.mem_filter.1 he).1
    refine ⟨?_, (klaec_pi_col hsat hi hee).2.1⟩
    rw [klaec_pi_eq hsat hi he, (hlayer i hi e hee).2.1]; grind
  refine ⟨fun i hi => klaec_weights_col hsat hi, hroutes, hlayer, hpi, ?_, klaecLP_obj inp a⟩
  intro e he
  have hee : e ∈ inp.st.g.edges := (List.mem_filter.1 he).1
  have hsum : ((List.range inp.k).map fun i => a (piVar e i)).sum
      = walkExplained inp.st.source inp.st.sink inp.k (decodeWalkLayer inp.st a)
          (fun i => a (weightsVar i)) e := by
    unfold walkExplained
    apply sum_map_congr
    intro i hi
    have hi' := List.mem_range.1 hi
    rw [(hpi e he i hi').1, (hlayer i hi' e hee).1]
  obtain ⟨h1, h2⟩ := klaec_err_rows hsat he
  rw [hsum] at h1 h2
  have hc := klaec_ee_col hsat he
  refine ⟨?_, hc.2.1, hc.2.2⟩
  unfold LAEC.absErr
  apply abs_le <;> grind

end FP
