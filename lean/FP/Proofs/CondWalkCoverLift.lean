import FP.Proofs.CondWalkCoverDemand
import FP.Proofs.FlowCover
import FP.Spec.Cover
/-!
# FP.Proofs.CondWalkCoverLift — a path of the expanded condensation lifts to a walk of the digraph

* `CwcWalk`: walks of the digraph as edge sequences, composition, conversion to vertex sequences;
* `cwc_walk_through`: in a strongly connected node set there is a walk between any two of its nodes
  through all of a given list of edges inside it;
* `cwc_lift_route`: a source-to-sink path of the expanded condensation lifts to a source-to-sink walk
  of the digraph that traverses every member edge of every SCC whose edge `(k, k_expanded)` the path
  uses, and, for every condensation edge the path uses, the parallel edge a choice function selects.
-/
namespace FP
open FP.Spec CondInput

/-- `l` is the edge sequence of a walk from `u` to `v` along edges of `es` -/
inductive CwcWalk (es : List Edge) : Node → Node → List Edge → Prop
  | nil (u : Node) : CwcWalk es u u []
  | cons {u v w : Node} {l : List Edge} : (u, v) ∈ es → CwcWalk es v w l → CwcWalk es u w ((u, v) :: l)

theorem CwcWalk.append {es : List Edge} {u v w : Node} {l1 l2 : List Edge}
    (h1 : CwcWalk es u v l1) (h2 : CwcWalk es v w l2) : CwcWalk es u w (l1 ++ l2) := by
  induction h1 with
  | nil => exact h2
  | cons he _ ih => exact CwcWalk.cons he (ih h2)

theorem cwc_walk_of_reach {es : List Edge} {u v : Node} (h : Reach es u v) : ∃ l, CwcWalk es u v l := by
  induction h with
  | refl => exact ⟨[], CwcWalk.nil _⟩
  | step _ he ih =>
    obtain ⟨l, hl⟩ := ih
    exact ⟨l ++ [_], hl.append (CwcWalk.cons he (CwcWalk.nil _))⟩

/-- the vertex sequence of a walk -/
theorem cwc_walk_nodes {es : List Edge} {u v : Node} {l : List Edge} (h : CwcWalk es u v l) :
    ∃ p : List Node, p.head? = some u ∧ p.getLast? = some v ∧ walkEdges p = l ∧ ∀ e ∈ l, e ∈ es := by
  induction h with
  | nil u => exact ⟨[u], rfl, rfl, walkEdges_single u, by simp⟩
  | @cons u v w l he _ ih =>
    obtain ⟨p, h1, h2, h3, h4⟩ := ih
    cases p with
    | nil => simp at h1
    | cons y t =>
      have hy : y = v := by simpa using h1
      subst hy
      refine ⟨u :: y :: t, rfl, ?_, ?_, ?_⟩
      · rw [List.getLast?_cons_cons]; exact h2
      · rw [walkEdges_cons_cons, h3]
      · intro e hm
        rcases List.mem_cons.1 hm with rfl | hm
        · exact he
        · exact h4 e hm

/-- **a walk through all edges of a strongly connected set** between any two of its nodes -/
theorem cwc_walk_through (es : List Edge) (S : Node → Prop)
    (hS : ∀ x y, S x → S y → Reach es x y) (v : Node) (hv : S v) :
    ∀ (M : List Edge), (∀ e ∈ M, e ∈ es ∧ S e.1 ∧ S e.2) → ∀ u, S u →
      ∃ l, CwcWalk es u v l ∧ ∀ e ∈ M, e ∈ l := by
  intro M
  induction M with
  | nil =>
    intro _ u hu
    obtain ⟨l, hl⟩ := cwc_walk_of_reach (hS u v hu hv)
    exact ⟨l, hl, by simp⟩
  | cons e M ih =>
    intro hM u hu
    obtain ⟨he, h1, h2⟩ := hM e List.mem_cons_self
    obtain ⟨l1, hl1⟩ := cwc_walk_of_reach (hS u e.1 hu h1)
    obtain ⟨l2, hl2, hc2⟩ := ih (fun e' he' => hM e' (List.mem_cons_of_mem _ he')) e.2 h2
    refine ⟨l1 ++ (e.1, e.2) :: l2, hl1.append (CwcWalk.cons he hl2), ?_⟩
    intro e' he'
    rcases List.mem_cons.1 he' with rfl | he'
    · exact List.mem_append_right _ List.mem_cons_self
    · exact List.mem_append_right _ (List.mem_cons_of_mem _ (hc2 e' he'))

/-- a choice of one edge of the digraph for every edge of the condensation -/
def CwcChoice (c : CondInput) (ch : Nat × Nat → Edge) : Prop :=
  ∀ ab ∈ c.condEdges, ch ab ∈ c.g.edges ∧ c.comp (ch ab).1 = ab.1 ∧ c.comp (ch ab).2 = ab.2

section Lift
variable {c : CondInput} (hok : CwcOK c)
  (hlive : ∀ v ∈ c.g.nodes, Reach c.g.edges srcName v ∧ Reach c.g.edges v snkName)
  (ch : Nat × Nat → Edge) (hch : CwcChoice c ch)

include hok in
/-- two nodes with the same label are joined by a walk -/
theorem cwc_same_comp_reach {u v : Node} (hu : u ∈ c.g.nodes) (hv : v ∈ c.g.nodes)
    (h : c.comp u = c.comp v) : Reach c.g.edges u v := ((hok.scc u hu v hv).1 h).1

include hok in
/-- a closed walk at `u` through all member edges of its component -/
theorem cwc_scc_tour {u : Node} (hu : u ∈ c.g.nodes) :
    ∃ l, CwcWalk c.g.edges u u l ∧ ∀ e ∈ c.members (c.comp u), e ∈ l := by
  apply cwc_walk_through c.g.edges (fun x => x ∈ c.g.nodes ∧ c.comp x = c.comp u)
    (fun x y hx hy => cwc_same_comp_reach hok hx.1 hy.1 (hx.2.trans hy.2.symm)) u ⟨hu, rfl⟩
    _ _ u ⟨hu, rfl⟩
  intro e he
  have := cwc_mem_members.1 he
  exact ⟨this.1, ⟨(hok.closed e this.1).1, this.2.1⟩, ⟨(hok.closed e this.1).2, this.2.2⟩⟩

include hok hlive hch in
theorem cwc_lift_suffix : ∀ (t : List Node) (x : Node),
    IsWalkIn c.expandedST.g (x :: t) → (x :: t).getLast? = some snkName → x ≠ srcName → x ≠ snkName →
    ∀ u ∈ c.g.nodes, (x = cname (c.comp u) ∨ x = cexp (c.comp u)) →
    ∃ l, CwcWalk c.g.edges u snkName l ∧
      (∀ k, (cname k, cexp k) ∈ walkEdges (x :: t) → ∀ e ∈ c.members k, e ∈ l) ∧
      (∀ ab ∈ c.condEdges, (c.tailName ab.1, cname ab.2) ∈ walkEdges (x :: t) → ch ab ∈ l) := by
  have hwf := cwc_expandedST_wf hok
  intro t
  induction t with
  | nil =>
    intro x _ hlast _ hsnk
    simp at hlast
    exact absurd hlast hsnk
  | cons y t ih =>
    intro x hw hlast hxs hxt u hu hxu
    have hxy : (x, y) ∈ c.expandedST.g.edges := hw _ (by rw [walkEdges_cons_cons]; exact List.mem_cons_self)
    have hw' : IsWalkIn c.expandedST.g (y :: t) := fun e he => hw e (walkEdges_sub_cons x _ e he)
    have hlast' : (y :: t).getLast? = some snkName := by rw [List.getLast?_cons_cons] at hlast; exact hlast
    rw [walkEdges_cons_cons]
    rcases cwc_expandedST_edges_cases hok hxy with ⟨k, hk, ht, heq⟩ | ⟨ab, hab, heq⟩ | ⟨h1, _⟩ | ⟨h2, _⟩
    · -- the edge of an SCC
      have hx : x = cname k := congrArg Prod.fst heq
      have hy : y = cexp k := congrArg Prod.snd heq
      have hku : k = c.comp u := by
        rcases hxu with h | h
        · exact cwc_cname_inj (hx.symm.trans h)
        · exact absurd (hx.symm.trans h) (cwc_cname_ne_cexp _ _)
      subst hku
      obtain ⟨l', hl', hm', hc'⟩ := ih y hw' hlast' (hy ▸ cwc_cexp_ne_src _) (hy ▸ cwc_cexp_ne_snk _)
        u hu (Or.inr hy)
      obtain ⟨lM, hlM, hcM⟩ := cwc_scc_tour hok hu
      refine ⟨lM ++ l', hlM.append hl', ?_, ?_⟩
      · intro k' hk' e he
        rcases List.mem_cons.1 hk' with h | h
        · have : k' = c.comp u := cwc_cname_inj ((congrArg Prod.fst h).trans hx)
          subst this
          exact List.mem_append_left _ (hcM e he)
        · exact List.mem_append_right _ (hm' k' h e he)
      · intro ab hab h
        rcases List.mem_cons.1 h with h | h
        · exact absurd ((congrArg Prod.snd h).trans hy) (cwc_cname_ne_cexp _ _)
        · exact List.mem_append_right _ (hc' ab hab h)
    · -- an edge of the condensation
      have hx : x = c.tailName ab.1 := congrArg Prod.fst heq
      have hy : y = cname ab.2 := congrArg Prod.snd heq
      have hua : c.comp u = ab.1 := cwc_tailName_eq hxu hx
      obtain ⟨he, h1, h2⟩ := hch ab hab
      have he1 := (hok.closed _ he).1
      have he2 := (hok.closed _ he).2
      obtain ⟨l1, hl1⟩ := cwc_walk_of_reach (cwc_same_comp_reach hok hu he1 (hua.trans h1.symm))
      obtain ⟨l', hl', hm', hc'⟩ := ih y hw' hlast' (hy ▸ cwc_cname_ne_src _) (hy ▸ cwc_cname_ne_snk _)
        (ch ab).2 he2 (Or.inl (by rw [hy, h2]))
      refine ⟨l1 ++ ((ch ab).1, (ch ab).2) :: l', hl1.append (CwcWalk.cons he hl'), ?_, ?_⟩
      · intro k' hk' e he'
        rcases List.mem_cons.1 hk' with h | h
        · exact absurd ((congrArg Prod.snd h).trans hy).symm (cwc_cname_ne_cexp _ _)
        · exact List.mem_append_right _ (List.mem_cons_of_mem _ (hm' k' h e he'))
      · intro ab' hab' h
        rcases List.mem_cons.1 h with h | h
        · have e1 := cwc_tailName_inj ((congrArg Prod.fst h).trans hx)
          have e2 := cwc_cname_inj ((congrArg Prod.snd h).trans hy)
          have : ab' = ab := Prod.ext e1 e2
          subst this
          exact List.mem_append_right _ List.mem_cons_self
        · exact List.mem_append_right _ (List.mem_cons_of_mem _ (hc' ab' hab' h))
    · exact absurd h1 hxs
    · -- the last edge, into the sink
      simp only at h2
      subst h2
      have ht : t = [] := by
        cases t with
        | nil => rfl
        | cons z t' =>
          have : (snkName, z) ∈ c.expandedST.g.edges :=
            hw' _ (by rw [walkEdges_cons_cons]; exact List.mem_cons_self)
          exact absurd rfl (hwf.snkNoOut _ this)
      subst ht
      obtain ⟨l, hl⟩ := cwc_walk_of_reach (hlive u hu).2
      refine ⟨l, hl, ?_, ?_⟩
      · intro k' hk'
        simp only [walkEdges_single, List.mem_cons, List.not_mem_nil, or_false] at hk'
        exact absurd (congrArg Prod.snd hk') (cwc_cexp_ne_snk _)
      · intro ab _ h
        simp only [walkEdges_single, List.mem_cons, List.not_mem_nil, or_false] at h
        exact absurd (congrArg Prod.snd h) (cwc_cname_ne_snk _)

include hok hlive hch in
/-- **lifting.** -/
theorem cwc_lift_route {r : List Node} (hr : IsSTWalk c.expandedST r) :
    ∃ p, IsSTWalk ⟨c.g, srcName, snkName⟩ p ∧
      (∀ k, (cname k, cexp k) ∈ walkEdges r → ∀ e ∈ c.members k, e ∈ walkEdges p) ∧
      (∀ ab ∈ c.condEdges, (c.tailName ab.1, cname ab.2) ∈ walkEdges r → ch ab ∈ walkEdges p) := by
  have hwf := cwc_expandedST_wf hok
  obtain ⟨q, rfl⟩ := stwalk_shape hwf.ne hr
  have hsrc : c.expandedST.source = srcName := rfl
  have hsnk : c.expandedST.sink = snkName := rfl
  rw [hsrc, hsnk] at hr ⊢
  cases q with
  | nil =>
    have := hr.walk (srcName, snkName) (by simp [walkEdges])
    exact absurd this (hsrc ▸ hsnk ▸ hwf.noDirect)
  | cons y q =>
    have hw := hr.walk
    simp only [List.cons_append] at hw ⊢
    have hsy : (srcName, y) ∈ c.expandedST.g.edges :=
      hw _ (by rw [walkEdges_cons_cons]; exact List.mem_cons_self)
    have hw' : IsWalkIn c.expandedST.g (y :: (q ++ [snkName])) :=
      fun e he => hw e (walkEdges_sub_cons _ _ e he)
    have hlast' : (y :: (q ++ [snkName])).getLast? = some snkName := by
      have : y :: (q ++ [snkName]) = (y :: q) ++ [snkName] := rfl
      rw [this, List.getLast?_append]; simp
    -- `y` is a node of the expanded condensation
    have hy : y ∈ c.expanded.nodes := by
      rcases cwc_expandedST_edges_cases hok hsy with ⟨k, _, _, heq⟩ | ⟨ab, _, heq⟩ | ⟨_, h⟩ | ⟨h, _⟩
      · exact absurd (congrArg Prod.fst heq).symm (cwc_cname_ne_src _)
      · exact absurd (congrArg Prod.fst heq).symm (cwc_tailName_ne_src _)
      · exact h
      · exact absurd (hsrc ▸ hsnk ▸ h ▸ hsy) hwf.noDirect
    obtain ⟨k, hk, hyk⟩ := cwc_mem_expanded_nodes.1 hy
    obtain ⟨u, hu, rfl⟩ := cwc_mem_condNodes.1 hk
    have hys : y ≠ srcName := by
      rcases hyk with h | ⟨_, h⟩ <;> rw [h]
      · exact cwc_cname_ne_src _
      · exact cwc_cexp_ne_src _
    have hyt : y ≠ snkName := by
      rcases hyk with h | ⟨_, h⟩ <;> rw [h]
      · exact cwc_cname_ne_snk _
      · exact cwc_cexp_ne_snk _
    obtain ⟨l, hl, hm, hc⟩ := cwc_lift_suffix hok hlive ch hch _ y hw' hlast' hys hyt u hu
      (hyk.imp id (fun h => h.2))
    obtain ⟨l0, hl0⟩ := cwc_walk_of_reach (hlive u hu).1
    obtain ⟨p, hp1, hp2, hp3, hp4⟩ := cwc_walk_nodes (hl0.append hl)
    refine ⟨p, ⟨hp1, hp2, fun e he => hp4 e (hp3 ▸ he)⟩, ?_, ?_⟩
    · intro k' hk' e he
      rw [walkEdges_cons_cons] at hk'
      rcases List.mem_cons.1 hk' with h | h
      · exact absurd (congrArg Prod.fst h) (cwc_cname_ne_src _)
      · rw [hp3]; exact List.mem_append_right _ (hm k' h e he)
    · intro ab hab h
      rw [walkEdges_cons_cons] at h
      rcases List.mem_cons.1 h with h | h
      · exact absurd (congrArg Prod.fst h) (cwc_tailName_ne_src _)
      · rw [hp3]; exact List.mem_append_right _ (hc ab hab h)

end Lift

end FP
