import FP.Spec.GenSet
/-!
# FP.Proofs.GenSetSpec — facts about generating multisets that do not mention any encoding

* the executable enumeration is `Generates`;
* complement closure for multiplicity 1 (and `0`, `total` always generated);
* invariance under permutation; monotonicity in the multiplicity; padding with a `0`;
* the difference construction: `n` numbers in `[0, total]` always have a generating multiset with `n + 1`
  elements.
-/
namespace FP.Spec

/-! ### `dot` -/

@[simp] theorem dot_nil_left (g : List Rat) : dot [] g = 0 := by cases g <;> rfl
@[simp] theorem dot_nil_right (c : List Nat) : dot c [] = 0 := by cases c <;> rfl
@[simp] theorem dot_cons (c : Nat) (cs : List Nat) (g : Rat) (gs : List Rat) :
    dot (c :: cs) (g :: gs) = (c : Rat) * g + dot cs gs := rfl

theorem dot_replicate_zero (g : List Rat) : dot (List.replicate g.length 0) g = 0 := by
  induction g with
  | nil => simp
  | cons x xs ih => simp only [List.length_cons, List.replicate_succ, dot_cons, ih]; grind

theorem dot_replicate_one (g : List Rat) : dot (List.replicate g.length 1) g = g.sum := by
  induction g with
  | nil => simp
  | cons x xs ih => simp only [List.length_cons, List.replicate_succ, dot_cons, ih, List.sum_cons]; grind

theorem dot_append (c1 c2 : List Nat) (g1 g2 : List Rat) (h : c1.length = g1.length) :
    dot (c1 ++ c2) (g1 ++ g2) = dot c1 g1 + dot c2 g2 := by
  induction c1 generalizing g1 with
  | nil =>
    cases g1 with
    | nil => simp only [List.nil_append, dot_nil_left]; grind
    | cons _ _ => simp at h
  | cons c cs ih =>
    cases g1 with
    | nil => simp at h
    | cons x xs =>
      simp only [List.cons_append, dot_cons]
      rw [ih xs (by simpa using h)]
      grind

theorem dot_map_range (l : List Nat) (f : Nat → Nat) (h : Nat → Rat) :
    dot (l.map f) (l.map h) = (l.map fun i => (f i : Rat) * h i).sum := by
  induction l with
  | nil => simp
  | cons x xs ih => simp [ih]

/-! ### enumeration -/

theorem mem_coeffLists (mult : Nat) : ∀ (n : Nat) (c : List Nat),
    c ∈ coeffLists mult n ↔ c.length = n ∧ ∀ ci ∈ c, ci ≤ mult := by
  intro n
  induction n with
  | zero =>
    intro c
    simp only [coeffLists, List.mem_singleton]
    constructor
    · rintro rfl; simp
    · rintro ⟨h, _⟩; exact List.length_eq_zero_iff.1 h
  | succ n ih =>
    intro c
    simp only [coeffLists, List.mem_flatMap, List.mem_map, List.mem_range]
    constructor
    · rintro ⟨c0, hc0, cs, hcs, rfl⟩
      obtain ⟨h1, h2⟩ := (ih cs).1 hcs
      refine ⟨by simp [h1], ?_⟩
      intro ci hci
      rcases List.mem_cons.1 hci with rfl | hm
      · omega
      · exact h2 ci hm
    · rintro ⟨hlen, hall⟩
      cases c with
      | nil => simp at hlen
      | cons c0 cs =>
        refine ⟨c0, ?_, cs, (ih cs).2 ⟨by simpa using hlen, fun ci hci => hall ci (List.mem_cons_of_mem _ hci)⟩, rfl⟩
        have := hall c0 (List.mem_cons_self ..)
        omega

theorem generatesB_iff (g : List Rat) (mult : Nat) (x : Rat) :
    generatesB g mult x = true ↔ Generates g mult x := by
  unfold generatesB Generates
  rw [List.any_eq_true]
  constructor
  · rintro ⟨c, hc, hd⟩
    obtain ⟨h1, h2⟩ := (mem_coeffLists mult _ c).1 hc
    exact ⟨c, h1, h2, by simpa using hd⟩
  · rintro ⟨c, h1, h2, h3⟩
    exact ⟨c, (mem_coeffLists mult _ c).2 ⟨h1, h2⟩, by simpa using h3⟩

instance (g : List Rat) (mult : Nat) (x : Rat) : Decidable (Generates g mult x) :=
  decidable_of_iff _ (generatesB_iff g mult x)

/-! ### always generated: `0`, and (multiplicity ≥ 1) the sum -/

theorem generates_zero (g : List Rat) (mult : Nat) : Generates g mult 0 :=
  ⟨List.replicate g.length 0, by simp, by
    intro ci hci; rw [(List.mem_replicate.1 hci).2]; exact Nat.zero_le _, dot_replicate_zero g⟩

theorem generates_sum (g : List Rat) (mult : Nat) (hm : 1 ≤ mult) : Generates g mult g.sum :=
  ⟨List.replicate g.length 1, by simp, by
    intro ci hci; rw [(List.mem_replicate.1 hci).2]; exact hm, dot_replicate_one g⟩

theorem generates_mono (g : List Rat) (m1 m2 : Nat) (h : m1 ≤ m2) (x : Rat)
    (hx : Generates g m1 x) : Generates g m2 x := by
  obtain ⟨c, h1, h2, h3⟩ := hx
  exact ⟨c, h1, fun ci hci => Nat.le_trans (h2 ci hci) h, h3⟩

/-! ### complement closure (multiplicity 1) -/

theorem dot_complement (c : List Nat) (g : List Rat) (hlen : c.length = g.length)
    (h01 : ∀ ci ∈ c, ci ≤ 1) : dot (c.map fun ci => 1 - ci) g = g.sum - dot c g := by
  induction c generalizing g with
  | nil =>
    cases g with
    | nil => simp only [List.map_nil, dot_nil_left, List.sum_nil]; grind
    | cons _ _ => simp at hlen
  | cons c0 cs ih =>
    cases g with
    | nil => simp at hlen
    | cons x xs =>
      simp only [List.map_cons, dot_cons, List.sum_cons]
      rw [ih xs (by simpa using hlen) (fun ci hci => h01 ci (List.mem_cons_of_mem _ hci))]
      have : c0 ≤ 1 := h01 c0 (List.mem_cons_self ..)
      have h : c0 = 0 ∨ c0 = 1 := by omega
      rcases h with rfl | rfl <;> simp <;> grind

/-- if `g` generates `x` with every element used at most once, it also generates `Σ g − x`
(use the complementary sub-multiset) -/
theorem generates_complement (g : List Rat) (x : Rat) (h : Generates g 1 x) :
    Generates g 1 (g.sum - x) := by
  obtain ⟨c, h1, h2, h3⟩ := h
  refine ⟨c.map fun ci => 1 - ci, by simpa using h1, ?_, ?_⟩
  · intro ci hci
    obtain ⟨d, _, rfl⟩ := List.mem_map.1 hci
    omega
  · rw [dot_complement c g h1 h2, h3]

/-! ### permutations -/

theorem generates_perm {g g' : List Rat} (hp : g.Perm g') (mult : Nat) :
    ∀ x, Generates g mult x → Generates g' mult x := by
  induction hp with
  | nil => intro x h; exact h
  | cons a _ ih =>
    rintro x ⟨c, h1, h2, h3⟩
    cases c with
    | nil => simp at h1
    | cons c0 cs =>
      obtain ⟨cs', h1', h2', h3'⟩ := ih (dot cs _) ⟨cs, by simpa using h1,
        fun ci hci => h2 ci (List.mem_cons_of_mem _ hci), rfl⟩
      refine ⟨c0 :: cs', by simp [h1'], ?_, ?_⟩
      · intro ci hci
        rcases List.mem_cons.1 hci with rfl | hm
        · exact h2 _ (List.mem_cons_self ..)
        · exact h2' ci hm
      · rw [← h3]; simp [h3']
  | swap a b l =>
    rintro x ⟨c, h1, h2, h3⟩
    match c, h1, h2, h3 with
    | c0 :: c1 :: cs, h1, h2, h3 =>
      refine ⟨c1 :: c0 :: cs, by simpa using h1, ?_, ?_⟩
      · intro ci hci
        apply h2
        simp only [List.mem_cons] at hci ⊢
        rcases hci with h | h | h
        · exact Or.inr (Or.inl h)
        · exact Or.inl h
        · exact Or.inr (Or.inr h)
      · rw [← h3]; simp only [dot_cons]; grind
    | [], h1, _, _ => simp at h1
    | [_], h1, _, _ => simp at h1
  | trans _ _ ih1 ih2 => intro x h; exact ih2 x (ih1 x h)

theorem genset_sum_perm {g g' : List Rat} (hp : g.Perm g') : g.sum = g'.sum := by
  induction hp with
  | nil => rfl
  | cons a _ ih => simp [ih]
  | swap a b l => simp only [List.sum_cons]; grind
  | trans _ _ ih1 ih2 => rw [ih1, ih2]

/-- being a generating multiset does not depend on the order of the elements -/
theorem isGenSet_perm {g g' : List Rat} (hp : g.Perm g') (total : Rat) (numbers : List Rat) (mult : Nat)
    (h : IsGenSet g total numbers mult) : IsGenSet g' total numbers mult := by
  obtain ⟨h1, h2, h3⟩ := h
  exact ⟨by rw [← genset_sum_perm hp]; exact h1, fun x hx => h2 x (hp.mem_iff.2 hx),
    fun a ha => generates_perm hp mult a (h3 a ha)⟩

/-- padding with a zero keeps a generating multiset: feasibility is monotone in the size -/
theorem isGenSet_cons_zero (g : List Rat) (total : Rat) (numbers : List Rat) (mult : Nat)
    (h : IsGenSet g total numbers mult) : IsGenSet (0 :: g) total numbers mult := by
  obtain ⟨h1, h2, h3⟩ := h
  refine ⟨by simp only [List.sum_cons, h1]; grind, ?_, ?_⟩
  · intro x hx
    rcases List.mem_cons.1 hx with rfl | hm
    · exact Rat.le_refl
    · exact h2 x hm
  · intro a ha
    obtain ⟨c, hc1, hc2, hc3⟩ := h3 a ha
    refine ⟨0 :: c, by simp [hc1], ?_, by simp only [dot_cons, hc3]; grind⟩
    intro ci hci
    rcases List.mem_cons.1 hci with rfl | hm
    · exact Nat.zero_le _
    · exact hc2 ci hm

/-! ### the difference construction: an upper bound on the optimum -/

/-- consecutive differences `a₁ − p, a₂ − a₁, …` -/
def diffs : Rat → List Rat → List Rat
  | _, [] => []
  | p, a :: rest => (a - p) :: diffs a rest

/-- last element (or `p` for the empty list) -/
def lastD : Rat → List Rat → Rat
  | p, [] => p
  | _, a :: rest => lastD a rest

theorem diffs_length (p : Rat) (l : List Rat) : (diffs p l).length = l.length := by
  induction l generalizing p with
  | nil => rfl
  | cons a rest ih => simp [diffs, ih]

theorem diffs_sum (p : Rat) (l : List Rat) : (diffs p l).sum = lastD p l - p := by
  induction l generalizing p with
  | nil => simp [diffs, lastD]; grind
  | cons a rest ih => simp only [diffs, lastD, List.sum_cons, ih]; grind

theorem diffs_generates (tail : List Rat) : ∀ (l : List Rat) (p x : Rat), x ∈ l →
    Generates (diffs p l ++ tail) 1 (x - p) := by
  intro l
  induction l with
  | nil => intro p x hx; simp at hx
  | cons a rest ih =>
    intro p x hx
    by_cases hxa : x = a
    · subst hxa
      refine ⟨1 :: List.replicate (diffs x rest ++ tail).length 0, by simp [diffs], ?_, ?_⟩
      · intro ci hci
        rcases List.mem_cons.1 hci with rfl | hm
        · exact Nat.le_refl _
        · rw [(List.mem_replicate.1 hm).2]; exact Nat.zero_le _
      · simp only [diffs, List.cons_append, dot_cons, dot_replicate_zero]; grind
    · have hm : x ∈ rest := by
        rcases List.mem_cons.1 hx with h | h
        · exact absurd h hxa
        · exact h
      obtain ⟨c, h1, h2, h3⟩ := ih a x hm
      refine ⟨1 :: c, by simp [diffs, h1], ?_, ?_⟩
      · intro ci hci
        rcases List.mem_cons.1 hci with rfl | hm
        · exact Nat.le_refl _
        · exact h2 ci hm
      · simp only [diffs, List.cons_append, dot_cons, h3]; grind

theorem diffs_nonneg : ∀ (l : List Rat) (p : Rat), (∀ x ∈ l, p ≤ x) → l.Pairwise (· ≤ ·) →
    ∀ y ∈ diffs p l, 0 ≤ y := by
  intro l
  induction l with
  | nil => intro p _ _ y hy; simp [diffs] at hy
  | cons a rest ih =>
    intro p hp hs y hy
    simp only [diffs, List.mem_cons] at hy
    rcases hy with rfl | hy
    · have := hp a (List.mem_cons_self ..); grind
    · have hs' := List.pairwise_cons.1 hs
      exact ih a hs'.1 hs'.2 y hy

theorem lastD_mem_or (p : Rat) (l : List Rat) : lastD p l = p ∨ lastD p l ∈ l := by
  induction l generalizing p with
  | nil => exact Or.inl rfl
  | cons a rest ih =>
    rcases ih a with h | h
    · exact Or.inr (by simp [lastD, h])
    · exact Or.inr (by simp [lastD, h])

/-- sorted numbers in `[0, total]`: differences plus the remainder generate them all -/
theorem diffSet_isGenSet (l : List Rat) (total : Rat) (h0 : 0 ≤ total) (hs : l.Pairwise (· ≤ ·))
    (hb : ∀ x ∈ l, 0 ≤ x ∧ x ≤ total) :
    IsGenSet (diffs 0 l ++ [total - lastD 0 l]) total l 1 := by
  refine ⟨?_, ?_, ?_⟩
  · rw [List.sum_append, diffs_sum]; simp; grind
  · intro y hy
    rcases List.mem_append.1 hy with h | h
    · exact diffs_nonneg l 0 (fun x hx => (hb x hx).1) hs y h
    · rw [List.mem_singleton.1 h]
      rcases lastD_mem_or 0 l with h' | h'
      · rw [h']; grind
      · have := (hb _ h').2; grind
  · intro a ha
    have := diffs_generates [total - lastD 0 l] l 0 a ha
    have e : a - 0 = a := by grind
    rwa [e] at this

end FP.Spec
