import FP.Proofs.Antichain
import FP.Proofs.GreedyStep
/-!
# FP.Proofs.AntichainMax — weak duality: no edge antichain weighs more than a feasible flow costs
-/
namespace FP
open FP.Spec

/-! ## sums -/

theorem sum_pick {α} [DecidableEq α] (L : List α) (hnd : L.Nodup) (a : α) (ha : a ∈ L) (c : α → Rat) :
    (L.map (fun v => if a = v then c v else 0)).sum = c a := by
  induction L with
  | nil => simp at ha
  | cons x xs ih =>
    have hx : x ∉ xs := (List.nodup_cons.1 hnd).1
    simp only [List.map_cons, List.sum_cons]
    by_cases h1 : a = x
    · subst h1
      have : (xs.map (fun v => if a = v then c v else 0)).sum = 0 := by
        apply sum_map_zero
        intro e he
        have : a ≠ e := fun h' => hx (h' ▸ he)
        simp [this]
      rw [this]; simp; grind
    · have h2 : a ∈ xs := by simpa [h1] using ha
      rw [ih (List.nodup_cons.1 hnd).2 h2]; simp [h1]; grind

theorem sum_filter_ite {α} (l : List α) (p : α → Bool) (h : α → Rat) :
    (l.map (fun e => if p e then h e else 0)).sum = ((l.filter p).map h).sum := by
  induction l with
  | nil => simp
  | cons x xs ih =>
    simp only [List.map_cons, List.sum_cons, List.filter_cons, ih]
    by_cases hp : p x = true
    · simp [hp]
    · simp [hp]; grind

/-- double counting: grouping a sum over edges by a key node -/
theorem sum_by_key (es : List Edge) (L : List Node) (hL : L.Nodup) (key : Edge → Node)
    (hcov : ∀ e ∈ es, key e ∈ L) (w : Node → Rat) (h : Edge → Rat) :
    (L.map (fun v => w v * ((es.filter (fun e => key e = v)).map h).sum)).sum =
      (es.map (fun e => w (key e) * h e)).sum := by
  induction es with
  | nil =>
    simp only [List.filter_nil, List.map_nil, List.sum_nil]
    apply sum_map_zero; intro v _; grind
  | cons e0 es ih =>
    have ih' := ih (fun e he => hcov e (by simp [he]))
    have h0 := hcov e0 (by simp)
    have hsplit : ∀ v, w v * (((e0 :: es).filter (fun e => key e = v)).map h).sum =
        (if key e0 = v then w v * h e0 else 0) + w v * ((es.filter (fun e => key e = v)).map h).sum := by
      intro v
      simp only [List.filter_cons]
      by_cases hk : key e0 = v
      · simp [hk]; grind
      · simp [hk]; grind
    have : (L.map (fun v => w v * (((e0 :: es).filter (fun e => key e = v)).map h).sum)) =
        L.map (fun v => (if key e0 = v then w v * h e0 else 0) + w v * ((es.filter (fun e => key e = v)).map h).sum) :=
      List.map_congr_left (fun v _ => hsplit v)
    rw [this, sum_map_add, ih', sum_pick L hL (key e0) h0 (fun v => w v * h e0)]
    simp only [List.map_cons, List.sum_cons]

theorem sum_filter_ne {α} [DecidableEq α] (L : List α) (a : α) (ha : a ∈ L) (h : α → Rat) (hnn : ∀ e ∈ L, 0 ≤ h e) :
    h a + ((L.filter (fun e => decide (e ≠ a))).map h).sum ≤ (L.map h).sum := by
  induction L with
  | nil => simp at ha
  | cons x xs ih =>
    have hx := hnn x (by simp)
    have hnn' : ∀ e ∈ xs, 0 ≤ h e := fun e he => hnn e (by simp [he])
    simp only [List.filter_cons, List.map_cons, List.sum_cons]
    by_cases hxa : x = a
    · subst hxa
      simp only [ne_eq, not_true_eq_false, decide_false, Bool.false_eq_true, if_false]
      have h1 : ((xs.filter (fun e => decide (e ≠ x))).map h).sum ≤ (xs.map h).sum := by
        clear ih ha
        induction xs with
        | nil => simp
        | cons y ys ih2 =>
          have hy := hnn' y (by simp)
          have := ih2 (fun e he => hnn e (by
            rcases List.mem_cons.1 he with h' | h'
            · simp [h']
            · simp [h'])) (fun e he => hnn' e (by simp [he]))
          simp only [List.filter_cons, List.map_cons, List.sum_cons]
          by_cases hyx : y = x
          · simp [hyx]; grind
          · simp [hyx]; grind
      grind
    · have ha' : a ∈ xs := by
        rcases List.mem_cons.1 ha with h' | h'
        · exact absurd h'.symm hxa
        · exact h'
      have := ih ha' hnn'
      simp [hxa]; grind

/-- a duplicate-free sub-collection of a list sums to at most the whole (non-negative terms) -/
theorem sum_sub_le {α} [DecidableEq α] (A : List α) (hA : A.Nodup) :
    ∀ (L : List α), (∀ e ∈ A, e ∈ L) → ∀ (h : α → Rat), (∀ e ∈ L, 0 ≤ h e) → (A.map h).sum ≤ (L.map h).sum := by
  induction A with
  | nil => intro L _ h hnn; simpa using sum_map_nonneg L h hnn
  | cons a A ih =>
    intro L hsub h hnn
    have ha : a ∈ L := hsub a (by simp)
    have haA : a ∉ A := (List.nodup_cons.1 hA).1
    have hsub' : ∀ e ∈ A, e ∈ L.filter (fun e => decide (e ≠ a)) := by
      intro e he
      refine List.mem_filter.2 ⟨hsub e (by simp [he]), ?_⟩
      have : e ≠ a := fun h' => haA (h' ▸ he)
      simp [this]
    have := ih (List.nodup_cons.1 hA).2 _ hsub' h (fun e he => hnn e (List.mem_filter.1 he).1)
    have h2 := sum_filter_ne L a ha h hnn
    simp only [List.map_cons, List.sum_cons]
    grind

/-! ## the value of a flow across a predecessor-closed cut -/

/-- `x` is a feasible flow for the demands `d`: at least the demand on every edge, conserved at
every node other than the two terminals -/
structure FeasibleFlow (g : Graph) (src snk : Node) (d x : Edge → Rat) : Prop where
  ge : ∀ e ∈ g.edges, d e ≤ x e
  cons : ∀ v ∈ g.nodes, v ≠ src → v ≠ snk → inflowOf g x v = outflowOf g x v

/-- net flow out of the source (the cost `Σ c·x` of the min-cost-flow instance, all of whose unit
costs sit on the source edges, when the source has no in-edges) -/
def flowValue (g : Graph) (src : Node) (x : Edge → Rat) : Rat := outflowOf g x src - inflowOf g x src

theorem cut_value (g : Graph) (hN : g.nodes.Nodup) (hwf : ∀ e ∈ g.edges, e.1 ∈ g.nodes ∧ e.2 ∈ g.nodes)
    (src snk : Node) (hsrc : src ∈ g.nodes) (x : Edge → Rat)
    (hcons : ∀ v ∈ g.nodes, v ≠ src → v ≠ snk → inflowOf g x v = outflowOf g x v)
    (S : Node → Bool) (hS : S src = true) (hT : S snk = false)
    (hclosed : ∀ e ∈ g.edges, S e.2 = true → S e.1 = true) :
    flowValue g src x = ((g.edges.filter (fun e => S e.1 && !S e.2)).map x).sum := by
  let w : Node → Rat := fun v => if S v then 1 else 0
  have hA := sum_by_key g.edges g.nodes hN (fun e => e.1) (fun e he => (hwf e he).1) w x
  have hB := sum_by_key g.edges g.nodes hN (fun e => e.2) (fun e he => (hwf e he).2) w x
  -- node side
  have hnode : (g.nodes.map (fun v => w v * outflowOf g x v - w v * inflowOf g x v)).sum = flowValue g src x := by
    have : g.nodes.map (fun v => w v * outflowOf g x v - w v * inflowOf g x v) =
        g.nodes.map (fun v => if src = v then flowValue g src x else 0) := by
      apply List.map_congr_left
      intro v hv
      by_cases hvs : src = v
      · subst hvs; simp [w, hS, flowValue]
      · simp only [hvs, if_false]
        by_cases hSv : S v = true
        · have hvt : v ≠ snk := fun h => by rw [h, hT] at hSv; simp at hSv
          have := hcons v hv (fun h => hvs h.symm) hvt
          simp [w, hSv]; grind
        · simp [w, hSv]; grind
    rw [this, sum_pick g.nodes hN src hsrc (fun _ => flowValue g src x)]
  -- edge side
  have hedge : (g.edges.map (fun e => w e.1 * x e - w e.2 * x e)).sum =
      ((g.edges.filter (fun e => S e.1 && !S e.2)).map x).sum := by
    rw [← sum_filter_ite]
    congr 1
    apply List.map_congr_left
    intro e he
    have hc := hclosed e he
    by_cases h1 : S e.1 = true <;> by_cases h2 : S e.2 = true
    · simp [w, h1, h2]; grind
    · simp [w, h1, h2]; grind
    · exact absurd (hc h2) h1
    · simp [w, h1, h2]; grind
  rw [← hnode, sum_map_sub, ← hedge, sum_map_sub]
  unfold outflowOf inflowOf
  rw [hA, hB]

end FP

namespace FP
open FP.Spec

theorem reach_rank {es : List Edge} (rank : Node → Nat) (hr : ∀ e ∈ es, rank e.1 < rank e.2) {x y : Node}
    (h : Reach es x y) : rank x ≤ rank y := by
  induction h with
  | refl => exact Nat.le_refl _
  | step _ he ih => have := hr _ he; simp at this; omega

theorem pairwise_mem {α} {R : α → α → Prop} (hsym : ∀ a b, R a b → R b a) (l : List α) (h : l.Pairwise R)
    (a b : α) (ha : a ∈ l) (hb : b ∈ l) (hne : a ≠ b) : R a b := by
  induction l with
  | nil => simp at ha
  | cons x l ih =>
    obtain ⟨hx, hl⟩ := List.pairwise_cons.1 h
    rcases List.mem_cons.1 ha with rfl | ha' <;> rcases List.mem_cons.1 hb with rfl | hb'
    · exact absurd rfl hne
    · exact hx b hb'
    · exact hsym _ _ (hx a ha')
    · exact ih hl ha' hb'

theorem sum_le_sum {α} (l : List α) (f h : α → Rat) (hle : ∀ e ∈ l, f e ≤ h e) : (l.map f).sum ≤ (l.map h).sum := by
  induction l with
  | nil => simp
  | cons x xs ih =>
    have := ih (fun e he => hle e (by simp [he]))
    have hx := hle x (by simp)
    simp only [List.map_cons, List.sum_cons]; grind

/-- **weak duality.** In an s-t DAG (source without in-edges, sink without out-edges) with
non-negative demands, the total demand of any duplicate-free edge antichain is at most the value of
any feasible flow. -/
theorem edgeAntichain_weak_duality (g : Graph) (hN : g.nodes.Nodup)
    (hwf : ∀ e ∈ g.edges, e.1 ∈ g.nodes ∧ e.2 ∈ g.nodes) (topo : List Node) (htopo : IsTopo g.edges topo)
    (src snk : Node) (hsrc : src ∈ g.nodes) (hps : g.pred src = []) (hss : g.succ snk = []) (hne : src ≠ snk)
    (d x : Edge → Rat) (hd : ∀ e ∈ g.edges, 0 ≤ d e) (hx : FeasibleFlow g src snk d x)
    (A' : List Edge) (hA' : IsEdgeAntichain g A') (hnd : A'.Nodup) :
    (A'.map d).sum ≤ flowValue g src x := by
  classical
  let S : Node → Bool := fun v => decide (v = src ∨ ∃ e ∈ A', Reach g.edges v e.1)
  have hSdef : ∀ v, S v = true ↔ (v = src ∨ ∃ e ∈ A', Reach g.edges v e.1) := by
    intro v; simp [S]
  have nopred : ∀ u, (u, src) ∉ g.edges := by
    intro u h; have := mem_pred.2 h; rw [hps] at this; simp at this
  have nosucc : ∀ w, (snk, w) ∉ g.edges := by
    intro w h; have := mem_succ.2 h; rw [hss] at this; simp at this
  have hS : S src = true := (hSdef src).2 (Or.inl rfl)
  have hT : S snk = false := by
    apply Bool.eq_false_iff.2
    intro h
    rcases (hSdef snk).1 h with h | ⟨e, he, hr⟩
    · exact hne h.symm
    · rcases reach_head_cases hr with h1 | ⟨y, hy, _⟩
      · have hee := hA'.1 e he
        have : e = (snk, e.2) := by rw [h1]
        rw [this] at hee; exact nosucc _ hee
      · exact nosucc _ hy
  have hclosed : ∀ e ∈ g.edges, S e.2 = true → S e.1 = true := by
    intro e he h
    rcases (hSdef e.2).1 h with h | ⟨e', he', hr⟩
    · have : e = (e.1, src) := by rw [← h]
      rw [this] at he; exact absurd he (nopred _)
    · exact (hSdef e.1).2 (Or.inr ⟨e', he', Reach.head (by simpa using he) hr⟩)
  have hcut := cut_value g hN hwf src snk hsrc x hx.cons S hS hT hclosed
  have hleave : ∀ e ∈ A', e ∈ g.edges.filter (fun e => S e.1 && !S e.2) := by
    intro e he
    have hee := hA'.1 e he
    refine List.mem_filter.2 ⟨hee, ?_⟩
    have h1 : S e.1 = true := (hSdef e.1).2 (Or.inr ⟨e, he, Reach.refl _⟩)
    have h2 : S e.2 = false := by
      apply Bool.eq_false_iff.2
      intro h
      rcases (hSdef e.2).1 h with h | ⟨e', he', hr⟩
      · have : e = (e.1, src) := by rw [← h]
        rw [this] at hee; exact nopred _ hee
      · by_cases hsame : e' = e
        · subst hsame
          have h3 : topo.idxOf e'.2 ≤ topo.idxOf e'.1 :=
            reach_rank (fun v => topo.idxOf v) (topo_rank htopo) hr
          have h4 : topo.idxOf e'.1 < topo.idxOf e'.2 := topo_rank htopo e' hee
          omega
        · have := pairwise_mem (R := fun e e' => ¬ Comparable g e e')
            (fun a b hab hba => hab (hba.elim Or.inr Or.inl)) A' hA'.2 e e' he he' (fun h' => hsame h'.symm)
          exact this (Or.inl hr)
    simp [h1, h2]
  have hxnn : ∀ e ∈ g.edges.filter (fun e => S e.1 && !S e.2), 0 ≤ x e := by
    intro e he
    have hee := (List.mem_filter.1 he).1
    exact Rat.le_trans (hd e hee) (hx.ge e hee)
  have h1 : (A'.map d).sum ≤ (A'.map x).sum := sum_le_sum A' d x (fun e he => hx.ge e (hA'.1 e he))
  have h2 := sum_sub_le A' hnd _ hleave x hxnn
  rw [hcut]
  exact Rat.le_trans h1 h2

theorem sum_eq_length {α} (l : List α) (h : α → Rat) (h1 : ∀ e ∈ l, h e = 1) : (l.map h).sum = (l.length : Nat) := by
  induction l with
  | nil => simp
  | cons x xs ih =>
    have := ih (fun e he => h1 e (by simp [he]))
    simp only [List.map_cons, List.sum_cons, List.length_cons, h1 x (by simp), this]
    rw [Rat.natCast_add]; simp; grind

/-- **maximality of the returned antichain.** If the extraction succeeded, the final `assert`
held (`cost = Σ_{e ∈ A} demand e`, resp. `cost = len(A)` in the default branch where all demands
are 0 or 1) and `cost` is the value of a feasible flow, then `A` is an antichain of maximum total
demand among all duplicate-free antichains, and its weight is `cost`. -/
theorem acResult_max (a : ACInput) (hN : a.g.nodes.Nodup)
    (hwf : ∀ e ∈ a.g.edges, e.1 ∈ a.g.nodes ∧ e.2 ∈ a.g.nodes) (topo : List Node) (htopo : IsTopo a.g.edges topo)
    (hsrc : a.source ∈ a.g.nodes) (hps : a.g.pred a.source = []) (hss : a.g.succ a.sink = [])
    (hne : a.source ≠ a.sink) (hd : ∀ e ∈ a.g.edges, 0 ≤ a.demand e)
    (hx : FeasibleFlow a.g a.source a.sink a.demand a.flow) (cost : Rat) (hcost : cost = flowValue a.g a.source a.flow)
    (useLen : Bool) (hlen : useLen = true → ∀ e ∈ a.g.edges, a.demand e ≤ 1)
    (A : List Edge) (h : acResult a cost useLen = .ok (some A)) :
    IsEdgeAntichain a.g A ∧ (A.map a.demand).sum = cost ∧
      ∀ A', IsEdgeAntichain a.g A' → A'.Nodup → (A'.map a.demand).sum ≤ (A.map a.demand).sum := by
  unfold acResult at h
  cases hex : acExtract a with
  | error e => rw [hex] at h; simp at h
  | ok o =>
    cases o with
    | none => rw [hex] at h; simp at h
    | some A0 =>
      rw [hex] at h
      simp only at h
      obtain ⟨vis1, _, _, _, _, hgood, hanti⟩ := acExtract_sound a A0 hex
      have hw : (if useLen = true then ((A0.length : Nat) : Rat) else (A0.map a.demand).sum) = (A0.map a.demand).sum := by
        by_cases hu : useLen = true
        · rw [if_pos hu]
          symm
          apply sum_eq_length
          intro e he
          have g1 := hgood e he
          exact Rat.le_antisymm (hlen hu e g1.1) g1.2.2.2.2
        · rw [if_neg hu]
      rw [hw] at h
      by_cases hc : cost = (A0.map a.demand).sum
      · rw [if_pos hc] at h
        have hAA : A0 = A := by simpa using h
        subst hAA
        refine ⟨hanti, hc.symm, ?_⟩
        intro A' hA' hnd
        rw [← hc, hcost]
        exact edgeAntichain_weak_duality a.g hN hwf topo htopo a.source a.sink hsrc hps hss hne a.demand a.flow hd hx A' hA' hnd
      · rw [if_neg hc] at h; simp at h

end FP
