import FP.Model.Enc.KMPE
import FP.Proofs.C10Ignore
/-!
# FP.Proofs.C10IgnoreMPE — ignoring an edge in `kmpeLP` (kMinPathError)

Columns and objective of `kmpeLP` do not depend on the set of non-ignored edges (given the weight
bound); its class rows are three per-edge blocks (product `pi`, product `gamma`, the two error
rows). Ignoring `e` deletes exactly `e`'s three blocks; a scale factor 0 gives the same LP.
-/
namespace FP
open FP.Spec

def MpeInput.ignoreMore (inp : MpeInput) (e : Edge) : MpeInput := { inp with ei := inp.ei.ignoreMore e }

/-- `kMinPathError._encode_minpatherror_decomposition`, body of the edge loops for one edge -/
def kmpeEdgeRows (inp : MpeInput) (e : Edge) : List Row :=
  let k := inp.ei.k
  let wm := inp.ei.wmax none
  coupleBin [e] k piVar weightsVar wm ++ coupleBin [e] k gammaVar inp.slackFor wm
    ++ errRows (inp.ei.fi.f e) (inp.ei.scale e) (ones (List.range k) (piVar e)) (ones (List.range k) (gammaVar e))

theorem c10_perm_join {α} {A A' a B B' b : List α} (h1 : A.Perm (A' ++ a)) (h2 : B.Perm (B' ++ b)) :
    (A ++ B).Perm ((A' ++ B') ++ (a ++ b)) := by
  refine (List.Perm.append h1 h2).trans ?_
  rw [List.append_assoc, List.append_assoc]
  apply List.Perm.append_left
  rw [← List.append_assoc, ← List.append_assoc]
  exact List.Perm.append_right _ List.perm_append_comm

theorem c10_perm_flatMap_pull {α β} (g : α → List β) (l l' : List α) (e : α) (hp : l.Perm (e :: l')) :
    (l.flatMap g).Perm (l'.flatMap g ++ g e) := by
  have := List.Perm.flatMap_right g hp
  refine this.trans ?_
  simp only [List.flatMap_cons]
  exact List.perm_append_comm

theorem c10_perm_blocks3 {α β} (E : List β) (g1 g2 h : α → List β) (l l' : List α) (e : α)
    (hp : l.Perm (e :: l')) :
    (E ++ (l.flatMap g1 ++ l.flatMap g2 ++ l.flatMap h)).Perm
      ((E ++ (l'.flatMap g1 ++ l'.flatMap g2 ++ l'.flatMap h)) ++ (g1 e ++ g2 e ++ h e)) := by
  have key := c10_perm_join (c10_perm_join (c10_perm_flatMap_pull g1 l l' e hp) (c10_perm_flatMap_pull g2 l l' e hp))
    (c10_perm_flatMap_pull h l l' e hp)
  have := List.Perm.append_left E key
  simpa only [List.append_assoc] using this

/-- everything of `kmpeLP` that does not depend on the set of non-ignored edges -/
def kmpeHead (s : STGraph) (cfg : PathCfg) (isInt : Bool) (inp : MpeInput) (k : Nat) (wm : Rat) : LP :=
  ((encodePaths s cfg).append
    { cols := ((List.range k).map fun i => { v := weightsVar i, lb := 0, ub := some wm, isInt := isInt })
        ++ ((List.range k).flatMap fun i => s.g.edges.map fun ed =>
            { v := piVar ed i, lb := 0, ub := some wm, isInt := isInt })
        ++ slackCols k wm isInt ++ gammaCols s k wm }).append (factorBlock inp k wm)

def kmpeRows (k : Nat) (f sc : Edge → Rat) (slackFor : Nat → Var) (basic : List Edge) (wm : Rat) : List Row :=
  coupleBin basic k piVar weightsVar wm ++ coupleBin basic k gammaVar slackFor wm
    ++ basic.flatMap fun ed =>
      errRows (f ed) (sc ed) (ones (List.range k) (piVar ed)) (ones (List.range k) (gammaVar ed))

theorem kmpeLP_eq (inp : MpeInput) :
    kmpeLP inp = (kmpeHead inp.ei.st inp.ei.fi.cfg inp.ei.fi.weightInt inp inp.ei.k (inp.ei.wmax none)).append
      { rows := kmpeRows inp.ei.k inp.ei.fi.f inp.ei.scale inp.slackFor inp.ei.basicEdges (inp.ei.wmax none),
        obj := mpeObj inp.ei.k } := rfl

theorem kmpeHead_ignoreMore (inp : MpeInput) (e : Edge) (k : Nat) (wm : Rat) :
    kmpeHead inp.ei.st inp.ei.fi.cfg inp.ei.fi.weightInt (inp.ignoreMore e) k wm
      = kmpeHead inp.ei.st inp.ei.fi.cfg inp.ei.fi.weightInt inp k wm := rfl

/-- **row deletion, list form** -/
theorem kmpe_ignore_filter (inp : MpeInput) (e : Edge)
    (hw : (inp.ei.ignoreMore e).wmax none = inp.ei.wmax none) :
    kmpeLP (inp.ignoreMore e) =
      (kmpeHead inp.ei.st inp.ei.fi.cfg inp.ei.fi.weightInt inp inp.ei.k (inp.ei.wmax none)).append
        { rows := kmpeRows inp.ei.k inp.ei.fi.f inp.ei.scale inp.slackFor
            (inp.ei.basicEdges.filter fun e' => e' != e) (inp.ei.wmax none),
          obj := mpeObj inp.ei.k } := by
  rw [kmpeLP_eq]
  show (kmpeHead inp.ei.st inp.ei.fi.cfg inp.ei.fi.weightInt (inp.ignoreMore e) inp.ei.k
      ((inp.ei.ignoreMore e).wmax none)).append
    { rows := kmpeRows inp.ei.k inp.ei.fi.f inp.ei.scale inp.slackFor (inp.ei.ignoreMore e).basicEdges
        ((inp.ei.ignoreMore e).wmax none), obj := mpeObj inp.ei.k } = _
  rw [hw, err_ignoreMore_basic, kmpeHead_ignoreMore]

theorem kmpeEdgeRows_eq (inp : MpeInput) (e : Edge) :
    kmpeEdgeRows inp e =
      (fun e => (List.range inp.ei.k).flatMap fun i =>
        binProd (edgeVar e i) (weightsVar i) (piVar e i) 0 (inp.ei.wmax none)) e
      ++ (fun e => (List.range inp.ei.k).flatMap fun i =>
        binProd (edgeVar e i) (inp.slackFor i) (gammaVar e i) 0 (inp.ei.wmax none)) e
      ++ (fun ed => errRows (inp.ei.fi.f ed) (inp.ei.scale ed) (ones (List.range inp.ei.k) (piVar ed))
          (ones (List.range inp.ei.k) (gammaVar ed))) e := by
  simp [kmpeEdgeRows, coupleBin]

/-- **kMinPathError: ignoring an edge deletes exactly its three blocks** (same weight bound);
columns and objective are unchanged -/
theorem kmpe_ignore_is_row_deletion (inp : MpeInput) (e : Edge) (hnd : inp.ei.st.g.edges.Nodup)
    (he : e ∈ inp.ei.basicEdges) (hw : (inp.ei.ignoreMore e).wmax none = inp.ei.wmax none) :
    (kmpeLP (inp.ignoreMore e)).cols = (kmpeLP inp).cols ∧
    (kmpeLP (inp.ignoreMore e)).obj = (kmpeLP inp).obj ∧
    (kmpeLP inp).rows.Perm ((kmpeLP (inp.ignoreMore e)).rows ++ kmpeEdgeRows inp e) := by
  rw [kmpe_ignore_filter inp e hw, kmpeLP_eq]
  refine ⟨rfl, rfl, ?_⟩
  have hp := c10_perm_cons_filter_ne inp.ei.basicEdges (hnd.sublist List.filter_sublist) e he
  rw [kmpeEdgeRows_eq]
  simp only [LP.append, kmpeRows, coupleBin]
  exact c10_perm_blocks3 _ _ _ _ _ _ e hp

/-- ignoring relaxes (same weight bound): every feasible assignment stays feasible -/
theorem kmpe_ignore_relaxes (inp : MpeInput) (e : Edge)
    (hw : (inp.ei.ignoreMore e).wmax none = inp.ei.wmax none) (a : Asg) (hsat : Sat a (kmpeLP inp)) :
    Sat a (kmpeLP (inp.ignoreMore e)) := by
  rw [kmpe_ignore_filter inp e hw]
  rw [kmpeLP_eq] at hsat
  refine ⟨hsat.1, fun r hr => hsat.2 r ?_⟩
  simp only [LP.append, List.mem_append, kmpeRows, coupleBin, List.mem_flatMap] at hr ⊢
  rcases hr with h | (⟨x, hx, h⟩ | ⟨x, hx, h⟩) | ⟨x, hx, h⟩
  · exact Or.inl h
  · exact Or.inr (Or.inl (Or.inl ⟨x, c10_filter_ne_subset _ e x hx, h⟩))
  · exact Or.inr (Or.inl (Or.inr ⟨x, c10_filter_ne_subset _ e x hx, h⟩))
  · exact Or.inr (Or.inr ⟨x, c10_filter_ne_subset _ e x hx, h⟩)

theorem klae_ignore_relaxes (inp : ErrInput) (e : Edge)
    (hw : (inp.ignoreMore e).wmax none = inp.wmax none) (a : Asg) (hsat : Sat a (klaeLP inp)) :
    Sat a (klaeLP (inp.ignoreMore e)) := by
  rw [klae_ignore_filter inp e hw]
  rw [klaeLP_eq] at hsat
  constructor
  · intro c hc
    apply hsat.1 c
    simp only [LP.append, klaePart, List.mem_append, List.mem_map] at hc ⊢
    rcases hc with h | (h | h) | ⟨x, hx, h⟩
    · exact Or.inl h
    · exact Or.inr (Or.inl (Or.inl h))
    · exact Or.inr (Or.inl (Or.inr h))
    · exact Or.inr (Or.inr ⟨x, c10_filter_ne_subset _ e x hx, h⟩)
  · intro r hr
    apply hsat.2 r
    simp only [LP.append, klaePart, coupleBin, List.mem_append, List.mem_flatMap] at hr ⊢
    rcases hr with h | ⟨x, hx, h⟩ | ⟨x, hx, h⟩
    · exact Or.inl h
    · exact Or.inr (Or.inl ⟨x, c10_filter_ne_subset _ e x hx, h⟩)
    · exact Or.inr (Or.inr ⟨x, c10_filter_ne_subset _ e x hx, h⟩)

/-! ## error scale 0 ≡ ignore, for both error models -/

/-- the input with `e`'s error scale set to 0 -/
def ErrInput.scaleZero (inp : ErrInput) (e : Edge) : ErrInput := { inp with scaling := (e, 0) :: inp.scaling }

theorem scaleZero_ignored (inp : ErrInput) (e e' : Edge) :
    (inp.scaleZero e).ignored e' = (inp.ignoreMore e).ignored e' := by
  rw [err_ignoreMore_ignored]
  unfold ErrInput.ignored ErrInput.scaleZero
  simp only [List.any_cons]
  have : ((e == e') : Bool) = (e' == e) := by
    by_cases h : e = e'
    · subst h; rfl
    · have h' : ¬ e' = e := fun h'' => h h''.symm
      rw [beq_eq_false_iff_ne.2 h, beq_eq_false_iff_ne.2 h']
  rw [this]
  cases inp.fi.ignored e' <;> cases (e' == e) <;>
    cases (inp.scaling.any fun p => p.1 == e' && p.2 == 0) <;> simp

theorem scaleZero_basic (inp : ErrInput) (e : Edge) :
    (inp.scaleZero e).basicEdges = (inp.ignoreMore e).basicEdges := by
  unfold ErrInput.basicEdges
  apply List.filter_congr
  intro x _
  rw [scaleZero_ignored]

theorem scaleZero_wmax (inp : ErrInput) (e : Edge) :
    (inp.scaleZero e).wmax none = (inp.ignoreMore e).wmax none := by
  unfold ErrInput.wmax
  rw [scaleZero_basic]
  rfl

theorem scaleZero_scale (inp : ErrInput) (e x : Edge) (hx : x ∈ (inp.ignoreMore e).basicEdges) :
    (inp.scaleZero e).scale x = (inp.ignoreMore e).scale x := by
  have hxe : x ≠ e := by
    rw [err_ignoreMore_basic] at hx
    simpa using (List.mem_filter.1 hx).2
  unfold ErrInput.scale ErrInput.scaleZero lookupD
  have hbeq : (x == e) = false := by simpa using hxe
  simp [List.lookup_cons, hbeq]
  rfl

theorem c10_flatMap_congr_mem {α β} (l : List α) (f g : α → List β) (h : ∀ x ∈ l, f x = g x) :
    l.flatMap f = l.flatMap g := by
  induction l with
  | nil => rfl
  | cons x xs ih =>
    simp only [List.flatMap_cons]
    rw [h x (by simp), ih (fun y hy => h y (by simp [hy]))]

theorem kmpeRows_congr_scale (k : Nat) (f sc sc' : Edge → Rat) (slackFor : Nat → Var) (basic : List Edge)
    (wm : Rat) (h : ∀ x ∈ basic, sc x = sc' x) :
    kmpeRows k f sc slackFor basic wm = kmpeRows k f sc' slackFor basic wm := by
  unfold kmpeRows
  congr 1
  apply c10_flatMap_congr_mem
  intro x hx
  rw [h x hx]

/-- **kMinPathError: error scale 0 produces the same LP as ignoring the edge** -/
theorem kmpe_scale_zero_eq_ignore (inp : MpeInput) (e : Edge) :
    kmpeLP { inp with ei := inp.ei.scaleZero e } = kmpeLP (inp.ignoreMore e) := by
  rw [kmpeLP_eq, kmpeLP_eq]
  show (kmpeHead inp.ei.st inp.ei.fi.cfg inp.ei.fi.weightInt inp inp.ei.k ((inp.ei.scaleZero e).wmax none)).append
      { rows := kmpeRows inp.ei.k inp.ei.fi.f (inp.ei.scaleZero e).scale inp.slackFor (inp.ei.scaleZero e).basicEdges
          ((inp.ei.scaleZero e).wmax none), obj := mpeObj inp.ei.k }
    = (kmpeHead inp.ei.st inp.ei.fi.cfg inp.ei.fi.weightInt inp inp.ei.k ((inp.ei.ignoreMore e).wmax none)).append
      { rows := kmpeRows inp.ei.k inp.ei.fi.f (inp.ei.ignoreMore e).scale inp.slackFor (inp.ei.ignoreMore e).basicEdges
          ((inp.ei.ignoreMore e).wmax none), obj := mpeObj inp.ei.k }
  rw [scaleZero_wmax, scaleZero_basic,
    kmpeRows_congr_scale _ _ _ _ _ _ _ (fun x hx => scaleZero_scale inp.ei e x hx)]

end FP
