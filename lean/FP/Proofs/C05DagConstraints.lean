import FP.Proofs.C05DagLayers
/-!
# FP.Proofs.C05DagConstraints — appending and dropping subpath constraints

* `c05d_append_constraints` — a satisfying assignment of `_encode_paths` stays one, up to the `r` columns, when lists
  that lie completely in some layer are appended to the subpath constraints (they share the coverage fraction of
  the user's constraints, which must not exceed 1; lengths non-negative): the responsible layers of the old
  constraints are kept (C10 `constraint_honoured`), the new ones get the layer that contains them, and C10
  `constraint_complete` sets the `r` columns;
* `c05d_drop_constraints` — conversely the same assignment satisfies the LP with the appended lists removed (the
  old constraints keep their indices, so their columns and rows 7a / 7b are among the new ones).
-/
namespace FP
open FP.Spec FP.Safety

/-- the configuration with `E` appended to the subpath constraints -/
def PathCfg.appendConstraints (c : PathCfg) (E : List (List Edge)) : PathCfg :=
  { c with constraints := c.constraints ++ E }

theorem c05d_withSafety_eq (c : PathCfg) (fr : PathSafetyFrag) : c.withSafety fr = c.appendConstraints fr.constraints := rfl

/-- route `P i` contains the requested fraction of the constraint `con` (the two coverage modes of rows 7a) -/
def CovOK (c : PathCfg) (P : Nat → List Edge) (i : Nat) (con : List Edge) : Prop :=
  match c.coverageLength with
  | none => (con.length : Rat) * c.coverage ≤ ((con.countP (fun e => decide (e ∈ P i)) : Nat) : Rat)
  | some cl => (con.map c.len).sum * cl ≤ (con.map fun e => if e ∈ P i then c.len e else 0).sum

section
variable {s : STGraph} {c : PathCfg} {a : Asg}

theorem c05d_sat_noConstraints (hsat : Sat a (encodePaths s c)) : Sat a (encodePaths s c.noConstraints) := by
  have hcore := sat_append_left a _ _ (sat_append_left a _ _ hsat)
  have hpos : Sat a (positionBlock s c) := sat_append_right a _ _ hsat
  unfold encodePaths
  constructor
  · intro col hcol
    simp only [LP.append, List.mem_append] at hcol
    rcases hcol with (h | h) | h
    · exact hcore.1 col h
    · simp [subpathBlock, PathCfg.noConstraints] at h
    · exact hpos.1 col h
  · intro r hr
    simp only [LP.append, List.mem_append] at hr
    rcases hr with (h | h) | h
    · exact hcore.2 r (List.mem_append.2 h)
    · simp [subpathBlock, PathCfg.noConstraints] at h
    · exact hpos.2 r h

theorem c05d_mem_walk_of_one (hwf : STWF s) (hsat : Sat a (encodePaths s c)) {i : Nat} (hi : i < c.k) {e : Edge}
    (he : e ∈ s.g.edges) (h1 : a (edgeVar e i) = 1) : e ∈ walkEdges (dagLayerWalk s a i) :=
  (c05d_layer_walk hwf hsat hi he h1).2

/-- **appended lists that lie in some layer keep the LP satisfiable** -/
theorem c05d_append_constraints (hwf : STWF s) (hsat : Sat a (encodePaths s c))
    (hcons : ∀ con ∈ c.constraints, ∀ e ∈ con, e ∈ s.g.edges)
    (E : List (List Edge)) (hE : ∀ q ∈ E, SomeLayerHas s a c.k q)
    (hcov : c.coverageLength = none → c.coverage ≤ 1)
    (hcl : ∀ cl, c.coverageLength = some cl → cl ≤ 1)
    (hlen : ∀ e ∈ s.g.edges, 0 ≤ c.len e) :
    ∃ a', Sat a' (encodePaths s (c.appendConstraints E)) ∧ ∀ v, v.isR = false → a' v = a v := by
  let c' := c.appendConstraints E
  let P : Nat → List Edge := fun i => walkEdges (dagLayerWalk s a i)
  have hk : c'.k = c.k := rfl
  have hedges' : ∀ j (hj : j < c'.constraints.length), ∀ e ∈ c'.constraints[j], e ∈ s.g.edges := by
    intro j hj e he
    have hmem : c'.constraints[j] ∈ c.constraints ++ E := List.getElem_mem hj
    rcases List.mem_append.1 hmem with h | h
    · exact hcons _ h e he
    · obtain ⟨i, _, hl⟩ := hE _ h
      exact (hl e he).1
  have hx : ∀ i, i < c'.k → ∀ j (hj : j < c'.constraints.length), ∀ e ∈ c'.constraints[j],
      a (edgeVar e i) = if e ∈ P i then 1 else 0 := by
    intro i hi j hj e he
    exact c05d_layer_indicator hwf hsat hi e (hedges' j hj e he)
  have hlen' : ∀ j (hj : j < c'.constraints.length), ∀ e ∈ c'.constraints[j], 0 ≤ c'.len e :=
    fun j hj e he => hlen e (hedges' j hj e he)
  -- a responsible layer for every constraint, old or new
  have hmemcov : ∀ con ∈ c.constraints ++ E, ∃ i, i < c.k ∧ CovOK c P i con := by
    intro con hmem
    rcases List.mem_append.1 hmem with hmem | hmem
    · obtain ⟨j, hjC, rfl⟩ := List.mem_iff_getElem.1 hmem
      have hed : ∀ e ∈ c.constraints[j], e ∈ s.g.edges := hcons _ (List.getElem_mem hjC)
      unfold CovOK
      cases hc : c.coverageLength with
      | none =>
        obtain ⟨i, hi, _, p, hp, hle⟩ := constraint_honoured s c a hwf hsat hc j hjC hed
        refine ⟨i, hi, ?_⟩
        simp only
        have hP : P i = walkEdges (s.source :: p ++ [s.sink]) := by
          show walkEdges (dagLayerWalk s a i) = _
          unfold dagLayerWalk; rw [hp]
        rw [hP]; exact hle
      | some cl =>
        obtain ⟨i, hi, _, p, hp, hle⟩ := constraint_honoured_length s c a hwf hsat cl hc j hjC hed
        refine ⟨i, hi, ?_⟩
        simp only
        have hP : P i = walkEdges (s.source :: p ++ [s.sink]) := by
          show walkEdges (dagLayerWalk s a i) = _
          unfold dagLayerWalk; rw [hp]
        rw [hP]; exact hle
    · obtain ⟨i, hi, hl⟩ := hE _ hmem
      refine ⟨i, hi, ?_⟩
      have hall : ∀ e ∈ con, e ∈ P i := fun e he =>
        c05d_mem_walk_of_one hwf hsat hi (hl e he).1 (hl e he).2
      unfold CovOK
      cases hc : c.coverageLength with
      | none =>
        simp only
        have hcnt : List.countP (fun e => decide (e ∈ P i)) con = con.length :=
          List.countP_eq_length.2 (fun e he => by simpa using hall e he)
        rw [hcnt]
        have h0 : (0 : Rat) ≤ (con.length : Rat) := by
          have : ((0 : Nat) : Rat) ≤ (con.length : Rat) := Rat.natCast_le_natCast.2 (Nat.zero_le _)
          simpa using this
        have := Rat.mul_le_mul_of_nonneg_left (hcov hc) h0
        rw [Rat.mul_one] at this
        exact this
      | some cl =>
        simp only
        have hsum : (con.map fun e => if e ∈ P i then c.len e else 0).sum = (con.map c.len).sum := by
          congr 1
          apply List.map_congr_left
          intro e he
          rw [if_pos (hall e he)]
        rw [hsum]
        have h0 : 0 ≤ (con.map c.len).sum := sum_map_nonneg _ _ (fun e he => hlen e (hl e he).1)
        have := Rat.mul_le_mul_of_nonneg_left (hcl cl hc) h0
        rw [Rat.mul_one] at this
        exact this
  have hex : ∀ j (hj : j < c'.constraints.length), ∃ i, i < c'.k ∧
      match c'.coverageLength with
      | none => (c'.constraints[j].length : Rat) * c'.coverage ≤
          ((c'.constraints[j].countP (fun e => decide (e ∈ P i)) : Nat) : Rat)
      | some cl => (c'.constraints[j].map c'.len).sum * cl ≤
          (c'.constraints[j].map fun e => if e ∈ P i then c'.len e else 0).sum :=
    fun j hj => hmemcov _ (List.getElem_mem hj)
  let resp : Nat → Nat := fun j =>
    if hj : j < c'.constraints.length then Classical.choose (hex j hj) else 0
  have hresp : ∀ j (hj : j < c'.constraints.length), resp j < c'.k ∧
      match c'.coverageLength with
      | none => (c'.constraints[j].length : Rat) * c'.coverage ≤
          ((c'.constraints[j].countP (fun e => decide (e ∈ P (resp j))) : Nat) : Rat)
      | some cl => (c'.constraints[j].map c'.len).sum * cl ≤
          (c'.constraints[j].map fun e => if e ∈ P (resp j) then c'.len e else 0).sum := by
    intro j hj
    have : resp j = Classical.choose (hex j hj) := by
      show (if hj : j < c'.constraints.length then Classical.choose (hex j hj) else 0) = _
      rw [dif_pos hj]
    rw [this]
    exact Classical.choose_spec (hex j hj)
  have hnc : c'.noConstraints = c.noConstraints := rfl
  have hsat0 : Sat a (encodePaths s c'.noConstraints) := by
    rw [hnc]; exact c05d_sat_noConstraints hsat
  obtain ⟨h1, h2⟩ := constraint_complete s c' a P resp hsat0 hx hlen' hresp
  exact ⟨withR a resp, h1, h2⟩

/-! ## dropping the appended lists -/

theorem c05d_subpathBlock_drop (E : List (List Edge)) (h : Sat a (subpathBlock (c.appendConstraints E))) :
    Sat a (subpathBlock c) := by
  by_cases hne : c.constraints.isEmpty = true
  · have : subpathBlock c = {} := by simp [subpathBlock, hne]
    rw [this]
    exact ⟨fun _ hc => by simp at hc, fun _ hr => by simp at hr⟩
  have hne' : c.constraints.isEmpty = false := by simpa using hne
  have hne2 : (c.appendConstraints E).constraints.isEmpty = false := by
    show (c.constraints ++ E).isEmpty = false
    cases hc : c.constraints with
    | nil => simp [hc] at hne'
    | cons x xs => rfl
  have hlen : c.constraints.length ≤ (c.constraints ++ E).length := by
    rw [List.length_append]; omega
  unfold subpathBlock at h ⊢
  rw [hne2] at h
  rw [hne']
  simp only [Bool.false_eq_true, if_false] at h ⊢
  constructor
  · intro col hcol
    apply h.1
    obtain ⟨i, hi, hc⟩ := List.mem_flatMap.1 hcol
    obtain ⟨j, hj, rfl⟩ := List.mem_map.1 hc
    exact List.mem_flatMap.2 ⟨i, hi, List.mem_map.2 ⟨j, List.mem_range.2 (by
      have := List.mem_range.1 hj
      show j < (c.constraints ++ E).length
      omega), rfl⟩⟩
  · intro r hr
    apply h.2
    rcases List.mem_append.1 hr with hr | hr
    · apply List.mem_append_left
      obtain ⟨i, hi, hc⟩ := List.mem_flatMap.1 hr
      obtain ⟨⟨j, con⟩, hjc, rfl⟩ := List.mem_map.1 hc
      refine List.mem_flatMap.2 ⟨i, hi, List.mem_map.2 ⟨(j, con), ?_, rfl⟩⟩
      obtain ⟨hj, hget⟩ := c10_mem_zip_range_inv _ j con hjc
      have hj2 : j < (c.constraints ++ E).length := by omega
      have : (c.constraints ++ E)[j] = con := by
        rw [List.getElem_append_left hj]; exact hget.symm
      rw [← this]
      exact c10_mem_zip_range _ j hj2
    · apply List.mem_append_right
      obtain ⟨j, hj, rfl⟩ := List.mem_map.1 hr
      exact List.mem_map.2 ⟨j, List.mem_range.2 (by
        have := List.mem_range.1 hj
        show j < (c.constraints ++ E).length
        omega), rfl⟩

/-- **dropping appended constraints keeps an assignment feasible** -/
theorem c05d_drop_constraints (E : List (List Edge)) (h : Sat a (encodePaths s (c.appendConstraints E))) :
    Sat a (encodePaths s c) := by
  have hcore := sat_append_left a _ _ (sat_append_left a _ _ h)
  have hsub := c05d_subpathBlock_drop E (sat_subpathBlock s _ a h)
  have hpos : Sat a (positionBlock s c) := sat_append_right a _ _ h
  unfold encodePaths
  constructor
  · intro col hcol
    simp only [LP.append, List.mem_append] at hcol
    rcases hcol with (h | h) | h
    · exact hcore.1 col h
    · exact hsub.1 col h
    · exact hpos.1 col h
  · intro r hr
    simp only [LP.append, List.mem_append] at hr
    rcases hr with (h | h) | h
    · exact hcore.2 r (List.mem_append.2 h)
    · exact hsub.2 r h
    · exact hpos.2 r h

end
end FP
