import FP.Spec.ErrModels
import FP.Proofs.KFD
/-!
# FP.Proofs.RouteFacts — the indicator of a route is a unit source-to-sink flow

For `Route s ae p` on a well-formed s-t DAG: `trav s p` is 0/1 on the edges of the graph, has
out-flow 1 (0 for the unused layer) at the source and is conserved at every inner node. These are
the facts needed to show that the indicator assignment of k routes satisfies `encodePaths`
(`FP.Proofs.PathCoreComplete`).
-/
namespace FP
open FP.Spec

theorem cntR_eq_count_p07 (P : List Edge) (e : Edge) : cntR P e = ((P.count e : Nat) : Rat) := by
  induction P with
  | nil => simp [cntR]
  | cons p P ih =>
    rw [cntR_cons, ih, List.count_cons]
    by_cases h : e = p
    · subst h; simp [Rat.natCast_add]; grind
    · have : ¬ (p == e) = true := by simpa using fun h' => h h'.symm
      simp [h, this]; grind

theorem trav_eq_cntR_p07 (s : STGraph) (p : List Node) (e : Edge) :
    trav s p e = cntR (walkEdges (full s p)) e := by
  rw [cntR_eq_count_p07]; rfl

theorem trav_nonneg (s : STGraph) (p : List Node) (e : Edge) : 0 ≤ trav s p e := Rat.natCast_nonneg

section
variable {s : STGraph} {ae : Bool} {p : List Node}

theorem trav_empty (hwf : STWF s) (e : Edge) (he : e ∈ s.g.edges) : trav s [] e = 0 := by
  have hne : e ≠ (s.source, s.sink) := fun h => hwf.noDirect (h ▸ he)
  have hc : List.count e (walkEdges (full s [])) = 0 := by
    apply List.count_eq_zero.2
    simpa [full, walkEdges] using hne
  unfold trav traversals
  rw [hc]; simp

theorem route_cases (h : Route s ae p) :
    p = [] ∨ (p ≠ [] ∧ IsWalkIn s.g (full s p) ∧ (full s p).Nodup) := by
  rcases h with h | h
  · exact Or.inl h.1
  · exact Or.inr h

theorem trav01 (hwf : STWF s) (h : Route s ae p) (e : Edge) (he : e ∈ s.g.edges) :
    trav s p e = 0 ∨ trav s p e = 1 := by
  rcases route_cases h with rfl | ⟨_, _, hnd⟩
  · exact Or.inl (trav_empty hwf e he)
  · rw [trav_eq_cntR_p07]
    by_cases hm : e ∈ walkEdges (full s p)
    · exact Or.inr (cntR_mem _ (walkEdges_nodup _ hnd) e hm)
    · exact Or.inl (cntR_not_mem _ e hm)

theorem trav_le_one_p07 (hwf : STWF s) (h : Route s ae p) (e : Edge) (he : e ∈ s.g.edges) :
    trav s p e ≤ 1 := by
  rcases trav01 hwf h e he with h0 | h1
  · rw [h0]; decide
  · rw [h1]; decide

theorem source_not_mem_of_route (hnd : (full s p).Nodup) : s.source ∉ p := by
  intro hm
  have := (List.nodup_cons.1 (by simpa [full] using hnd : (s.source :: (p ++ [s.sink])).Nodup)).1
  exact this (List.mem_append_left _ hm)

/-- out-flow at the source: 1 for a used layer, 0 for an unused one -/
theorem route_src (hwf : STWF s) (h : Route s ae p) :
    outflow s.g (trav s p) s.source = if p = [] then 0 else 1 := by
  rcases route_cases h with rfl | ⟨hp, hwalk, hnd⟩
  · simp only [if_true]
    exact sum_map_zero _ _ (fun e he => trav_empty hwf e (List.mem_filter.1 he).1)
  · simp only [hp, if_false]
    have hfun : trav s p = cntR (walkEdges (full s p)) := funext (trav_eq_cntR_p07 s p)
    rw [hfun, outflow_cntR s.g hwf.edgesNodup _ hwalk, tails_walkEdges]
    exact occR_head p _ _ (source_not_mem_of_route hnd)

/-- conservation at every node other than the synthetic ones -/
theorem route_cons (hwf : STWF s) (h : Route s ae p) (v : Node) (h1 : v ≠ s.source) (h2 : v ≠ s.sink) :
    inflow s.g (trav s p) v = outflow s.g (trav s p) v := by
  rcases route_cases h with rfl | ⟨_, hwalk, _⟩
  · unfold inflow outflow
    rw [sum_map_zero _ _ (fun e he => trav_empty hwf e (List.mem_filter.1 he).1),
        sum_map_zero _ _ (fun e he => trav_empty hwf e (List.mem_filter.1 he).1)]
  · have hfun : trav s p = cntR (walkEdges (full s p)) := funext (trav_eq_cntR_p07 s p)
    rw [hfun, inflow_cntR s.g hwf.edgesNodup _ hwalk, outflow_cntR s.g hwf.edgesNodup _ hwalk,
      heads_walkEdges, tails_walkEdges]
    exact occR_inner p _ _ _ h1 h2

end

/-! ## counting the edges of a route (for the position / path-length columns) -/

theorem nat_sum_map_zero {α} (l : List α) (f : α → Nat) (h : ∀ e ∈ l, f e = 0) : (l.map f).sum = 0 := by
  induction l with
  | nil => simp
  | cons x xs ih =>
    simp only [List.map_cons, List.sum_cons, h x (by simp), ih (fun e he => h e (by simp [he]))]

theorem nat_sum_map_add_p07 {α} (l : List α) (f g : α → Nat) :
    (l.map fun e => f e + g e).sum = (l.map f).sum + (l.map g).sum := by
  induction l with
  | nil => simp
  | cons x xs ih => simp only [List.map_cons, List.sum_cons, ih]; omega

theorem sum_indicator_le_one {α} [DecidableEq α] (l : List α) (hnd : l.Nodup) (p : α) :
    (l.map fun e => if p = e then 1 else 0).sum ≤ 1 := by
  induction l with
  | nil => simp
  | cons x xs ih =>
    have hx := List.nodup_cons.1 hnd
    simp only [List.map_cons, List.sum_cons]
    by_cases h : p = x
    · subst h
      have : (xs.map fun e => if p = e then 1 else 0).sum = 0 := by
        apply nat_sum_map_zero
        intro e he
        have : p ≠ e := fun h' => hx.1 (h' ▸ he)
        simp [this]
      simp [this]
    · have := ih hx.2
      simp [h]; exact this

/-- over a duplicate-free list of edges the traversal counts of any vertex sequence add up to at
most the number of its consecutive pairs -/
theorem sum_count_le_length (l : List Edge) (hnd : l.Nodup) (P : List Edge) :
    (l.map fun e => P.count e).sum ≤ P.length := by
  induction P with
  | nil => simp [nat_sum_map_zero]
  | cons q P ih =>
    have h1 : (l.map fun e => (q :: P).count e)
        = l.map fun e => P.count e + (if q = e then 1 else 0) := by
      apply List.map_congr_left; intro e _
      rw [List.count_cons]; simp
    rw [h1, nat_sum_map_add_p07]
    have := sum_indicator_le_one l hnd q
    simp only [List.length_cons]; omega

theorem nodup_subset_length {α} [DecidableEq α] (l m : List α) (hnd : l.Nodup) (hsub : ∀ x ∈ l, x ∈ m) :
    l.length ≤ m.length := by
  induction l generalizing m with
  | nil => simp
  | cons x xs ih =>
    have hx := List.nodup_cons.1 hnd
    have hxm : x ∈ m := hsub x (by simp)
    have := ih (m.erase x) hx.2 (fun y hy => by
      have hne : y ≠ x := fun h => hx.1 (h ▸ hy)
      exact (List.mem_erase_of_ne hne).2 (hsub y (by simp [hy])))
    rw [List.length_erase_of_mem hxm] at this
    have hpos : 0 < m.length := List.length_pos_of_mem hxm
    simp only [List.length_cons]; omega

theorem natCast_sum_p07 {α} (l : List α) (f : α → Nat) :
    (((l.map f).sum : Nat) : Rat) = (l.map fun x => ((f x : Nat) : Rat)).sum := by
  induction l with
  | nil => simp
  | cons x xs ih => simp only [List.map_cons, List.sum_cons, Rat.natCast_add, ih]

end FP
